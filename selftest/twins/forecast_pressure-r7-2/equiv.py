"""Equivalence driver for bluebonnet.forecast.forecast_pressure.

Run as:  PYTHONPATH=<tree>/src /venv/bin/python equiv.py <outfile>

Calls the public functions (and the private objective function with its
existing positional signature) on a broad set of inputs and writes every
result (full-precision reprs, or the exception type) to <outfile>.
"""

from __future__ import annotations

import os
import sys
import warnings

import matplotlib

matplotlib.use("Agg")

import matplotlib.pyplot as plt  # noqa: E402
import numpy as np  # noqa: E402
import pandas as pd  # noqa: E402
from lmfit import Parameters  # noqa: E402

from bluebonnet.flow import FlowProperties, SinglePhaseReservoir  # noqa: E402
from bluebonnet.forecast import (  # noqa: E402
    fit_production_pressure,
    plot_production_comparison,
)
from bluebonnet.forecast import forecast_pressure as fp  # noqa: E402

DATA = os.environ.get("BB_DATA", "/tmp/twin7_forecast_pressure/tests/data")
SIG = None  # set to 11 to round to 11 significant digits

out: list[str] = []


def fmt(x):
    """Full-precision (or rounded) textual form of a result."""
    if isinstance(x, (tuple, list)):
        return "[" + ", ".join(fmt(v) for v in x) + "]"
    if isinstance(x, pd.Series):
        return "Series(index=" + fmt(np.asarray(x.index)) + ", values=" + fmt(x.to_numpy()) + ")"
    if isinstance(x, np.ndarray):
        return f"array<{x.dtype},{x.shape}>" + fmt(x.ravel().tolist())
    if isinstance(x, (float, np.floating)):
        x = float(x)
        if SIG is not None and np.isfinite(x):
            return f"{x:.{SIG - 1}e}"
        return repr(x)
    if isinstance(x, (int, np.integer, bool, np.bool_, str, type(None))):
        return repr(x)
    return type(x).__name__ + ":" + repr(x)


def record(label, func):
    """Run func and record its result or the exception type."""
    with warnings.catch_warnings(record=True) as w:
        warnings.simplefilter("always")
        try:
            res = func()
            out.append(f"{label} -> {fmt(res)}")
        except Exception as e:  # noqa: BLE001
            out.append(f"{label} -> EXC {type(e).__name__}")
        cats = sorted({wi.category.__name__ for wi in w})
        out.append(f"{label} warnings: {len(w)} {cats}")
    plt.close("all")


def params_dump(params):
    """All the fields of a Parameters object that matter."""
    return [
        [name, p.value, p.min, p.max, p.vary, p.expr]
        for name, p in sorted(params.items())
    ]


def fit_dump(prod, pvt, *args, **kwargs):
    """Everything observable from a fit result."""
    prod_before = prod.copy()
    pvt_before = pvt.copy() if hasattr(pvt, "copy") else None
    in_params = kwargs.get("params")
    if in_params is None and len(args) > 6:
        in_params = args[6]
    if not isinstance(in_params, Parameters):
        in_params = None
    in_before = params_dump(in_params) if in_params is not None else None
    result = fit_production_pressure(prod, pvt, *args, **kwargs)
    res = [
        type(result).__name__,
        params_dump(result.params),
        list(result.init_vals),
        list(result.var_names),
        int(result.nfev),
        np.asarray(result.residual),
        result.method,
        bool(result.success),
        int(result.ndata),
        int(result.nvarys),
        float(result.chisqr),
        np.asarray(result.x),
        str(result.message),
        bool(result.aborted),
        repr(sorted(result.call_kws.items())),
        np.asarray(result.last_internal_values),
    ]
    # inputs are not mutated
    res.append(bool(prod.equals(prod_before)))
    if pvt_before is not None:
        res.append(bool(pvt.equals(pvt_before)))
    if in_before is not None:
        res.append(in_before == params_dump(in_params))
        res.append(result.params is in_params)
    return res


def plot_dump(prod, pvt, params, *args, **kwargs):
    """Everything observable from the comparison plot."""
    prod_before = prod.copy()
    n_before = len(plt.get_fignums())
    ret = plot_production_comparison(prod, pvt, params, *args, **kwargs)
    fig, axes = ret
    res = [type(ret).__name__, len(ret), type(axes).__name__, len(axes)]
    res.append(list(fig.get_size_inches()))
    res.append(len(fig.axes))
    res.append([ax is fax for ax, fax in zip(axes, fig.axes)])
    res.append(len(plt.get_fignums()) - n_before)
    for ax in axes:
        res.append(
            [
                ax.get_xlabel(),
                ax.get_ylabel(),
                ax.get_xscale(),
                ax.get_yscale(),
                list(ax.get_xlim()),
                list(ax.get_ylim()),
                ax.get_title(),
            ]
        )
        leg = ax.get_legend()
        res.append([t.get_text() for t in leg.get_texts()] if leg is not None else None)
        for line in ax.lines:
            res.append(
                [
                    line.get_label(),
                    line.get_linestyle(),
                    line.get_color(),
                    np.asarray(line.get_xdata()),
                    np.asarray(line.get_ydata()),
                ]
            )
    res.append(bool(prod.equals(prod_before)))
    res.append(params_dump(params))
    return res


def make_params(M=1300.0, tau=420.0, p_initial=5000.0):
    params = Parameters()
    params.add("M", M)
    params.add("tau", tau)
    params.add("p_initial", p_initial)
    return params


def make_fit_params(tau=60.0, M=900.0, p_initial=5200.0, tau_max=400.0):
    params = Parameters()
    params.add("tau", value=tau, min=30.0, max=tau_max)
    params.add("M", value=M, min=10.0, max=1e5)
    params.add("p_initial", value=p_initial, min=2000.0, max=9000.0)
    return params


def synthetic_production(pvt, n, p_i=5000.0, pf=500.0, tau=45.0, M=800.0, steps=True):
    """Daily production of a pressure-varying well, from the library itself."""
    days = np.arange(n, dtype=float)
    pressure = np.full(n, pf)
    if steps and n >= 4:
        pressure[n // 4 : n // 2] /= 2.0
        pressure[n // 2 :] /= 4.0
    flow = FlowProperties(pvt, p_i)
    res = SinglePhaseReservoir(40, pf, p_i, flow)
    res.simulate(days / tau, pressure)
    cum = M * res.recovery_factor()
    daily = np.diff(cum, prepend=0.0)
    daily[0] = cum[1] / 2 if n > 1 else 1.0
    return pd.DataFrame({"Days": days, "Gas": daily, "Pressure": pressure})


def main(outfile):
    pvt = pd.read_csv(os.path.join(DATA, "pvt_gas_HAYNESVILLE SHALE_20.csv"))
    pvt2 = pd.read_csv(os.path.join(DATA, "pvt_gas.csv")).rename(
        columns={
            "P": "pressure",
            "Z-Factor": "z-factor",
            "Cg": "compressibility",
            "Viscosity": "viscosity",
        }
    )[1:]
    # a short table with user-supplied diffusivity (takes the warning branch)
    pvt3 = pd.DataFrame(
        {
            "pressure": pvt["pressure"],
            "pseudopressure": pvt["pseudopressure"] + 1.0,
            "alpha": 1 / (pvt["compressibility"] * pvt["viscosity"]),
        }
    )
    prod80 = synthetic_production(pvt, 80)
    prod40 = synthetic_production(pvt, 40, steps=False)

    # ------------------------------------------------------------------
    # the objective function, with its existing positional signature
    # ------------------------------------------------------------------
    days = np.arange(0, 40)
    cum = np.cumsum(prod40["Gas"].to_numpy())
    pres = prod40["Pressure"].to_numpy()
    for tau, M, p_i in [(45.0, 800.0, 5000.0), (30.0, 10.0, 8000.0), (400.5, 1e5, 501.0)]:
        record(
            f"obj tau={tau} M={M} p={p_i}",
            lambda tau=tau, M=M, p_i=p_i: fp._obj_function(
                make_params(M, tau, p_i), days, cum, pvt, pres
            ),
        )
    record(
        "obj float days",
        lambda: fp._obj_function(make_params(700.0, 33.0, 6000.0), days * 1.0, cum, pvt, pres),
    )
    record(
        "obj other pvt",
        lambda: fp._obj_function(make_params(700.0, 33.0, 6000.0), days, cum, pvt2, pres),
    )
    record(
        "obj int params",
        lambda: fp._obj_function(make_params(1300, 420, 5000), days, cum, pvt, pres),
    )
    record(
        "obj numpy scalar params",
        lambda: fp._obj_function(
            make_params(np.float64(1300.5), np.float32(42.5), np.int64(5000)), days, cum, pvt, pres
        ),
    )
    record(
        "obj float32 data",
        lambda: fp._obj_function(
            make_params(1300.0, 42.0, 5000.0),
            days.astype(np.int32),
            cum.astype(np.float32),
            pvt,
            pres.astype(np.float32),
        ),
    )
    record(
        "obj unset param value",
        lambda: fp._obj_function(make_params(1300.0, None, 5000.0), days, cum, pvt, pres),
    )
    record(
        "obj alpha pvt",
        lambda: fp._obj_function(make_params(700.0, 33.0, 6000.0), days, cum, pvt3, pres),
    )
    record(
        "obj dict pvt",
        lambda: fp._obj_function(
            make_params(700.0, 33.0, 6000.0),
            days,
            cum,
            {k: pvt[k].to_numpy() for k in pvt.columns},
            pres,
        ),
    )
    record(
        "obj fracface == initial",
        lambda: fp._obj_function(make_params(700.0, 33.0, 500.0), days, cum, pvt, pres),
    )
    record(
        "obj fracface above initial",
        lambda: fp._obj_function(make_params(700.0, 33.0, 400.0), days, cum, pvt, pres),
    )
    record(
        "obj wrong pressure length",
        lambda: fp._obj_function(make_params(), days, cum, pvt, pres[:-1]),
    )
    record(
        "obj wrong production length",
        lambda: fp._obj_function(make_params(), days, cum[:-1], pvt, pres),
    )
    record(
        "obj p_initial beyond table",
        lambda: fp._obj_function(make_params(p_initial=20000.0), days, cum, pvt, pres),
    )
    record(
        "obj pressure beyond table",
        lambda: fp._obj_function(make_params(), days, cum, pvt, pres + 14000.0),
    )
    record(
        "obj negative pressure",
        lambda: fp._obj_function(make_params(), days, cum, pvt, pres - 1000.0),
    )
    record(
        "obj nan pressure",
        lambda: fp._obj_function(
            make_params(), days, cum, pvt, np.where(days == 5, np.nan, pres)
        ),
    )
    record(
        "obj bad pvt",
        lambda: fp._obj_function(make_params(), days, cum, pvt[["pressure", "viscosity"]], pres),
    )
    record(
        "obj missing param",
        lambda: fp._obj_function(Parameters(), days, cum, pvt, pres),
    )
    record(
        "obj len 1",
        lambda: fp._obj_function(make_params(), days[:1], cum[:1], pvt, pres[:1]),
    )
    record(
        "obj len 2",
        lambda: fp._obj_function(make_params(), days[:2], cum[:2], pvt, pres[:2]),
    )
    record(
        "obj len 0",
        lambda: fp._obj_function(make_params(), days[:0], cum[:0], pvt, pres[:0]),
    )
    record(
        "obj list inputs",
        lambda: fp._obj_function(make_params(), list(days[:5]), cum[:5], pvt, list(pres[:5])),
    )
    record(
        "obj zero tau",
        lambda: fp._obj_function(make_params(tau=0.0), days, cum, pvt, pres),
    )

    # ------------------------------------------------------------------
    # fit_production_pressure
    # ------------------------------------------------------------------
    record("fit default n_iter=6", lambda: fit_dump(prod80, pvt, 5000.0, n_iter=6))
    record("fit int pressure_initial", lambda: fit_dump(prod80, pvt, 5000, n_iter=3))
    record(
        "fit positional all",
        lambda: fit_dump(prod80, pvt, 5500.0, 3, 9000.0, 5000.0, True, 5),
    )
    record(
        "fit positional params",
        lambda: fit_dump(prod80, pvt, 5500.0, None, 9000.0, 5000.0, True, 4, make_fit_params()),
    )
    record(
        "fit keyword params",
        lambda: fit_dump(prod80, pvt, 1.0, params=make_fit_params(70.0, 1000.0, 4800.0), n_iter=5),
    )
    def constrained_params():
        params = Parameters(usersyms={"halve": lambda x: x / 2})
        params.add("tau", value=70.0, min=30.0, max=300.0)
        params.add("M", value=950.0, min=10.0, max=1e5)
        params.add("p_initial", value=5100.0, vary=False)
        params.add("tau_years", expr="tau/365")
        params.add("half_M", expr="halve(M)")
        return params

    record(
        "fit constrained params",
        lambda: fit_dump(prod80, pvt, 5000.0, n_iter=5, params=constrained_params()),
    )
    record(
        "fit with a previous result's params",
        lambda: fit_dump(
            prod80,
            pvt,
            5000.0,
            n_iter=3,
            params=fit_production_pressure(prod80, pvt, 5000.0, n_iter=3).params,
        ),
    )
    record(
        "fit with a MinimizerResult as params",
        lambda: fit_dump(
            prod80,
            pvt,
            5000.0,
            n_iter=3,
            params=fit_production_pressure(prod80, pvt, 5000.0, n_iter=3),
        ),
    )
    record(
        "fit window 5",
        lambda: fit_dump(prod80, pvt, 5000.0, filter_window_size=5, n_iter=4),
    )
    record(
        "fit window 1",
        lambda: fit_dump(prod80, pvt, 5000.0, filter_window_size=1, n_iter=3),
    )
    record(
        "fit window 0",
        lambda: fit_dump(prod80, pvt, 5000.0, filter_window_size=0, n_iter=3),
    )
    record(
        "fit no zero filter",
        lambda: fit_dump(prod80, pvt, 5000.0, filter_zero_prod_days=False, n_iter=4),
    )
    record(
        "fit n_iter=1",
        lambda: fit_dump(prod80, pvt, 5000.0, n_iter=1),
    )
    record(
        "fit other pvt table",
        lambda: fit_dump(prod80, pvt2, 4000.0, n_iter=4, pressure_imax=8000.0),
    )
    record(
        "fit alpha pvt table",
        lambda: fit_dump(prod80, pvt3, 5000.0, n_iter=4),
    )
    # zero-production days, missing pressures, extra columns, shuffled index
    messy = prod80.copy()
    messy.loc[[3, 17, 18, 40], "Gas"] = 0.0
    messy.loc[[5, 41], "Pressure"] = np.nan
    messy["Oil"] = 1.0
    messy["Days"] = messy["Days"] * 2 + 10
    messy.index = messy.index[::-1]
    record("fit messy filtered", lambda: fit_dump(messy, pvt, 5000.0, n_iter=5))
    record(
        "fit messy unfiltered",
        lambda: fit_dump(messy, pvt, 5000.0, filter_zero_prod_days=False, n_iter=3),
    )
    messy2 = messy.copy()
    messy2["Pressure"] = messy2["Pressure"].fillna(450.0)
    messy2.loc[messy2.index[2], "Gas"] = np.nan
    record(
        "fit zero days unfiltered",
        lambda: fit_dump(messy2, pvt, 5000.0, filter_zero_prod_days=False, n_iter=3),
    )
    record("fit nan gas filtered", lambda: fit_dump(messy2, pvt, 5000.0, n_iter=3))
    # integer columns
    ints = prod80.copy()
    ints["Gas"] = np.round(ints["Gas"] * 100).astype(int) + 1
    ints["Pressure"] = ints["Pressure"].astype(int) + np.arange(80) % 3
    ints["Days"] = ints["Days"].astype(int)
    record(
        "fit integer columns window 4",
        lambda: fit_dump(ints, pvt, 5000.0, filter_window_size=4, n_iter=4, inplace_max=1e7),
    )
    record(
        "fit integer columns",
        lambda: fit_dump(ints, pvt, 5000.0, n_iter=3, inplace_max=1e7),
    )
    f32 = prod80.astype(np.float32)
    record("fit float32 columns", lambda: fit_dump(f32, pvt, 5000.0, n_iter=4))
    record(
        "fit float32 columns window 3 unfiltered",
        lambda: fit_dump(
            f32, pvt, np.float32(5000.0), 3, n_iter=4, filter_zero_prod_days=False
        ),
    )
    # bounds
    record(
        "fit pressure_imax below fracface",
        lambda: fit_dump(prod80, pvt, 5000.0, pressure_imax=300.0, n_iter=3),
    )
    record(
        "fit pressure_imax == max fracface",
        lambda: fit_dump(prod80, pvt, 5000.0, pressure_imax=500.0, n_iter=3),
    )
    record(
        "fit initial == fracface",
        lambda: fit_dump(prod80, pvt, 500.0, n_iter=3),
    )
    record(
        "fit initial below fracface",
        lambda: fit_dump(prod80, pvt, 100.0, n_iter=3),
    )
    record(
        "fit inplace_max small",
        lambda: fit_dump(prod80, pvt, 5000.0, inplace_max=1.0, n_iter=3),
    )
    record(
        "fit pressure_imax beyond table",
        lambda: fit_dump(prod80, pvt, 14500.0, pressure_imax=15000.0, n_iter=3),
    )
    # short records
    for n in (0, 1, 2, 3, 15, 16, 17, 40):
        record(
            f"fit first {n} rows",
            lambda n=n: fit_dump(prod80.iloc[:n], pvt, 5000.0, n_iter=3),
        )
        record(
            f"fit first {n} rows given params",
            lambda n=n: fit_dump(prod80.iloc[:n], pvt, 5000.0, n_iter=2, params=make_fit_params()),
        )
    record(
        "fit all zero gas",
        lambda: fit_dump(prod80.assign(Gas=0.0), pvt, 5000.0, n_iter=3),
    )
    # things that raise
    record(
        "fit missing Pressure column",
        lambda: fit_dump(prod80[["Days", "Gas"]], pvt, 5000.0, n_iter=3),
    )
    record(
        "fit missing Gas column unfiltered",
        lambda: fit_dump(
            prod80[["Days", "Pressure"]], pvt, 5000.0, n_iter=3, filter_zero_prod_days=False
        ),
    )
    record(
        "fit missing Days column",
        lambda: fit_dump(prod80[["Gas", "Pressure"]], pvt, 5000.0, n_iter=3),
    )
    record(
        "fit bad pvt table",
        lambda: fit_dump(prod80, pvt[["pressure", "viscosity"]], 5000.0, n_iter=3),
    )
    record(
        "fit params without p_initial",
        lambda: fit_dump(
            prod80, pvt, 5000.0, n_iter=3, params=make_fit_params().__class__()
        ),
    )
    record(
        "fit pressure above table",
        lambda: fit_dump(prod80.assign(Pressure=14500.0), pvt, 5000.0, n_iter=3),
    )
    record(
        "fit dict instead of frame",
        lambda: fit_dump(pd.DataFrame({"Days": [1.0]}), pvt, 5000.0, n_iter=3),
    )
    record(
        "fit n_iter=0",
        lambda: fit_dump(prod80, pvt, 5000.0, n_iter=0),
    )
    record(
        "fit too many positionals",
        lambda: fit_dump(
            prod80, pvt, 5500.0, None, 9000.0, 5000.0, True, 4, make_fit_params(), "Nelder"
        ),
    )
    record(
        "fit unknown keyword",
        lambda: fit_dump(prod80, pvt, 5500.0, n_iter=2, maxiter=3),
    )
    record(
        "fit string window",
        lambda: fit_dump(prod80, pvt, 5000.0, filter_window_size="a", n_iter=3),
    )

    # ------------------------------------------------------------------
    # plot_production_comparison
    # ------------------------------------------------------------------
    record(
        "plot default",
        lambda: plot_dump(prod80, pvt, make_params(900.0, 50.0, 5000.0)),
    )
    record(
        "plot as in tests",
        lambda: plot_dump(
            prod80,
            pvt,
            make_params(1300, 420, 5000.0),
            filter_window_size=1,
            filter_zero_prod_days=True,
        ),
    )
    record(
        "plot positional all",
        lambda: plot_dump(prod80, pvt, make_params(900.0, 50.0, 5100.0), 4, True, "Well 7"),
    )
    record(
        "plot unfiltered",
        lambda: plot_dump(
            prod80, pvt, make_params(900.0, 50.0, 5000.0), filter_zero_prod_days=False
        ),
    )
    record(
        "plot unfiltered window 3 name",
        lambda: plot_dump(
            prod80,
            pvt,
            make_params(900.0, 50.0, 5000.0),
            filter_window_size=3,
            filter_zero_prod_days=False,
            well_name="A-1",
        ),
    )
    record(
        "plot messy filtered",
        lambda: plot_dump(messy, pvt, make_params(900.0, 50.0, 5000.0)),
    )
    record(
        "plot messy unfiltered (reversed index)",
        lambda: plot_dump(
            messy2, pvt, make_params(900.0, 50.0, 5000.0), filter_zero_prod_days=False
        ),
    )
    record(
        "plot unfiltered non-range index",
        lambda: plot_dump(
            prod80[prod80["Days"] % 7 != 3],
            pvt,
            make_params(900.0, 50.0, 5000.0),
            filter_zero_prod_days=False,
        ),
    )
    record(
        "plot filtered non-range index",
        lambda: plot_dump(
            prod80[prod80["Days"] % 7 != 3], pvt, make_params(900.0, 50.0, 5000.0)
        ),
    )
    record(
        "plot unfiltered uneven days",
        lambda: plot_dump(
            prod40.assign(Days=np.linspace(0, 20, 40) ** 2),
            pvt,
            make_params(600.0, 150.0, 6000.0),
            filter_zero_prod_days=False,
        ),
    )
    record(
        "plot integer columns window 4",
        lambda: plot_dump(ints, pvt, make_params(90000.0, 50.0, 5000.0), 4),
    )
    record(
        "plot integer columns unfiltered",
        lambda: plot_dump(
            ints, pvt, make_params(90000.0, 50.0, 5000.0), None, False
        ),
    )
    record(
        "plot float32 columns",
        lambda: plot_dump(f32, pvt, make_params(900.0, 50.0, 5000.0), 3),
    )
    record(
        "plot float32 columns unfiltered numpy params",
        lambda: plot_dump(
            f32,
            pvt,
            make_params(np.float64(900.0), np.float64(50.0), np.float64(5000.0)),
            None,
            False,
        ),
    )
    record(
        "plot int params unfiltered",
        lambda: plot_dump(f32, pvt, make_params(900, 50, 5000), None, False),
    )
    record(
        "plot fit result params",
        lambda: plot_dump(
            prod80, pvt, fit_production_pressure(prod80, pvt, 5000.0, n_iter=3).params
        ),
    )
    record(
        "plot initial == fracface",
        lambda: plot_dump(prod40, pvt, make_params(900.0, 50.0, 500.0)),
    )
    record(
        "plot other pvt",
        lambda: plot_dump(prod40, pvt2, make_params(900.0, 50.0, 4000.0)),
    )
    record(
        "plot alpha pvt",
        lambda: plot_dump(prod40, pvt3, make_params(900.0, 50.0, 4000.0)),
    )
    for n in (0, 1, 2, 3):
        record(
            f"plot first {n} rows",
            lambda n=n: plot_dump(prod80.iloc[:n], pvt, make_params(900.0, 50.0, 5000.0)),
        )
        record(
            f"plot first {n} rows unfiltered",
            lambda n=n: plot_dump(
                prod80.iloc[:n],
                pvt,
                make_params(900.0, 50.0, 5000.0),
                filter_zero_prod_days=False,
            ),
        )
    record(
        "plot missing column",
        lambda: plot_dump(prod80[["Days", "Gas"]], pvt, make_params()),
    )
    record(
        "plot missing Days unfiltered",
        lambda: plot_dump(
            prod80[["Pressure", "Gas"]], pvt, make_params(), filter_zero_prod_days=False
        ),
    )
    record(
        "plot missing param",
        lambda: plot_dump(prod80, pvt, Parameters()),
    )
    record(
        "plot bad pvt",
        lambda: plot_dump(prod80, pvt[["pressure"]], make_params()),
    )
    record(
        "plot p_initial beyond table",
        lambda: plot_dump(prod80, pvt, make_params(p_initial=2e4)),
    )
    record(
        "plot pressure beyond table",
        lambda: plot_dump(prod80.assign(Pressure=14500.0), pvt, make_params()),
    )
    record(
        "plot zero tau",
        lambda: plot_dump(prod40, pvt, make_params(tau=0.0)),
    )
    record(
        "plot zero M",
        lambda: plot_dump(prod40, pvt, make_params(M=0.0)),
    )
    record(
        "plot window 0",
        lambda: plot_dump(prod40, pvt, make_params(), filter_window_size=0),
    )
    record(
        "plot too many positionals",
        lambda: plot_dump(prod40, pvt, make_params(), None, True, "w", 80),
    )
    record(
        "obj too many positionals",
        lambda: fp._obj_function(make_params(), days, cum, pvt, pres, 80, 1),
    )
    record("open figures at end", lambda: len(plt.get_fignums()))

    with open(outfile, "w") as f:
        f.write("\n".join(out) + "\n")


if __name__ == "__main__":
    main(sys.argv[1])
