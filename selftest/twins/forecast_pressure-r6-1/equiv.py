"""Equivalence harness for bluebonnet.forecast.forecast_pressure.

Usage: PYTHONPATH=<tree>/src /venv/bin/python equiv.py <outfile>
"""

from __future__ import annotations

import os
import sys
import warnings

import matplotlib

matplotlib.use("Agg")
import matplotlib.pyplot as plt  # noqa: E402
import numpy as np  # noqa: E402
import pandas as pd  # noqa: E402
from lmfit import Parameters  # noqa: E402

from bluebonnet.flow import FlowProperties, SinglePhaseReservoir  # noqa: E402
from bluebonnet.forecast import forecast_pressure as fp  # noqa: E402
from bluebonnet.forecast import (  # noqa: E402
    fit_production_pressure,
    plot_production_comparison,
)

warnings.filterwarnings("ignore")

DATA = os.environ.get("BB_DATA", "/tmp/twin6_forecast_pressure/tests/data")
PVT = pd.read_csv(os.path.join(DATA, "pvt_gas_HAYNESVILLE SHALE_20.csv"))

out: list[str] = []


def fmt(x):
    """Full precision, type-revealing representation."""
    if isinstance(x, (pd.Series, pd.Index)):
        return (
            f"{type(x).__name__}[{x.dtype}]"
            f"(index={list(getattr(x, 'index', []))!r}, values={fmt(np.asarray(x))})"
        )
    if isinstance(x, np.ndarray):
        return f"ndarray[{x.dtype},{x.shape}]({[fmt(v) for v in x.ravel().tolist()]})"
    if isinstance(x, (float, np.floating)):
        return f"{type(x).__name__}:{float(x)!r}"
    if isinstance(x, (int, np.integer)) and not isinstance(x, bool):
        return f"{type(x).__name__}:{int(x)!r}"
    if isinstance(x, (list, tuple)):
        return f"{type(x).__name__}({', '.join(fmt(v) for v in x)})"
    return f"{type(x).__name__}:{x!r}"


def record(label, thunk):
    try:
        res = thunk()
    except Exception as exc:  # noqa: BLE001
        out.append(f"{label} -> RAISES {type(exc).__name__}")
    else:
        out.append(f"{label} -> {res}")
    finally:
        plt.close("all")


# --------------------------------------------------------------------------
# data
# --------------------------------------------------------------------------
def make_prod(n=48, tau=120.0, seed=0):
    """Synthetic pressure-varying well: cumulative Gas is a recovery factor."""
    rng = np.random.default_rng(seed)
    t_scaled = np.linspace(0, np.sqrt(1.5), n) ** 2
    pressure = np.full(n, 900.0)
    pressure[n // 3 : 2 * n // 3] = 650.0
    pressure[2 * n // 3 :] = 420.0
    pressure = pressure + rng.normal(0, 5.0, n)
    flow = FlowProperties(PVT, 6000.0)
    res = SinglePhaseReservoir(30, 900.0, 6000.0, flow)
    res.simulate(t_scaled, pressure)
    rf = res.recovery_factor()
    gas = np.diff(rf, prepend=0.0) * 2500.0 + 0.5
    return pd.DataFrame({"Days": t_scaled * tau, "Gas": gas, "Pressure": pressure})


BASE = make_prod()


def variants():
    v = {}
    v["base"] = BASE
    d = BASE.copy()
    d.loc[[3, 10, 11], "Gas"] = 0.0
    d.loc[[5, 20], "Pressure"] = np.nan
    d.loc[7, "Gas"] = -1.0
    v["zeros_nans"] = d
    d2 = d.copy()
    d2.index = np.arange(len(d2))[::-1] * 3 + 100
    v["reversed_int_index"] = d2
    d3 = d.copy()
    d3.index = [f"r{i:03d}" for i in range(len(d3))]
    v["string_index"] = d3
    d4 = d.copy()
    d4.index = np.arange(len(d4)) // 2
    v["duplicate_index"] = d4
    d5 = d.copy()
    d5.index = pd.date_range("2020-01-01", periods=len(d5), freq="D")
    v["datetime_index"] = d5
    d6 = BASE.copy()
    d6["Gas"] = np.round(d6["Gas"] * 10).astype("int32")
    v["gas_int32"] = d6
    d7 = BASE.copy()
    d7["Gas"] = np.round(d7["Gas"] * 10).astype("int64")
    d7["Pressure"] = np.round(d7["Pressure"]).astype("int64")
    d7["Days"] = np.arange(len(d7))
    v["all_int64"] = d7
    d8 = d.copy()
    d8["Gas"] = d8["Gas"].astype("Float64")
    d8["Pressure"] = d8["Pressure"].astype("Float64")
    v["nullable_float"] = d8
    d9 = BASE.copy()
    d9["Gas"] = d9["Gas"].astype("float32")
    d9["Pressure"] = d9["Pressure"].astype("float32")
    v["float32"] = d9
    d10 = d.copy()
    d10["Extra"] = "x"
    d10["Oil"] = 1.0
    d10 = d10[["Oil", "Pressure", "Extra", "Gas", "Days"]]
    v["extra_cols_reordered"] = d10
    v["shuffled_rows"] = d.sample(frac=1.0, random_state=3)
    v["two_rows"] = BASE.iloc[:2]
    v["three_rows"] = BASE.iloc[:3]
    v["one_row"] = BASE.iloc[:1]
    v["empty"] = BASE.iloc[:0]
    dz = BASE.copy()
    dz["Gas"] = 0.0
    v["all_zero_gas"] = dz
    v["no_gas_col"] = BASE.drop(columns="Gas")
    v["no_days_col"] = BASE.drop(columns="Days")
    v["no_pressure_col"] = BASE.drop(columns="Pressure")
    dd = pd.concat([BASE, BASE[["Gas"]]], axis=1)
    v["dup_gas_col"] = dd
    dp = pd.concat([BASE, BASE[["Pressure"]]], axis=1)
    v["dup_pressure_col"] = dp
    dy = pd.concat([BASE, BASE[["Days"]]], axis=1)
    v["dup_days_col"] = dy
    do = BASE.copy().astype(object)
    v["object_dtype"] = do
    dhi = BASE.copy()
    dhi["Pressure"] = dhi["Pressure"] + 7000.0  # above p_initial guess / pvt
    v["pressure_above_initial"] = dhi
    v["not_a_frame_dict"] = {k: BASE[k].to_numpy() for k in BASE.columns}
    v["not_a_frame_none"] = None
    return v


def show_params(params):
    bits = []
    for name in params:
        p = params[name]
        bits.append(
            f"{name}(value={fmt(p.value)}, min={fmt(p.min)}, max={fmt(p.max)}, vary={p.vary})"
        )
    return "[" + "; ".join(bits) + "]"


def show_result(res):
    return (
        f"{type(res).__name__} params={show_params(res.params)} "
        f"init_vals={fmt(list(res.init_vals))} nfev={res.nfev} "
        f"ndata={res.ndata} chisqr={fmt(res.chisqr)} residual={fmt(np.asarray(res.residual))}"
    )


def show_fig(ret):
    fig, axes = ret
    bits = [
        f"ret={type(ret).__name__} axes={type(axes).__name__}/{len(axes)} "
        f"size={fmt(list(fig.get_size_inches()))} nfigaxes={len(fig.axes)}"
    ]
    for i, ax in enumerate(axes):
        assert ax is fig.axes[i]
        leg = ax.get_legend()
        lines = []
        for ln in ax.get_lines():
            lines.append(
                f"line(label={ln.get_label()!r}, ls={ln.get_linestyle()!r}, "
                f"color={ln.get_color()!r}, "
                f"x={fmt(np.asarray(ln.get_xdata(orig=True)))}, "
                f"y={fmt(np.asarray(ln.get_ydata(orig=True)))})"
            )
        bits.append(
            f"ax{i}: xlabel={ax.get_xlabel()!r} ylabel={ax.get_ylabel()!r} "
            f"xscale={ax.get_xscale()!r} yscale={ax.get_yscale()!r} "
            f"xlim={fmt(list(ax.get_xlim()))} ylim={fmt(list(ax.get_ylim()))} "
            f"autoscalex={ax.get_autoscalex_on()} autoscaley={ax.get_autoscaley_on()} "
            f"legend={[t.get_text() for t in leg.get_texts()] if leg else None} "
            f"nchildren={len(ax.get_children())} lines=[{'; '.join(lines)}]"
        )
    return " | ".join(bits)


def mkparams(M=1300.0, tau=420.0, p_initial=6000.0):
    p = Parameters()
    p.add("M", M)
    p.add("tau", tau)
    p.add("p_initial", p_initial)
    return p


# --------------------------------------------------------------------------
# _obj_function
# --------------------------------------------------------------------------
def run_obj():
    n = len(BASE)
    days = np.arange(n)
    press = BASE["Pressure"].to_numpy()
    cum = np.cumsum(BASE["Gas"].to_numpy())
    cases = {
        "int_days": (mkparams(), days, cum, PVT, press),
        "float_days": (mkparams(tau=77.5), days.astype(float), cum, PVT, press),
        "int_param_values": (mkparams(M=1300, tau=420, p_initial=6000), days, cum, PVT, press),
        "series_days": (mkparams(), pd.Series(days), cum, PVT, press),
        "series_production": (mkparams(), days, pd.Series(cum, index=days[::-1]), PVT, press),
        "list_production": (mkparams(), days, cum.tolist(), PVT, press),
        "list_days": (mkparams(), days.tolist(), cum, PVT, press),
        "scalar_production": (mkparams(), days, 3.0, PVT, press),
        "short_pressure": (mkparams(), days, cum, PVT, press[:-1]),
        "wrong_production_len": (mkparams(), days, cum[:-1], PVT, press),
        "list_pressure": (mkparams(), days, cum, PVT, press.tolist()),
        "tau_zero": (mkparams(tau=0.0), days, cum, PVT, press),
        "p_initial_low": (mkparams(p_initial=500.0), days, cum, PVT, press),
        "nan_M": (mkparams(M=np.nan), days, cum, PVT, press),
        "dict_params": ({"M": 1.0, "tau": 2.0, "p_initial": 3.0}, days, cum, PVT, press),
        "pvt_none": (mkparams(), days, cum, None, press),
        "empty": (mkparams(), days[:0], cum[:0], PVT, press[:0]),
        "one": (mkparams(), days[:1], cum[:1], PVT, press[:1]),
    }
    for missing in ("M", "tau", "p_initial"):
        p = Parameters()
        for name, val in (("M", 1300.0), ("tau", 420.0), ("p_initial", 6000.0)):
            if name != missing:
                p.add(name, val)
        cases[f"missing_{missing}"] = (p, days, cum, PVT, press)
    for label, args in cases.items():
        record(f"obj[{label}]", lambda args=args: fmt(fp._obj_function(*args)))


# --------------------------------------------------------------------------
# fit_production_pressure
# --------------------------------------------------------------------------
def run_fit():
    vs = variants()
    for name, df in vs.items():
        for fz in (True, False):
            record(
                f"fit[{name}, filter_zero={fz}]",
                lambda df=df, fz=fz: show_result(
                    fit_production_pressure(df, PVT, 6000.0, filter_zero_prod_days=fz, n_iter=3)
                ),
            )
    df = vs["zeros_nans"]
    extra = {
        "window3": dict(filter_window_size=3),
        "window1": dict(filter_window_size=1),
        "window0": dict(filter_window_size=0),
        "window_float": dict(filter_window_size=2.5),
        "window_big": dict(filter_window_size=1000),
        "window3_nofilter": dict(filter_window_size=3, filter_zero_prod_days=False),
        "imax_inplace": dict(pressure_imax=9000.0, inplace_max=5000.0),
        "inplace_too_small": dict(inplace_max=1.0),
        "imax_too_small": dict(pressure_imax=100.0),
        "truthy_int": dict(filter_zero_prod_days=1),
        "falsy_int": dict(filter_zero_prod_days=0),
        "truthy_str": dict(filter_zero_prod_days="no"),
        "falsy_none": dict(filter_zero_prod_days=None),
        "falsy_empty_list": dict(filter_zero_prod_days=[]),
        "ambiguous_array": dict(filter_zero_prod_days=np.array([True, False])),
        "np_true": dict(filter_zero_prod_days=np.bool_(True)),
        "n_iter_7": dict(n_iter=7),
        "n_iter_0": dict(n_iter=0),
        "n_iter_1": dict(n_iter=1),
        "given_params": dict(params=mkparams(M=900.0, tau=200.0, p_initial=5500.0)),
        "given_params_window": dict(
            params=mkparams(M=900.0, tau=200.0, p_initial=5500.0), filter_window_size=4
        ),
        "given_params_missing": dict(params=Parameters()),
        "given_params_dict": dict(params={"M": 1.0}),
    }
    for label, kw in extra.items():
        record(
            f"fit_kw[{label}]",
            lambda kw=kw: show_result(
                fit_production_pressure(df, PVT, 6000.0, **{"n_iter": 3, **kw})
            ),
        )
    for label, pinit in (
        ("int", 6000),
        ("np_float", np.float64(5800.0)),
        ("below_min", 100.0),
        ("above_max", 20000.0),
        ("nan", float("nan")),
        ("none", None),
        ("str", "6000"),
    ):
        record(
            f"fit_pinit[{label}]",
            lambda pinit=pinit: show_result(fit_production_pressure(df, PVT, pinit, n_iter=2)),
        )
    record(
        "fit_positional",
        lambda: show_result(
            fit_production_pressure(df, PVT, 6000.0, 3, 12000.0, 50000.0, True, 2, None)
        ),
    )
    record("fit_pvt_none", lambda: show_result(fit_production_pressure(df, None, 6000.0)))
    # the caller's frame must not be modified
    before = df.copy(deep=True)
    fit_production_pressure(df, PVT, 6000.0, filter_window_size=3, n_iter=1)
    out.append(f"fit_input_untouched -> {before.equals(df)} {list(df.columns)} {list(df.index)}")
    # a second fit continuing from the first one (documented use)
    def chained():
        first = fit_production_pressure(df, PVT, 6000.0, n_iter=2)
        second = fit_production_pressure(df, PVT, 6000.0, n_iter=2, params=first.params)
        return show_result(second)

    record("fit_chained", chained)


# --------------------------------------------------------------------------
# plot_production_comparison
# --------------------------------------------------------------------------
def run_plot():
    vs = variants()
    for name, df in vs.items():
        for fz in (True, False):
            record(
                f"plot[{name}, filter_zero={fz}]",
                lambda df=df, fz=fz: show_fig(
                    plot_production_comparison(df, PVT, mkparams(), filter_zero_prod_days=fz)
                ),
            )
    df = vs["zeros_nans"]
    extra = {
        "window3": dict(filter_window_size=3),
        "window1": dict(filter_window_size=1),
        "window0": dict(filter_window_size=0),
        "window3_nofilter": dict(filter_window_size=3, filter_zero_prod_days=False),
        "well_name": dict(well_name="Haynesville #1"),
        "well_name_underscore": dict(well_name="_hidden"),
        "well_name_int": dict(well_name=17),
        "well_name_none": dict(well_name=None),
        "truthy_int": dict(filter_zero_prod_days=1),
        "falsy_int": dict(filter_zero_prod_days=0),
        "falsy_none": dict(filter_zero_prod_days=None),
        "ambiguous_array": dict(filter_zero_prod_days=np.array([True, False])),
    }
    for label, kw in extra.items():
        record(
            f"plot_kw[{label}]",
            lambda kw=kw: show_fig(plot_production_comparison(df, PVT, mkparams(), **kw)),
        )
    pcases = {
        "int_values": mkparams(M=1300, tau=420, p_initial=6000),
        "small_tau": mkparams(tau=1e-3),
        "huge_M": mkparams(M=1.23456789e12),
        "tau_zero": mkparams(tau=0.0),
        "M_zero": mkparams(M=0.0),
        "p_initial_low": mkparams(p_initial=300.0),
        "nan_tau": mkparams(tau=np.nan),
        "empty": Parameters(),
        "dict": {"M": 1.0, "tau": 2.0, "p_initial": 3.0},
        "none": None,
    }
    for missing in ("M", "tau", "p_initial"):
        p = Parameters()
        for name, val in (("M", 1300.0), ("tau", 420.0), ("p_initial", 6000.0)):
            if name != missing:
                p.add(name, val)
        pcases[f"missing_{missing}"] = p
    for label, p in pcases.items():
        record(
            f"plot_params[{label}]",
            lambda p=p: show_fig(plot_production_comparison(df, PVT, p)),
        )
    record(
        "plot_positional",
        lambda: show_fig(plot_production_comparison(df, PVT, mkparams(), 3, False, "W")),
    )
    record("plot_pvt_none", lambda: show_fig(plot_production_comparison(df, None, mkparams())))

    def from_fit():
        res = fit_production_pressure(df, PVT, 6000.0, n_iter=2)
        return show_fig(plot_production_comparison(df, PVT, res.params, well_name="fit"))

    record("plot_from_fit", from_fit)
    before = df.copy(deep=True)
    plot_production_comparison(df, PVT, mkparams(), filter_window_size=3)
    plt.close("all")
    out.append(f"plot_input_untouched -> {before.equals(df)} {list(df.columns)} {list(df.index)}")
    # figure numbering / pyplot state: one new figure per call
    n0 = len(plt.get_fignums())
    plot_production_comparison(df, PVT, mkparams())
    out.append(f"plot_new_figures -> {len(plt.get_fignums()) - n0}")
    plt.close("all")


def main():
    run_obj()
    run_fit()
    run_plot()
    with open(sys.argv[1], "w") as fh:
        fh.write("\n".join(out) + "\n")


if __name__ == "__main__":
    main()
