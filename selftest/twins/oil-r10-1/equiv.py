"""Twin 1: Spivey coefficient tables hoisted to module-level tuples."""
import os
import sys

sys.path.insert(0, os.path.dirname(os.path.abspath(__file__)))
import numpy as np  # noqa: E402
from equiv_common import main  # noqa: E402
from bluebonnet.fluids import oil  # noqa: E402


def extra(out, call, fmt):
    f = oil.oil_compressibility_undersat_Spivey
    # dense sweeps on both the scalar and the array branch, repeated calls
    for rep in range(2):
        for p in np.linspace(1.0, 12000.0, 25):
            call(out, "spivey scalar %r rep%d" % (float(p), rep), f, 180.0, float(p), 38.0, 0.75, 800.0)
        call(out, "spivey array rep%d" % rep, f, 180.0, np.linspace(1.0, 12000.0, 25), 38.0, 0.75, 800.0)
    # a caller scribbling on the returned array must not influence later calls
    r = f(200, np.array([3000.0, 4000.0]), 35, 0.8, 650)
    r *= 0
    call(out, "spivey after scribble", f, 200, np.array([3000.0, 4000.0]), 35, 0.8, 650)
    call(out, "spivey float32", f, 200, np.array([3000.0, 4000.0], dtype=np.float32), 35, 0.8, 650)
    call(out, "spivey zero-size 2d", f, 200, np.empty((0, 3)), 35, 0.8, 650)
    call(out, "spivey neg p", f, 200, -5.0, 35, 0.8, 650)
    call(out, "spivey zero p", f, 200, 0.0, 35, 0.8, 650)
    call(out, "spivey arr zero p", f, 200, np.array([0.0, 3000.0]), 35, 0.8, 650)


main(extra)
