"""Equivalence driver for twin5: pseudopressure_Hussainy integrand extracted into a module-level helper."""
import sys
import warnings

import numpy as np

from bluebonnet.fluids import gas

warnings.simplefilter("ignore")


def show(x):
    if isinstance(x, np.ndarray):
        return "ndarray%s%s[%s]" % (x.shape, x.dtype, ", ".join(show(v) for v in x.ravel()))
    if isinstance(x, (tuple, list)):
        return type(x).__name__ + "(" + ", ".join(show(v) for v in x) + ")"
    if isinstance(x, (float, np.floating)):
        return "%s:%s" % (type(x).__name__, float(x).hex())
    return "%s:%r" % (type(x).__name__, x)


def call(f, *a, **k):
    try:
        return show(f(*a, **k))
    except Exception as e:  # noqa: BLE001
        return "EXC " + type(e).__name__


out = []
m = gas.pseudopressure_Hussainy
temps = [60, 150.0, 300.0, 400.0, np.float64(222.2)]
pressures = [1.0, 10.0, 14.7, 14.70, 15.0, 100.0, 1000, 3000.0, 8000.0, 14000.0, np.float64(4500.25)]
pcs = [(-102.0, 649.0), (-72.2, 653.25)]
sgs = [0.6, 0.8]
for T in temps:
    for p in pressures:
        for tpc, ppc in pcs:
            for sg in sgs:
                tag = f"({T!r},{p!r},{tpc},{ppc},{sg})"
                out.append("m" + tag + " = " + call(m, T, p, tpc, ppc, sg))
    out.append(f"m_std_pos({T!r}) = " + call(m, T, 2500.0, -90.0, 660.0, 0.7, 15.025))
    out.append(f"m_std_kw({T!r}) = " + call(m, T, 2500.0, -90.0, 660.0, 0.7, pressure_standard=14.65))
    out.append(f"m_std_eq({T!r}) = " + call(m, T, 2500.0, -90.0, 660.0, 0.7, pressure_standard=2500.0))
    out.append(f"m_std_above({T!r}) = " + call(m, T, 2500.0, -90.0, 660.0, 0.7, pressure_standard=5000.0))
out.append(
    "m_allkw = "
    + call(m, temperature=300.0, pressure=1234.5, temperature_pseudocritical=-85.0,
           pressure_pseudocritical=655.0, specific_gravity=0.72, pressure_standard=14.7)
)
# the doc example
out.append("m_doc = " + call(m, 400, 100, -102, 649, 0.65))
# degenerate / failing inputs
for p in [0.0, 0, -100.0, float("nan"), float("inf"), -float("inf"), 1e9, 1e300, "100", None,
          np.array([100.0, 200.0]), np.array([100.0]), [100.0]]:
    out.append(f"m_badp({p!r}) = " + call(m, 200.0, p, -102.0, 649.0, 0.65))
for ps in [0.0, -5.0, float("nan"), float("inf"), "14.7", None, np.array([14.7, 15.0])]:
    out.append(f"m_badstd({ps!r}) = " + call(m, 200.0, 1000.0, -102.0, 649.0, 0.65, ps))
for T in [-459.67, -1000.0, -300.0, float("nan"), 1e300, "200", None, np.array([200.0, 300.0])]:
    out.append(f"m_badT({T!r}) = " + call(m, T, 1000.0, -102.0, 649.0, 0.65))
for sg in [0.0, -0.5, float("nan"), "0.65", None, np.array([0.6, 0.7])]:
    out.append(f"m_badsg({sg!r}) = " + call(m, 200.0, 1000.0, -102.0, 649.0, sg))
for tpc, ppc in [(-459.67, 649.0), (-102.0, 0.0), (-102.0, -649.0), (float("nan"), 649.0), ("x", 649.0), (-102.0, None)]:
    out.append(f"m_badpc({tpc!r},{ppc!r}) = " + call(m, 200.0, 1000.0, tpc, ppc, 0.65))
out.append("m_too_few = " + call(m, 200.0, 1000.0, -102.0, 649.0))
out.append("m_too_many = " + call(m, 200.0, 1000.0, -102.0, 649.0, 0.65, 14.7, 1))
out.append("m_unknown_kw = " + call(m, 200.0, 1000.0, -102.0, 649.0, 0.65, limit=50))
# public names of the module are unchanged
out.append("public = " + repr(sorted(n for n in dir(gas) if not n.startswith("_"))))

with open(sys.argv[1], "w") as fh:
    fh.write("\n".join(out) + "\n")
