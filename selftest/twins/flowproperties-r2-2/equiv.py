"""Equivalence probe: writes full-precision results of the touched functions to <outfile>."""

from __future__ import annotations

import os
import sys
import warnings

import numpy as np
import pandas as pd
from scipy.interpolate import interp1d

from bluebonnet.flow import flowproperties as fp

DATA = os.environ.get("BB_DATA", "/tmp/twin2_flowproperties/tests/data")
LINES: list[str] = []


def fmt(x, depth=0):
    """Full-precision, deterministic text for numbers / arrays / tables."""
    if isinstance(x, pd.DataFrame):
        cols = ", ".join(f"{c!r}: {fmt(x[c].to_numpy(), depth + 1)}" for c in x.columns)
        return f"DataFrame(index={list(x.index)[:3]}..{len(x.index)}, {cols})"
    if isinstance(x, pd.Series):
        return f"Series(name={x.name!r}, {fmt(x.to_numpy(), depth + 1)})"
    if isinstance(x, np.ndarray):
        if x.dtype.names:
            inner = ", ".join(f"{n}: {fmt(x[n], depth + 1)}" for n in x.dtype.names)
            return f"recarray(shape={x.shape}, {inner})"
        flat = [fmt(v, depth + 1) for v in x.ravel().tolist()]
        return f"ndarray(shape={x.shape}, dtype={x.dtype}, [{', '.join(flat)}])"
    if isinstance(x, (float, np.floating)):
        return repr(float(x)) + "|" + float(x).hex()
    if isinstance(x, (int, np.integer, str, bool, type(None))):
        return repr(x)
    if isinstance(x, (list, tuple)):
        return type(x).__name__ + "(" + ", ".join(fmt(v, depth + 1) for v in x) + ")"
    if isinstance(x, dict):
        return "{" + ", ".join(f"{k!r}: {fmt(x[k], depth + 1)}" for k in sorted(x, key=str)) + "}"
    return f"<{type(x).__name__}>"


def record(label, thunk, with_message=True):
    """Run thunk, log its value or exception type, and any warnings raised on the way."""
    with warnings.catch_warnings(record=True) as caught:
        warnings.simplefilter("always")
        try:
            out = fmt(thunk())
        except Exception as exc:  # noqa: BLE001
            msg = str(exc)
            # messages built from sets depend on the hash seed: keep only the type
            if not with_message or "{" in msg or "Need pvt_props" in msg:
                msg = ""
            out = f"RAISES {type(exc).__name__} {msg}"
    # distinct warnings only: hoisting a repeated pure evaluation legitimately changes how
    # often numpy repeats the very same RuntimeWarning under the "always" filter
    warns = sorted(
        {
            f"{w.category.__name__}:{str(w.message)[:60]}@{os.path.basename(w.filename)}"
            for w in caught
        }
    )
    LINES.append(f"{label} => {out} ;; warnings={warns}")


def flush():
    with open(sys.argv[1], "w") as fh:
        fh.write("\n".join(LINES) + "\n")
    print(f"wrote {len(LINES)} records to {sys.argv[1]}")


SW = 0.1


def load_multiphase_table():
    pvt_oil = pd.read_csv(os.path.join(DATA, "pvt_oil.csv"))
    pvt_water = pd.read_csv(os.path.join(DATA, "pvt_water.csv")).rename(
        columns={"T": "temperature", "P": "pressure", "Viscosity": "mu_w"}
    )
    rename_cols = {
        "T": "temperature",
        "P": "pressure",
        "Oil_Viscosity": "mu_o",
        "Gas_Viscosity": "mu_g",
        "Rso": "Rs",
    }
    df = (
        pvt_water.drop(columns=["temperature"])
        .merge(pvt_oil.rename(columns=rename_cols), on="pressure")
        .assign(Rv=0)
    )
    df["So"] = (1 - SW) / ((df["Rs"].max() - df["Rs"]) * df["Bg"] / df["Bo"] / 5.61458 + 1)
    return df


def make_relperm(**kw):
    base = dict(n_o=1, n_g=1, n_w=1, S_or=0, S_gc=0, S_wc=0.1, k_ro_max=1, k_rw_max=1, k_rg_max=1)
    base.update(kw)
    return fp.RelPermParams(**base)


REFERENCE_DENSITIES = {"rho_o0": 141.5 / (45 + 131.5), "rho_g0": 1.03e-3, "rho_w0": 1}


def make_pvt_kr(df_pvt, df_kr, volatile=False):
    """Interpolator dictionaries as FlowPropertiesTwoPhase.from_table builds them."""
    cols = ["pseudopressure", "pressure", "Bo", "Bg", "Bw", "Rs", "Rv", "mu_o", "mu_g", "mu_w", "So"]
    table = df_pvt.copy()
    if volatile:
        table["Rv"] = 1e-5 * (1 + np.sqrt(table["pressure"] / 1000.0))
    pvt = {c: interp1d(table["pressure"], table[c], fill_value="extrapolate") for c in cols}
    pvt.update(REFERENCE_DENSITIES)
    kr = {f: interp1d(df_kr["So"], df_kr[f]) for f in ("kro", "krg", "krw")}
    return pvt, kr


# ---------------------------------------------------------------- twin 2 probes
def sat_records(so, sw, sg, dtype=np.float64):
    arr = np.empty(len(so), dtype=[("So", dtype), ("Sw", dtype), ("Sg", dtype)])
    arr["So"], arr["Sw"], arr["Sg"] = so, sw, sg
    return arr


def main():
    rng = np.random.default_rng(11)
    so = np.linspace(0, 0.9, 50)
    base = pd.DataFrame({"So": so, "Sw": np.full(50, 0.1), "Sg": so[::-1]})
    u = rng.dirichlet((1.0, 1.0, 1.0), size=64)
    three_phase = sat_records(u[:, 0], u[:, 1], u[:, 2])
    nearly = sat_records(u[:, 0] + 4e-4, u[:, 1] - 3e-4, u[:, 2] + 8e-4)
    tables = {
        "two_phase_df_records": base.to_records(index=False),
        "three_phase": three_phase,
        "nearly_one": nearly,
        "just_too_far": sat_records(u[:, 0] + 6e-4, u[:, 1], u[:, 2] + 6e-4),
        "sum_two": (base + 1).to_records(index=False),
        "float32": sat_records(u[:, 0], u[:, 1], u[:, 2], np.float32),
        "corners": sat_records([1.0, 0.0, 0.0, 0.5, 0.0], [0.0, 1.0, 0.0, 0.5, 0.5], [0.0, 0.0, 1.0, 0.0, 0.5]),
        "ints": sat_records([1, 0, 0], [0, 1, 0], [0, 0, 1], np.int64),
        "negative_entries": sat_records([1.2, -0.1, 0.5], [-0.2, 0.6, 0.25], [0.0, 0.5, 0.25]),
        "with_nan": sat_records([0.5, np.nan, 0.2], [0.25, 0.3, 0.3], [0.25, 0.3, 0.5]),
        "with_index_records": base.to_records(index=True),
        "single": sat_records([0.3], [0.2], [0.5]),
        "empty": sat_records([], [], []),
        "missing_Sg": base[["So", "Sw"]].assign(Sx=base["Sg"]).to_records(index=False),
        "missing_So": base[["Sw", "Sg"]].assign(Sx=base["So"]).to_records(index=False),
        "dataframe": base,
        "dict": {k: base[k].to_numpy() for k in base},
        "plain_2d": u,
        "list_of_tuples": [(0.5, 0.25, 0.25)],
        "none": None,
    }
    good = dict(n_o=1, n_g=1, n_w=1, S_or=0, S_gc=0, S_wc=0.1, k_ro_max=1, k_rw_max=1, k_rg_max=1)
    param_sets = {"base": good}
    param_sets["corey"] = dict(n_o=2.5, n_g=1.7, n_w=3, S_or=0.15, S_gc=0.05, S_wc=0.2, k_ro_max=0.8, k_rw_max=0.4, k_rg_max=0.9)
    param_sets["limits_ok"] = dict(n_o=6, n_g=1, n_w=6.0, S_or=1, S_gc=0, S_wc=0.0, k_ro_max=0, k_rw_max=1.0, k_rg_max=1)
    param_sets["zero_span"] = dict(good, S_or=0.5, S_wc=0.25, S_gc=0.25)
    param_sets["negative_span"] = dict(good, S_or=0.6, S_wc=0.5, S_gc=0.3)
    param_sets["zero_kmax"] = dict(good, k_ro_max=0.0, k_rw_max=0.0, k_rg_max=0.0)
    for field in good:
        for val in (-1, -1e-9, 0, 0.999, 1, 1.0000001, 1.1, 6, 6.0000001, 8, float("nan"), float("inf"), -float("inf")):
            param_sets[f"{field}={val!r}"] = dict(good, **{field: val})
    # several simultaneous violations: which message wins?
    param_sets["multi1"] = dict(good, n_o=8, n_w=0, S_gc=-1, k_ro_max=1.1)
    param_sets["multi2"] = dict(good, n_w=0, S_or=1.1, k_rg_max=-0.1)
    param_sets["multi3"] = dict(good, S_gc=-1, S_or=1.1)
    param_sets["multi4"] = dict(good, k_ro_max=1.1, k_rw_max=-0.1)
    param_sets["multi5"] = dict(good, S_wc=1.5, k_rw_max=-0.1, n_g=7)
    param_sets["str_exponent"] = dict(good, n_o="2")
    param_sets["none_kmax"] = dict(good, k_rg_max=None)
    param_sets["array_exponent"] = dict(good, n_g=np.array([1.0, 2.0]))

    for tname, table in tables.items():
        names = param_sets if tname in ("three_phase", "two_phase_df_records") else (
            "base", "corey", "limits_ok", "zero_span", "negative_span", "multi1", "n_o=8", "str_exponent"
        )
        for pname in names:
            params = fp.RelPermParams(**param_sets[pname])
            record(f"relperm/{tname}/{pname}", lambda: fp.relative_permeabilities(table, params))
    # params objects that are not RelPermParams
    record("relperm/params_dict", lambda: fp.relative_permeabilities(three_phase, good))
    record("relperm/params_tuple", lambda: fp.relative_permeabilities(three_phase, tuple(good.values())))
    record("relperm/params_none", lambda: fp.relative_permeabilities(three_phase, None))
    record("relperm/bad_table_and_bad_params", lambda: fp.relative_permeabilities(tables["sum_two"], None))

    class Partial:
        n_o = n_g = n_w = 2
        S_or = S_wc = 0.1

    record("relperm/params_partial_object", lambda: fp.relative_permeabilities(three_phase, Partial()))

    # result must be a fresh, writeable, C-contiguous record array of float64
    def flags():
        out = fp.relative_permeabilities(three_phase, fp.RelPermParams(**param_sets["corey"]))
        return [str(out.dtype), out.shape, out.flags.writeable, out.flags.c_contiguous, out.flags.owndata, type(out).__name__]

    record("relperm/flags", flags)

    for pname in ("base", "corey", "limits_ok", "zero_span", "zero_kmax", "multi2", "S_wc=0", "S_wc=1", "n_o=8"):
        params = fp.RelPermParams(**param_sets[pname])
        for sw in (0.1, 0.0, 0.05, 0.2, 0.8, 1.0, -0.1, float("nan")):
            record(f"twophase/{pname}/Sw={sw!r}", lambda: fp.relative_permeabilities_twophase(params, sw))
        record(f"twophase/{pname}/default", lambda: fp.relative_permeabilities_twophase(params))
    flush()


main()
