"""Equivalence probe for refactoring 5 (named coefficient tuples): McCain water correlations (all public functions of water.py,
plus the Fluid methods and density that are built on them)."""
import decimal
import fractions
import itertools
import sys
import warnings

import numpy as np
import pandas as pd

from bluebonnet.fluids import Fluid, water

warnings.simplefilter("ignore")
out = []


def fmt(x):
    if isinstance(x, pd.Series):
        return "Series:" + fmt(x.to_numpy()) + ":" + repr(list(x.index))
    if isinstance(x, np.ndarray):
        if x.dtype == object:
            return f"{type(x).__name__}{x.shape}:object:" + repr(x.tolist())
        return f"{type(x).__name__}{x.shape}:{x.dtype}:[" + ",".join(repr(v) for v in x.ravel().tolist()) + "]"
    return f"{type(x).__name__}:{x!r}"


def record(label, fn):
    try:
        r = fn()
    except Exception as e:  # noqa: BLE001
        out.append(f"{label}: EXC {type(e).__name__}")
        return
    out.append(f"{label}: {fmt(r)}")


rng = np.random.default_rng(99)
temperatures = {
    "int": 200,
    "float": 400.0,
    "cold": 32.5,
    "zero": 0,
    "zerof": 0.0,
    "neg": -40.0,
    "npf": np.float64(150.5),
    "npf32": np.float32(150.5),
    "npint": np.int64(250),
    "npint8": np.int8(100),
    "bool": True,
    "nan": float("nan"),
    "inf": float("inf"),
    "huge": 1e200,
    "bigint": 10**30,
    "hugeint": 10**400,
    "fraction": fractions.Fraction(401, 2),
    "decimal": decimal.Decimal("200"),
    "complex": 200 + 1j,
    "none": None,
    "str": "200",
    "list": [100.0, 200.0],
    "arr0": np.array(200.0),
    "arr3": np.array([100.0, 200.0, 300.0]),
    "arr_int": np.array([100, 200, 300]),
    "arr_col": np.array([[100.0], [200.0]]),
    "series": pd.Series([100.0, 200.0, 300.0]),
}
pressures = {
    "int": 3000,
    "float": 3000.0,
    "std": 14.7,
    "zero": 0.0,
    "neg": -500.0,
    "npf": np.float64(5000.25),
    "npint": np.int64(7000),
    "nan": float("nan"),
    "inf": float("inf"),
    "huge": 1e200,
    "bigint": 10**30,
    "none": None,
    "str": "3000",
    "list": [1000.0, 2000.0, 3000.0],
    "arr0": np.array(3000.0),
    "arr3": np.array([14.7, 3000.0, 14000.0]),
    "arr_int": np.array([1000, 2000, 40000]),
    "arr_int32_big": np.array([100000, 200000, 300000], dtype=np.int32),
    "arr_f32": np.array([1000.0, 2000.5, 3000.25], dtype=np.float32),
    "arr_2d": np.array([[1000.0, 2000.0, 3000.0], [4000.0, 5000.0, 6000.0]]),
    "arr_empty": np.array([]),
    "arr_obj": np.array([1000.0, 2000, 10**30], dtype=object),
    "arr_special": np.array([np.nan, np.inf, -np.inf, 0.0, -0.0, 1e-300, 1e300]),
    "series": pd.Series([1000.0, 2000.0, 3000.0], index=["a", "b", "c"]),
    "random": rng.uniform(14.7, 20000.0, 500),
}
salinities = {
    "zero": 0,
    "zerof": 0.0,
    "float": 15.0,
    "int": 5,
    "small": 1e-3,
    "big": 26.5,
    "neg": -3.0,
    "npf": np.float64(12.25),
    "nan": float("nan"),
    "inf": float("inf"),
    "bigint": 10**80,
    "none": None,
    "str": "15",
    "arr3": np.array([0.0, 10.0, 20.0]),
    "arr_int": np.array([0, 10, 20]),
}

for (tn, t), (pn, p) in itertools.product(temperatures.items(), pressures.items()):
    record(f"b|{tn}|{pn}", lambda t=t, p=p: water.b_water_McCain(t, p))
    record(f"b_dp|{tn}|{pn}", lambda t=t, p=p: water.b_water_McCain_dp(t, p))

t_sub = ("int", "float", "cold", "zero", "neg", "npf", "npf32", "nan", "inf", "bigint", "complex", "none", "arr3", "series")
p_sub = ("int", "float", "zero", "neg", "npf", "nan", "huge", "none", "list", "arr3", "arr_int", "arr_f32", "arr_2d", "arr_empty", "arr_special", "series", "random")
for tn, pn, (sn, sal) in itertools.product(t_sub, p_sub, salinities.items()):
    t, p = temperatures[tn], pressures[pn]
    record(f"c|{tn}|{pn}|{sn}", lambda t=t, p=p, sal=sal: water.compressibility_water_McCain(t, p, sal))
    record(f"rho|{tn}|{pn}|{sn}", lambda t=t, p=p, sal=sal: water.density_water_McCain(t, p, sal))
    record(f"mu|{tn}|{pn}|{sn}", lambda t=t, p=p, sal=sal: water.viscosity_water_McCain(t, p, sal))

# exact zero of the compressibility denominator (Python scalars raise, numpy gives inf)
p0 = (537 * 200 - 403300.0) / 7.033
record("c_zero_den", lambda: water.compressibility_water_McCain(200, p0, 0.0))
record("c_zero_den_np", lambda: water.compressibility_water_McCain(200, np.float64(p0), 0.0))
record("c_exact_zero", lambda: water.compressibility_water_McCain(0, 0, -403300.0 / 0.5415))
record("c_exact_zero2", lambda: water.compressibility_water_McCain(751.0242085661080, 0.0, 0.0))
record("mu_zeroT", lambda: water.viscosity_water_McCain(0, 3000.0, 15.0))
record("mu_zeroT_f", lambda: water.viscosity_water_McCain(0.0, 3000.0, 15.0))
record("mu_negT", lambda: water.viscosity_water_McCain(-10.0, 3000.0, 15.0))
record("mu_negT_np", lambda: water.viscosity_water_McCain(np.float64(-10.0), 3000.0, 15.0))
record("rho_zero_b", lambda: water.density_water_McCain(200, 1e9, 1.0))

# keyword calls and wrong arity
record("kw_b", lambda: water.b_water_McCain(temperature=400, pressure=3000))
record("kw_bdp", lambda: water.b_water_McCain_dp(pressure=3000, temperature=400))
record("kw_c", lambda: water.compressibility_water_McCain(temperature=400, pressure=3000, salinity=15))
record("kw_rho", lambda: water.density_water_McCain(temperature=400, pressure=3000, salinity=15))
record("kw_mu", lambda: water.viscosity_water_McCain(temperature=400, pressure=3000, salinity=15))
record("arity_b", lambda: water.b_water_McCain(400))
record("arity_mu", lambda: water.viscosity_water_McCain(400, 3000))
record("arity_rho", lambda: water.density_water_McCain(400, 3000))
record("arity_c", lambda: water.compressibility_water_McCain(400, 3000))
record("extra_b", lambda: water.b_water_McCain(400, 3000, 15))

# public names of the module
out.append("public: " + repr(sorted(n for n in dir(water) if not n.startswith("_"))))

# Fluid methods that wrap these functions
for fl_name, fl in {
    "std": Fluid(200, 35, 0.8, 650),
    "salty": Fluid(400.0, 35, 0.65, 0, salinity=15.0, water_saturation_initial=0.2),
    "npsal": Fluid(np.float64(150.5), 35, 0.8, 650, salinity=np.float64(3.5)),
}.items():
    for pn in ("float", "list", "arr3", "arr_int", "arr_2d", "arr_empty", "series", "random", "none"):
        p = pressures[pn]
        record(f"Fluid.FVF|{fl_name}|{pn}", lambda fl=fl, p=p: fl.water_FVF(p))
        record(f"Fluid.visc|{fl_name}|{pn}", lambda fl=fl, p=p: fl.water_viscosity(p))

with open(sys.argv[1], "w") as f:
    f.write("\n".join(out) + "\n")
