"""Equivalence probe for twin5: rescale_pseudopressure, relative_permeabilities_twophase, from_table."""

from __future__ import annotations

import os
import sys
import warnings

import numpy as np
import pandas as pd

from bluebonnet.flow.flowproperties import (
    FlowPropertiesTwoPhase,
    RelPermParams,
    relative_permeabilities_twophase,
    rescale_pseudopressure,
)

warnings.simplefilter("ignore")
np.seterr(all="ignore")
DATA = os.environ.get("BB_DATA", "/tmp/twin_flowproperties/tests/data")
out = []


def fmt(x):
    return ",".join(repr(float(v)) for v in np.asarray(x, dtype=float).ravel())


def dump(label, res):
    if isinstance(res, pd.DataFrame):
        out.append(f"{label}: DataFrame cols={list(res.columns)} shape={res.shape} index={fmt(res.index[:5])}")
        for col in res.columns:
            out.append(f"{label}[{col}]: dtype={res[col].dtype} {fmt(res[col].to_numpy())}")
    elif isinstance(res, dict):
        out.append(f"{label}: dict keys={list(res)}")
        for key, val in res.items():
            out.append(f"{label}[{key}]: {fmt(val)}")
    else:
        out.append(f"{label}: type={type(res).__name__} shape={np.shape(res)} {fmt(res)}")


def record(label, func):
    try:
        res = func()
    except Exception as exc:  # noqa: BLE001
        msg = str(exc)
        if "needs all of" in msg:  # message embeds repr(set): order depends on the hash seed
            msg = msg.split("needs all of")[0] + "needs all of <set>"
        out.append(f"{label}: EXC {type(exc).__name__}: {msg}")
        return
    dump(label, res)


# ---------------------------------------------------------------- rescale_pseudopressure
gas = pd.read_csv(os.path.join(DATA, "pvt_gas.csv")).rename(columns={"P": "pressure"})
oil = pd.read_csv(os.path.join(DATA, "pvt_oil.csv")).rename(columns={"P": "pressure"})
multi = pd.read_csv(os.path.join(DATA, "pvt_multiphase_oil.csv"), index_col=0)


class AttrDict(dict):
    """dict that also allows attribute access (like a DataFrame) but has .copy -> plain dict."""

    __getattr__ = dict.__getitem__


class Table:
    """No .copy attribute -> exercises the copy.deepcopy branch."""

    def __init__(self, pressure, pseudopressure):
        self.pressure = pressure
        self.pseudopressure = pseudopressure

    def __getitem__(self, key):
        return getattr(self, key)

    def __setitem__(self, key, val):
        setattr(self, key, val)


for tname, df in (("gas", gas), ("oil", oil), ("multi", multi)):
    p = df["pressure"].to_numpy(dtype=float)
    combos = [
        (1000, 8000.0),
        (1000.0, 6000),
        (float(p[0]), float(p[-1])),
        (float(p[3]), float(p[3]) + 1e-7),
        (2500.5, 2500.5),  # zero denominator
        (6000.0, 1000.0),  # reversed
        (123.456, 7654.321),
        (float(p[0]) - 1.0, 5000.0),  # p_frac out of range
        (1000.0, float(p[-1]) + 1.0),  # p_i out of range
        (float("nan"), 5000.0),
        (1000.0, float("nan")),
        (np.array([500.0, 1000.0]), 5000.0),  # array p_frac -> broadcasting error
        (1000.0, None),
        ("1000", 5000.0),
    ]
    for p_frac, p_i in combos:
        record(f"rescale[{tname}|{p_frac!r}|{p_i!r}]", lambda df=df, a=p_frac, b=p_i: rescale_pseudopressure(df, a, b))
    # input is left untouched
    before = df["pseudopressure"].to_numpy().copy()
    res = rescale_pseudopressure(df, 1000.0, 7000.0)
    out.append(f"rescale[{tname}] input untouched: {np.array_equal(before, df['pseudopressure'].to_numpy())} new_obj={res is not df}")
    # other containers
    record(f"rescale[{tname}|plain dict]", lambda df=df: rescale_pseudopressure({"pressure": p, "pseudopressure": df["pseudopressure"].to_numpy()}, 1000.0, 7000.0))
    record(f"rescale[{tname}|attrdict]", lambda df=df: dict(rescale_pseudopressure(AttrDict(pressure=p, pseudopressure=df["pseudopressure"].to_numpy()), 1000.0, 7000.0)))
    record(f"rescale[{tname}|Table]", lambda df=df: rescale_pseudopressure(Table(p, df["pseudopressure"].to_numpy()), 1000.0, 7000.0).pseudopressure)
    tbl = Table(p, df["pseudopressure"].to_numpy())
    res = rescale_pseudopressure(tbl, 1000.0, 7000.0)
    out.append(f"rescale[{tname}|Table] deep-copied: {res is not tbl and res.pressure is not tbl.pressure}")
    record(f"rescale[{tname}|recarray]", lambda df=df: rescale_pseudopressure(df[["pressure", "pseudopressure"]].to_records(index=False), 1000.0, 7000.0)["pseudopressure"])
    record(f"rescale[{tname}|no pseudopressure]", lambda df=df: rescale_pseudopressure(df.drop(columns=["pseudopressure"]), 1000.0, 7000.0))
    record(f"rescale[{tname}|no pressure]", lambda df=df: rescale_pseudopressure(df.drop(columns=["pressure"]), 1000.0, 7000.0))
    record(f"rescale[{tname}|one row]", lambda df=df: rescale_pseudopressure(df.iloc[:1], 1000.0, 7000.0))
    record(f"rescale[{tname}|unsorted]", lambda df=df: rescale_pseudopressure(df.iloc[::-1].iloc[:40], float(p[-5]), float(p[-20])))
    record(f"rescale[{tname}|None]", lambda: rescale_pseudopressure(None, 1000.0, 7000.0))

# ---------------------------------------------------- relative_permeabilities_twophase
base = RelPermParams(n_o=1, n_g=1, n_w=1, S_or=0, S_gc=0, S_wc=0.1, k_ro_max=1, k_rw_max=1, k_rg_max=1)
param_sets = {
    "base": base,
    "corey": RelPermParams(2.5, 3.0, 1.7, 0.15, 0.2, 0.05, 0.8, 0.3, 0.9),
    "S_wc0": base._replace(S_wc=0),
    "S_wc1": base._replace(S_wc=1.0),
    "bad_exp": base._replace(n_o=8),
    "bad_S": base._replace(S_or=-0.1),
    "bad_k": base._replace(k_rg_max=1.5),
    "nan_S_wc": base._replace(S_wc=float("nan")),
}
for pname, params in param_sets.items():
    for Sw in (0.1, 0, 0.0, 0.05, 0.1000001, 0.8, 1.0, -0.2, float("nan"), np.float64(0.03), None, "0.1", np.array([0.05, 0.06])):
        record(f"twophase[{pname}|Sw={Sw!r}]", lambda p=params, s=Sw: relative_permeabilities_twophase(p, s))
        record(f"twophase[{pname}|Sw={Sw!r}|kw]", lambda p=params, s=Sw: relative_permeabilities_twophase(params=p, Sw=s))
    record(f"twophase[{pname}|default]", lambda p=params: relative_permeabilities_twophase(p))
record("twophase[None]", lambda: relative_permeabilities_twophase(None))
record("twophase[tuple]", lambda: relative_permeabilities_twophase((1, 1, 1, 0, 0.1, 0, 1, 1, 1)))

# ------------------------------------------------------- FlowPropertiesTwoPhase.from_table
Sw = 0.1
pvt_water = pd.read_csv(os.path.join(DATA, "pvt_water.csv")).rename(
    columns={"T": "temperature", "P": "pressure", "Viscosity": "mu_w"}
)
df_pvt = (
    pvt_water.drop(columns=["temperature"])
    .merge(
        pd.read_csv(os.path.join(DATA, "pvt_oil.csv")).rename(
            columns={"T": "temperature", "P": "pressure", "Oil_Viscosity": "mu_o",
                     "Gas_Viscosity": "mu_g", "Rso": "Rs"}
        ),
        on="pressure",
    )
    .assign(Rv=0)
)
df_pvt["So"] = (1 - Sw) / ((df_pvt["Rs"].max() - df_pvt["Rs"]) * df_pvt["Bg"] / df_pvt["Bo"] / 5.61458 + 1)
densities = {"rho_o0": 141.5 / (45 + 131.5), "rho_g0": 1.03e-3, "rho_w0": 1}


class Sub(FlowPropertiesTwoPhase):
    pass


def build(cls, params, p_frac, p_res, table=df_pvt, dens=densities):
    scaled = rescale_pseudopressure(table, p_frac, p_res)
    df_kr = relative_permeabilities_twophase(params, Sw)
    fp = cls.from_table(scaled, df_kr, dens, 0.1, Sw, p_res)
    m = np.linspace(-0.2, 1.3, 31)
    out.append(f"  built {type(fp).__name__} pvt_keys={sorted(fp.pvt)} kr_keys={sorted(fp.kr)} props={list(fp.pvt_props)}")
    return np.concatenate(
        [
            np.atleast_1d(fp.m_i),
            np.asarray(fp.pvt_props["alpha"], dtype=float),
            np.asarray(fp.pvt_props["m-scaled"], dtype=float),
            fp.alpha(m),
            fp.kr["kro"]([0, 0.2, 0.4]),
            fp.kr["krg"]([0, 0.2, 0.4]),
            fp.kr["krw"]([0, 0.2, 0.4]),
            fp.pvt["Bo"]([10.0, 5000.0, 20000.0]),
        ]
    )


for cls in (FlowPropertiesTwoPhase, Sub):
    for pname in ("base", "corey"):
        for p_frac, p_res in ((1000, 8000.0), (250.0, 4000.0)):
            record(f"from_table[{cls.__name__}|{pname}|{p_frac}|{p_res}]", lambda cls=cls, pname=pname, a=p_frac, b=p_res: build(cls, param_sets[pname], a, b))
record("from_table[p_res out of range]", lambda: build(FlowPropertiesTwoPhase, base, 1000.0, 9500.0))
record("from_table[missing pvt col]", lambda: build(FlowPropertiesTwoPhase, base, 1000.0, 8000.0, table=df_pvt.drop(columns=["Rv"])))
record("from_table[missing density]", lambda: build(FlowPropertiesTwoPhase, base, 1000.0, 8000.0, dens={"rho_o0": 0.8}))
record(
    "from_table[missing kr col]",
    lambda: FlowPropertiesTwoPhase.from_table(df_pvt, relative_permeabilities_twophase(base).drop(columns=["krw"]), densities, 0.1, Sw, 8000.0),
)

with open(sys.argv[1], "w") as fh:
    fh.write("\n".join(out) + "\n")
