"""Equivalence probe for twin2: compressibility_combined_func and its callers."""

from __future__ import annotations

import os
import sys
import warnings

import numpy as np
import pandas as pd
from scipy.interpolate import interp1d

from bluebonnet.flow.flowproperties import (
    FlowPropertiesTwoPhase,
    RelPermParams,
    alpha_multiphase,
    compressibility_combined_func,
    relative_permeabilities_twophase,
    rescale_pseudopressure,
)

warnings.simplefilter("ignore")
np.seterr(all="ignore")
DATA = os.environ.get("BB_DATA", "/tmp/twin_flowproperties/tests/data")
out = []


def fmt(x):
    return ",".join(repr(float(v)) for v in np.asarray(x, dtype=float).ravel())


def record(label, func):
    try:
        res = func()
    except Exception as exc:  # noqa: BLE001
        out.append(f"{label}: EXC {type(exc).__name__}: {exc}")
        return
    out.append(f"{label}: type={type(res).__name__} shape={np.shape(res)} {fmt(res)}")


def make_df_pvt(Sw):
    pvt_oil = pd.read_csv(os.path.join(DATA, "pvt_oil.csv"))
    pvt_water = pd.read_csv(os.path.join(DATA, "pvt_water.csv")).rename(
        columns={"T": "temperature", "P": "pressure", "Viscosity": "mu_w"}
    )
    rename_cols = {
        "T": "temperature",
        "P": "pressure",
        "Oil_Viscosity": "mu_o",
        "Gas_Viscosity": "mu_g",
        "Rso": "Rs",
    }
    df = (
        pvt_water.drop(columns=["temperature"])
        .merge(pvt_oil.rename(columns=rename_cols), on="pressure")
        .assign(Rv=0)
    )
    df["So"] = (1 - Sw) / ((df["Rs"].max() - df["Rs"]) * df["Bg"] / df["Bo"] / 5.61458 + 1)
    return df


PVT_COLS = ("pseudopressure", "pressure", "Bo", "Bg", "Bw", "Rs", "Rv", "mu_o", "mu_g", "mu_w", "So")
densities = {"rho_o0": 141.5 / (45 + 131.5), "rho_g0": 1.03e-3, "rho_w0": 1}
Sw0 = 0.1
df_pvt = make_df_pvt(Sw0)
# give Rv some life too (condensate-like) in a second table
df_pvt_rv = df_pvt.assign(Rv=1e-5 * np.sqrt(df_pvt["pressure"] + 1.0))


def make_pvt(df, fill="extrapolate", dens=densities):
    kwargs = {"fill_value": "extrapolate"} if fill == "extrapolate" else {}
    pvt = {prop: interp1d(df["pressure"], df[prop], **kwargs) for prop in PVT_COLS}
    pvt.update(dens)
    return pvt


pvt_ex = make_pvt(df_pvt)
pvt_rv = make_pvt(df_pvt_rv)
pvt_strict = make_pvt(df_pvt, fill=None)
pvt_lambda = {
    "Rv": lambda p: 1e-6 * p,
    "Rs": lambda p: 0.2 * p**0.9,
    "Bg": lambda p: 5.0 / (p + 14.7),
    "Bo": lambda p: 1.05 + 1e-4 * p,
    "Bw": lambda p: 1.04 - 3e-6 * p,
    "rho_o0": 0.8,
    "rho_g0": 1e-3,
    "rho_w0": 1.0,
}

p_tab = df_pvt["pressure"].to_numpy(dtype=float)
So_tab = df_pvt["So"].to_numpy(dtype=float)
p_mid = np.linspace(p_tab[1] + 3.3, p_tab[-2] - 7.7, 37)
So_mid = np.linspace(0.05, 0.85, 37)

cases = {
    "table": (p_tab, So_tab, 0.1, Sw0),
    "table_series": (df_pvt["pressure"], df_pvt["So"], 0.1, Sw0),
    "mid": (p_mid, So_mid, 0.07, 0.15),
    "mid_Sw_arr": (p_mid, So_mid, 0.07, np.linspace(0.0, 0.14, 37)),
    "scalar": (3217.25, 0.61, 0.12, 0.1),
    "scalar_int": (4000, 1, 1, 0),
    "edge_lo": (np.array([p_tab[0], p_tab[0] + 0.25, p_tab[0] + 0.5]), np.array([0.1, 0.2, 0.3]), 0.1, 0.1),
    "edge_hi": (np.array([p_tab[-1] - 0.5, p_tab[-1] - 0.25, p_tab[-1]]), np.array([0.7, 0.8, 0.9]), 0.1, 0.1),
    "beyond": (np.array([p_tab[-1] + 100.0, -50.0]), np.array([0.7, 0.8]), 0.1, 0.1),
    "phi0": (p_mid, So_mid, 0.0, 0.1),
    "nan_p": (np.array([1000.0, np.nan, 3000.0]), np.array([0.5, 0.5, 0.5]), 0.1, 0.1),
    "nan_So": (np.array([1000.0, 2000.0]), np.array([np.nan, 0.5]), 0.1, 0.1),
    "2d": (p_mid[:12].reshape(3, 4), So_mid[:12].reshape(3, 4), 0.1, 0.1),
    "broadcast": (p_mid[:4].reshape(4, 1), So_mid[:3], 0.1, 0.1),
    "empty": (np.array([]), np.array([]), 0.1, 0.1),
    "shape_mismatch": (p_mid[:4], So_mid[:3], 0.1, 0.1),
    "list_p": ([1000.0, 2000.0], np.array([0.5, 0.6]), 0.1, 0.1),
    "str_p": ("1000", 0.5, 0.1, 0.1),
    "none_So": (1000.0, None, 0.1, 0.1),
    "none_phi": (1000.0, 0.5, None, 0.1),
}
pvts = {"ex": pvt_ex, "rv": pvt_rv, "strict": pvt_strict, "lambda": pvt_lambda}
for pname, pvt in pvts.items():
    for cname, (p, So, phi, Sw) in cases.items():
        record(
            f"cp[{pname}|{cname}]",
            lambda p=p, So=So, phi=phi, Sw=Sw, pvt=pvt: compressibility_combined_func(
                p, So, phi, Sw, pvt
            ),
        )

# missing keys, one at a time
for key in ("Rv", "Rs", "Bg", "Bo", "Bw", "rho_o0", "rho_g0", "rho_w0"):
    broken = {k: v for k, v in pvt_rv.items() if k != key}
    record(f"cp[missing {key}]", lambda b=broken: compressibility_combined_func(p_mid, So_mid, 0.1, 0.1, b))
    notcallable = dict(pvt_rv)
    notcallable[key] = None
    record(f"cp[None {key}]", lambda b=notcallable: compressibility_combined_func(p_mid, So_mid, 0.1, 0.1, b))

# callers: alpha_multiphase and FlowPropertiesTwoPhase.from_table
relperm = RelPermParams(
    n_o=1, n_g=1, n_w=1, S_or=0, S_gc=0, S_wc=0.1, k_ro_max=1, k_rw_max=1, k_rg_max=1
)
relperm2 = RelPermParams(2.0, 1.5, 3.0, 0.05, 0.12, 0.02, 0.9, 0.4, 0.8)
for rname, rp in (("lin", relperm), ("corey", relperm2)):
    df_kr = relative_permeabilities_twophase(rp, 0.1)
    kr = {f: interp1d(df_kr["So"], df_kr[f]) for f in ("kro", "krg", "krw")}
    for pname, pvt in (("ex", pvt_ex), ("rv", pvt_rv), ("strict", pvt_strict)):
        record(f"alpha[{rname}|{pname}|table]", lambda pvt=pvt, kr=kr: alpha_multiphase(p_tab, So_tab, 0.1, 0.1, pvt, kr))
        record(f"alpha[{rname}|{pname}|mid]", lambda pvt=pvt, kr=kr: alpha_multiphase(p_mid, So_mid, 0.2, 0.05, pvt, kr))
        record(f"alpha[{rname}|{pname}|scalar]", lambda pvt=pvt, kr=kr: alpha_multiphase(2500.5, 0.45, 0.2, 0.05, pvt, kr))
        record(f"alpha[{rname}|{pname}|So_out]", lambda pvt=pvt, kr=kr: alpha_multiphase(2500.5, 0.95, 0.2, 0.05, pvt, kr))
    for dname, df in (("rv0", df_pvt), ("rv", df_pvt_rv)):
        for p_frac, p_res in ((1000, 8000.0), (500.0, 6000.0)):
            def build(df=df, df_kr=df_kr, p_frac=p_frac, p_res=p_res):
                scaled = rescale_pseudopressure(df, p_frac, p_res)
                fp = FlowPropertiesTwoPhase.from_table(scaled, df_kr, densities, 0.1, 0.1, p_res)
                m = np.linspace(-0.2, 1.3, 61)
                return np.concatenate(
                    [
                        np.atleast_1d(fp.m_i),
                        np.asarray(fp.pvt_props["alpha"], dtype=float),
                        np.asarray(fp.pvt_props["m-scaled"], dtype=float),
                        fp.alpha(m),
                    ]
                )

            record(f"from_table[{rname}|{dname}|{p_frac}|{p_res}]", build)
    record(
        f"from_table[{rname}|p_i out of range]",
        lambda df_kr=df_kr: FlowPropertiesTwoPhase.from_table(df_pvt, df_kr, densities, 0.1, 0.1, 1e9).m_i,
    )
    record(
        f"from_table[{rname}|no densities]",
        lambda df_kr=df_kr: FlowPropertiesTwoPhase.from_table(df_pvt, df_kr, {}, 0.1, 0.1, 8000.0).m_i,
    )

with open(sys.argv[1], "w") as fh:
    fh.write("\n".join(out) + "\n")
