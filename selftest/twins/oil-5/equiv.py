"""Equivalence driver for twin5: viscosity_beggs_robinson (dead-oil viscosity hoisted out of both branches, guard clause).

Usage: PYTHONPATH=<tree>/src /venv/bin/python equiv.py <outfile>
"""

from __future__ import annotations

import os
import sys
import warnings

import numpy as np
import pandas as pd

warnings.simplefilter("ignore")
np.seterr(all="ignore")

from bluebonnet.fluids import oil  # noqa: E402
from bluebonnet.fluids.fluid import Fluid  # noqa: E402

BB_DATA = os.environ.get("BB_DATA", "/tmp/twin_oil/tests/data")
SIG = None  # bit-identical refactoring: full repr


def fmt(x):
    if isinstance(x, np.ndarray):
        return f"ndarray[{x.dtype},{x.shape}](" + ",".join(fmt(v) for v in x.ravel().tolist()) + ")"
    if isinstance(x, (list, tuple)):
        return type(x).__name__ + "(" + ",".join(fmt(v) for v in x) + ")"
    tname = type(x).__name__
    if isinstance(x, (complex, np.complexfloating)):
        return f"{tname}:{fmt(float(x.real))}+{fmt(float(x.imag))}j"
    if isinstance(x, (float, np.floating)):
        v = float(x)
        if SIG is not None and np.isfinite(v):
            return f"{tname}:{v:.{SIG}g}"
        return f"{tname}:{v!r}"
    return f"{tname}:{x!r}"


def call(f, *args, **kwargs):
    try:
        return fmt(f(*args, **kwargs))
    except Exception as e:  # noqa: BLE001
        return "RAISES " + type(e).__name__


def main(outfile):
    lines = []

    def rec(label, f, *a, **k):
        lines.append(f"{label} -> {call(f, *a, **k)}")

    f = oil.viscosity_beggs_robinson
    temps = [60, 100.0, 200, 275.5, 400]
    apis = [10, 22.5, 35, 45.0, 60]
    sgs = [0.55, 0.65, 0.8, 1.2]
    gors = [0, 50, 300.0, 650, 1500, 4000]
    p_scalars = [
        0, 0.0, 14.7, 100, 500.0, 1000, 2000, 2627.2017021875276, 2627.3, 3000, 5000.0,
        10000, 20000, 1e6, 1e300, -5.0, -30, -3000.0, np.float64(1800.0), np.float32(1800.0),
        np.int64(1800), np.float64(7000.0), np.float64(-30.0), float("nan"), float("inf"),
        np.array([1800.0]), np.array([7000.0]), np.array(1800.0), np.array(7000.0),
        np.array([1000.0, 7000.0]), np.array([]),
    ]
    for T in temps:
        for api in apis:
            for sg in sgs:
                for gor in gors:
                    for p in p_scalars:
                        rec(f"mu T={T!r} p={p!r} api={api!r} sg={sg!r} gor={gor!r}",
                            f, T, p, api, sg, gor)
    rec("kw", f, temperature=200, pressure=2000, api_gravity=35, gas_specific_gravity=0.8,
        solution_gor_initial=650)
    rec("kw2", f, solution_gor_initial=650, gas_specific_gravity=0.8, api_gravity=35,
        pressure=3000, temperature=200)
    bad = [
        (200, 2000, 35, 0, 650),
        (200, 3000, 35, 0.0, 650),
        (200, 2000, -131.5, 0.8, 650),
        (200, 2000, -200, 0.8, 650),
        (200, 2000, -2000, 0.8, 650),
        (200, 20000, -2000, 0.8, 650),
        (200, 2000, 35, -0.8, 650),
        (200, 2000, 35, 0.8, -650),
        (200, 2000, 35, 0.8, -100),
        (200, 2000, 35, 0.8, -150.0),
        (200, 20000, 35, 0.8, -100),
        (0, 2000, 35, 0.8, 650),
        (0, 20000, 35, 0.8, 650),
        (0.0, 2000, 35, 0.8, 650),
        (0, np.array([1000.0, 7000.0]), 35, 0.8, 650),  # ValueError must win over ZeroDivision
        (0, np.array([]), 35, 0.8, 650),
        (0, None, 35, 0.8, 650),
        (0, "2000", 35, 0.8, 650),
        (-50, 2000, 35, 0.8, 650),
        (-50.0, 20000, 35, 0.8, 650),
        (np.float64(0.0), 2000, 35, 0.8, 650),
        (np.float64(-50.0), 2000, 35, 0.8, 650),
        (1, 2000, 35, 0.8, 650),
        (5, 2000, -50, 0.8, 650),  # overflow in the dead-oil term
        (5, 20000, -50, 0.8, 650),
        (5, np.array([1000.0, 7000.0]), -50, 0.8, 650),
        (200, "2000", 35, 0.8, 650),
        ("200", 2000, 35, 0.8, 650),
        (200, None, 35, 0.8, 650),
        (None, 2000, 35, 0.8, 650),
        (200, 2000, None, 0.8, 650),
        (200, 2000, 35, 0.8, None),
        (200, 2000, 1e6, 0.8, 650),
        (1e7, 2000, 35, 0.8, 650),
        (200, 2000 + 1j, 35, 0.8, 650),
        (200, [1000.0], 35, 0.8, 650),
        (200, pd.Series([1000.0, 7000.0]), 35, 0.8, 650),
        (np.array([100.0, 200.0]), 2000, 35, 0.8, 650),
        (200, 2000, np.array([30.0, 35.0]), 0.8, 650),
        (200, 2000, 35, 0.8, np.array([650.0, 700.0])),
        (200, 2000, 35, np.array([0.7, 0.8]), 650),
    ]
    for i, a in enumerate(bad):
        rec(f"bad#{i}", f, *a)
    rec("too_few", f, 200, 2000, 35, 0.8)
    rec("too_many", f, 200, 2000, 35, 0.8, 650, 1)

    # the private helper both versions rely on
    rec("helper1", oil._mu_dead_to_live_br, 2.5, 650)
    rec("helper2", oil._mu_dead_to_live_br, np.array([0.5, 2.5]), np.array([100.0, 650.0]))

    # vectorised caller
    for T, api, sg, gor in [(200, 35, 0.8, 650), (150.0, 45, 0.65, 1500), (300, 22.5, 1.2, 300.0),
                            (100, 10, 0.55, 50)]:
        fl = Fluid(T, api, sg, gor)
        rec(f"Fluid.oil_viscosity lin {T} {api} {sg} {gor}", fl.oil_viscosity, np.linspace(50, 12000, 60))
        rec(f"Fluid.oil_viscosity int {T} {api} {sg} {gor}", fl.oil_viscosity, np.arange(500, 9000, 500))
        rec(f"Fluid.oil_viscosity 2d {T} {api} {sg} {gor}", fl.oil_viscosity,
            np.linspace(50, 12000, 12).reshape(3, 4))
        rec(f"Fluid.oil_viscosity scalar {T} {api} {sg} {gor}", fl.oil_viscosity, 1234.5)
        rec(f"Fluid.oil_viscosity list {T} {api} {sg} {gor}", fl.oil_viscosity, [1000.0, 7000.0])
        rec(f"Fluid.oil_viscosity nan {T} {api} {sg} {gor}", fl.oil_viscosity,
            np.array([1000.0, np.nan, 7000.0, np.inf]))
        rec(f"Fluid.oil_viscosity empty {T} {api} {sg} {gor}", fl.oil_viscosity, np.array([]))

    for name in ["pvt_oil.csv", "pvt_multiphase_oil.csv"]:
        try:
            df = pd.read_csv(os.path.join(BB_DATA, name))
            pcol = [c for c in df.columns if "ressure" in c or c.lower() == "p"][0]
            parr = df[pcol].to_numpy()
            rec(f"table {name} mu", Fluid(200, 35, 0.8, 650).oil_viscosity, parr)
        except Exception as e:  # noqa: BLE001
            lines.append(f"table {name} -> HARNESS {type(e).__name__}")

    with open(outfile, "w") as fh:
        fh.write("\n".join(lines) + "\n")


if __name__ == "__main__":
    main(sys.argv[1])
