"""Equivalence harness for bluebonnet.plotting (clean tree vs refactored tree).

Usage: PYTHONPATH=<tree>/src /venv/bin/python equiv.py <outfile>
"""

from __future__ import annotations

import copy
import logging
import os
import pickle
import sys
import warnings

import matplotlib

matplotlib.use("Agg")

import matplotlib.pyplot as plt
import matplotlib.scale as mscale
import numpy as np
import pandas as pd

DATA = os.environ.get("BB_DATA", "/tmp/twin10_plotting/tests/data")
OUT: list[str] = []


def fmt(v):
    if isinstance(v, (float, np.floating)):
        return repr(float(v))
    if isinstance(v, np.ndarray):
        return "array" + repr(v.shape) + "[" + ",".join(fmt(x) for x in v.ravel().tolist()) + "]"
    if isinstance(v, (list, tuple)):
        return type(v).__name__ + "(" + ",".join(fmt(x) for x in v) + ")"
    if isinstance(v, dict):
        return "{" + ",".join(f"{k!r}:{fmt(x)}" for k, x in v.items()) + "}"
    return repr(v)


def emit(label, value):
    OUT.append(f"{label} = {fmt(value)}")


def attempt(label, fn):
    """Run fn, record its value or the exception type and message; record warnings."""
    with warnings.catch_warnings(record=True) as caught:
        warnings.simplefilter("always")
        try:
            value = fn()
        except Exception as e:  # noqa: BLE001
            OUT.append(f"{label} RAISES {type(e).__name__}: {e}")
            value = None
        else:
            emit(label, value)
    for w in caught:
        OUT.append(f"{label} WARNS {w.category.__name__}: {w.message}")
    return value


def describe_axes(ax):
    d = {
        "xlabel": ax.get_xlabel(),
        "ylabel": ax.get_ylabel(),
        "xscale": ax.get_xscale(),
        "yscale": ax.get_yscale(),
        "xlim": tuple(ax.get_xlim()),
        "ylim": tuple(ax.get_ylim()),
        "xticks": np.asarray(ax.get_xticks()),
        "yticks": np.asarray(ax.get_yticks()),
        "nlines": len(ax.lines),
    }
    for i, line in enumerate(ax.lines):
        d[f"line{i}.x"] = np.asarray(line.get_xdata(), dtype=float)
        d[f"line{i}.y"] = np.asarray(line.get_ydata(), dtype=float)
        d[f"line{i}.color"] = line.get_color()
        d[f"line{i}.label"] = line.get_label()
        d[f"line{i}.ls"] = line.get_linestyle()
        d[f"line{i}.lw"] = line.get_linewidth()
        d[f"line{i}.marker"] = line.get_marker()
    return d


def main():
    import bluebonnet
    import bluebonnet.plotting as bp
    from bluebonnet.flow import FlowProperties, IdealReservoir, SinglePhaseReservoir

    # ---- module surface that exists today -------------------------------------------
    ns: dict = {}
    exec("from bluebonnet.plotting import *", ns)  # noqa: S102
    old_public = [
        "Any", "IdealReservoir", "MultiPhaseReservoir", "Reservoir", "SinglePhaseReservoir",
        "SquareRootScale", "TwoPhaseReservoir", "Union", "annotations", "mscale", "mtransforms",
        "np", "plot_pseudopressure", "plot_recovery_factor", "plot_recovery_rate", "plt", "ticker",
    ]  # fmt: skip
    emit("star.has_old_public", [n in ns for n in old_public])
    emit("Reservoir.repr", repr(bp.Reservoir))
    emit("bluebonnet.plotting is bp", bluebonnet.plotting is bp)
    emit("reexported classes identical", [
        bp.IdealReservoir is IdealReservoir,
        bp.SinglePhaseReservoir is SinglePhaseReservoir,
    ])  # fmt: skip
    attempt("getattr.missing", lambda: bp.no_such_name_here)
    emit("hasattr.missing", hasattr(bp, "no_such_name_here"))

    def bad_import():
        exec("from bluebonnet.plotting import no_such_name_here", {})  # noqa: S102

    with warnings.catch_warnings(record=True):
        try:
            bad_import()
        except Exception as e:  # noqa: BLE001
            OUT.append(f"import.missing RAISES {type(e).__name__}: {str(e).split(' (')[0]}")
    for fn in (bp.plot_pseudopressure, bp.plot_recovery_rate, bp.plot_recovery_factor):
        emit(f"{fn.__name__}.annotations", dict(fn.__annotations__))
        emit(f"{fn.__name__}.defaults", fn.__defaults__)
        emit(f"{fn.__name__}.module", fn.__module__)
        emit(f"{fn.__name__}.doc", fn.__doc__)
    emit("logger.level.bluebonnet", logging.getLogger("bluebonnet").level)
    emit("logger.handlers.bluebonnet", len(logging.getLogger("bluebonnet").handlers))
    emit("logger.root.level", logging.getLogger().level)
    emit("logger.root.handlers", len(logging.getLogger().handlers))
    emit("np.geterr", dict(np.geterr()))

    # ---- scale class ---------------------------------------------------------------
    S = bp.SquareRootScale
    emit("scale.name", S.name)
    emit("scale.mro", [c.__name__ for c in S.__mro__])
    emit("scale.registered", mscale._scale_mapping["squareroot"] is S)
    emit("scale.in_names", "squareroot" in mscale.get_scale_names())
    fig, ax = plt.subplots()
    sc = attempt("scale.ctor", lambda: type(S(ax.xaxis)).__name__)
    attempt("scale.ctor.kwargs", lambda: S(ax.xaxis, base=2))
    attempt("scale.ctor.noaxis", lambda: S())
    attempt("scale.ctor.None", lambda: type(S(None)).__name__)
    s = S(ax.xaxis)
    for args in [(-1.0, 4.0, 1e-300), (0.0, 1.0, 0.5), (2.5, 1.0, 1.0), (-0.0, -3.0, 0.1),
                 (float("nan"), 1.0, 1.0), (np.float64(-2), np.float64(7), 0)]:  # fmt: skip
        attempt(f"scale.limit_range{args!r}", lambda args=args: s.limit_range_for_scale(*args))
    attempt("scale.limit_range.bad", lambda: s.limit_range_for_scale("a", 1, 1))
    t = s.get_transform()
    emit("transform.type", type(t).__qualname__)
    emit("transform.str", str(t).split(" at 0x")[0])
    emit("transform.dims", (t.input_dims, t.output_dims, t.is_separable, t.has_inverse, t.is_affine))
    ti = t.inverted()
    emit("inv.type", type(ti).__qualname__)
    emit("inv.str", str(ti).split(" at 0x")[0])
    emit("inv.dims", (ti.input_dims, ti.output_dims, ti.is_separable, ti.has_inverse, ti.is_affine))
    emit("inv.inv.type", type(ti.inverted()).__qualname__)
    inputs = {
        "scalar": 4.0,
        "zero": 0.0,
        "list": [0.0, 1.0, 2.25, 1e-300, 1e300],
        "arr": np.linspace(0, 11, 13),
        "neg": np.array([-1.0, 4.0]),
        "int": np.arange(5),
        "nan_inf": np.array([np.nan, np.inf]),
        "empty": np.array([]),
        "2d": np.array([[1.0], [9.0]]),
        "str": "abc",
        "none": None,
    }
    for k, v in inputs.items():
        attempt(f"t.transform_non_affine[{k}]", lambda v=v: t.transform_non_affine(v))
        attempt(f"t.transform[{k}]", lambda v=v: t.transform(v))
        attempt(f"ti.transform[{k}]", lambda v=v: ti.transform(v))
        attempt(f"ti.transform_non_affine[{k}]", lambda v=v: ti.transform_non_affine(v))
    import fractions

    more = {
        "f32": np.array([4.0, 9.0], dtype=np.float32),
        "f16": np.array([4.0, 9.0], dtype=np.float16),
        "complex": np.array([-4.0 + 0j, 1j]),
        "bool": np.array([True, False]),
        "uint8": np.array([200, 255], dtype=np.uint8),
        "int_scalar": 9,
        "neg_int": np.array([-3, 2]),
        "object": np.array([fractions.Fraction(1, 4), 4], dtype=object),
        "masked": np.ma.masked_array([1.0, 4.0, 9.0], mask=[False, True, False]),
        "nested_ragged": [[1.0, 2.0], [3.0]],
        "tuple": (1.0, 16.0),
        "range": range(4),
        "noncontig": np.arange(10.0)[::3],
        "fortran": np.asfortranarray(np.arange(6.0).reshape(2, 3)),
        "readonly": np.broadcast_to(np.array(4.0), (3,)),
        "0d": np.array(2.25),
        "series": pd.Series([1.0, 4.0]),
        "matrix": np.matrix([[1.0, 4.0]]),
    }
    for k, v in more.items():
        for nm, f in [("t.tna", t.transform_non_affine), ("ti.t", ti.transform)]:

            def run(v=v, f=f):
                out = f(v)
                return (type(out).__name__, str(getattr(out, "dtype", None)), np.asarray(out),
                        getattr(out, "flags", None) is not None and bool(out.flags.owndata),
                        isinstance(v, np.ndarray) and np.shares_memory(out, v),
                        getattr(out, "flags", None) is not None and bool(out.flags.writeable))  # fmt: skip

            attempt(f"{nm}[{k}]", run)
    emit("masked.mask.kept", np.ma.getmaskarray(t.transform_non_affine(more["masked"])).tolist())
    a = np.array([1.0, 4.0])
    r = t.transform_non_affine(a)
    r[0] = 99.0
    emit("transform.copies_input", a)
    attempt("copy.transform", lambda: type(copy.copy(t)).__qualname__)
    attempt("deepcopy.transform", lambda: type(copy.deepcopy(t)).__qualname__)
    attempt("copy.scale", lambda: type(copy.copy(s)).__qualname__)
    attempt("deepcopy.scale.transform", lambda: type(copy.deepcopy(s).get_transform()).__qualname__)
    attempt("pickle.scale", lambda: type(pickle.loads(pickle.dumps(s))).__qualname__)
    attempt("pickle.transform", lambda: type(pickle.loads(pickle.dumps(t))).__qualname__)
    attempt("scale.eq", lambda: (s == S(ax.xaxis), s == s, t == s.get_transform(), t == t))
    emit("scale.vars", sorted(vars(s)))
    old_members = ["InvertedSquareRootTransform", "SquareRootTransform", "get_transform",
                   "limit_range_for_scale", "name", "set_default_locators_and_formatters", "__init__"]  # fmt: skip
    emit("scale.classdict.has_old", [k in vars(S) for k in old_members])

    class Sub(S):
        name = "squareroot_sub_for_equiv"

    emit("subclass.ok", Sub(ax.xaxis).get_transform().transform_non_affine([9.0]))

    class Sub2(S):
        name = "squareroot_sub2_for_equiv"

        def get_transform(self):
            return S.InvertedSquareRootTransform()

        def __init_subclass__(cls, **kw):
            super().__init_subclass__(**kw)

    class Sub3(Sub2):
        pass

    emit("subclass2.ok", Sub3(ax.xaxis).get_transform().transform([3.0]))
    attempt("subclass.kwargs", lambda: type("K", (S,), {}, flag=1))
    ax.set_xscale("squareroot")
    ax.plot([0, 1, 4, 9], [0, 1, 2, 3])
    ax.set_xlim(-5, 9)
    fig.canvas.draw()
    emit("axes.with.scale", describe_axes(ax))
    emit("axes.scale.obj", type(ax.xaxis._scale).__name__)
    emit("axes.major.locator", type(ax.xaxis.get_major_locator()).__name__)
    emit("axes.major.formatter", type(ax.xaxis.get_major_formatter()).__name__)
    emit("axes.minor.locator", type(ax.xaxis.get_minor_locator()).__name__)
    emit("axes.minor.formatter", type(ax.xaxis.get_minor_formatter()).__name__)
    emit("axes.transData", ax.transData.transform([[4.0, 1.0], [0.0, 0.0], [9.0, 3.0]]))
    attempt("axes.set_yscale.kwargs", lambda: ax.set_yscale("squareroot", base=3))
    plt.close(fig)

    # ---- reservoirs ----------------------------------------------------------------
    ren = {"P": "pressure", "Z-Factor": "z-factor", "Cg": "compressibility",
           "Viscosity": "viscosity", "Density": "density"}  # fmt: skip
    pvt_gas = pd.read_csv(os.path.join(DATA, "pvt_gas.csv")).rename(columns=ren)
    fluid = FlowProperties(pvt_gas, 2e3)

    def time_grid(nt, t_end):
        return np.linspace(0, np.sqrt(t_end), nt) ** 2

    res = {}
    r1 = SinglePhaseReservoir(30, pressure_fracface=100.0, pressure_initial=2e3, fluid=fluid)
    r1.simulate(time_grid(400, 11))
    res["single"] = r1
    r2 = IdealReservoir(20, 500.0, 4000.0, None)
    r2.simulate(time_grid(250, 3))
    res["ideal"] = r2
    r3 = IdealReservoir(5, 10.0, 20.0, None)
    r3.simulate(time_grid(3, 0.5))
    res["tiny"] = r3
    r4 = SinglePhaseReservoir(12, pressure_fracface=1500.0, pressure_initial=2e3, fluid=fluid)
    t4 = time_grid(60, 0.01)
    r4.simulate(t4, pressure_fracface=np.linspace(1900, 1500, len(t4)))
    res["varying"] = r4
    r5 = IdealReservoir(6, 10.0, 20.0, None)
    r5.simulate(np.array([0.0, 0.0, 0.1, 0.1, 0.4]))  # repeated times -> nan gradients
    res["repeated"] = r5
    r6 = IdealReservoir(6, 10.0, 20.0, None)
    r6.simulate(np.array([0.0]))  # one time only
    res["onestep"] = r6
    r7 = IdealReservoir(6, 10.0, 20.0, None)  # never simulated
    res["unsimulated"] = r7
    r8 = IdealReservoir(6, 10.0, 20.0, None)
    r8.simulate(np.array([0.0, 0.2, 0.5]))
    r8.time = [0.0, 0.2, 0.5]  # list time
    res["listtime"] = r8
    r9 = IdealReservoir(6, 10.0, 20.0, None)
    r9.simulate(np.array([0.0, 0.2, 0.5]))
    r9.pseudopressure = r9.pseudopressure.copy()
    r9.pseudopressure[:, 0] = r9.pseudopressure[0, -1]  # rescale divides by zero
    res["flat"] = r9

    class Minimal:
        """Duck-typed stand-in: only the attributes the plotting routines read."""

        nx = 4
        time = np.array([0.0, 1.0, 4.0])
        pseudopressure = np.array([[0.0, 1.0, 1.0, 1.0], [0.0, 0.5, 0.8, 1.0], [0.0, 0.3, 0.6, 0.9]])

        def recovery_factor(self):
            return np.array([0.0, 0.25, 0.5])

    res["duck"] = Minimal()

    class Gen(Minimal):
        @property
        def pseudopressure(self):  # not an array at all
            return iter([np.zeros(4)])

    res["genpp"] = Gen()

    pp_cases = [
        ("default", {}),
        ("every50", {"every": 50}),
        ("every1_rescale", {"every": 1, "rescale": True}),
        ("every7_rescale", {"every": 7, "rescale": True, "x_max": 0.5, "y_max": 2.0}),
        ("kw", {"every": 100, "plot_kwargs": {"lw": 3, "ls": "--"}}),
        ("kw_empty", {"every": 100, "plot_kwargs": {}}),
        ("kw_color_clash", {"every": 100, "plot_kwargs": {"color": "red"}}),
        ("every0", {"every": 0}),
        ("every_neg", {"every": -3}),
        ("every_float", {"every": 2.5}),
        ("every_none", {"every": None}),
        ("every_big", {"every": 10**6}),
        ("ymax0", {"y_max": 0}),
        ("bad_kw", {"plot_kwargs": {"nonsense": 1}}),
        ("kw_not_dict", {"plot_kwargs": [("lw", 2)]}),
    ]
    for rname, r in res.items():
        for cname, kw in pp_cases:

            def run(r=r, kw=kw):
                fig, ax = plt.subplots()
                try:
                    out = bp.plot_pseudopressure(r, ax=ax, **kw)
                    assert out is ax
                    return describe_axes(ax)
                except Exception:
                    OUT.append(f"  partial axes: {fmt(describe_axes(ax))}")
                    raise
                finally:
                    plt.close(fig)

            attempt(f"pp[{rname}][{cname}]", run)

    def run_noax():
        n0 = len(plt.get_fignums())
        ax = bp.plot_pseudopressure(res["tiny"], every=1)
        d = describe_axes(ax)
        d["newfigs"] = len(plt.get_fignums()) - n0
        plt.close(ax.figure)
        return d

    attempt("pp[tiny][noax]", run_noax)
    kw_shared = {"alpha": 0.5}
    fig, ax = plt.subplots()
    bp.plot_pseudopressure(res["tiny"], every=1, ax=ax, plot_kwargs=kw_shared)
    emit("pp.kwargs.untouched", kw_shared)
    plt.close(fig)

    rr_cases = [
        ("default", {}),
        ("ticks", {"change_ticks": True}),
        ("kw", {"plot_kwargs": {"lw": 2, "color": "k"}}),
        ("kw_label_clash", {"plot_kwargs": {"label": "mine"}}),
        ("ticks_truthy", {"change_ticks": "yes"}),
        ("ticks_zero", {"change_ticks": 0}),
        ("bad_kw", {"plot_kwargs": {"nonsense": 1}}),
        ("kw_empty", {"plot_kwargs": {}}),
    ]
    for fname in ("plot_recovery_rate", "plot_recovery_factor"):
        f = getattr(bp, fname)
        for rname, r in res.items():
            for cname, kw in rr_cases:

                def run(r=r, kw=kw, f=f):
                    fig, ax = plt.subplots()
                    try:
                        out = f(r, ax, **kw)
                        assert out is ax
                        fig.canvas.draw()
                        d = describe_axes(ax)
                        d["has_recovery"] = hasattr(r, "recovery")
                        return d
                    except Exception:
                        OUT.append(f"  partial axes: {fmt(describe_axes(ax))}")
                        raise
                    finally:
                        plt.close(fig)

                attempt(f"{fname}[{rname}][{cname}]", run)

        def run_noax(f=f):
            n0 = len(plt.get_fignums())
            ax = f(res["ideal"])
            d = describe_axes(ax)
            d["newfigs"] = len(plt.get_fignums()) - n0
            plt.close(ax.figure)
            return d

        attempt(f"{fname}[ideal][noax]", run_noax)
        kw_shared = {"alpha": 0.5}
        fig, ax = plt.subplots()
        f(res["tiny"], ax, plot_kwargs=kw_shared)
        emit(f"{fname}.kwargs.untouched", kw_shared)
        plt.close(fig)
        attempt(f"{fname}.positional", lambda f=f: describe_axes(f(res["tiny"], None, True, {"lw": 1})))
        attempt(f"{fname}.unknown_kw", lambda f=f: f(res["tiny"], nope=1))
        plt.close("all")

    attempt("pp.positional", lambda: describe_axes(
        bp.plot_pseudopressure(res["tiny"], 1, True, None, 0.7, 1.5, {"lw": 1})))  # fmt: skip
    attempt("pp.unknown_kw", lambda: bp.plot_pseudopressure(res["tiny"], nope=1))
    attempt("pp.no_args", lambda: bp.plot_pseudopressure())
    plt.close("all")

    # ---- state after use ---------------------------------------------------------
    emit("np.geterr.after", dict(np.geterr()))
    emit("warnings.filters.count.stable", True)
    emit("logger.level.after", logging.getLogger("bluebonnet").level)
    emit("logger.plotting.level.after", logging.getLogger("bluebonnet.plotting").level)
    emit("logger.plotting.handlers.after", len(logging.getLogger("bluebonnet.plotting").handlers))
    emit("logger.plotting.propagate", logging.getLogger("bluebonnet.plotting").propagate)
    emit("logger.root.handlers.after", len(logging.getLogger().handlers))


if __name__ == "__main__":
    main()
    with open(sys.argv[1], "w") as fh:
        fh.write("\n".join(OUT) + "\n")
