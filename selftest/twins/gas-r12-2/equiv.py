"""Equivalence probe for twin 2 (loop-invariant hoisting in z_factor_hallyarbrough).

Run as  PYTHONPATH=<tree>/src /venv/bin/python equiv.py <outfile>
"""

from __future__ import annotations

import signal
import sys
import warnings

import numpy as np

from bluebonnet.fluids import gas

LINES: list[str] = []


class Timeout(Exception):
    pass


def _alarm(signum, frame):
    raise Timeout


signal.signal(signal.SIGALRM, _alarm)


def show(value):
    if isinstance(value, np.ndarray):
        return (
            f"ndarray{value.shape}{value.dtype}["
            + ", ".join(repr(x) for x in value.ravel().tolist())
            + "]"
        )
    if isinstance(value, (float, np.floating)):
        return f"{type(value).__name__}:{float(value)!r}"
    return f"{type(value).__name__}:{value!r}"


def rec(label, fn, *args, **kwargs):
    with warnings.catch_warnings(record=True) as caught:
        warnings.simplefilter("always")
        signal.setitimer(signal.ITIMER_REAL, 2.0)
        try:
            out = show(fn(*args, **kwargs))
        except Timeout:
            out = "TIMEOUT (newton loop does not terminate)"
        except Exception as exc:  # noqa: BLE001
            out = f"RAISED {type(exc).__name__}: {exc}"
        finally:
            signal.setitimer(signal.ITIMER_REAL, 0)
    warns = sorted({f"{w.category.__name__}: {w.message}" for w in caught})
    LINES.append(f"{label} -> {out} | warnings={warns}")


f = gas.z_factor_hallyarbrough

# the correlation is written in reduced variables: a grid over the usual chart range
for tr in [1.05, 1.1, 1.2, 1.35, 1.5, 1.75, 2.0, 2.4, 3.0]:
    for pr in [0.01, 0.2, 0.5, 1.0, 1.5, 2.0, 3.0, 5.0, 8.0, 12.0, 15.0]:
        rec(f"HY pr={pr} tr={tr}", f, pr, tr)

# a denser pseudo-random sweep
rng = np.random.default_rng(12)
for pr, tr in zip(rng.uniform(0.05, 14.0, 120), rng.uniform(1.02, 3.2, 120)):
    rec(f"HY rnd pr={pr!r} tr={tr!r}", f, float(pr), float(tr))
    rec(f"HY rnd np pr={pr!r} tr={tr!r}", f, pr, tr)  # np.float64 arguments

# keyword form and integer arguments
rec("HY kw", f, pressure=2.5, temperature=1.6)
rec("HY kw swapped", f, temperature=1.6, pressure=2.5)
rec("HY ints", f, 2, 2)
rec("HY int p", f, 3, 1.4)
rec("HY bool", f, True, 1.4)

# arguments in field units (what the docstring literally says): psi and Rankine
for p in [14.7, 500.0, 2000.0, 8000.0]:
    for t in [520.0, 660.0, 860.0]:
        rec(f"HY field p={p} T={t}", f, p, t)

# array pressure, as advertised by the docstring
rec("HY 0-d array", f, np.array(2.0), 1.5)
rec("HY size-1 array", f, np.array([2.0]), 1.5)
rec("HY size-1 array T", f, 2.0, np.array([1.5]))
rec("HY size-3 array", f, np.array([0.5, 2.0, 6.0]), 1.5)
rec("HY size-3 equal array", f, np.array([2.0, 2.0, 2.0]), 1.5)
rec("HY 2-d array", f, np.array([[2.0]]), 1.5)
rec("HY float32", f, np.float32(2.0), np.float32(1.5))
rec("HY float32 p", f, np.float32(2.0), 1.5)

# edge cases and inputs that raise / do not converge
rec("HY p=0", f, 0.0, 1.5)
rec("HY p=0 int", f, 0, 2)
rec("HY p<0", f, -1.0, 1.5)
rec("HY p tiny", f, 1e-12, 1.5)
rec("HY p huge", f, 1e6, 1.5)
rec("HY p nan", f, float("nan"), 1.5)
rec("HY p inf", f, float("inf"), 1.5)
rec("HY T nan", f, 2.0, float("nan"))
rec("HY T inf", f, 2.0, float("inf"))
rec("HY T=0", f, 2.0, 0.0)
rec("HY T=0 int", f, 2.0, 0)
rec("HY T=0 np", f, 2.0, np.float64(0.0))
rec("HY T<0", f, 2.0, -1.5)
rec("HY T=1", f, 2.0, 1.0)
rec("HY T<1", f, 2.0, 0.8)
rec("HY T tiny", f, 2.0, 1e-200)
rec("HY T tiny np", f, 2.0, np.float64(1e-200))
rec("HY T huge", f, 2.0, 1e200)
rec("HY p None", f, None, 1.5)
rec("HY T None", f, 2.0, None)
rec("HY p str", f, "2.0", 1.5)
rec("HY T str", f, 2.0, "1.5")
rec("HY p list", f, [2.0], 1.5)
rec("HY p list3", f, [2.0, 3.0, 4.0], 1.5)
rec("HY p tuple", f, (2.0,), 1.5)
rec("HY T list", f, 2.0, [1.5])
rec("HY complex", f, 2.0 + 0j, 1.5)
rec("HY no args", f)
rec("HY one arg", f, 2.0)
rec("HY three args", f, 2.0, 1.5, 1.0)

# no hidden state between calls
for i in range(3):
    rec(f"HY repeat {i}", f, 3.3, 1.45)

with open(sys.argv[1], "w") as fh:
    fh.write("\n".join(LINES) + "\n")
