"""Equivalence driver for twin4 (early, readable ValueError for multi-dimensional pressure in oil_compressibility_undersat_Spivey).

Inputs that raise are recorded only as EXC (the exception type/message may legitimately improve).."""

from __future__ import annotations

import sys
import warnings

import numpy as np

warnings.simplefilter("ignore")
np.seterr(all="ignore")

from bluebonnet.fluids import oil  # noqa: E402
from bluebonnet.fluids.fluid import Fluid  # noqa: E402


def fmt(x):
    if isinstance(x, np.ndarray):
        return f"ndarray{x.shape}{x.dtype}[" + ",".join(fmt(v) for v in x.ravel().tolist()) + "]"
    if isinstance(x, (list, tuple)):
        return type(x).__name__ + "[" + ",".join(fmt(v) for v in x) + "]"
    if isinstance(x, (float, np.floating)):
        return type(x).__name__ + ":" + repr(float(x))
    if isinstance(x, complex):
        return "complex:" + repr(x)
    return type(x).__name__ + ":" + repr(x)


LINES = []


def record(label, fn, *args, **kwargs):
    try:
        out = fmt(fn(*args, **kwargs))
    except Exception as e:  # noqa: BLE001
        out = "EXC"
    LINES.append(f"{label} -> {out}")


import pandas as pd  # noqa: E402

fluids = [
    (200.0, 35.0, 0.8, 650.0),
    (200, 35, 0.8, 650),
    (150.0, 25.0, 0.65, 300.0),
    (250.0, 45.0, 1.1, 1500.0),
    (100.0, 10.0, 0.6, 50.0),
    (np.float64(180.0), np.float64(30.0), np.float64(0.75), np.float64(500.0)),
    (200.0, 35.0, 0.8, 0.0),
    (200.0, 35.0, 0.8, -650.0),
    (200.0, 35.0, 0.0, 650.0),
    (0.0, 0.0, 0.8, 650.0),
    (float("nan"), 35.0, 0.8, 650.0),
    (200.0, "35", 0.8, 650.0),
    # array-valued fluid parameters (bubble point becomes an array)
    (np.array([150.0, 200.0]), 35.0, 0.8, 650.0),
    (200.0, 35.0, 0.8, np.array([300.0, 650.0, 900.0])),
    tuple(np.linspace(a, b, 6) for a, b in [(150.0, 250.0), (25.0, 45.0), (0.6, 0.9), (300.0, 900.0)]),
    tuple(np.linspace(a, b, 3) for a, b in [(150.0, 250.0), (25.0, 45.0), (0.6, 0.9), (300.0, 900.0)]),
]
pressures = [
    14.7, 100.0, 2000, 2627.3, 3000.0, 10000.0, 0.0, -10.0, np.float64(4321.0), float("inf"), float("nan"), True, 1 + 2j,
    np.array(3000.0),
    np.linspace(14.7, 8000.0, 17),
    np.array([3000, 4000, 9000]),
    np.array([4000.0], dtype=np.float32),
    np.array([0.0, -5.0, np.nan, np.inf, 3000.0]),
    np.array([3000.0 + 1.0j]),
    np.array([]),
    np.empty((2, 0)),
    np.empty((0, 3)),
    np.empty((2, 0, 3)),
    # more than one dimension
    np.full((2, 2), 3000.0),
    np.full((1, 1), 3000.0),
    np.full((2, 1), 3000.0),
    np.full((1, 3), 3000.0),
    np.linspace(3000.0, 9000.0, 12).reshape(3, 4),
    np.linspace(3000.0, 9000.0, 12).reshape(2, 6),
    np.linspace(3000.0, 9000.0, 36).reshape(6, 6),
    np.linspace(3000.0, 9000.0, 6).reshape(2, 3),
    np.full((1, 1, 1), 3000.0),
    np.linspace(3000.0, 9000.0, 24).reshape(2, 3, 4),
    np.array([[3000, 4000], [5000, 6000]]),
    np.array([[3000.0, None]], dtype=object),
    np.array([["a", "b"]]),
    np.ma.masked_array(np.full((2, 2), 3000.0), mask=[[0, 1], [0, 0]]),
    np.ma.masked_array([3000.0, 4000.0], mask=[0, 1]),
    # things that are not arrays
    [3000.0, 4000.0], [[3000.0, 4000.0]], (3000.0,), [], "abc", None, {1: 2},
    pd.Series([3000.0, 4000.0]),
    pd.Series([3000.0, 4000.0], index=[5, 6]),
    pd.DataFrame(np.full((2, 2), 3000.0)),
    pd.DataFrame(np.full((2, 2), 3000.0), columns=["a", "b"]),
    pd.DataFrame(np.full((2, 2), 3000.0), columns=[1.5, 2.5]),
]


def fmt_any(x):
    if isinstance(x, (pd.Series, pd.DataFrame)):
        return type(x).__name__ + fmt(np.asarray(x)) + str(list(x.index))
    if isinstance(x, np.ma.MaskedArray):
        return "masked" + fmt(np.ma.filled(x, -1.0)) + fmt(np.ma.getmaskarray(x))
    return fmt(x)


_fmt_plain = fmt


def record_any(label, fn, *args):
    try:
        out = fmt_any(fn(*args))
    except Exception:  # noqa: BLE001
        out = "EXC"
    LINES.append(f"{label} -> {out}")


for i, (t, api, sg, gor) in enumerate(fluids):
    for j, p in enumerate(pressures):
        before = p.copy() if isinstance(p, np.ndarray) else None
        record_any(f"co_sp[{i}] p{j}", oil.oil_compressibility_undersat_Spivey, t, p, api, sg, gor)
        if before is not None:
            same = before.shape == p.shape and (before.dtype == object or np.array_equal(np.ma.filled(before, 0), np.ma.filled(p, 0), equal_nan=before.dtype.kind in "fc"))
            LINES.append(f"input p{j} unchanged: {same}")
        # callers of the touched function
        finite = not (isinstance(p, np.ndarray) and p.dtype.kind in "fc" and np.isnan(p).any())
        if finite and not isinstance(p, (pd.Series, pd.DataFrame)) and i not in (10,):
            record_any(f"b_o[{i}] p{j}", oil.b_o_Standing, t, p, api, sg, gor)
            record_any(f"rho[{i}] p{j}", oil.density_Standing, t, p, api, sg, gor)
        record_any(f"co[{i}] p{j}", oil.oil_compressibility_Standing, t, p, api, sg, gor, -72.2, 653.0)
    try:
        f = Fluid(t, api, sg, gor)
    except Exception:  # noqa: BLE001
        LINES.append(f"Fluid[{i}] EXC")
        continue
    record_any(f"Fluid.oil_FVF[{i}] 1d", f.oil_FVF, np.linspace(20.0, 9000.0, 25))
    record_any(f"Fluid.oil_FVF[{i}] 2d", f.oil_FVF, np.linspace(20.0, 9000.0, 24).reshape(4, 6))

record_any("co_sp kw", lambda: oil.oil_compressibility_undersat_Spivey(temperature=200.0, pressure=np.array([3000.0, 4000.0]), api_gravity=35.0, gas_specific_gravity=0.8, solution_gor_initial=650.0))
record_any("co_sp missing", oil.oil_compressibility_undersat_Spivey, 200.0, 3000.0, 35.0, 0.8)

with open(sys.argv[1], "w") as fh:
    fh.write("\n".join(LINES) + "\n")
