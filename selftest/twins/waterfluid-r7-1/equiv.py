"""Equivalence harness for twin1: build_pvt_gas pseudopressure integration."""
import sys
import warnings

import numpy as np

from bluebonnet.fluids.fluid import build_pvt_gas

warnings.simplefilter("ignore")
out = []


def fmt(x):
    return float(x).hex()


def record(label, fn):
    try:
        df = fn()
    except Exception as e:  # noqa: BLE001
        out.append(f"{label}: EXC {type(e).__name__}")
        return
    out.append(f"{label}: shape={df.shape} cols={list(df.columns)} dtypes={[str(d) for d in df.dtypes]}")
    out.append(f"{label}: index={list(df.index[:3])}..{list(df.index[-3:])} type={type(df).__name__}")
    for col in df.columns:
        out.append(f"{label}[{col}]: " + " ".join(fmt(v) for v in df[col].to_numpy()))


base = {
    "N2": 0.0,
    "H2S": 0.0,
    "CO2": 0.0,
    "Gas Specific Gravity": 0.7,
    "Reservoir Temperature (deg F)": 200.0,
}
sour = {
    "N2": 0.02,
    "H2S": 0.05,
    "CO2": 0.08,
    "Gas Specific Gravity": 0.85,
    "Reservoir Temperature (deg F)": 310,
}
light = dict(base, **{"Gas Specific Gravity": np.float64(0.58), "Reservoir Temperature (deg F)": np.float64(120.0)})
intgrav = dict(base, **{"Gas Specific Gravity": 1, "Reservoir Temperature (deg F)": 250})

for name, gv in [("base", base), ("sour", sour), ("light", light), ("intgrav", intgrav)]:
    for dry in ["dry gas", "wet gas"]:
        for pmax in [10.5, 20, 20.0001, 25, 30, 45, 1000, 5003.3]:
            record(f"{name}/{dry}/{pmax}", lambda gv=gv, dry=dry, pmax=pmax: build_pvt_gas(gv, dry, pmax))
# default maximum pressure, positional and keyword
record("base/default", lambda: build_pvt_gas(base, "dry gas"))
record("sour/kw", lambda: build_pvt_gas(gas_values=sour, gas_dryness="wet gas", maximum_pressure=14_000))

# empty tables and error cases
for pmax in [-5, 0, 5, 10, 10.0]:
    record(f"empty/{pmax}", lambda pmax=pmax: build_pvt_gas(base, "dry gas", pmax))
record("bad dryness", lambda: build_pvt_gas(base, "damp gas", 100))
record("bad dryness empty", lambda: build_pvt_gas(base, "damp gas", 5))
for key in list(base):
    gv = {k: v for k, v in base.items() if k != key}
    record(f"missing {key}", lambda gv=gv: build_pvt_gas(gv, "dry gas", 100))
    record(f"missing {key} empty", lambda gv=gv: build_pvt_gas(gv, "dry gas", 5))
record("string gravity", lambda: build_pvt_gas(dict(base, **{"Gas Specific Gravity": "0.7"}), "dry gas", 100))
record("none temperature", lambda: build_pvt_gas(dict(base, **{"Reservoir Temperature (deg F)": None}), "dry gas", 100))
record("nan pmax", lambda: build_pvt_gas(base, "dry gas", float("nan")))
record("str pmax", lambda: build_pvt_gas(base, "dry gas", "100"))
record("fractions > 1", lambda: build_pvt_gas(dict(base, N2=0.9, CO2=0.9), "dry gas", 100))
record("negative gravity", lambda: build_pvt_gas(dict(base, **{"Gas Specific Gravity": -0.7}), "dry gas", 100))
record("cold", lambda: build_pvt_gas(dict(base, **{"Reservoir Temperature (deg F)": -400.0}), "dry gas", 100))

with open(sys.argv[1], "w") as f:
    f.write("\n".join(out) + "\n")
