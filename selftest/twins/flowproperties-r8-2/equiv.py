"""Equivalence driver: writes results of the touched API to <outfile>."""
from __future__ import annotations

import os
import sys
import warnings

import numpy as np
import pandas as pd

warnings.simplefilter("ignore")

DATA = os.environ.get("BB_DATA", "/tmp/twin8_flowproperties/tests/data")
LINES: list[str] = []


def fmt(obj):
    if isinstance(obj, pd.DataFrame):
        return "DataFrame{" + "; ".join(f"{c}={fmt(obj[c].to_numpy())}" for c in obj.columns) + "}"
    if isinstance(obj, pd.Series):
        return "Series" + fmt(obj.to_numpy())
    if isinstance(obj, np.ndarray):
        if obj.dtype.names:
            return "rec{" + "; ".join(f"{n}={fmt(obj[n])}" for n in obj.dtype.names) + "}"
        return f"arr[{obj.dtype},{obj.shape}]" + repr([fmt(v) for v in obj.ravel().tolist()])
    if isinstance(obj, (float, np.floating)):
        return repr(float(obj))
    if isinstance(obj, dict):
        return "{" + ", ".join(f"{k}: {fmt(v)}" for k, v in obj.items()) + "}"
    if isinstance(obj, (list, tuple)):
        return "[" + ", ".join(fmt(v) for v in obj) + "]"
    return repr(obj)


def record(label, thunk):
    try:
        out = fmt(thunk())
    except Exception as exc:  # noqa: BLE001
        out = "EXC " + type(exc).__name__
    LINES.append(f"{label} :: {out}")


def finish():
    with open(sys.argv[1], "w") as fh:
        fh.write("\n".join(LINES) + "\n")


def make_df_pvt(Sw=0.1):
    pvt_oil = pd.read_csv(os.path.join(DATA, "pvt_oil.csv"))
    pvt_water = pd.read_csv(os.path.join(DATA, "pvt_water.csv")).rename(
        columns={"T": "temperature", "P": "pressure", "Viscosity": "mu_w"}
    )
    rename_cols = {
        "T": "temperature",
        "P": "pressure",
        "Oil_Viscosity": "mu_o",
        "Gas_Viscosity": "mu_g",
        "Rso": "Rs",
    }
    df_pvt = (
        pvt_water.drop(columns=["temperature"])
        .merge(pvt_oil.rename(columns=rename_cols), on="pressure")
        .assign(Rv=0)
    )
    df_pvt["So"] = (1 - Sw) / (
        (df_pvt["Rs"].max() - df_pvt["Rs"]) * df_pvt["Bg"] / df_pvt["Bo"] / 5.61458 + 1
    )
    return df_pvt


def make_gas_table(name="pvt_gas.csv"):
    ren = {
        "P": "pressure",
        "Z-Factor": "z-factor",
        "Cg": "compressibility",
        "Viscosity": "viscosity",
        "Density": "density",
    }
    return pd.read_csv(os.path.join(DATA, name)).rename(columns=ren)


REF_DENS = {"rho_o0": 141.5 / (45 + 131.5), "rho_g0": 1.03e-3, "rho_w0": 1}


from bluebonnet.flow import SinglePhaseReservoir
from bluebonnet.flow.flowproperties import (
    FlowProperties,
    FlowPropertiesOnePhase,
    FlowPropertiesSimple,
    FlowPropertiesTwoPhase,
    RelPermParams,
    relative_permeabilities_twophase,
    rescale_pseudopressure,
)

Q = np.concatenate([np.linspace(-0.3, 1.4, 35), [0.0, 1.0, np.nan]])


def thin(props, step=41):
    """Every `step`-th row (plus the last one) of each column, in column order."""
    out = {}
    for col in props:
        v = np.asarray(props[col])
        out[col] = np.concatenate([v[::step], v[-1:]])
    return [type(props).__name__, len(np.asarray(props["pressure"])), out]


def summary(fp, p_probe):
    with warnings.catch_warnings(record=True) as w:
        warnings.simplefilter("always")
        out = [
            sorted(vars(fp)),
            fp.m_i,
            fp.alpha(Q),
            fp.alpha(0.5),
            fp.m_scaled_func(p_probe),
            thin(fp.pvt_props),
            repr(fp) == repr(fp.pvt_props),
        ]
    return out


def warn_types(thunk):
    with warnings.catch_warnings(record=True) as w:
        warnings.simplefilter("always")
        thunk()
    return [(x.category.__name__, str(x.message)) for x in w]


tables = {
    "gas": make_gas_table("pvt_gas.csv"),
    "ideal": make_gas_table("pvt_ideal_gas.csv"),
    "hay": pd.read_csv(os.path.join(DATA, "pvt_gas_HAYNESVILLE SHALE_20.csv"), index_col=0),
}
for tname, tab in tables.items():
    pmax = float(tab["pressure"].max())
    pmin = float(tab["pressure"].min())
    probe = np.linspace(pmin, pmax, 23)
    tab = tab[tab["pressure"] > 0] if tname != "hay" else tab
    pmin = float(tab["pressure"].min())
    probe = np.linspace(pmin, pmax, 23)
    for cls in (FlowProperties, FlowPropertiesOnePhase, FlowPropertiesSimple):
        for p_i in (pmin, 1000, 5000.0, 7999.5, pmax, np.float64(3333.3)):
            record(f"{tname} {cls.__name__} p_i={p_i}", lambda: summary(cls(tab, p_i), probe))
        for p_i in (pmin - 1, pmax + 1, np.nan, "x", None):
            record(f"{tname} {cls.__name__} bad p_i={p_i}", lambda: summary(cls(tab, p_i), probe))
        # array p_i
        record(f"{tname} {cls.__name__} array p_i", lambda: summary(cls(tab, np.array([1000.0, 2000.0])), probe))
        # dict-of-arrays input
        as_dict = {c: tab[c].to_numpy() for c in tab.columns}
        record(f"{tname} {cls.__name__} dict", lambda: summary(cls(as_dict, 4000.0), probe))
        record(f"{tname} {cls.__name__} dict untouched", lambda: sorted(as_dict))
        # input table not mutated
        before = list(tab.columns)
        cls(tab, 4000.0)
        record(f"{tname} {cls.__name__} input columns unchanged", lambda: before == list(tab.columns))
        # two rows only / first rows / last rows
        record(f"{tname} {cls.__name__} two rows", lambda: summary(cls(tab.iloc[5:7], float(tab["pressure"].iloc[5])), tab["pressure"].iloc[5:7].to_numpy()))
        record(f"{tname} {cls.__name__} one row", lambda: summary(cls(tab.iloc[5:6], float(tab["pressure"].iloc[5])), tab["pressure"].iloc[5:6].to_numpy()))
        record(f"{tname} {cls.__name__} last rows", lambda: summary(cls(tab.iloc[-4:], pmax), tab["pressure"].iloc[-4:].to_numpy()))
        # missing columns
        for col in ("pressure", "compressibility", "viscosity", "pseudopressure", "z-factor"):
            record(f"{tname} {cls.__name__} missing {col}", lambda: summary(cls(tab.drop(columns=[col]), 4000.0), probe))
        record(f"{tname} {cls.__name__} empty mapping", lambda: cls({}, 4000.0))
        # user-supplied alpha (short column set), with warning
        short = tab[["pressure", "pseudopressure"]].assign(alpha=1.0 / (tab["compressibility"] * tab["viscosity"]))
        record(f"{tname} {cls.__name__} short", lambda: summary(cls(short, 4000.0), probe))
        record(f"{tname} {cls.__name__} short warnings", lambda: warn_types(lambda: cls(short, 4000.0)))
        record(f"{tname} {cls.__name__} long warnings", lambda: warn_types(lambda: cls(tab, 4000.0)))
        full_alpha = tab.assign(alpha=2.5)
        record(f"{tname} {cls.__name__} long+alpha", lambda: summary(cls(full_alpha, 4000.0), probe))
        # unsorted table
        record(f"{tname} {cls.__name__} reversed table", lambda: summary(cls(tab.iloc[::-1], 4000.0), probe))

    # used by the simulator
    def sim(cls, nx, p_i, p_f, t):
        fp = cls(tab, p_i)
        res = SinglePhaseReservoir(nx, p_f, p_i, fp)
        res.simulate(t)
        return [res.pseudopressure[-1], res.recovery_factor()]

    for cls in (FlowProperties, FlowPropertiesSimple):
        record(f"{tname} {cls.__name__} sim", lambda: sim(cls, 12, 6000.0, 500.0, np.linspace(0, 2, 25) ** 2))
        record(f"{tname} {cls.__name__} sim nx3", lambda: sim(cls, 3, 6000.0, 6000.0, np.array([0.0, 0.1])))

# subclass built through the classmethod goes through the same __init__
df = make_df_pvt()
params = RelPermParams(2, 2, 2, 0.05, 0.1, 0.02, 0.9, 0.4, 0.8)
df_kr = relative_permeabilities_twophase(params, 0.1)
for p_frac, p_i in ((1000, 8000.0), (200.0, 5000), (1000, 1000.0)):
    def make():
        scaled = rescale_pseudopressure(df, p_frac, p_i)
        fp = FlowPropertiesTwoPhase.from_table(scaled, df_kr, REF_DENS, 0.1, 0.1, p_i)
        return summary(fp, df["pressure"].to_numpy()[::60]) + [sorted(fp.pvt), sorted(fp.kr)]
    record(f"twophase p_frac={p_frac} p_i={p_i}", make)
record("twophase direct", lambda: summary(FlowPropertiesTwoPhase(tables["gas"][tables["gas"]["pressure"] > 0], 3000.0), np.array([10.0, 3000.0])))
record("twophase p_i out", lambda: FlowPropertiesTwoPhase.from_table(df, df_kr, REF_DENS, 0.1, 0.1, 1e5))

finish()
