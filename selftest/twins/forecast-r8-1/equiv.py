"""Equivalence driver for bluebonnet.forecast.forecast (Bounds, ForecasterOnePhase).

Usage: PYTHONPATH=<tree>/src /venv/bin/python equiv.py <outfile>
"""

from __future__ import annotations

import dataclasses
import sys
import warnings

import numpy as np
import pandas as pd
from scipy import interpolate

from bluebonnet.flow import IdealReservoir
from bluebonnet.forecast import Bounds, ForecasterOnePhase
from bluebonnet.forecast import forecast as fmod

warnings.simplefilter("ignore")
out = []


def show(x):
    """Full-precision, type-revealing representation."""
    if isinstance(x, np.ndarray):
        return f"ndarray{x.shape}{x.dtype}[" + ",".join(show(v) for v in x.ravel().tolist()) + "]"
    if isinstance(x, pd.Series):
        return "Series[" + ",".join(repr(float(v)) for v in x.to_numpy()) + "]" + repr(list(x.index[:3]))
    if isinstance(x, (np.floating, np.integer)):
        return f"{type(x).__name__}({x.item()!r})"
    if isinstance(x, (list, tuple)):
        return type(x).__name__ + "(" + ",".join(show(v) for v in x) + ")"
    if isinstance(x, dict):
        return "dict(" + ",".join(f"{k!r}:{show(v)}" for k, v in x.items()) + ")"
    return f"{type(x).__name__}:{x!r}"


def rec(label, fn):
    try:
        res = fn()
        out.append(f"{label} -> {show(res)}")
    except Exception as e:  # noqa: BLE001
        out.append(f"{label} !! {type(e).__name__}")


# ---------------------------------------------------------------- Bounds
bounds_cases = {
    "ok_int": dict(M=(0, 1), tau=(2, 3)),
    "ok_float": dict(M=(0.5, 1e6), tau=(1e-3, 1e4)),
    "ok_inf": dict(M=(0, np.inf), tau=(1e-10, np.inf)),
    "ok_neg": dict(M=(-5.0, -1.0), tau=(-2.0, 7.0)),
    "ok_list": dict(M=[10.0, 500.0], tau=[0.5, 50.0]),
    "ok_array": dict(M=np.array([10.0, 500.0]), tau=np.array([0.5, 50.0])),
    "ok_npfloat": dict(M=(np.float64(1.0), np.float64(3.0)), tau=(np.float32(1.0), np.float32(2.5))),
    "M3": dict(M=(1, 2, 3), tau=(0, 1)),
    "M1": dict(M=(1,), tau=(0, 1)),
    "M0": dict(M=(), tau=(0, 1)),
    "tau1": dict(M=(1, 2), tau=(1,)),
    "tau3": dict(M=(1, 2), tau=(1, 2, 3)),
    "both_len": dict(M=(1, 2, 3), tau=(1,)),
    "M_order": dict(M=(1, 0), tau=(0, 1)),
    "M_equal": dict(M=(1, 1), tau=(0, 1)),
    "tau_order": dict(M=(0, 1), tau=(20, 10)),
    "tau_equal": dict(M=(0, 1), tau=(3.0, 3.0)),
    "both_order": dict(M=(1, 0), tau=(20, 10)),
    "Morder_taulen": dict(M=(1, 0), tau=(1,)),
    "Mlen_tauorder": dict(M=(1, 2, 3), tau=(5, 1)),
    "M_nan": dict(M=(np.nan, 1.0), tau=(0, 1)),
    "M_scalar": dict(M=3.0, tau=(0, 1)),
    "tau_scalar": dict(M=(0, 1), tau=2.0),
    "M_none": dict(M=None, tau=(0, 1)),
    "M_str": dict(M="ab", tau=(0, 1)),
    "M_str_bad": dict(M="ba", tau=(0, 1)),
    "M_mixed": dict(M=(0, "a"), tau=(0, 1)),
    "M_2d": dict(M=np.array([[0.0, 1.0], [2.0, 3.0]]), tau=(0, 1)),
    "M_bool": dict(M=(False, True), tau=(0, 1)),
    "M_huge": dict(M=(10**400, 10**401), tau=(0, 1)),
}
good_bounds = {}
for name, kw in bounds_cases.items():
    rec(f"Bounds[{name}]", lambda kw=kw: repr(Bounds(**kw)))
    try:
        good_bounds[name] = Bounds(**kw)
    except Exception:  # noqa: BLE001
        pass
rec("Bounds positional", lambda: repr(Bounds((0, 1), (2, 3))))
rec("Bounds missing", lambda: Bounds((0, 1)))
rec("Bounds extra", lambda: Bounds((0, 1), (2, 3), (4, 5)))
rec("Bounds fields", lambda: [f.name for f in dataclasses.fields(Bounds)])
rec("Bounds eq", lambda: Bounds((0, 1), (2, 3)) == Bounds((0, 1), (2, 3)))
rec("Bounds neq", lambda: Bounds((0, 1), (2, 3)) == Bounds((0, 1), (2, 4)))
rec("Bounds hash", lambda: hash(Bounds((0, 1), (2, 3))) == hash(Bounds((0, 1), (2, 3))))
rec("Bounds hash list", lambda: hash(Bounds([0, 1], (2, 3))))
rec("Bounds asdict", lambda: dataclasses.asdict(Bounds((0, 1), (2, 3))))
rec("Bounds frozen M", lambda: setattr(Bounds((0, 1), (2, 3)), "M", (0, 2)))
rec("Bounds frozen new", lambda: setattr(Bounds((0, 1), (2, 3)), "other", 1))
rec("Bounds replace", lambda: repr(dataclasses.replace(Bounds((0, 1), (2, 3)), tau=(5, 6))))
rec("Bounds replace bad", lambda: repr(dataclasses.replace(Bounds((0, 1), (2, 3)), tau=(7, 6))))
rec("default bounds", lambda: repr(fmod._default_bounds))
rec("default bounds fit", lambda: fmod._default_bounds.fit_bounds())

guesses = [
    [],
    [0.5],
    [-1.0],
    [2.0],
    [0.0],
    [1.0],
    [0.5, 2.5],
    [-1.0, 1.0],
    [5.0, 10.0],
    [5.0, 2.5],
    [0.5, 10.0],
    [-3.0, -4.0],
    [1e9, 1e9],
    [1e-30, 1e-30],
    [10.0, 0.5],
    [500.0, 50.0],
    [250.0, 25.0, 7.0],
    [-1.0, -1.0, -1.0],
    [1e9, 1e9, 1e9],
    [np.nan, np.nan],
    [np.inf, np.inf],
    [-np.inf, -np.inf],
    [np.float64(700.0), np.float64(0.1)],
    [3, 7],
    [10**400, 10**400],
]
for bname, b in good_bounds.items():
    rec(f"fit_bounds[{bname}]", b.fit_bounds)
    for g in guesses:
        def run(b=b, g=g):
            gg = list(g)
            res = b.regularize_initial_guess(gg)
            return (res is gg, res, gg)

        rec(f"regularize[{bname}]{g!r}", run)
    # non-list guesses
    rec(f"regularize[{bname}] tuple in", lambda b=b: b.regularize_initial_guess((0.5, 2.5)))
    rec(f"regularize[{bname}] tuple out", lambda b=b: b.regularize_initial_guess((-1e300, -1e300)))
    rec(f"regularize[{bname}] tuple hi", lambda b=b: b.regularize_initial_guess((1e300, 1e300)))
    rec(f"regularize[{bname}] array", lambda b=b: b.regularize_initial_guess(np.array([-1e3, 1e3])))
    rec(f"regularize[{bname}] array1", lambda b=b: b.regularize_initial_guess(np.array([1e12])))
    rec(f"regularize[{bname}] int array", lambda b=b: b.regularize_initial_guess(np.array([10**6, 10**6])))
    rec(f"regularize[{bname}] 2d", lambda b=b: b.regularize_initial_guess(np.array([[1.0, 2.0], [3.0, 4.0]])))
    rec(f"regularize[{bname}] dict", lambda b=b: b.regularize_initial_guess({0: -1e3, 1: 1e30}))
    rec(f"regularize[{bname}] dict1", lambda b=b: b.regularize_initial_guess({0: 1e30}))
    rec(f"regularize[{bname}] dict bad", lambda b=b: b.regularize_initial_guess({1: 1.0, 2: 2.0}))
    rec(f"regularize[{bname}] gen", lambda b=b: b.regularize_initial_guess(x for x in (1.0, 2.0)))
    rec(f"regularize[{bname}] none", lambda b=b: b.regularize_initial_guess(None))
    rec(f"regularize[{bname}] scalar", lambda b=b: b.regularize_initial_guess(3.0))
    rec(f"regularize[{bname}] str", lambda b=b: b.regularize_initial_guess(["a", "b"]))
    rec(f"regularize[{bname}] series", lambda b=b: b.regularize_initial_guess(pd.Series([-1e3, 1e30])))



class NoLen:
    """Indexable and assignable, but without len()."""

    def __init__(self, *v):
        self.v = list(v)

    def __getitem__(self, i):
        return self.v[i]

    def __setitem__(self, i, x):
        self.v[i] = x


class LenLies:
    """Sequence that reports two elements but holds one."""

    def __init__(self, *v):
        self.v = list(v)
        self.log = []

    def __len__(self):
        self.log.append("len")
        return 2

    def __getitem__(self, i):
        self.log.append(("get", i))
        return self.v[i]

    def __setitem__(self, i, x):
        self.log.append(("set", i))
        self.v[i] = x


for bname, b in good_bounds.items():
    for vals in ((-1e300, -1e300), (1e300, 1e300), (0.7, 2.2)):
        def run_nolen(b=b, vals=vals):
            g = NoLen(*vals)
            try:
                b.regularize_initial_guess(g)
            finally:
                out.append(f"   nolen state: {show(g.v)}")
            return g.v

        rec(f"regularize[{bname}] nolen{vals!r}", run_nolen)

        def run_lies(b=b, vals=vals):
            g = LenLies(vals[0])
            try:
                b.regularize_initial_guess(g)
            finally:
                out.append(f"   lies state: {show(g.v)} {g.log!r}")
            return g.v

        rec(f"regularize[{bname}] lies{vals!r}", run_lies)

        def run_lies2(b=b, vals=vals):
            g = LenLies(*vals)
            res = b.regularize_initial_guess(g)
            return (res is g, g.v, [str(x) for x in g.log])

        rec(f"regularize[{bname}] access order{vals!r}", run_lies2)

# mutated after construction (lists are not frozen)
mb = Bounds(M=[0.0, 10.0], tau=[1.0, 2.0])
mb.M[1] = 100.0
mb.tau[0] = 0.25
rec("mutated fit_bounds", mb.fit_bounds)
rec("mutated regularize hi", lambda: mb.regularize_initial_guess([500.0, 5.0]))
rec("mutated regularize lo", lambda: mb.regularize_initial_guess([-1.0, 0.1]))
mb.M.append(7.0)
rec("appended regularize hi", lambda: mb.regularize_initial_guess([500.0, 5.0]))
rec("appended fit_bounds", mb.fit_bounds)
rec("appended repr", lambda: repr(mb))


# ---------------------------------------------------------------- rf curves
def rf_exp(t):
    return 1.0 - np.exp(-t)


def rf_sqrt_tanh(t):
    return np.tanh(np.sqrt(t))


class RfCallable:
    """Callable object which records how it was called."""

    def __init__(self):
        self.calls = 0
        self.kw_seen = set()

    def __call__(self, t, *args, **kwargs):
        self.calls += 1
        self.kw_seen.add((len(args), tuple(sorted(kwargs))))
        return t / (1.0 + t)


def rf_strict(t):
    """Accept exactly one positional argument and no keywords."""
    return np.minimum(np.sqrt(t), 1.0)


nt = 300
ts = np.linspace(0, np.sqrt(6.0), nt) ** 2
res = IdealReservoir(20, 500.0, 5000.0, None)
res.simulate(ts)
res.recovery_factor()
rf_ideal = res.recovery_factor_interpolator()
rf_interp_lin = interpolate.interp1d(
    [0.0, 0.1, 1.0, 10.0], [0.0, 0.3, 0.8, 1.0], bounds_error=False, fill_value=(0.0, 1.0)
)
rf_interp_strict = interpolate.interp1d([0.0, 0.1, 1.0, 10.0], [0.0, 0.3, 0.8, 1.0])

curves = {
    "exp": rf_exp,
    "sqrt_tanh": rf_sqrt_tanh,
    "ideal": rf_ideal,
    "lin": rf_interp_lin,
    "interp_strict": rf_interp_strict,
    "strict": rf_strict,
    "lambda": lambda t: t / (1.0 + t),
}

times = {
    "arr": np.array([0.0, 0.5, 1.0, 2.0, 10.0, 100.0]),
    "arr_int": np.arange(6),
    "len1": np.array([3.0]),
    "len2": np.array([1.0, 2.0]),
    "empty": np.array([]),
    "scalar": 2.5,
    "npscalar": np.float64(2.5),
    "int": 3,
    "zero": 0.0,
    "list": [0.0, 1.0, 2.0],
    "tuple": (0.0, 1.0),
    "series": pd.Series([0.5, 1.5, 2.5], index=[10, 11, 12]),
    "2d": np.array([[0.0, 1.0], [2.0, 3.0]]),
    "neg": np.array([-1.0, 0.0, 1.0]),
    "nan": np.array([0.0, np.nan, 1.0]),
    "inf": np.array([0.0, np.inf]),
    "none": None,
    "str": "abc",
}
Ms = [None, 300.0, 0.0, -2.0, 1, np.float64(12.5), np.inf, np.array([1.0, 2.0])]
taus = [None, 3.0, 0.0, -1.5, 2, np.float64(0.25), np.inf, 1e-300, np.nan]

# ------------------------------------------------------- dataclass behaviour
rec("Forecaster fields", lambda: [f.name for f in dataclasses.fields(ForecasterOnePhase)])
rec("Forecaster noargs", lambda: ForecasterOnePhase())
rec("Forecaster 3args", lambda: ForecasterOnePhase(rf_exp, Bounds((0, 1), (2, 3)), 5))
rec("Forecaster default bounds is", lambda: ForecasterOnePhase(rf_exp).bounds is fmod._default_bounds)
rec("Forecaster eq", lambda: ForecasterOnePhase(rf_exp) == ForecasterOnePhase(rf_exp))
rec("Forecaster neq", lambda: ForecasterOnePhase(rf_exp) == ForecasterOnePhase(rf_sqrt_tanh))
rec("Forecaster vars", lambda: sorted(vars(ForecasterOnePhase(rf_exp))))
rec("Forecaster repr", lambda: repr(ForecasterOnePhase(rf_exp, Bounds((0, 1), (2, 3)))).replace(repr(rf_exp), "RF"))
rec("Forecaster rf none", lambda: ForecasterOnePhase(None).forecast_cum(np.array([1.0]), 1.0, 1.0))
rec("Forecaster bounds none", lambda: sorted(vars(ForecasterOnePhase(rf_exp, None))))

# ------------------------------------------------------- forecast_cum unfitted
for cname, curve in curves.items():
    f = ForecasterOnePhase(curve)
    for tname, t in times.items():
        for iM, M in enumerate(Ms):
            for itau, tau in enumerate(taus):
                if cname not in ("exp", "ideal") and (iM > 1 or itau > 1):
                    continue
                rec(
                    f"cum[{cname}][{tname}] M={M!r} tau={tau!r}",
                    lambda f=f, t=t, M=M, tau=tau: f.forecast_cum(t, M, tau),
                )
    rec(f"cum kw[{cname}]", lambda f=f: f.forecast_cum(time_on_production=times["arr"], tau=2.0, M=10.0))
    rec(f"cum kw M only[{cname}]", lambda f=f: f.forecast_cum(times["arr"], M=10.0))
    rec(f"cum kw tau only[{cname}]", lambda f=f: f.forecast_cum(times["arr"], tau=10.0))
    rec(f"cum no args[{cname}]", lambda f=f: f.forecast_cum())
    rec(f"cum 4 args[{cname}]", lambda f=f: f.forecast_cum(times["arr"], 1.0, 2.0, 3.0))
    rec(f"cum bad kw[{cname}]", lambda f=f: f.forecast_cum(times["arr"], 1.0, 2.0, foo=3.0))

# half-fitted objects
f = ForecasterOnePhase(rf_exp)
f.M_ = 55.0
rec("cum only M_ set, none none", lambda: f.forecast_cum(times["arr"]))
rec("cum only M_ set, tau given", lambda: f.forecast_cum(times["arr"], tau=2.0))
f = ForecasterOnePhase(rf_exp)
f.tau_ = 4.0
rec("cum only tau_ set, none none", lambda: f.forecast_cum(times["arr"]))
rec("cum only tau_ set, M given", lambda: f.forecast_cum(times["arr"], M=2.0))
rec("cum only tau_ set, M=0", lambda: f.forecast_cum(times["arr"], M=0))

# private helper
rec("_fc basic", lambda: fmod._forecast_cum_onephase(rf_exp, times["arr"], 10.0, 2.0))
rec("_fc scalar", lambda: fmod._forecast_cum_onephase(rf_exp, 1.0, 10.0, 2.0))
rec("_fc list", lambda: fmod._forecast_cum_onephase(rf_exp, [1.0, 2.0], 10.0, 2.0))
rec("_fc kw", lambda: fmod._forecast_cum_onephase(rf_curve=rf_exp, time_on_production=times["arr"], M=1.0, tau=1.0))
rec("_fc tau0", lambda: fmod._forecast_cum_onephase(rf_exp, times["arr"], 10.0, 0.0))
rec("_fc missing", lambda: fmod._forecast_cum_onephase(rf_exp, times["arr"], 10.0))
rec("_fc series", lambda: fmod._forecast_cum_onephase(rf_exp, times["series"], 10.0, 2.0))
rc = RfCallable()
rec("_fc callable obj", lambda: fmod._forecast_cum_onephase(rc, times["arr"], 10.0, 2.0))
rec("_fc callable obj seen", lambda: (rc.calls, sorted(rc.kw_seen)))


# ------------------------------------------------------- fit
def fitted_state(f):
    d = vars(f)
    keys = sorted(d)
    return (
        keys,
        d.get("M_", "unset"),
        d.get("tau_", "unset"),
        d.get("time_on_production", "unset"),
        d.get("cum_production", "unset"),
    )


t_fit = np.linspace(0, np.sqrt(6.0), 120) ** 2
fit_bounds_cases = {
    "default": None,
    "wide": Bounds(M=(1.0, 1e5), tau=(1e-3, 1e3)),
    "tight_low": Bounds(M=(1.0, 100.0), tau=(0.1, 1.0)),
    "tight_high": Bounds(M=(1e3, 1e5), tau=(50.0, 500.0)),
    "list": Bounds(M=[1.0, 1e5], tau=[1e-3, 1e3]),
    "neg": Bounds(M=(-5.0, 1e4), tau=(0.5, 1e2)),
}
for cname in ("exp", "sqrt_tanh", "ideal", "lin", "lambda", "strict"):
    curve = curves[cname]
    for M_true, tau_true in ((300.0, 3.0), (12.0, 0.5), (5e3, 40.0)):
        cum = M_true * curve(t_fit / tau_true)
        for bname, b in fit_bounds_cases.items():
            for tau_arg in (None, tau_true, 2.0 * tau_true, 7):
                def run(curve=curve, cum=cum, b=b, tau_arg=tau_arg):
                    f = ForecasterOnePhase(curve) if b is None else ForecasterOnePhase(curve, b)
                    ret = f.fit(t_fit, cum, tau_arg)
                    pred = f.forecast_cum(np.array([0.0, 0.3, 1.0, 5.0, 50.0]))
                    pred2 = f.forecast_cum(np.array([0.3, 1.0]), M=2.0)
                    pred3 = f.forecast_cum(np.array([0.3, 1.0]), tau=2.0)
                    same = (f.time_on_production is t_fit, f.cum_production is cum)
                    return (ret, fitted_state(f)[:3], pred, pred2, pred3, same)

                rec(f"fit[{cname}][{M_true},{tau_true}][{bname}] tau={tau_arg!r}", run)

# noisy data
rng = np.random.default_rng(1234)
noise = 1.0 + 0.05 * rng.standard_normal(t_fit.size)
for cname in ("exp", "ideal"):
    curve = curves[cname]
    cum = 250.0 * curve(t_fit / 1.7) * noise
    for tau_arg in (None, 1.7, 4):
        def run(curve=curve, cum=cum, tau_arg=tau_arg):
            f = ForecasterOnePhase(curve)
            f.fit(t_fit, cum, tau=tau_arg)
            return fitted_state(f)[:3]

        rec(f"fit noisy[{cname}] tau={tau_arg!r}", run)

# edge-size grids and malformed input
edge_inputs = {
    "len1": (np.array([2.0]), np.array([10.0])),
    "len1_t0": (np.array([0.0]), np.array([0.0])),
    "len2": (np.array([1.0, 2.0]), np.array([10.0, 15.0])),
    "len2_zero": (np.array([0.0, 2.0]), np.array([0.0, 15.0])),
    "len3": (np.array([0.0, 1.0, 2.0]), np.array([0.0, 10.0, 15.0])),
    "empty": (np.array([]), np.array([])),
    "mismatch": (np.array([0.0, 1.0, 2.0]), np.array([0.0, 10.0])),
    "nan_cum": (np.array([0.0, 1.0, 2.0]), np.array([0.0, np.nan, 15.0])),
    "nan_t": (np.array([0.0, np.nan, 2.0]), np.array([0.0, 10.0, 15.0])),
    "inf_cum": (np.array([0.0, 1.0, 2.0]), np.array([0.0, 10.0, np.inf])),
    "last_nan": (np.array([0.0, 1.0, 2.0]), np.array([0.0, 10.0, np.nan])),
    "zero_cum": (np.array([0.0, 1.0, 2.0]), np.array([0.0, 0.0, 0.0])),
    "neg_cum": (np.array([0.0, 1.0, 2.0]), np.array([0.0, -1.0, -2.0])),
    "zero_t": (np.array([0.0, 0.0, 0.0]), np.array([0.0, 1.0, 2.0])),
    "lists": ([0.0, 1.0, 2.0, 3.0], [0.0, 10.0, 15.0, 17.0]),
    "tuples": ((0.0, 1.0, 2.0, 3.0), (0.0, 10.0, 15.0, 17.0)),
    "series": (pd.Series([0.0, 1.0, 2.0, 3.0]), pd.Series([0.0, 10.0, 15.0, 17.0])),
    "series_idx": (
        pd.Series([0.0, 1.0, 2.0, 3.0], index=[5, 6, 7, 8]),
        pd.Series([0.0, 10.0, 15.0, 17.0], index=[5, 6, 7, 8]),
    ),
    "int": (np.arange(5), np.array([0, 10, 15, 17, 18])),
    "scalar": (1.0, 2.0),
    "none": (None, None),
    "t_none": (None, np.array([1.0, 2.0])),
    "cum_none": (np.array([1.0, 2.0]), None),
    "2d": (np.array([[0.0, 1.0], [2.0, 3.0]]), np.array([[0.0, 1.0], [2.0, 3.0]])),
    "str": ("ab", "cd"),
    "descending": (np.array([3.0, 2.0, 1.0, 0.0]), np.array([17.0, 15.0, 10.0, 0.0])),
}
for ename, (tt, cc) in edge_inputs.items():
    for cname in ("exp", "ideal", "interp_strict"):
        for bname in ("default", "wide", "tight_high"):
            for tau_arg in (None, 1.5, 0.0, -1.0, np.nan, "x"):
                def run(cname=cname, bname=bname, tt=tt, cc=cc, tau_arg=tau_arg):
                    b = fit_bounds_cases[bname]
                    f = ForecasterOnePhase(curves[cname]) if b is None else ForecasterOnePhase(curves[cname], b)
                    try:
                        f.fit(tt, cc, tau_arg)
                    finally:
                        out.append(f"   state after: {show(fitted_state(f)[:3])}")
                    return fitted_state(f)

                rec(f"fit edge[{ename}][{cname}][{bname}] tau={tau_arg!r}", run)

def _f(f, *a, **k):
    f.fit(*a, **k)
    return f


# calling conventions of fit
t4, c4 = np.array([0.0, 1.0, 2.0, 3.0]), np.array([0.0, 10.0, 15.0, 17.0])
rec("fit kw", lambda: fitted_state(_f(ForecasterOnePhase(rf_exp), time_on_production=t4, cum_production=c4, tau=2.0)))
rec("fit kw no tau", lambda: fitted_state(_f(ForecasterOnePhase(rf_exp), cum_production=c4, time_on_production=t4)))
rec("fit missing", lambda: ForecasterOnePhase(rf_exp).fit(t4))
rec("fit 4 args", lambda: ForecasterOnePhase(rf_exp).fit(t4, c4, 2.0, 3.0))
rec("fit bad kw", lambda: ForecasterOnePhase(rf_exp).fit(t4, c4, foo=1))
rec("fit bounds none", lambda: ForecasterOnePhase(rf_exp, None).fit(t4, c4))
rec("fit bounds tuple", lambda: ForecasterOnePhase(rf_exp, ((0, 1), (2, 3))).fit(t4, c4))
rec("fit rf none", lambda: ForecasterOnePhase(None).fit(t4, c4))
rec("fit rf raises", lambda: ForecasterOnePhase(lambda t: 1 / 0).fit(t4, c4))
rec("fit rf returns nan", lambda: ForecasterOnePhase(lambda t: t * np.nan).fit(t4, c4))
rec("fit rf wrong shape", lambda: ForecasterOnePhase(lambda t: np.ones(3)).fit(t4, c4))


# refit: state after a failed second fit, and after a successful one
def refit_fail():
    f = ForecasterOnePhase(rf_exp)
    f.fit(t4, c4)
    first = fitted_state(f)[:3]
    try:
        f.fit(t4, np.array([0.0, np.nan, 1.0, 2.0]))
    except Exception as e:  # noqa: BLE001
        err = type(e).__name__
    else:
        err = None
    return (first, err, fitted_state(f)[:3], f.time_on_production is t4, f.cum_production is c4)


rec("refit fail", refit_fail)


def refit_ok():
    f = ForecasterOnePhase(rf_exp)
    f.fit(t4, c4)
    first = fitted_state(f)[:3]
    f.fit(t4 * 2, c4 * 3, tau=5.0)
    second = fitted_state(f)
    f.fit(t4, c4)
    return (first, second, fitted_state(f))


rec("refit ok", refit_ok)


# rf_curve swapped after construction; bounds swapped after construction
def swap():
    f = ForecasterOnePhase(rf_exp)
    f.fit(t4, c4)
    a = fitted_state(f)[:3]
    f.rf_curve = rf_sqrt_tanh
    p = f.forecast_cum(t4)
    f.bounds = Bounds((1.0, 5.0), (0.1, 0.2))
    f.fit(t4, c4)
    return (a, p, fitted_state(f)[:3], f.forecast_cum(t4))


rec("swap", swap)

# how the rf_curve is invoked (positional only, no keywords)
rc = RfCallable()
f = ForecasterOnePhase(rc)
rec("callable obj fit", lambda: fitted_state(_f(f, t4, c4))[:3])
rec("callable obj fit tau", lambda: fitted_state(_f(f, t4, c4, 2.0))[:3])
rec("callable obj cum", lambda: f.forecast_cum(t4))
rec("callable obj seen", lambda: (rc.calls, sorted(rc.kw_seen)))

# numpy error state is left alone
np.seterr(all="warn")
before = np.geterr()
ForecasterOnePhase(rf_exp).forecast_cum(np.array([1.0, 2.0]), 1.0, 0.0)
rec("errstate preserved", lambda: np.geterr() == before)

with open(sys.argv[1], "w") as fh:
    fh.write("\n".join(out) + "\n")
