"""Equivalence driver for twin2: module-level named constants in gas.py.

Touched: b_factor_DAK, density_DAK, viscosity_Sutton, pseudocritical_point_Sutton
(and through them pseudopressure_Hussainy, build_pvt_gas, Fluid.gas_FVF, oil.b_o_bubblepoint...).
"""
import sys
import warnings

import numpy as np

from bluebonnet.fluids import Fluid, build_pvt_gas, gas

warnings.simplefilter("ignore")


def show(x):
    if isinstance(x, np.ndarray):
        return "ndarray%s[%s]" % (x.shape, ", ".join(show(v) for v in x.ravel()))
    if isinstance(x, (tuple, list)):
        return type(x).__name__ + "(" + ", ".join(show(v) for v in x) + ")"
    if isinstance(x, complex):
        return "%s:%r" % (type(x).__name__, x)
    return "%s:%r" % (type(x).__name__, x.hex() if isinstance(x, float) else x)


def call(f, *a, **k):
    try:
        return show(f(*a, **k))
    except Exception as e:  # noqa: BLE001
        return "EXC " + type(e).__name__


out = []
temps = [60, 150.0, 200.0, 400.0, np.float64(275.5)]
pressures = [14.7, 100.0, 1000, 3000.0, 7000.0, 12000.0, np.float64(4500.25)]
pcs = [(-102.0, 649.0), (-72.2, 653.25), (-60, 670)]
sgs = [0.55, 0.65, 0.8, 1.1]
for T in temps:
    for p in pressures:
        for tpc, ppc in pcs:
            out.append(f"b({T!r},{p!r},{tpc},{ppc}) = " + call(gas.b_factor_DAK, T, p, tpc, ppc))
            out.append(
                f"b_std({T!r},{p!r},{tpc},{ppc}) = "
                + call(gas.b_factor_DAK, T, p, tpc, ppc, 68.0, 14.65)
            )
            for sg in sgs:
                out.append(
                    f"rho({T!r},{p!r},{tpc},{ppc},{sg}) = "
                    + call(gas.density_DAK, T, p, tpc, ppc, sg)
                )
                out.append(
                    f"mu({T!r},{p!r},{tpc},{ppc},{sg}) = "
                    + call(gas.viscosity_Sutton, T, p, tpc, ppc, sg)
                )
# pseudocritical point
fracs = [
    (0.03, 0.012, 0.018),
    (0.05, 0.01, 0.04),
    (0.0, 0.0, 0.0),
    (0.1, 0.0, 0.0),
    (0.0, 0.2, 0.0),
    (0.0, 0.0, 0.3),
    (0.02, 0.3, 0.3),
]
for fr in fracs:
    nhp = gas.make_nonhydrocarbon_properties(*fr)
    for sg in [0.6, 0.65, 0.8, 1.0]:
        for fluid in ["dry gas", "wet gas", "oil", None]:
            out.append(f"pc({sg},{fr},{fluid!r}) = " + call(gas.pseudocritical_point_Sutton, sg, nhp, fluid))
    out.append(f"pc_default({fr}) = " + call(gas.pseudocritical_point_Sutton, 0.7, nhp))
nhp_extra = gas.make_nonhydrocarbon_properties(
    0.01, 0.02, 0.03, ("Helium", 0.01, 4.0, 9.34, 32.9), ("Argon", 0.005, 39.95, 271.6, 705.3)
)
out.append("pc_extra = " + call(gas.pseudocritical_point_Sutton, 0.7, nhp_extra, "dry gas"))
out.append("pc_short = " + call(gas.pseudocritical_point_Sutton, 0.7, gas.make_nonhydrocarbon_properties(0.01, 0.02, 0.03)[:2]))
out.append("pc_dict = " + call(gas.pseudocritical_point_Sutton, 0.7, {"fraction": [0.1, 0.1, 0.1]}))
out.append("pc_str = " + call(gas.pseudocritical_point_Sutton, "0.7", gas.make_nonhydrocarbon_properties(0.01, 0.02, 0.03)))
# error and degenerate inputs
bad = [0.0, -100.0, float("nan"), float("inf"), "100", None, np.array([100.0, 200.0])]
for p in bad:
    out.append(f"b_bad({p!r}) = " + call(gas.b_factor_DAK, 200.0, p, -102.0, 649.0))
    out.append(f"rho_bad({p!r}) = " + call(gas.density_DAK, 200.0, p, -102.0, 649.0, 0.65))
    out.append(f"mu_bad({p!r}) = " + call(gas.viscosity_Sutton, 200.0, p, -102.0, 649.0, 0.65))
for T in [-459.67, -1000.0, float("nan"), "200", None]:
    out.append(f"b_badT({T!r}) = " + call(gas.b_factor_DAK, T, 1000.0, -102.0, 649.0))
    out.append(f"rho_badT({T!r}) = " + call(gas.density_DAK, T, 1000.0, -102.0, 649.0, 0.65))
    out.append(f"mu_badT({T!r}) = " + call(gas.viscosity_Sutton, T, 1000.0, -102.0, 649.0, 0.65))
for sg in [0.0, -0.5, float("nan"), "0.65", None]:
    out.append(f"rho_badsg({sg!r}) = " + call(gas.density_DAK, 200.0, 1000.0, -102.0, 649.0, sg))
    out.append(f"mu_badsg({sg!r}) = " + call(gas.viscosity_Sutton, 200.0, 1000.0, -102.0, 649.0, sg))
out.append("b_tpc_abs0 = " + call(gas.b_factor_DAK, 200.0, 1000.0, -459.67, 649.0))
out.append("mu_tpc_abs0 = " + call(gas.viscosity_Sutton, 200.0, 1000.0, -459.67, 649.0, 0.65))
out.append("b_std_abs0 = " + call(gas.b_factor_DAK, 200.0, 1000.0, -102.0, 649.0, -459.67, 14.7))
out.append("mu_ppc0 = " + call(gas.viscosity_Sutton, 200.0, 1000.0, -102.0, 0.0, 0.65))
# downstream users
for p in [100.0, 1000.0, 5000.0]:
    out.append(f"m({p}) = " + call(gas.pseudopressure_Hussainy, 400.0, p, -102.0, 649.0, 0.65))
    out.append(f"m_std({p}) = " + call(gas.pseudopressure_Hussainy, 200.0, p, -72.0, 653.0, 0.8, 15.025))


def pvt(dryness):
    df = build_pvt_gas(
        {
            "N2": 0.03,
            "H2S": 0.012,
            "CO2": 0.018,
            "Gas Specific Gravity": 0.65,
            "Reservoir Temperature (deg F)": 300.0,
        },
        dryness,
        6000,
    )
    return [list(df.columns)] + [df[c].to_numpy()[::7] for c in df.columns]


out.append("pvt_dry = " + call(pvt, "dry gas"))
out.append("pvt_wet = " + call(pvt, "wet gas"))
out.append("pvt_bad = " + call(pvt, "moist gas"))
fl = Fluid(300.0, 35.0, 0.8, 650.0)
for p in [100.0, 2000.0, np.array([500.0, 1500.0, 4000.0])]:
    out.append(f"fluid_gas_FVF({p!r}) = " + call(fl.gas_FVF, p, -72.2, 653.0))
    out.append(f"fluid_gas_visc({p!r}) = " + call(fl.gas_viscosity, p, -72.2, 653.0))
    out.append(f"fluid_oil_FVF({p!r}) = " + call(fl.oil_FVF, p))

with open(sys.argv[1], "w") as fh:
    fh.write("\n".join(out) + "\n")
