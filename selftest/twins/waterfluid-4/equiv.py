"""Equivalence driver for twin4: build_pvt_gas and pseudopressure (fluid.py)."""
from __future__ import annotations

import os
import sys
import warnings

import numpy as np
import pandas as pd

warnings.simplefilter("ignore")

from bluebonnet.fluids import build_pvt_gas, pseudopressure
from bluebonnet.fluids import fluid as fluid_module

BB_DATA = os.environ.get("BB_DATA", "/tmp/twin_waterfluid/tests/data")


def show(x):
    if isinstance(x, pd.DataFrame):
        cols = ";".join(f"{c!r}:{x[c].dtype}:{show(x[c].to_numpy())}" for c in x.columns)
        return f"DataFrame{x.shape} index={type(x.index).__name__}{list(x.index[:3])}..{list(x.index[-2:])} {cols}"
    if isinstance(x, np.ndarray):
        return f"ndarray{x.shape}{x.dtype}[" + ",".join(show(v) for v in x.ravel().tolist()) + "]"
    if isinstance(x, (pd.Series,)):
        return "Series:" + show(x.to_numpy())
    if isinstance(x, (list, tuple)):
        return type(x).__name__ + "(" + ",".join(show(v) for v in x) + ")"
    return f"{type(x).__name__}:{x!r}"


def call(out, label, f, *a, **k):
    try:
        r = show(f(*a, **k))
    except BaseException as e:  # noqa: BLE001
        r = "EXC " + type(e).__name__
    out.append(f"{label} -> {r}")


def gas(n2=0.0, h2s=0.0, co2=0.0, sg=0.7, t=200.0, **extra):
    d = {"N2": n2, "H2S": h2s, "CO2": co2, "Gas Specific Gravity": sg,
         "Reservoir Temperature (deg F)": t}
    d.update(extra)
    return d


def main(outfile):
    out = []
    # ---- build_pvt_gas
    cases = [
        ("default dry", gas(), "dry gas", {}),
        ("default wet", gas(), "wet gas", {}),
        ("sour dry 3000", gas(0.03, 0.012, 0.018, 0.65, 400), "dry gas", {"maximum_pressure": 3000}),
        ("sour wet 3000", gas(0.05, 0.01, 0.04, 0.8, 250), "wet gas", {"maximum_pressure": 3000}),
        ("heavy", gas(0.0, 0.0, 0.1, 1.1, 150.5), "wet gas", {"maximum_pressure": 2500.0}),
        ("int T, int sg-like", gas(0, 0, 0, 1, 300), "dry gas", {"maximum_pressure": 1000}),
        ("np types", gas(np.float64(0.01), np.float64(0.0), np.float64(0.02), np.float64(0.75),
                         np.float64(180.0)), "dry gas", {"maximum_pressure": np.float64(1500.0)}),
        ("positional max", gas(), "dry gas", {"_pos": 500}),
        ("non-multiple max", gas(), "wet gas", {"maximum_pressure": 123.4}),
        ("two rows", gas(), "dry gas", {"maximum_pressure": 30}),
        ("one row", gas(), "dry gas", {"maximum_pressure": 20}),
        ("one row b", gas(), "dry gas", {"maximum_pressure": 10.5}),
        ("empty", gas(), "dry gas", {"maximum_pressure": 10}),
        ("empty neg", gas(), "wet gas", {"maximum_pressure": -5}),
        ("empty str T", gas(t="hot"), "wet gas", {"maximum_pressure": 10}),
        ("empty str sg", gas(sg="0.7"), "wet gas", {"maximum_pressure": 10}),
        ("empty complex sg", gas(sg=0.7 + 0j), "wet gas", {"maximum_pressure": 10}),
        ("empty None T", gas(t=None), "wet gas", {"maximum_pressure": 10}),
        ("bad dryness", gas(), "oil", {"maximum_pressure": 100}),
        ("bad dryness None", gas(), None, {"maximum_pressure": 100}),
        ("str sg", gas(sg="0.7"), "dry gas", {"maximum_pressure": 100}),
        ("complex sg", gas(sg=0.7 + 0j), "dry gas", {"maximum_pressure": 100}),
        ("None sg", gas(sg=None), "dry gas", {"maximum_pressure": 100}),
        ("str T", gas(t="200"), "dry gas", {"maximum_pressure": 100}),
        ("None T", gas(t=None), "dry gas", {"maximum_pressure": 100}),
        ("array T", gas(t=np.array([200.0, 300.0])), "dry gas", {"maximum_pressure": 100}),
        ("cold T (no root?)", gas(t=-400.0), "dry gas", {"maximum_pressure": 200}),
        ("absolute zero", gas(t=-459.67), "dry gas", {"maximum_pressure": 200}),
        ("nan T", gas(t=float("nan")), "dry gas", {"maximum_pressure": 100}),
        ("nan sg", gas(sg=float("nan")), "dry gas", {"maximum_pressure": 100}),
        ("neg sg", gas(sg=-0.5), "dry gas", {"maximum_pressure": 100}),
        ("huge sg", gas(sg=50.0), "wet gas", {"maximum_pressure": 100}),
        ("all nonHC", gas(0.5, 0.2, 0.3, 0.9, 200), "wet gas", {"maximum_pressure": 100}),
        ("str N2", gas(n2="a"), "dry gas", {"maximum_pressure": 100}),
        ("None CO2", gas(co2=None), "dry gas", {"maximum_pressure": 100}),
        ("str max", gas(), "dry gas", {"maximum_pressure": "1000"}),
        ("None max", gas(), "dry gas", {"maximum_pressure": None}),
        ("nan max", gas(), "dry gas", {"maximum_pressure": float("nan")}),
        ("extra keys", gas(foo=1), "dry gas", {"maximum_pressure": 60}),
        ("Series values", pd.Series(gas()), "dry gas", {"maximum_pressure": 200}),
    ]
    for key in ["N2", "H2S", "CO2", "Gas Specific Gravity", "Reservoir Temperature (deg F)"]:
        d = gas()
        del d[key]
        cases.append((f"missing {key}", d, "dry gas", {"maximum_pressure": 100}))
        cases.append((f"missing {key} bad dryness", d, "x", {"maximum_pressure": 100}))
        cases.append((f"missing {key} empty", d, "wet gas", {"maximum_pressure": 5}))
    cases.append(("empty dict", {}, "dry gas", {}))
    cases.append(("not a mapping", None, "dry gas", {}))
    cases.append(("list", [1, 2, 3], "dry gas", {}))
    for label, gv, dry, kw in cases:
        kw = dict(kw)
        if "_pos" in kw:
            call(out, f"build_pvt_gas[{label}]", build_pvt_gas, gv, dry, kw["_pos"])
        else:
            call(out, f"build_pvt_gas[{label}]", build_pvt_gas, gv, dry, **kw)
    call(out, "build_pvt_gas kw", build_pvt_gas, gas_values=gas(), gas_dryness="wet gas", maximum_pressure=80)
    call(out, "build_pvt_gas missing arg", build_pvt_gas, gas())
    # result is a fresh, writable, default-indexed frame
    try:
        df = build_pvt_gas(gas(), "dry gas", 100)
        df["extra"] = df["pseudopressure"] * 2
        df.loc[0, "pressure"] = -1.0
        out.append("mutable -> " + show(df))
        df2 = build_pvt_gas(gas(), "dry gas", 100)
        out.append("fresh -> " + show(df2))
    except BaseException as e:  # noqa: BLE001
        out.append("mutable -> EXC " + type(e).__name__)
    # ---- pseudopressure
    tables = {}
    for name in ["pvt_gas.csv", "pvt_gas_HAYNESVILLE SHALE_20.csv", "pvt_ideal_gas.csv"]:
        try:
            tables[name] = pd.read_csv(os.path.join(BB_DATA, name))
        except Exception as e:  # noqa: BLE001
            out.append(f"read {name} -> EXC {type(e).__name__}")
    for name, df in tables.items():
        out.append(f"columns {name} -> {list(df.columns)}")
        cols = {c.lower(): c for c in df.columns}
        pc = cols.get("pressure") or cols.get("p")
        vc = cols.get("viscosity")
        zc = cols.get("z-factor") or cols.get("z")
        if pc and vc and zc:
            call(out, f"pseudopressure[{name}] arrays", pseudopressure, df[pc].to_numpy(),
                 df[vc].to_numpy(), df[zc].to_numpy())
            call(out, f"pseudopressure[{name}] series", pseudopressure, df[pc], df[vc], df[zc])
    p = np.array([10.0, 20.0, 50.0, 100.0, 1000.0])
    mu = np.array([0.01, 0.011, 0.012, 0.02, 0.03])
    z = np.array([1.0, 0.99, 0.95, 0.9, 0.8])
    pp_cases = [
        ("basic", (p, mu, z)), ("lists", (list(p), list(mu), list(z))),
        ("list p only", (list(p), mu, z)), ("scalar mu,z", (p, 0.02, 0.9)),
        ("scalars", (100.0, 0.02, 0.9)), ("empty", (np.array([]), np.array([]), np.array([]))),
        ("one", (p[:1], mu[:1], z[:1])), ("two", (p[:2], mu[:2], z[:2])),
        ("mismatch", (p, mu[:3], z)), ("zero z", (p, mu, np.zeros(5))),
        ("nan", (p, mu, np.array([1.0, np.nan, 1.0, 1.0, 1.0]))),
        ("unsorted", (p[::-1], mu, z)), ("ints", (np.array([10, 20, 30]), np.array([1, 2, 3]), np.array([1, 1, 1]))),
        ("2d", (np.tile(p, (2, 1)), np.tile(mu, (2, 1)), np.tile(z, (2, 1)))),
        ("None", (None, mu, z)), ("str", ("p", mu, z)),
        ("series", (pd.Series(p), pd.Series(mu), pd.Series(z))),
        ("series odd index", (pd.Series(p, index=[5, 4, 3, 2, 1]), pd.Series(mu, index=[5, 4, 3, 2, 1]), pd.Series(z, index=[5, 4, 3, 2, 1]))),
        ("float32", (p.astype(np.float32), mu.astype(np.float32), z.astype(np.float32))),
        ("huge", (p * 1e300, mu, z)),
    ]
    for label, args in pp_cases:
        call(out, f"pseudopressure[{label}]", pseudopressure, *args)
    call(out, "pseudopressure kw", pseudopressure, z_factor=z, viscosity=mu, pressure=p)
    call(out, "pseudopressure missing", pseudopressure, p, mu)
    call(out, "module pseudopressure is function", lambda: callable(fluid_module.pseudopressure))
    with open(outfile, "w") as fh:
        fh.write("\n".join(out) + "\n")


if __name__ == "__main__":
    main(sys.argv[1])
