"""Equivalence driver for twin1 (z_factor_hallyarbrough / pseudopressure_Hussainy)."""

from __future__ import annotations

import sys
import warnings

import numpy as np

from bluebonnet.fluids import gas

warnings.simplefilter("ignore")
lines = []


def fmt(v):
    if isinstance(v, tuple):
        return "(" + ", ".join(fmt(x) for x in v) + ")"
    if isinstance(v, np.ndarray):
        return "array" + repr(v.shape) + "[" + ", ".join(fmt(x) for x in v.ravel()) + "]"
    if isinstance(v, (float, np.floating)):
        return type(v).__name__ + ":" + repr(float(v))
    return type(v).__name__ + ":" + repr(v)


def rec(label, fn, *args, **kwargs):
    try:
        out = fmt(fn(*args, **kwargs))
    except Exception as e:  # noqa: BLE001
        out = "EXC " + type(e).__name__
    lines.append(f"{label} {args!r} {kwargs!r} -> {out}")


# ---- Hall-Yarbrough (arguments are reduced pressure and reduced temperature)
for p in (0.2, 0.5, 1.0, 2.5, 5.0, 8.0, 12.0, np.float64(3.3), 4):
    for t in (1.2, 1.5, 2.0, 2.6, 3.0, np.float64(1.8), 2):
        rec("hy", gas.z_factor_hallyarbrough, p, t)
rec("hy-kw", gas.z_factor_hallyarbrough, pressure=2.0, temperature=1.7)
rec("hy-kw2", gas.z_factor_hallyarbrough, temperature=1.7, pressure=2.0)
rec("hy-arr1", gas.z_factor_hallyarbrough, np.array([2.0]), 1.7)
rec("hy-arr2", gas.z_factor_hallyarbrough, np.array([2.0, 3.0]), 1.7)
rec("hy-zero-t", gas.z_factor_hallyarbrough, 2.0, 0)
rec("hy-zero-tf", gas.z_factor_hallyarbrough, 2.0, 0.0)
rec("hy-str", gas.z_factor_hallyarbrough, "a", 1.5)
rec("hy-none", gas.z_factor_hallyarbrough, None, 1.5)
rec("hy-missing", gas.z_factor_hallyarbrough, 2.0)
rec("hy-zero-p", gas.z_factor_hallyarbrough, 0.0, 1.5)
rec("hy-unknown-kw", gas.z_factor_hallyarbrough, 2.0, 1.5, foo=1)

# ---- Al-Hussainy pseudopressure
nonhc = gas.make_nonhydrocarbon_properties(0.03, 0.012, 0.018)
cases = []
for fluid, sg in (("dry gas", 0.65), ("wet gas", 0.8)):
    tpc, ppc = gas.pseudocritical_point_Sutton(sg, nonhc, fluid)
    for temp in (100.0, 250, 400.0):
        for p in (14.7, 15.0, 100.0, 1000, 3500.0, 9000.0, 5.0):
            cases.append((temp, p, tpc, ppc, sg))
for c in cases:
    rec("hus", gas.pseudopressure_Hussainy, *c)
rec("hus-doc", gas.pseudopressure_Hussainy, 400, 100, -102, 649, 0.65)
rec("hus-pstd-pos", gas.pseudopressure_Hussainy, 400, 2000.0, -102, 649, 0.65, 100.0)
rec("hus-pstd-kw", gas.pseudopressure_Hussainy, 400, 2000.0, -102, 649, 0.65, pressure_standard=500.0)
rec(
    "hus-allkw",
    gas.pseudopressure_Hussainy,
    temperature=300.0,
    pressure=4000.0,
    temperature_pseudocritical=-80.0,
    pressure_pseudocritical=660.0,
    specific_gravity=0.7,
)
rec("hus-equal-limits", gas.pseudopressure_Hussainy, 400, 14.7, -102, 649, 0.65)
rec("hus-zero-p", gas.pseudopressure_Hussainy, 400, 0.0, -102, 649, 0.65)
rec("hus-neg-p", gas.pseudopressure_Hussainy, 400, -50.0, -102, 649, 0.65)
rec("hus-nan-p", gas.pseudopressure_Hussainy, 400, float("nan"), -102, 649, 0.65)
rec("hus-zero-pstd", gas.pseudopressure_Hussainy, 400, 100.0, -102, 649, 0.65, 0.0)
rec("hus-str", gas.pseudopressure_Hussainy, 400, "x", -102, 649, 0.65)
rec("hus-missing", gas.pseudopressure_Hussainy, 400, 100.0, -102, 649)
rec("hus-too-many", gas.pseudopressure_Hussainy, 400, 100.0, -102, 649, 0.65, 14.7, 100)
rec("hus-arr", gas.pseudopressure_Hussainy, 400, np.array([100.0, 200.0]), -102, 649, 0.65)
rec("hus-zero-sg", gas.pseudopressure_Hussainy, 400, 100.0, -102, 649, 0.0)
rec("hus-tpc-abs0", gas.pseudopressure_Hussainy, 400, 100.0, -459.67, 649, 0.65)

with open(sys.argv[1], "w") as fh:
    fh.write("\n".join(lines) + "\n")
