"""Equivalence harness for bluebonnet.fluids.oil (and its users in fluids.fluid).

Usage: PYTHONPATH=<tree>/src /venv/bin/python equiv.py <outfile>
Writes every result (full-precision repr, or rounded to SIG significant digits
when SIG is set) or the exception type, one per line.
"""

from __future__ import annotations

import sys
import warnings

import numpy as np
import pandas as pd

from bluebonnet.fluids import oil
from bluebonnet.fluids.fluid import Fluid

SIG = None  # set to 11 to compare at the 1e-11 relative level

warnings.simplefilter("ignore")
OUT = []


def fmt_float(x):
    x = float(x)
    if SIG is None or x != x or x in (float("inf"), float("-inf")) or x == 0.0:
        return repr(x)
    return f"{x:.{SIG - 1}e}"


def fmt(v):
    if isinstance(v, pd.Series):
        return "Series" + fmt(v.to_numpy()) + "idx" + repr(list(v.index))
    if isinstance(v, np.ndarray):
        if v.dtype.kind == "c":
            flat = ",".join(f"({fmt_float(x.real)},{fmt_float(x.imag)})" for x in v.ravel())
        else:
            flat = ",".join(fmt_float(x) for x in v.ravel())
        return f"{type(v).__name__}{v.shape}{v.dtype}[{flat}]"
    if isinstance(v, np.complexfloating):
        return f"{type(v).__name__}:({fmt_float(v.real)},{fmt_float(v.imag)})"
    if isinstance(v, (np.floating, np.integer)):
        return f"{type(v).__name__}:{fmt_float(v)}"
    if isinstance(v, float):
        return "float:" + fmt_float(v)
    if isinstance(v, complex):
        return f"{type(v).__name__}:({fmt_float(v.real)},{fmt_float(v.imag)})"
    if isinstance(v, int):
        return "int:" + repr(v)
    if isinstance(v, (tuple, list)):
        return type(v).__name__ + "(" + ";".join(fmt(x) for x in v) + ")"
    return type(v).__name__ + ":" + repr(v)


UNINIT = {"b_o_Standing", "density_Standing"}


def blank_uninitialised(fn, args, res):
    """b_o_Standing leaves np.empty garbage where the pressure is NaN."""
    if getattr(fn, "__name__", "") in UNINIT and len(args) > 1:
        p = args[1]
        if isinstance(p, np.ndarray) and p.dtype.kind == "f" and isinstance(res, np.ndarray):
            if res.shape == p.shape and np.isnan(p).any():
                res = res.copy()
                res[np.isnan(p)] = -12345.0
    return res


def call(label, fn, *args, **kwargs):
    try:
        res = fmt(blank_uninitialised(fn, args, fn(*args, **kwargs)))
    except Exception as exc:  # record the exception type only
        res = "EXC:" + type(exc).__name__
    OUT.append(f"{label} -> {res}")


# ---------------------------------------------------------------- inputs
FLUIDS = [
    (200.0, 35.0, 0.8, 650.0),
    (200, 35, 0.8, 650),  # integers
    (150.0, 45.0, 0.65, 1200.0),
    (250.0, 20.0, 0.9, 200.0),
    (120.0, 30.0, 0.7, 50.0),
    (300.0, 55.0, 1.1, 2500.0),
    (np.float64(180.0), np.float64(38.0), np.float64(0.75), np.float64(800.0)),
    (200.0, 35.0, 0.8, 0.0),  # no dissolved gas: negative bubble point
    (200.0, 35.0, 0.0, 650.0),  # zero gas gravity
    (0.0, 35.0, 0.8, 650.0),  # zero temperature
    (0, 35, 0.8, 650),  # integer zero temperature
    (200.0, -131.5, 0.8, 650.0),  # zero oil gravity denominator
    (200.0, 35.0, -0.8, 650.0),  # negative gas gravity
    (float("nan"), 35.0, 0.8, 650.0),
    (200.0, 35.0, 0.8, float("inf")),
    (np.array([200.0]), 35.0, 0.8, 650.0),  # array-valued temperature
    (np.array([200.0, 210.0]), 35.0, 0.8, 650.0),
    (np.array(200.0), 35.0, 0.8, 650.0),  # 0-d array temperature
    (200.0, 35.0, 0.8, np.array([650.0, 700.0])),
    ("200", 35.0, 0.8, 650.0),
    (None, 35.0, 0.8, 650.0),
]


def pressures_for(t, api, gg, gor):
    try:
        pb = float(oil.pressure_bubblepoint_Standing(t, api, gg, gor))
    except Exception:
        pb = 2600.0
    if not np.isfinite(pb):
        pb = 2600.0
    scal = [
        14.7,
        100.0,
        1000.0,
        2000.0,
        2000,
        3000.0,
        3000,
        8000.0,
        14000.0,
        pb,
        np.nextafter(pb, -np.inf),
        np.nextafter(pb, np.inf),
        pb * 0.5,
        pb * 2.0,
        0.0,
        0,
        -100.0,
        float("nan"),
        float("inf"),
        np.float64(2500.0),
        np.float32(2500.0),
        np.int64(2500),
    ]
    arrs = [
        np.array([]),
        np.array([], dtype=int),
        np.array([2000.0]),
        np.array([3000.0]),
        np.array([pb]),
        np.array([100.0, 1000.0, 2000.0, pb, 3000.0, 5000.0, 14000.0]),
        np.array([3000.0, 5000.0, 14000.0]),  # all above
        np.array([100.0, 1000.0]),  # all below (usually)
        np.array([100, 1000, 2000, 3000, 5000]),  # integer dtype
        np.array([100.0, 3000.0, 5000.0], dtype=np.float32),
        np.arange(10.0, 6000.0, 390.0),
        np.linspace(pb - 1.0, pb + 1.0, 5),
        np.array([1000.0, float("nan"), 4000.0]),
        np.array([0.0, -50.0, 4000.0]),
        np.array([[1000.0, 4000.0], [2000.0, 5000.0]]),  # 2-D
        np.array([[4000.0], [5000.0]]),  # (n, 1)
        np.array([[4000.0]]),  # (1, 1)
        np.array([[4000.0, 5000.0]]),  # (1, n)
        np.zeros((0, 3)),
        np.array(3000.0),  # 0-d array
        np.array(1000.0),
        [1000.0, 4000.0],  # plain list
        (1000.0, 4000.0),
        pd.Series([1000.0, 4000.0, 5000.0]),
        pd.Series([1000.0, 4000.0, 5000.0], index=[5, 3, 1]),
        pd.Series([4000.0, 5000.0], index=["a", "b"]),
        np.ma.masked_array([1000.0, 4000.0, 5000.0], mask=[False, True, False]),
        "3000",
        None,
        3000.0 + 0j,
    ]
    return scal, arrs


PC = (-72.2, 653.0)

FIVE_ARG = [
    "b_o_Standing",
    "solution_gor_Standing",
    "dgor_dpressure_Standing",
    "oil_compressibility_undersat_Standing",
    "oil_compressibility_undersat_Spivey",
    "density_Standing",
    "viscosity_beggs_robinson",
]
FOUR_ARG = [
    "pressure_bubblepoint_Standing",
    "b_o_bubblepoint_Standing",
    "db_o_dgor_Standing",
]


def main(outfile):
    for fi, (t, api, gg, gor) in enumerate(FLUIDS):
        for name in FOUR_ARG:
            call(f"F{fi} {name}", getattr(oil, name), t, api, gg, gor)
        scal, arrs = pressures_for(t, api, gg, gor)
        light = fi >= 7  # fewer pressures for the odd fluids
        plist = [("s", i, p) for i, p in enumerate(scal)] + [
            ("a", i, p) for i, p in enumerate(arrs)
        ]
        if light:
            plist = [x for x in plist if x[1] % 3 == 0]
        for kind, i, p in plist:
            for name in FIVE_ARG:
                call(f"F{fi} {name} {kind}{i}", getattr(oil, name), t, p, api, gg, gor)
            call(
                f"F{fi} oil_compressibility_Standing {kind}{i}",
                oil.oil_compressibility_Standing,
                t,
                p,
                api,
                gg,
                gor,
                *PC,
            )
            call(
                f"F{fi} oil_compressibility_Standing std {kind}{i}",
                oil.oil_compressibility_Standing,
                t,
                p,
                api,
                gg,
                gor,
                *PC,
                70.0,
                14.65,
            )
            call(
                f"F{fi} oil_compressibility_Standing kw {kind}{i}",
                oil.oil_compressibility_Standing,
                temperature=t,
                pressure=p,
                api_gravity=api,
                gas_specific_gravity=gg,
                solution_gor_initial=gor,
                temperature_pseudocritical=-60.0,
                pressure_pseudocritical=670.0,
                pressure_standard=15.025,
            )
    # array-valued GOR in the private/public helpers that document it
    gors = np.array([0.0, 50.0, 453.6, 650.0, 2000.0])
    call("bobp array gor", oil.b_o_bubblepoint_Standing, 200.0, 35.0, 0.8, gors)
    call("dbo array gor", oil.db_o_dgor_Standing, 200.0, 35.0, 0.8, gors)
    call("mu live arr", oil._mu_dead_to_live_br, 2.5, gors)
    call("mu live arr2", oil._mu_dead_to_live_br, np.array([0.5, 1.0, 3.0, 10.0, 100.0]), gors)
    call("mu live scalar", oil._mu_dead_to_live_br, 1.7, 650.0)
    # keyword calls / wrong arity
    call(
        "kw b_o",
        oil.b_o_Standing,
        temperature=200.0,
        pressure=np.array([1000.0, 4000.0]),
        api_gravity=35.0,
        gas_specific_gravity=0.8,
        solution_gor_initial=650.0,
    )
    call(
        "kw density",
        oil.density_Standing,
        temperature=200.0,
        pressure=2000.0,
        api_gravity=35.0,
        gas_specific_gravity=0.8,
        solution_gor_initial=650.0,
    )
    call("arity b_o", oil.b_o_Standing, 200.0, 3000.0, 35.0, 0.8)
    call("arity b_o 6", oil.b_o_Standing, 200.0, 3000.0, 35.0, 0.8, 650.0, 1.0)
    call("arity dens 6", oil.density_Standing, 200.0, 3000.0, 35.0, 0.8, 650.0, 1.0)
    call("arity visc 6", oil.viscosity_beggs_robinson, 200.0, 3000.0, 35.0, 0.8, 650.0, 1.0)
    call("arity spivey 6", oil.oil_compressibility_undersat_Spivey, 200.0, 3000.0, 35.0, 0.8, 650.0, 1)
    call("arity dgor 6", oil.dgor_dpressure_Standing, 200.0, 3000.0, 35.0, 0.8, 650.0, 1)
    call("arity pb 5", oil.pressure_bubblepoint_Standing, 200.0, 35.0, 0.8, 650.0, 1)
    call("arity co 10", oil.oil_compressibility_Standing, 200.0, 3000.0, 35.0, 0.8, 650.0, -72.2, 653.0, 60, 14.7, 1)
    call("badkw b_o", oil.b_o_Standing, 200.0, 3000.0, 35.0, 0.8, 650.0, foo=1)
    call("badkw dens", oil.density_Standing, 200.0, 3000.0, 35.0, 0.8, 650.0, foo=1)
    call("badkw co", oil.oil_compressibility_Standing, 200.0, 3000.0, 35.0, 0.8, 650.0, -72.2, 653.0, foo=1)
    # input arrays must not be mutated
    p_in = np.array([100.0, 2000.0, 3000.0, 9000.0])
    for name in ["b_o_Standing", "solution_gor_Standing", "oil_compressibility_undersat_Spivey", "density_Standing"]:
        getattr(oil, name)(200.0, p_in, 35.0, 0.8, 650.0)
        call(f"unmutated after {name}", lambda: p_in.copy())
    # the Fluid facade
    for fi, (t, api, gg, gor) in enumerate(FLUIDS[:8]):
        fl = Fluid(t, api, gg, gor)
        call(f"Fluid{fi} pb", fl.pressure_bubblepoint)
        for i, p in enumerate(
            [
                np.arange(10.0, 8000.0, 470.0),
                np.array([2000.0]),
                np.array([]),
                3000.0,
                2000.0,
                np.array([[1000.0, 4000.0]]),
            ]
        ):
            call(f"Fluid{fi} oil_FVF {i}", fl.oil_FVF, p)
            call(f"Fluid{fi} oil_viscosity {i}", fl.oil_viscosity, p)
    # public functions defined in the module (new private helpers are allowed)
    OUT.append(
        "public: "
        + ",".join(
            sorted(
                n
                for n in dir(oil)
                if not n.startswith("_") and getattr(getattr(oil, n), "__module__", None) == oil.__name__
            )
        )
    )
    with open(outfile, "w") as fh:
        fh.write("\n".join(OUT) + "\n")


if __name__ == "__main__":
    main(sys.argv[1])
