"""Equivalence driver: writes results of the touched API to <outfile>."""
from __future__ import annotations

import os
import sys
import warnings

import numpy as np
import pandas as pd

warnings.simplefilter("ignore")

DATA = os.environ.get("BB_DATA", "/tmp/twin8_flowproperties/tests/data")
LINES: list[str] = []


def fmt(obj):
    if isinstance(obj, pd.DataFrame):
        return "DataFrame{" + "; ".join(f"{c}={fmt(obj[c].to_numpy())}" for c in obj.columns) + "}"
    if isinstance(obj, pd.Series):
        return "Series" + fmt(obj.to_numpy())
    if isinstance(obj, np.ndarray):
        if obj.dtype.names:
            return "rec{" + "; ".join(f"{n}={fmt(obj[n])}" for n in obj.dtype.names) + "}"
        return f"arr[{obj.dtype},{obj.shape}]" + repr([fmt(v) for v in obj.ravel().tolist()])
    if isinstance(obj, (float, np.floating)):
        return repr(float(obj))
    if isinstance(obj, dict):
        return "{" + ", ".join(f"{k}: {fmt(v)}" for k, v in obj.items()) + "}"
    if isinstance(obj, (list, tuple)):
        return "[" + ", ".join(fmt(v) for v in obj) + "]"
    return repr(obj)


def record(label, thunk):
    try:
        out = fmt(thunk())
    except Exception as exc:  # noqa: BLE001
        out = "EXC " + type(exc).__name__
    LINES.append(f"{label} :: {out}")


def finish():
    with open(sys.argv[1], "w") as fh:
        fh.write("\n".join(LINES) + "\n")


def make_df_pvt(Sw=0.1):
    pvt_oil = pd.read_csv(os.path.join(DATA, "pvt_oil.csv"))
    pvt_water = pd.read_csv(os.path.join(DATA, "pvt_water.csv")).rename(
        columns={"T": "temperature", "P": "pressure", "Viscosity": "mu_w"}
    )
    rename_cols = {
        "T": "temperature",
        "P": "pressure",
        "Oil_Viscosity": "mu_o",
        "Gas_Viscosity": "mu_g",
        "Rso": "Rs",
    }
    df_pvt = (
        pvt_water.drop(columns=["temperature"])
        .merge(pvt_oil.rename(columns=rename_cols), on="pressure")
        .assign(Rv=0)
    )
    df_pvt["So"] = (1 - Sw) / (
        (df_pvt["Rs"].max() - df_pvt["Rs"]) * df_pvt["Bg"] / df_pvt["Bo"] / 5.61458 + 1
    )
    return df_pvt


def make_gas_table(name="pvt_gas.csv"):
    ren = {
        "P": "pressure",
        "Z-Factor": "z-factor",
        "Cg": "compressibility",
        "Viscosity": "viscosity",
        "Density": "density",
    }
    return pd.read_csv(os.path.join(DATA, name)).rename(columns=ren)


REF_DENS = {"rho_o0": 141.5 / (45 + 131.5), "rho_g0": 1.03e-3, "rho_w0": 1}


from scipy.interpolate import interp1d

from bluebonnet.flow.flowproperties import (
    FlowPropertiesTwoPhase,
    RelPermParams,
    alpha_multiphase,
    compressibility_combined_func,
    relative_permeabilities_twophase,
    rescale_pseudopressure,
)

NEED = ["pseudopressure", "pressure", "Bo", "Bg", "Bw", "Rs", "Rv", "mu_o", "mu_g", "mu_w", "So"]


def build(df, df_kr, extrapolate=True):
    kw = {"fill_value": "extrapolate"} if extrapolate else {}
    pvt = {p: interp1d(df["pressure"], df[p], **kw) for p in NEED}
    pvt.update(REF_DENS)
    kr = {f: interp1d(df_kr["So"], df_kr[f]) for f in ("kro", "krg", "krw")}
    return pvt, kr


param_sets = {
    "lin": RelPermParams(1, 1, 1, 0, 0.1, 0, 1, 1, 1),
    "corey": RelPermParams(2.5, 3, 1.5, 0.05, 0.15, 0.02, 0.8, 0.3, 0.9),
}
df = make_df_pvt()
df_rv = df.copy()
df_rv["Rv"] = 1e-5 * df_rv["pressure"] / (1 + 1e-4 * df_rv["pressure"])
for pname, params in param_sets.items():
    df_kr = relative_permeabilities_twophase(params, 0.1)
    for tname, table in (("rv0", df), ("rv", df_rv)):
        pvt, kr = build(table, df_kr)
        pvt_nb, kr_nb = build(table, df_kr, extrapolate=False)
        tag = f"{pname}/{tname}"
        P = table["pressure"].to_numpy()
        S = table["So"].to_numpy()
        for phi, Sw in ((0.1, 0.1), (0.07, 0.0), (1, 0.25), (0.3, np.float64(0.1))):
            t2 = f"{tag} phi={phi} Sw={Sw}"
            record(f"{t2} cp full", lambda: compressibility_combined_func(P, S, phi, Sw, pvt))
            record(f"{t2} alpha full", lambda: alpha_multiphase(P, S, phi, Sw, pvt, kr))
            record(f"{t2} cp series", lambda: compressibility_combined_func(table["pressure"], table["So"], phi, Sw, pvt))
            record(f"{t2} alpha series", lambda: alpha_multiphase(table["pressure"], table["So"], phi, Sw, pvt, kr))
            record(f"{t2} cp scalar", lambda: compressibility_combined_func(2500.0, 0.6, phi, Sw, pvt))
            record(f"{t2} alpha scalar", lambda: alpha_multiphase(2500.0, 0.6, phi, Sw, pvt, kr))
            record(f"{t2} cp int scalar", lambda: compressibility_combined_func(2500, 0.6, phi, Sw, pvt))
            record(f"{t2} cp first/last rows", lambda: compressibility_combined_func(P[[0, 1, -2, -1]], S[[0, 1, -2, -1]], phi, Sw, pvt))
            record(f"{t2} alpha first/last rows", lambda: alpha_multiphase(P[[0, 1, -2, -1]], S[[0, 1, -2, -1]], phi, Sw, pvt, kr))
            record(f"{t2} cp between nodes", lambda: compressibility_combined_func(P[:-1] + 0.5, S[:-1], phi, Sw, pvt))
            record(f"{t2} cp off nodes", lambda: compressibility_combined_func(P[:-1] + 3.3, S[:-1], phi, Sw, pvt))
            record(f"{t2} cp Sw array", lambda: compressibility_combined_func(P[::100], S[::100], phi, np.full(len(P[::100]), Sw), pvt))
            record(f"{t2} cp keyword call", lambda: compressibility_combined_func(pressure=P[::90], So=S[::90], phi=phi, Sw=Sw, pvt=pvt))
            record(f"{t2} alpha keyword call", lambda: alpha_multiphase(pressure=P[::90], So=S[::90], phi=phi, Sw=Sw, pvt=pvt, kr=kr))
        record(f"{tag} cp lists", lambda: compressibility_combined_func([100.0, 200.0], [0.2, 0.3], 0.1, 0.1, pvt))
        record(f"{tag} cp int array", lambda: compressibility_combined_func(np.array([100, 200, 4000]), np.array([0.2, 0.3, 0.8]), 0.1, 0.1, pvt))
        record(f"{tag} cp empty", lambda: compressibility_combined_func(np.array([]), np.array([]), 0.1, 0.1, pvt))
        record(f"{tag} cp 2d", lambda: compressibility_combined_func(P[:6].reshape(2, 3), S[:6].reshape(2, 3), 0.1, 0.1, pvt))
        record(f"{tag} cp nan", lambda: compressibility_combined_func(np.array([np.nan, 100.0]), np.array([0.3, np.nan]), 0.1, 0.1, pvt))
        record(f"{tag} cp inf", lambda: compressibility_combined_func(np.array([np.inf, 1e308]), np.array([0.3, 0.3]), 0.1, 0.1, pvt))
        record(f"{tag} cp huge p (step lost)", lambda: compressibility_combined_func(np.array([1e17, 2.0**53]), np.array([0.3, 0.3]), 0.1, 0.1, pvt))
        record(f"{tag} alpha zero cp", lambda: alpha_multiphase(np.array([1e17]), np.array([0.3]), 0.1, 0.1, pvt, kr))
        record(f"{tag} cp extrapolated", lambda: compressibility_combined_func(np.array([-0.25, 0.0, 9000.0, 9000.4]), np.array([0.3, 0.3, 0.9, 0.9]), 0.1, 0.1, pvt))
        # bounded interpolators: p -+ 0.5 leaves the table at the first / last row
        record(f"{tag} bounded cp first row", lambda: compressibility_combined_func(P[:1], S[:1], 0.1, 0.1, pvt_nb))
        record(f"{tag} bounded cp last row", lambda: compressibility_combined_func(P[-1:], S[-1:], 0.1, 0.1, pvt_nb))
        record(f"{tag} bounded cp at 0.5", lambda: compressibility_combined_func(np.array([0.5, 8999.5]), np.array([0.3, 0.9]), 0.1, 0.1, pvt_nb))
        record(f"{tag} bounded cp inside 0.49", lambda: compressibility_combined_func(np.array([0.49]), np.array([0.3]), 0.1, 0.1, pvt_nb))
        record(f"{tag} bounded alpha interior", lambda: alpha_multiphase(P[1:-1], S[1:-1], 0.1, 0.1, pvt_nb, kr_nb))
        # errors
        record(f"{tag} cp length mismatch", lambda: compressibility_combined_func(P[:4], S[:3], 0.1, 0.1, pvt))
        record(f"{tag} cp string p", lambda: compressibility_combined_func("abc", S[:3], 0.1, 0.1, pvt))
        record(f"{tag} cp None p", lambda: compressibility_combined_func(None, S[:3], 0.1, 0.1, pvt))
        record(f"{tag} cp None So", lambda: compressibility_combined_func(P[:3], None, 0.1, 0.1, pvt))
        record(f"{tag} cp str phi", lambda: compressibility_combined_func(P[:3], S[:3], "x", 0.1, pvt))
        record(f"{tag} alpha So out of kr range", lambda: alpha_multiphase(P[:3], np.array([0.1, 0.95, 0.2]), 0.1, 0.1, pvt, kr))
        for missing in ("rho_o0", "rho_g0", "rho_w0", "Rv", "Rs", "Bg", "Bo", "Bw", "mu_o"):
            pvt_m = {k: v for k, v in pvt.items() if k != missing}
            record(f"{tag} cp pvt missing {missing}", lambda: compressibility_combined_func(P[:5], S[:5], 0.1, 0.1, pvt_m))
            record(f"{tag} alpha pvt missing {missing}", lambda: alpha_multiphase(P[:5], S[:5], 0.1, 0.1, pvt_m, kr))
        # the new option is keyword-only: a surplus positional argument is a TypeError before and after
        record(f"{tag} cp surplus positional", lambda: compressibility_combined_func(P[:5], S[:5], 0.1, 0.1, pvt, 0.5))
        record(f"{tag} alpha surplus positional", lambda: alpha_multiphase(P[:5], S[:5], 0.1, 0.1, pvt, kr, 0.5))
        record(f"{tag} cp too few", lambda: compressibility_combined_func(P[:5], S[:5], 0.1, 0.1))
        record(f"{tag} alpha unknown keyword", lambda: alpha_multiphase(P[:5], S[:5], 0.1, 0.1, pvt, kr, dp=0.5))
        # through the public class
        for p_frac, p_i, phi, Sw in ((1000, 8000.0, 0.1, 0.1), (500.0, 6000.0, 0.05, 0.0), (0, 9000, 0.2, 0.1), (1000, 1000.0, 0.1, 0.05)):
            def make():
                scaled = rescale_pseudopressure(table, p_frac, p_i)
                fp = FlowPropertiesTwoPhase.from_table(scaled, df_kr, REF_DENS, phi, Sw, p_i)
                q = np.linspace(-0.2, 1.3, 31)
                return [fp.m_i, fp.alpha(q), fp.pvt_props["alpha"], fp.pvt_props["m-scaled"][::30]]
            record(f"{tag} from_table p_frac={p_frac} p_i={p_i} phi={phi} Sw={Sw}", make)
        record(f"{tag} from_table keywords", lambda: FlowPropertiesTwoPhase.from_table(pvt_props=table, kr_props=df_kr, reference_densities=REF_DENS, phi=0.1, Sw=0.1, p_i=4000.0).pvt_props["alpha"][::25])
        record(f"{tag} from_table surplus positional", lambda: FlowPropertiesTwoPhase.from_table(table, df_kr, REF_DENS, 0.1, 0.1, 8000.0, 0.5))
        record(f"{tag} from_table p_i out of range", lambda: FlowPropertiesTwoPhase.from_table(table, df_kr, REF_DENS, 0.1, 0.1, 9500.0))
        record(f"{tag} from_table missing col", lambda: FlowPropertiesTwoPhase.from_table(table.drop(columns=["Bw"]), df_kr, REF_DENS, 0.1, 0.1, 8000.0))
        record(f"{tag} from_table missing kr col", lambda: FlowPropertiesTwoPhase.from_table(table, df_kr.drop(columns=["krw"]), REF_DENS, 0.1, 0.1, 8000.0))
        record(f"{tag} from_table missing density", lambda: FlowPropertiesTwoPhase.from_table(table, df_kr, {"rho_o0": 0.8, "rho_g0": 1e-3}, 0.1, 0.1, 8000.0))

finish()
