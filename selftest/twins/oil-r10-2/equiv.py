"""Twin 2: module logger + guarded debug calls in the viscosity / compressibility routines."""
import io
import logging
import os
import sys

sys.path.insert(0, os.path.dirname(os.path.abspath(__file__)))
import numpy as np  # noqa: E402
from equiv_common import main, pressures, fluids  # noqa: E402
from bluebonnet.fluids import oil  # noqa: E402
from bluebonnet.fluids import Fluid  # noqa: E402


def sweep(out, call, tag):
    for fl, (t, api, sg, gor) in fluids():
        for pl, p in pressures():
            call(out, "%s visc[%s,%s]" % (tag, fl, pl), oil.viscosity_beggs_robinson, t, p, api, sg, gor)
            call(
                out,
                "%s c_o[%s,%s]" % (tag, fl, pl),
                oil.oil_compressibility_Standing,
                t, p, api, sg, gor, -72.2, 653,
            )
    for p in np.linspace(14.7, 9000.0, 41):
        call(out, "%s visc sweep %r" % (tag, float(p)), oil.viscosity_beggs_robinson, 210.0, float(p), 33.0, 0.82, 700.0)
        call(out, "%s c_o sweep %r" % (tag, float(p)), oil.oil_compressibility_Standing,
             210.0, float(p), 33.0, 0.82, 700.0, -70.0, 650.0)
    call(out, "%s Fluid.oil_viscosity" % tag, Fluid(200.0, 35.0, 0.8, 650.0).oil_viscosity, np.linspace(14.7, 9000.0, 41))


def extra(out, call, fmt):
    sweep(out, call, "quiet")
    # now with DEBUG records actually formatted and emitted (to a throw-away stream)
    lg = logging.getLogger("bluebonnet")
    sink = io.StringIO()
    h = logging.StreamHandler(sink)
    h.setFormatter(logging.Formatter("%(name)s %(message)s"))
    lg.addHandler(h)
    old = lg.level
    lg.setLevel(logging.DEBUG)
    try:
        sweep(out, call, "debug")
    finally:
        lg.setLevel(old)
        lg.removeHandler(h)
    sweep(out, call, "quiet-again")
    root = logging.getLogger()
    out.append("root level %s handlers %d" % (root.level, len(root.handlers)))
    out.append("bluebonnet level %s handlers %d propagate %s" % (lg.level, len(lg.handlers), lg.propagate))


main(extra)
