"""Shared driver: exercises everything public in fluids.water and fluids.fluid."""

from __future__ import annotations

import copy
import pickle
import sys
import warnings

import numpy as np

warnings.simplefilter("ignore")

import bluebonnet.fluids as fluids_pkg
from bluebonnet.fluids import Fluid, build_pvt_gas, pseudopressure
from bluebonnet.fluids import fluid as fluid_mod
from bluebonnet.fluids import water as water_mod
from bluebonnet.fluids.water import (
    b_water_McCain,
    b_water_McCain_dp,
    compressibility_water_McCain,
    density_water_McCain,
    viscosity_water_McCain,
)

OUT: list[str] = []


def fmt(x):
    if isinstance(x, np.ndarray):
        return (
            f"ndarray{x.shape}{x.dtype}["
            + ",".join(fmt(v) for v in x.ravel().tolist())
            + "]"
        )
    if isinstance(x, (list, tuple)):
        return type(x).__name__ + "(" + ",".join(fmt(v) for v in x) + ")"
    if isinstance(x, (float, np.floating)):
        return type(x).__name__ + ":" + repr(float(x))
    if isinstance(x, (int, np.integer, complex)):
        return type(x).__name__ + ":" + repr(x)
    if hasattr(x, "to_numpy") and hasattr(x, "columns"):
        return (
            "frame"
            + repr(list(x.columns))
            + repr([str(t) for t in x.dtypes])
            + fmt(x.to_numpy())
        )
    if hasattr(x, "to_numpy"):
        return "series" + repr(x.name) + fmt(x.to_numpy())
    return type(x).__name__ + ":" + repr(x)


def rec(label, fn, *args, **kwargs):
    label = " ".join(label.split())
    try:
        res = fn(*args, **kwargs)
        OUT.append(f"{label} -> {fmt(res)}")
    except BaseException as exc:  # noqa: BLE001
        OUT.append(f"{label} !! {type(exc).__name__}: " + " ".join(str(exc).split()))


PRESSURES = [
    0,
    0.0,
    14.7,
    1,
    100,
    3000,
    3000.0,
    1e4,
    2.5e4,
    -50.0,
    1e30,
    1e200,
    float("inf"),
    float("nan"),
    np.float64(4000.0),
    np.float32(4000.0),
    np.int64(4000),
    10**30,
    np.array([]),
    np.array([14.7]),
    np.array([10.0, 500.0, 2000.0, 8000.0, 14000.0]),
    np.linspace(0.0, 12000.0, 25),
    np.arange(10, 5000, 470),
    np.array([[100.0, 200.0], [3000.0, 4000.0]]),
    np.array([1.0, np.nan, np.inf, -np.inf]),
    np.array([2000.0, 3000.0], dtype=np.float32),
    [100.0, 200.0],
    (100, 200),
    "abc",
    None,
    3 + 4j,
]
TEMPERATURES = [60, 200, 400.0, 0, 0.0, -10.0, 1e5, float("nan"), np.float64(250.0), None, "x"]
SALINITIES = [0, 0.0, 5, 15, 15.0, 26.0, -3.0, 1e3, float("nan"), np.float64(10.0), None]


def run_water():
    for t in TEMPERATURES:
        for p in PRESSURES:
            rec(f"b_water({t!r},{p!r})", b_water_McCain, t, p)
            rec(f"b_water_dp({t!r},{p!r})", b_water_McCain_dp, t, p)
    for t in TEMPERATURES:
        for p in PRESSURES:
            for s in SALINITIES:
                rec(f"c_w({t!r},{p!r},{s!r})", compressibility_water_McCain, t, p, s)
                rec(f"rho_w({t!r},{p!r},{s!r})", density_water_McCain, t, p, s)
                rec(f"mu_w({t!r},{p!r},{s!r})", viscosity_water_McCain, t, p, s)
    # keyword forms and arity errors
    rec("b_water kw", b_water_McCain, temperature=300, pressure=2000.0)
    rec("b_water_dp kw", b_water_McCain_dp, pressure=2000.0, temperature=300)
    rec("c_w kw", compressibility_water_McCain, temperature=300, pressure=2000.0, salinity=3)
    rec("rho_w kw", density_water_McCain, temperature=300, pressure=2000.0, salinity=3)
    rec("mu_w kw", viscosity_water_McCain, temperature=300, pressure=2000.0, salinity=3)
    rec("b_water arity", b_water_McCain, 300)
    rec("c_w arity", compressibility_water_McCain, 300, 2000.0)
    rec("rho_w arity", density_water_McCain, 300, 2000.0)
    rec("mu_w arity", viscosity_water_McCain, 300, 2000.0)
    rec("mu_w extra", viscosity_water_McCain, 300, 2000.0, 3, 4)
    # the zero of the compressibility denominator
    p0 = (537 * 1000.0 - 403300.0) / 7.033
    rec("c_w near pole", compressibility_water_McCain, 1000.0, p0, 0.0)
    rec("c_w zero div python", compressibility_water_McCain, 751.0242085661079, 0, 0)
    rec("c_w zero div exact", compressibility_water_McCain, 0, 0, -403300.0 / 0.5415)
    # module surface
    rec("water public", lambda: sorted(n for n in dir(water_mod) if not n.startswith("_")
                                        and callable(getattr(water_mod, n))
                                        and getattr(getattr(water_mod, n), "__module__", "") == water_mod.__name__))
    rec("water missing attr", getattr, water_mod, "no_such_name")
    rec("water hasattr missing", hasattr, water_mod, "no_such_name")
    rec("water from-import missing", lambda: exec("from bluebonnet.fluids.water import no_such_name"))
    for name in ("b_water_McCain", "b_water_McCain_dp", "compressibility_water_McCain",
                 "density_water_McCain", "viscosity_water_McCain"):
        f = getattr(water_mod, name)
        rec(f"{name} meta", lambda f=f: (f.__name__, f.__qualname__, f.__module__, f.__doc__,
                                         sorted(f.__annotations__.items()), f.__defaults__))


FLUIDS = [
    ((200, 35, 0.8, 650), {}),
    ((400, 35, 0.65, 0), {}),
    ((300.0, 45.0, 0.7, 1200.0, 5.0, 0.2), {}),
    ((), dict(temperature=150, api_gravity=20, gas_specific_gravity=0.9,
              solution_gor_initial=300, salinity=12.0, water_saturation_initial=0.35)),
    ((250, 30, 0.75, 500), dict(salinity=26)),
]
BAD_FLUIDS = [
    ((), {}),
    ((1, 2, 3), {}),
    ((1, 2, 3, 4, 5, 6, 7), {}),
    ((1, 2, 3, 4), dict(bogus=1)),
    ((1, 2, 3, 4), dict(temperature=5)),
]
FP = [
    np.array([10.0, 500.0, 2000.0, 8000.0, 14000.0]),
    np.linspace(14.7, 9000.0, 12),
    np.array([3000.0]),
    np.array([]),
    [100.0, 2500.0],
    (100, 2500),
    np.array([[100.0, 200.0], [3000.0, 4000.0]]),
    3000.0,
    3000,
    np.float64(3000.0),
    None,
    "ab",
    np.array([0.0, 100.0]),
    np.array([-100.0, 100.0]),
    np.array([np.nan, 100.0]),
]


def run_fluid():
    for args, kw in BAD_FLUIDS:
        rec(f"Fluid bad {args!r} {kw!r}", lambda: Fluid(*args, **kw))
    for args, kw in FLUIDS:
        tag = f"Fluid{args!r}{sorted(kw.items())!r}"
        fl = Fluid(*args, **kw)
        rec(tag + " repr", repr, fl)
        rec(tag + " dict", lambda: sorted(vars(fl).items()))
        rec(tag + " eq self", lambda: fl == Fluid(*args, **kw))
        rec(tag + " eq other", lambda: fl == Fluid(1, 2, 3, 4))
        rec(tag + " eq foreign", lambda: fl == 3)
        rec(tag + " hash", hash, fl)
        rec(tag + " copy", lambda: (copy.copy(fl), copy.copy(fl) == fl, copy.copy(fl) is fl))
        rec(tag + " deepcopy", lambda: (copy.deepcopy(fl), copy.deepcopy(fl) == fl))
        rec(tag + " pickle", lambda: (pickle.loads(pickle.dumps(fl)), pickle.loads(pickle.dumps(fl)) == fl))

        def extra():
            g = Fluid(*args, **kw)
            g.note = "kept"
            c = copy.copy(g)
            d = pickle.loads(pickle.dumps(g))
            return (sorted(vars(c).items()), sorted(vars(d).items()), c == g)

        rec(tag + " extra attr copy", extra)
        rec(tag + " pb", fl.pressure_bubblepoint)
        for p in FP:
            rec(tag + f" water_FVF({p!r})", fl.water_FVF, p)
            rec(tag + f" water_viscosity({p!r})", fl.water_viscosity, p)
            rec(tag + f" oil_FVF({p!r})", fl.oil_FVF, p)
            rec(tag + f" oil_viscosity({p!r})", fl.oil_viscosity, p)
            rec(tag + f" gas_FVF({p!r})", fl.gas_FVF, p, -102.0, 649.0)
            rec(tag + f" gas_viscosity({p!r})", fl.gas_viscosity, p, -102.0, 649.0)
        rec(tag + " gas_FVF kw", fl.gas_FVF, pressure=np.array([500.0, 5000.0]),
            temperature_pseudocritical=-80.0, pressure_pseudocritical=660.0)
        rec(tag + " gas_FVF arity", fl.gas_FVF, np.array([500.0]))
        rec(tag + " water_FVF arity", fl.water_FVF)
    rec("Fluid class meta", lambda: (Fluid.__name__, Fluid.__qualname__, Fluid.__module__,
                                     Fluid.__doc__, Fluid.__mro__ == (Fluid, object),
                                     [f.name for f in __import__("dataclasses").fields(Fluid)],
                                     ["MISSING" if f.default is __import__("dataclasses").MISSING else repr(f.default)
                                      for f in __import__("dataclasses").fields(Fluid)],
                                     Fluid.__hash__, Fluid.__match_args__,
                                     hasattr(Fluid, "__slots__")))

    class Sub(Fluid):
        def extra(self):
            return self.temperature + 1

    rec("subclass", lambda: (Sub(200, 35, 0.8, 650).extra(), repr(Sub(200, 35, 0.8, 650)),
                             Sub(200, 35, 0.8, 650) == Fluid(200, 35, 0.8, 650),
                             Sub(200, 35, 0.8, 650).water_viscosity(3000.0)))


def run_pseudopressure():
    p = np.linspace(10.0, 9000.0, 40)
    mu = 0.01 + 1e-6 * p
    z = 0.9 + 2e-5 * p - 1e-9 * p**2
    rec("pp arrays", pseudopressure, p, mu, z)
    rec("pp single", pseudopressure, np.array([100.0]), np.array([0.02]), np.array([0.9]))
    rec("pp empty", pseudopressure, np.array([]), np.array([]), np.array([]))
    rec("pp scalar", pseudopressure, 100.0, 0.02, 0.9)
    rec("pp lists", pseudopressure, [100.0, 200.0], [0.02, 0.02], [0.9, 0.9])
    rec("pp mismatch", pseudopressure, p, mu[:-1], z)
    rec("pp zero mu", pseudopressure, p, np.zeros_like(p), z)
    rec("pp 2d", pseudopressure, p.reshape(4, 10), mu.reshape(4, 10), z.reshape(4, 10))
    rec("pp unsorted", pseudopressure, p[::-1], mu[::-1], z[::-1])
    rec("pp kw", pseudopressure, pressure=p, viscosity=mu, z_factor=z)
    rec("pp arity", pseudopressure, p, mu)
    rec("pp none", pseudopressure, None, None, None)
    import pandas as pd

    rec("pp series", pseudopressure, pd.Series(p), pd.Series(mu), pd.Series(z))
    rec("pp meta", lambda: (pseudopressure.__name__, pseudopressure.__module__, pseudopressure.__doc__,
                            fluids_pkg.pseudopressure is fluid_mod.pseudopressure))


def run_build():
    base = {"N2": 0.01, "H2S": 0.0, "CO2": 0.02, "Gas Specific Gravity": 0.7,
            "Reservoir Temperature (deg F)": 250.0}
    rec("pvt dry 600", build_pvt_gas, base, "dry gas", 600)
    rec("pvt wet 400", build_pvt_gas, base, "wet gas", maximum_pressure=400)
    rec("pvt default tail", lambda: build_pvt_gas(base, "dry gas").iloc[::200])
    rec("pvt default shape", lambda: build_pvt_gas(base, "dry gas").shape)
    rec("pvt bad dryness", build_pvt_gas, base, "moist gas", 300)
    rec("pvt max 10", build_pvt_gas, base, "dry gas", 10)
    rec("pvt max 20", build_pvt_gas, base, "dry gas", 20)
    rec("pvt max 0", build_pvt_gas, base, "dry gas", 0)
    rec("pvt max neg", build_pvt_gas, base, "dry gas", -5)
    for k in list(base):
        d = dict(base)
        del d[k]
        rec(f"pvt missing {k}", build_pvt_gas, d, "dry gas", 100)
    d = dict(base)
    d["Gas Specific Gravity"] = "0.7"
    rec("pvt str gravity", build_pvt_gas, d, "dry gas", 100)
    d = dict(base)
    d["Reservoir Temperature (deg F)"] = 300
    rec("pvt int temperature", build_pvt_gas, d, "dry gas", 200)
    rec("pvt none", build_pvt_gas, None, "dry gas", 100)
    import pandas as pd

    rec("pvt series input", build_pvt_gas, pd.Series(base), "dry gas", 150)
    rec("module consts", lambda: (fluid_mod.PRESSURE_STANDARD, fluid_mod.TEMPERATURE_STANDARD,
                                  fluid_mod.sp.__name__, fluid_mod.np.__name__, fluid_mod.pd.__name__,
                                  fluid_mod.cumulative_trapezoid.__module__,
                                  fluid_mod.cumulative_trapezoid.__name__))
    rec("pkg all", lambda: [n for n in ("Fluid", "build_pvt_gas", "pseudopressure")
                            if n in fluids_pkg.__all__ and getattr(fluids_pkg, n) is getattr(fluid_mod, n)])
    rec("fluid missing attr", getattr, fluid_mod, "no_such_name")
    rec("pkg missing attr", getattr, fluids_pkg, "no_such_name")


def main(outfile, extra=None):
    with warnings.catch_warnings(record=True) as caught:
        warnings.simplefilter("always")
        run_water()
        run_fluid()
        run_pseudopressure()
        run_build()
        if extra is not None:
            extra(rec)
    kinds = sorted({(w.category.__name__, str(w.message)) for w in caught})
    OUT.append("warnings: " + repr(kinds))
    import logging

    OUT.append("root handlers: " + repr(logging.getLogger().handlers)
               + " level " + repr(logging.getLogger().level))
    OUT.append("np.geterr: " + repr(sorted(np.geterr().items())))
    with open(outfile, "w") as fh:
        fh.write("\n".join(OUT) + "\n")


def extra(rec):
    """Class plumbing: subclasses, dataclass machinery, the alternative constructor."""
    import dataclasses

    make = getattr(Fluid, "from_mapping", None)
    if make is None:  # clean tree: the spelling the new constructor stands for
        def make(values):
            return Fluid(**values)

    rows = [
        dict(temperature=200, api_gravity=35, gas_specific_gravity=0.8, solution_gor_initial=650),
        dict(temperature=300.0, api_gravity=45.0, gas_specific_gravity=0.7, solution_gor_initial=1200.0,
             salinity=5.0, water_saturation_initial=0.2),
        dict(temperature=200, api_gravity=35),
        dict(temperature=200, api_gravity=35, gas_specific_gravity=0.8, solution_gor_initial=650, bogus=1),
        {},
    ]
    p = np.array([100.0, 1500.0, 6000.0])
    for row in rows:
        rec(f"from_mapping {sorted(row)!r}", lambda: (
            make(row), make(row) == Fluid(**row), type(make(row)).__name__,
            make(row).water_FVF(p), make(row).oil_viscosity(p), make(row).pressure_bubblepoint()))
    rec("from_mapping non-mapping", make, 3)
    rec("from_mapping int keys", make, {1: 2})

    def sub_plain():
        class A(Fluid):
            pass
        a = A(200, 35, 0.8, 650, 3.0)
        return (repr(a), a == Fluid(200, 35, 0.8, 650, 3.0), a == A(200, 35, 0.8, 650, 3.0),
                a.water_FVF(p), a.gas_viscosity(p, -102.0, 649.0), A.__mro__[1] is Fluid)

    def sub_dataclass():
        @dataclasses.dataclass
        class B(Fluid):
            co2: float = 0.0

            def water_viscosity(self, pressure):
                return 2 * super().water_viscosity(pressure)
        b = B(200, 35, 0.8, 650, co2=0.1)
        return (repr(b), [f.name for f in dataclasses.fields(B)], b.water_viscosity(p), B.__match_args__,
                dataclasses.asdict(b), dataclasses.replace(b, salinity=9.0))

    def sub_frozen():
        @dataclasses.dataclass(frozen=True)
        class C(Fluid):
            pass
        return C(1, 2, 3, 4)

    def sub_kwargs():
        class D(Fluid, flavour="x"):
            pass
        return D

    def sub_multi():
        class Mixin:
            def describe(self):
                return f"{self.temperature} F"

        class E(Mixin, Fluid):
            pass

        class F2(E):
            def oil_FVF(self, pressure):
                return super().oil_FVF(pressure) * 1.0
        return (E(200, 35, 0.8, 650).describe(), F2(200, 35, 0.8, 650).oil_FVF(p), [k.__name__ for k in F2.__mro__])

    def sub_dynamic():
        G = type("G", (Fluid,), {"extra": 1})
        return (G(200, 35, 0.8, 650).extra, G.__name__)

    for name, fn in (("plain", sub_plain), ("dataclass", sub_dataclass), ("frozen", sub_frozen),
                     ("kwargs", sub_kwargs), ("multi", sub_multi), ("dynamic", sub_dynamic)):
        rec("subclass " + name, fn)
    fl = Fluid(200, 35, 0.8, 650)
    rec("asdict", dataclasses.asdict, fl)
    rec("astuple", dataclasses.astuple, fl)
    rec("replace", dataclasses.replace, fl, temperature=250.0)
    rec("replace bad", dataclasses.replace, fl, nope=1)
    rec("fields detail", lambda: [(f.name, f.type, f.init, f.repr, f.compare, f.kw_only)
                                  for f in dataclasses.fields(Fluid)])
    rec("params", lambda: repr(Fluid.__dataclass_params__))
    rec("annotations", lambda: sorted(Fluid.__annotations__.items()))
    rec("init sig", lambda: str(__import__("inspect").signature(Fluid)))
    rec("vars empty of plumbing", lambda: sorted(vars(fl)))
    rec("setattr unknown", lambda: (setattr(fl, "zzz", 1), fl.zzz, fl == Fluid(200, 35, 0.8, 650)))

    def match():
        match fl:
            case Fluid(t, api, sg, gor, sal, sw):
                return (t, api, sg, gor, sal, sw)
        return None

    rec("match", match)
    rec("order", lambda: fl < Fluid(300, 35, 0.8, 650))
    rec("public methods", lambda: sorted(
        n for n in ("water_FVF", "water_viscosity", "gas_FVF", "gas_viscosity", "oil_FVF",
                    "oil_viscosity", "pressure_bubblepoint") if callable(getattr(Fluid, n))))


if __name__ == "__main__":
    main(sys.argv[1], extra)
