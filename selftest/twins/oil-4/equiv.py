"""Equivalence driver for twin4: oil_compressibility_Standing (inline dRs/dp formula -> dgor_dpressure_Standing, keyword call sites).

Usage: PYTHONPATH=<tree>/src /venv/bin/python equiv.py <outfile>
"""

from __future__ import annotations

import os
import sys
import warnings

import numpy as np
import pandas as pd

warnings.simplefilter("ignore")
np.seterr(all="ignore")

from bluebonnet.fluids import oil  # noqa: E402
from bluebonnet.fluids.fluid import Fluid  # noqa: E402

BB_DATA = os.environ.get("BB_DATA", "/tmp/twin_oil/tests/data")
SIG = 11  # re-associated products: compare to 11 significant digits


def fmt(x):
    if isinstance(x, np.ndarray):
        return f"ndarray[{x.dtype},{x.shape}](" + ",".join(fmt(v) for v in x.ravel().tolist()) + ")"
    if isinstance(x, (list, tuple)):
        return type(x).__name__ + "(" + ",".join(fmt(v) for v in x) + ")"
    tname = type(x).__name__
    if isinstance(x, (complex, np.complexfloating)):
        return f"{tname}:{fmt(float(x.real))}+{fmt(float(x.imag))}j"
    if isinstance(x, (float, np.floating)):
        v = float(x)
        if SIG is not None and np.isfinite(v):
            return f"{tname}:{v:.{SIG}g}"
        return f"{tname}:{v!r}"
    return f"{tname}:{x!r}"


def call(f, *args, **kwargs):
    try:
        return fmt(f(*args, **kwargs))
    except Exception as e:  # noqa: BLE001
        return "RAISES " + type(e).__name__


def main(outfile):
    lines = []

    def rec(label, f, *a, **k):
        # A float32 argument makes numpy carry out the dRs/dp product in float32 (NEP 50),
        # in the clean tree as well as in the refactored one, so re-association noise is
        # ~1e-7 there instead of ~1e-16: compare those few cases to 4 significant digits.
        global SIG
        has_f32 = any(isinstance(v, np.float32) for v in list(a) + list(k.values()))
        SIG = 4 if has_f32 else 11
        try:
            lines.append(f"{label} -> {call(f, *a, **k)}")
        finally:
            SIG = 11

    f = oil.oil_compressibility_Standing
    temps = [60, 100.0, 200, 275.5, 400]
    apis = [10, 22.5, 35, 45.0, 60]
    sgs = [0.55, 0.65, 0.8, 1.2]
    gors = [0, 50, 300.0, 650, 1500, 4000]
    p_scalars = [
        14.7, 100, 500.0, 1000, 2000, 2627.2017021875276, 2627.3, 3000, 5000.0,
        10000, 20000, 0, -5.0, -30, np.float64(1800.0), np.float32(1800.0), np.int64(1800),
        np.float64(7000.0), float("nan"), float("inf"),
        np.array([1800.0]), np.array([7000.0]), np.array(1800.0), np.array([1000.0, 7000.0]),
    ]
    pcs = [(-72.2, 653), (-90.0, 668.0)]
    for T in temps:
        for api in apis:
            for sg in sgs:
                for gor in gors:
                    for p in p_scalars:
                        if isinstance(p, np.float32) and sg != 0.8:
                            continue  # keep the float32-input cases few (see rec)
                        tpc, ppc = pcs[0]
                        rec(f"co T={T!r} p={p!r} api={api!r} sg={sg!r} gor={gor!r}",
                            f, T, p, api, sg, gor, tpc, ppc)
    for T in [100.0, 200, 400]:
        for api in [10, 35, 60]:
            for gor in [300.0, 650, 4000]:
                for p in [14.7, 200.0, 1000, 2500, 6000]:
                    tpc, ppc = pcs[1]
                    rec(f"co2 T={T!r} p={p!r} api={api!r} gor={gor!r}", f, T, p, api, 0.7, gor, tpc, ppc)
                    rec(f"co3 T={T!r} p={p!r} api={api!r} gor={gor!r}", f, T, p, api, 0.7, gor, tpc, ppc,
                        70, 14.65)
                    rec(f"co4 T={T!r} p={p!r} api={api!r} gor={gor!r}", f, T, p, api, 0.7, gor, tpc, ppc,
                        pressure_standard=15.025, temperature_standard=59.0)
    # the function the refactoring now delegates to (unchanged itself)
    for T in temps:
        for api in apis:
            for p in p_scalars:
                rec(f"dgor T={T!r} p={p!r} api={api!r}", oil.dgor_dpressure_Standing, T, p, api, 0.8, 650)
    rec("kw", f, temperature=200, pressure=2000, api_gravity=35, gas_specific_gravity=0.8,
        solution_gor_initial=650, temperature_pseudocritical=-72.2, pressure_pseudocritical=653)
    rec("kw2", f, pressure_pseudocritical=653, temperature_pseudocritical=-72.2,
        solution_gor_initial=650, gas_specific_gravity=0.8, api_gravity=35, pressure=3000,
        temperature=200, temperature_standard=60, pressure_standard=14.7)
    bad = [
        (200, 2000, 35, 0, 650, -72.2, 653),
        (200, 2000, 35, 0.0, 650, -72.2, 653),
        (200, 2000, -131.5, 0.8, 650, -72.2, 653),
        (200, 2000, -200, 0.8, 650, -72.2, 653),
        (200, 2000, 35, -0.8, 650, -72.2, 653),
        (200, 2000, 35, 0.8, -650, -72.2, 653),
        (0, 2000, 35, 0.8, 650, -72.2, 653),
        (-459.67, 2000, 35, 0.8, 650, -72.2, 653),
        (-500, 2000, 35, 0.8, 650, -72.2, 653),
        (200, 2000, 35, 0.8, 650, -459.67, 653),
        (200, 2000, 35, 0.8, 650, -72.2, 0),
        (200, 2000, 35, 0.8, 650, -72.2, -653),
        (200, 2000, 35, 0.8, 650, 5000, 653),
        (200, 2000, 35, 0.8, 650, -72.2, 653, -459.67, 14.7),
        (200, 2000, 35, 0.8, 650, -72.2, 653, 60, 0),
        (200, "2000", 35, 0.8, 650, -72.2, 653),
        ("200", 2000, 35, 0.8, 650, -72.2, 653),
        (200, None, 35, 0.8, 650, -72.2, 653),
        (None, 2000, 35, 0.8, 650, -72.2, 653),
        (200, 2000, 35, 0.8, None, -72.2, 653),
        (200, 2000, 35, 0.8, 650, None, 653),
        (200, 2000, 35, 0.8, 650, -72.2, None),
        (200, 2000, 35, 0.8, 650, -72.2, "653"),
        (200, 2000, 1e6, 0.8, 650, -72.2, 653),
        (1e7, 2000, 35, 0.8, 650, -72.2, 653),
        (200, 2000 + 1j, 35, 0.8, 650, -72.2, 653),
        (200, np.array([1000.0, 1500.0]), 35, 0.8, 650, -72.2, 653),
        (200, [1000.0], 35, 0.8, 650, -72.2, 653),
        (np.array([100.0, 200.0]), 2000, 35, 0.8, 650, -72.2, 653),
        (200, 2000, 35, 0.8, np.array([650.0, 700.0]), -72.2, 653),
        (200, 2000, 35, np.array([0.7, 0.8]), 650, -72.2, 653),
    ]
    for i, a in enumerate(bad):
        rec(f"bad#{i}", f, *a)
    rec("too_few", f, 200, 2000, 35, 0.8, 650, -72.2)
    rec("too_many", f, 200, 2000, 35, 0.8, 650, -72.2, 653, 60, 14.7, 1)

    # pressures from the test-data table
    for name in ["pvt_oil.csv"]:
        try:
            df = pd.read_csv(os.path.join(BB_DATA, name))
            for p in df["P"].to_numpy()[1::25]:
                rec(f"table {name} p={p!r}", f, 200, p, 35, 0.8, 650, -72.2, 653)
        except Exception as e:  # noqa: BLE001
            lines.append(f"table {name} -> HARNESS {type(e).__name__}")

    with open(outfile, "w") as fh:
        fh.write("\n".join(lines) + "\n")


if __name__ == "__main__":
    main(sys.argv[1])
