"""Equivalence driver for bluebonnet.flow.reservoir refactorings."""
from __future__ import annotations

import dataclasses
import inspect
import os
import sys
import warnings

import numpy as np
import pandas as pd

warnings.simplefilter("ignore")
DATA = os.environ.get("BB_DATA", "/tmp/twin13_reservoir/tests/data")

from bluebonnet.flow import reservoir as R  # noqa: E402
from bluebonnet.flow import FlowProperties  # noqa: E402

out = []


def fmt(v):
    if isinstance(v, np.ndarray):
        flat = " ".join(repr(float(x)) for x in v.ravel())
        return f"array{v.shape}{v.dtype}[{flat}]"
    if isinstance(v, (float, np.floating)):
        return repr(float(v))
    return repr(v)


def rec(label, fn):
    try:
        v = fn()
        out.append(f"{label}: {type(v).__name__} {fmt(v)}")
    except BaseException as e:  # noqa: BLE001
        out.append(f"{label}: EXC {type(e).__name__} {e}")


ren = {"P": "pressure", "Z-Factor": "z-factor", "Cg": "compressibility",
       "Viscosity": "viscosity", "Density": "density"}
ren_oil = {"P": "pressure", "Z-Factor": "z-factor", "Co": "compressibility",
           "Oil_Viscosity": "viscosity", "Oil_Density": "density"}
pvt_gas = pd.read_csv(os.path.join(DATA, "pvt_gas.csv")).rename(columns=ren)
pvt_oil = pd.read_csv(os.path.join(DATA, "pvt_oil.csv")).rename(columns=ren_oil)
fluids = {"gas8000": FlowProperties(pvt_gas, 8000.0), "gas5000": FlowProperties(pvt_gas, 5000.0)}
try:
    fluids["oil"] = FlowProperties(pvt_oil, 6000.0)
except Exception as e:  # noqa: BLE001
    out.append(f"oil fluid: EXC {type(e).__name__}")

times = {
    "lin": np.linspace(0, 2, 40),
    "sq": np.linspace(0, np.sqrt(3), 60) ** 2,
    "two": np.array([0.0, 0.1]),
    "one": np.array([0.0]),
    "empty": np.array([]),
    "list": [0.0, 0.1, 0.3],
}

# module surface
rec("dir", lambda: sorted(n for n in ("IdealReservoir", "SinglePhaseReservoir", "TwoPhaseReservoir",
                                      "MultiPhaseReservoir", "_build_matrix", "FlowProperties", "_ATOL")
                          if hasattr(R, n)))
for cls in (R.IdealReservoir, R.SinglePhaseReservoir, R.TwoPhaseReservoir, R.MultiPhaseReservoir):
    rec(f"{cls.__name__} fields", lambda cls=cls: [(f.name, f.type, "MISSING" if f.default is dataclasses.MISSING else f.default, f.default_factory is dataclasses.MISSING, f.init, f.repr, f.compare) for f in dataclasses.fields(cls)])
    rec(f"{cls.__name__} sig", lambda cls=cls: str(inspect.signature(cls)))
    rec(f"{cls.__name__} repr", lambda cls=cls: repr(cls(5, 100.0, 2000.0)))
    rec(f"{cls.__name__} eq", lambda cls=cls: cls(5, 100.0, 2000.0) == cls(5, 100.0, 2000.0))
    rec(f"{cls.__name__} badinit", lambda cls=cls: cls(5))
    rec(f"{cls.__name__} postinit", lambda cls=cls: cls(5, 1.0, 2.0).__post_init__())

# _build_matrix
for name, k in {"a": np.array([0.5, 1.0, 2.0, 3.0]), "b": np.linspace(0.1, 9, 11),
                "two": np.array([1.0, 2.0]), "int": np.array([1, 2, 3]),
                "one": np.array([1.0]), "empty": np.array([]), "scalar": 2.0}.items():
    def f(k=k):
        m = R._build_matrix(k)
        return (m.format, str(m.dtype), m.shape, fmt(m.toarray()))
    rec(f"build {name}", f)

# Ideal
for nx in (3, 4, 10, 30, 2, 1):
    for tn, t in times.items():
        for pf, pi in ((100.0, 8000.0), (np.array([100.0, 200.0]), 5000.0), (0.0, 1.0)):
            def run(nx=nx, t=t, pf=pf, pi=pi):
                r = R.IdealReservoir(nx, pf, pi, None)
                r.simulate(t)
                res = [fmt(r.pseudopressure)]
                try:
                    res.append(fmt(r.recovery_factor()))
                    res.append(str(hasattr(r, "recovery")))
                    itp = r.recovery_factor_interpolator()
                    res.append(fmt(itp(np.array([-1.0, 0.0, 0.05, 0.5, 1.0, 100.0]))))
                    r.simulate(t)
                    res.append(str(hasattr(r, "recovery")))
                    itp = r.recovery_factor_interpolator()
                    res.append(fmt(itp(0.07)))
                    res.append(fmt(r.recovery_factor(t)))
                except Exception as e:  # noqa: BLE001
                    res.append(f"EXC {type(e).__name__} {e}")
                return res
            rec(f"ideal nx={nx} t={tn} pf={np.ndim(pf)} pi={pi}", run)

rec("ideal norun rf", lambda: R.IdealReservoir(5, 1.0, 2.0).recovery_factor())
rec("ideal norun rf t", lambda: R.IdealReservoir(5, 1.0, 2.0).recovery_factor(np.array([0.0, 1.0])))
rec("ideal norun itp", lambda: R.IdealReservoir(5, 1.0, 2.0).recovery_factor_interpolator())
rec("ideal density nofluid", lambda: (lambda r: (r.simulate(times["lin"]), r.recovery_factor(density=True)))(R.IdealReservoir(5, 1.0, 2.0)))
rec("ideal alpha", lambda: R.IdealReservoir(5, 1.0, 2.0).alpha_scaled(np.array([1, 2, 3])))
rec("ideal alpha f", lambda: R.IdealReservoir(5, 1.0, 2.0).alpha_scaled(np.array([1.5, 2])))
rec("ideal fvf", lambda: R.IdealReservoir(5, 1.0, 2.0).fvf_scale())
rec("ideal fvf zero", lambda: R.IdealReservoir(5, 1.0, 0).fvf_scale())
rec("ideal time None", lambda: R.IdealReservoir(5, 1.0, 2.0).simulate(None))


# Single / Two phase
def sp_run(cls, nx, pf, pi, fluid, t, pff, density):
    r = cls(nx, pf, pi, fluid)
    if pff is None:
        r.simulate(t)
    else:
        r.simulate(t, pff)
    res = [fmt(r.pseudopressure)]
    try:
        res.append(fmt(r.recovery_factor(density=density)))
        itp = r.recovery_factor_interpolator()
        res.append(fmt(itp(np.array([-1.0, 0.0, 0.05, 0.5, 1.0, 100.0]))))
        res.append(fmt(r.fvf_scale()))
        if pff is None:
            r.simulate(t)
        res.append(str(hasattr(r, "recovery")))
        res.append(fmt(r.recovery_factor_interpolator()(0.3)))
    except Exception as e:  # noqa: BLE001
        res.append(f"EXC {type(e).__name__} {e}")
    return res


for fname, fl in fluids.items():
    for nx in (3, 10, 30):
        for tn in ("lin", "sq", "two", "one", "empty", "list"):
            t = times[tn]
            for pf in (100.0, 1000.0, 7999.0, 20000.0, -5.0):
                for density in (False, True):
                    rec(f"single {fname} nx={nx} t={tn} pf={pf} d={density}",
                        lambda nx=nx, t=t, pf=pf, fl=fl, density=density: sp_run(R.SinglePhaseReservoir, nx, pf, 8000.0, fl, t, None, density))
    t = times["lin"]
    rec(f"single {fname} varying", lambda fl=fl: sp_run(R.SinglePhaseReservoir, 12, 100.0, 8000.0, fl, t, np.linspace(3000, 200, len(t)), False))
    rec(f"single {fname} varying list", lambda fl=fl: sp_run(R.SinglePhaseReservoir, 12, 100.0, 8000.0, fl, t, list(np.linspace(3000, 200, len(t))), True))
    rec(f"single {fname} varying badlen", lambda fl=fl: sp_run(R.SinglePhaseReservoir, 12, 100.0, 8000.0, fl, t, np.linspace(3000, 200, 7), False))
    rec(f"single {fname} varying scalar", lambda fl=fl: sp_run(R.SinglePhaseReservoir, 12, 100.0, 8000.0, fl, t, 500.0, False))
    rec(f"single {fname} varying nan", lambda fl=fl: sp_run(R.SinglePhaseReservoir, 12, 100.0, 8000.0, fl, t, np.full(len(t), np.nan), False))
    rec(f"single {fname} pf nan", lambda fl=fl: sp_run(R.SinglePhaseReservoir, 12, np.nan, 8000.0, fl, t, None, False))
    rec(f"single {fname} alpha", lambda fl=fl: R.SinglePhaseReservoir(5, 1.0, 2.0, fl).alpha_scaled(np.linspace(0, 1, 7)))
    rec(f"two {fname}", lambda fl=fl: sp_run(R.TwoPhaseReservoir, 12, 100.0, 8000.0, fl, t, None, False))
    rec(f"two {fname} d", lambda fl=fl: sp_run(R.TwoPhaseReservoir, 12, 100.0, 8000.0, fl, times["sq"], None, True))
    rec(f"two {fname} pff", lambda fl=fl: R.TwoPhaseReservoir(12, 100.0, 8000.0, fl).simulate(t, np.ones(len(t))))

rec("single nofluid", lambda: R.SinglePhaseReservoir(5, 1.0, 2.0).simulate(times["lin"]))
rec("single nx0", lambda: R.SinglePhaseReservoir(0, 1.0, 2.0, fluids["gas8000"]).simulate(times["lin"]))
rec("single nx1", lambda: sp_run(R.SinglePhaseReservoir, 1, 100.0, 8000.0, fluids["gas8000"], times["lin"], None, False))
rec("single nx2", lambda: sp_run(R.SinglePhaseReservoir, 2, 100.0, 8000.0, fluids["gas8000"], times["lin"], None, False))
rec("single norun rf", lambda: R.SinglePhaseReservoir(5, 1.0, 2.0).recovery_factor())
rec("single norun itp", lambda: R.SinglePhaseReservoir(5, 1.0, 2.0).recovery_factor_interpolator())
rec("single fvf", lambda: R.SinglePhaseReservoir(5, 1.0, 2.0).fvf_scale())

# Multi phase
mp = R.MultiPhaseReservoir(5, 100.0, 8000.0, fluids["gas8000"], 0.7, 0.1, 0.2)
rec("multi repr-less", lambda: (mp.So_init, mp.Sw_init, mp.Sg_init))
rec("multi simulate", lambda: mp.simulate(times["lin"]))
rec("multi step", lambda: mp._step_saturation(None, None, None))
rec("multi step cls", lambda: R.MultiPhaseReservoir(5, 1.0, 2.0)._step_saturation(1, 2, 3) is NotImplementedError)
rec("multi alpha", lambda: mp.alpha_scaled(np.ones(3), np.zeros(3, dtype=[("So", float), ("Sg", float), ("Sw", float)])))
rec("multi alpha missing", lambda: mp.alpha_scaled(np.ones(3)))
rec("multi rf", lambda: mp.recovery_factor())

with open(sys.argv[1], "w") as fh:
    fh.write("\n".join(out) + "\n")
