"""Equivalence driver for twin1: b_o_Standing (mask hoisting) and its callers."""
import os
import sys
import warnings

import numpy as np
import pandas as pd

from bluebonnet.fluids import oil
from bluebonnet.fluids.fluid import Fluid

DATA = os.environ.get("BB_DATA", "/tmp/twin5_oil/tests/data")


def show(x):
    if isinstance(x, pd.Series):
        return "Series" + show(x.to_numpy()) + repr(list(x.index))
    if isinstance(x, np.ndarray):
        return f"ndarray{x.shape}{x.dtype}" + repr([show(v) for v in x.ravel().tolist()])
    if isinstance(x, (float, np.floating)):
        return type(x).__name__ + ":" + repr(float(x))
    if isinstance(x, (list, tuple)):
        return type(x).__name__ + repr([show(v) for v in x])
    return type(x).__name__ + ":" + repr(x)


def call(out, label, f, *a, **k):
    with warnings.catch_warnings(record=True) as w:
        warnings.simplefilter("always")
        try:
            r = show(f(*a, **k))
        except BaseException as e:  # noqa: BLE001
            r = "EXC " + type(e).__name__
    cats = sorted({x.category.__name__ for x in w})
    out.append(f"{label} -> {r} warn={cats}")


def main(outfile):
    out = []
    params = [
        (200, 35, 0.8, 650),
        (200.0, 35.0, 0.8, 650.0),
        (150.0, 45.0, 0.65, 1200.0),
        (250.0, 20.0, 1.1, 150.0),
        (100.0, 30.0, 0.7, 5.0),  # negative/small bubble point
        (200.0, 35.0, 0.8, 0.0),
        (np.float64(180.0), np.float64(40.0), np.float64(0.75), np.float64(800.0)),
    ]
    for T, api, sg, gor in params:
        pb = oil.pressure_bubblepoint_Standing(T, api, sg, gor)
        arrays = {
            "mixed": np.array([14.7, 500.0, 1500.0, 2000.0, 2600.0, 3000.0, 5000.0, 9000.0]),
            "unsorted": np.array([9000.0, 14.7, 3000.0, 100.0, 2627.0, 2700.0]),
            "at_pb": np.array([pb, np.nextafter(pb, 0), np.nextafter(pb, 1e9), pb]),
            "all_above": np.linspace(max(pb, 1.0) * 1.01 + 10, 12000.0, 7),
            "all_below": np.linspace(1.0, max(pb * 0.99, 2.0), 7) if pb > 3 else np.array([0.5]),
            "single": np.array([2000.0]),
            "single_hi": np.array([8000.0]),
            "ints": np.array([100, 1000, 2000, 3000, 4000, 8000]),
            "f32": np.array([100, 1000, 2000, 3000, 4000, 8000], dtype=np.float32),
            "empty": np.array([], dtype=float),
            "twod": np.array([[100.0, 3000.0], [5000.0, 200.0]]),
            "twod_hi": np.array([[7000.0, 8000.0], [9000.0, 9500.0]]),
            "twod_lo": np.array([[1.0, 1.5], [2.0, 2.5]]),
            "inf": np.array([1000.0, np.inf]),
            "zero": np.array([0.0, 1000.0, 4000.0]),
            "neg": np.array([-5.0, 1000.0, 4000.0]),
            "big": np.linspace(10.0, 10000.0, 257),
        }
        for name, p in arrays.items():
            before = p.copy()
            call(out, f"bo {T,api,sg,gor} {name}", oil.b_o_Standing, T, p, api, sg, gor)
            out.append(f"   input unchanged: {np.array_equal(before, p, equal_nan=True)}")
            call(out, f"rho {T,api,sg,gor} {name}", oil.density_Standing, T, p, api, sg, gor)
        # NaN entries are left uninitialised by the library; look only at the others
        pn = np.array([1000.0, np.nan, 4000.0])
        call(out, f"bo nan {T,api,sg,gor}",
             lambda: oil.b_o_Standing(T, pn, api, sg, gor)[[0, 2]])
        series = pd.Series([100.0, 3000.0, 5000.0, 1500.0], index=[3, 2, 1, 0])
        call(out, f"bo series {T,api,sg,gor}", oil.b_o_Standing, T, series, api, sg, gor)
        series0 = pd.Series([100.0, 3000.0, 5000.0, 1500.0])
        call(out, f"bo series0 {T,api,sg,gor}", oil.b_o_Standing, T, series0, api, sg, gor)
        call(out, f"bo list {T,api,sg,gor}", oil.b_o_Standing, T, [100.0, 3000.0], api, sg, gor)
        call(out, f"bo tuple {T,api,sg,gor}", oil.b_o_Standing, T, (100.0, 3000.0), api, sg, gor)
        call(out, f"bo objarr {T,api,sg,gor}", oil.b_o_Standing, T,
             np.array([100.0, 3000.0], dtype=object), api, sg, gor)
        call(out, f"bo strarr {T,api,sg,gor}", oil.b_o_Standing, T,
             np.array(["a", "b"]), api, sg, gor)
        for p in [14.7, 100, 2000, 2000.0, pb, np.nextafter(pb, 0), 3000.0, 9000,
                  np.float64(2500.0), np.array(2500.0), np.array(5000.0), 0.0, -1.0,
                  float("nan"), float("inf"), None, "x"]:
            call(out, f"bo scalar {T,api,sg,gor} {p!r}", oil.b_o_Standing, T, p, api, sg, gor)
            call(out, f"rho scalar {T,api,sg,gor} {p!r}", oil.density_Standing, T, p, api, sg, gor)
    # bad parameters
    parr = np.array([100.0, 3000.0, 6000.0])
    for bad in [(0.0, 35.0, 0.8, 650.0), (200.0, -131.5, 0.8, 650.0), (200.0, 35.0, 0.0, 650.0),
                (200.0, 35.0, -0.8, 650.0), (200.0, 35.0, 0.8, -650.0), ("a", 35.0, 0.8, 650.0),
                (200.0, 35.0, 0.8, None), (200.0, 35.0, 0.8, np.array([600.0, 650.0, 700.0])),
                (200.0, 35.0, 0.8, np.array([600.0, 650.0]))]:
        call(out, f"bo bad {bad!r}", oil.b_o_Standing, bad[0], parr, *bad[1:])
        call(out, f"bo bad scalar {bad!r}", oil.b_o_Standing, bad[0], 3000.0, *bad[1:])
    # through the Fluid facade
    fl = Fluid(200.0, 35.0, 0.8, 650.0)
    call(out, "Fluid.oil_FVF array", fl.oil_FVF, np.linspace(100.0, 8000.0, 40))
    call(out, "Fluid.oil_FVF scalar", fl.oil_FVF, 2400.0)
    pvt = pd.read_csv(os.path.join(DATA, "pvt_oil.csv"))
    pcol = [c for c in pvt.columns if c.lower().startswith("p")][0]
    call(out, "Fluid.oil_FVF table", fl.oil_FVF, pvt[pcol].to_numpy())
    with open(outfile, "w") as fh:
        fh.write("\n".join(out) + "\n")


if __name__ == "__main__":
    main(sys.argv[1])
