"""Equivalence driver: writes results of the touched API to <outfile>."""
from __future__ import annotations

import os
import sys
import warnings

import numpy as np
import pandas as pd

warnings.simplefilter("ignore")

DATA = os.environ.get("BB_DATA", "/tmp/twin8_flowproperties/tests/data")
LINES: list[str] = []


def fmt(obj):
    if isinstance(obj, pd.DataFrame):
        return "DataFrame{" + "; ".join(f"{c}={fmt(obj[c].to_numpy())}" for c in obj.columns) + "}"
    if isinstance(obj, pd.Series):
        return "Series" + fmt(obj.to_numpy())
    if isinstance(obj, np.ndarray):
        if obj.dtype.names:
            return "rec{" + "; ".join(f"{n}={fmt(obj[n])}" for n in obj.dtype.names) + "}"
        return f"arr[{obj.dtype},{obj.shape}]" + repr([fmt(v) for v in obj.ravel().tolist()])
    if isinstance(obj, (float, np.floating)):
        return repr(float(obj))
    if isinstance(obj, dict):
        return "{" + ", ".join(f"{k}: {fmt(v)}" for k, v in obj.items()) + "}"
    if isinstance(obj, (list, tuple)):
        return "[" + ", ".join(fmt(v) for v in obj) + "]"
    return repr(obj)


def record(label, thunk):
    try:
        out = fmt(thunk())
    except Exception as exc:  # noqa: BLE001
        out = "EXC " + type(exc).__name__
    LINES.append(f"{label} :: {out}")


def finish():
    with open(sys.argv[1], "w") as fh:
        fh.write("\n".join(LINES) + "\n")


def make_df_pvt(Sw=0.1):
    pvt_oil = pd.read_csv(os.path.join(DATA, "pvt_oil.csv"))
    pvt_water = pd.read_csv(os.path.join(DATA, "pvt_water.csv")).rename(
        columns={"T": "temperature", "P": "pressure", "Viscosity": "mu_w"}
    )
    rename_cols = {
        "T": "temperature",
        "P": "pressure",
        "Oil_Viscosity": "mu_o",
        "Gas_Viscosity": "mu_g",
        "Rso": "Rs",
    }
    df_pvt = (
        pvt_water.drop(columns=["temperature"])
        .merge(pvt_oil.rename(columns=rename_cols), on="pressure")
        .assign(Rv=0)
    )
    df_pvt["So"] = (1 - Sw) / (
        (df_pvt["Rs"].max() - df_pvt["Rs"]) * df_pvt["Bg"] / df_pvt["Bo"] / 5.61458 + 1
    )
    return df_pvt


def make_gas_table(name="pvt_gas.csv"):
    ren = {
        "P": "pressure",
        "Z-Factor": "z-factor",
        "Cg": "compressibility",
        "Viscosity": "viscosity",
        "Density": "density",
    }
    return pd.read_csv(os.path.join(DATA, name)).rename(columns=ren)


REF_DENS = {"rho_o0": 141.5 / (45 + 131.5), "rho_g0": 1.03e-3, "rho_w0": 1}


from bluebonnet.flow.flowproperties import (
    FlowPropertiesTwoPhase,
    RelPermParams,
    relative_permeabilities_twophase,
    rescale_pseudopressure,
)


class AttrDict(dict):
    """A plain mapping with attribute access (no pandas)."""

    __getattr__ = dict.__getitem__

    def copy(self):
        return AttrDict({k: np.array(v) for k, v in self.items()})


def run(table, p_frac, p_i):
    before = np.array(table["pseudopressure"])
    with warnings.catch_warnings(record=True) as w:
        warnings.simplefilter("always")
        out = rescale_pseudopressure(table, p_frac, p_i)
    return [
        type(out).__name__,
        list(out.keys()),
        out["pseudopressure"],
        out["pressure"],
        out is table,
        bool(np.array_equal(before, np.array(table["pseudopressure"]), equal_nan=True)),
        [x.category.__name__ for x in w],
    ]


gas = make_gas_table("pvt_gas.csv")
multi = pd.read_csv(os.path.join(DATA, "pvt_multiphase_oil.csv"), index_col=0)
tables = {
    "oil": make_df_pvt(),
    "gas": gas,
    "ideal": make_gas_table("pvt_ideal_gas.csv"),
    "hay": pd.read_csv(os.path.join(DATA, "pvt_gas_HAYNESVILLE SHALE_20.csv"), index_col=0),
    "multi": multi,
    "gas_rev": gas.iloc[::-1].reset_index(drop=True),
    "gas_2rows": gas.iloc[[10, 500]].reset_index(drop=True),
    "gas_3rows": gas.iloc[[0, 10, 1200]],
    "gas_attrdict": AttrDict({"pressure": gas["pressure"].to_numpy(), "pseudopressure": gas["pseudopressure"].to_numpy()}),
    "gas_int": gas.assign(pressure=gas["pressure"].astype(int), pseudopressure=gas["pseudopressure"].round().astype("int64")),
}
for tname, tab in tables.items():
    plo = float(np.min(tab["pressure"]))
    phi = float(np.max(tab["pressure"]))
    pairs = [
        (1000, 8000.0), (1000.0, 6000), (500.5, 7999.25), (plo, phi), (phi, plo),
        (1000, 1000), (1000.0, 1000.0 + 1e-9), (plo, plo), (phi, phi),
        (np.float64(250.0), np.float32(4000.0)), (3000, 2000),
        (np.array(1000.0), np.array(5000.0)), (np.array([1000.0]), np.array([5000.0])),
        (True, 5000), (np.nan, 5000.0), (1000.0, np.nan), (np.nan, np.nan),
        # errors
        (plo - 1.0, 5000.0), (1000.0, phi + 1.0), (plo - 1.0, phi + 1.0), (phi + 5, plo - 5),
        (-np.inf, 5000.0), (1000.0, np.inf), ("a", 5000.0), (1000.0, "b"), (None, 5000.0), (1000.0, None),
        (np.array([1000.0, 2000.0]), 5000.0), (1000.0, np.array([5000.0, 6000.0])),
        (np.array([1000.0, 2000.0, 3000.0]), np.array([5000.0, 6000.0])),
        ([1000.0, 1500.0], [4000.0, 4500.0]), (1000 + 0j, 5000.0),
    ]
    for p_frac, p_i in pairs:
        record(f"{tname} p_frac={p_frac!r} p_i={p_i!r}", lambda: run(tab, p_frac, p_i))
    if isinstance(tab, pd.DataFrame):
        record(f"{tname} no pseudopressure", lambda: run(tab.drop(columns=["pseudopressure"]), 1000, 5000))
        record(f"{tname} no pressure", lambda: run(tab.drop(columns=["pressure"]), 1000, 5000))
        record(f"{tname} nan in table", lambda: run(tab.assign(pseudopressure=tab["pseudopressure"].where(tab["pressure"] != tab["pressure"].iloc[1])), 1000, 5000))
        record(f"{tname} one row", lambda: run(tab.iloc[:1], plo, plo))
        record(f"{tname} empty", lambda: run(tab.iloc[:0], 1000, 5000))

record("plain dict", lambda: run({"pressure": np.arange(5.0), "pseudopressure": np.arange(5.0) ** 2}, 1.0, 3.0))
record("n-row p_frac broadcast", lambda: run(tables["gas_3rows"], np.array([10.0, 20.0, 30.0]), 5000.0))
record("n-row p_i broadcast", lambda: run(tables["gas_3rows"], 10.0, np.array([1000.0, 2000.0, 3000.0])))

# downstream user
df = tables["oil"]
params = RelPermParams(2, 2, 2, 0.05, 0.1, 0.02, 0.9, 0.4, 0.8)
df_kr = relative_permeabilities_twophase(params, 0.1)
for p_frac, p_i in ((1000, 8000.0), (200.0, 5000), (1000, 1000.0), (0, 9000)):
    def make():
        scaled = rescale_pseudopressure(df, p_frac, p_i)
        fp = FlowPropertiesTwoPhase.from_table(scaled, df_kr, REF_DENS, 0.1, 0.1, p_i)
        return [fp.m_i, fp.alpha(np.linspace(-0.1, 1.1, 13)), fp.pvt_props["m-scaled"][::45]]
    record(f"twophase p_frac={p_frac} p_i={p_i}", make)

finish()
