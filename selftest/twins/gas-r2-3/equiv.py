"""Equivalence driver for refactorings of bluebonnet.fluids.gas.

Usage: PYTHONPATH=<tree>/src /venv/bin/python equiv.py <outfile>
"""

from __future__ import annotations

import itertools
import os
import sys
import warnings

import numpy as np

from bluebonnet.fluids import gas

warnings.simplefilter("ignore")
BB_DATA = os.environ.get("BB_DATA", "/tmp/twin2_gas/tests/data")
SIG_DIGITS = None  # None -> full precision repr; int -> round to that many significant digits
FUNCTIONS = ["hy", "data"]


def fmt(x):
    if isinstance(x, tuple):
        return "(" + ", ".join(fmt(v) for v in x) + ")"
    if isinstance(x, np.ndarray):
        if x.dtype.names:
            return repr(x.tolist()) + "|" + repr(x.dtype)
        return "[" + ", ".join(fmt(v) for v in x.ravel().tolist()) + "]" + repr(x.shape)
    if isinstance(x, (float, np.floating)):
        x = float(x)
        if SIG_DIGITS is None or x != x or x in (float("inf"), float("-inf")):
            return repr(x)
        return f"{x:.{SIG_DIGITS - 1}e}"
    if isinstance(x, complex):
        return "complex(" + fmt(x.real) + "," + fmt(x.imag) + ")"
    return repr(x)


lines = []


def call(label, func, *args, **kwargs):
    try:
        with np.errstate(all="ignore"):
            out = func(*args, **kwargs)
        res = type(out).__name__ + ":" + fmt(out)
    except BaseException as exc:  # noqa: BLE001
        res = "EXC " + type(exc).__name__
    lines.append(f"{label} {args!r} {kwargs!r} -> {res}")


temps = [60.0, 100.0, 200.0, 400.0, 75.5, -50.0, 1000.0]
pressures = [14.7, 100.0, 104.7, 1000.0, 3500.0, 7000.0, 12000.0, 20000.0, 0.5]
crit = [(-102.0, 649.0), (-72.20351526841193, 653.2582064200534), (-10.0, 700.0), (-116.0, 667.0)]
grav = [0.55, 0.65, 0.8, 1.1]

bad_four = [
    (400.0, 0.0, -102.0, 649.0),
    (400.0, -10.0, -102.0, 649.0),
    (-459.67, 100.0, -102.0, 649.0),
    (400.0, 100.0, -459.67, 649.0),
    (400.0, 100.0, -102.0, 0.0),
    (float("nan"), 100.0, -102.0, 649.0),
    (400.0, float("nan"), -102.0, 649.0),
    (400.0, float("inf"), -102.0, 649.0),
    (-300.0, 5000.0, -102.0, 649.0),
    (400, 100, -102, 649),
    (np.float64(400.0), np.float64(100.0), np.float64(-102.0), np.float64(649.0)),
    (np.array([400.0]), np.array([100.0]), -102.0, 649.0),
    (np.array([400.0, 300.0]), np.array([100.0, 200.0]), -102.0, 649.0),
    (400.0, np.array([100.0, 200.0]), -102.0, 649.0),
    ("400", 100.0, -102.0, 649.0),
    (400.0, None, -102.0, 649.0),
    (400.0, 1e-300, -102.0, 649.0),
    (400.0, 1e300, -102.0, 649.0),
    (1e6, 100.0, -102.0, 649.0),
]


def group_make():
    call("make", gas.make_nonhydrocarbon_properties, 0.03, 0.012, 0.018)
    call("make", gas.make_nonhydrocarbon_properties, 0.0, 0.0, 0.0)
    call("make", gas.make_nonhydrocarbon_properties, 0.01, 0.02, 0.03, ("Helium", 0.01, 4.0, 9.3, 33.0))
    call("make", gas.make_nonhydrocarbon_properties, 0.01, 0.02, 0.03, ("Helium", 0.01))
    call("make", gas.make_nonhydrocarbon_properties, "a", 0.02, 0.03)
    call("make", gas.make_nonhydrocarbon_properties, 0.01, 0.02)


def group_four(name):
    func = getattr(gas, name)
    for t, p, (tc, pc) in itertools.product(temps, pressures, crit):
        call(name, func, t, p, tc, pc)
    for args in bad_four:
        call(name, func, *args)
    call(name, func, 400.0, 100.0, -102.0)
    call(name, func, temperature=400.0, pressure=100.0, temperature_pseudocritical=-102.0, pressure_pseudocritical=649.0)


def group_z():
    group_four("z_factor_DAK")


def group_comp():
    group_four("compressibility_DAK")


def group_b():
    group_four("b_factor_DAK")
    for t, p in itertools.product(temps[:4], pressures[:6]):
        call("b_factor_DAK", gas.b_factor_DAK, t, p, -102.0, 649.0, 70.0, 14.65)
        call("b_factor_DAK", gas.b_factor_DAK, t, p, -102.0, 649.0, pressure_standard=15.025)
        call("b_factor_DAK", gas.b_factor_DAK, t, p, -102.0, 649.0, temperature_standard=32)
    call("b_factor_DAK", gas.b_factor_DAK, 400.0, 100.0, -102.0, 649.0, -459.67, 14.7)
    call("b_factor_DAK", gas.b_factor_DAK, 400.0, 100.0, -102.0, 649.0, 60, 0.0)
    call("b_factor_DAK", gas.b_factor_DAK, 400.0, 100.0, -102.0, 649.0, "60", 14.7)


def group_five(name):
    func = getattr(gas, name)
    for t, p, (tc, pc), sg in itertools.product(temps, pressures, crit, grav):
        call(name, func, t, p, tc, pc, sg)
    for args in bad_four:
        call(name, func, *args, 0.65)
    for sg in [0.0, -0.5, float("nan"), float("inf"), "0.65", None, np.array([0.6, 0.7]), 1e-300, 50.0]:
        call(name, func, 400.0, 100.0, -102.0, 649.0, sg)
        call(name, func, 150.0, 5000.0, -72.2, 653.3, sg)
    call(name, func, 400.0, 100.0, -102.0, 649.0)
    call(name, func, 400.0, 100.0, -102.0, -649.0, 0.65)
    call(name, func, 400.0, 100.0, -600.0, 649.0, 0.65)
    call(name, func, temperature=400.0, pressure=100.0, temperature_pseudocritical=-102.0,
         pressure_pseudocritical=649.0, specific_gravity=0.65)


def group_density():
    group_five("density_DAK")


def group_visc():
    group_five("viscosity_Sutton")


def group_pseudo():
    name = "pseudopressure_Hussainy"
    func = gas.pseudopressure_Hussainy
    for t, p, (tc, pc), sg in itertools.product(temps[:4], pressures, crit[:2], grav[:3]):
        call(name, func, t, p, tc, pc, sg)
    for p in pressures:
        call(name, func, 400.0, p, -102.0, 649.0, 0.65, 100.0)
        call(name, func, 250.0, p, -102.0, 649.0, 0.65, pressure_standard=p)
        call(name, func, 250.0, p, -102.0, 649.0, 0.65, pressure_standard=14.65)
    for args in bad_four:
        call(name, func, *args, 0.65)
    call(name, func, 400.0, 100.0, -102.0, 649.0, 0.65, 0.0)
    call(name, func, 400.0, 100.0, -102.0, 649.0, 0.65, -5.0)
    call(name, func, 400.0, 100.0, -102.0, 649.0, "x")
    call(name, func, 400.0, 100.0, -102.0, 649.0)


def group_hy():
    name = "z_factor_hallyarbrough"
    func = gas.z_factor_hallyarbrough
    hy_p = [0.01, 0.1, 0.5, 1.0, 1.5, 2.0, 3.0, 5.0, 8.0, 10.0, 15.0, 20.0, 24.0, 30.0, 100.0]
    hy_t = [1.05, 1.1, 1.2, 1.3, 1.5, 1.7, 2.0, 2.4, 3.0, 5.0, 1.0, 0.9, 0.5]
    for p, t in itertools.product(hy_p, hy_t):
        call(name, func, p, t)
    # dimensional-looking inputs (as the docstring suggests)
    for p, t in itertools.product([14.7, 100.0, 1000.0, 5000.0], [520.0, 660.0, 860.0]):
        call(name, func, p, t)
    for p, t in [
        (0.0, 1.5), (-1.0, 1.5), (2.0, 0.0), (2.0, -1.5), (float("nan"), 1.5), (2.0, float("nan")),
        (float("inf"), 1.5), (2.0, float("inf")), (2, 2), (np.float64(2.0), np.float64(1.5)),
        (np.array([2.0]), 1.5), (np.array([2.0, 3.0]), 1.5), (2.0, np.array([1.5])),
        (2.0, np.array([1.5, 1.6])), (np.array([2.0, 2.0]), 1.5), ("2", 1.5), (2.0, "1.5"),
        (None, 1.5), (2.0, None), (1e-300, 1.5), (1e300, 1.5), (2.0, 1e-3), (2.0, 1e300),
        (np.float64(2.0), np.float64(0.0)), (2.0, 0), (1000.0, 1.01),
    ]:
        call(name, func, p, t)
    call(name, func, 2.0)
    call(name, func, pressure=2.0, temperature=1.5)
    rng = np.random.default_rng(12345)
    for p, t in zip(rng.uniform(0.01, 25.0, 600).tolist(), rng.uniform(1.02, 3.0, 600).tolist()):
        call(name, func, p, t)


def group_pc():
    name = "pseudocritical_point_Sutton"
    func = gas.pseudocritical_point_Sutton
    props = [
        gas.make_nonhydrocarbon_properties(0.03, 0.012, 0.018),
        gas.make_nonhydrocarbon_properties(0.05, 0.01, 0.04),
        gas.make_nonhydrocarbon_properties(0.0, 0.0, 0.0),
        gas.make_nonhydrocarbon_properties(0.0, 0.0, 0.1),
        gas.make_nonhydrocarbon_properties(0.0, 0.2, 0.0),
        gas.make_nonhydrocarbon_properties(0.3, 0.3, 0.3),
        gas.make_nonhydrocarbon_properties(0.4, 0.3, 0.3),
        gas.make_nonhydrocarbon_properties(0.5, 0.4, 0.3),
        gas.make_nonhydrocarbon_properties(0.01, -0.02, 0.01),
        gas.make_nonhydrocarbon_properties(0.01, 0.02, -0.05),
        gas.make_nonhydrocarbon_properties(float("nan"), 0.02, 0.05),
        gas.make_nonhydrocarbon_properties(0.01, 0.02, 0.03, ("Helium", 0.01, 4.0, 9.3, 33.0)),
        gas.make_nonhydrocarbon_properties(
            0.01, 0.02, 0.03, *[(f"X{i}", 0.003 * (i + 1), 4.0 + 3.1 * i, 9.3 + 17.7 * i, 33.0 + 11.3 * i) for i in range(9)]
        ),
    ]
    for sg, prop, fluid in itertools.product(
        [0.55, 0.65, 0.8, 1.1, 0.0, -0.3, float("nan"), float("inf"), np.float64(0.7), 1],
        props,
        ["dry gas", "wet gas", np.str_("dry gas")],
    ):
        call(name, func, sg, prop, fluid)
    for prop in props[:3]:
        call(name, func, 0.7, prop)
        call(name, func, 0.7, non_hydrocarbon_properties=prop, fluid="dry gas")
        for fluid in ["oil", "Dry gas", "", None, 3, ("dry gas",), ["dry gas"], b"dry gas", "dry gas ", "wet  gas", {"a": 1}]:
            call(name, func, 0.7, prop, fluid)
        call(name, func, "0.7", prop, "dry gas")
        call(name, func, None, prop, "wet gas")
        call(name, func, np.array([0.6, 0.7]), prop, "wet gas")
        call(name, func, np.array([0.6, 0.7]), prop, "dry gas")
    call(name, func, 0.7, props[0][:2], "dry gas")
    call(name, func, 0.7, props[0][:1], "wet gas")
    call(name, func, 0.7, props[0][:0], "wet gas")
    call(name, func, 0.7, np.zeros((3, 5)), "wet gas")
    call(name, func, 0.7, None, "wet gas")
    call(name, func, 0.7, None, "bogus")
    call(name, func, 0.7, {"fraction": np.array([0.01, 0.02, 0.03])}, "wet gas")
    call(name, func, 0.7)


def group_data():
    # drive the correlations along the pressures of the shipped PVT table
    table = np.genfromtxt(os.path.join(BB_DATA, "pvt_gas.csv"), delimiter=",", names=True)
    pcol = table["P"]
    props = gas.make_nonhydrocarbon_properties(0.03, 0.012, 0.018)
    tc, pc = gas.pseudocritical_point_Sutton(0.65, props, "dry gas")
    for p in np.asarray(pcol, dtype=float)[::7]:
        p = float(p)
        call("data.z", gas.z_factor_DAK, 300.0, p, tc, pc)
        call("data.b", gas.b_factor_DAK, 300.0, p, tc, pc)
        call("data.c", gas.compressibility_DAK, 300.0, p, tc, pc)
        call("data.rho", gas.density_DAK, 300.0, p, tc, pc, 0.65)
        call("data.mu", gas.viscosity_Sutton, 300.0, p, tc, pc, 0.65)
        call("data.m", gas.pseudopressure_Hussainy, 300.0, p, tc, pc, 0.65)
        call("data.hy", gas.z_factor_hallyarbrough, p / (pc), (300.0 + 459.67) / (tc + 459.67))


GROUPS = {
    "make": group_make,
    "z": group_z,
    "comp": group_comp,
    "b": group_b,
    "density": group_density,
    "visc": group_visc,
    "pseudo": group_pseudo,
    "hy": group_hy,
    "pc": group_pc,
    "data": group_data,
}

if __name__ == "__main__":
    for key in FUNCTIONS or GROUPS:
        GROUPS[key]()
    with open(sys.argv[1], "w") as fh:
        fh.write("\n".join(lines) + "\n")
