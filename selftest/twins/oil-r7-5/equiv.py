"""Equivalence driver for bluebonnet.fluids.oil (clean tree vs refactored tree)."""
from __future__ import annotations

import inspect
import sys
import warnings

import numpy as np

from bluebonnet.fluids import oil
from bluebonnet.fluids.fluid import Fluid

SIG = None  # significant digits (None: full repr)


def fmt(v):
    if isinstance(v, (tuple, list)):
        return "[" + ", ".join(fmt(x) for x in v) + "]"
    if isinstance(v, np.ndarray):
        return f"ndarray{v.shape}{v.dtype}[" + ", ".join(fmt(x) for x in v.ravel().tolist()) + "]"
    if hasattr(v, "to_numpy"):
        return type(v).__name__ + ":" + fmt(v.to_numpy())
    if isinstance(v, (float, np.floating)):
        if SIG is None:
            return type(v).__name__ + ":" + repr(float(v))
        return type(v).__name__ + ":" + f"{float(v):.{SIG - 1}e}"
    if isinstance(v, (complex, np.complexfloating)) and SIG is not None:
        v = complex(v)
        return type(v).__name__ + ":" + f"{v.real:.{SIG - 1}e}{v.imag:+.{SIG - 1}e}j"
    return type(v).__name__ + ":" + repr(v)


LINES = []


def call(label, fn, *args, **kwargs):
    with warnings.catch_warnings(record=True) as w:
        warnings.simplefilter("always")
        try:
            out = fmt(fn(*args, **kwargs))
        except Exception as e:  # noqa: BLE001
            out = "EXC " + type(e).__name__
        cats = sorted({x.category.__name__ for x in w})
    LINES.append(f"{label} -> {out} warnings={cats}")


def main(outfile):
    fluids = [
        (200.0, 35.0, 0.8, 650.0),
        (200, 35, 0.8, 650),
        (150.0, 22.5, 0.65, 120.0),
        (310.0, 48.0, 1.1, 1800.0),
        (75.0, 10.0, 0.56, 1.0),
        (200.0, 35.0, 0.8, 0.0),
    ]
    scalars = [14.7, 100, 100.0, 500.0, 1999.99, 2000, 2627.2017021875276, 2627.3, 3000,
               3000.0, 8000.0, 20000.0, 0.0, -5.0, -100.0, np.float64(2500.0), np.int64(3500),
               float("inf"), float("nan"), 1e9]
    arrays = [
        np.array([14.7, 100.0, 2000.0, 2627.2017021875276, 3000.0, 9000.0]),
        np.array([100.0, 500.0]),          # all below bubble point (usually)
        np.array([7000.0, 12000.0]),       # all above
        np.array([3000.0]),                # length 1
        np.array([], dtype=float),         # empty
        np.array([100, 2000, 3000, 8000]),  # integer dtype
        np.linspace(10.0, 10000.0, 41),
        np.array([[100.0, 3000.0], [5000.0, 50.0]]),  # 2-D
        np.array([0.0, -20.0, 4000.0]),
    ]
    bad = [[100.0, 3000.0], (100.0, 3000.0), "3000", None, np.array(3000.0), np.array(100.0), 3000 + 0j]

    with_pressure = [
        "b_o_Standing",
        "solution_gor_Standing",
        "dgor_dpressure_Standing",
        "oil_compressibility_undersat_Standing",
        "oil_compressibility_undersat_Spivey",
        "density_Standing",
        "viscosity_beggs_robinson",
    ]
    without_pressure = ["pressure_bubblepoint_Standing", "b_o_bubblepoint_Standing", "db_o_dgor_Standing"]

    for name in sorted(n for n in dir(oil) if not n.startswith("_") and callable(getattr(oil, n))
                       and getattr(getattr(oil, n), "__module__", "") == oil.__name__):
        sig = inspect.signature(getattr(oil, name))
        # positional interface (keyword-only additions are not reachable by today's calls)
        pos = [(k, repr(v.default)) for k, v in sig.parameters.items() if v.kind is not v.KEYWORD_ONLY]
        LINES.append(f"signature {name}: {pos}")

    for fi, (t, api, sg, gor) in enumerate(fluids):
        for name in without_pressure:
            fn = getattr(oil, name)
            call(f"{name} f{fi}", fn, t, api, sg, gor)
            call(f"{name} f{fi} kw", fn, temperature=t, api_gravity=api, gas_specific_gravity=sg,
                 solution_gor_initial=gor)
        call(f"b_o_bubblepoint gor-array f{fi}", oil.b_o_bubblepoint_Standing, t, api, sg,
             np.array([0.0, 10.0, gor, 2500.0]))
        call(f"db_o_dgor gor-array f{fi}", oil.db_o_dgor_Standing, t, api, sg,
             np.array([0.0, 10.0, gor, 2500.0]))
        for name in with_pressure:
            fn = getattr(oil, name)
            for p in scalars:
                call(f"{name} f{fi} p={p!r}", fn, t, p, api, sg, gor)
            call(f"{name} f{fi} kw", fn, temperature=t, pressure=1500.0, api_gravity=api,
                 gas_specific_gravity=sg, solution_gor_initial=gor)
            for ai, a in enumerate(arrays):
                call(f"{name} f{fi} arr{ai}", fn, t, a.copy(), api, sg, gor)
            for bi, b in enumerate(bad):
                call(f"{name} f{fi} bad{bi}", fn, t, b, api, sg, gor)
        for p in scalars:
            call(f"co_Standing f{fi} p={p!r}", oil.oil_compressibility_Standing, t, p, api, sg, gor,
                 -72.2, 653.0)
            call(f"co_Standing f{fi} p={p!r} std", oil.oil_compressibility_Standing, t, p, api, sg,
                 gor, -72.2, 653.0, 70.0, 14.65)
            call(f"co_Standing f{fi} p={p!r} kw", oil.oil_compressibility_Standing, t, p, api, sg,
                 gor, temperature_pseudocritical=-60.0, pressure_pseudocritical=640.0,
                 pressure_standard=15.025)
        for ai, a in enumerate(arrays):
            call(f"co_Standing f{fi} arr{ai}", oil.oil_compressibility_Standing, t, a.copy(), api,
                 sg, gor, -72.2, 653.0)
        for bi, b in enumerate(bad):
            call(f"co_Standing f{fi} bad{bi}", oil.oil_compressibility_Standing, t, b, api, sg,
                 gor, -72.2, 653.0)

    # degenerate fluid descriptions (raise or give nan/inf today)
    weird = [
        (0, 35.0, 0.8, 650.0),
        (0.0, 35.0, 0.8, 650.0),
        (200.0, -131.5, 0.8, 650.0),
        (200.0, 35.0, 0, 650.0),
        (200.0, 35.0, 0.0, 650.0),
        (200.0, 35.0, -0.8, 650.0),
        (200.0, 35.0, 0.8, -650.0),
        (-200.0, 35.0, 0.8, 650.0),
        ("200", 35.0, 0.8, 650.0),
        (200.0, None, 0.8, 650.0),
        (200.0, 35.0, 0.8, np.array([300.0, 650.0])),
        (np.array([150.0, 200.0]), 35.0, 0.8, 650.0),
    ]
    for wi, (t, api, sg, gor) in enumerate(weird):
        for name in without_pressure:
            call(f"{name} w{wi}", getattr(oil, name), t, api, sg, gor)
        for name in with_pressure:
            for p in (1000.0, 5000.0, 2000, np.array([1000.0, 5000.0]), np.array([], dtype=float)):
                call(f"{name} w{wi} p={p!r}", getattr(oil, name), t, p, api, sg, gor)
        for p in (1000.0, 5000.0, np.array([1000.0, 5000.0])):
            call(f"co_Standing w{wi} p={p!r}", oil.oil_compressibility_Standing, t, p, api, sg, gor,
                 -72.2, 653.0)

    # neighbourhood of the pole of the Standing undersaturated correlation (math.exp overflows)
    for fi, (t, api, sg, gor) in enumerate(fluids):
        pb = 18.2 * ((gor / sg) ** 0.83 * 10 ** (0.00091 * t - 0.0125 * api) - 1.4)
        pole = pb + 12.938 / 7.141e-4
        for d in (-1.0, -1e-3, -1e-6, -1e-9, 0.0, 1e-9, 1e-6, 1e-3, 1e-2, 0.05, 1.0):
            call(f"undersat_Standing pole f{fi} d={d!r}", oil.oil_compressibility_undersat_Standing,
                 t, pole + d, api, sg, gor)
            call(f"undersat_Standing pole np f{fi} d={d!r}", oil.oil_compressibility_undersat_Standing,
                 t, np.float64(pole + d), api, sg, gor)
            call(f"undersat_Standing pole arr1 f{fi} d={d!r}", oil.oil_compressibility_undersat_Standing,
                 t, np.array([pole + d]), api, sg, gor)

    # wrong arity
    call("arity b_o", oil.b_o_Standing, 200.0, 3000.0, 35.0, 0.8)
    call("arity gor", oil.solution_gor_Standing, 200.0, 3000.0, 35.0, 0.8)
    call("arity gor extra", oil.solution_gor_Standing, 200.0, 3000.0, 35.0, 0.8, 650.0, 1.0)
    call("arity visc extra", oil.viscosity_beggs_robinson, 200.0, 3000.0, 35.0, 0.8, 650.0, 1.0)
    call("arity co", oil.oil_compressibility_Standing, 200.0, 3000.0, 35.0, 0.8, 650.0)
    call("arity co extra", oil.oil_compressibility_Standing, 200.0, 3000.0, 35.0, 0.8, 650.0,
         -72.2, 653.0, 60, 14.7, 1)

    # pandas Series input
    try:
        import pandas as pd

        ser = pd.Series([100.0, 2000.0, 3000.0, 9000.0])
        for name in ("b_o_Standing", "solution_gor_Standing", "oil_compressibility_undersat_Spivey",
                     "density_Standing"):
            call(f"{name} series", getattr(oil, name), 200.0, ser.copy(), 35.0, 0.8, 650.0)
    except ImportError:
        pass

    # through the Fluid facade
    for fi, (t, api, sg, gor) in enumerate(fluids):
        fl = Fluid(t, api, sg, gor)
        call(f"Fluid f{fi} pb", fl.pressure_bubblepoint)
        for ai, a in enumerate(arrays):
            call(f"Fluid f{fi} oil_FVF arr{ai}", fl.oil_FVF, a.copy())
            call(f"Fluid f{fi} oil_viscosity arr{ai}", fl.oil_viscosity, a.copy())
        for p in (100.0, 3000.0, 3000):
            call(f"Fluid f{fi} oil_FVF p={p!r}", fl.oil_FVF, p)
            call(f"Fluid f{fi} oil_viscosity p={p!r}", fl.oil_viscosity, p)

    # inputs are not mutated
    a = np.array([100.0, 2000.0, 3000.0, 9000.0])
    b = a.copy()
    oil.b_o_Standing(200.0, a, 35.0, 0.8, 650.0)
    oil.solution_gor_Standing(200.0, a, 35.0, 0.8, 650.0)
    oil.density_Standing(200.0, a, 35.0, 0.8, 650.0)
    LINES.append(f"inputs untouched: {bool((a == b).all())}")

    with open(outfile, "w") as fh:
        fh.write("\n".join(LINES) + "\n")


if __name__ == "__main__":
    main(sys.argv[1])
