"""Equivalence driver for bluebonnet.forecast.forecast (Bounds, ForecasterOnePhase)."""
import sys
import warnings

import numpy as np

warnings.simplefilter("ignore")

import bluebonnet.forecast.forecast as fmod
from bluebonnet.forecast import Bounds, ForecasterOnePhase

out = []


def fmt(x):
    if isinstance(x, (float, np.floating)):
        return repr(float(x))
    if isinstance(x, (int, np.integer)):
        return "i" + repr(int(x))
    if isinstance(x, np.ndarray):
        return "arr%s%s[" % (x.shape, x.dtype) + ",".join(fmt(v) for v in x.ravel()) + "]"
    if isinstance(x, (list, tuple)):
        return type(x).__name__ + "(" + ",".join(fmt(v) for v in x) + ")"
    return repr(x)


def rec(label, fn):
    try:
        res = fn()
        out.append(f"{label}: {fmt(res)}")
    except Exception as e:  # noqa: BLE001
        out.append(f"{label}: EXC {type(e).__name__}: {e}")


# ---------------- Bounds construction / validation
bound_cases = [
    dict(M=(0, 1), tau=(1, 2)),
    dict(M=(0.0, np.inf), tau=(1e-10, np.inf)),
    dict(M=(1, 0), tau=(1, 2)),
    dict(M=(1, 1), tau=(1, 2)),
    dict(M=(0, 1), tau=(2, 1)),
    dict(M=(0, 1), tau=(2, 2)),
    dict(M=(1, 0), tau=(2, 1)),
    dict(M=(0, 1, 2), tau=(1, 2)),
    dict(M=(0, 1), tau=(1, 2, 3)),
    dict(M=(0, 1, 2), tau=(1,)),
    dict(M=(3,), tau=(2, 1)),
    dict(M=(), tau=()),
    dict(M=[0, 5], tau=[1, 7]),
    dict(M=np.array([0.0, 5.0]), tau=np.array([1.0, 7.0])),
    dict(M=(np.nan, 1), tau=(1, 2)),
    dict(M=(0, 1), tau=(np.nan, np.nan)),
    dict(M=5, tau=(1, 2)),
    dict(M=(0, 1), tau=None),
    dict(M="ab", tau=(1, 2)),
    dict(M=("a", 1), tau=(1, 2)),
    dict(M=(10.0, 1000.0), tau=(2.0, 50.0)),
]
for i, kw in enumerate(bound_cases):
    rec(f"bounds[{i}]", lambda kw=kw: repr(Bounds(**kw)))
    rec(f"bounds[{i}].fit_bounds", lambda kw=kw: Bounds(**kw).fit_bounds())
rec("bounds.positional", lambda: repr(Bounds((0, 1), (1, 2))))
rec("bounds.missing", lambda: repr(Bounds((0, 1))))
rec("bounds.eq", lambda: Bounds((0, 1), (1, 2)) == Bounds((0, 1), (1, 2)))
rec("bounds.hash", lambda: hash(Bounds((0, 1), (1, 2))) == hash(Bounds((0, 1), (1, 2))))


def frozen():
    b = Bounds((0, 1), (1, 2))
    b.M = (2, 3)


rec("bounds.frozen", frozen)
rec("default_bounds", lambda: repr(fmod._default_bounds))
rec("default_bounds.types", lambda: [type(v).__name__ for v in fmod._default_bounds.M + fmod._default_bounds.tau])

# ---------------- regularize_initial_guess
b = Bounds(M=(10.0, 1000.0), tau=(2.0, 50.0))
guesses = [
    [5.0], [10.0], [500.0], [1000.0], [2000.0], [np.nan], [np.inf], [-np.inf],
    [5.0, 1.0], [5.0, 2.0], [500.0, 25.0], [2000.0, 50.0], [2000.0, 51.0],
    [500.0, np.nan], [np.nan, 100.0], [20, 100], [1, 1],
    [5.0, 1.0, 7.0], [5000.0, 1.0, 7.0], [], (5.0,), (500.0, 25.0), (500.0, 100.0),
    np.array([5.0, 100.0]), np.array([2000.0]), np.array([1, 1]), ["a"], [None, 3.0], "xy",
]
for i, g in enumerate(guesses):
    def run(g=g, bb=b):
        gg = g.copy() if hasattr(g, "copy") else g
        res = bb.regularize_initial_guess(gg)
        return [res is gg, fmt(res), fmt(gg)]
    rec(f"regularize[{i}]", run)
    rec(f"regularize_default[{i}]", lambda g=g: run(g, fmod._default_bounds))
binf = Bounds(M=(0, np.inf), tau=(1e-10, np.inf))
rec("regularize_inf", lambda: binf.regularize_initial_guess([np.inf, np.inf]))
blist = Bounds(M=[10, 20], tau=[1, 3])
rec("regularize_listbounds", lambda: blist.regularize_initial_guess([30, 5]))
barr = Bounds(M=np.array([10.0, 20.0]), tau=np.array([1.0, 3.0]))
rec("regularize_arrbounds", lambda: barr.regularize_initial_guess([30, 5]))
rec("regularize_arrbounds_lo", lambda: barr.regularize_initial_guess([3, 0.5]))

# ---------------- ForecasterOnePhase


def rf_sqrt(ts):
    ts = np.asarray(ts, dtype=float)
    return np.where(ts < 1, np.sqrt(ts) * 0.6, 1 - 0.4 * np.exp(-(ts - 1) * 1.5))


def rf_tanh(ts):
    return np.tanh(np.sqrt(ts))


from scipy.interpolate import interp1d

_ts = np.concatenate([[0.0], np.logspace(-6, 3, 400)])
rf_interp = interp1d(_ts, rf_sqrt(_ts), bounds_error=False, fill_value=(0.0, 1.0))

rec("forecaster.repr", lambda: repr(ForecasterOnePhase(rf_tanh).bounds))
rec("forecaster.default_is", lambda: ForecasterOnePhase(rf_tanh).bounds is fmod._default_bounds)
rec("forecaster.noargs", lambda: ForecasterOnePhase())
rec("forecaster.eq", lambda: ForecasterOnePhase(rf_tanh) == ForecasterOnePhase(rf_tanh, fmod._default_bounds))
rec("forecaster.kw", lambda: ForecasterOnePhase(rf_curve=rf_tanh, bounds=b).bounds == b)
import dataclasses
rec("fields.F", lambda: [(f.name, f.type, f.default is dataclasses.MISSING, f.default_factory is dataclasses.MISSING) for f in dataclasses.fields(ForecasterOnePhase)])
rec("fields.B", lambda: [(f.name, f.type, f.default is dataclasses.MISSING) for f in dataclasses.fields(Bounds)])
rec("public_names", lambda: sorted(n for n in ("Bounds", "ForecasterOnePhase", "_forecast_cum_onephase", "_default_bounds") if hasattr(fmod, n)))

t_arr = np.linspace(0.0, 400.0, 41)[1:]
times = {
    "arr": t_arr,
    "short": np.array([1.0, 2.0, 3.0]),
    "long": np.linspace(1, 3000, 200),
    "scalar": 37.5,
    "int": 10,
    "2d": np.arange(1.0, 7.0).reshape(2, 3),
    "empty": np.array([]),
    "list": [1.0, 2.0],
    "zero": np.array([0.0, 1.0]),
    "neg": np.array([-1.0, 1.0]),
}
for cname, curve in [("sqrt", rf_sqrt), ("tanh", rf_tanh), ("interp", rf_interp)]:
    f = ForecasterOnePhase(curve)
    for tname, t in times.items():
        for M, tau in [(1000.0, 100.0), (3, 7), (0.0, 1.0), (100.0, 0.0), (np.nan, 5.0), (1e6, 1e-10), (-5.0, 20.0)]:
            rec(f"cum[{cname},{tname},{M},{tau}]", lambda: f.forecast_cum(t, M, tau))
            rec(f"cumkw[{cname},{tname},{M},{tau}]", lambda: f.forecast_cum(time_on_production=t, tau=tau, M=M))
            rec(f"helper[{cname},{tname},{M},{tau}]", lambda: fmod._forecast_cum_onephase(curve, t, M, tau))
    # unfitted: attribute errors
    rec(f"unfit[{cname}]", lambda: f.forecast_cum(t_arr))
    rec(f"unfit_M[{cname}]", lambda: f.forecast_cum(t_arr, M=10.0))
    rec(f"unfit_tau[{cname}]", lambda: f.forecast_cum(t_arr, tau=10.0))
    rec(f"M0tau0[{cname}]", lambda: f.forecast_cum(t_arr, 0, 0))

rec("bad_curve", lambda: ForecasterOnePhase(None).forecast_cum(t_arr, 1.0, 1.0))
rec("bad_curve2", lambda: ForecasterOnePhase(lambda x: "s").forecast_cum(t_arr, 2.0, 1.0))

# ---------------- fit
rng = np.random.default_rng(1234)
fit_bounds_cases = {
    "default": None,
    "tight": Bounds(M=(10.0, 5000.0), tau=(2.0, 500.0)),
    "lowM": Bounds(M=(1.0, 800.0), tau=(1.0, 90.0)),
    "hiM": Bounds(M=(5000.0, 9000.0), tau=(3000.0, 9000.0)),
    "listb": Bounds(M=[10.0, 5000.0], tau=[2.0, 500.0]),
}
datasets = {}
for cname, curve in [("sqrt", rf_sqrt), ("tanh", rf_tanh), ("interp", rf_interp)]:
    for M_true, tau_true in [(1500.0, 120.0), (300.0, 900.0)]:
        clean = M_true * curve(t_arr / tau_true)
        noisy = clean * (1 + 0.02 * rng.standard_normal(len(t_arr)))
        datasets[(cname, M_true, tau_true, "clean")] = (curve, t_arr, clean)
        datasets[(cname, M_true, tau_true, "noisy")] = (curve, t_arr, noisy)

for key, (curve, t, q) in datasets.items():
    for bname, bnd in fit_bounds_cases.items():
        for tau_fixed in [None, 100.0, 250, 0.5]:
            def run():
                f = ForecasterOnePhase(curve) if bnd is None else ForecasterOnePhase(curve, bnd)
                r = f.fit(t, q, tau_fixed) if tau_fixed is not None else f.fit(t, q)
                res = [r, f.M_, f.tau_, type(f.M_).__name__, type(f.tau_).__name__,
                       f.time_on_production is t, f.cum_production is q,
                       f.forecast_cum(np.array([10.0, 1000.0])),
                       f.forecast_cum(np.array([10.0, 1000.0]), tau=33.0),
                       f.forecast_cum(np.array([10.0, 1000.0]), M=44.0)]
                return res
            rec(f"fit[{key},{bname},{tau_fixed}]", run)


def fit_kw():
    f = ForecasterOnePhase(rf_tanh)
    f.fit(cum_production=datasets[("tanh", 1500.0, 120.0, "clean")][2], time_on_production=t_arr, tau=None)
    return [f.M_, f.tau_]


rec("fit_kw", fit_kw)


def fit_lists():
    f = ForecasterOnePhase(rf_tanh)
    f.fit(list(t_arr), list(datasets[("tanh", 1500.0, 120.0, "clean")][2]))
    return [f.M_, f.tau_, type(f.time_on_production).__name__]


rec("fit_lists", fit_lists)


def fit_lists_tau():
    f = ForecasterOnePhase(rf_tanh)
    f.fit(list(t_arr), list(datasets[("tanh", 1500.0, 120.0, "clean")][2]), 120.0)
    return [f.M_, f.tau_]


rec("fit_lists_tau", fit_lists_tau)

# error inputs to fit
f_err = ForecasterOnePhase(rf_tanh)
rec("fit_empty", lambda: f_err.fit(np.array([]), np.array([])))
rec("fit_empty_tau", lambda: f_err.fit(np.array([]), np.array([]), 3.0))
rec("fit_mismatch", lambda: f_err.fit(np.array([1.0, 2.0, 3.0]), np.array([1.0, 2.0])))
rec("fit_mismatch_tau", lambda: f_err.fit(np.array([1.0, 2.0, 3.0]), np.array([1.0, 2.0]), 5.0))
rec("fit_nan", lambda: f_err.fit(np.array([1.0, 2.0, 3.0]), np.array([1.0, np.nan, 2.0])))
rec("fit_nan_tau", lambda: f_err.fit(np.array([1.0, 2.0, 3.0]), np.array([1.0, np.nan, 2.0]), 2.0))
rec("fit_scalar", lambda: f_err.fit(1.0, 2.0))
rec("fit_scalar_tau", lambda: f_err.fit(1.0, 2.0, 3.0))
rec("fit_one_point", lambda: f_err.fit(np.array([1.0]), np.array([2.0])))
rec("fit_one_point_tau", lambda: [f_err.fit(np.array([1.0]), np.array([2.0]), 4.0), f_err.M_, f_err.tau_])
rec("fit_neg", lambda: [f_err.fit(t_arr, -t_arr), f_err.M_, f_err.tau_])
rec("fit_neg_tau", lambda: [f_err.fit(t_arr, -t_arr, 10.0), f_err.M_, f_err.tau_])
rec("fit_tau0", lambda: [f_err.fit(t_arr, t_arr, 0.0), f_err.M_, f_err.tau_])
rec("fit_badcurve", lambda: ForecasterOnePhase(None).fit(t_arr, t_arr))
rec("fit_badcurve_tau", lambda: ForecasterOnePhase(None).fit(t_arr, t_arr, 3.0))
rec("fit_badbounds", lambda: ForecasterOnePhase(rf_tanh, None).fit(t_arr, t_arr))
rec("fit_badbounds_tau", lambda: ForecasterOnePhase(rf_tanh, None).fit(t_arr, t_arr, 3.0))
rec("fit_after_err_state", lambda: sorted(k for k in vars(ForecasterOnePhase(rf_tanh))))


def state_after_fail():
    f = ForecasterOnePhase(rf_tanh)
    try:
        f.fit(np.array([1.0, 2.0, 3.0]), np.array([1.0, np.nan, 2.0]))
    except Exception:  # noqa: BLE001
        pass
    return sorted(vars(f))


rec("state_after_fail", state_after_fail)

with open(sys.argv[1], "w") as fh:
    fh.write("\n".join(out) + "\n")
