"""Equivalence driver for twin4: new keyword-only parameters with behaviour-preserving defaults.

Only call forms that exist on the unchanged tree are used (the new keywords are never passed).
"""

from __future__ import annotations

import os
import re
import sys
import warnings

import numpy as np
import pandas as pd

from bluebonnet.flow import FlowPropertiesTwoPhase as FromPackage
from bluebonnet.flow.flowproperties import (
    FlowPropertiesTwoPhase,
    RelPermParams,
    relative_permeabilities_twophase,
    rescale_pseudopressure,
)

DATA = os.environ.get("BB_DATA", "/tmp/twin12_flowproperties/tests/data")
out = []


def fmt(x):
    if isinstance(x, pd.DataFrame):
        return (
            "DF("
            + ",".join(f"{c}:{fmt(x[c].to_numpy())}" for c in x.columns)
            + f"|idx={x.index!r}|dtypes={[str(d) for d in x.dtypes]})"
        )
    if isinstance(x, np.ndarray):
        return f"nd{x.shape}{x.dtype}[" + ",".join(repr(v) for v in x.ravel().tolist()) + "]"
    if isinstance(x, dict):
        return "{" + ",".join(f"{k!r}:{fmt(v)}" for k, v in x.items()) + "}"
    return f"{type(x).__name__}:{x!r}"


def norm_msg(msg):
    return re.sub(r"\{([^}]*)\}", lambda m: "{" + ", ".join(sorted(m.group(1).split(", "))) + "}", msg)


def rec(label, fn):
    with warnings.catch_warnings(record=True) as w:
        warnings.simplefilter("always")
        try:
            res = fmt(fn())
        except Exception as e:  # noqa: BLE001
            res = f"EXC {type(e).__name__}: {norm_msg(str(e))}"
    out.append(f"{label} -> {res} | warnings={[i.category.__name__ + ':' + str(i.message) for i in w]}")


base = RelPermParams(
    n_o=1, n_g=1, n_w=1, S_or=0, S_gc=0, S_wc=0.1, k_ro_max=1, k_rw_max=1, k_rg_max=1
)
param_sets = {
    "linear": base,
    "corey": RelPermParams(2, 3, 1.5, 0.05, 0.1, 0.02, 0.9, 0.5, 0.8),
    "six": RelPermParams(6, 6, 6, 0.2, 0.2, 0.2, 1, 1, 1),
    "zero_Swc": RelPermParams(2, 2, 2, 0.1, 0.0, 0.1, 1, 1, 1),
    "high_Swc": RelPermParams(2, 2, 2, 0.0, 0.9, 0.0, 1, 1, 1),
    "bad_n": base._replace(n_o=8),
    "bad_k": base._replace(k_ro_max=1.1),
    "bad_S": base._replace(S_or=-0.5),
    "plain_tuple": (1, 1, 1, 0, 0.1, 0, 1, 1, 1),
    "none": None,
}
Sw_values = [0.1, 0.0, 0.05, 0.02, 0.1 + 1e-12, 0.8, 0.9, 1.0, -0.1, 1, 0, True, float("nan"), float("inf"), None, "0.1", np.float32(0.1), np.float64(0.05), np.array(0.05), np.array([0.05]), [0.05]]

for pname, prm in param_sets.items():
    rec(f"twophase/{pname}/default", lambda prm=prm: relative_permeabilities_twophase(prm))
    rec(f"twophase/{pname}/kw_params", lambda prm=prm: relative_permeabilities_twophase(params=prm))
    for Sw in Sw_values:
        rec(f"twophase/{pname}/pos/{Sw!r}", lambda prm=prm, Sw=Sw: relative_permeabilities_twophase(prm, Sw))
        rec(f"twophase/{pname}/kw/{Sw!r}", lambda prm=prm, Sw=Sw: relative_permeabilities_twophase(prm, Sw=Sw))
        rec(f"twophase/{pname}/kwkw/{Sw!r}", lambda prm=prm, Sw=Sw: relative_permeabilities_twophase(Sw=Sw, params=prm))
rec("twophase/no_args", lambda: relative_permeabilities_twophase())
rec("twophase/three_positional", lambda: relative_permeabilities_twophase(base, 0.1, 50))
rec("twophase/four_positional", lambda: relative_permeabilities_twophase(base, 0.1, 50, 3))
rec("twophase/unknown_kw", lambda: relative_permeabilities_twophase(base, 0.1, npoints=20))
rec("twophase/unknown_kw2", lambda: relative_permeabilities_twophase(base, num=20))
rec("twophase/dup_kw", lambda: relative_permeabilities_twophase(base, 0.1, Sw=0.1))
rec("twophase/defaults", lambda: {"defaults": repr(relative_permeabilities_twophase.__defaults__), "name": relative_permeabilities_twophase.__name__})

# from_table
df_pvt = pd.read_csv(os.path.join(DATA, "pvt_multiphase_oil.csv")).drop(columns=["Unnamed: 0"])
dens = {"rho_o0": 141.5 / (45 + 131.5), "rho_g0": 1.03e-3, "rho_w0": 1}
p_probe = np.linspace(0, 9000, 19)
m_probe = np.array([-1.0, 0.0, 1e-6, 0.01, 0.2, 0.5, 0.75, 0.999, 1.0, 1.5, 10.0, np.nan])
p_out = np.array([-500.0, -0.5, 0.0, 4321.0, 9000.0, 9000.5, 15000.0, np.nan])


def describe(obj):
    return {
        "type": type(obj).__name__,
        "m_i": np.asarray(obj.m_i),
        "m_scaled": obj.m_scaled_func(p_probe),
        "alpha": obj.alpha(m_probe),
        "props": {k: np.asarray(v) for k, v in obj.pvt_props.items()},
        "pvt": {k: (v(p_out) if callable(v) else np.asarray(v)) for k, v in sorted(obj.pvt.items())},
        "pvt_scalar": {k: np.asarray(v(-3.0)) for k, v in sorted(obj.pvt.items()) if callable(v)},
        "pvt_flags": {
            k: f"{v.bounds_error}/{v.fill_value!r}" for k, v in sorted(obj.pvt.items()) if callable(v)
        },
        "kr": {k: v(np.linspace(0, 0.9, 11)) for k, v in sorted(obj.kr.items())},
        "kr_flags": {k: f"{v.bounds_error}/{v.fill_value!r}" for k, v in sorted(obj.kr.items())},
        "repr": repr(obj),
    }


class Sub(FlowPropertiesTwoPhase):
    """A user subclass: from_table must still build it through cls(...)."""

    def __init__(self, pvt_props, p_i):
        super().__init__(pvt_props, p_i)
        self.tag = "sub"


tables = {
    "raw": df_pvt,
    "rescaled": rescale_pseudopressure(df_pvt, 1000.0, 8000.0),
    "every_9th": df_pvt.iloc[::9],
    "shuffled_index": df_pvt.set_axis(np.random.default_rng(0).permutation(len(df_pvt)), axis=0),
    "str_index": df_pvt.set_axis([f"r{i}" for i in range(len(df_pvt))], axis=0),
    "dup_index": df_pvt.set_axis(np.arange(len(df_pvt)) % 7, axis=0),
    "rows_shuffled": df_pvt.sample(frac=1.0, random_state=1),
    "dict": {c: df_pvt[c].to_numpy() for c in df_pvt.columns},
}
for pname in ("linear", "corey", "six"):
    df_kr = relative_permeabilities_twophase(param_sets[pname], 0.02)
    for tname, tab in tables.items():
        for p_i in (8000.0, 9000, 4500.5, 9000.5, -1.0):
            for phi, Sw in ((0.1, 0.1), (0.3, 0.02)):
                rec(
                    f"from_table/{pname}/{tname}/{p_i}/{phi}/{Sw}/positional",
                    lambda tab=tab, df_kr=df_kr, p_i=p_i, phi=phi, Sw=Sw: describe(
                        FlowPropertiesTwoPhase.from_table(tab, df_kr, dens, phi, Sw, p_i)
                    ),
                )
        rec(
            f"from_table/{pname}/{tname}/keywords",
            lambda tab=tab, df_kr=df_kr: describe(
                FlowPropertiesTwoPhase.from_table(
                    p_i=8000.0, Sw=0.1, phi=0.1, reference_densities=dens, kr_props=df_kr, pvt_props=tab
                )
            ),
        )
        rec(
            f"from_table/{pname}/{tname}/subclass",
            lambda tab=tab, df_kr=df_kr: (lambda o: {**describe(o), "tag": o.tag})(
                Sub.from_table(tab, df_kr, dens, 0.1, 0.1, p_i=8000.0)
            ),
        )
    rec(f"from_table/{pname}/package_alias", lambda df_kr=df_kr: describe(FromPackage.from_table(df_pvt, df_kr, dens, 0.1, 0.1, 8000.0)))

df_kr = relative_permeabilities_twophase(base)
rec("from_table/seven_positional", lambda: FlowPropertiesTwoPhase.from_table(df_pvt, df_kr, dens, 0.1, 0.1, 8000.0, True))
rec("from_table/five_positional", lambda: FlowPropertiesTwoPhase.from_table(df_pvt, df_kr, dens, 0.1, 0.1))
rec("from_table/unknown_kw", lambda: FlowPropertiesTwoPhase.from_table(df_pvt, df_kr, dens, 0.1, 0.1, 8000.0, extrapolate=True))
rec("from_table/unknown_kw2", lambda: FlowPropertiesTwoPhase.from_table(df_pvt, df_kr, dens, 0.1, 0.1, 8000.0, fvf_scale=1.0))
rec("from_table/dup_kw", lambda: FlowPropertiesTwoPhase.from_table(df_pvt, df_kr, dens, 0.1, 0.1, 8000.0, p_i=1.0))
rec("from_table/missing_pvt_col", lambda: FlowPropertiesTwoPhase.from_table(df_pvt.drop(columns=["mu_w"]), df_kr, dens, 0.1, 0.1, 8000.0))
rec("from_table/missing_kr_col", lambda: FlowPropertiesTwoPhase.from_table(df_pvt, df_kr.drop(columns=["kro"]), dens, 0.1, 0.1, 8000.0))
rec("from_table/missing_density", lambda: FlowPropertiesTwoPhase.from_table(df_pvt, df_kr, {"rho_o0": 1.0, "rho_w0": 1.0}, 0.1, 0.1, 8000.0))
rec("from_table/none_tables", lambda: FlowPropertiesTwoPhase.from_table(None, None, dens, 0.1, 0.1, 8000.0))
rec("from_table/defaults", lambda: {"defaults": repr(FlowPropertiesTwoPhase.from_table.__func__.__defaults__)})

with open(sys.argv[1], "w") as f:
    f.write("\n".join(out) + "\n")
