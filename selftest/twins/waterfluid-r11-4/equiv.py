"""Equivalence probe for twin4: Fluid.water_FVF / gas_FVF / gas_viscosity share one tabulating helper."""
import dataclasses
import os
import sys
import warnings

import numpy as np
import pandas as pd

warnings.simplefilter("ignore")
from bluebonnet.fluids import Fluid
from bluebonnet.fluids.gas import make_nonhydrocarbon_properties, pseudocritical_point_Sutton

DATA = os.environ.get("BB_DATA", "/tmp/twin11_waterfluid/tests/data")
out = []


def show(x):
    if isinstance(x, (float, np.floating)):
        return type(x).__name__ + repr(float(x))
    if isinstance(x, pd.Series):
        return "Series" + show(x.to_numpy()) + repr(list(x.index[:3]))
    if isinstance(x, np.ndarray):
        return f"nd{x.shape}{x.dtype}[" + ",".join(show(v) for v in x.ravel().tolist()) + "]"
    if isinstance(x, (list, tuple)):
        return type(x).__name__ + "[" + ",".join(show(v) for v in x) + "]"
    return type(x).__name__ + ":" + repr(x)


def probe(label, f, *a, **k):
    try:
        r = show(f(*a, **k))
    except BaseException as e:  # noqa: BLE001
        r = "EXC " + type(e).__name__
    out.append(f"{label} -> {r}")


pvt = pd.read_csv(os.path.join(DATA, "pvt_gas.csv"))


def pressures():
    """Fresh inputs each time (generators are consumed)."""
    return [
        np.array([14.7]), np.array([100.0, 2000.0]), np.linspace(14.7, 12000.0, 7), np.arange(10, 9000, 1777),
        np.array([]), [], (), [500.0], [100.0, 3000.0, 9000.0], (250.0, 7500.0), [1000, 2000],
        (p for p in (300.0, 600.0)), iter([]), range(100, 4000, 1300), {1000.0: "a", 2000.0: "b"}, {1500.0, },
        pd.Series([100.0, 2500.0, 8000.0], index=[3, 4, 5]), pvt["P"].to_numpy()[1:1200:211], pvt["P"].iloc[1:1200:400],
        np.array([[100.0, 2000.0], [3000.0, 9000.0]]), np.array([[100.0], [2000.0]]), [[100.0, 200.0]],
        [np.array([100.0, 200.0]), np.array([300.0, 400.0])], [np.array([100.0, 200.0]), 300.0],
        np.array([100.0, np.nan, 300.0]), np.array([100.0, np.inf]), np.array([0.0, 100.0]), np.array([-50.0, 100.0]),
        [100.0, None], [100.0, "200"], np.array([100, 200], dtype=object), np.array([True, False]),
        np.float32([150.0, 2500.0]), np.array(3000.0),
        3000.0, 3000, None, "3000", "", np.float64(3000.0), True, 3 + 1j, [3 + 1j],
    ]


N = len(pressures())
fluids = [
    Fluid(200.0, 35.0, 0.7, 500.0), Fluid(400, 35, 0.65, 0), Fluid(120.5, 45.0, 0.8, 1200.0, 5.0, 0.2),
    Fluid(np.float64(300.0), 30.0, np.float64(0.9), 800.0, 12.0), Fluid(60, 10.0, 0.56, 50.0),
    Fluid(float("nan"), 35.0, 0.7, 500.0), Fluid(None, 35.0, 0.7, 500.0), Fluid("200", 35.0, 0.7, 500.0),
    Fluid(200.0, 35.0, None, 500.0), Fluid(200.0, 35.0, "0.7", 500.0), Fluid(200.0, 35.0, -0.7, 500.0),
    Fluid(np.array([200.0, 300.0]), 35.0, 0.7, 500.0), Fluid(-459.67, 35.0, 0.7, 500.0),
]
crit = [(-102.0, 649.0), pseudocritical_point_Sutton(0.7, make_nonhydrocarbon_properties(0.01, 0.0, 0.02), "dry gas"),
        pseudocritical_point_Sutton(0.8, make_nonhydrocarbon_properties(0.0, 0.05, 0.1), "wet gas"),
        (None, 649.0), (-102.0, None), ("a", 649.0), (-459.67, 649.0), (-102.0, 0.0), (np.nan, 649.0)]

for i, fl in enumerate(fluids):
    for j in range(N):
        probe(f"water_FVF f#{i} p#{j}", fl.water_FVF, pressures()[j])
        for k, (tpc, ppc) in enumerate(crit):
            if (i < 5 and k < 3) or j < 4:
                probe(f"gas_FVF f#{i} p#{j} c#{k}", fl.gas_FVF, pressures()[j], tpc, ppc)
                probe(f"gas_viscosity f#{i} p#{j} c#{k}", fl.gas_viscosity, pressures()[j], tpc, ppc)
fl = fluids[0]
probe("kw gas_FVF", fl.gas_FVF, pressure_pseudocritical=649.0, pressure=[100.0], temperature_pseudocritical=-102.0)
probe("kw gas_viscosity", fl.gas_viscosity, pressure_pseudocritical=649.0, pressure=[100.0], temperature_pseudocritical=-102.0)
probe("kw water_FVF", fl.water_FVF, pressure=[100.0])
probe("water_FVF noargs", fl.water_FVF)
probe("gas_FVF one arg", fl.gas_FVF, [100.0])
probe("gas_viscosity two args", fl.gas_viscosity, [100.0], -102.0)
probe("water_FVF extra", fl.water_FVF, [100.0], 1)
probe("unbound", Fluid.water_FVF, fl, [100.0, 200.0])

# attribute changes after construction are picked up (temperature / gravity read at call time)
f2 = Fluid(200.0, 35.0, 0.7, 500.0)
f2.temperature = 250.0
f2.gas_specific_gravity = 0.75
probe("mutated water", f2.water_FVF, [100.0, 4000.0])
probe("mutated bg", f2.gas_FVF, [100.0, 4000.0], -102.0, 649.0)
probe("mutated mu", f2.gas_viscosity, [100.0, 4000.0], -102.0, 649.0)
f3 = dataclasses.replace(f2, temperature=180.0)
probe("replace", f3.gas_viscosity, np.array([100.0, 4000.0]), -102.0, 649.0)
probe("repr", repr, f3)
probe("eq", lambda: f3 == dataclasses.replace(f2, temperature=180.0))
probe("fields", lambda: [f.name for f in dataclasses.fields(Fluid)])
probe("asdict", dataclasses.asdict, f3)
probe("public attrs", lambda: sorted(n for n in dir(Fluid) if not n.startswith("_")))


class Recorder(Fluid):
    """A user subclass overriding nothing private; attribute access order is recorded."""

    def __getattribute__(self, name):
        if name in ("temperature", "gas_specific_gravity", "salinity"):
            out.append(f"  read {name}")
        return super().__getattribute__(name)


r = Recorder(210.0, 35.0, 0.7, 500.0)
probe("recorder water", r.water_FVF, [100.0, 200.0])
probe("recorder bg", r.gas_FVF, [100.0, 200.0], -102.0, 649.0)
probe("recorder mu", r.gas_viscosity, [100.0, 200.0], -102.0, 649.0)
probe("recorder mu empty", r.gas_viscosity, [], -102.0, 649.0)
probe("recorder mu scalar", r.gas_viscosity, 100.0, -102.0, 649.0)
# the other methods are untouched but recorded for completeness
probe("oil_FVF", fl.oil_FVF, np.array([100.0, 3000.0, 6000.0]))
probe("oil_viscosity", fl.oil_viscosity, np.array([100.0, 3000.0, 6000.0]))
probe("water_viscosity", fl.water_viscosity, np.array([100.0, 3000.0, 6000.0]))
probe("bubblepoint", fl.pressure_bubblepoint)

with open(sys.argv[1], "w") as fh:
    fh.write("\n".join(out) + "\n")
