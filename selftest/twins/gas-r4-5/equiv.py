"""Behavioural fingerprint of bluebonnet.fluids.gas (and its users in fluid.py).

Usage: PYTHONPATH=<tree>/src /venv/bin/python equiv.py <outfile>
Every call is recorded as repr() of the result at full precision, or as the
exception type; warning categories raised during the call are recorded as well.
"""

from __future__ import annotations

import functools
import inspect
import logging
import os
import pickle
import sys
import warnings

import numpy as np

from bluebonnet.fluids import Fluid, build_pvt_gas
from bluebonnet.fluids import gas

BB_DATA = os.environ.get("BB_DATA", "/tmp/twin4_gas/tests/data")
LINES: list[str] = []


def fmt(x):
    if isinstance(x, tuple):
        return "(" + ", ".join(fmt(v) for v in x) + ")"
    if isinstance(x, np.ndarray):
        if x.dtype.names:
            return f"structarray(dtype={x.dtype!r}, data={x.tolist()!r})"
        return f"array(dtype={x.dtype}, shape={x.shape}, data={[repr(float(v)) for v in x.ravel()]})"
    if isinstance(x, (float, np.floating)):
        return f"{type(x).__name__}:{float(x)!r}"
    return f"{type(x).__name__}:{x!r}"


def record(label, func, *args, **kwargs):
    with warnings.catch_warnings(record=True) as caught:
        warnings.simplefilter("always")
        try:
            out = fmt(func(*args, **kwargs))
        except BaseException as exc:  # noqa: BLE001
            out = f"RAISES {type(exc).__name__}"
    cats = sorted({w.category.__name__ for w in caught})
    LINES.append(f"{label} -> {out} warnings={cats}")


def main(outfile):
    # ------------------------------------------------------------------ metadata
    public = [
        "make_nonhydrocarbon_properties",
        "z_factor_DAK",
        "z_factor_hallyarbrough",
        "b_factor_DAK",
        "density_DAK",
        "compressibility_DAK",
        "viscosity_Sutton",
        "pseudocritical_point_Sutton",
        "pseudopressure_Hussainy",
    ]
    for name in public:
        f = getattr(gas, name)
        LINES.append(f"meta {name} name={f.__name__} qualname={f.__qualname__} module={f.__module__}")
        LINES.append(f"meta {name} signature={inspect.signature(f)}")
        LINES.append(f"meta {name} doc={f.__doc__!r}")
        LINES.append(f"meta {name} defaults={getattr(inspect.unwrap(f), '__defaults__', None)!r}")
        LINES.append(f"meta {name} picklable={pickle.loads(pickle.dumps(f)) is f}")

    # ------------------------------------------------------------------ make_nonhydrocarbon_properties
    nh_sets = {
        "std": gas.make_nonhydrocarbon_properties(0.03, 0.012, 0.018),
        "zero": gas.make_nonhydrocarbon_properties(0.0, 0.0, 0.0),
        "sour": gas.make_nonhydrocarbon_properties(0.05, 0.01, 0.04),
        "verysour": gas.make_nonhydrocarbon_properties(0.02, 0.25, 0.15),
        "others": gas.make_nonhydrocarbon_properties(
            0.02, 0.01, 0.03, ("Helium", 0.01, 4.0026, 9.34, 33.0), ("Argon", 0.004, 39.948, 271.6, 705.4)
        ),
        "allnonhc": gas.make_nonhydrocarbon_properties(0.5, 0.25, 0.25),
    }
    record("mk std", gas.make_nonhydrocarbon_properties, 0.03, 0.012, 0.018)
    record("mk kw", gas.make_nonhydrocarbon_properties, nitrogen=0.1, hydrogen_sulfide=0.2, co2=0.3)
    record("mk ints", gas.make_nonhydrocarbon_properties, 0, 1, 2)
    record(
        "mk others",
        gas.make_nonhydrocarbon_properties,
        0.02,
        0.01,
        0.03,
        ("Helium", 0.01, 4.0026, 9.34, 33.0),
        ("A" * 30, 0.004, 39.948, 271.6, 705.4),
    )
    record("mk missing", gas.make_nonhydrocarbon_properties, 0.1, 0.2)
    record("mk badtype", gas.make_nonhydrocarbon_properties, "a", 0.2, 0.1)
    record("mk none", gas.make_nonhydrocarbon_properties, None, 0.2, 0.1)
    record("mk badother", gas.make_nonhydrocarbon_properties, 0.1, 0.2, 0.1, ("x", 1.0))
    record("mk listother", gas.make_nonhydrocarbon_properties, 0.1, 0.2, 0.1, ["He", 0.01, 4.0, 9.3, 33.0])
    record("mk unknownkw", gas.make_nonhydrocarbon_properties, 0.1, 0.2, 0.1, helium=0.3)
    a = gas.make_nonhydrocarbon_properties(0.03, 0.012, 0.018)
    b = gas.make_nonhydrocarbon_properties(0.03, 0.012, 0.018)
    a["fraction"][0] = 0.5  # results must be independent, writable arrays
    LINES.append(f"mk independent {b['fraction'].tolist()!r} writeable={a.flags.writeable} {a.dtype.descr!r}")

    # ------------------------------------------------------------------ pseudocritical point
    for key, nh in nh_sets.items():
        for sg in (0.55, 0.65, 0.8, 1.1, np.float64(0.7), 1, 0.0, -0.3):
            for fluid in ("dry gas", "wet gas"):
                record(f"pc {key} sg={sg!r} {fluid}", gas.pseudocritical_point_Sutton, sg, nh, fluid)
        record(f"pc {key} default", gas.pseudocritical_point_Sutton, 0.7, nh)
        record(f"pc {key} kw", gas.pseudocritical_point_Sutton, specific_gravity=0.7, non_hydrocarbon_properties=nh, fluid="dry gas")
    nh = nh_sets["std"]
    for bad in ("oil", "Dry gas", "dry gas ", "", None, 3, 2.5, ("dry gas",), ["dry gas"], {"dry gas"}, {"dry gas": 1}, b"dry gas", np.str_("dry gas"), np.array("wet gas"), np.array(["wet gas"]), np.array(["dry gas"]), np.array([["dry gas"]]), np.array(["wet gas", "dry gas"])):
        record(f"pc badfluid {bad!r}", gas.pseudocritical_point_Sutton, 0.7, nh, bad)
        record(f"pc badfluid+baddata {bad!r}", gas.pseudocritical_point_Sutton, 0.7, None, bad)
    record("pc missing", gas.pseudocritical_point_Sutton, 0.7)
    record("pc toomany", gas.pseudocritical_point_Sutton, 0.7, nh, "dry gas", 1)
    record("pc unknownkw", gas.pseudocritical_point_Sutton, 0.7, nh, kind="dry gas")
    record("pc dupkw", lambda: gas.pseudocritical_point_Sutton(0.7, nh, "dry gas", fluid="dry gas"))
    record("pc nh none", gas.pseudocritical_point_Sutton, 0.7, None, "dry gas")
    record("pc nh plain", gas.pseudocritical_point_Sutton, 0.7, np.zeros((3, 4)), "dry gas")
    record("pc nh short", gas.pseudocritical_point_Sutton, 0.7, nh[:2], "wet gas")
    record("pc nh empty", gas.pseudocritical_point_Sutton, 0.7, nh[:0], "wet gas")
    record("pc sg str", gas.pseudocritical_point_Sutton, "0.7", nh, "wet gas")
    record("pc sg none", gas.pseudocritical_point_Sutton, None, nh, "dry gas")
    record("pc sg array", gas.pseudocritical_point_Sutton, np.array([0.6, 0.7, 0.9]), nh, "dry gas")
    record("pc sg array wet", gas.pseudocritical_point_Sutton, np.array([0.6, 0.7, 0.9]), nh, "wet gas")
    record("pc sg nan", gas.pseudocritical_point_Sutton, float("nan"), nh, "wet gas")
    record("pc sg inf", gas.pseudocritical_point_Sutton, float("inf"), nh, "dry gas")
    neg = gas.make_nonhydrocarbon_properties(0.03, -0.012, 0.018)
    record("pc negative h2s", gas.pseudocritical_point_Sutton, 0.7, neg, "dry gas")
    neg2 = gas.make_nonhydrocarbon_properties(0.03, 0.012, -0.5)
    record("pc negative co2", gas.pseudocritical_point_Sutton, 0.7, neg2, "wet gas")

    # ------------------------------------------------------------------ DAK family
    states = [
        (400, 100, -102, 649),
        (400.0, 104.7, -102.0, 649.0),
        (200, 14.7, -102.218, 648.51),
        (200, 5000, -72.2, 653.26),
        (120, 12000, -80.0, 660.0),
        (60, 2000, -102, 649),
        (300, 1e-3, -102, 649),
        (300, 30000, -102, 649),
        (-50, 3000, -102, 649),
        (np.float64(250.0), np.float64(3500.0), np.float64(-95.0), np.float64(655.0)),
        (np.float32(250.0), np.float32(3500.0), -95.0, 655.0),
        (250, 3500, -95, 655),
        (np.array(250.0), np.array(3500.0), -95.0, 655.0),
        # error / degenerate inputs
        (400, 0, -102, 649),
        (400, 0.0, -102.0, 649.0),
        (400, -100, -102, 649),
        (400, 100, -102, 0),
        (400, 100, -102, 0.0),
        (400, 100, -459.67, 649),
        (-459.67, 100, -102, 649),
        (-600, 100, -102, 649),
        (400, 100, -102, -649),
        (400, float("nan"), -102, 649),
        (float("nan"), 100, -102, 649),
        (400, float("inf"), -102, 649),
        (float("inf"), 100, -102, 649),
        (400, 1e300, -102, 649),
        (1e6, 100, -102, 649),
        (-400, 20000, -102, 649),
        ("400", 100, -102, 649),
        (400, "100", -102, 649),
        (400, 100, None, 649),
        (400, 100, -102, None),
        (np.array([300.0, 400.0]), 100.0, -102.0, 649.0),
        (400.0, np.array([100.0, 2000.0]), -102.0, 649.0),
        (400.0, np.array([100.0]), -102.0, 649.0),
        (400.0, 100.0, -102.0, np.array([649.0, 650.0])),
        (400, 100 + 0j, -102, 649),
    ]
    for st in states:
        tag = repr(st)
        record(f"z {tag}", gas.z_factor_DAK, *st)
        record(f"cg {tag}", gas.compressibility_DAK, *st)
        record(f"bg {tag}", gas.b_factor_DAK, *st)
        record(f"bg std {tag}", gas.b_factor_DAK, *st, 70, 14.65)
        record(f"bg kwstd {tag}", gas.b_factor_DAK, *st, pressure_standard=15.025, temperature_standard=32.0)
        for sg in (0.65, 0.9, np.float64(0.7)):
            record(f"rho {tag} sg={sg!r}", gas.density_DAK, *st, sg)
            record(f"mu {tag} sg={sg!r}", gas.viscosity_Sutton, *st, sg)
    st = (400, 100, -102, 649)
    for name in ("z_factor_DAK", "compressibility_DAK", "b_factor_DAK"):
        f = getattr(gas, name)
        record(f"{name} kw", f, temperature=300.0, pressure=2500.0, temperature_pseudocritical=-90.0, pressure_pseudocritical=640.0)
        record(f"{name} kw-shuffled", f, pressure_pseudocritical=640.0, pressure=2500.0, temperature_pseudocritical=-90.0, temperature=300.0)
        record(f"{name} mixed", f, 300.0, 2500.0, pressure_pseudocritical=640.0, temperature_pseudocritical=-90.0)
        record(f"{name} missing", f, 300.0, 2500.0, -90.0)
        record(f"{name} none", f)
        record(f"{name} unknownkw", f, *st, gravity=0.7)
        record(f"{name} dupkw", lambda f=f: f(300.0, 2500.0, -90.0, 640.0, temperature=1.0))
    record("bg toomany", gas.b_factor_DAK, *st, 60, 14.7, 1)
    record("bg pstd zero", gas.b_factor_DAK, *st, 60, 0)
    record("bg tstd abszero", gas.b_factor_DAK, *st, -459.67, 14.7)
    record("bg tstd str", gas.b_factor_DAK, *st, "60", 14.7)
    record("bg pstd none", gas.b_factor_DAK, *st, 60, None)
    record("bg pstd array", gas.b_factor_DAK, *st, 60, np.array([14.7, 15.0]))
    record("bg pstd str + bad pressure", gas.b_factor_DAK, 400, -100, -102, 649, 60, "x")
    for name in ("density_DAK", "viscosity_Sutton"):
        f = getattr(gas, name)
        record(f"{name} kw", f, temperature=300.0, pressure=2500.0, temperature_pseudocritical=-90.0, pressure_pseudocritical=640.0, specific_gravity=0.75)
        record(f"{name} mixed", f, 300.0, 2500.0, -90.0, specific_gravity=0.75, pressure_pseudocritical=640.0)
        record(f"{name} missing sg", f, *st)
        record(f"{name} toomany", f, *st, 0.7, 1)
        record(f"{name} unknownkw", f, *st, 0.7, gravity=0.7)
        record(f"{name} sg zero", f, *st, 0)
        record(f"{name} sg zero float", f, *st, 0.0)
        record(f"{name} sg negative", f, *st, -0.7)
        record(f"{name} sg str", f, *st, "0.7")
        record(f"{name} sg none", f, *st, None)
        record(f"{name} sg nan", f, *st, float("nan"))
        record(f"{name} sg array", f, *st, np.array([0.6, 0.7]))
        record(f"{name} sg str + bad pressure", f, 400, -100, -102, 649, "0.7")
        record(f"{name} sg none + bad ppc", f, 400, 100, -102, 0, None)

    # ------------------------------------------------------------------ Hall-Yarbrough
    for p, t in [
        (0.5, 1.5), (2.0, 1.5), (5.0, 1.3), (10.0, 2.0), (1.0, 1.05), (15.0, 1.2), (0.01, 3.0),
        (np.float64(3.0), np.float64(1.7)), (3, 2), (np.array(3.0), 1.7), (np.array([3.0]), 1.7),
        (0.0, 1.5), (-1.0, 1.5), (3.0, 0), (3.0, 0.0), (3.0, -1.5), ("3", 1.5), (3.0, "1.5"), (None, 1.5),
        (float("nan"), 1.5), (3.0, float("nan")), (float("inf"), 1.5), (np.array([1.0, 3.0]), 1.5), (3.0, np.float64(0.0)),
    ]:
        record(f"hy p={p!r} t={t!r}", gas.z_factor_hallyarbrough, p, t)
    record("hy kw", gas.z_factor_hallyarbrough, temperature=1.6, pressure=4.0)
    record("hy missing", gas.z_factor_hallyarbrough, 4.0)
    record("hy unknownkw", gas.z_factor_hallyarbrough, 4.0, t=1.6)

    # ------------------------------------------------------------------ pseudopressure
    for st in [
        (400, 100, -102, 649, 0.65),
        (400, 14.7, -102, 649, 0.65),
        (400, 10.0, -102, 649, 0.65),
        (200, 5000, -72.2, 653.26, 0.8),
        (250.0, 12000.0, -95.0, 655.0, 0.7),
        (np.float64(250.0), np.float64(3000.0), -95.0, 655.0, np.float64(0.7)),
        (400, 0, -102, 649, 0.65),
        (400, -50, -102, 649, 0.65),
        (400, 100, -102, 0, 0.65),
        (400, 100, -102, 649, 0),
        (400, "100", -102, 649, 0.65),
        (400, 100, -102, 649, None),
        (400, float("nan"), -102, 649, 0.65),
        (400, np.array([100.0, 200.0]), -102, 649, 0.65),
    ]:
        record(f"m {st!r}", gas.pseudopressure_Hussainy, *st)
        record(f"m pstd {st!r}", gas.pseudopressure_Hussainy, *st, 50.0)
        record(f"m kwpstd {st!r}", gas.pseudopressure_Hussainy, *st, pressure_standard=0.5)
    record("m kw", gas.pseudopressure_Hussainy, temperature=300.0, pressure=2500.0, temperature_pseudocritical=-90.0, pressure_pseudocritical=640.0, specific_gravity=0.75)
    record("m missing", gas.pseudopressure_Hussainy, 400, 100, -102, 649)
    record("m toomany", gas.pseudopressure_Hussainy, 400, 100, -102, 649, 0.65, 14.7, 1)
    record("m unknownkw", gas.pseudopressure_Hussainy, 400, 100, -102, 649, 0.65, limit=50)
    record("m pstd zero", gas.pseudopressure_Hussainy, 400, 100, -102, 649, 0.65, 0.0)
    record("m pstd negative", gas.pseudopressure_Hussainy, 400, 100, -102, 649, 0.65, -5.0)
    record("m pstd str", gas.pseudopressure_Hussainy, 400, 100, -102, 649, 0.65, "14.7")

    # ------------------------------------------------------------------ users of gas.py
    record("build_pvt_gas dry", lambda: build_pvt_gas({"N2": 0.03, "H2S": 0.012, "CO2": 0.018, "Gas Specific Gravity": 0.65, "Reservoir Temperature (deg F)": 300.0}, "dry gas").to_numpy())
    try:
        import pandas as pd

        gp = pd.read_csv(os.path.join(BB_DATA, "pvt_gas.csv"))
        LINES.append(f"data pvt_gas {gp.shape}")
        for _, row in gp.iloc[1::25].iterrows():
            t, p = float(row["T"]), float(row["P"])
            record(f"data z {t!r} {p!r}", gas.z_factor_DAK, t, p, -102.218, 648.51)
            record(f"data bg {t!r} {p!r}", gas.b_factor_DAK, t, p, -102.218, 648.51)
            record(f"data rho {t!r} {p!r}", gas.density_DAK, t, p, -102.218, 648.51, 0.65)
            record(f"data cg {t!r} {p!r}", gas.compressibility_DAK, t, p, -102.218, 648.51)
            record(f"data mu {t!r} {p!r}", gas.viscosity_Sutton, t, p, -102.218, 648.51, 0.65)
    except Exception as exc:  # noqa: BLE001
        LINES.append(f"data pvt_gas unavailable {type(exc).__name__}")
    fl = Fluid(300.0, 35.0, 0.7, 0.03, 600.0)
    record("Fluid.gas_FVF", fl.gas_FVF, np.array([500.0, 2000.0, 6000.0]), -90.0, 650.0)
    record("Fluid.gas_viscosity", fl.gas_viscosity, np.array([500.0, 2000.0, 6000.0]), -90.0, 650.0)

    # ------------------------------------------------------------------ logging / warnings side effects
    class Collect(logging.Handler):
        def __init__(self):
            super().__init__()
            self.records = []

        def emit(self, rec):
            self.records.append(rec)

    h = Collect()
    root = logging.getLogger()
    root.addHandler(h)  # default level WARNING: library must stay silent
    gas.b_factor_DAK(400, 100, -102, 649)
    gas.density_DAK(400, 100, -102, 649, 0.65)
    root.removeHandler(h)
    LINES.append(f"root-logger records at default level: {len(h.records)}")

    # with DEBUG logging switched on for the library, results must not change either
    # (the number of debug records is an implementation detail and is not recorded)
    lib = logging.getLogger("bluebonnet")
    old_level, old_propagate = lib.level, lib.propagate
    h2 = Collect()
    lib.addHandler(h2)
    lib.setLevel(logging.DEBUG)
    lib.propagate = False
    try:
        record("debug bg", gas.b_factor_DAK, 400, 100, -102, 649)
        record("debug bg kw", gas.b_factor_DAK, 400, 100, -102, 649, pressure_standard=15.0)
        record("debug bg raises", gas.b_factor_DAK, 400, -100, -102, 649)
        record("debug bg missing", gas.b_factor_DAK, 400, 100)
        record("debug rho", gas.density_DAK, 400, 100, -102, 649, 0.65)
        record("debug rho raises", gas.density_DAK, 400, 100, -102, 0, 0.65)
        record("debug mu", gas.viscosity_Sutton, 400, 100, -102, 649, 0.65)
        record("debug m", gas.pseudopressure_Hussainy, 400, 100, -102, 649, 0.65)
        record("debug m raises", gas.pseudopressure_Hussainy, 400, -50, -102, 649, 0.65)
    finally:
        lib.removeHandler(h2)
        lib.setLevel(old_level)
        lib.propagate = old_propagate
    LINES.append(f"debug records are LogRecords: {all(isinstance(r, logging.LogRecord) for r in h2.records)}")

    with open(outfile, "w") as fh:
        fh.write("\n".join(LINES) + "\n")


if __name__ == "__main__":
    main(sys.argv[1])
