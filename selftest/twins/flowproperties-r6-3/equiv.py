"""Equivalence harness for bluebonnet.flow.flowproperties.

Usage: PYTHONPATH=<tree>/src /venv/bin/python equiv.py <outfile>

Calls every public function / class of the module on a broad set of inputs and
writes the full-precision results (or the exception type and a word-sorted
form of the message, because some messages join a *set* whose order depends on
hash randomisation) to <outfile>.
"""

from __future__ import annotations

import os
import re
import sys
import warnings

import numpy as np
import pandas as pd

from bluebonnet.flow import flowproperties as fp
from bluebonnet.flow.flowproperties import (
    FlowProperties,
    FlowPropertiesMultiPhase,
    FlowPropertiesSimple,
    FlowPropertiesTwoPhase,
    RelPermParams,
    alpha_multiphase,
    compressibility_combined_func,
    lambda_combined_func,
    pseudopressure_threephase,
    relative_permeabilities,
    relative_permeabilities_twophase,
    rescale_pseudopressure,
)

DATA = os.environ.get("BB_DATA", "/tmp/twin6_flowproperties/tests/data")
OUT: list[str] = []


def fmt(obj, depth=0) -> str:
    """Full-precision, type-revealing text form."""
    if depth > 6:
        return "<deep>"
    if isinstance(obj, pd.DataFrame):
        cols = list(obj.columns)
        parts = [
            f"DataFrame shape={obj.shape} columns={cols!r} coltype={type(obj.columns).__name__}"
            f"/{obj.columns.dtype} index={type(obj.index).__name__}:{list(obj.index[:3])!r}"
            f"..{len(obj.index)} attrs={obj.attrs!r}"
        ]
        for i, c in enumerate(cols):
            col = obj.iloc[:, i]
            parts.append(f"  [{c!r}] dtype={col.dtype} " + fmt(col.to_numpy(), depth + 1))
        return "\n".join(parts)
    if isinstance(obj, pd.Series):
        return (
            f"Series name={obj.name!r} dtype={obj.dtype} index={list(obj.index[:3])!r}"
            f"..{len(obj.index)} " + fmt(obj.to_numpy(), depth + 1)
        )
    if isinstance(obj, np.ndarray):
        head = f"{type(obj).__name__} dtype={obj.dtype} shape={obj.shape} "
        if obj.dtype.names:
            return head + "{" + "; ".join(
                f"{n}: " + fmt(np.asarray(obj[n]), depth + 1) for n in obj.dtype.names
            ) + "}"
        return head + "[" + ", ".join(fmt(v, depth + 1) for v in obj.ravel().tolist()) + "]"
    if isinstance(obj, (np.generic,)):
        return f"{type(obj).__name__}({obj.item()!r})"
    if isinstance(obj, (float, int, bool, str, type(None))):
        return f"{type(obj).__name__}({obj!r})"
    if isinstance(obj, dict):
        return "{" + ", ".join(f"{k!r}: {fmt(v, depth + 1)}" for k, v in obj.items()) + "}"
    if isinstance(obj, (list, tuple)):
        return type(obj).__name__ + "(" + ", ".join(fmt(v, depth + 1) for v in obj) + ")"
    return f"<{type(obj).__name__}>"


def norm_msg(msg: str) -> str:
    return " ".join(sorted(re.findall(r"[\w.'-]+", str(msg))))


def record(label, func, *args, **kwargs):
    """Run func, record result / exception and every warning raised."""
    with warnings.catch_warnings(record=True) as caught:
        warnings.simplefilter("always")
        try:
            with np.errstate(all="warn"):
                res = func(*args, **kwargs)
            text = fmt(res)
        except Exception as exc:  # noqa: BLE001
            res = None
            # the message is part of the library's behaviour only when the library
            # itself raises; messages of numpy / scipy / pandas internals are not
            # (QhullError even carries a random run id), there the type is recorded.
            tb = exc.__traceback__
            while tb.tb_next is not None:
                tb = tb.tb_next
            own = tb.tb_frame.f_code.co_filename.endswith("flowproperties.py") and isinstance(
                exc, ValueError
            ) and tb.tb_frame.f_code.co_name in (
                "__init__", "from_table", "relative_permeabilities", "relative_permeabilities_twophase"
            ) and "raise" in open(tb.tb_frame.f_code.co_filename).read().splitlines()[tb.tb_lineno - 1]
            text = f"RAISED {type(exc).__name__}" + (f": {norm_msg(exc)}" if own else "")
    warn = sorted({f"{w.category.__name__}:{norm_msg(w.message)}" for w in caught})
    OUT.append(f"## {label}\n{text}\nwarnings={warn}")
    return res


def call(func, *args, **kwargs):
    with warnings.catch_warnings():
        warnings.simplefilter("ignore")
        return func(*args, **kwargs)


# --------------------------------------------------------------------------
# fixtures
# --------------------------------------------------------------------------
def base_params(**kw):
    vals = dict(n_o=1, n_g=1, n_w=1, S_or=0, S_gc=0, S_wc=0.1, k_ro_max=1, k_rw_max=1, k_rg_max=1)
    vals.update(kw)
    return RelPermParams(**vals)


def sat_frame(Sw=0.1, n=50):
    return pd.DataFrame(
        {
            "So": np.linspace(0, 1 - Sw, n),
            "Sw": np.full(n, Sw),
            "Sg": np.linspace(1 - Sw, 0, n),
        }
    )


def load_tables():
    gas = pd.read_csv(os.path.join(DATA, "pvt_gas.csv")).rename(
        columns={
            "P": "pressure",
            "Z-Factor": "z-factor",
            "Cg": "compressibility",
            "Viscosity": "viscosity",
            "Density": "density",
        }
    )
    oil = pd.read_csv(os.path.join(DATA, "pvt_oil.csv")).rename(
        columns={
            "P": "pressure",
            "Z-Factor": "z-factor",
            "Co": "compressibility",
            "Oil_Viscosity": "viscosity",
            "Oil_Density": "density",
        }
    )
    pvt_oil = pd.read_csv(os.path.join(DATA, "pvt_oil.csv"))
    pvt_water = pd.read_csv(os.path.join(DATA, "pvt_water.csv")).rename(
        columns={"T": "temperature", "P": "pressure", "Viscosity": "mu_w"}
    )
    rename_cols = {
        "T": "temperature",
        "P": "pressure",
        "Oil_Viscosity": "mu_o",
        "Gas_Viscosity": "mu_g",
        "Rso": "Rs",
    }
    multi = (
        pvt_water.drop(columns=["temperature"])
        .merge(pvt_oil.rename(columns=rename_cols), on="pressure")
        .assign(Rv=0)
    )
    multi["So"] = (1 - 0.1) / (
        (multi["Rs"].max() - multi["Rs"]) * multi["Bg"] / multi["Bo"] / 5.61458 + 1
    )
    return gas, oil, multi


GAS, OIL, MULTI = load_tables()
RNG = np.random.default_rng(20240607)


# --------------------------------------------------------------------------
# A. relative_permeabilities
# --------------------------------------------------------------------------
def section_relperm():
    p0 = base_params()
    recs = sat_frame().to_records(index=False)
    record("relperm/default", relative_permeabilities, recs, p0)
    record(
        "relperm/corey-exponents",
        relative_permeabilities,
        recs,
        base_params(n_o=2.5, n_g=3, n_w=1.75, S_or=0.15, S_gc=0.05, S_wc=0.12,
                    k_ro_max=0.8, k_rw_max=0.3, k_rg_max=0.95),
    )
    record(
        "relperm/np-scalars",
        relative_permeabilities,
        recs,
        base_params(n_o=np.float64(2), n_g=np.int64(3), S_or=np.float64(0.2),
                    k_ro_max=np.float64(0.5)),
    )
    # random three-phase saturations (below and above residuals)
    raw = RNG.random((40, 3))
    raw /= raw.sum(axis=1)[:, None]
    rand = np.zeros(40, dtype=[("So", "f8"), ("Sg", "f8"), ("Sw", "f8")])
    rand["So"], rand["Sg"], rand["Sw"] = raw[:, 0], raw[:, 1], raw[:, 2]
    pr3 = base_params(n_o=2, n_g=1.5, n_w=4, S_or=0.3, S_gc=0.2, S_wc=0.25,
                      k_ro_max=0.7, k_rw_max=0.4, k_rg_max=0.9)
    record("relperm/random3", relative_permeabilities, rand, pr3)
    record("relperm/random3-recarray", relative_permeabilities, rand.view(np.recarray), pr3)
    record("relperm/random3-noncontig", relative_permeabilities, rand[::3], pr3)
    # sum slightly off but within tolerance, negative saturations, > 1
    odd = np.array(
        [(-0.2, 0.7, 0.5), (1.2, -0.1, -0.1), (0.3334, 0.3333, 0.3336), (0.0, 0.0, 1.0),
         (1.0, 0.0, 0.0), (0.0, 1.0, 0.0), (-0.0, 0.5, 0.5), (0.5, 0.5005, 0.0)],
        dtype=[("So", "f8"), ("Sw", "f8"), ("Sg", "f8")],
    )
    record("relperm/odd", relative_permeabilities, odd, pr3)
    record("relperm/odd-linear", relative_permeabilities, odd, p0)
    # NaN rows
    nan = odd.copy()
    nan["So"][0] = np.nan
    nan["Sg"][2] = np.nan
    record("relperm/nan", relative_permeabilities, nan, pr3)
    inf = odd.copy()
    inf["So"][1] = np.inf
    inf["Sg"][1] = -np.inf
    record("relperm/inf", relative_permeabilities, inf, pr3)
    # denominators: zero and negative
    record("relperm/den-zero", relative_permeabilities, odd,
           base_params(S_or=0.5, S_wc=0.25, S_gc=0.25))
    record("relperm/den-negative", relative_permeabilities, odd,
           base_params(S_or=0.5, S_wc=0.5, S_gc=0.5))
    # float32 / integer / mixed / extra field / different order
    f32 = odd.astype([("So", "f4"), ("Sw", "f4"), ("Sg", "f4")])
    record("relperm/float32", relative_permeabilities, f32, pr3)
    mixed = np.array([(1, 0.0, 0), (0, 1.0, 0), (0, 0.0, 1)],
                     dtype=[("So", "i8"), ("Sw", "f8"), ("Sg", "i4")])
    record("relperm/mixed-int", relative_permeabilities, mixed, pr3)
    record("relperm/mixed-int-linear", relative_permeabilities, mixed, p0)
    extra = np.array([(0.5, 0.25, 0.25, 0.0), (0.2, 0.2, 0.2, 0.4)],
                     dtype=[("So", "f8"), ("Sw", "f8"), ("Sg", "f8"), ("Sx", "f8")])
    record("relperm/extra-field", relative_permeabilities, extra, pr3)
    sub = np.zeros(3, dtype=[("So", "f8", (2,)), ("Sw", "f8", (2,)), ("Sg", "f8", (2,))])
    sub["So"] = 1.0
    record("relperm/subarray-fields", relative_permeabilities, sub, pr3)
    objf = np.array([(0.5, 0.25, 0.25), (-0.1, 0.6, 0.5)], dtype=[("So", "O"), ("Sw", "O"), ("Sg", "O")])
    record("relperm/object-fields", relative_permeabilities, objf, pr3)
    record("relperm/object-fields-linear", relative_permeabilities, objf, p0)
    big = np.zeros(3, dtype=[("So", "f8"), ("Sw", "f8"), ("Sg", "f8")])
    big["So"] = [1e308, 0.5, 1.0]
    big["Sw"] = [-1e308, 0.5, 1e-320]
    big["Sg"] = [1.0, 0.0, 0.0]
    record("relperm/huge", relative_permeabilities, big, pr3)
    # sizes
    record("relperm/empty", relative_permeabilities, odd[:0], pr3)
    record("relperm/one", relative_permeabilities, odd[2:3], pr3)
    # inputs that raise
    record("relperm/2d-structured", relative_permeabilities, odd.reshape(2, 4), pr3)
    record("relperm/0d-structured", relative_permeabilities, odd[2], pr3)
    record("relperm/plain-2d", relative_permeabilities, raw, pr3)
    record("relperm/dataframe", relative_permeabilities, sat_frame(), pr3)
    record("relperm/dict", relative_permeabilities, {"So": [1.0], "Sw": [0.0], "Sg": [0.0]}, pr3)
    record("relperm/list-of-tuples", relative_permeabilities, [(0.5, 0.25, 0.25)], pr3)
    record("relperm/none", relative_permeabilities, None, pr3)
    record("relperm/missing-field", relative_permeabilities,
           np.array([(0.5, 0.5)], dtype=[("So", "f8"), ("Sw", "f8")]), pr3)
    record("relperm/sum-wrong", relative_permeabilities,
           (sat_frame() + 1).to_records(index=False), p0)
    record("relperm/sum-wrong-last", relative_permeabilities,
           np.array([(0.5, 0.25, 0.25), (0.5, 0.5, 0.5)],
                    dtype=[("So", "f8"), ("Sw", "f8"), ("Sg", "f8")]), p0)
    for name, kw in [
        ("n_o=8", dict(n_o=8)), ("n_g=6.5", dict(n_g=6.5)), ("n_w=0", dict(n_w=0)),
        ("n_o=6", dict(n_o=6)), ("n_g=.99", dict(n_g=0.99)),
        ("S_gc=-1", dict(S_gc=-1)), ("S_or=1.1", dict(S_or=1.1)), ("S_or=1", dict(S_or=1)),
        ("k_ro_max=1.1", dict(k_ro_max=1.1)), ("k_rw_max=-.1", dict(k_rw_max=-0.1)),
        ("k_rg_max=0", dict(k_rg_max=0)), ("n_o=nan", dict(n_o=float("nan"))),
        ("S_wc=nan", dict(S_wc=float("nan"))), ("k=nan", dict(k_rg_max=float("nan"))),
        ("n_o=str", dict(n_o="2")), ("S_or=None", dict(S_or=None)),
    ]:
        record(f"relperm/params {name}", relative_permeabilities, recs, base_params(**kw))
    record("relperm/params-plain-tuple", relative_permeabilities, recs, (1, 1, 1, 0, 0, 0, 1, 1, 1))
    # result is independent storage: mutate and re-run
    res = call(relative_permeabilities, recs, p0)
    res["kro"][:] = -5
    record("relperm/after-mutation", relative_permeabilities, recs, p0)
    record("relperm/input-unchanged", lambda: recs)


# --------------------------------------------------------------------------
# B. relative_permeabilities_twophase
# --------------------------------------------------------------------------
def section_twophase():
    p0 = base_params()
    record("twophase/default", relative_permeabilities_twophase, p0)
    for sw in [0.1, 0.0, 0, 0.05, np.float64(0.07), np.float32(0.05), -0.0, 1e-9, True, False,
               np.array(0.05), np.array([0.05]), np.int64(0)]:
        record(f"twophase/Sw={sw!r}", relative_permeabilities_twophase, p0, sw)
    record("twophase/kw", relative_permeabilities_twophase, params=p0, Sw=0.03)
    pr3 = base_params(n_o=2, n_g=1.5, n_w=4, S_or=0.3, S_gc=0.2, S_wc=0.25,
                      k_ro_max=0.7, k_rw_max=0.4, k_rg_max=0.9)
    for sw in [0.1, 0.25, 0.2, 0.0]:
        record(f"twophase/pr3 Sw={sw!r}", relative_permeabilities_twophase, pr3, sw)
    # raising inputs
    for sw in [0.8, 0.1000001, 1.5, -0.5, float("nan"), float("inf"), None, "0.1",
               np.array([0.05, 0.06]), [0.05]]:
        record(f"twophase/bad Sw={sw!r}", relative_permeabilities_twophase, p0, sw)
    record("twophase/bad-params n_o", relative_permeabilities_twophase, base_params(n_o=7), 0.1)
    record("twophase/bad-params S", relative_permeabilities_twophase, base_params(S_gc=2), 0.1)
    record("twophase/params None", relative_permeabilities_twophase, None, 0.1)
    # returned frame is independent and writable
    def mutate():
        df = relative_permeabilities_twophase(p0, 0.05)
        df.loc[0, "So"] = 9.0
        df["kro"] = df["kro"] * 2
        df.iloc[1, 1] = 7.0
        df2 = relative_permeabilities_twophase(p0, 0.05)
        return [df, df2, df.index.equals(df2.index), list(df.dtypes.astype(str)),
                df2.to_records(index=False), df2.sum().to_numpy(), df2.T.shape,
                df2[["Sg", "krg"]].to_numpy(), df2.loc[49].to_numpy()]
    record("twophase/mutate", mutate)


# --------------------------------------------------------------------------
# C. rescale_pseudopressure
# --------------------------------------------------------------------------
def rescale_slim(table, p_frac, p_i):
    """rescale_pseudopressure, reported compactly (all columns via checksums)."""
    res = rescale_pseudopressure(table, p_frac, p_i)
    if isinstance(res, pd.DataFrame):
        return {
            "type": type(res).__name__,
            "columns": [f"{c}:{res[c].dtype}" for c in res.columns],
            "index": res.index.to_numpy()[:6],
            "pseudopressure": res["pseudopressure"],
            "checksum": res.to_numpy(dtype=float).sum(axis=0),
            "same-object": res is table,
        }
    return res


def section_rescale():
    for p_frac, p_i in [(1000, 8000.0), (1000, 6000), (0, 13990), (500.5, 7321.25),
                        (6000, 1000), (10, 20), (np.float64(1000), np.float64(5000))]:
        record(f"rescale/{p_frac!r},{p_i!r}", rescale_slim, MULTI, p_frac, p_i)
    record("rescale/equal", rescale_slim, MULTI, 1000, 1000)
    record("rescale/gas", rescale_slim, GAS, 1000.0, 9000.0)
    shuffled = MULTI.sample(frac=1.0, random_state=3)
    record("rescale/shuffled-index", rescale_slim, shuffled, 1000, 8000)
    odd_index = MULTI.set_index(MULTI["pressure"] * 2 + 1)
    odd_index.index.name = None
    record("rescale/odd-index", rescale_slim, odd_index, 1000, 8000)
    rec = MULTI[["pressure", "pseudopressure", "Bo"]].to_records(index=False)
    record("rescale/recarray", rescale_pseudopressure, rec, 1000, 8000)
    record("rescale/array-p_frac", rescale_slim, MULTI, np.array([1000.0]), 8000)
    record("rescale/array-p_i", rescale_slim, MULTI.iloc[:3], 0.0, np.array([5.0, 10.0, 20.0]))
    # input untouched
    before = MULTI.copy()
    call(rescale_pseudopressure, MULTI, 1000, 8000)
    record("rescale/input-untouched", lambda: bool(before.equals(MULTI)))
    # raising
    for p_frac, p_i in [(-5, 8000), (1000, 1e9), (float("nan"), 8000), (None, 8000), ("a", 8000)]:
        record(f"rescale/bad {p_frac!r},{p_i!r}", rescale_slim, MULTI, p_frac, p_i)
    # two things wrong at once: which error wins is part of the behaviour
    record("rescale/bad-both-1", rescale_slim, MULTI, np.arange(3.0) + 10, None)
    record("rescale/bad-both-2", rescale_slim, MULTI, -5, None)
    record("rescale/bad-both-3", rescale_slim, MULTI, None, -5)
    record("rescale/bad-both-4", rescale_slim, MULTI, np.arange(3.0) + 10, 1e9)
    record("rescale/bad-both-5", rescale_slim, MULTI.drop(columns="pseudopressure"), None, None)
    record("rescale/dict", rescale_pseudopressure,
           {"pressure": np.arange(5.0), "pseudopressure": np.arange(5.0) ** 2}, 1, 3)
    record("rescale/no-pp", rescale_pseudopressure, MULTI.drop(columns="pseudopressure"), 1000, 8000)
    record("rescale/one-row", rescale_pseudopressure, MULTI.iloc[:1], 0, 0)
    record("rescale/none", rescale_pseudopressure, None, 1, 2)
    record("rescale/nan-table", rescale_slim,
           MULTI.assign(pseudopressure=MULTI["pseudopressure"].where(MULTI.index != 5)), 1000, 8000)


# --------------------------------------------------------------------------
# D. FlowProperties classes
# --------------------------------------------------------------------------
def probe(obj):
    """Observable state of a FlowProperties-like object."""
    out = {}
    out["m_i"] = obj.m_i
    pv = obj.pvt_props
    if isinstance(pv, pd.DataFrame):
        out["pvt_columns"] = [f"{c}:{pv[c].dtype}" for c in pv.columns]
        out["pvt_index"] = pv.index.to_numpy()[:5]
        keep = [c for c in ("pressure", "pseudopressure", "alpha", "m-scaled") if c in pv.columns]
        out["pvt_props"] = pv[keep]
        out["pvt_checksum"] = pv.to_numpy(dtype=float).sum(axis=0)
        lo, hi = float(pv["pressure"].min()), float(pv["pressure"].max())
    else:
        out["pvt_props"] = {k: (np.asarray(v) if not isinstance(v, pd.Series) else v) for k, v in pv.items()}
        lo, hi = float(np.min(pv["pressure"])), float(np.max(pv["pressure"]))
    ps = np.linspace(lo, hi, 23)
    out["m_scaled_func"] = obj.m_scaled_func(ps)
    out["m_scaled_scalar"] = obj.m_scaled_func(0.5 * (lo + hi))
    ms = np.linspace(-0.5, 2.0, 41)
    out["alpha"] = obj.alpha(ms)
    out["alpha_scalar"] = obj.alpha(0.3)
    out["alpha_fill"] = obj.alpha.fill_value
    out["repr_equal"] = repr(obj) == repr(pv)
    for name in ("pvt", "kr"):
        if hasattr(obj, name):
            d = getattr(obj, name)
            out[name + "_keys"] = sorted(d)
            vals = {}
            for k in sorted(d):
                v = d[k]
                if callable(v):
                    xs = ps if name == "pvt" else np.linspace(0.0, 0.9, 7)
                    try:
                        vals[k] = v(xs)
                    except Exception as exc:  # noqa: BLE001
                        vals[k] = f"RAISED {type(exc).__name__}"
                else:
                    vals[k] = v
            out[name] = vals
    return out


def section_classes():
    for cls in (FlowProperties, FlowPropertiesSimple, fp.FlowPropertiesOnePhase):
        for tname, table in [("gas", GAS), ("oil", OIL)]:
            for p_i in [8000.0, 5000, 13990.0, 0.0, 12.5, np.float64(3333.3)]:
                record(f"{cls.__name__}/{tname}/p_i={p_i!r}",
                       lambda c=cls, t=table, p=p_i: probe(c(t, p)))
            # minimal tables
            long_cols = ["pseudopressure", "compressibility", "pressure", "viscosity", "z-factor"]
            record(f"{cls.__name__}/{tname}/long-only",
                   lambda c=cls, t=table: probe(c(t[long_cols], 6000.0)))
            record(f"{cls.__name__}/{tname}/simple-only",
                   lambda c=cls, t=table: probe(c(t[["compressibility", "pressure", "viscosity"]], 6000.0)))
            # with user alpha
            with_alpha = table.assign(alpha=1.0 / (table["viscosity"] * table["density"]))
            record(f"{cls.__name__}/{tname}/alpha", lambda c=cls, t=with_alpha: probe(c(t, 7000.0)))
            record(f"{cls.__name__}/{tname}/alpha-short",
                   lambda c=cls, t=with_alpha: probe(c(t[["pressure", "pseudopressure", "alpha"]].iloc[1:], 7000.0)))
            # dict of arrays
            as_dict = {k: table[k].to_numpy() for k in long_cols}
            record(f"{cls.__name__}/{tname}/dict", lambda c=cls, t=as_dict: probe(c(t, 6000.0)))
            record(f"{cls.__name__}/{tname}/dict-untouched", lambda t=as_dict: sorted(t))
            as_dict_a = {k: with_alpha[k].to_numpy()[1:] for k in ["pressure", "pseudopressure", "alpha"]}
            record(f"{cls.__name__}/{tname}/dict-alpha", lambda c=cls, t=as_dict_a: probe(c(t, 6000.0)))
            # shuffled rows
            record(f"{cls.__name__}/{tname}/shuffled",
                   lambda c=cls, t=table: probe(c(t.sample(frac=1.0, random_state=1), 6000.0)))
            # raising inputs
            for drop in ["pressure", "pseudopressure", "compressibility", "viscosity", "z-factor"]:
                record(f"{cls.__name__}/{tname}/drop-{drop}",
                       lambda c=cls, t=table, d=drop: probe(c(t.drop(columns=d), 6000.0)))
                record(f"{cls.__name__}/{tname}/alpha-drop-{drop}",
                       lambda c=cls, t=with_alpha, d=drop: probe(c(t.drop(columns=d).iloc[1:], 6000.0)))
            for p_i in [-1.0, 1e9, float("nan"), None, "x", np.array([1000.0, 2000.0])]:
                record(f"{cls.__name__}/{tname}/bad p_i={p_i!r}",
                       lambda c=cls, t=table, p=p_i: probe(c(t, p)))
            record(f"{cls.__name__}/{tname}/input-columns", lambda t=table: list(t.columns))
        record(f"{cls.__name__}/empty-dict", lambda c=cls: c({}, 1.0))
        record(f"{cls.__name__}/none", lambda c=cls: c(None, 1.0))
        record(f"{cls.__name__}/list", lambda c=cls: c(["pressure", "pseudopressure", "alpha"], 1.0))
        record(f"{cls.__name__}/series", lambda c=cls: c(pd.Series({"pressure": 1.0, "pseudopressure": 2.0, "alpha": 3.0}), 1.0))
        record(f"{cls.__name__}/unhashable", lambda c=cls: c([["pressure"]], 1.0))
        record(f"{cls.__name__}/int", lambda c=cls: c(5, 1.0))


def twophase_inputs():
    df_pvt = call(rescale_pseudopressure, MULTI, 1000, 8000.0)
    df_kr = call(relative_permeabilities_twophase, base_params())
    dens = {"rho_o0": 141.5 / (45 + 131.5), "rho_g0": 1.03e-3, "rho_w0": 1}
    return df_pvt, df_kr, dens


def section_from_table():
    df_pvt, df_kr, dens = twophase_inputs()
    for phi, Sw, p_i in [(0.1, 0.1, 8000.0), (0.25, 0.0, 5000), (0.05, 0.1, 13000.0), (1.0, 0.05, 20.0)]:
        record(f"from_table/{phi},{Sw},{p_i}",
               lambda a=phi, b=Sw, c=p_i: probe(FlowPropertiesTwoPhase.from_table(df_pvt, df_kr, dens, a, b, c)))
    kr2 = call(relative_permeabilities_twophase,
               base_params(n_o=2, n_g=1.5, n_w=4, S_or=0.1, S_gc=0.05, S_wc=0.1,
                           k_ro_max=0.7, k_rw_max=0.4, k_rg_max=0.9), 0.1)
    record("from_table/kr2", lambda: probe(FlowPropertiesTwoPhase.from_table(df_pvt, kr2, dens, 0.1, 0.1, 8000.0)))
    # dict inputs
    d_pvt = {c: df_pvt[c].to_numpy() for c in df_pvt.columns}
    d_kr = {c: df_kr[c].to_numpy() for c in df_kr.columns}
    record("from_table/dicts", lambda: probe(FlowPropertiesTwoPhase.from_table(d_pvt, d_kr, dens, 0.1, 0.1, 8000.0)))
    record("from_table/extra-dens",
           lambda: probe(FlowPropertiesTwoPhase.from_table(df_pvt, df_kr, dict(dens, extra=3.0), 0.1, 0.1, 8000.0)))
    # raising
    for col in ["pseudopressure", "pressure", "Bo", "Bg", "Bw", "Rs", "Rv", "mu_o", "mu_g", "mu_w", "So"]:
        record(f"from_table/drop-pvt-{col}",
               lambda c=col: FlowPropertiesTwoPhase.from_table(df_pvt.drop(columns=c), df_kr, dens, 0.1, 0.1, 8000.0))
    for col in ["So", "Sg", "Sw", "kro", "krg", "krw"]:
        record(f"from_table/drop-kr-{col}",
               lambda c=col: FlowPropertiesTwoPhase.from_table(df_pvt, df_kr.drop(columns=c), dens, 0.1, 0.1, 8000.0))
    record("from_table/both-missing",
           lambda: FlowPropertiesTwoPhase.from_table(df_pvt.drop(columns="Bo"), df_kr.drop(columns="So"), dens, 0.1, 0.1, 8000.0))
    record("from_table/no-dens", lambda: FlowPropertiesTwoPhase.from_table(df_pvt, df_kr, {}, 0.1, 0.1, 8000.0))
    record("from_table/dens-none", lambda: FlowPropertiesTwoPhase.from_table(df_pvt, df_kr, None, 0.1, 0.1, 8000.0))
    record("from_table/p_i-out", lambda: FlowPropertiesTwoPhase.from_table(df_pvt, df_kr, dens, 0.1, 0.1, 1e9))
    record("from_table/pvt-none", lambda: FlowPropertiesTwoPhase.from_table(None, df_kr, dens, 0.1, 0.1, 8000.0))
    record("from_table/kr-none", lambda: FlowPropertiesTwoPhase.from_table(df_pvt, None, dens, 0.1, 0.1, 8000.0))
    record("from_table/kr-unhashable", lambda: FlowPropertiesTwoPhase.from_table(df_pvt, [["So"]], dens, 0.1, 0.1, 8000.0))
    # So outside the kr table
    record("from_table/So-out",
           lambda: FlowPropertiesTwoPhase.from_table(df_pvt.assign(So=df_pvt["So"] + 0.5), df_kr, dens, 0.1, 0.1, 8000.0))
    record("from_table/warn-state", lambda: probe(FlowPropertiesTwoPhase.from_table(df_pvt, df_kr, dens, 0.1, 0.1, 8000.0))["m_i"])


def section_multiphase_class():
    df = pd.DataFrame({"pseudopressure": [0.0, 0.5, 1.0, 0.2], "alpha": [1.0, 2.0, 3.0, 4.0],
                       "So": [0.1, 0.2, 0.3, 0.5], "Sg": [0.8, 0.7, 0.6, 0.1], "Sw": [0.1, 0.1, 0.1, 0.4]})
    record("multiphase/df", lambda: FlowPropertiesMultiPhase(df))
    for col in df.columns:
        record(f"multiphase/drop-{col}", lambda c=col: FlowPropertiesMultiPhase(df.drop(columns=c)))
    record("multiphase/dict", lambda: FlowPropertiesMultiPhase({c: df[c].to_numpy() for c in df}))
    record("multiphase/none", lambda: FlowPropertiesMultiPhase(None))

    class Tab(dict):
        @property
        def columns(self):
            return list(self)

    tab = Tab({("pseudopressure", "So", "Sg", "Sw"): df[["pseudopressure", "So", "Sg", "Sw"]].to_numpy(),
               "alpha": df["alpha"].to_numpy(), "pseudopressure": 0, "So": 0, "Sg": 0, "Sw": 0})
    record("multiphase/custom-table-degenerate", lambda: FlowPropertiesMultiPhase(tab))
    pts = np.random.default_rng(5).random((12, 4))
    tab2 = Tab({("pseudopressure", "So", "Sg", "Sw"): pts, "alpha": pts.sum(axis=1) ** 2,
                "pseudopressure": 0, "So": 0, "Sg": 0, "Sw": 0})
    def build():
        obj = FlowPropertiesMultiPhase(tab2)
        return [obj.alpha(pts.mean(axis=0)[None, :]), obj.alpha(pts[:3] * 0.9 + 0.05), obj.df is tab2]
    record("multiphase/custom-table", build)


# --------------------------------------------------------------------------
# E. mobility / compressibility / pseudopressure helpers
# --------------------------------------------------------------------------
def section_helpers():
    df_pvt, df_kr, dens = twophase_inputs()
    obj = call(FlowPropertiesTwoPhase.from_table, df_pvt, df_kr, dens, 0.1, 0.1, 8000.0)
    pvt, kr = obj.pvt, obj.kr
    p_arr = df_pvt["pressure"].to_numpy()
    so_arr = df_pvt["So"].to_numpy()
    mid = np.linspace(15.0, 13000.0, 37)
    so_mid = np.linspace(0.02, 0.88, 37)
    cases = {
        "table": (p_arr, so_arr),
        "table-series": (df_pvt["pressure"], df_pvt["So"]),
        "series-shuffled": (df_pvt["pressure"].sample(frac=1.0, random_state=2),
                            df_pvt["So"].sample(frac=1.0, random_state=2)),
        "mid": (mid, so_mid),
        "descending": (mid[::-1], so_mid[::-1]),
        "scalar": (4321.5, 0.45),
        "np-scalar": (np.float64(4321.5), np.float64(0.45)),
        "0d": (np.array(4321.5), np.array(0.45)),
        "len1": (np.array([4321.5]), np.array([0.45])),
        "len2": (np.array([4321.5, 5000.0]), np.array([0.45, 0.5])),
        "list": (list(mid[:5]), list(so_mid[:5])),
        "broadcast": (mid[:4], 0.3),
        "2d": (mid[:6].reshape(2, 3), so_mid[:6].reshape(2, 3)),
        "extrapolate": (np.array([-50.0, 0.0, 0.25, 20000.0]), np.array([0.0, 0.1, 0.2, 0.9])),
        "repeated": (np.array([100.0, 100.0, 200.0, 200.0, 50.0]), np.array([0.3, 0.3, 0.4, 0.2, 0.1])),
        "nan": (np.array([100.0, np.nan, 300.0]), np.array([0.3, 0.3, np.nan])),
        "int": (np.array([100, 200, 3000]), np.array([0, 0, 0])),
        "So-out": (mid[:3], np.array([0.1, 0.95, 0.2])),
        "So-neg": (mid[:3], np.array([0.1, -0.01, 0.2])),
        "mismatch": (mid[:3], so_mid[:4]),
        "empty": (np.array([]), np.array([])),
        "none": (None, None),
        "str": ("a", 0.3),
    }
    for name, (p, so) in cases.items():
        record(f"lambda/{name}", lambda_combined_func, p, so, pvt, kr)
        record(f"pseudo3/{name}", pseudopressure_threephase, p, so, pvt, kr)
        for phi, sw in [(0.1, 0.1), (0.3, 0.0), (1, 0.25)]:
            record(f"cp/{name}/{phi},{sw}", compressibility_combined_func, p, so, phi, sw, pvt)
            record(f"alpha_mp/{name}/{phi},{sw}", alpha_multiphase, p, so, phi, sw, pvt, kr)
    # array-valued Sw / phi
    record("cp/Sw-array", compressibility_combined_func, mid, so_mid, 0.1, np.linspace(0.0, 0.1, 37), pvt)
    record("cp/phi-array", compressibility_combined_func, mid, so_mid, np.linspace(0.05, 0.3, 37), 0.1, pvt)
    record("alpha_mp/Sw-array", alpha_multiphase, mid, so_mid, 0.1, np.linspace(0.0, 0.1, 37), pvt, kr)
    record("cp/Sw-series", compressibility_combined_func, df_pvt["pressure"], df_pvt["So"], 0.1,
           pd.Series(np.full(len(df_pvt), 0.1)), pvt)
    # user-supplied pure callables
    upvt = {
        "rho_o0": 0.8, "rho_g0": 1e-3, "rho_w0": 1.0,
        "Rv": lambda p: 1e-5 * np.asarray(p, dtype=float),
        "Rs": lambda p: 0.2 * np.asarray(p, dtype=float) ** 0.9,
        "Bo": lambda p: 1.0 + 1e-4 * np.asarray(p, dtype=float),
        "Bg": lambda p: 5.0 / (np.asarray(p, dtype=float) + 14.7),
        "Bw": lambda p: 1.02 - 3e-6 * np.asarray(p, dtype=float),
        "mu_o": lambda p: 1.2 - 5e-5 * np.asarray(p, dtype=float),
        "mu_g": lambda p: 0.012 + 1e-6 * np.asarray(p, dtype=float),
        "mu_w": lambda p: 0.4 + 0.0 * np.asarray(p, dtype=float),
    }
    ukr = {
        "kro": lambda s: np.asarray(s, dtype=float) ** 2,
        "krg": lambda s: (0.9 - np.asarray(s, dtype=float)) ** 1.5,
        "krw": lambda s: 0.0 * np.asarray(s, dtype=float),
    }
    for name in ["mid", "scalar", "descending", "2d", "repeated", "len1", "empty", "int"]:
        p, so = cases[name]
        record(f"user/lambda/{name}", lambda_combined_func, p, so, upvt, ukr)
        record(f"user/pseudo3/{name}", pseudopressure_threephase, p, so, upvt, ukr)
        record(f"user/cp/{name}", compressibility_combined_func, p, so, 0.2, 0.1, upvt)
        record(f"user/alpha_mp/{name}", alpha_multiphase, p, so, 0.2, 0.1, upvt, ukr)
    # missing keys
    for key in ["rho_o0", "rho_g0", "rho_w0", "Rv", "Rs", "Bo", "Bg", "Bw", "mu_o", "mu_g", "mu_w"]:
        less = {k: v for k, v in upvt.items() if k != key}
        record(f"user/lambda/missing-{key}", lambda_combined_func, mid, so_mid, less, ukr)
        record(f"user/pseudo3/missing-{key}", pseudopressure_threephase, mid, so_mid, less, ukr)
        record(f"user/cp/missing-{key}", compressibility_combined_func, mid, so_mid, 0.2, 0.1, less)
        for bad_p in (None, "a"):
            record(f"user/lambda/missing-{key}-bad-p", lambda_combined_func, bad_p, so_mid, less, ukr)
            record(f"user/pseudo3/missing-{key}-bad-p", pseudopressure_threephase, bad_p, so_mid, less, ukr)
            record(f"user/cp/missing-{key}-bad-p", compressibility_combined_func, bad_p, so_mid, 0.2, 0.1, less)
            record(f"user/cp/missing-{key}-bad-So", compressibility_combined_func, mid, bad_p, 0.2, 0.1, less)
    for key in ["kro", "krg", "krw"]:
        less = {k: v for k, v in ukr.items() if k != key}
        record(f"user/lambda/missing-{key}", lambda_combined_func, mid, so_mid, upvt, less)
        record(f"user/pseudo3/missing-{key}", pseudopressure_threephase, mid, so_mid, upvt, less)
    # order in which the user callables are invoked is observable to the callables
    trace: list[str] = []

    def traced(d):
        def wrap(k, f):
            def g(x):
                trace.append(k)
                return f(x)
            return g
        return {k: (wrap(k, v) if callable(v) else v) for k, v in d.items()}

    tpvt, tkr = traced(upvt), traced(ukr)
    for fname, f, args in [
        ("lambda", lambda_combined_func, (mid, so_mid, tpvt, tkr)),
        ("pseudo3", pseudopressure_threephase, (mid, so_mid, tpvt, tkr)),
        ("cp", compressibility_combined_func, (mid, so_mid, 0.2, 0.1, tpvt)),
        ("alpha_mp", alpha_multiphase, (mid, so_mid, 0.2, 0.1, tpvt, tkr)),
    ]:
        trace.clear()
        call(f, *args)
        OUT.append(f"## trace/{fname}\n{' '.join(trace)}")


def main(outfile):
    section_relperm()
    section_twophase()
    section_rescale()
    section_classes()
    section_from_table()
    section_multiphase_class()
    section_helpers()
    with open(outfile, "w") as fh:
        fh.write("\n".join(OUT) + "\n")


if __name__ == "__main__":
    main(sys.argv[1])
