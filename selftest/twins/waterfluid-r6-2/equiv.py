"""Equivalence driver for twin2 (build_pvt_gas pseudopressure on bare column values)."""
import os
import sys
import warnings

import numpy as np
import pandas as pd

warnings.simplefilter("ignore")

from bluebonnet.fluids import build_pvt_gas
from bluebonnet.fluids.fluid import build_pvt_gas as build2

DATA = os.environ.get("BB_DATA", "/tmp/twin6_waterfluid/tests/data")


def show(x):
    if isinstance(x, pd.DataFrame):
        parts = [f"DataFrame{x.shape} index={x.index!r}"]
        for c in x.columns:
            parts.append(f"  {c!r} {x[c].dtype} " + ",".join(repr(v) for v in x[c].tolist()))
        return "\n".join(parts)
    if isinstance(x, np.ndarray):
        return f"ndarray{x.shape}{x.dtype}[" + ",".join(repr(v) for v in x.ravel().tolist()) + "]"
    return type(x).__name__ + ":" + repr(x)


def call(f, *a, **k):
    try:
        return show(f(*a, **k))
    except BaseException as e:  # noqa: BLE001
        return "EXC:" + type(e).__name__


base = {"N2": 0.0, "H2S": 0.0, "CO2": 0.0, "Gas Specific Gravity": 0.65,
        "Reservoir Temperature (deg F)": 200.0}


def gv(**kw):
    d = dict(base)
    for k, v in kw.items():
        d[{"sg": "Gas Specific Gravity", "T": "Reservoir Temperature (deg F)"}.get(k, k)] = v
    return d


cases = []
for dry in ("dry gas", "wet gas"):
    cases.append((gv(), dry, {}))
    cases.append((gv(N2=0.02, H2S=0.01, CO2=0.05, sg=0.8, T=320), dry, {"maximum_pressure": 9000}))
    cases.append((gv(sg="0.7", T=150), dry, {"maximum_pressure": 3000.0}))
    cases.append((gv(sg=np.float64(0.9), T=np.float64(275.5)), dry, {"maximum_pressure": 5005.0}))
    cases.append((gv(sg=1.2, T=100, CO2=0.3), dry, {"maximum_pressure": 20000}))
    for mp in (-5, 0, 10, 10.0, 10.000001, 15, 20, 20.5, 30, 35.0, 45, 1000, float("nan"), float("inf"), None, "100"):
        cases.append((gv(), dry, {"maximum_pressure": mp}))
cases += [
    (gv(), "moist gas", {}),
    (gv(), None, {"maximum_pressure": 100}),
    ({k: v for k, v in base.items() if k != "N2"}, "dry gas", {"maximum_pressure": 100}),
    ({k: v for k, v in base.items() if k != "Gas Specific Gravity"}, "dry gas", {"maximum_pressure": 100}),
    ({k: v for k, v in base.items() if k != "Reservoir Temperature (deg F)"}, "dry gas", {"maximum_pressure": 100}),
    (gv(T=None), "dry gas", {"maximum_pressure": 100}),
    (gv(T=None), "dry gas", {"maximum_pressure": 5}),
    (gv(T="abc"), "dry gas", {"maximum_pressure": 5}),
    (gv(T="200"), "dry gas", {"maximum_pressure": 5}),
    (gv(sg="abc"), "dry gas", {"maximum_pressure": 50}),
    (gv(sg=None), "dry gas", {"maximum_pressure": 50}),
    (gv(sg=-0.5), "dry gas", {"maximum_pressure": 50}),
    (gv(sg=0.0), "dry gas", {"maximum_pressure": 50}),
    (gv(sg=5.0), "dry gas", {"maximum_pressure": 500}),
    (gv(T=-459.67), "dry gas", {"maximum_pressure": 50}),
    (gv(T=-1000.0), "dry gas", {"maximum_pressure": 50}),
    (gv(T=float("nan")), "dry gas", {"maximum_pressure": 50}),
    (gv(T=5000.0), "dry gas", {"maximum_pressure": 500}),
    (gv(N2=0.9, CO2=0.9), "dry gas", {"maximum_pressure": 200}),
    (pd.Series(base), "dry gas", {"maximum_pressure": 400}),
    (gv(T=np.array([200.0])), "dry gas", {"maximum_pressure": 40}),
    (gv(T=np.array([200.0, 210.0, 220.0])), "dry gas", {"maximum_pressure": 40}),
    ([1, 2, 3], "dry gas", {}),
    (None, "dry gas", {}),
]

out = []
for i, (g, dry, kw) in enumerate(cases):
    f = build_pvt_gas if i % 2 == 0 else build2
    out.append(f"case {i} {dry!r} {kw!r} {sorted(map(str, g.items())) if hasattr(g, 'items') else g!r}")
    out.append(call(f, g, dry, **kw))
out.append(call(build_pvt_gas, gv(), gas_dryness="dry gas", maximum_pressure=120))
out.append(call(build_pvt_gas, gas_values=gv(), gas_dryness="wet gas"))
out.append(call(build_pvt_gas, gv()))
# compare with the stored table as well (columns of the csv written by an earlier run)
ref = pd.read_csv(os.path.join(DATA, "pvt_gas.csv"))
out.append("ref columns " + repr(list(ref.columns)) + " " + repr(ref.shape))

with open(sys.argv[1], "w") as fh:
    fh.write("\n".join(out) + "\n")
