"""Equivalence driver for bluebonnet.forecast.forecast (Bounds, ForecasterOnePhase)."""

from __future__ import annotations

import copy
import dataclasses
import inspect
import os
import pickle
import sys
import warnings

import numpy as np
import pandas as pd
from scipy.interpolate import interp1d

from bluebonnet.forecast import Bounds, ForecasterOnePhase
from bluebonnet.forecast import forecast as fmod

BB_DATA = os.environ.get("BB_DATA", "/tmp/twin12_forecast/tests/data")
OUT = []


def fmt(x):
    """Full-precision, type-revealing representation."""
    if isinstance(x, (float, np.floating)):
        return f"{type(x).__name__}:{float(x)!r}"
    if isinstance(x, (bool, np.bool_)):
        return f"{type(x).__name__}:{bool(x)!r}"
    if isinstance(x, (int, np.integer)):
        return f"{type(x).__name__}:{int(x)!r}"
    if isinstance(x, np.ndarray):
        return f"ndarray[{x.dtype},{x.shape}]:" + ",".join(fmt(v) for v in x.ravel().tolist())
    if isinstance(x, pd.Series):
        return f"Series[{x.dtype},{list(x.index)!r}]:" + ",".join(fmt(v) for v in x.tolist())
    if isinstance(x, (tuple, list)):
        return type(x).__mro__[-2].__name__ + "(" + ",".join(fmt(v) for v in x) + ")"
    if x is None:
        return "None"
    return f"{type(x).__name__}:{x!r}"


def rec(label, thunk):
    with warnings.catch_warnings(record=True) as w:
        warnings.simplefilter("always")
        try:
            res = fmt(thunk())
        except Exception as e:  # noqa: BLE001
            res = f"RAISES {type(e).__name__}: {e}"
        wtxt = ";".join(sorted({f"{x.category.__name__}" for x in w}))
    OUT.append(f"{label} -> {res}" + (f" [warn {wtxt}]" if wtxt else ""))


# ---------------------------------------------------------------- rf curves
def rf_exp(t):
    return 1.0 - np.exp(-t)


def rf_sqrt(t):
    t = np.asarray(t, dtype=float)
    return np.tanh(np.sqrt(t))


_ts = np.linspace(0, 8, 400) ** 2
rf_interp = interp1d(_ts, np.tanh(np.sqrt(_ts)) * 0.9, bounds_error=False, fill_value=(0.0, 0.9))


class CountingCurve:
    """Records every call (type, shape, first/last value) to prove the call pattern."""

    def __init__(self, f):
        self.f = f
        self.calls = []

    def __call__(self, t):
        a = np.asarray(t)
        self.calls.append(
            (type(t).__name__, a.shape, repr(float(a.ravel()[0])) if a.size else "-",
             repr(float(a.ravel()[-1])) if a.size else "-")
        )
        return self.f(t)


CURVES = {"exp": rf_exp, "sqrt": rf_sqrt, "interp": rf_interp}

# ---------------------------------------------------------------- Bounds
BOUNDS_ARGS = [
    dict(M=(0, 1), tau=(2, 3)),
    dict(M=(0.0, np.inf), tau=(1e-10, np.inf)),
    dict(M=(-np.inf, np.inf), tau=(-np.inf, np.inf)),
    dict(M=[10.0, 500.0], tau=[0.5, 50.0]),
    dict(M=np.array([10.0, 500.0]), tau=np.array([0.5, 50.0])),
    dict(M=(-0.0, 5.0), tau=(-3.0, -1.0)),
    dict(M=(1, 2, 3), tau=(0, 1)),
    dict(M=(1, 2), tau=(1,)),
    dict(M=(1, 0), tau=(0, 1)),
    dict(M=(0, 1), tau=(20, 10)),
    dict(M=(1, 1), tau=(0, 1)),
    dict(M=(0, 1), tau=(2.5, 2.5)),
    dict(M=(), tau=()),
    dict(M=(1, 2, 3), tau=(3, 2, 1)),
    dict(M=(2, 1), tau=(2, 1)),
    dict(M=(np.nan, np.nan), tau=(0, 1)),
    dict(M=5, tau=(0, 1)),
    dict(M=(0, 1), tau=None),
    dict(M=("a", "b"), tau=(0, 1)),
    dict(M="ab", tau="ba"),
    dict(M=(np.float32(1.5), np.float32(2.5)), tau=(1, 4)),
]


def bounds_section():
    for i, kw in enumerate(BOUNDS_ARGS):
        rec(f"Bounds[{i}] repr", lambda kw=kw: repr(Bounds(**kw)))
        rec(f"Bounds[{i}] positional", lambda kw=kw: repr(Bounds(kw["M"], kw["tau"])))
        try:
            b = Bounds(**kw)
        except Exception:  # noqa: BLE001
            continue
        rec(f"Bounds[{i}] fit_bounds nested", lambda b=b: tuple(tuple(x) for x in b.fit_bounds()))
        rec(f"Bounds[{i}] fit_bounds len", lambda b=b: len(b.fit_bounds()))
        rec(f"Bounds[{i}] fit_bounds is-tuple", lambda b=b: isinstance(b.fit_bounds(), tuple))
        rec(f"Bounds[{i}] fit_bounds [0]", lambda b=b: b.fit_bounds()[0])
        rec(f"Bounds[{i}] fit_bounds [1]", lambda b=b: b.fit_bounds()[1])
        rec(f"Bounds[{i}] fit_bounds [-1][0]", lambda b=b: b.fit_bounds()[-1][0])
        rec(f"Bounds[{i}] fit_bounds [2]", lambda b=b: b.fit_bounds()[2])

        def unpack(b=b):
            lo, hi = b.fit_bounds()
            (mlo, tlo), (mhi, thi) = b.fit_bounds()
            return (lo, hi, mlo, tlo, mhi, thi)

        rec(f"Bounds[{i}] fit_bounds unpack", unpack)
        rec(
            f"Bounds[{i}] fit_bounds == tuple",
            lambda b=b: bool(
                np.all(
                    [
                        np.array_equal(np.asarray(x, dtype=float), np.asarray(y, dtype=float), equal_nan=True)
                        for x, y in zip(b.fit_bounds(), ((b.M[0], b.tau[0]), (b.M[1], b.tau[1])))
                    ]
                )
            ),
        )
        rec(f"Bounds[{i}] fit_bounds asarray", lambda b=b: np.asarray(b.fit_bounds(), dtype=float))
        rec(f"Bounds[{i}] fit_bounds + ()", lambda b=b: b.fit_bounds() + ((1, 2),))
        rec(f"Bounds[{i}] hashable", lambda b=b: isinstance(hash(b), int))
        rec(f"Bounds[{i}] eq", lambda b=b, kw=kw: repr(b == Bounds(**kw)))
        rec(f"Bounds[{i}] frozen", lambda b=b: setattr(b, "M", (0, 1)))
        for guess in (
            [5.0, 5.0], [-1.0, -1.0], [1e9, 1e9], [0.5], [-7.0], [1e9], [0.5, 2.5], [2, 0],
            [], [1.0, 2.0, 3.0], [np.float64(600.0), np.float64(60.0)], [np.nan, np.nan],
            (5.0, 5.0), (-1e9, 1.0), np.array([1e9, -1e9]), np.array([-1e9]), "ab", None, 5.0,
        ):
            def reg(b=b, guess=guess):
                g = copy.deepcopy(guess)
                out = b.regularize_initial_guess(g)
                return (out, out is g, g)

            rec(f"Bounds[{i}] regularize {guess!r}", reg)
    rec("default bounds", lambda: repr(fmod._default_bounds))
    rec("default bounds fit_bounds", lambda: tuple(tuple(x) for x in fmod._default_bounds.fit_bounds()))
    rec("Bounds fields", lambda: repr([(f.name, f.type, f.default is dataclasses.MISSING) for f in dataclasses.fields(Bounds)]))
    rec("Bounds missing arg", lambda: Bounds(M=(0, 1)))
    rec("Bounds extra arg", lambda: Bounds((0, 1), (0, 1), (0, 1)))
    rec("Bounds pickle", lambda: repr(pickle.loads(pickle.dumps(Bounds((0, 1), (2, 3))))))
    rec("Bounds replace", lambda: repr(dataclasses.replace(Bounds((0, 1), (2, 3)), tau=(5, 6))))
    rec("Bounds replace bad", lambda: repr(dataclasses.replace(Bounds((0, 1), (2, 3)), tau=(7, 6))))
    rec("Bounds astuple", lambda: dataclasses.astuple(Bounds((0, 1), (2, 3))))


# ---------------------------------------------------------------- forecaster
def data_sets():
    t = np.linspace(0.0, 40.0, 60) ** 1.0
    t2 = np.linspace(0.1, 3.0, 25) ** 2
    rng = np.random.default_rng(1234)
    sets = {}
    sets["clean"] = (t, 300.0 * rf_sqrt(t / 30.0))
    sets["noisy"] = (t2, 120.0 * rf_exp(t2 / 4.0) * (1 + 0.02 * rng.standard_normal(t2.size)))
    sets["int_time"] = (np.arange(1, 40), 55.0 * rf_sqrt(np.arange(1, 40) / 12.5))
    sets["short"] = (np.array([1.0, 2.0, 3.0]), np.array([1.0, 1.8, 2.4]))
    sets["f32"] = (t2.astype(np.float32), (80.0 * rf_exp(t2 / 2.0)).astype(np.float32))
    return sets


FIT_BOUNDS = {
    "default": None,
    "tight": Bounds(M=(10.0, 500.0), tau=(0.5, 50.0)),
    "excl_guess_hi": Bounds(M=(1.0, 100.0), tau=(1.0, 20.0)),
    "excl_guess_lo": Bounds(M=(5000.0, 9000.0), tau=(900.0, 1000.0)),
    "unbounded": Bounds(M=(-np.inf, np.inf), tau=(-np.inf, np.inf)),
    "listy": Bounds(M=[10.0, 500.0], tau=[0.5, 50.0]),
    "arrayish": Bounds(M=np.array([10.0, 500.0]), tau=np.array([0.5, 50.0])),
    "nan": Bounds(M=(np.nan, np.nan), tau=(np.nan, np.nan)),
}


def make(curve, bounds):
    if bounds is None:
        return ForecasterOnePhase(curve)
    return ForecasterOnePhase(curve, bounds)


def state(fc):
    d = {k: v for k, v in vars(fc).items() if k not in ("rf_curve", "bounds")}
    return tuple((k, d[k]) for k in sorted(d))


def forecaster_section():
    sets = data_sets()
    for cname, curve in CURVES.items():
        for bname, bnd in FIT_BOUNDS.items():
            for dname, (t, q) in sets.items():
                for tau in (None, 7.5, 30, np.float64(2.0), 0.0, -3.0, np.inf, np.nan):
                    if tau is not None and not (dname in ("clean", "noisy") or tau == 7.5):
                        continue

                    def run(curve=curve, bnd=bnd, t=t, q=q, tau=tau):
                        cc = CountingCurve(curve)
                        fc = make(cc, bnd)
                        ret = fc.fit(t, q) if tau is None else fc.fit(t, q, tau)
                        same = (fc.time_on_production is t, fc.cum_production is q)
                        pred = fc.forecast_cum(np.array([0.0, 1.0, 10.0, 100.0]))
                        return (ret, fc.M_, fc.tau_, [k in vars(fc) for k in ('M_', 'tau_', 'time_on_production', 'cum_production')], same, type(fc.M_).__name__, type(fc.tau_).__name__,
                                pred, len(cc.calls), tuple(cc.calls[:3]), cc.calls[-2])

                    rec(f"fit {cname}/{bname}/{dname}/tau={tau!r}", run)

    # keyword forms and odd inputs
    t, q = sets["clean"]
    rec("fit kw", lambda: (lambda fc: (fc.fit(time_on_production=t, cum_production=q, tau=12.0), fc.M_, fc.tau_))(make(rf_sqrt, None)))
    rec("fit kw tau none", lambda: (lambda fc: (fc.fit(cum_production=q, time_on_production=t, tau=None), fc.M_, fc.tau_))(make(rf_sqrt, None)))
    rec("fit too many", lambda: make(rf_sqrt, None).fit(t, q, 3.0, 4.0))
    rec("fit missing", lambda: make(rf_sqrt, None).fit(t))
    rec("fit unknown kw", lambda: make(rf_sqrt, None).fit(t, q, foo=1))
    rec("fit lists", lambda: (lambda fc: (fc.fit(list(t), list(q)), fc.M_, fc.tau_, type(fc.time_on_production).__name__))(make(rf_sqrt, None)))
    rec("fit lists tau", lambda: (lambda fc: (fc.fit(list(t), list(q), 9.0), fc.M_, fc.tau_))(make(rf_sqrt, None)))
    rec("fit tuples", lambda: (lambda fc: (fc.fit(tuple(t), tuple(q)), fc.M_, fc.tau_))(make(rf_sqrt, None)))
    rec("fit empty", lambda: make(rf_sqrt, None).fit(np.array([]), np.array([])))
    rec("fit empty tau", lambda: make(rf_sqrt, None).fit(np.array([]), np.array([]), 2.0))
    rec("fit scalars", lambda: make(rf_sqrt, None).fit(3.0, 4.0))
    rec("fit None", lambda: make(rf_sqrt, None).fit(None, None))
    rec("fit length mismatch", lambda: make(rf_sqrt, None).fit(t, q[:-1]))
    rec("fit length mismatch tau", lambda: make(rf_sqrt, None).fit(t[:-3], q, 5.0))
    qn = q.copy(); qn[3] = np.nan
    rec("fit nan y", lambda: make(rf_sqrt, None).fit(t, qn))
    rec("fit nan y tau", lambda: make(rf_sqrt, None).fit(t, qn, 4.0))
    tn = t.copy(); tn[5] = np.inf
    rec("fit inf x", lambda: make(rf_sqrt, None).fit(tn, q))
    rec("fit str y", lambda: make(rf_sqrt, None).fit(t, np.array(["a"] * t.size)))
    rec("fit str y tau", lambda: make(rf_sqrt, None).fit(t, np.array(["a"] * t.size), 3.0))
    rec("fit obj y", lambda: (lambda fc: (fc.fit(t, q.astype(object)), fc.M_, fc.tau_))(make(rf_sqrt, None)))
    rec("fit 2d", lambda: (lambda fc: (fc.fit(t.reshape(2, -1), q.reshape(2, -1)), fc.M_, fc.tau_))(make(rf_sqrt, None)))
    rec("fit one point", lambda: (lambda fc: (fc.fit(np.array([2.0]), np.array([3.0])), fc.M_, fc.tau_))(make(rf_sqrt, None)))
    rec("fit one point tau", lambda: (lambda fc: (fc.fit(np.array([2.0]), np.array([3.0]), 4.0), fc.M_, fc.tau_))(make(rf_sqrt, None)))
    rec("fit negative last", lambda: (lambda fc: (fc.fit(t, -q), fc.M_, fc.tau_))(make(rf_sqrt, None)))
    rec("fit bad curve", lambda: make(lambda x: 1 / 0, None).fit(t, q))
    rec("fit non-callable curve", lambda: make(None, None).fit(t, q))
    rec("fit curve wrong shape", lambda: make(lambda x: np.ones(3), None).fit(t, q))
    rec("fit bad bounds object", lambda: ForecasterOnePhase(rf_sqrt, ((0, 1), (2, 3))).fit(t, q))
    rec("fit bad bounds None", lambda: ForecasterOnePhase(rf_sqrt, None).fit(t, q, 2.0))

    # pandas inputs: default, shuffled, duplicate, string indexes
    idxs = {
        "range": pd.RangeIndex(t.size),
        "shuffled": pd.Index(np.random.default_rng(3).permutation(t.size)),
        "dup": pd.Index(np.arange(t.size) // 2),
        "str": pd.Index([f"r{i}" for i in range(t.size)]),
        "neg": pd.Index(np.arange(t.size) - t.size),
        "float": pd.Index(np.arange(t.size) * 0.5),
    }
    for iname, idx in idxs.items():
        ts, qs = pd.Series(t, index=idx), pd.Series(q, index=idx)
        for tau in (None, 11.0):
            def runs(ts=ts, qs=qs, tau=tau):
                fc = make(rf_sqrt, None)
                fc.fit(ts, qs, tau)
                return (fc.M_, fc.tau_, fc.time_on_production is ts, fc.cum_production is qs)

            rec(f"fit Series idx={iname} tau={tau}", runs)

            def runm(ts=ts, q=q, tau=tau):
                fc = make(rf_sqrt, None)
                fc.fit(ts, q, tau)
                return (fc.M_, fc.tau_)

            rec(f"fit Series-x/array-y idx={iname} tau={tau}", runm)

            def runm2(t=t, qs=qs, tau=tau):
                fc = make(rf_sqrt, None)
                fc.fit(t, qs, tau)
                return (fc.M_, fc.tau_)

            rec(f"fit array-x/Series-y idx={iname} tau={tau}", runm2)
        rec(f"forecast_cum Series idx={iname}", lambda ts=ts: make(rf_sqrt, None).forecast_cum(ts, 10.0, 3.0))
        rec(f"forecast_cum Series interp idx={iname}", lambda ts=ts: make(rf_interp, None).forecast_cum(ts, 10.0, 3.0))
    pvt = pd.read_csv(os.path.join(BB_DATA, "pvt_gas.csv"))
    col = pvt.columns[0]
    frame = pvt.iloc[::7].iloc[:30]
    for label, fr in (("orig", frame), ("reset", frame.reset_index(drop=True)), ("rev", frame.iloc[::-1])):
        tt = fr[col]
        rec(f"forecast_cum table col {label}", lambda tt=tt: make(rf_exp, None).forecast_cum(tt, 2.0, 1000.0))
        rec(f"fit table col {label}", lambda tt=tt: (lambda fc: (fc.fit(tt.to_numpy(), 5.0 * rf_exp(tt.to_numpy() / 2000.0)), fc.M_, fc.tau_))(make(rf_exp, None)))

    # forecast_cum
    for cname, curve in CURVES.items():
        fc = make(curve, None)
        rec(f"forecast_cum unfitted {cname}", lambda fc=fc: fc.forecast_cum(np.array([1.0, 2.0])))
        rec(f"forecast_cum unfitted M only {cname}", lambda fc=fc: fc.forecast_cum(np.array([1.0, 2.0]), M=3.0))
        rec(f"forecast_cum unfitted tau only {cname}", lambda fc=fc: fc.forecast_cum(np.array([1.0, 2.0]), tau=3.0))
        for tt in (np.array([0.0, 0.5, 2.0, 1e3]), 3.0, np.float64(2.5), 4, np.array(7.0), np.array([]),
                   np.array([[1.0, 2.0], [3.0, 4.0]]), np.array([1, 2, 3]), [1.0, 2.0], (1.0, 2.0), None, "x",
                   np.array([np.nan, np.inf, -1.0])):
            for M, tau in ((10.0, 2.0), (0.0, 1.0), (3, 4), (-2.5, 0.5), (1.0, 0.0), (1.0, np.inf),
                           (np.array([1.0, 2.0, 3.0, 4.0]), 2.0), (2.0, np.array([1.0, 2.0, 4.0, 8.0]))):
                rec(f"forecast_cum {cname} t={tt!r} M={M!r} tau={tau!r}",
                    lambda fc=fc, tt=tt, M=M, tau=tau: fc.forecast_cum(tt, M, tau))
                rec(f"forecast_cum kw {cname} t={tt!r} M={M!r} tau={tau!r}",
                    lambda fc=fc, tt=tt, M=M, tau=tau: fc.forecast_cum(time_on_production=tt, tau=tau, M=M))
        t, q = sets["clean"]
        fc2 = make(curve, None)
        fc2.fit(t, q)
        rec(f"forecast_cum fitted {cname}", lambda fc2=fc2: fc2.forecast_cum(np.array([1.0, 20.0, 400.0])))
        rec(f"forecast_cum fitted M override {cname}", lambda fc2=fc2: fc2.forecast_cum(np.array([1.0, 20.0]), M=1.0))
        rec(f"forecast_cum fitted tau override {cname}", lambda fc2=fc2: fc2.forecast_cum(np.array([1.0, 20.0]), tau=1.0))
        rec(f"forecast_cum fitted M=0 (falsy) {cname}", lambda fc2=fc2: fc2.forecast_cum(np.array([1.0, 20.0]), M=0, tau=0.5))
        rec(f"refit tau {cname}", lambda fc2=fc2: (fc2.fit(t, q, 3.0), fc2.M_, fc2.tau_))
        rec(f"refit free {cname}", lambda fc2=fc2: (fc2.fit(t[:20], q[:20]), fc2.M_, fc2.tau_, fc2.time_on_production.shape))
    rec("forecast_cum missing", lambda: make(rf_exp, None).forecast_cum())
    rec("forecast_cum too many", lambda: make(rf_exp, None).forecast_cum(1.0, 2.0, 3.0, 4.0))
    rec("private helper", lambda: fmod._forecast_cum_onephase(rf_exp, np.array([1.0, 2.0]), 3.0, 4.0))
    rec("private helper kw", lambda: fmod._forecast_cum_onephase(rf_curve=rf_exp, time_on_production=np.array([1.0, 2.0]), M=3.0, tau=4.0))
    rec("private helper list-returning curve", lambda: fmod._forecast_cum_onephase(lambda x: [1.0, 2.0], np.array([1.0]), 2, 1.0))

    # class-level observables
    rec("forecaster repr", lambda: repr(ForecasterOnePhase(rf_exp)).replace(hex(id(rf_exp)), "ID"))
    rec("forecaster repr bounds", lambda: repr(ForecasterOnePhase(rf_exp, FIT_BOUNDS["tight"])).replace(hex(id(rf_exp)), "ID"))
    rec("forecaster eq", lambda: repr(ForecasterOnePhase(rf_exp) == ForecasterOnePhase(rf_exp)))
    rec("forecaster ne", lambda: repr(ForecasterOnePhase(rf_exp) == ForecasterOnePhase(rf_exp, FIT_BOUNDS["tight"])))
    rec("forecaster positional fields", lambda: [f.name for f in dataclasses.fields(ForecasterOnePhase)][:2])
    rec("forecaster kw ctor", lambda: repr(ForecasterOnePhase(bounds=FIT_BOUNDS["tight"], rf_curve=rf_exp).bounds))
    rec("forecaster no args", lambda: ForecasterOnePhase())
    rec("forecaster unhashable", lambda: hash(ForecasterOnePhase(rf_exp)))
    rec("forecaster mutable", lambda: (lambda fc: (setattr(fc, "bounds", FIT_BOUNDS["tight"]), repr(fc.bounds))[1])(ForecasterOnePhase(rf_exp)))
    def swapped():
        fc = ForecasterOnePhase(rf_exp)
        t, q = sets["noisy"]
        fc.fit(t, q)
        a = (fc.M_, fc.tau_)
        fc.rf_curve = rf_sqrt
        fc.bounds = FIT_BOUNDS["tight"]
        fc.fit(t, q)
        b = (fc.M_, fc.tau_, fc.forecast_cum(np.array([1.0, 5.0])))
        fc.fit(t, q, 2.0)
        return (a, b, fc.M_, fc.tau_)
    rec("forecaster reassign attrs then refit", swapped)
    rec("fit positional params", lambda: [p for p in inspect.signature(ForecasterOnePhase.fit).parameters][:4])
    rec("forecast_cum positional params", lambda: [p for p in inspect.signature(ForecasterOnePhase.forecast_cum).parameters][:4])
    rec("pickle forecaster", lambda: (lambda fc: (fc.fit(*sets["clean"]), pickle.loads(pickle.dumps(fc)).M_)[1])(ForecasterOnePhase(rf_exp)))
    rec("module __all__-ish", lambda: sorted(n for n in ("Bounds", "ForecasterOnePhase", "_default_bounds", "_forecast_cum_onephase") if hasattr(fmod, n)))


def extra_section():
    """Twin 4: appended dataclass field (repr=False, compare=False) + keyword-only sigma."""
    sets = data_sets()
    for dname in ("noisy", "clean", "int_time"):
        t, q = sets[dname]
        for bname in ("default", "tight", "unbounded"):
            for tau in (None, 6.0):
                def run(t=t, q=q, bname=bname, tau=tau):
                    cc = CountingCurve(rf_sqrt)
                    fc = make(cc, FIT_BOUNDS[bname])
                    out = fc.fit(t, q, tau)
                    return (out, fc.M_, fc.tau_, len(cc.calls), fc.forecast_cum(t[:4]))

                rec(f"twin4 positional call {dname}/{bname}/tau={tau}", run)

                def runkw(t=t, q=q, bname=bname, tau=tau):
                    fc = make(rf_sqrt, FIT_BOUNDS[bname])
                    out = fc.fit(cum_production=q, time_on_production=t, tau=tau)
                    return (out, fc.M_, fc.tau_)

                rec(f"twin4 keyword call {dname}/{bname}/tau={tau}", runkw)
    t, q = sets["noisy"]
    # construction forms that exist today
    rec("twin4 ctor positional", lambda: repr(ForecasterOnePhase(rf_exp, FIT_BOUNDS["tight"]).bounds))
    rec("twin4 ctor keyword", lambda: repr(ForecasterOnePhase(rf_curve=rf_exp, bounds=FIT_BOUNDS["tight"]).bounds))
    rec("twin4 ctor unknown kw", lambda: ForecasterOnePhase(rf_exp, limits=FIT_BOUNDS["tight"]))
    rec("twin4 repr", lambda: repr(ForecasterOnePhase(rf_exp, FIT_BOUNDS["tight"])).replace(hex(id(rf_exp)), "ID"))
    rec("twin4 str", lambda: str(ForecasterOnePhase(rf_exp)).replace(hex(id(rf_exp)), "ID"))
    rec("twin4 eq same", lambda: repr(ForecasterOnePhase(rf_exp, FIT_BOUNDS["tight"]) == ForecasterOnePhase(rf_exp, FIT_BOUNDS["tight"])))
    rec("twin4 eq differ", lambda: repr(ForecasterOnePhase(rf_exp) == ForecasterOnePhase(rf_sqrt)))

    def eq_after_fit():
        a, b = ForecasterOnePhase(rf_exp), ForecasterOnePhase(rf_exp)
        a.fit(t, q)
        return (repr(a == b), repr(a != b))

    rec("twin4 eq ignores fitted state", eq_after_fit)
    rec("twin4 first two fields", lambda: [(f.name, f.default is fmod._default_bounds) for f in dataclasses.fields(ForecasterOnePhase)[:2]])
    rec("twin4 replace", lambda: repr(dataclasses.replace(ForecasterOnePhase(rf_exp), bounds=FIT_BOUNDS["tight"]).bounds))
    rec("twin4 two instances independent", lambda: (lambda a, b: (a.fit(t, q), b.fit(t, q, 2.0), a.M_, a.tau_, b.M_, b.tau_))(ForecasterOnePhase(rf_exp), ForecasterOnePhase(rf_exp)))
    rec("twin4 copy keeps fit", lambda: (lambda a: (a.fit(t, q), copy.copy(a).M_, copy.deepcopy(a).tau_))(ForecasterOnePhase(rf_exp)))
    rec("twin4 pickle round trip", lambda: (lambda a: (a.fit(t, q), pickle.loads(pickle.dumps(a)).forecast_cum(t[:3])))(ForecasterOnePhase(rf_exp)))
    rec("twin4 fit 4 positionals", lambda: ForecasterOnePhase(rf_exp).fit(t, q, 2.0, None))
    rec("twin4 fit tau kw twice", lambda: ForecasterOnePhase(rf_exp).fit(t, q, 2.0, tau=3.0))
    rec("twin4 fit unknown kw", lambda: ForecasterOnePhase(rf_exp).fit(t, q, weights=None))
    rec("twin4 unbound call", lambda: (lambda a: (ForecasterOnePhase.fit(a, t, q), a.M_, a.tau_))(ForecasterOnePhase(rf_exp)))

    class Sub(ForecasterOnePhase):
        """Subclass overriding fit with the old signature and delegating."""

        def fit(self, time_on_production, cum_production, tau=None):
            return super().fit(time_on_production, cum_production, tau)

    rec("twin4 subclass old signature", lambda: (lambda a: (a.fit(t, q), a.M_, a.tau_))(Sub(rf_exp)))


if __name__ == "__main__":
    bounds_section()
    forecaster_section()
    extra_section()
    with open(sys.argv[1], "w") as fh:
        fh.write("\n".join(OUT) + "\n")
