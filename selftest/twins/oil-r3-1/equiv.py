"""Equivalence driver for twin1 (mask hoisting in b_o_Standing)."""

from __future__ import annotations

import sys
import warnings

import numpy as np

warnings.simplefilter("ignore")
np.seterr(all="ignore")

from bluebonnet.fluids import oil  # noqa: E402
from bluebonnet.fluids.fluid import Fluid  # noqa: E402


def fmt(x):
    if isinstance(x, np.ndarray):
        return f"ndarray{x.shape}{x.dtype}[" + ",".join(fmt(v) for v in x.ravel().tolist()) + "]"
    if isinstance(x, (list, tuple)):
        return type(x).__name__ + "[" + ",".join(fmt(v) for v in x) + "]"
    if isinstance(x, (float, np.floating)):
        return type(x).__name__ + ":" + repr(float(x))
    if isinstance(x, complex):
        return "complex:" + repr(x)
    return type(x).__name__ + ":" + repr(x)


LINES = []


def record(label, fn, *args, **kwargs):
    try:
        out = fmt(fn(*args, **kwargs))
    except Exception as e:  # noqa: BLE001
        out = "EXC:" + type(e).__name__
    LINES.append(f"{label} -> {out}")


fluids = [
    (200.0, 35.0, 0.8, 650.0),
    (200, 35, 0.8, 650),
    (150.0, 25.0, 0.65, 300.0),
    (250.0, 45.0, 1.1, 1500.0),
    (100.0, 10.0, 0.6, 50.0),
    (300.0, 55.0, 0.9, 2500.0),
    (np.float64(180.0), np.float64(30.0), np.float64(0.75), np.float64(500.0)),
]
scalars = [14.7, 100.0, 500, 1000.0, 2000, 2627.2017021875276, 2627.3, 3000.0, 5000, 10000.0, 0.0, -10.0, np.float64(1234.5), float("inf")]
arrays = [
    np.linspace(14.7, 8000.0, 41),
    np.array([3000.0, 4000.0, 9000.0, 20000.0]),  # typically all above pb
    np.array([10.0, 50.0, 100.0]),  # all below pb
    np.array([2000, 3000, 4000]),  # integer dtype
    np.array([1000.0], dtype=np.float32),
    np.array([5000.0]),
    np.array([]),
    np.linspace(100.0, 6000.0, 12).reshape(3, 4),  # 2-D
    np.array([[50.0, 100.0], [200.0, 300.0]]),  # 2-D, all below
    np.geomspace(1.0, 1.0e5, 30),
    np.array([0.0, -5.0, 100.0, 7000.0]),
]
odd = [[1000.0, 3000.0], (1000.0, 3000.0), "abc", None, 1 + 2j, np.array(2500.0), np.array(["a", "b"])]

for i, (t, api, sg, gor) in enumerate(fluids):
    pb = oil.pressure_bubblepoint_Standing(t, api, sg, gor)
    for p in [*scalars, pb, np.nextafter(pb, 0.0), np.nextafter(pb, 1e9)]:
        record(f"b_o[{i}] p={p!r}", oil.b_o_Standing, t, p, api, sg, gor)
        record(f"rho[{i}] p={p!r}", oil.density_Standing, t, p, api, sg, gor)
    for j, a in enumerate([*arrays, np.array([pb, pb - 1e-9, pb + 1e-9, 0.5 * pb, 2 * pb])]):
        before = a.copy()
        record(f"b_o[{i}] arr{j}", oil.b_o_Standing, t, a, api, sg, gor)
        record(f"rho[{i}] arr{j}", oil.density_Standing, t, a, api, sg, gor)
        LINES.append(f"input arr{j} unchanged: {np.array_equal(before, a)}")
    for j, o in enumerate(odd):
        record(f"b_o[{i}] odd{j}", oil.b_o_Standing, t, o, api, sg, gor)
    f = Fluid(t, api, sg, gor)
    record(f"Fluid.oil_FVF[{i}] scalar", f.oil_FVF, 2500.0)
    record(f"Fluid.oil_FVF[{i}] arr", f.oil_FVF, np.linspace(20.0, 9000.0, 25))

# degenerate fluids
for args in [
    (200.0, 1000.0, 35.0, 0.0, 650.0),
    (200.0, np.array([1000.0, 5000.0]), 35.0, 0.0, 650.0),
    (200.0, np.array([1000.0, 5000.0]), -131.5, 0.8, 650.0),
    (200.0, np.array([1000.0, 5000.0]), 35.0, 0.8, 0.0),
    (0.0, np.array([1000.0, 5000.0]), 35.0, 0.8, 650.0),
    (200.0, np.array([1000.0, 5000.0]), 35.0, -0.8, 650.0),
    (200.0, np.array([1000.0, 5000.0]), 35.0, 0.8, -650.0),
    (200.0, np.array([1000.0, 5000.0]), "35", 0.8, 650.0),
    (200.0, np.array([1000.0, 5000.0]), 35.0, 0.8, np.array([650.0, 700.0])),
]:
    record(f"b_o degenerate {args!r}", oil.b_o_Standing, *args)
record("b_o missing arg", oil.b_o_Standing, 200.0, 1000.0, 35.0, 0.8)
record("b_o kw", oil.b_o_Standing, temperature=200.0, pressure=np.array([1000.0, 4000.0]), api_gravity=35.0, gas_specific_gravity=0.8, solution_gor_initial=650.0)

with open(sys.argv[1], "w") as fh:
    fh.write("\n".join(LINES) + "\n")
