"""Equivalence driver for twin5 (b_factor_DAK algebraic form, named constants, dtype constant).

The b-factor product is re-associated, so floats are rounded to 11 significant digits.
"""
import itertools
import sys
import warnings

import numpy as np

warnings.simplefilter("ignore")

from bluebonnet.fluids import gas
from bluebonnet.fluids.fluid import Fluid
from bluebonnet.fluids.oil import oil_compressibility_Standing

out = []


def fmt(v):
    if isinstance(v, tuple):
        return "(" + ", ".join(fmt(x) for x in v) + ")"
    if isinstance(v, np.ndarray):
        if v.dtype.names:
            return f"structured{v.dtype.descr!r}{v.shape!r}[" + ", ".join(
                fmt(tuple(row)) for row in v.ravel().tolist()) + "]"
        return f"array{v.shape!r}[" + ", ".join(fmt(x) for x in v.ravel().tolist()) + "]"
    if isinstance(v, (complex, np.complexfloating)):
        v = complex(v)
        return f"({float(v.real):.10e}{float(v.imag):+.10e}j)"
    if isinstance(v, (float, np.floating)):
        return f"{float(v):.10e}"  # 11 significant digits
    return repr(v)


def rec(label, fn, *args, **kwargs):
    try:
        res = fmt(fn(*args, **kwargs))
    except Exception as exc:  # record only the type
        res = "EXC:" + type(exc).__name__
    out.append(f"{label} {args!r} {kwargs!r} -> {res}")


# ---- b_factor_DAK
temps = [60.0, 150.0, 400.0, 35, -100.0, np.float64(212.0)]
pressures = [14.7, 100.0, 1000.0, 3500, 8000.0, 15000.0, 1e-3, 0.5, np.float64(2345.6)]
crit = [(-102.0, 649.0), (-72.2, 653.3), (-116.67, 667.8), (50.0, 1070.0)]
for T, p, (tc, pc) in itertools.product(temps, pressures, crit):
    rec("b", gas.b_factor_DAK, T, p, tc, pc)
for T, p in itertools.product(temps[:3], pressures[:5]):
    rec("b_std", gas.b_factor_DAK, T, p, -102.0, 649.0, 70.0, 14.65)
    rec("b_std_kw", gas.b_factor_DAK, T, p, -102.0, 649.0, pressure_standard=15.025)
    rec("b_std_kw2", gas.b_factor_DAK, T, p, -102.0, 649.0, temperature_standard=32)
rng = np.random.default_rng(16180)
for _ in range(300):
    T = float(rng.uniform(40.0, 450.0))
    p = float(10 ** rng.uniform(0.0, 4.3))
    tc = float(rng.uniform(-130.0, -40.0))
    pc = float(rng.uniform(600.0, 720.0))
    rec("b_rand", gas.b_factor_DAK, T, p, tc, pc, float(rng.uniform(32, 80)),
        float(rng.uniform(14.4, 15.1)))
rec("b_kw", gas.b_factor_DAK, temperature=400, pressure=100, temperature_pseudocritical=-102,
    pressure_pseudocritical=649, temperature_standard=60, pressure_standard=14.7)

edge = [
    (400, 0.0, -102, 649),
    (400, -50.0, -102, 649),
    (-459.67, 100.0, -102, 649),
    (400, 100.0, -459.67, 649),
    (400, 100.0, -102, 0.0),
    (-600.0, 100.0, -102, 649),
    (400, float("nan"), -102, 649),
    (float("nan"), 100.0, -102, 649),
    (400, float("inf"), -102, 649),
    (400, 1e9, -102, 649),
    (1e6, 100.0, -102, 649),
    (-300.0, 5000.0, -102, 649),
    ("400", 100.0, -102, 649),
    (400, "100", -102, 649),
    (400, None, -102, 649),
    (400, np.array([100.0, 200.0]), -102, 649),
    (np.array([400.0, 300.0]), 100.0, -102, 649),
    (np.array([400.0]), 100.0, -102, 649),
    (400, np.array([100.0]), -102, 649),
    (400, 100 + 0j, -102, 649),
    # standard conditions that divide by zero / are invalid
    (400, 100.0, -102, 649, -459.67, 14.7),
    (np.float64(400), 100.0, -102, 649, -459.67, 14.7),
    (400, 100.0, -102, 649, np.float64(-459.67), 14.7),
    (400, 100.0, -102, 649, -459.67, 0.0),
    (400, 100.0, -102, 649, 60, 0.0),
    (400, 100.0, -102, 649, 60, -14.7),
    (400, 100.0, -102, 649, -500.0, 14.7),
    (400, 100.0, -102, 649, "60", 14.7),
    (400, 100.0, -102, 649, 60, "14.7"),
    (400, 100.0, -102, 649, None, 14.7),
    (400, 100.0, -102, 649, 60, None),
    (400, 100.0, -102, 649, float("nan"), 14.7),
    (400, 100.0, -102, 649, float("inf"), 14.7),
    (400, 100.0, -102, 649, 60, float("inf")),
    (400, 100.0, -102, 649, np.array([60.0, 70.0]), 14.7),
    (400, 100.0, -102, 649, 60, np.array([14.7, 14.65])),
    (400, 100.0, -102, 649, np.array([60.0, 70.0]), np.array([14.7, 14.65])),
    (400, 100.0, -102, 649, np.array([60.0, 70.0]), np.array([14.7, 14.65, 15.0])),
]
for e in edge:
    rec("b_edge", gas.b_factor_DAK, *e)
rec("b_missing", gas.b_factor_DAK, 400, 100, -102)
rec("b_extra", gas.b_factor_DAK, 400, 100, -102, 649, 60, 14.7, 1)

# ---- callers of b_factor_DAK
fluid = Fluid(temperature=200.0, api_gravity=35.0, gas_specific_gravity=0.8,
              solution_gor_initial=650.0)
parr = np.array([50.0, 500.0, 1500.0, 3000.0, 6000.0])
rec("fluid_gas_FVF", fluid.gas_FVF, parr, -72.2, 653.0)
rec("fluid_gas_FVF_scalar", fluid.gas_FVF, 1500.0, -72.2, 653.0)
rec("fluid_gas_FVF_zero", fluid.gas_FVF, np.array([0.0, 100.0]), -72.2, 653.0)
for p in [200.0, 1000.0, 2000.0, 2600.0, 3000.0, 5000.0]:
    rec("co", oil_compressibility_Standing, 200, p, 35, 0.8, 650, -72.2, 653)
    rec("co_std", oil_compressibility_Standing, 200, p, 35, 0.8, 650, -72.2, 653, 70, 14.65)
rec("co_zero", oil_compressibility_Standing, 200, 0.0, 35, 0.8, 650, -72.2, 653)

# ---- make_nonhydrocarbon_properties
he = ("Helium", 0.01, 4.0026, 9.34, 33.0)
o2 = ("Oxygen", 0.02, 31.999, 278.24, 731.4)
mk = gas.make_nonhydrocarbon_properties
rec("mk", mk, 0.03, 0.012, 0.018)
rec("mk_int", mk, 0, 1, 0)
rec("mk_np", mk, np.float64(0.05), np.float32(0.01), 0.04)
rec("mk_he", mk, 0.03, 0.012, 0.018, he)
rec("mk_he_o2", mk, 0.03, 0.012, 0.018, he, o2)
rec("mk_longname", mk, 0.03, 0.012, 0.018, ("A very long molecule name indeed", 0.1, 1, 2, 3))
rec("mk_kw", mk, nitrogen=0.03, hydrogen_sulfide=0.012, co2=0.018)
rec("mk_strnum", mk, "0.03", 0.012, 0.018)
rec("mk_badstr", mk, "abc", 0.012, 0.018)
rec("mk_none", mk, None, 0.012, 0.018)
rec("mk_array_frac", mk, np.array([0.1, 0.2]), 0.012, 0.018)
rec("mk_short_other", mk, 0.03, 0.012, 0.018, ("He", 0.01))
rec("mk_long_other", mk, 0.03, 0.012, 0.018, ("He", 0.01, 1, 2, 3, 4))
rec("mk_list_other", mk, 0.03, 0.012, 0.018, ["He", 0.01, 4.0, 9.34, 33.0])
rec("mk_dict_other", mk, 0.03, 0.012, 0.018, {"name": "He"})
rec("mk_scalar_other", mk, 0.03, 0.012, 0.018, 5.0)
rec("mk_missing", mk, 0.03, 0.012)
rec("mk_nan", mk, float("nan"), float("inf"), -1.0)


def mk_meta(*args):
    a = mk(*args)
    return repr((a.dtype, a.shape, a.dtype.names, a["name"].tolist(), a.flags.writeable))


rec("mk_meta", mk_meta, 0.03, 0.012, 0.018)
rec("mk_meta_he", mk_meta, 0.03, 0.012, 0.018, he)


def mk_independent():
    a = mk(0.03, 0.012, 0.018)
    a["fraction"][0] = 0.5  # mutating one result must not leak into the next
    return mk(0.03, 0.012, 0.018)


rec("mk_independent", mk_independent)
for sg, fl in itertools.product([0.6, 0.65, 0.8], ["dry gas", "wet gas"]):
    rec("mk_pc", gas.pseudocritical_point_Sutton, sg, mk(0.03, 0.012, 0.018, he), fl)

with open(sys.argv[1], "w") as fh:
    fh.write("\n".join(out) + "\n")
