"""Equivalence driver for twin2: record array of relative permeabilities filled by column."""

from __future__ import annotations

import itertools
import os
import re
import sys
import warnings

import numpy as np
import pandas as pd

from bluebonnet.flow.flowproperties import (
    FlowPropertiesTwoPhase,
    RelPermParams,
    relative_permeabilities,
    relative_permeabilities_twophase,
)

DATA = os.environ.get("BB_DATA", "/tmp/twin12_flowproperties/tests/data")
out = []


def fmt(x):
    if isinstance(x, pd.DataFrame):
        return (
            "DF("
            + ",".join(f"{c}:{fmt(x[c].to_numpy())}" for c in x.columns)
            + f"|idx={list(x.index)!r}|dtypes={[str(d) for d in x.dtypes]})"
        )
    if isinstance(x, np.ndarray) and x.dtype.names:
        return (
            f"rec{type(x).__name__}{x.shape}{x.dtype!r}"
            f"|C={x.flags.c_contiguous}|own={x.flags.owndata}|w={x.flags.writeable}["
            + ";".join(f"{n}={fmt(np.asarray(x[n]))}" for n in x.dtype.names)
            + "]"
        )
    if isinstance(x, np.ndarray):
        return f"nd{x.shape}{x.dtype}[" + ",".join(repr(v) for v in x.ravel().tolist()) + "]"
    if isinstance(x, dict):
        return "{" + ",".join(f"{k!r}:{fmt(v)}" for k, v in x.items()) + "}"
    return f"{type(x).__name__}:{x!r}"


def norm_msg(msg):
    return re.sub(r"\{([^}]*)\}", lambda m: "{" + ", ".join(sorted(m.group(1).split(", "))) + "}", msg)


def rec(label, fn):
    with warnings.catch_warnings(record=True) as w:
        warnings.simplefilter("always")
        try:
            res = fmt(fn())
        except Exception as e:  # noqa: BLE001
            res = f"EXC {type(e).__name__}: {norm_msg(str(e))}"
    out.append(f"{label} -> {res} | warnings={[str(i.category.__name__) + ':' + str(i.message) for i in w]}")


base = RelPermParams(
    n_o=1, n_g=1, n_w=1, S_or=0, S_gc=0, S_wc=0.1, k_ro_max=1, k_rw_max=1, k_rg_max=1
)
param_sets = {
    "linear": base,
    "corey": RelPermParams(2, 3, 1.5, 0.05, 0.1, 0.02, 0.9, 0.5, 0.8),
    "six": RelPermParams(6, 6, 6, 0.2, 0.2, 0.2, 1, 1, 1),
    "int_exp": RelPermParams(2, 4, 3, 0, 0, 0, 1, 0, 1),
    "zero_max": RelPermParams(1.0, 1.0, 1.0, 0.1, 0.1, 0.1, 0.0, 0.0, 0.0),
    "negzero_max": RelPermParams(1.0, 1.0, 1.0, 0.1, 0.1, 0.1, -0.0, -0.0, -0.0),
    "denominator_zero": RelPermParams(2, 2, 2, 0.5, 0.25, 0.25, 1, 1, 1),
    "denominator_neg": RelPermParams(2, 2, 2, 0.5, 0.5, 0.5, 1, 1, 1),
    "nan_exp": RelPermParams(float("nan"), 2, 2, 0.1, 0.1, 0.1, 1, 1, 1),
    "nan_max": RelPermParams(2, 2, 2, 0.1, 0.1, 0.1, float("nan"), 1, 1),
    "bad_n_hi": base._replace(n_o=8),
    "bad_n_lo": base._replace(n_w=0),
    "bad_S_lo": base._replace(S_gc=-1),
    "bad_S_hi": base._replace(S_or=1.1),
    "bad_k_lo": base._replace(k_rw_max=-0.1),
    "bad_k_hi": base._replace(k_ro_max=1.1),
    "array_exp": base._replace(n_o=np.array([1.0, 2.0])),
    "string_exp": base._replace(n_o="2"),
    "none_max": base._replace(k_rg_max=None),
}

rng = np.random.default_rng(11)


def sat_frame(n, Sw=0.1, order=("So", "Sw", "Sg"), dtype=float):
    d = {
        "So": np.linspace(0, 1 - Sw, n).astype(dtype),
        "Sw": np.full(n, Sw).astype(dtype),
        "Sg": np.linspace(1 - Sw, 0, n).astype(dtype),
    }
    return pd.DataFrame({k: d[k] for k in order})


rand = rng.dirichlet([1.0, 1.0, 1.0], size=40)
df_rand = pd.DataFrame({"So": rand[:, 0], "Sw": rand[:, 1], "Sg": rand[:, 2]})
df_edge = pd.DataFrame(
    {
        "So": [0.0, 1.0, 0.5, 0.3333, -0.2, 1.2, 0.5005, 0.9],
        "Sw": [0.0, 0.0, 0.5, 0.3333, 0.6, -0.1, 0.25, 0.05],
        "Sg": [1.0, 0.0, 0.0, 0.3333, 0.6, -0.1, 0.25, 0.0505],
    }
)
inputs = {
    "n50": sat_frame(50).to_records(index=False),
    "n50_Sw0": sat_frame(50, 0.0).to_records(index=False),
    "n1": sat_frame(1).to_records(index=False),
    "n2": sat_frame(2).to_records(index=False),
    "n0": sat_frame(0).to_records(index=False),
    "reordered": sat_frame(9, order=("Sg", "So", "Sw")).to_records(index=False),
    "float32": sat_frame(9, dtype=np.float32).to_records(index=False),
    "float16": sat_frame(5, dtype=np.float16).to_records(index=False),
    "random": df_rand.to_records(index=False),
    "edge": df_edge.to_records(index=False),
    "plain_struct": np.array(
        [(0.2, 0.3, 0.5), (0.5, 0.25, 0.25)], dtype=[("So", "f8"), ("Sw", "f8"), ("Sg", "f8")]
    ),
    "int_fields": np.array(
        [(1, 0, 0), (0, 1, 0), (0, 0, 1)], dtype=[("So", "i8"), ("Sw", "i8"), ("Sg", "i8")]
    ),
    "mixed_fields": np.array(
        [(0.5, 0, 0.5), (0.25, 0, 0.75)], dtype=[("So", "f4"), ("Sw", "i4"), ("Sg", "f8")]
    ),
    "object_fields": np.array(
        [(0.5, 0.1, 0.4), (0.25, 0.0, 0.75)], dtype=[("So", "O"), ("Sw", "O"), ("Sg", "O")]
    ),
    "nan": np.array(
        [(np.nan, 0.1, 0.4), (0.25, 0.0, 0.75)], dtype=[("So", "f8"), ("Sw", "f8"), ("Sg", "f8")]
    ),
    "inf": np.array(
        [(np.inf, -np.inf, 1.0), (0.25, 0.0, 0.75)], dtype=[("So", "f8"), ("Sw", "f8"), ("Sg", "f8")]
    ),
    "with_index": sat_frame(5).to_records(index=True),
    "with_zero_extra": np.array(
        [(0.0, 0.2, 0.3, 0.5)], dtype=[("pad", "f8"), ("So", "f8"), ("Sw", "f8"), ("Sg", "f8")]
    ),
    "missing_Sg": np.array([(0.5, 0.5)], dtype=[("So", "f8"), ("Sw", "f8")]),
    "sum_off_small": np.array(
        [(0.5, 0.1, 0.4009)], dtype=[("So", "f8"), ("Sw", "f8"), ("Sg", "f8")]
    ),
    "sum_off_big": np.array([(0.5, 0.1, 0.4011)], dtype=[("So", "f8"), ("Sw", "f8"), ("Sg", "f8")]),
    "twoD_struct": sat_frame(6).to_records(index=False).reshape(2, 3),
    "void_scalar": sat_frame(3).to_records(index=False)[1],
    "subarray_fields": np.zeros(2, dtype=[("So", "f8", (2,)), ("Sw", "f8", (2,)), ("Sg", "f8", (2,))]),
    "noncontig": sat_frame(20).to_records(index=False)[::3],
    "dataframe": sat_frame(5),
    "dict": {k: v.to_numpy() for k, v in sat_frame(5).items()},
    "plain2d": np.array([[0.2, 0.3, 0.5], [0.1, 0.1, 0.8]]),
    "list_of_tuples": [(0.2, 0.3, 0.5), (0.1, 0.1, 0.8)],
    "none": None,
}
inputs["recarray_view"] = inputs["n50"].view(np.recarray)
inputs["ndarray_view"] = np.asarray(inputs["n50"]).view(np.ndarray)

for (iname, sat), (pname, prm) in itertools.product(inputs.items(), param_sets.items()):
    snapshot = repr(sat)
    rec(f"relperm/{iname}/{pname}", lambda sat=sat, prm=prm: relative_permeabilities(sat, prm))
    if repr(sat) != snapshot:
        out.append(f"relperm/{iname}/{pname}: INPUT MUTATED")

# result is independent from the input and writable
res = relative_permeabilities(inputs["n50"], param_sets["corey"])
res["kro"][:] = -1
rec("relperm/result_independent", lambda: relative_permeabilities(inputs["n50"], param_sets["corey"]))

# two-phase curves
for pname, prm in param_sets.items():
    for Sw in (0.1, 0.0, 0.05, 0.02, 0.8, -0.1, 1.0, 1, float("nan"), None, "0.1", np.array([0.05]), np.float32(0.1)):
        rec(f"twophase/{pname}/Sw={Sw!r}", lambda prm=prm, Sw=Sw: relative_permeabilities_twophase(prm, Sw))
    rec(f"twophase/{pname}/default", lambda prm=prm: relative_permeabilities_twophase(prm))
    rec(f"twophase/{pname}/kw", lambda prm=prm: relative_permeabilities_twophase(params=prm, Sw=0.01))

# downstream: full two-phase flow properties built from these curves
df_pvt = pd.read_csv(os.path.join(DATA, "pvt_multiphase_oil.csv")).drop(columns=["Unnamed: 0"])
dens = {"rho_o0": 141.5 / (45 + 131.5), "rho_g0": 1.03e-3, "rho_w0": 1}
for pname in ("linear", "corey", "six", "zero_max"):
    df_kr = relative_permeabilities_twophase(param_sets[pname], 0.02)

    def build(df_kr=df_kr):
        obj = FlowPropertiesTwoPhase.from_table(df_pvt, df_kr, dens, 0.1, 0.02, 8000.0)
        return {
            "m_i": np.asarray(obj.m_i),
            "alpha": obj.alpha(np.linspace(-0.2, 1.3, 23)),
            "kr": {k: v(np.linspace(0, 0.98, 9)) for k, v in obj.kr.items()},
            "props": {k: np.asarray(v) for k, v in obj.pvt_props.items()},
        }

    rec(f"from_table/{pname}", build)

with open(sys.argv[1], "w") as f:
    f.write("\n".join(out) + "\n")
