"""Equivalence driver for twin1: solution_gor_Standing (closure -> module helper).

Usage: PYTHONPATH=<tree>/src /venv/bin/python equiv.py <outfile>
"""

from __future__ import annotations

import os
import sys
import warnings

import numpy as np
import pandas as pd

warnings.simplefilter("ignore")
np.seterr(all="ignore")

from bluebonnet.fluids import oil  # noqa: E402
from bluebonnet.fluids.fluid import Fluid  # noqa: E402

BB_DATA = os.environ.get("BB_DATA", "/tmp/twin_oil/tests/data")
SIG = None  # bit-identical refactoring: full repr


def fmt(x):
    if isinstance(x, np.ndarray):
        return f"ndarray[{x.dtype},{x.shape}](" + ",".join(fmt(v) for v in x.ravel().tolist()) + ")"
    if isinstance(x, (list, tuple)):
        return type(x).__name__ + "(" + ",".join(fmt(v) for v in x) + ")"
    tname = type(x).__name__
    if isinstance(x, (complex, np.complexfloating)):
        return f"{tname}:{fmt(float(x.real))}+{fmt(float(x.imag))}j"
    if isinstance(x, (float, np.floating)):
        v = float(x)
        if SIG is not None and np.isfinite(v):
            return f"{tname}:{v:.{SIG}g}"
        return f"{tname}:{v!r}"
    return f"{tname}:{x!r}"


def call(f, *args, **kwargs):
    try:
        return fmt(f(*args, **kwargs))
    except Exception as e:  # noqa: BLE001
        return "RAISES " + type(e).__name__


def main(outfile):
    lines = []

    def rec(label, f, *a, **k):
        lines.append(f"{label} -> {call(f, *a, **k)}")

    temps = [60, 100.0, 200, 275.5, 400]
    apis = [10, 22.5, 35, 45.0, 60]
    sgs = [0.55, 0.65, 0.8, 1.2]
    gors = [0, 50, 300.0, 650, 1500, 4000]
    p_scalars = [
        0, 14.7, 100, 500.0, 1000, 2000, 2627.2017021875276, 2627.3, 3000, 5000.0,
        10000, 20000, -5.0, -30, np.float64(1800.0), np.float32(1800.0), np.int64(1800),
        float("nan"), float("inf"),
    ]
    p_arrays = [
        np.linspace(10, 8000, 23),
        np.array([14.7, 2000.0, 2627.2017021875276, 3000.0]),
        np.array([5000.0, 6000.0]),  # all above
        np.array([100.0, 200.0]),  # all below
        np.array([2000.0]),
        np.array([]),
        np.arange(0, 6000, 500),  # integer dtype
        np.linspace(10, 8000, 12, dtype=np.float32),
        np.linspace(10, 6000, 12).reshape(3, 4),
        np.array([100.0, np.nan, 3000.0, np.inf, -10.0]),
        [100.0, 3000.0],  # list -> raises
        (100.0, 3000.0),
        np.array(2000.0),  # 0-d array
        np.array(3000.0),
    ]
    # full grid on scalars
    for T in temps:
        for api in apis:
            for sg in sgs:
                for gor in gors:
                    for p in p_scalars:
                        rec(
                            f"gor_s T={T!r} p={p!r} api={api!r} sg={sg!r} gor={gor!r}",
                            oil.solution_gor_Standing, T, p, api, sg, gor,
                        )
    # arrays on a reduced grid
    for T in [100.0, 200, 400]:
        for api in [10, 35, 60]:
            for sg in [0.55, 0.8]:
                for gor in [0, 650, 4000]:
                    for i, p in enumerate(p_arrays):
                        rec(
                            f"gor_a T={T!r} p#{i} api={api!r} sg={sg!r} gor={gor!r}",
                            oil.solution_gor_Standing, T, p, api, sg, gor,
                        )
    # keyword calls
    rec("kw", oil.solution_gor_Standing, temperature=200, pressure=2000, api_gravity=35,
        gas_specific_gravity=0.8, solution_gor_initial=650)
    rec("kw_arr", oil.solution_gor_Standing, temperature=200, pressure=np.array([1000.0, 4000.0]),
        api_gravity=35, gas_specific_gravity=0.8, solution_gor_initial=650)
    # error inputs
    bad = [
        (200, 2000, 35, 0, 650),
        (200, 2000, 35, 0.0, 650),
        (200, 2000, -131.5, 0.8, 650),
        (200, 2000, 35, -0.8, 650),
        (200, 2000, 35, 0.8, -650),
        (200, "2000", 35, 0.8, 650),
        ("200", 2000, 35, 0.8, 650),
        (200, None, 35, 0.8, 650),
        (None, 2000, 35, 0.8, 650),
        (200, 2000, 35, 0.8, None),
        (200, 2000, 1e6, 0.8, 650),
        (1e7, 2000, 35, 0.8, 650),
        (200, 2000 + 1j, 35, 0.8, 650),
        (200, np.array([1000.0, 4000.0]), 35, 0, 650),
        (200, np.array(["a", "b"]), 35, 0.8, 650),
        (np.array([100.0, 200.0]), 2000, 35, 0.8, 650),
        (np.array([100.0, 200.0]), np.array([1000.0, 4000.0]), 35, 0.8, 650),
        (200, np.array([1000.0, 4000.0]), 35, 0.8, np.array([650.0, 700.0])),
    ]
    for i, a in enumerate(bad):
        rec(f"bad#{i}", oil.solution_gor_Standing, *a)
    rec("too_few", oil.solution_gor_Standing, 200, 2000, 35, 0.8)
    rec("too_many", oil.solution_gor_Standing, 200, 2000, 35, 0.8, 650, 1)

    # callers of solution_gor_Standing
    for T, api, sg, gor in [(200, 35, 0.8, 650), (150.0, 45, 0.65, 1500), (300, 22.5, 1.2, 300.0)]:
        for p in [500.0, 2000, 3000, 8000.0]:
            tag = f"T={T!r} p={p!r} api={api!r} sg={sg!r} gor={gor!r}"
            rec("b_o " + tag, oil.b_o_Standing, T, p, api, sg, gor)
            rec("rho " + tag, oil.density_Standing, T, p, api, sg, gor)
            rec("mu " + tag, oil.viscosity_beggs_robinson, T, p, api, sg, gor)
            rec("co " + tag, oil.oil_compressibility_Standing, T, p, api, sg, gor, -72.2, 653)
        parr = np.linspace(50, 9000, 40)
        rec(f"b_o_arr {T} {api} {sg} {gor}", oil.b_o_Standing, T, parr, api, sg, gor)
        rec(f"rho_arr {T} {api} {sg} {gor}", oil.density_Standing, T, parr, api, sg, gor)
        fl = Fluid(T, api, sg, gor)
        rec(f"Fluid.oil_FVF {T} {api} {sg} {gor}", fl.oil_FVF, parr)
        rec(f"Fluid.oil_viscosity {T} {api} {sg} {gor}", fl.oil_viscosity, parr)

    # data-table driven
    for name in ["pvt_oil.csv", "pvt_multiphase_oil.csv"]:
        try:
            df = pd.read_csv(os.path.join(BB_DATA, name))
            pcol = [c for c in df.columns if "ressure" in c or c.lower() == "p"][0]
            parr = df[pcol].to_numpy()
            rec(f"table {name} gor", oil.solution_gor_Standing, 200, parr, 35, 0.8, 650)
            rec(f"table {name} b_o", oil.b_o_Standing, 200, parr, 35, 0.8, 650)
        except Exception as e:  # noqa: BLE001
            lines.append(f"table {name} -> HARNESS {type(e).__name__}")

    lines.append("has_closure_helper_public_api " + repr(sorted(
        n for n in dir(oil) if not n.startswith("_") and callable(getattr(oil, n))
        and getattr(getattr(oil, n), "__module__", "") == oil.__name__)))
    with open(outfile, "w") as fh:
        fh.write("\n".join(lines) + "\n")


if __name__ == "__main__":
    main(sys.argv[1])
