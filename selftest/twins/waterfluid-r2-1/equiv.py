"""Equivalence driver for twin1 (water b-factor helpers)."""
import sys
import warnings

import numpy as np

warnings.simplefilter("ignore")

from bluebonnet.fluids import water
from bluebonnet.fluids.fluid import Fluid

out = []


def fmt(v):
    if isinstance(v, np.ndarray):
        return f"array{v.shape}{v.dtype}[" + ",".join(fmt(x) for x in v.ravel().tolist()) + "]"
    if isinstance(v, (list, tuple)):
        return "[" + ",".join(fmt(x) for x in v) + "]"
    if isinstance(v, (float, np.floating)):
        return repr(float(v))
    return type(v).__name__ + ":" + repr(v)


def rec(label, fn, *args, **kw):
    try:
        res = fn(*args, **kw)
        out.append(f"{label} -> {type(res).__name__} {fmt(res)}")
    except Exception as e:  # noqa: BLE001
        out.append(f"{label} -> EXC {type(e).__name__}")


temps = [32, 60.0, 100, 212.5, 400, 0, -40.0, 1e3, np.float64(250.0), float("nan"), float("inf")]
pressures = [
    0, 14.7, 1000, 3000.0, 1e4, -5.0, 1e8, float("inf"), float("nan"),
    np.float64(2500.0),
    np.array([14.7, 100.0, 2500.0, 9000.0]),
    np.linspace(0, 12000, 25),
    np.array([[100.0, 200.0], [3000.0, 4000.0]]),
    np.array([], dtype=float),
    np.arange(1, 6) * 1000,
    [100.0, 200.0],
    "abc",
    None,
    2 + 3j,
]
for T in temps:
    for ip, p in enumerate(pressures):
        rec(f"b_w T={T!r} p#{ip}", water.b_water_McCain, T, p)
        rec(f"b_w_dp T={T!r} p#{ip}", water.b_water_McCain_dp, T, p)
        for s in (0, 5.5, 15, 30.0):
            rec(f"rho_w T={T!r} p#{ip} s={s}", water.density_water_McCain, T, p, s)
for badT in ("x", None, [1.0, 2.0], np.array([100.0, 200.0, 300.0, 400.0])):
    for ip, p in enumerate(pressures):
        rec(f"b_w badT={badT!r} p#{ip}", water.b_water_McCain, badT, p)
        rec(f"b_w_dp badT={badT!r} p#{ip}", water.b_water_McCain_dp, badT, p)
        rec(f"rho_w badT={badT!r} p#{ip}", water.density_water_McCain, badT, p, 3.0)
rec("kw", water.b_water_McCain, temperature=200, pressure=3000)
rec("kw_dp", water.b_water_McCain_dp, pressure=3000, temperature=200)
rec("missing", water.b_water_McCain, 200)
for T in (100, 300.5):
    fl = Fluid(T, 35, 0.7, 500, salinity=4.0)
    for ip, p in enumerate(pressures):
        rec(f"Fluid.water_FVF T={T} p#{ip}", fl.water_FVF, p)

with open(sys.argv[1], "w") as f:
    f.write("\n".join(out) + "\n")
