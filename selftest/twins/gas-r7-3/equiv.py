"""Equivalence driver for twin3 (make_nonhydrocarbon_properties and its users)."""

from __future__ import annotations

import sys
import warnings

import numpy as np

from bluebonnet.fluids import build_pvt_gas, gas

warnings.simplefilter("ignore")
lines = []


def fmt(v):
    if isinstance(v, tuple):
        return "(" + ", ".join(fmt(x) for x in v) + ")"
    if isinstance(v, np.ndarray) and v.dtype.names is not None:
        rows = [fmt(tuple(row)) for row in v.ravel()]
        return f"struct{v.shape!r}{v.dtype.descr!r}[" + ", ".join(rows) + "]"
    if isinstance(v, np.ndarray):
        return "array" + repr(v.shape) + "[" + ", ".join(fmt(x) for x in v.ravel()) + "]"
    if isinstance(v, (float, np.floating)):
        return type(v).__name__ + ":" + repr(float(v))
    return type(v).__name__ + ":" + repr(v)


def rec(label, fn, *args, **kwargs):
    try:
        out = fmt(fn(*args, **kwargs))
    except Exception as e:  # noqa: BLE001
        # type of the exception and of its direct base class (subclass must be preserved)
        out = "EXC " + type(e).__name__ + "/" + type(e).__mro__[1].__name__
    lines.append(f"{label} {args!r} {kwargs!r} -> {out}")


class Floaty:
    """Object with __float__ (accepted by numpy)."""

    def __float__(self):
        return 0.25

    def __repr__(self):
        return "Floaty()"


class BadFloat:
    """Object whose __float__ raises an unrelated error."""

    def __float__(self):
        raise KeyError("nope")

    def __repr__(self):
        return "BadFloat()"


m = gas.make_nonhydrocarbon_properties
he = ("He", 0.01, 4.0, 9.3, 33.0)
ar = ("Ar", 0.02, 39.9, 271.0, 705.0)

good = [
    (0.03, 0.012, 0.018),
    (0.0, 0.0, 0.0),
    (0, 0, 0),
    (1, 0, 0),
    (0.05, 0.01, 0.04),
    (np.float64(0.03), np.float32(0.5), np.int64(0)),
    (True, False, 0.1),
    (None, 0.1, 0.1),
    (float("nan"), float("inf"), -0.1),
    ("0.03", "0.012", 0.018),
    (0.1, 0.1, 0.1, he),
    (0.1, 0.1, 0.1, he, ar),
    (0.1, 0.1, 0.1, ("He", None, 4.0, 9.3, 33.0)),
    (0.1, 0.1, 0.1, (3, 0.01, 4.0, 9.3, 33.0)),
    (0.1, 0.1, 0.1, ("x" * 50, 0.01, 4.0, 9.3, 33.0)),
    (0.1, 0.1, 0.1, 5),
    (0.1, 0.1, 0.1, ("He", "1e400", 4.0, 9.3, 33.0)),
    (0.1, 0.1, 0.1, (b"He", 0.01, 4.0, 9.3, 33.0)),
    (0.1, 0.1, 0.1, ("\ud800", 0.01, 4.0, 9.3, 33.0)),
    (Floaty(), 0.1, 0.1),
    (np.array(0.1), 0.1, 0.1),
]
bad = [
    (0.1, 0.1, 0.1, ("He", 0.01, 4.0, 9.3)),
    (0.1, 0.1, 0.1, ("He", 0.01, 4.0, 9.3, 33.0, 1)),
    (0.1, 0.1, 0.1, ()),
    (0.1, 0.1, 0.1, list(he)),
    (0.1, 0.1, 0.1, {"name": "He"}),
    (0.1, 0.1, 0.1, ("He", "x", 4.0, 9.3, 33.0)),
    (0.1, 0.1, 0.1, "Helium"),
    (0.1, 0.1, 0.1, "He123"),
    (0.1, 0.1, 0.1, (b"\xff\xfe", 0.01, 4.0, 9.3, 33.0)),
    (0.1, 0.1, 0.1, he, ("Ar", 0.02)),
    ("a", 0.1, 0.1),
    (np.array([0.1, 0.2]), 0.1, 0.1),
    ([0.1], 0.1, 0.1),
    ((0.1,), 0.1, 0.1),
    (1 + 2j, 0.1, 0.1),
    (10**400, 0.1, 0.1),
    (BadFloat(), 0.1, 0.1),
    (Ellipsis, 0.1, 0.1),
    (0.1, 0.1),
    (0.1,),
    (),
]
for args in good:
    rec("nonhc-good", m, *args)
for args in bad:
    rec("nonhc-bad", m, *args)
rec("nonhc-kw", m, nitrogen=0.03, hydrogen_sulfide=0.012, co2=0.018)
rec("nonhc-kw-mixed", m, 0.03, co2=0.018, hydrogen_sulfide=0.012)
rec("nonhc-kw-unknown", m, 0.03, 0.012, 0.018, others=he)
rec("nonhc-kw-dup", m, 0.03, 0.012, 0.018, nitrogen=0.1)

# the returned array is a fresh one on every call and feeds the pseudocritical point
a = m(0.03, 0.012, 0.018)
b = m(0.03, 0.012, 0.018)
lines.append(f"fresh {a is b} {a.flags.writeable} {a.flags.owndata}")
for fluid in ("dry gas", "wet gas"):
    for sg in (0.6, 0.65, 0.8, 1.0):
        rec("pc", gas.pseudocritical_point_Sutton, sg, m(0.03, 0.012, 0.018), fluid)
        rec("pc-he", gas.pseudocritical_point_Sutton, sg, m(0.03, 0.012, 0.018, he, ar), fluid)
        rec("pc-zero", gas.pseudocritical_point_Sutton, sg, m(0, 0, 0), fluid)

base = {
    "N2": 0.03,
    "H2S": 0.012,
    "CO2": 0.018,
    "Gas Specific Gravity": 0.65,
    "Reservoir Temperature (deg F)": 400,
}
variants = {
    "ok": base,
    "str-n2": {**base, "N2": "abc"},
    "list-n2": {**base, "N2": [0.1]},
    "complex": {**base, "CO2": 1j},
    "missing": {k: v for k, v in base.items() if k != "H2S"},
}
for name, gv in variants.items():
    try:
        table = build_pvt_gas(gv, "dry gas", 200.0)
        for col in table.columns:
            lines.append(f"pvt {name} {col} " + fmt(table[col].to_numpy()))
    except Exception as e:  # noqa: BLE001
        lines.append(f"pvt {name} EXC {type(e).__name__}/{type(e).__mro__[1].__name__}")

with open(sys.argv[1], "w") as fh:
    fh.write("\n".join(lines) + "\n")
