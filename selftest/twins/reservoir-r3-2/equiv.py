"""Equivalence driver for bluebonnet.flow.reservoir (shared preamble)."""
from __future__ import annotations

import os
import sys
import warnings

import numpy as np
import pandas as pd

warnings.simplefilter("ignore")

from bluebonnet.flow import (  # noqa: E402
    FlowProperties,
    IdealReservoir,
    MultiPhaseReservoir,
    SinglePhaseReservoir,
    TwoPhaseReservoir,
)
from bluebonnet.flow import reservoir as resmod  # noqa: E402

DATA = os.environ.get("BB_DATA", "/tmp/twin3_reservoir/tests/data")
REN_GAS = {
    "P": "pressure",
    "Z-Factor": "z-factor",
    "Cg": "compressibility",
    "Viscosity": "viscosity",
    "Density": "density",
}
REN_OIL = {
    "P": "pressure",
    "Z-Factor": "z-factor",
    "Co": "compressibility",
    "Oil_Viscosity": "viscosity",
    "Oil_Density": "density",
}
pvt_gas = pd.read_csv(os.path.join(DATA, "pvt_gas.csv")).rename(columns=REN_GAS)
pvt_oil = pd.read_csv(os.path.join(DATA, "pvt_oil.csv")).rename(columns=REN_OIL)
FLUIDS = {"gas8000": FlowProperties(pvt_gas, 8000.0), "gas3000": FlowProperties(pvt_gas, 3000.0)}
try:
    FLUIDS["oil6000"] = FlowProperties(pvt_oil, 6000.0)
except Exception:  # the oil table may lack columns; gas alone is enough
    pass

OUT = []


def fmt(x):
    """Full-precision, deterministic text form of a result."""
    if x is None or isinstance(x, (str, bool)):
        return repr(x)
    if isinstance(x, (float, np.floating)):
        return repr(float(x))
    if isinstance(x, (int, np.integer)):
        return repr(int(x))
    if isinstance(x, np.ndarray):
        return f"nd{x.shape}{x.dtype}:" + repr(x.tolist())
    if isinstance(x, (list, tuple)):
        return "[" + ", ".join(fmt(v) for v in x) + "]"
    if isinstance(x, dict):
        return "{" + ", ".join(f"{k}: {fmt(v)}" for k, v in sorted(x.items())) + "}"
    return type(x).__name__


def run(label, func, anytype=False):
    """Record func() or the exception it raises (only 'EXC' when anytype)."""
    try:
        res = fmt(func())
    except Exception as e:  # noqa: BLE001
        res = "EXC" if anytype else "EXC:" + type(e).__name__
    OUT.append(f"{label} -> {res}")


def state(res):
    """Observable state of a reservoir object."""
    d = {}
    for k in ("time", "pseudopressure", "recovery"):
        if hasattr(res, k):
            v = getattr(res, k)
            d[k] = np.asarray(v) if isinstance(v, np.ndarray) else v
        else:
            d[k] = "<unset>"
    return d


TIMES = {
    "sq20": np.linspace(0, 2, 20) ** 2,
    "lin7": np.linspace(0, 0.5, 7),
    "one": np.array([0.0]),
    "two": np.array([0.0, 1e-3]),
    "nonmono": np.array([0.0, 1.0, 0.5, 2.0]),
    "long": np.linspace(0, 10, 60) ** 2,
}
CLASSES = {
    "Ideal": IdealReservoir,
    "Single": SinglePhaseReservoir,
    "Two": TwoPhaseReservoir,
}


def finish():
    with open(sys.argv[1], "w") as f:
        f.write("\n".join(OUT) + "\n")


# ---- twin2: early validation of nx / empty time in simulate ----
gas = FLUIDS["gas8000"]
EMPTY = np.array([])
for cname, cls in CLASSES.items():
    min_nodes = 2 if cname == "Ideal" else 1
    # valid runs: full results
    for fname, fluid in FLUIDS.items():
        for tname, time in TIMES.items():
            for nx in (1, 2, 3, 9, np.int64(6), np.int32(4)):
                lab = f"{cname}/{fname}/{tname}/nx{int(nx)}{type(nx).__name__}"
                res = cls(nx, 300.0, 8000.0, fluid)
                run(lab + "/simulate", lambda: res.simulate(time), anytype=nx < min_nodes)
                run(lab + "/state", lambda: state(res))
                run(lab + "/rf", lambda: res.recovery_factor(), anytype=nx < min_nodes)
    # node counts that never worked: only "an exception is raised"
    for nx in (-3, -1, 0, np.int64(0), np.int64(-2)) + ((1,) if cname == "Ideal" else ()):
        res = cls(nx, 300.0, 8000.0, gas)
        run(f"{cname}/badnx{int(nx)}/construct", lambda: (res.nx, res.pressure_fracface))
        run(f"{cname}/badnx{int(nx)}/simulate", lambda: res.simulate(TIMES["lin7"]), anytype=True)
        run(f"{cname}/badnx{int(nx)}/state", lambda: state(res))
        run(f"{cname}/badnx{int(nx)}/rf", lambda: res.recovery_factor(), anytype=True)
    # node counts of the wrong type: same exception type as before
    for nx in (2.5, 4.0, "a", None, True, False, np.float64(3.0), [3]):
        res = cls(nx, 300.0, 8000.0, gas)
        run(f"{cname}/oddnx{nx!r}/simulate", lambda: res.simulate(TIMES["lin7"]))
        run(f"{cname}/oddnx{nx!r}/state", lambda: state(res))
    # empty times: only "an exception is raised"
    for tname, time in (("empty", EMPTY), ("emptylist", []), ("empty2d", np.empty((0, 3)))):
        res = cls(5, 300.0, 8000.0, gas)
        run(f"{cname}/{tname}/simulate", lambda: res.simulate(time), anytype=True)
        run(f"{cname}/{tname}/state", lambda: fmt(state(res)["pseudopressure"]))
        run(f"{cname}/{tname}/hasrecovery", lambda: hasattr(res, "recovery"))
    # odd times: same exception type (or result) as before
    for tname, time in (
        ("list", [0.0, 0.1, 0.4]),
        ("tuple", (0.0, 0.1, 0.4)),
        ("none", None),
        ("scalar", 5.0),
        ("zerod", np.array(1.0)),
        ("twod", np.array([[0.0, 1.0], [2.0, 3.0]])),
        ("cols0", np.empty((3, 0))),
        ("nan", np.array([0.0, np.nan, 1.0])),
        ("ints", np.arange(4)),
        ("series", pd.Series([0.0, 0.2, 0.9])),
    ):
        res = cls(5, 300.0, 8000.0, gas)
        run(f"{cname}/time-{tname}/simulate", lambda: res.simulate(time))
        run(f"{cname}/time-{tname}/pp", lambda: res.pseudopressure)
    # a failed re-simulation leaves the same state behind
    res = cls(5, 300.0, 8000.0, gas)
    run(f"{cname}/resim/first", lambda: (res.simulate(TIMES["lin7"]), res.recovery_factor())[1])
    run(f"{cname}/resim/empty", lambda: res.simulate(EMPTY), anytype=True)
    run(f"{cname}/resim/state", lambda: state(res))
    run(f"{cname}/resim/rf", lambda: res.recovery_factor(), anytype=True)
    res.nx = 0
    run(f"{cname}/resim/nx0", lambda: res.simulate(TIMES["two"]), anytype=True)
    run(f"{cname}/resim/state2", lambda: state(res))
# frac-face pressure series for the real-fluid reservoirs
for cname in ("Single",):
    cls = CLASSES[cname]
    time = TIMES["lin7"]
    for pname, pf in (
        ("ok", np.linspace(1000.0, 200.0, 7)),
        ("short", np.linspace(1000.0, 200.0, 6)),
        ("list", [900.0] * 7),
        ("toohigh", np.full(7, 2e4)),
    ):
        res = cls(6, 300.0, 8000.0, gas)
        run(f"{cname}/pf-{pname}/simulate", lambda: res.simulate(time, pf))
        run(f"{cname}/pf-{pname}/state", lambda: state(res))
    res = cls(6, 300.0, 8000.0, gas)
    run(f"{cname}/pf-empty/simulate", lambda: res.simulate(EMPTY, EMPTY), anytype=True)
    run(f"{cname}/pf-mismatch-empty/simulate", lambda: res.simulate(EMPTY, np.ones(3)), anytype=True)
    res = cls(0, 300.0, 8000.0, gas)
    run(f"{cname}/pf-nx0/simulate", lambda: res.simulate(time, np.full(7, 500.0)), anytype=True)
res = MultiPhaseReservoir(0, 100.0, 8000.0, gas)
run("Multi/simulate", lambda: res.simulate(EMPTY))
finish()
