"""Equivalence probe for refactoring 3 (explicit TypeError for bare numbers in gas_FVF / gas_viscosity)."""
import decimal
import fractions
import sys
import warnings

import numpy as np
import pandas as pd

from bluebonnet.fluids import Fluid

warnings.simplefilter("ignore")
out = []


def fmt(x):
    if isinstance(x, np.ndarray):
        if x.dtype == object:
            return f"ndarray{x.shape}:object:" + repr(x.tolist())
        return f"ndarray{x.shape}:{x.dtype}:[" + ",".join(repr(v) for v in x.ravel().tolist()) + "]"
    return f"{type(x).__name__}:{x!r}"


def record(label, fn):
    try:
        r = fn()
    except Exception as e:  # noqa: BLE001
        out.append(f"{label}: EXC {type(e).__name__}")
        return
    out.append(f"{label}: {fmt(r)}")


pressures = {
    "float": 3000.0,
    "int": 3000,
    "bool": True,
    "complex": 3000 + 0j,
    "nan": float("nan"),
    "fraction": fractions.Fraction(3000, 1),
    "decimal": decimal.Decimal("3000"),
    "npfloat": np.float64(3000.0),
    "npf32": np.float32(3000.0),
    "npint": np.int64(3000),
    "npbool": np.bool_(True),
    "npcomplex": np.complex128(3000.0),
    "arr0d": np.array(3000.0),
    "none": None,
    "list_int": [1000, 2000, 3000],
    "list_float": [14.7, 1000.5, 2000.25],
    "tuple": (1000.0, 2000.0),
    "arr_float": np.array([14.7, 100.0, 1000.0, 2000.0, 14000.0]),
    "arr_one": np.array([5000.0]),
    "arr_int": np.array([1000, 2000, 4000]),
    "arr_f32": np.array([1000.0, 2000.0, 12345.678], dtype=np.float32),
    "arr_zero": np.array([0.0, 100.0]),
    "arr_neg": np.array([100.0, -100.0]),
    "arr_nan": np.array([100.0, np.nan]),
    "arr_inf": np.array([np.inf]),
    "arr_2d": np.array([[1000.0, 2000.0], [3000.0, 4000.0]]),
    "arr_2d_one": np.array([[1000.0]]),
    "arr_empty": np.array([]),
    "arr_empty_2d": np.zeros((0, 3)),
    "arr_obj": np.array([1000.0, 2000], dtype=object),
    "arr_str": np.array(["a", "b"]),
    "series": pd.Series([1000.0, 2000.0, 3000.0]),
    "str_empty": "",
    "str": "12",
    "dict": {1000.0: 1, 2000.0: 2},
    "range": range(1000, 5000, 1000),
    "grid": np.arange(10.0, 3000.0, 90.0),
}

fluids = {
    "std": Fluid(200, 35, 0.8, 650),
    "hot": Fluid(400.0, 35, 0.65, 0, salinity=15.0, water_saturation_initial=0.2),
    "npT": Fluid(np.float64(150.5), 35, np.float64(0.7), 650),
    "noneT": Fluid(None, 35, 0.8, 650),
    "noneSG": Fluid(200, 35, None, 650),
}
crit = {"dry": (-102.21827232417752, 648.510797253794), "wet": (-72.20351526841193, 653.2582064200534),
        "bad": (None, 650.0), "zero_ppc": (-100.0, 0.0)}

for fname, fl in fluids.items():
    for cname, (tpc, ppc) in crit.items():
        for pname, p in pressures.items():
            record(f"FVF|{fname}|{cname}|{pname}", lambda fl=fl, p=p, tpc=tpc, ppc=ppc: fl.gas_FVF(p, tpc, ppc))
            record(f"visc|{fname}|{cname}|{pname}", lambda fl=fl, p=p, tpc=tpc, ppc=ppc: fl.gas_viscosity(p, tpc, ppc))
        record(f"FVF|{fname}|{cname}|generator", lambda fl=fl, tpc=tpc, ppc=ppc: fl.gas_FVF((v for v in (1000.0, 2000.0)), tpc, ppc))
        record(f"visc|{fname}|{cname}|generator", lambda fl=fl, tpc=tpc, ppc=ppc: fl.gas_viscosity((v for v in (1000.0, 2000.0)), tpc, ppc))

fl = fluids["std"]
record("kw_fvf", lambda: fl.gas_FVF(pressure=np.array([100.0]), temperature_pseudocritical=-102.0, pressure_pseudocritical=649.0))
record("kw_visc", lambda: fl.gas_viscosity(pressure=np.array([100.0]), temperature_pseudocritical=-102.0, pressure_pseudocritical=649.0))
record("missing_args", lambda: fl.gas_FVF(3000.0))
record("missing_args_v", lambda: fl.gas_viscosity(3000.0))
record("missing_args_arr", lambda: fl.gas_FVF(np.array([3000.0])))
# untouched siblings
record("water_fvf_scalar", lambda: fl.water_FVF(3000.0))
record("water_fvf", lambda: fl.water_FVF(np.array([3000.0])))
record("oil_visc", lambda: fl.oil_viscosity(np.array([1000.0, 3000.0])))
record("bubble", lambda: fl.pressure_bubblepoint())

with open(sys.argv[1], "w") as f:
    f.write("\n".join(out) + "\n")
