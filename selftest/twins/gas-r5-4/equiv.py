"""Equivalence driver for twin4: explicit convergence check of the DAK root solve (z_factor_DAK)."""
import sys
import warnings

import numpy as np

from bluebonnet.fluids import build_pvt_gas, gas

warnings.simplefilter("ignore")


def show(x):
    if isinstance(x, np.ndarray):
        return "ndarray%s%s[%s]" % (x.shape, x.dtype, ", ".join(show(v) for v in x.ravel()))
    if isinstance(x, (tuple, list)):
        return type(x).__name__ + "(" + ", ".join(show(v) for v in x) + ")"
    if isinstance(x, (float, np.floating)):
        return "%s:%s" % (type(x).__name__, float(x).hex())
    return "%s:%r" % (type(x).__name__, x)


def call(f, *a, **k):
    try:
        return show(f(*a, **k))
    except Exception as e:  # noqa: BLE001
        return "EXC " + type(e).__name__


out = []
temps = [32, 60.0, 150.0, 200.0, 400.0, 650.0, np.float64(275.5)]
pressures = [
    1e-300, 1e-6, 0.5, 14.7, 100.0, 1000, 2000.0, 3000.0, 5000.0, 7000.0, 12000.0, 20000.0,
    50000.0, 1e6, 1e12, 1e300, np.float64(4500.25), np.float32(800.0),
]
pcs = [(-102.0, 649.0), (-72.2, 653.25), (-60, 670), (-150.0, 500.0), (100.0, 1000.0)]
for T in temps:
    for p in pressures:
        for tpc, ppc in pcs:
            tag = f"({T!r},{p!r},{tpc},{ppc})"
            out.append("z" + tag + " = " + call(gas.z_factor_DAK, T, p, tpc, ppc))
            out.append("c" + tag + " = " + call(gas.compressibility_DAK, T, p, tpc, ppc))
            out.append("b" + tag + " = " + call(gas.b_factor_DAK, T, p, tpc, ppc))
            out.append("rho" + tag + " = " + call(gas.density_DAK, T, p, tpc, ppc, 0.7))
            out.append("mu" + tag + " = " + call(gas.viscosity_Sutton, T, p, tpc, ppc, 0.7))
# a fine pressure sweep like build_pvt_gas does
for p in np.arange(10.0, 14000.0, 137.0):
    out.append(f"zsweep({p!r}) = " + call(gas.z_factor_DAK, 300.0, p, -102.2, 648.5))
for p in range(10, 14000, 411):
    out.append(f"zsweep_int({p!r}) = " + call(gas.z_factor_DAK, 180, p, -80, 660))
# keyword calls
out.append(
    "z_kw = "
    + call(gas.z_factor_DAK, temperature=200.0, pressure=2000.0, temperature_pseudocritical=-90.0, pressure_pseudocritical=660.0)
)
# degenerate / failing inputs
bad = [0.0, 0, -0.0, -100.0, -1e4, float("nan"), float("inf"), -float("inf"), "100", None,
       np.array([100.0, 200.0]), np.array([100.0]), [100.0], 1 + 2j]
for p in bad:
    out.append(f"z_badp({p!r}) = " + call(gas.z_factor_DAK, 200.0, p, -102.0, 649.0))
    out.append(f"c_badp({p!r}) = " + call(gas.compressibility_DAK, 200.0, p, -102.0, 649.0))
for T in [-459.67, -460.0, -1000.0, 1e6, 1e300, float("nan"), float("inf"), "200", None, np.array([200.0, 300.0])]:
    out.append(f"z_badT({T!r}) = " + call(gas.z_factor_DAK, T, 1000.0, -102.0, 649.0))
for tpc in [-459.67, -500.0, 1e6, float("nan"), "x", None]:
    out.append(f"z_badtpc({tpc!r}) = " + call(gas.z_factor_DAK, 200.0, 1000.0, tpc, 649.0))
for ppc in [0.0, 0, -649.0, 1e-300, 1e300, float("nan"), float("inf"), "x", None]:
    out.append(f"z_badppc({ppc!r}) = " + call(gas.z_factor_DAK, 200.0, 1000.0, -102.0, ppc))
# very low reduced temperature: bracket may hold no root or several
for T in [-400.0, -300.0, -200.0, -150.0, -110.0, -100.0, -50.0, 0.0]:
    for p in [100.0, 1000.0, 5000.0, 15000.0]:
        out.append(f"z_cold({T},{p}) = " + call(gas.z_factor_DAK, T, p, -102.0, 649.0))
# downstream
for p in [100.0, 1000.0, 5000.0, 14.7, 10.0]:
    out.append(f"m({p}) = " + call(gas.pseudopressure_Hussainy, 400.0, p, -102.0, 649.0, 0.65))


def pvt(dryness):
    df = build_pvt_gas(
        {"N2": 0.03, "H2S": 0.012, "CO2": 0.018, "Gas Specific Gravity": 0.65,
         "Reservoir Temperature (deg F)": 300.0},
        dryness,
        8000,
    )
    return [df[c].to_numpy()[::5] for c in df.columns]


out.append("pvt_dry = " + call(pvt, "dry gas"))
out.append("pvt_wet = " + call(pvt, "wet gas"))

with open(sys.argv[1], "w") as fh:
    fh.write("\n".join(out) + "\n")
