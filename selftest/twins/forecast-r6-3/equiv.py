"""Equivalence driver for bluebonnet.forecast.forecast (Bounds, ForecasterOnePhase)."""

from __future__ import annotations

import sys
import warnings

import numpy as np
import pandas as pd

from bluebonnet.flow import IdealReservoir
from bluebonnet.forecast import Bounds, ForecasterOnePhase
from bluebonnet.forecast import forecast as fmod

warnings.simplefilter("ignore")
out = []


def show(x):
    if isinstance(x, pd.Series):
        return "Series(" + show(x.to_numpy()) + "|idx=" + repr(list(x.index)) + ")"
    if isinstance(x, np.ndarray):
        return f"ndarray{x.shape}{x.dtype}[" + ",".join(show(v) for v in x.ravel().tolist()) + "]"
    if isinstance(x, (list, tuple)):
        return type(x).__name__ + "(" + ",".join(show(v) for v in x) + ")"
    return type(x).__name__ + ":" + repr(x)


def rec(label, fn):
    try:
        res = show(fn())
    except Exception as e:  # noqa: BLE001
        res = "EXC " + type(e).__name__ + ": " + str(e)
    out.append(label + " -> " + res)


# ---------------------------------------------------------------- Bounds
bound_args = [
    ((0, 1), (2, 3)),
    ((0.0, np.inf), (1e-10, np.inf)),
    ((1, 2, 3), (0, 1)),
    ((1, 2), (1,)),
    ((1,), (1,)),
    ((), ()),
    ((1, 0), (0, 1)),
    ((0, 1), (20, 10)),
    ((1, 0), (20, 10)),
    ((1, 1), (0, 1)),
    ((0, 1), (5.0, 5.0)),
    ((-0.0, 0.0), (0, 1)),
    ((np.nan, 1.0), (0, 1)),
    ((0.0, np.nan), (np.nan, 1)),
    ([0, 10], [1, 2]),
    ([3, 1], [1, 2]),
    (np.array([0.0, 10.0]), np.array([1.0, 2.0])),
    (np.array([10.0, 0.0]), np.array([1.0, 2.0])),
    ((np.float64(1.5), np.float64(2.5)), (np.float32(0.5), np.float32(1.5))),
    ((np.float64(2.5), np.float64(1.5)), (0, 1)),
    ((-5, -1), (-3.5, -0.25)),
    ((-1e300, 1e300), (1e-300, 1e300)),
    ((1e308, 1.7e308), (1e308, 1.7e308)),
    (("b", "a"), (0, 1)),
    ((0, "a"), (0, 1)),
    (5, (0, 1)),
    ((0, 1), None),
    ("abc", "cd"),
    ((True, False), (0, 1)),
    ((10**400, 10**401), (0, 1)),
]
good_bounds = []
for i, (M, tau) in enumerate(bound_args):
    rec(f"Bounds[{i}]", lambda M=M, tau=tau: repr(Bounds(M=M, tau=tau)))
    try:
        b = Bounds(M, tau)
    except Exception:  # noqa: BLE001
        continue
    good_bounds.append((i, b))
    rec(f"Bounds[{i}].fit_bounds", b.fit_bounds)

rec("default_bounds", lambda: repr(fmod._default_bounds))
rec("default_bounds.fit_bounds", fmod._default_bounds.fit_bounds)
good_bounds.append(("default", fmod._default_bounds))

guess_vals = [-1e9, -3.0, -0.0, 0.0, 0.5, 1.0, 1.5, 2.0, 2.5, 3.0, 7, 10, 11, 1e12, 1e305, 1.5e308, np.inf,
              -np.inf, np.nan, np.float64(0.75), np.float64(1e9), np.float32(12.5), True]
for i, b in good_bounds:
    for g0 in guess_vals:
        rec(f"reg[{i}]([{g0!r}])", lambda b=b, g0=g0: b.regularize_initial_guess([g0]))
        for g1 in guess_vals[::3]:
            rec(f"reg[{i}]([{g0!r},{g1!r}])", lambda b=b, g0=g0, g1=g1: b.regularize_initial_guess([g0, g1]))
    rec(f"reg[{i}]([])", lambda b=b: b.regularize_initial_guess([]))
    rec(f"reg[{i}](3-list)", lambda b=b: b.regularize_initial_guess([1e9, 1e9, 1e9]))
    rec(f"reg[{i}](ndarray)", lambda b=b: b.regularize_initial_guess(np.array([1e9, -1e9])))
    rec(f"reg[{i}](tuple)", lambda b=b: b.regularize_initial_guess((1e9, -1e9)))
    rec(f"reg[{i}](tuple-inside)", lambda b=b: b.regularize_initial_guess((0.5, 1.5)))
    rec(f"reg[{i}](str)", lambda b=b: b.regularize_initial_guess(["x"]))

    def alias(b=b):
        g = [1e9, -1e9]
        r = b.regularize_initial_guess(g)
        return [r is g, g]

    rec(f"reg[{i}] alias", alias)


# ---------------------------------------------------------------- curves
def rf_analytic(ts):
    return 1.0 - np.exp(-np.sqrt(ts))


calls = []


def rf_logged(ts):
    calls.append(show(ts))
    return 1.0 - np.exp(-np.sqrt(ts))


def rf_list(ts):
    return [0.25, 0.5]


def rf_bad(ts):
    raise RuntimeError("boom")


t_end, nx, nt = 6.0, 40, 400
time_scaled = np.linspace(0, np.sqrt(t_end), nt) ** 2
res = IdealReservoir(nx, 500.0, 5000.0, None)
res.simulate(time_scaled)
res.recovery_factor()
rf_ideal = res.recovery_factor_interpolator()

# -------------------------------------------------- _forecast_cum_onephase
times = [
    np.array([0.0, 0.5, 1.0, 2.5, 5.0]),
    np.array([[0.1, 0.2], [0.3, 0.4]]),
    np.array([], dtype=float),
    np.array([1, 2, 3]),
    2.0,
    np.float64(3.0),
    3,
    [1.0, 2.0],
    (1.0, 2.0),
    pd.Series([1.0, 2.0, 4.0], index=[5, 3, 9]),
    pd.Series([1.0, 2.0], index=["a", "b"]),
    np.array([-1.0, 1.0]),
    np.array([np.nan, np.inf, 1.0]),
    None,
    "t",
]
Ms = [300.0, 2, np.float64(1.5), 0.0, -4.0, np.inf, np.nan, np.array([1.0, 2.0]), None, "M"]
taus = [3.0, 1, np.float64(0.5), 0.0, -2.0, np.inf, np.nan, np.array([1.0, 2.0]), None, "tau"]
for ci, curve in enumerate([rf_analytic, rf_logged, rf_list, rf_bad, None]):
    for ti, t in enumerate(times):
        for mi, M in enumerate(Ms):
            for ki, tau in enumerate(taus):
                if ci >= 2 and (mi > 2 or ki > 2):
                    continue
                rec(f"_fc[{ci},{ti},{mi},{ki}]",
                    lambda curve=curve, t=t, M=M, tau=tau: fmod._forecast_cum_onephase(curve, t, M, tau))
for ti, t in enumerate([np.array([0.0, 0.5, 1.0, 2.5, 5.0]), 2.0, np.array([100.0]), np.array([])]):
    rec(f"_fc ideal[{ti}]", lambda t=t: fmod._forecast_cum_onephase(rf_ideal, t, 300.0, 3.0))

# ---------------------------------------------------------- forecast_cum
fc = ForecasterOnePhase(rf_analytic)
rec("repr forecaster", lambda: repr(ForecasterOnePhase(None)))
rec("fc unfit", lambda: fc.forecast_cum(np.array([1.0, 2.0])))
rec("fc unfit M", lambda: fc.forecast_cum(np.array([1.0, 2.0]), M=2.0))
rec("fc unfit tau", lambda: fc.forecast_cum(np.array([1.0, 2.0]), tau=2.0))
rec("fc unfit both", lambda: fc.forecast_cum(np.array([1.0, 2.0]), 2.0, 4.0))
rec("fc unfit pos", lambda: fc.forecast_cum(np.array([1.0, 2.0]), 2.0))
fc.M_ = 10.0
rec("fc M_ only", lambda: fc.forecast_cum(np.array([1.0, 2.0])))
rec("fc M_ only +tau", lambda: fc.forecast_cum(np.array([1.0, 2.0]), tau=0.5))
fc.tau_ = 4.0
for ti, t in enumerate(times):
    rec(f"fc set[{ti}]", lambda t=t: fc.forecast_cum(t))
    rec(f"fc set[{ti}] M0", lambda t=t: fc.forecast_cum(t, M=0))
    rec(f"fc set[{ti}] tau0", lambda t=t: fc.forecast_cum(t, tau=0))
    rec(f"fc set[{ti}] tau0.0", lambda t=t: fc.forecast_cum(t, tau=0.0))
    rec(f"fc set[{ti}] Mfalse", lambda t=t: fc.forecast_cum(t, M=False, tau=True))
    rec(f"fc set[{ti}] both", lambda t=t: fc.forecast_cum(t, M=7.5, tau=1.25))
    rec(f"fc set[{ti}] arr", lambda t=t: fc.forecast_cum(t, M=np.array([1.0, 2.0]), tau=np.array([2.0, 4.0])))
del fc.M_
rec("fc tau_ only", lambda: fc.forecast_cum(np.array([1.0, 2.0])))
rec("fc tau_ only +M", lambda: fc.forecast_cum(np.array([1.0, 2.0]), M=3.0))


# ------------------------------------------------------------------- fit
def do_fit(curve, t, q, tau=None, bounds=None, fc_t=None):
    f = ForecasterOnePhase(curve) if bounds is None else ForecasterOnePhase(curve, bounds)
    f.fit(t, q) if tau is None else f.fit(t, q, tau)
    d = dict(vars(f))
    keys = sorted(d)
    res = [keys, f.M_, f.tau_, f.time_on_production is t, f.cum_production is q]
    res.append(f.forecast_cum(time_scaled[::40] if fc_t is None else fc_t))
    res.append(f.forecast_cum(np.array([1.0, 10.0]), tau=2.0))
    res.append(f.forecast_cum(np.array([1.0, 10.0]), M=2.0))
    return res


def do_fit_keep(curve, t, q, tau=None):
    """Attributes left behind when the fit raises."""
    f = ForecasterOnePhase(curve)
    try:
        f.fit(t, q, tau)
    except Exception as e:  # noqa: BLE001
        return [type(e).__name__, sorted(vars(f))]
    return ["ok", sorted(vars(f))]


t_days = time_scaled[1:] * 3.0
for name, curve in [("analytic", rf_analytic), ("ideal", rf_ideal)]:
    q = 300.0 * curve(t_days / 3.0)
    rec(f"fit {name}", lambda: do_fit(curve, t_days, q))
    rec(f"fit {name} tau", lambda: do_fit(curve, t_days, q, 3.0))
    rec(f"fit {name} tau int", lambda: do_fit(curve, t_days, q, 3))
    rec(f"fit {name} tau wrong", lambda: do_fit(curve, t_days, q, 7.5))
    rec(f"fit {name} tau np", lambda: do_fit(curve, t_days, q, np.float64(2.0)))
    rec(f"fit {name} tau 0.0", lambda: do_fit_keep(curve, t_days, q, 0.0))
    rec(f"fit {name} bounds", lambda: do_fit(curve, t_days, q, None, Bounds((0, 1000.0), (0.1, 50.0))))
    rec(f"fit {name} bounds tight", lambda: do_fit(curve, t_days, q, None, Bounds((0, 100.0), (5.0, 50.0))))
    rec(f"fit {name} bounds hi", lambda: do_fit(curve, t_days, q, None, Bounds((1000.0, 2000.0), (50.0, 60.0))))
    rec(f"fit {name} bounds tau", lambda: do_fit(curve, t_days, q, 4.0, Bounds((0, 100.0), (5.0, 50.0))))
    rec(f"fit {name} bounds tau hi", lambda: do_fit(curve, t_days, q, 4.0, Bounds((1000.0, 2000.0), (5.0, 50.0))))
    rng = np.random.default_rng(7)
    qn = q * (1 + 0.02 * rng.standard_normal(q.shape))
    rec(f"fit {name} noisy", lambda: do_fit(curve, t_days, qn))
    rec(f"fit {name} noisy tau", lambda: do_fit(curve, t_days, qn, 2.5))
    rec(f"fit {name} short", lambda: do_fit(curve, t_days[:3], q[:3]))
    rec(f"fit {name} two pts", lambda: do_fit(curve, t_days[:2], q[:2]))
    rec(f"fit {name} one pt", lambda: do_fit(curve, t_days[:1], q[:1]))
    rec(f"fit {name} one pt tau", lambda: do_fit(curve, t_days[:1], q[:1], 3.0))
    rec(f"fit {name} lists", lambda: do_fit(curve, list(t_days[::20]), list(q[::20])))
    rec(f"fit {name} lists tau", lambda: do_fit(curve, list(t_days[::20]), list(q[::20]), 3.0))
    rec(f"fit {name} tuple t", lambda: do_fit(curve, tuple(t_days[::20]), q[::20]))
    s_t, s_q = pd.Series(t_days), pd.Series(q)
    rec(f"fit {name} series", lambda: do_fit(curve, s_t, s_q))
    rec(f"fit {name} series tau", lambda: do_fit(curve, s_t, s_q, 3.0))
    rec(f"fit {name} series keep", lambda: do_fit_keep(curve, s_t, s_q))
    rec(f"fit {name} series t only", lambda: do_fit(curve, s_t, q))
    rec(f"fit {name} series q only", lambda: do_fit(curve, t_days, s_q))
    s_t2 = pd.Series(t_days, index=np.arange(len(t_days)) - len(t_days))
    s_q2 = pd.Series(q, index=np.arange(len(q)) - len(q))
    rec(f"fit {name} series negidx", lambda: do_fit(curve, s_t2, s_q2))
    rec(f"fit {name} series negidx tau", lambda: do_fit(curve, s_t2, s_q2, 3.0))
    rec(f"fit {name} empty", lambda: do_fit_keep(curve, np.array([]), np.array([])))
    rec(f"fit {name} empty tau", lambda: do_fit_keep(curve, np.array([]), np.array([]), 2.0))
    rec(f"fit {name} mismatch", lambda: do_fit_keep(curve, t_days, q[:-1]))
    rec(f"fit {name} nan q", lambda: do_fit_keep(curve, t_days, np.where(t_days > 5, np.nan, q)))
    rec(f"fit {name} nan last", lambda: do_fit_keep(curve, t_days, np.append(q[:-1], np.nan)))
    rec(f"fit {name} zero q", lambda: do_fit(curve, t_days, np.zeros_like(q)))
    rec(f"fit {name} neg q", lambda: do_fit(curve, t_days, -q))
    rec(f"fit {name} scalar", lambda: do_fit_keep(curve, 3.0, 4.0))
    rec(f"fit {name} None", lambda: do_fit_keep(curve, None, None))
    rec(f"fit {name} 2d", lambda: do_fit_keep(curve, t_days.reshape(-1, 1), q.reshape(-1, 1)))
    rec(f"fit {name} int data", lambda: do_fit(curve, np.arange(1, 30), np.arange(1, 30) * 3))
rec("fit bad curve", lambda: do_fit_keep(rf_bad, t_days, 300.0 * rf_analytic(t_days / 3.0)))
rec("fit list curve", lambda: do_fit_keep(rf_list, t_days[:2], np.array([1.0, 2.0])))
rec("fit None curve", lambda: do_fit_keep(None, t_days[:2], np.array([1.0, 2.0])))

calls.clear()
rec("fit logged", lambda: do_fit(rf_logged, t_days[::50], 300.0 * rf_analytic(t_days[::50] / 3.0)))
rec("fit logged tau", lambda: do_fit(rf_logged, t_days[::50], 300.0 * rf_analytic(t_days[::50] / 3.0), 3.0))
out.append("logged calls: %d" % len(calls))
out.extend(calls)

rec("module names", lambda: sorted(n for n in vars(fmod) if not n.startswith("_")))

with open(sys.argv[1], "w") as fh:
    fh.write("\n".join(out) + "\n")
