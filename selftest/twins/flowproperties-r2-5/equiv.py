"""Equivalence probe: writes full-precision results of the touched functions to <outfile>."""

from __future__ import annotations

import os
import sys
import warnings

import numpy as np
import pandas as pd
from scipy.interpolate import interp1d

from bluebonnet.flow import flowproperties as fp

DATA = os.environ.get("BB_DATA", "/tmp/twin2_flowproperties/tests/data")
LINES: list[str] = []


def fmt(x, depth=0):
    """Full-precision, deterministic text for numbers / arrays / tables."""
    if isinstance(x, pd.DataFrame):
        cols = ", ".join(f"{c!r}: {fmt(x[c].to_numpy(), depth + 1)}" for c in x.columns)
        return f"DataFrame(index={list(x.index)[:3]}..{len(x.index)}, {cols})"
    if isinstance(x, pd.Series):
        return f"Series(name={x.name!r}, {fmt(x.to_numpy(), depth + 1)})"
    if isinstance(x, np.ndarray):
        if x.dtype.names:
            inner = ", ".join(f"{n}: {fmt(x[n], depth + 1)}" for n in x.dtype.names)
            return f"recarray(shape={x.shape}, {inner})"
        flat = [fmt(v, depth + 1) for v in x.ravel().tolist()]
        return f"ndarray(shape={x.shape}, dtype={x.dtype}, [{', '.join(flat)}])"
    if isinstance(x, (float, np.floating)):
        return repr(float(x)) + "|" + float(x).hex()
    if isinstance(x, (int, np.integer, str, bool, type(None))):
        return repr(x)
    if isinstance(x, (list, tuple)):
        return type(x).__name__ + "(" + ", ".join(fmt(v, depth + 1) for v in x) + ")"
    if isinstance(x, dict):
        return "{" + ", ".join(f"{k!r}: {fmt(x[k], depth + 1)}" for k in sorted(x, key=str)) + "}"
    return f"<{type(x).__name__}>"


def record(label, thunk, with_message=True):
    """Run thunk, log its value or exception type, and any warnings raised on the way."""
    with warnings.catch_warnings(record=True) as caught:
        warnings.simplefilter("always")
        try:
            out = fmt(thunk())
        except Exception as exc:  # noqa: BLE001
            msg = str(exc)
            # messages built from sets depend on the hash seed: keep only the type
            if not with_message or "{" in msg or "Need pvt_props" in msg:
                msg = ""
            out = f"RAISES {type(exc).__name__} {msg}"
    # distinct warnings only: hoisting a repeated pure evaluation legitimately changes how
    # often numpy repeats the very same RuntimeWarning under the "always" filter
    warns = sorted(
        {
            f"{w.category.__name__}:{str(w.message)[:60]}@{os.path.basename(w.filename)}"
            for w in caught
        }
    )
    LINES.append(f"{label} => {out} ;; warnings={warns}")


def flush():
    with open(sys.argv[1], "w") as fh:
        fh.write("\n".join(LINES) + "\n")
    print(f"wrote {len(LINES)} records to {sys.argv[1]}")


SW = 0.1


def load_multiphase_table():
    pvt_oil = pd.read_csv(os.path.join(DATA, "pvt_oil.csv"))
    pvt_water = pd.read_csv(os.path.join(DATA, "pvt_water.csv")).rename(
        columns={"T": "temperature", "P": "pressure", "Viscosity": "mu_w"}
    )
    rename_cols = {
        "T": "temperature",
        "P": "pressure",
        "Oil_Viscosity": "mu_o",
        "Gas_Viscosity": "mu_g",
        "Rso": "Rs",
    }
    df = (
        pvt_water.drop(columns=["temperature"])
        .merge(pvt_oil.rename(columns=rename_cols), on="pressure")
        .assign(Rv=0)
    )
    df["So"] = (1 - SW) / ((df["Rs"].max() - df["Rs"]) * df["Bg"] / df["Bo"] / 5.61458 + 1)
    return df


def make_relperm(**kw):
    base = dict(n_o=1, n_g=1, n_w=1, S_or=0, S_gc=0, S_wc=0.1, k_ro_max=1, k_rw_max=1, k_rg_max=1)
    base.update(kw)
    return fp.RelPermParams(**base)


REFERENCE_DENSITIES = {"rho_o0": 141.5 / (45 + 131.5), "rho_g0": 1.03e-3, "rho_w0": 1}


def make_pvt_kr(df_pvt, df_kr, volatile=False):
    """Interpolator dictionaries as FlowPropertiesTwoPhase.from_table builds them."""
    cols = ["pseudopressure", "pressure", "Bo", "Bg", "Bw", "Rs", "Rv", "mu_o", "mu_g", "mu_w", "So"]
    table = df_pvt.copy()
    if volatile:
        table["Rv"] = 1e-5 * (1 + np.sqrt(table["pressure"] / 1000.0))
    pvt = {c: interp1d(table["pressure"], table[c], fill_value="extrapolate") for c in cols}
    pvt.update(REFERENCE_DENSITIES)
    kr = {f: interp1d(df_kr["So"], df_kr[f]) for f in ("kro", "krg", "krw")}
    return pvt, kr


# ---------------------------------------------------------------- twin 5 probes
class BareTable:
    """Mapping-like table without a .copy method (exercises the deepcopy branch)."""

    def __init__(self, pressure, pseudopressure):
        self.pressure = pressure
        self.pseudopressure = pseudopressure

    def __getitem__(self, key):
        return getattr(self, key)

    def __setitem__(self, key, value):
        setattr(self, key, value)


class Namespace(dict):
    """dict with attribute access (has .copy, which returns a plain dict)."""

    __getattr__ = dict.__getitem__


def describe(obj):
    probe_m = np.linspace(-0.3, 1.6, 39)
    props = obj.pvt_props
    p_probe = np.array([0.0, 10.0, 999.0, 4321.0, 9000.0])
    so_probe = np.array([0.0, 0.2, 0.4, 0.9])
    return [
        type(obj).__name__,
        list(props),
        obj.m_i,
        {k: np.asarray(props[k]) for k in props},
        obj.alpha(probe_m),
        sorted(obj.pvt, key=str),
        {k: (v(p_probe) if callable(v) else v) for k, v in obj.pvt.items()},
        {k: v(so_probe) for k, v in obj.kr.items()},
        list(obj.kr),
        {k: getattr(v, "fill_value", None) for k, v in obj.pvt.items()},
        sorted(vars(obj)),
    ]


def main():
    df_pvt = load_multiphase_table()
    scaled = fp.rescale_pseudopressure(df_pvt, 1000, 8000.0)
    df_kr = fp.relative_permeabilities_twophase(make_relperm())
    df_kr3 = fp.relative_permeabilities_twophase(
        make_relperm(n_o=2.5, n_g=1.7, n_w=3, S_or=0.15, S_gc=0.05, k_ro_max=0.8, k_rg_max=0.9, k_rw_max=0.4)
    )
    pvt_tables = {
        "df": scaled,
        "df_unscaled": df_pvt,
        "dict": {c: scaled[c].to_numpy() for c in scaled.columns},
        "dict_lists": {c: scaled[c].tolist() for c in scaled.columns},
        "volatile": scaled.assign(Rv=1e-5 * (1 + np.sqrt(scaled["pressure"] / 1000.0))),
        "coarse": scaled.iloc[::50].reset_index(drop=True),
        "two_rows": scaled.iloc[[0, len(scaled) - 1]].reset_index(drop=True),
        "one_row": scaled.iloc[:1],
        "empty": scaled.iloc[:0],
        "so_too_big": scaled.assign(So=scaled["So"] + 0.2),
        "nan_row": scaled.assign(Bo=scaled["Bo"].where(scaled["pressure"] != 3000.0)),
        "none": None,
        "empty_dict": {},
        "names_only": list(scaled.columns),
    }
    for col in ("pseudopressure", "pressure", "Bo", "Bg", "Bw", "Rs", "Rv", "mu_o", "mu_g", "mu_w", "So"):
        pvt_tables[f"missing_{col}"] = scaled.drop(columns=[col])
    kr_tables = {
        "df": df_kr,
        "corey": df_kr3,
        "dict": {c: df_kr[c].to_numpy() for c in df_kr.columns},
        "short_range": df_kr.iloc[:20],
        "none": None,
        "empty_dict": {},
    }
    for col in ("So", "Sg", "Sw", "kro", "krg", "krw"):
        kr_tables[f"missing_{col}"] = df_kr.drop(columns=[col])
    densities = {
        "std": REFERENCE_DENSITIES,
        "extra": dict(REFERENCE_DENSITIES, rho_x0=3.0, Bo=lambda p: 1.0 + 0 * np.asarray(p, dtype=float)),
        "missing_gas": {k: v for k, v in REFERENCE_DENSITIES.items() if k != "rho_g0"},
        "pairs": list(REFERENCE_DENSITIES.items()),
        "empty": {},
        "none": None,
        "number": 3.0,
    }

    def build(pvt_t, kr_t, dens, phi, sw, p_i, cls=fp.FlowPropertiesTwoPhase):
        return describe(cls.from_table(pvt_t, kr_t, dens, phi, sw, p_i))

    for name, table in pvt_tables.items():
        record(f"from_table/pvt={name}", lambda: build(table, df_kr, REFERENCE_DENSITIES, 0.1, SW, 8000.0))
        record(f"from_table/pvt={name}/bad_kr", lambda: build(table, kr_tables["missing_kro"], REFERENCE_DENSITIES, 0.1, SW, 8000.0), with_message=False)
    for name, table in kr_tables.items():
        record(f"from_table/kr={name}", lambda: build(scaled, table, REFERENCE_DENSITIES, 0.1, SW, 8000.0))
    for name, dens in densities.items():
        record(f"from_table/densities={name}", lambda: build(scaled, df_kr, dens, 0.1, SW, 8000.0))
    for phi in (0.1, 1, 0.0, -0.2, None, np.array([0.1, 0.2])):
        record(f"from_table/phi={phi!r}", lambda: build(scaled, df_kr3, REFERENCE_DENSITIES, phi, SW, 8000.0))
    for sw in (0.1, 0, 0.3, 1.0, None):
        record(f"from_table/Sw={sw!r}", lambda: build(scaled, df_kr3, REFERENCE_DENSITIES, 0.1, sw, 8000.0))
    for p_i in (8000.0, 8000, 1000.0, 0.0, 9000.0, 9000.5, -1.0, float("nan"), None, np.array([3000.0, 4000.0])):
        record(f"from_table/p_i={p_i!r}", lambda: build(scaled, df_kr, REFERENCE_DENSITIES, 0.1, SW, p_i))
    record("from_table/keywords", lambda: describe(fp.FlowPropertiesTwoPhase.from_table(
        pvt_props=scaled, kr_props=df_kr, reference_densities=REFERENCE_DENSITIES, phi=0.1, Sw=SW, p_i=7000.0)))

    class Child(fp.FlowPropertiesTwoPhase):
        def __init__(self, table, initial_pressure):  # different parameter names on purpose
            super().__init__(table, initial_pressure)
            self.child_flag = True

    record("from_table/subclass", lambda: build(scaled, df_kr, REFERENCE_DENSITIES, 0.1, SW, 8000.0, Child))

    # from_table silences the diffusivity warning, also when warnings are errors, and
    # leaves the caller's warning filters as they were
    def strict():
        with warnings.catch_warnings():
            warnings.simplefilter("error")
            before = list(warnings.filters)
            out = build(scaled, df_kr, REFERENCE_DENSITIES, 0.1, SW, 8000.0)
            return [out, before == list(warnings.filters)]

    record("from_table/strict_warnings", strict)

    def untouched():
        snapshot = scaled.copy()
        build(scaled, df_kr, dict(REFERENCE_DENSITIES), 0.1, SW, 8000.0)
        return [scaled.equals(snapshot), list(scaled.columns)]

    record("from_table/input_untouched", untouched)

    # ------------------------------------------------------------ rescale_pseudopressure
    p = df_pvt["pressure"].to_numpy()
    m = df_pvt["pseudopressure"].to_numpy()
    rescale_tables = {
        "df": lambda: df_pvt,
        "df_two_cols": lambda: df_pvt[["pressure", "pseudopressure"]],
        "already_scaled": lambda: scaled,
        "bare": lambda: BareTable(p.copy(), m.copy()),
        "bare_lists": lambda: BareTable(p.tolist(), m.tolist()),
        "namespace": lambda: Namespace(pressure=p.copy(), pseudopressure=m.copy(), other="x"),
        "dict": lambda: {"pressure": p.copy(), "pseudopressure": m.copy()},
        "recarray": lambda: df_pvt[["pressure", "pseudopressure"]].to_records(index=False),
        "missing_pseudo": lambda: df_pvt.drop(columns=["pseudopressure"]),
        "one_row": lambda: df_pvt.iloc[:1],
        "constant_m": lambda: df_pvt.assign(pseudopressure=5.0),
        "descending": lambda: df_pvt.iloc[::-1].reset_index(drop=True),
        "none": lambda: None,
    }
    pairs = ((1000, 8000.0), (1000.0, 6000), (0.0, 9000.0), (8000.0, 1000.0), (123.456, 7654.321),
             (5000.0, 5000.0), (-1.0, 8000.0), (1000.0, 1.0e5), (-1.0, 1.0e5), (float("nan"), 8000.0),
             (1000.0, None), (None, 8000.0), (np.array([1000.0, 2000.0]), 8000.0), ("a", 8000.0))
    for tname, make in rescale_tables.items():
        for p_frac, p_i in pairs if tname in ("df", "bare", "namespace") else pairs[:3] + pairs[5:8]:
            def run():
                table = make()
                out = fp.rescale_pseudopressure(table, p_frac, p_i)
                same_object = out is table
                if isinstance(out, (pd.DataFrame, dict)):
                    cols = list(out.columns) if isinstance(out, pd.DataFrame) else list(out)
                    body = {c: np.asarray(out[c]) for c in cols if c in ("pressure", "pseudopressure")}
                    original = np.asarray(table["pseudopressure"])
                elif isinstance(out, BareTable):
                    cols = sorted(vars(out))
                    body = {c: np.asarray(out[c]) for c in cols}
                    original = np.asarray(table.pseudopressure)
                else:
                    cols, body, original = None, out, None
                return [type(out).__name__, same_object, cols, body, original]

            record(f"rescale/{tname}/p_frac={p_frac!r}/p_i={p_i!r}", run)
    flush()


main()
