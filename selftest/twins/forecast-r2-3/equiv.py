"""Exercise bluebonnet.forecast.forecast broadly and dump every result.

Usage: PYTHONPATH=<tree>/src /venv/bin/python equiv.py <outfile>
"""

from __future__ import annotations

import copy
import sys
import warnings

import numpy as np
from scipy.interpolate import interp1d

from bluebonnet.forecast import Bounds, ForecasterOnePhase
from bluebonnet.forecast import forecast as fmod

warnings.simplefilter("ignore")
OUT: list[str] = []


def fmt(x):
    """Full-precision, type-revealing representation."""
    if isinstance(x, np.ndarray):
        return f"ndarray{x.shape}{x.dtype}[" + ",".join(fmt(v) for v in x.ravel()) + "]"
    if isinstance(x, (tuple, list)):
        return type(x).__name__ + "(" + ",".join(fmt(v) for v in x) + ")"
    if isinstance(x, (float, np.floating)):
        return f"{type(x).__name__}:{float(x)!r}"
    return f"{type(x).__name__}:{x!r}"


def record(label, func, *args, **kwargs):
    try:
        res = func(*args, **kwargs)
        OUT.append(f"{label} -> {fmt(res)}")
    except Exception as e:  # noqa: BLE001
        OUT.append(f"{label} !! {type(e).__name__}: {e}")


# ---------------------------------------------------------------- Bounds
bounds_inputs = [
    ((0, 1), (2, 3)),
    ((0, np.inf), (1e-10, np.inf)),
    ((1.5, 2.5), (0.1, 10.0)),
    ([1, 2], [3, 4]),
    (np.array([1.0, 2.0]), np.array([3.0, 4.0])),
    ((1, 2, 3), (0, 1)),
    ((1, 2), (1,)),
    ((1,), (1,)),
    ((), (0, 1)),
    ((1, 0), (0, 1)),
    ((1, 1), (0, 1)),
    ((0, 1), (20, 10)),
    ((0, 1), (5, 5)),
    ((1, 0), (20, 10)),
    ((1, 2, 3), (20, 10)),
    ((2, 1), (1,)),
    ((np.nan, 1), (0, 1)),
    ((0, 1), (0, np.nan)),
    ((-np.inf, np.inf), (-np.inf, np.inf)),
    (3.0, (0, 1)),
    ((0, 1), 3.0),
    (None, (0, 1)),
    ("ab", ("a", "b")),
    ("ba", ("a", "b")),
    (("a", 1), (0, 1)),
    ((0.1 + 0.2, 0.3), (0, 1)),
    ((np.float32(0.1), np.float64(0.1)), (0, 1)),
]
for M, tau in bounds_inputs:
    lab = f"Bounds({M!r},{tau!r})"

    def build(M=M, tau=tau):
        b = Bounds(M=M, tau=tau)
        return (repr(b), b.fit_bounds())

    record(lab, build)

record("Bounds()", lambda: Bounds())
record("Bounds(M only)", lambda: Bounds(M=(0, 1)))
record("Bounds positional", lambda: repr(Bounds((0, 1), (2, 3))))


def try_setattr():
    b = Bounds((0, 1), (2, 3))
    b.M = (1, 2)


record("Bounds frozen", try_setattr)
record("default_bounds", lambda: (repr(fmod._default_bounds), fmod._default_bounds.fit_bounds()))
record("default_bounds types", lambda: [type(v).__name__ for p in fmod._default_bounds.fit_bounds() for v in p])
record("Bounds eq", lambda: Bounds((0, 1), (2, 3)) == Bounds((0, 1), (2, 3)))
record("Bounds hash", lambda: hash(Bounds((0, 1), (2, 3))) == hash(Bounds((0, 1), (2, 3))))

# ------------------------------------------------- regularize_initial_guess
reg_bounds = [
    Bounds((0, 1), (2, 3)),
    Bounds((10.0, 20.0), (1.0, 5.0)),
    Bounds((0, np.inf), (1e-10, np.inf)),
    Bounds((-5, 5), (-1, 1)),
    Bounds((-np.inf, np.inf), (-np.inf, 0.0)),
]
guesses = [
    [0.5],
    [-1.0],
    [2.0],
    [0],
    [1],
    [0.5, 2.5],
    [-1.0, 2.5],
    [7.0, 1.0],
    [7.0, 9.0],
    [0.5, 1.0],
    [0.5, 9.0],
    [15.0, 3.0],
    [25.0, 0.5],
    [5, 100],
    [np.nan, np.nan],
    [np.inf, np.inf],
    [-np.inf, -np.inf],
    [0.5, 2.5, 9.0],
    [100.0, 100.0, 100.0],
    [-100.0, -100.0, -100.0],
    [],
    (0.5, 2.5),
    (-1.0, 2.5),
    (0.5, 9.0),
    (0.5,),
    np.array([0.5, 9.0]),
    np.array([-7.0, -9.0]),
    np.array([100, 100]),
    np.array([100.0]),
    np.float64(3.0),
    None,
    ["a", "b"],
    [1.0, "b"],
    {0: 100.0, 1: 100.0},
]
for ib, b in enumerate(reg_bounds):
    for ig, g in enumerate(guesses):
        g_in = copy.deepcopy(g)

        def run(b=b, g_in=g_in):
            res = b.regularize_initial_guess(g_in)
            return (res is g_in, res)

        record(f"regularize[{ib}][{ig}] {g!r}", run)
        OUT.append(f"   arg-after: {fmt(g_in) if not isinstance(g_in, dict) else repr(g_in)}")

# ------------------------------------------------------- ForecasterOnePhase
ncalls = {"n": 0}


def rf_exp(t):
    ncalls["n"] += 1
    return 1.0 - np.exp(-np.sqrt(t))


def rf_sat(t):
    return np.minimum(np.sqrt(t), 1.0) * (1 - 0.1 * np.exp(-t))


t_grid = np.linspace(0, np.sqrt(50.0), 400) ** 2
rf_interp = interp1d(t_grid, 1.0 - np.exp(-np.sqrt(t_grid)), bounds_error=True)
rf_interp_fill = interp1d(
    t_grid, 1.0 - np.exp(-np.sqrt(t_grid)), bounds_error=False, fill_value=(0.0, 1.0)
)


def rf_bad(t):
    raise RuntimeError("rf_curve blew up")


def rf_wrongshape(t):
    return np.ones(3)


curves = {
    "exp": rf_exp,
    "sat": rf_sat,
    "interp": rf_interp,
    "interp_fill": rf_interp_fill,
    "bad": rf_bad,
    "wrongshape": rf_wrongshape,
}

times = {
    "arr": np.linspace(0.0, 10.0, 41),
    "arr_sq": np.linspace(0.01, 3.0, 60) ** 2,
    "scalar": 2.5,
    "int": 3,
    "list": [0.0, 1.0, 2.0],
    "2d": np.arange(6.0).reshape(2, 3),
    "neg": np.array([-1.0, 0.0, 1.0]),
    "empty": np.array([]),
    "intarr": np.arange(5),
    "str": "abc",
    "none": None,
}
Mtaus = [
    (1.0, 1.0),
    (300.0, 3.0),
    (2, 4),
    (0.0, 1.0),
    (1.0, 0.0),
    (1.0, 0),
    (-3.0, -2.0),
    (np.inf, 1.0),
    (1.0, np.inf),
    (np.nan, 2.0),
    (np.float32(2.5), np.float32(0.3)),
    (np.array([1.0, 2.0, 3.0]), 1.5),
    ("a", 1.0),
    (1.0, "a"),
]

for cname, curve in curves.items():
    fc = ForecasterOnePhase(curve)
    for tname, t in times.items():
        for M, tau in Mtaus:
            record(f"forecast_cum[{cname}][{tname}] M={M!r} tau={tau!r}", fc.forecast_cum, t, M, tau)
            record(f"forecast_cum-kw[{cname}][{tname}] M={M!r} tau={tau!r}", fc.forecast_cum, time_on_production=t, tau=tau, M=M)
            record(f"_helper[{cname}][{tname}] M={M!r} tau={tau!r}", fmod._forecast_cum_onephase, curve, t, M, tau)
        # unfitted: defaults must raise AttributeError
        record(f"forecast_cum-unfit[{cname}][{tname}]", fc.forecast_cum, t)
        record(f"forecast_cum-unfit-M[{cname}][{tname}]", fc.forecast_cum, t, 2.0)
        record(f"forecast_cum-unfit-tau[{cname}][{tname}]", fc.forecast_cum, t, None, 2.0)
        record(f"forecast_cum-unfit-tau0[{cname}][{tname}]", fc.forecast_cum, t, 0, 0)

record("repr forecaster", lambda: repr(ForecasterOnePhase(rf_interp, Bounds((0, 1), (2, 3))).bounds))
record("forecaster noargs", lambda: ForecasterOnePhase())
record("forecaster default bounds identity", lambda: ForecasterOnePhase(rf_exp).bounds is fmod._default_bounds)
record("forecaster eq", lambda: ForecasterOnePhase(rf_exp) == ForecasterOnePhase(rf_exp))


# partially-set attributes
def partial_attrs(which):
    fc = ForecasterOnePhase(rf_exp)
    if which == "M":
        fc.M_ = 5.0
    else:
        fc.tau_ = 5.0
    return fc.forecast_cum(np.array([1.0, 2.0]))


record("forecast_cum only M_ set", partial_attrs, "M")
record("forecast_cum only tau_ set", partial_attrs, "tau")


def partial_attrs2(which):
    fc = ForecasterOnePhase(rf_exp)
    if which == "M":
        fc.M_ = 5.0
        return fc.forecast_cum(np.array([1.0, 2.0]), tau=2.0)
    fc.tau_ = 5.0
    return fc.forecast_cum(np.array([1.0, 2.0]), M=2.0)


record("forecast_cum M_ set + tau arg", partial_attrs2, "M")
record("forecast_cum tau_ set + M arg", partial_attrs2, "tau")

# ---------------------------------------------------------------------- fit
fit_bounds_list = {
    "default": None,
    "wide": Bounds((1.0, 1e4), (0.1, 1e3)),
    "tight_low": Bounds((1.0, 50.0), (0.1, 2.0)),  # initial guess above upper limits
    "tight_high": Bounds((5e3, 1e4), (500.0, 1e3)),  # initial guess below lower limits
    "M_high_tau_low": Bounds((5e3, 1e4), (0.1, 2.0)),
    "inf_upper": Bounds((10.0, np.inf), (1.0, np.inf)),
}
fit_times = {
    "sq": np.linspace(0.05, np.sqrt(6.0), 80) ** 2,
    "lin": np.linspace(0.0, 6.0, 50),
    "short": np.array([0.5, 1.0]),
    "single": np.array([1.0]),
    "list": [0.5, 1.0, 2.0, 4.0],
}
truths = [(300.0, 3.0), (40.0, 0.7), (2500.0, 40.0)]
fit_curves = {"exp": rf_exp, "sat": rf_sat, "interp_fill": rf_interp_fill, "interp": rf_interp, "bad": rf_bad, "wrongshape": rf_wrongshape}
noise = np.random.default_rng(12345)


def do_fit(curve, bnds, t, cum, tau):
    fc = ForecasterOnePhase(curve) if bnds is None else ForecasterOnePhase(curve, bnds)
    ncalls["n"] = 0
    try:
        ret = fc.fit(t, cum) if tau == "omit" else fc.fit(t, cum, tau)
    finally:
        state = sorted((k, fmt(v)) for k, v in vars(fc).items() if k not in ("rf_curve", "bounds"))
        OUT.append(f"   state: {state} keys={list(vars(fc))}")
        if curve is rf_exp:
            OUT.append(f"   rf_curve calls: {ncalls['n']}")
    out = [ret, fc.M_, fc.tau_, fc.time_on_production is t, fc.cum_production is cum]
    out.append(fc.forecast_cum(np.array([0.5, 1.0, 10.0])))
    out.append(fc.forecast_cum(np.array([0.5, 1.0, 10.0]), M=2.0))
    out.append(fc.forecast_cum(np.array([0.5, 1.0, 10.0]), tau=2.0))
    return out


for cname, curve in fit_curves.items():
    for bname, bnds in fit_bounds_list.items():
        for tname, t in fit_times.items():
            for M_true, tau_true in truths:
                t_arr = np.asarray(t, dtype=float)
                cum = M_true * (1.0 - np.exp(-np.sqrt(t_arr / tau_true)))
                cum = cum * (1 + 0.01 * noise.standard_normal(cum.shape))
                if tname == "list":
                    cum = list(cum)
                for tau in ("omit", None, tau_true, 1.0, 2, 0.0, -1.0, np.nan, np.float64(7.5)):
                    record(
                        f"fit[{cname}][{bname}][{tname}] truth={M_true},{tau_true} tau={tau!r}",
                        do_fit, curve, bnds, t, cum, tau,
                    )

# fit error / edge inputs
t_ok = np.linspace(0.1, 5.0, 20)
cum_ok = 100.0 * rf_exp(t_ok / 2.0)
edge = {
    "len mismatch": (t_ok, cum_ok[:-1]),
    "empty": (np.array([]), np.array([])),
    "empty cum": (t_ok, np.array([])),
    "empty time": (np.array([]), cum_ok),
    "empty lists": ([], []),
    "nan in cum": (t_ok, np.where(np.arange(20) == 3, np.nan, cum_ok)),
    "nan in time": (np.where(np.arange(20) == 3, np.nan, t_ok), cum_ok),
    "nan last": (t_ok, np.where(np.arange(20) == 19, np.nan, cum_ok)),
    "inf last time": (np.where(np.arange(20) == 19, np.inf, t_ok), cum_ok),
    "scalar": (1.0, 2.0),
    "scalar time": (1.0, cum_ok),
    "scalar cum": (t_ok, 2.0),
    "none": (None, None),
    "none cum": (t_ok, None),
    "str": ("abc", "def"),
    "str cum": (t_ok, "abcdefghijklmnopqrst"),
    "2d": (t_ok.reshape(4, 5), cum_ok.reshape(4, 5)),
    "zeros": (t_ok, np.zeros(20)),
    "neg cum": (t_ok, -cum_ok),
    "zero time": (np.zeros(20), cum_ok),
    "int arrays": (np.arange(1, 11), np.arange(1, 11) * 3),
    "tuples": (tuple(t_ok), tuple(cum_ok)),
}
for ename, (t, cum) in edge.items():
    for bname in ("default", "wide", "tight_low", "tight_high"):
        for tau in ("omit", None, 2.0, 0.0):
            for cname in ("exp", "interp"):
                record(f"fit-edge[{ename}][{bname}][{cname}] tau={tau!r}", do_fit, fit_curves[cname], fit_bounds_list[bname], t, cum, tau)

# refit on same instance (tau fixed then free), keyword call
def refit():
    fc = ForecasterOnePhase(rf_exp, Bounds((1.0, 1e4), (0.1, 1e3)))
    res = []
    fc.fit(time_on_production=t_ok, cum_production=cum_ok, tau=3.0)
    res += [fc.M_, fc.tau_]
    fc.fit(cum_production=cum_ok, time_on_production=t_ok)
    res += [fc.M_, fc.tau_]
    fc.fit(t_ok, cum_ok, tau=np.float32(1.5))
    res += [fc.M_, fc.tau_]
    return res


record("refit", refit)

# the real thing: IdealReservoir recovery-factor interpolator, as in the tests
def ideal():
    from bluebonnet.flow import IdealReservoir

    ts = np.linspace(0, np.sqrt(6.0), 500) ** 2
    res = IdealReservoir(40, 500.0, 5000.0, None)
    res.simulate(ts)
    res.recovery_factor()
    curve = res.recovery_factor_interpolator()
    cum = 300.0 * curve(ts / 3.0)
    out = []
    fc = ForecasterOnePhase(curve)
    fc.fit(ts, cum)
    out += [fc.M_, fc.tau_, fc.forecast_cum(ts[::50])]
    fc = ForecasterOnePhase(curve, Bounds((10.0, 1e3), (1.0, 100.0)))
    fc.fit(ts, cum, tau=2.5)
    out += [fc.M_, fc.tau_, fc.forecast_cum(ts[::50])]
    return out


record("ideal reservoir", ideal)

with open(sys.argv[1], "w") as f:
    f.write("\n".join(OUT) + "\n")
print(len(OUT), "lines written")
