"""Equivalence driver for twin2 (Hall-Yarbrough keyword-only tol / max_iterations)."""

from __future__ import annotations

import signal
import sys
import warnings

import numpy as np

warnings.simplefilter("ignore")

from bluebonnet.fluids import gas  # noqa: E402

OUT: list[str] = []


class _Timeout(Exception):
    pass


def _alarm(signum, frame):
    raise _Timeout


signal.signal(signal.SIGALRM, _alarm)


def fmt(x):
    if isinstance(x, tuple):
        return "(" + ", ".join(fmt(v) for v in x) + ")"
    if isinstance(x, np.ndarray):
        return "array" + repr(x.shape) + "[" + ", ".join(fmt(v) for v in x.ravel()) + "]"
    if isinstance(x, (float, np.floating)):
        return type(x).__name__ + ":" + repr(float(x))
    return type(x).__name__ + ":" + repr(x)


def rec(label, fn, *args, **kwargs):
    signal.alarm(10)
    try:
        res = fmt(fn(*args, **kwargs))
    except _Timeout:
        res = "TIMEOUT"
    except Exception as exc:  # noqa: BLE001
        res = "EXC " + type(exc).__name__
    finally:
        signal.alarm(0)
    OUT.append(f"{label} -> {res}")


hy = gas.z_factor_hallyarbrough
# only the call forms that exist today: two positional / keyword arguments
for p in [0.01, 0.2, 0.5, 1, 2, 3.5, 5.0, 7.5, 10, 15, 30.0, np.float64(4.2), np.float32(2.5)]:
    for t in [1.05, 1.2, 1.5, 2.0, 2.4, 3.0, np.float64(1.8), 1]:
        rec(f"hy p={p!r} t={t!r}", hy, p, t)
        rec(f"hy kw p={p!r} t={t!r}", hy, pressure=p, temperature=t)

# edge cases and failures
rec("hy t=0", hy, 2.0, 0)
rec("hy t=0.0 np", hy, 2.0, np.float64(0.0))
rec("hy p=0", hy, 0.0, 1.5)
rec("hy p<0", hy, -1.0, 1.5)
rec("hy t<0", hy, 2.0, -1.5)
rec("hy p nan", hy, float("nan"), 1.5)
rec("hy t nan", hy, 2.0, float("nan"))
rec("hy p inf", hy, float("inf"), 1.5)
rec("hy array2", hy, np.array([1.0, 2.0]), 1.5)
rec("hy array1", hy, np.array([2.0]), 1.5)
rec("hy array0", hy, np.array([]), 1.5)
rec("hy t array", hy, 2.0, np.array([1.5, 2.0]))
rec("hy str", hy, "2", 1.5)
rec("hy None", hy, None, 1.5)
rec("hy missing", hy, 2.0)
rec("hy 3 positional", hy, 2.0, 1.5, 0.001)
rec("hy bad kw", hy, 2.0, 1.5, tolerance=0.1)
rec("hy complex", hy, 2.0 + 0j, 1.5)

with open(sys.argv[1], "w") as fh:
    fh.write("\n".join(OUT) + "\n")
