"""Equivalence probe for bluebonnet.plotting (run on clean and refactored tree)."""

from __future__ import annotations

import itertools
import os
import sys
import warnings
from types import SimpleNamespace

import matplotlib

matplotlib.use("Agg")
import matplotlib.pyplot as plt
import numpy as np
import pandas as pd

warnings.simplefilter("ignore")

from bluebonnet import plotting
from bluebonnet.flow import FlowProperties, IdealReservoir, SinglePhaseReservoir
from bluebonnet.plotting import (
    SquareRootScale,
    plot_pseudopressure,
    plot_recovery_factor,
    plot_recovery_rate,
)

DATA = os.environ.get("BB_DATA", "/tmp/twin11_plotting/tests/data")
OUT = []


def fmt(v):
    if isinstance(v, (tuple, list)):
        return "[" + ", ".join(fmt(x) for x in v) + "]"
    if isinstance(v, np.ndarray):
        return f"arr{v.shape}{v.dtype}[" + ", ".join(fmt(x) for x in v.ravel().tolist()) + "]"
    if isinstance(v, (float, np.floating)):
        return type(v).__name__ + ":" + repr(float(v))
    if isinstance(v, (bool, np.bool_, int, np.integer)):
        return type(v).__name__ + ":" + repr(v)
    return repr(v)


def emit(tag, value):
    OUT.append(f"{tag} = {fmt(value)}")


def dump_ax(tag, ax):
    emit(tag + ".nlines", len(ax.lines))
    for k, line in enumerate(ax.lines):
        emit(f"{tag}.line{k}.x", np.asarray(line.get_xdata(orig=True)))
        emit(f"{tag}.line{k}.y", np.asarray(line.get_ydata(orig=True)))
        emit(f"{tag}.line{k}.color", line.get_color())
        emit(f"{tag}.line{k}.label", line.get_label())
        emit(f"{tag}.line{k}.ls", line.get_linestyle())
        emit(f"{tag}.line{k}.lw", line.get_linewidth())
        emit(f"{tag}.line{k}.marker", line.get_marker())
        emit(f"{tag}.line{k}.alpha", line.get_alpha())
    emit(tag + ".xlabel", ax.get_xlabel())
    emit(tag + ".ylabel", ax.get_ylabel())
    emit(tag + ".xscale", ax.get_xscale())
    emit(tag + ".yscale", ax.get_yscale())
    emit(tag + ".xlim", tuple(ax.get_xlim()))
    emit(tag + ".ylim", tuple(ax.get_ylim()))
    emit(tag + ".xautoscale", ax.get_autoscalex_on())
    emit(tag + ".yautoscale", ax.get_autoscaley_on())
    emit(tag + ".xticks", np.asarray(ax.get_xticks()))
    emit(tag + ".yticks", np.asarray(ax.get_yticks()))
    emit(tag + ".xmajloc", type(ax.xaxis.get_major_locator()).__name__)
    emit(tag + ".xmajfmt", type(ax.xaxis.get_major_formatter()).__name__)
    emit(tag + ".xminloc", type(ax.xaxis.get_minor_locator()).__name__)
    emit(tag + ".xminfmt", type(ax.xaxis.get_minor_formatter()).__name__)
    emit(tag + ".xtransform", type(ax.xaxis.get_transform()).__qualname__)
    emit(tag + ".title", ax.get_title())


def safe_arr(r):
    if isinstance(r, np.ma.MaskedArray):
        return r.filled(-99.0)
    try:
        return np.asarray(r)
    except Exception:  # noqa: BLE001
        return repr(r)


def run(tag, func, *args, given_ax="none", draw=False, **kwargs):
    """Call a plot function; record result or exception, and figure bookkeeping."""
    plt.close("all")
    ax_in = None
    if given_ax == "new":
        _, ax_in = plt.subplots()
        kwargs["ax"] = ax_in
    elif given_ax == "used":
        _, ax_in = plt.subplots()
        ax_in.plot([0.1, 0.2, 0.4], [3.0, 2.0, 1.0], color="k", label="old")
        ax_in.set_title("kept")
        kwargs["ax"] = ax_in
    kw_before = {k: (dict(v) if isinstance(v, dict) else v) for k, v in kwargs.items()}
    try:
        res = func(*args, **kwargs)
    except Exception as e:  # noqa: BLE001
        emit(tag + ".raises", type(e).__name__)
        emit(tag + ".nfigs_after_raise", len(plt.get_fignums()))
        if ax_in is not None:
            dump_ax(tag + ".ax_after_raise", ax_in)
        return
    emit(tag + ".nfigs", len(plt.get_fignums()))
    emit(tag + ".returns_given_ax", res is ax_in)
    emit(tag + ".type", type(res).__mro__[-3].__name__ if len(type(res).__mro__) > 2 else "?")
    for k, v in kwargs.items():
        if isinstance(v, dict):
            emit(tag + f".{k}_unchanged", v == kw_before[k])
    dump_ax(tag, res)
    if draw:
        res.figure.canvas.draw()
        dump_ax(tag + ".drawn", res)


# --------------------------------------------------------------------------
# reservoirs
# --------------------------------------------------------------------------
renamer = {
    "P": "pressure",
    "Z-Factor": "z-factor",
    "Cg": "compressibility",
    "Viscosity": "viscosity",
    "Density": "density",
}
pvt_gas = pd.read_csv(os.path.join(DATA, "pvt_gas.csv")).rename(columns=renamer)


def real_reservoir(nx, nt, t_end, pf=100.0, pi=2000.0, sim=True, schedule=False):
    fluid = FlowProperties(pvt_gas, pi)
    res = SinglePhaseReservoir(nx, pressure_fracface=pf, pressure_initial=pi, fluid=fluid)
    if sim:
        time = np.linspace(0, np.sqrt(t_end), nt) ** 2
        if schedule:
            res.simulate(time, pressure_fracface=np.linspace(1500.0, pf, nt))
        else:
            res.simulate(time)
    return res


def ideal_reservoir(nx, nt, t_end, pf=100.0, pi=2000.0, sim=True):
    res = IdealReservoir(nx, pressure_fracface=pf, pressure_initial=pi)
    if sim:
        res.simulate(np.linspace(0, np.sqrt(t_end), nt) ** 2)
    return res


class Fake(SimpleNamespace):
    """Duck-typed reservoir: only what the plot functions read."""

    def recovery_factor(self):
        self.calls = getattr(self, "calls", 0) + 1
        return self.rf


def fake(nx, nt, seed=0, time=None):
    rng = np.random.default_rng(seed)
    pp = np.sort(rng.uniform(0.05, 1.0, (nt, nx)), axis=1)
    if time is None:
        time = np.cumsum(rng.uniform(0.01, 0.3, nt))
    rf = np.cumsum(rng.uniform(0.0, 0.05, nt))
    return Fake(nx=nx, pseudopressure=pp, time=time, rf=rf)


RES = {
    "real30": real_reservoir(30, 120, 11.0),
    "real3": real_reservoir(3, 9, 2.0),
    "real2": real_reservoir(2, 5, 0.5),
    "real_sched": real_reservoir(12, 40, 4.0, schedule=True),
    "real_pf_eq_pi": real_reservoir(8, 12, 1.0, pf=2000.0),
    "real_nt2": real_reservoir(6, 2, 1.0),
    "real_nt1": real_reservoir(6, 1, 1.0),
    "ideal10": ideal_reservoir(10, 50, 3.0),
    "ideal3": ideal_reservoir(3, 4, 0.3),
    "fake": fake(7, 23),
    "fake_nx1": fake(1, 5, seed=3),
    "fake_tbig": fake(5, 12, seed=4, time=np.linspace(0.0, 37.3, 12)),
    "fake_tsmall": fake(5, 12, seed=5, time=np.linspace(0.0, 3e-4, 12)),
    "fake_tlist": fake(4, 6, seed=6, time=[0.0, 0.1, 0.4, 0.9, 1.6, 2.5]),
    "fake_tnan": fake(4, 6, seed=7, time=np.array([0.0, 0.1, np.nan, 0.9, 1.6, 2.5])),
    "fake_tneg": fake(4, 6, seed=8, time=np.array([-1.0, -0.5, 0.1, 0.9, 1.6, 2.5])),
    "fake_tempty": Fake(nx=4, pseudopressure=np.empty((0, 4)), time=np.array([]), rf=np.array([])),
}
UNSIM = {
    "real_unsim": real_reservoir(5, 5, 1.0, sim=False),
    "ideal_unsim": ideal_reservoir(5, 5, 1.0, sim=False),
    "no_attrs": SimpleNamespace(),
    "only_nx": SimpleNamespace(nx=4),
    "none": None,
}

# --------------------------------------------------------------------------
# plot_pseudopressure: every x rescale x ax x plot_kwargs x limits
# --------------------------------------------------------------------------
EVERY = [1, 2, 3, 7, 50, 200, 10**6, -1, -4, 2.5, 0.5, True, 0, 0.0, None, "3", np.int64(5)]
for name, res in RES.items():
    for every, rescale in itertools.product(EVERY, [False, True, 0, 1, None, "yes"]):
        if name not in ("real3", "fake", "ideal3", "real_pf_eq_pi", "real_nt1") and (
            every not in (1, 3, 200, 0) or rescale not in (False, True)
        ):
            continue
        run(f"pp[{name}|every={every!r}|rescale={rescale!r}]", plot_pseudopressure, res,
            every=every, rescale=rescale)
    run(f"pp[{name}|defaults]", plot_pseudopressure, res, draw=True)
    run(f"pp[{name}|positional]", plot_pseudopressure, res, 4, True, None, 0.5, 1.5, {"lw": 3})
    for given_ax in ("new", "used"):
        for rescale in (False, True):
            run(f"pp[{name}|ax={given_ax}|rescale={rescale}]", plot_pseudopressure, res, every=5,
                rescale=rescale, given_ax=given_ax)
    for pk in (None, {}, {"linestyle": "--", "alpha": 0.5}, {"label": "m"}, {"color": "red"},
               {"nonsense_kw": 1}, [("lw", 2)], "ab"):
        for rescale in (False, True):
            run(f"pp[{name}|pk={pk!r}|rescale={rescale}]", plot_pseudopressure, res, every=6,
                rescale=rescale, plot_kwargs=pk)
    for x_max, y_max in [(1, None), (0.3, 0.7), (2.0, 1e4), (0, None), (None, None), (-1, -2),
                         ("a", None), (np.nan, 1.0)]:
        run(f"pp[{name}|x_max={x_max!r}|y_max={y_max!r}]", plot_pseudopressure, res, every=9,
            x_max=x_max, y_max=y_max, rescale=True)
for name, res in UNSIM.items():
    for given_ax in ("none", "new"):
        for every in (1, 0):
            run(f"pp[{name}|ax={given_ax}|every={every}]", plot_pseudopressure, res, every=every,
                given_ax=given_ax, plot_kwargs={"color": "red"})

# --------------------------------------------------------------------------
# plot_recovery_rate / plot_recovery_factor
# --------------------------------------------------------------------------
for fname, func in (("rate", plot_recovery_rate), ("factor", plot_recovery_factor)):
    for name, res in {**RES, **UNSIM}.items():
        for change_ticks in (False, True, 0, 1, None, "x"):
            for given_ax in ("none", "new", "used"):
                run(f"{fname}[{name}|ticks={change_ticks!r}|ax={given_ax}]", func, res,
                    change_ticks=change_ticks, given_ax=given_ax,
                    draw=(given_ax == "new" and change_ticks in (False, True)))
        for pk in (None, {}, {"linestyle": ":", "color": "green"}, {"label": "mine"},
                   {"nonsense_kw": 1}, "ab"):
            for change_ticks in (False, True):
                run(f"{fname}[{name}|pk={pk!r}|ticks={change_ticks}]", func, res,
                    change_ticks=change_ticks, plot_kwargs=pk)
        plt.close("all")
        _, axp = plt.subplots()
        try:
            r = func(res, axp, True, {"lw": 2})
            emit(f"{fname}[{name}|positional].same_ax", r is axp)
            dump_ax(f"{fname}[{name}|positional]", r)
        except Exception as e:  # noqa: BLE001
            emit(f"{fname}[{name}|positional].raises", type(e).__name__)
        if isinstance(res, Fake):
            emit(f"{fname}[{name}].recovery_factor_calls", res.calls)
    # both on one axes, in both orders
    for order in ((plot_recovery_rate, plot_recovery_factor),
                  (plot_recovery_factor, plot_recovery_rate)):
        plt.close("all")
        _, axb = plt.subplots()
        for f in order:
            f(RES["real30"], axb, change_ticks=True)
        dump_ax(f"both[{order[0].__name__}]", axb)
        axb.figure.canvas.draw()
        dump_ax(f"both[{order[0].__name__}].drawn", axb)

# --------------------------------------------------------------------------
# SquareRootScale and its transforms
# --------------------------------------------------------------------------
emit("scale.name", SquareRootScale.name)
emit("scale.registered", "squareroot" in matplotlib.scale.get_scale_names())
emit("scale.registered_cls", matplotlib.scale._scale_mapping["squareroot"] is SquareRootScale)
emit("scale.public", sorted(n for n in vars(SquareRootScale) if not n.startswith("_")))
emit("module.public", sorted(n for n in vars(plotting) if not n.startswith("_")))
for cls in (SquareRootScale.SquareRootTransform, SquareRootScale.InvertedSquareRootTransform):
    emit(f"{cls.__name__}.qualname", cls.__qualname__)
    emit(f"{cls.__name__}.dims", (cls.input_dims, cls.output_dims, cls.is_separable))
    emit(f"{cls.__name__}.has_inverse", cls.has_inverse)
    emit(f"{cls.__name__}.is_affine", cls.is_affine)
    emit(f"{cls.__name__}.is_Transform", issubclass(cls, matplotlib.transforms.Transform))
    emit(f"{cls.__name__}.own_transform", cls.transform is not matplotlib.transforms.Transform.transform)
    emit(f"{cls.__name__}.own_tna",
         cls.transform_non_affine is not matplotlib.transforms.Transform.transform_non_affine)

VALUES = [
    0.0, -0.0, 1.0, 2.0, 4.0, 0.25, 1e-300, 1e300, -1.0, -4.0, np.nan, np.inf, -np.inf, 3, -3, 0,
    True, np.float64(2.0), np.float32(2.0), np.int64(9), 2 + 0j,
    [0.0, 1.0, 4.0, 9.0], [], [[1.0, 4.0], [9.0, 16.0]], [[1.0], [4.0], [9.0]], (2.0, 3.0),
    np.array([0.1, 0.2, 0.3]), np.array([[0.5], [2.5]]), np.array([1, 4, 9]),
    np.array([-1.0, 0.0, np.nan]), np.linspace(0, 11, 13), np.array([2.0], dtype=np.float32),
    np.array(5.0), np.ma.masked_array([1.0, 4.0, 9.0], mask=[0, 1, 0]),
    "abc", None, [1.0, "a"], [[1.0, 2.0], [3.0]], {"a": 1},
]
METHODS = ["transform", "transform_non_affine", "transform_affine", "transform_point"]
for cls in (SquareRootScale.SquareRootTransform, SquareRootScale.InvertedSquareRootTransform):
    for k, v in enumerate(VALUES):
        for meth in METHODS:
            t = cls()
            tag = f"{cls.__name__}.{meth}[{k}:{v!r}]"
            try:
                r = getattr(t, meth)(v)
            except Exception as e:  # noqa: BLE001
                emit(tag + ".raises", type(e).__name__)
                continue
            emit(tag + ".type", type(r).__name__)
            emit(tag, safe_arr(r))
            if isinstance(v, np.ndarray):
                emit(tag + ".is_input", r is v)
    t = cls()
    inv = t.inverted()
    emit(f"{cls.__name__}.inverted.type", type(inv).__qualname__)
    emit(f"{cls.__name__}.inverted.inverted.type", type(inv.inverted()).__qualname__)
    emit(f"{cls.__name__}.inverted.fresh", inv is not t.inverted())
    emit(f"{cls.__name__}.roundtrip", inv.transform(t.transform(np.array([0.0, 0.3, 2.0, 7.0]))))
    try:
        comp = t + inv
        emit(f"{cls.__name__}.composite", comp.transform(np.array([0.0, 0.3, 2.0, 7.0])))
    except Exception as e:  # noqa: BLE001
        emit(f"{cls.__name__}.composite.raises", type(e).__name__)

plt.close("all")
fig, ax = plt.subplots()
LIMITS = [
    (-1.0, 2.0), (0.0, 2.0), (-0.0, 2.0), (1.0, 2.0), (np.nan, 2.0), (-np.inf, np.inf), (0, 5),
    (-3, 5), (5, 3), (True, 2), (np.float64(-2.0), np.float64(3.0)), (np.float64(2.0), 1),
    (np.float32(0.5), 1.0), (np.int64(-2), 4), (1e-320, 1.0), (-1e-320, 1.0), ("a", 1.0),
    (None, 1.0), (np.array([1.0, -1.0]), 1.0), (np.array([-1.0]), 1.0), (2.0, None), (2.0, "b"),
]
for axis in (ax.xaxis, ax.yaxis, None):
    for extra in ({}, {"bogus": 1}):
        try:
            sc = SquareRootScale(axis, **extra)
        except Exception as e:  # noqa: BLE001
            emit(f"scale.init[{axis is None}|{extra}].raises", type(e).__name__)
            continue
        tr = sc.get_transform()
        emit(f"scale.init[{axis is None}|{extra}].transform", type(tr).__qualname__)
        emit(f"scale.init[{axis is None}|{extra}].fresh", tr is not sc.get_transform())
        for lo, hi in LIMITS:
            for minpos in (1e-300, 0.5, None):
                tag = f"scale.limit[{lo!r},{hi!r},{minpos!r}]"
                try:
                    r = sc.limit_range_for_scale(lo, hi, minpos)
                except Exception as e:  # noqa: BLE001
                    emit(tag + ".raises", type(e).__name__)
                    continue
                emit(tag + ".len", len(r))
                emit(tag + ".types", [type(x).__name__ for x in r])
                emit(tag, [x if isinstance(x, str) or x is None else np.asarray(x) for x in r])
                emit(tag + ".signbit", [bool(np.signbit(x)) if isinstance(x, (float, np.floating)) else None for x in r])
try:
    SquareRootScale()
except Exception as e:  # noqa: BLE001
    emit("scale.init.noargs.raises", type(e).__name__)

# using the scale through the public matplotlib interface
for which in ("x", "y"):
    plt.close("all")
    fig, ax = plt.subplots()
    ax.plot(np.linspace(0, 9, 10), np.linspace(0, 4, 10) ** 2)
    getattr(ax, f"set_{which}scale")("squareroot")
    fig.canvas.draw()
    dump_ax(f"via_set_{which}scale", ax)
    emit(f"via_set_{which}scale.data2disp",
         ax.transData.transform(np.array([[0.0, 0.0], [1.0, 1.0], [4.0, 4.0], [9.0, 16.0]])))
    emit(f"via_set_{which}scale.disp2data",
         ax.transData.inverted().transform(np.array([[100.0, 100.0], [200.0, 300.0]])))
    getattr(ax, f"set_{which}lim")(-4.0, 25.0)
    emit(f"via_set_{which}scale.lim_after_negative", getattr(ax, f"get_{which}lim")())
    ax.relim()
    ax.autoscale()
    fig.canvas.draw()
    emit(f"via_set_{which}scale.lim_after_autoscale", getattr(ax, f"get_{which}lim")())
    for kw in ({"bogus": 1},):
        try:
            getattr(ax, f"set_{which}scale")("squareroot", **kw)
            emit(f"via_set_{which}scale.kw", "ok")
        except Exception as e:  # noqa: BLE001
            emit(f"via_set_{which}scale.kw.raises", type(e).__name__)

with open(sys.argv[1], "w") as fh:
    fh.write("\n".join(OUT) + "\n")
