"""Equivalence driver for twin3 (early validation in pseudocritical_point_Sutton).

For inputs that fail, only the fact that an exception is raised is recorded.
"""

from __future__ import annotations

import os
import sys
import warnings

import numpy as np
import pandas as pd

warnings.simplefilter("ignore")

from bluebonnet.fluids import gas  # noqa: E402
from bluebonnet.fluids.fluid import Fluid, build_pvt_gas  # noqa: E402

OUT: list[str] = []
BB_DATA = os.environ.get("BB_DATA", "/tmp/twin3_gas/tests/data")


def fmt(x):
    if isinstance(x, tuple):
        return "(" + ", ".join(fmt(v) for v in x) + ")"
    if isinstance(x, np.ndarray):
        return "array" + repr(x.shape) + "[" + ", ".join(fmt(v) for v in x.ravel()) + "]"
    if isinstance(x, (float, np.floating)):
        return type(x).__name__ + ":" + repr(float(x))
    return type(x).__name__ + ":" + repr(x)


def rec(label, fn, *args, **kwargs):
    try:
        res = fmt(fn(*args, **kwargs))
    except Exception:  # noqa: BLE001
        res = "EXC"
    OUT.append(f"{label} -> {res}")


pc = gas.pseudocritical_point_Sutton
mk = gas.make_nonhydrocarbon_properties
sgs = [0.56, 0.65, 0.8, 1.1, np.float64(0.7)]
he = ("Helium", 0.01, 4.0, 9.34, 33.0)
ar = ("Argon", 0.005, 39.95, 271.5, 710.4)

# valid tables: 3, 4, 5 rows, all fluids, positional and keyword fluid, default fluid
for fr in [(0.03, 0.012, 0.018), (0.05, 0.01, 0.04), (0.0, 0.0, 0.0), (0.2, 0.1, 0.3), (0.5, 0.3, 0.2)]:
    for extra in [(), (he,), (he, ar)]:
        nh = mk(*fr, *extra)
        for sg in sgs:
            rec(f"pc default {fr} +{len(extra)} sg={sg!r}", pc, sg, nh)
            for fluid in ("dry gas", "wet gas", "oil", "", None):
                rec(f"pc {fr} +{len(extra)} sg={sg!r} {fluid!r}", pc, sg, nh, fluid)
                rec(f"pc kw {fr} +{len(extra)} sg={sg!r} {fluid!r}", pc, sg, nh, fluid=fluid)

nh3 = mk(0.03, 0.012, 0.018)
# other containers that work today: recarray view, 2-d column of records, DataFrame, dict of columns
rec("pc recarray", pc, 0.65, nh3.view(np.recarray), "dry gas")
rec("pc (3,1)", pc, 0.65, nh3.reshape(3, 1), "dry gas")
rec("pc (1,3)", pc, 0.65, nh3.reshape(1, 3), "dry gas")
rec("pc dataframe", pc, 0.65, pd.DataFrame(nh3), "wet gas")
rec("pc dict", pc, 0.65, {n: nh3[n] for n in nh3.dtype.names}, "wet gas")
rec("pc dict lists", pc, 0.65, {n: list(nh3[n]) for n in nh3.dtype.names}, "wet gas")
rec("pc series idx", pc, 0.65, pd.DataFrame(nh3[1:], index=[1, 2]), "wet gas")
rec("pc masked", pc, 0.65, np.ma.array(nh3), "dry gas")
rec("pc non-contiguous", pc, 0.65, mk(0.03, 0.012, 0.018, he, ar, he)[::2], "dry gas")
rec("pc negative h2s", pc, 0.65, mk(0.03, -0.012, 0.018), "dry gas")
rec("pc nan fraction", pc, 0.65, mk(float("nan"), 0.012, 0.018), "dry gas")
rec("pc all nonhc", pc, 0.65, mk(0.5, 0.25, 0.25), "dry gas")
rec("pc sg nan", pc, float("nan"), nh3, "dry gas")
rec("pc sg array", pc, np.array([0.6, 0.7, 0.8]), nh3, "dry gas")

# inputs that already fail
rec("pc 2 rows", pc, 0.65, nh3[:2], "dry gas")
rec("pc 1 row", pc, 0.65, nh3[:1], "wet gas")
rec("pc 0 rows", pc, 0.65, nh3[:0], "wet gas")
rec("pc single record", pc, 0.65, nh3[0], "wet gas")
rec("pc 0-d", pc, 0.65, np.array(nh3[0]), "wet gas")
rec("pc (2,1)", pc, 0.65, nh3[:2].reshape(2, 1), "dry gas")
rec("pc plain 2d", pc, 0.65, np.ones((3, 5)), "dry gas")
rec("pc plain 1d", pc, 0.65, np.array([0.03, 0.012, 0.018]), "dry gas")
rec("pc empty plain", pc, 0.65, np.array([]), "dry gas")
rec("pc list", pc, 0.65, [0.03, 0.012, 0.018], "dry gas")
rec("pc tuple rows", pc, 0.65, [("N2", 0.03, 28.01, 226.98, 492.26)], "dry gas")
rec("pc None", pc, 0.65, None, "dry gas")
rec("pc wrong fields", pc, 0.65, np.zeros(3, dtype=[("a", "f8"), ("b", "f8")]), "dry gas")
rec("pc missing arg", pc, 0.65)
rec("pc 2 rows bad fluid", pc, 0.65, nh3[:2], "oil")
rec("pc plain bad fluid", pc, 0.65, np.ones(3), "oil")
rec("pc sg str", pc, "0.65", nh3, "dry gas")

# make_nonhydrocarbon_properties itself and the callers built on top
rec("mk", lambda: mk(0.03, 0.012, 0.018).tolist())
rec("mk he", lambda: mk(0.03, 0.012, 0.018, he).tolist())
rec("mk short tuple", lambda: mk(0.03, 0.012, 0.018, ("He", 0.1)).tolist())
for dry in ("dry gas", "wet gas", "damp gas"):
    vals = {
        "N2": 0.05,
        "H2S": 0.01,
        "CO2": 0.04,
        "Gas Specific Gravity": 0.8,
        "Reservoir Temperature (deg F)": 250.0,
    }
    try:
        df = build_pvt_gas(vals, dry, maximum_pressure=400)
        for col in df.columns:
            OUT.append(f"pvt {dry} {col} -> {fmt(df[col].to_numpy())}")
    except Exception:  # noqa: BLE001
        OUT.append(f"pvt {dry} -> EXC")

fl = Fluid(temperature=200.0, api_gravity=35.0, gas_specific_gravity=0.8, solution_gor_initial=650.0)
pgrid = np.array([100.0, 1000.0, 2500.0, 6000.0])
for name in ("gas_FVF", "gas_viscosity"):
    if hasattr(fl, name):
        for p in pgrid:
            rec(f"Fluid.{name} p={p}", getattr(fl, name), p, -72.2, 653.26)
        rec(f"Fluid.{name} grid", getattr(fl, name), pgrid, -72.2, 653.26)

with open(sys.argv[1], "w") as fh:
    fh.write("\n".join(OUT) + "\n")
