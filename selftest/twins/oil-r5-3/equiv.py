"""Equivalence driver for twin3: oil_compressibility_undersat_Standing (bubble-point shortcut)."""
import itertools
import sys
import warnings
from fractions import Fraction

import numpy as np
import pandas as pd

from bluebonnet.fluids import oil


def show(x):
    if isinstance(x, pd.Series):
        return "Series" + show(x.to_numpy())
    if isinstance(x, np.ndarray):
        return f"ndarray{x.shape}{x.dtype}" + repr([show(v) for v in x.ravel().tolist()])
    if isinstance(x, (float, np.floating)):
        return type(x).__name__ + ":" + repr(float(x))
    return type(x).__name__ + ":" + repr(x)


def call(out, label, f, *a, **k):
    with warnings.catch_warnings(record=True) as w:
        warnings.simplefilter("always")
        try:
            r = show(f(*a, **k))
        except BaseException as e:  # noqa: BLE001
            r = "EXC " + type(e).__name__
    cats = sorted({x.category.__name__ for x in w})
    out.append(f"{label} -> {r} warn={cats}")


def main(outfile):
    warnings.simplefilter("ignore")  # building the inputs; call() records warnings itself
    out = []
    f = oil.oil_compressibility_undersat_Standing
    f32, f16, ld = np.float32, np.float16, np.longdouble
    params = [
        (200, 35, 0.8, 650),
        (200.0, 35.0, 0.8, 650.0),
        (150.0, 45.0, 0.65, 1200.0),
        (250.0, 20.0, 1.1, 150.0),
        (100.0, 30.0, 0.7, 5.0),
        (200.0, 35.0, 0.8, 0.0),
        (60.0, 10.0, 1.5, 3000.0),
        (np.float64(180.0), np.float64(40.0), np.float64(0.75), np.float64(800.0)),
        (f32(180.0), f32(40.0), f32(0.75), f32(800.0)),
        (f32(180.0), 40.0, 0.75, 800.0),
        (180.0, 40.0, 0.75, f32(800.0)),
        (f16(180.0), f16(40.0), f16(0.75), f16(800.0)),
        (ld(180.0), ld(40.0), ld(0.75), ld(800.0)),
        (np.int64(180), np.int32(40), 0.75, np.uint8(200)),
        (Fraction(180), 40.0, 0.75, 800.0),
        (np.array(200.0), 35.0, 0.8, 650.0),
        (np.array([200.0]), 35.0, 0.8, 650.0),
        (200.0, 35.0, 0.8, np.array(650.0)),
        (200.0, 35.0, 0.8, np.array([650.0])),
        (200.0, 35.0, 0.8, np.array([650.0, 700.0])),
        (200.0, 35.0, 0.8, pd.Series([650.0])),
        (200.0, 35.0, 0.8, pd.Series([650.0, 700.0])),
        (200.0, -131.5, 0.8, 650.0),
        (200.0, 35.0, 0.0, 650.0),
        (200.0, 35.0, -0.8, 650.0),
        (200.0, 35.0, 0.8, -650.0),
        (0.0, 35.0, 0.8, 650.0),
        (200.0, 35.0, 0.8, float("nan")),
        (200.0, 35.0, 0.8, float("inf")),
        (200.0, 35.0, 0.8, 1e300),
        (200.0, 35.0, 1e-300, 650.0),
        ("a", 35.0, 0.8, 650.0),
        (200.0, None, 0.8, 650.0),
        (200.0, 35.0, 0.8, 1 + 2j),
    ]
    rng = np.random.default_rng(20240517)
    for _ in range(60):
        params.append((float(rng.uniform(80, 320)), float(rng.uniform(10, 55)),
                       float(rng.uniform(0.55, 1.3)), float(rng.uniform(20, 2500))))
    for pars in params:
        T, api, sg, gor = pars
        try:
            with warnings.catch_warnings():
                warnings.simplefilter("ignore")
                pb = oil.pressure_bubblepoint_Standing(T, api, sg, gor)
        except Exception:  # noqa: BLE001
            pb = 2500.0
        pressures = [pb, 3000.0, 3000, 14.7, 100000.0, 0.0, -1.0, float("nan"), float("inf"),
                     np.float64(3000.0), f32(3000.0), f16(3000.0), ld(3000.0),
                     np.array(3000.0), np.array([3000.0]), np.array([3000.0, 4000.0]),
                     [3000.0], pd.Series([3000.0]), None, "x", 3000 + 0j, True]
        if np.ndim(pb) == 0:
            try:
                pbf = float(pb)
                pressures += [pbf, np.float64(pbf), f32(pbf), f16(pbf) if abs(pbf) < 6e4 else f16(1.0),
                              ld(pbf), np.array(pbf), np.array([pbf]), np.array([pbf, pbf]), [pbf],
                              np.nextafter(pbf, -np.inf), np.nextafter(pbf, np.inf),
                              pbf + 1e-9, pbf * (1 + 1e-15), pbf + 18117.9, pbf + 12.938 / 7.141e-4]
                if pbf == int(pbf):
                    pressures.append(int(pbf))
            except Exception:  # noqa: BLE001
                pass
        else:
            pressures += [pb, np.asarray(pb) + 0.0]
        for p in pressures:
            call(out, f"co_us {pars!r} p={p!r}", f, T, p, api, sg, gor)
    # parameter sets whose bubble point is an exactly representable integer-like number
    for gor, sg in itertools.product([0.0, 1e-300], [0.8, 1.0]):
        pb = oil.pressure_bubblepoint_Standing(200.0, 35.0, sg, gor)
        for p in [pb, float(pb), -25.48, -25.479999999999997]:
            call(out, f"co_us lowgor {gor, sg} p={p!r}", f, 200.0, p, 35.0, sg, gor)
    with open(outfile, "w") as fh:
        fh.write("\n".join(out) + "\n")


if __name__ == "__main__":
    main(sys.argv[1])
