"""Equivalence driver for twin5: viscosity_beggs_robinson (dead-oil helper extracted)."""
import os
import sys
import warnings

import numpy as np
import pandas as pd

from bluebonnet.fluids import oil
from bluebonnet.fluids.fluid import Fluid

DATA = os.environ.get("BB_DATA", "/tmp/twin5_oil/tests/data")


def show(x):
    if isinstance(x, pd.Series):
        return "Series" + show(x.to_numpy())
    if isinstance(x, np.ndarray):
        return f"ndarray{x.shape}{x.dtype}" + repr([show(v) for v in x.ravel().tolist()])
    if isinstance(x, (float, np.floating)):
        return type(x).__name__ + ":" + repr(float(x))
    if isinstance(x, (complex, np.complexfloating)):
        return type(x).__name__ + ":" + repr(complex(x))
    return type(x).__name__ + ":" + repr(x)


def call(out, label, f, *a, **k):
    with warnings.catch_warnings(record=True) as w:
        warnings.simplefilter("always")
        try:
            r = show(f(*a, **k))
        except BaseException as e:  # noqa: BLE001
            r = "EXC " + type(e).__name__
    cats = sorted({x.category.__name__ for x in w})
    out.append(f"{label} -> {r} warn={cats}")


def main(outfile):
    warnings.simplefilter("ignore")
    out = []
    f = oil.viscosity_beggs_robinson
    f32, ld = np.float32, np.longdouble
    params = [
        (200, 35, 0.8, 650),
        (200.0, 35.0, 0.8, 650.0),
        (150.0, 45.0, 0.65, 1200.0),
        (250.0, 20.0, 1.1, 150.0),
        (100.0, 30.0, 0.7, 5.0),
        (200.0, 35.0, 0.8, 0.0),
        (60.0, 10.0, 1.5, 3000.0),
        (5.0, 10.0, 0.8, 650.0),        # dead-oil term overflows
        (1e-3, 35.0, 0.8, 650.0),
        (0.0, 35.0, 0.8, 650.0),        # 0.0 ** -1.163
        (0, 35.0, 0.8, 650.0),
        (-10.0, 35.0, 0.8, 650.0),      # negative ** fractional -> complex
        (1e6, 35.0, 0.8, 650.0),
        (200.0, 150.0, 0.8, 650.0),
        (200.0, -131.5, 0.8, 650.0),
        (200.0, -500.0, 0.8, 650.0),
        (np.float64(180.0), np.float64(40.0), np.float64(0.75), np.float64(800.0)),
        (np.float64(0.0), 35.0, 0.8, 650.0),
        (np.float64(-10.0), 35.0, 0.8, 650.0),
        (np.float64(5.0), np.float64(10.0), 0.8, 650.0),
        (f32(180.0), f32(40.0), f32(0.75), f32(800.0)),
        (ld(180.0), ld(40.0), ld(0.75), ld(800.0)),
        (np.int64(180), np.int32(40), 0.75, np.uint8(200)),
        (np.array(200.0), 35.0, 0.8, 650.0),
        (np.array([200.0]), 35.0, 0.8, 650.0),
        (np.array([200.0, 220.0]), 35.0, 0.8, 650.0),
        (200.0, np.array([35.0, 40.0]), 0.8, 650.0),
        (200.0, 35.0, 0.8, np.array([650.0])),
        (200.0, 35.0, 0.8, np.array([650.0, 700.0])),
        (200.0, 35.0, 0.0, 650.0),
        (200.0, 35.0, -0.8, 650.0),
        (200.0, 35.0, 0.8, -50.0),
        (200.0, 35.0, 0.8, -120.0),
        (200.0, 35.0, 0.8, -650.0),
        (200.0, 35.0, 0.8, float("nan")),
        (200.0, 35.0, 0.8, float("inf")),
        (float("nan"), 35.0, 0.8, 650.0),
        (float("inf"), 35.0, 0.8, 650.0),
        (200.0, float("nan"), 0.8, 650.0),
        ("a", 35.0, 0.8, 650.0),
        (200.0, "b", 0.8, 650.0),
        (200.0, None, 0.8, 650.0),
        (None, 35.0, 0.8, 650.0),
        (200.0, 35.0, 0.8, 650 + 1j),
        (200 + 1j, 35.0, 0.8, 650.0),
    ]
    rng = np.random.default_rng(7)
    for _ in range(40):
        params.append((float(rng.uniform(60, 350)), float(rng.uniform(8, 60)),
                       float(rng.uniform(0.55, 1.4)), float(rng.uniform(0, 3000))))
    for pars in params:
        T, api, sg, gor = pars
        try:
            pb = oil.pressure_bubblepoint_Standing(T, api, sg, gor)
            extra = [pb, np.nextafter(pb, -np.inf), np.nextafter(pb, np.inf)] if np.ndim(pb) == 0 else [pb]
        except Exception:  # noqa: BLE001
            extra = []
        pressures = [14.7, 100, 1000.0, 2000, 2000.0, 3000.0, 5000, 9000.0, 20000.0, 1e6, 0.0, 0, -1.0,
                     -100, float("nan"), float("inf"), np.float64(2400.0), np.float64(6000.0),
                     f32(2400.0), f32(6000.0), ld(6000.0), np.int64(6000), True,
                     np.array(2000.0), np.array(6000.0), np.array([2000.0]), np.array([6000.0]),
                     np.array([2000.0, 6000.0]), np.array([7000.0, 6000.0]), np.array([]),
                     [6000.0], [100.0, 6000.0], pd.Series([6000.0]), pd.Series([100.0, 6000.0]),
                     None, "x", 6000 + 1j, *extra]
        for p in pressures:
            call(out, f"mu {pars!r} p={p!r}", f, T, p, api, sg, gor)
    # through np.vectorize, as Fluid.oil_viscosity does
    fl = Fluid(200.0, 35.0, 0.8, 650.0)
    call(out, "Fluid.oil_viscosity array", fl.oil_viscosity, np.linspace(14.7, 9000.0, 60))
    call(out, "Fluid.oil_viscosity ints", fl.oil_viscosity, np.arange(100, 9000, 700))
    call(out, "Fluid.oil_viscosity scalar", fl.oil_viscosity, 3400.0)
    call(out, "Fluid.oil_viscosity 2d", fl.oil_viscosity, np.array([[100.0, 3000.0], [5000.0, 7000.0]]))
    call(out, "Fluid.oil_viscosity empty", fl.oil_viscosity, np.array([]))
    call(out, "Fluid.oil_viscosity list", fl.oil_viscosity, [100.0, 5000.0])
    pvt = pd.read_csv(os.path.join(DATA, "pvt_oil.csv"))
    call(out, "Fluid.oil_viscosity table", fl.oil_viscosity, pvt["P"].to_numpy()[1:])
    call(out, "Fluid.oil_viscosity table0", fl.oil_viscosity, pvt["P"].to_numpy())
    for T, api in [(0.0, 35.0), (5.0, 10.0), (-10.0, 35.0)]:
        fl2 = Fluid(T, api, 0.8, 650.0)
        call(out, f"Fluid({T},{api}).oil_viscosity", fl2.oil_viscosity, np.array([1000.0, 5000.0]))
    out.append("helper names: " + repr(sorted(n for n in dir(oil) if not n.startswith("_"))))
    with open(outfile, "w") as fh:
        fh.write("\n".join(out) + "\n")


if __name__ == "__main__":
    main(sys.argv[1])
