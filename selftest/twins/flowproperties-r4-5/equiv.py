"""Equivalence driver for bluebonnet.flow.flowproperties.

Usage: PYTHONPATH=<tree>/src /venv/bin/python equiv.py <outfile>

Calls every public function / class of the module on a broad set of inputs and
writes results (full-precision reprs), warnings and exception types to <outfile>.
The output is independent of PYTHONHASHSEED (set-ordered things are sorted).
"""

from __future__ import annotations

import copy
import inspect
import os
import re
import sys
import warnings
from types import SimpleNamespace

import numpy as np
import pandas as pd

from bluebonnet.flow import flowproperties as fp
from bluebonnet.flow.flowproperties import (
    FlowProperties,
    FlowPropertiesMultiPhase,
    FlowPropertiesOnePhase,
    FlowPropertiesSimple,
    FlowPropertiesTwoPhase,
    RelPermParams,
    alpha_multiphase,
    compressibility_combined_func,
    lambda_combined_func,
    pseudopressure_threephase,
    relative_permeabilities,
    relative_permeabilities_twophase,
    rescale_pseudopressure,
)

DATA = os.environ.get("BB_DATA", "/tmp/twin4_flowproperties/tests/data")
OUT = []


def fmt(x, depth=0):
    if x is None or isinstance(x, (bool, str, int)):
        return repr(x)
    if isinstance(x, (float, np.floating)):
        return repr(float(x))
    if isinstance(x, np.integer):
        return repr(int(x))
    if isinstance(x, (np.bool_,)):
        return repr(bool(x))
    if isinstance(x, pd.DataFrame):
        cols = list(x.columns)
        return (
            "DataFrame(cols="
            + repr([str(c) for c in cols])
            + ", index="
            + fmt(np.asarray(x.index))
            + ", "
            + "; ".join(f"{c}={fmt(x[c].to_numpy())}" for c in cols)
            + ")"
        )
    if isinstance(x, pd.Series):
        return f"Series(name={x.name!r}, index={fmt(np.asarray(x.index))}, {fmt(x.to_numpy())})"
    if isinstance(x, np.ndarray):
        if x.dtype.names:
            return (
                f"recarray(type={type(x).__name__}, shape={x.shape}, names={x.dtype.names}, "
                + "; ".join(f"{n}={fmt(np.asarray(x[n]))}" for n in x.dtype.names)
                + ")"
            )
        flat = x.ravel().tolist()
        return f"array(shape={x.shape}, dtype={x.dtype}, [" + ", ".join(repr(v) for v in flat) + "])"
    if isinstance(x, RelPermParams):
        return "RelPermParams" + fmt(tuple(x))
    if isinstance(x, (tuple, list)):
        return type(x).__name__ + "(" + ", ".join(fmt(v, depth + 1) for v in x) + ")"
    if isinstance(x, dict):
        items = sorted(x.items(), key=lambda kv: str(kv[0]))
        return "dict(" + ", ".join(f"{k!r}: {fmt(v, depth + 1)}" for k, v in items) + ")"
    if callable(x):
        return f"<callable {type(x).__name__}>"
    return f"<{type(x).__name__}>"


def normalise_message(msg):
    """Make set-order-dependent messages independent of the hash seed."""
    msg = str(msg)
    if msg.startswith("Need pvt_props to have: "):
        head, tail = msg.split(": ", 1)
        return head + ": " + ", ".join(sorted(tail.split(", ")))
    m = re.match(r"^(df_(?:pvt|kr) needs all of )(.*)$", msg)
    if m:
        body = m.group(2)
        prefix = body[: body.index("{") + 1]
        suffix = body[body.rindex("}") :]
        inner = body[body.index("{") + 1 : body.rindex("}")]
        return m.group(1) + prefix + ", ".join(sorted(inner.split(", "))) + suffix
    return msg


def record(label, fn):
    with warnings.catch_warnings(record=True) as caught:
        warnings.simplefilter("always")
        try:
            res = fn()
            line = "OK " + fmt(res)
        except Exception as exc:
            line = "RAISES " + type(exc).__name__
            if isinstance(exc, ValueError) and (
                str(exc).startswith("Need ") or str(exc).startswith("df_")
                or "must" in str(exc) or "saturation" in str(exc)
            ):
                line += " :: " + normalise_message(exc)
    warns = sorted(
        {
            (
                w.category.__name__,
                str(w.message),
                "<caller>"
                if os.path.abspath(w.filename) == os.path.abspath(__file__)
                else os.path.basename(w.filename),
            )
            for w in caught
        }
    )
    OUT.append(f"{label} -> {line}")
    if warns:
        OUT.append(f"{label} WARN {warns}")


# --------------------------------------------------------------------------- data
gas_renamer = {
    "P": "pressure",
    "Z-Factor": "z-factor",
    "Cg": "compressibility",
    "Viscosity": "viscosity",
    "Density": "density",
}
oil_renamer = {
    "P": "pressure",
    "Z-Factor": "z-factor",
    "Co": "compressibility",
    "Oil_Viscosity": "viscosity",
    "Oil_Density": "density",
}
pvt_gas = pd.read_csv(os.path.join(DATA, "pvt_gas.csv")).rename(columns=gas_renamer)
pvt_oil = pd.read_csv(os.path.join(DATA, "pvt_oil.csv")).rename(columns=oil_renamer)
pvt_ideal = pd.read_csv(os.path.join(DATA, "pvt_ideal_gas.csv")).rename(columns=gas_renamer)
pvt_hay = pd.read_csv(os.path.join(DATA, "pvt_gas_HAYNESVILLE SHALE_20.csv")).rename(
    columns=gas_renamer
)
pvt_multi = pd.read_csv(os.path.join(DATA, "pvt_multiphase_oil.csv"), index_col=0)
pvt_water = pd.read_csv(os.path.join(DATA, "pvt_water.csv")).rename(
    columns={"T": "temperature", "P": "pressure", "Viscosity": "mu_w"}
)

OUT.append("columns gas " + repr(list(pvt_gas.columns)))
OUT.append("columns oil " + repr(list(pvt_oil.columns)))
OUT.append("columns multi " + repr(list(pvt_multi.columns)))

P_QUERY = [0.0, 10.0, 123.456, 1000.0, 4999.5, 8000.0]
M_QUERY = [-0.5, 0.0, 1e-6, 0.01, 0.2, 0.5, 0.999, 1.0, 1.5, 1e3]


def describe_flowprops(obj, p_max):
    res = {
        "class": type(obj).__name__,
        "m_i": np.asarray(obj.m_i),
        "m_scaled": np.asarray(obj.m_scaled_func([p for p in P_QUERY if p <= p_max])),
        "alpha": np.asarray(obj.alpha(M_QUERY)),
        "alpha_scalar": np.asarray(obj.alpha(0.3)),
        "fill_value": tuple(np.asarray(v) for v in np.atleast_1d(obj.alpha.fill_value)),
        "pvt_type": type(obj.pvt_props).__name__,
        "attrs": sorted(vars(obj)),
    }
    props = obj.pvt_props
    if isinstance(props, pd.DataFrame):
        res["pvt_props"] = props
        res["repr_equal"] = repr(obj) == repr(props)
    else:
        res["pvt_props"] = {k: np.asarray(v) for k, v in props.items()}
        res["repr_equal"] = repr(obj) == repr(props)
    return res


def as_dict(df, cols=None):
    cols = list(df.columns) if cols is None else cols
    return {c: df[c].to_numpy().copy() for c in cols}


# ------------------------------------------------------------ module-level facts
for name in (
    "FlowProperties",
    "FlowPropertiesSimple",
    "FlowPropertiesTwoPhase",
    "FlowPropertiesMultiPhase",
    "rescale_pseudopressure",
    "alpha_multiphase",
    "lambda_combined_func",
    "compressibility_combined_func",
    "pseudopressure_threephase",
    "relative_permeabilities",
    "relative_permeabilities_twophase",
):
    obj = getattr(fp, name)
    OUT.append(
        f"meta {name}: name={obj.__name__} qualname={obj.__qualname__} module={obj.__module__} "
        f"sig={inspect.signature(obj)} doclen={len(obj.__doc__ or '')}"
    )
OUT.append(f"meta from_table sig={inspect.signature(FlowPropertiesTwoPhase.from_table)}")
OUT.append(f"meta alias {FlowPropertiesOnePhase is FlowProperties}")
OUT.append(f"meta relperm fields {RelPermParams._fields}")
OUT.append(
    "meta subclass "
    + repr(
        [
            issubclass(c, FlowProperties)
            for c in (FlowPropertiesSimple, FlowPropertiesTwoPhase, FlowPropertiesMultiPhase)
        ]
    )
)

# ------------------------------------------------------------- FlowProperties
for tname, table in (("gas", pvt_gas), ("ideal", pvt_ideal), ("hay", pvt_hay)):
    p_max = float(table["pressure"].max())
    for p_i in (8000.0, 5000.5, 10.0, p_max, 0.0):
        if p_i > p_max:
            continue
        before = table.copy()
        record(
            f"FlowProperties df {tname} p_i={p_i}",
            lambda table=table, p_i=p_i, p_max=p_max: describe_flowprops(
                FlowProperties(table, p_i), p_max
            ),
        )
        OUT.append(f"   input unchanged: {before.equals(table)} {list(table.columns)}")
    record(f"FlowProperties df {tname} p_i too big", lambda table=table: FlowProperties(table, 1e9))
    record(f"FlowProperties df {tname} p_i negative", lambda table=table: FlowProperties(table, -1.0))
    record(
        f"FlowProperties df {tname} p_i nan",
        lambda table=table, p_max=p_max: describe_flowprops(FlowProperties(table, np.nan), p_max),
    )
    record(
        f"FlowProperties df {tname} p_i array",
        lambda table=table, p_max=p_max: np.asarray(FlowProperties(table, np.array([100.0, 2000.0])).m_i),
    )
    record(f"FlowProperties df {tname} p_i str", lambda table=table: FlowProperties(table, "a"))

long_cols = ["pseudopressure", "compressibility", "pressure", "viscosity", "z-factor"]
gas_dict = as_dict(pvt_gas, long_cols)
record(
    "FlowProperties dict gas long",
    lambda: describe_flowprops(FlowProperties(gas_dict, 6000.0), 1e5),
)
OUT.append("   dict input keys after: " + repr(sorted(gas_dict)))
gas_dict_nozero = {k: v[1:] for k, v in as_dict(pvt_gas, long_cols).items()}
record(
    "FlowProperties dict gas long no p=0",
    lambda: describe_flowprops(FlowProperties(gas_dict_nozero, 6000.0), 1e5),
)
record(
    "FlowProperties keyword args",
    lambda: describe_flowprops(FlowProperties(pvt_props=pvt_gas, p_i=3000.0), 1e5),
)
record(
    "FlowPropertiesOnePhase oil",
    lambda: describe_flowprops(
        FlowPropertiesOnePhase(pvt_oil.assign(**{"z-factor": 1.0}), 3000.0), 1e5
    ),
)
record("FlowProperties oil (no z-factor?)", lambda: describe_flowprops(FlowProperties(pvt_oil, 3000.0), 1e5))

# user-supplied alpha (short column set)
short_df = pvt_multi[["pressure", "pseudopressure"]].assign(
    alpha=np.linspace(2.0, 0.5, len(pvt_multi)) ** 2
)
for p_i in (6000.0, 1234.5, 8000.0):
    record(
        f"FlowProperties short df p_i={p_i}",
        lambda p_i=p_i: describe_flowprops(FlowProperties(short_df, p_i), 1e5),
    )
record(
    "FlowProperties short dict",
    lambda: describe_flowprops(FlowProperties(as_dict(short_df), 5000.0), 1e5),
)
both_df = pvt_gas.assign(alpha=np.linspace(1.0, 3.0, len(pvt_gas)))
record("FlowProperties long+alpha df", lambda: describe_flowprops(FlowProperties(both_df, 5000.0), 1e5))
both_nozero = both_df.iloc[1:].reset_index(drop=True)
record(
    "FlowProperties long+alpha df no p=0",
    lambda: describe_flowprops(FlowProperties(both_nozero, 5000.0), 1e5),
)
record("FlowProperties short df p_i too big", lambda: FlowProperties(short_df, 1e9))

# missing columns
for drop in (["pressure"], ["pseudopressure"], ["viscosity"], ["z-factor"], ["compressibility"]):
    record(
        f"FlowProperties gas missing {drop}",
        lambda drop=drop: describe_flowprops(FlowProperties(pvt_gas.drop(columns=drop), 5000.0), 1e5),
    )
    record(
        f"FlowProperties gas+alpha missing {drop}",
        lambda drop=drop: describe_flowprops(FlowProperties(both_df.drop(columns=drop), 5000.0), 1e5),
    )
record("FlowProperties alpha only", lambda: FlowProperties({"alpha": np.ones(3)}, 1.0))
record("FlowProperties empty dict", lambda: FlowProperties({}, 1.0))
record("FlowProperties None", lambda: FlowProperties(None, 1.0))
record("FlowProperties list of names", lambda: FlowProperties(["pressure", "pseudopressure", "alpha"], 1.0))
record("FlowProperties int", lambda: FlowProperties(3, 1.0))
record("FlowProperties no args", lambda: FlowProperties())
record("FlowProperties one arg", lambda: FlowProperties(pvt_gas))
record(
    "FlowProperties short lists",
    lambda: FlowProperties({"pressure": [1.0, 2.0], "pseudopressure": [1.0, 2.0], "alpha": [1.0, 2.0]}, 1.5),
)
record(
    "FlowProperties single row",
    lambda: FlowProperties(short_df.iloc[:1], 0.0),
)
record(
    "FlowProperties mismatched lengths",
    lambda: FlowProperties(
        {"pressure": np.arange(3.0), "pseudopressure": np.arange(4.0) + 1, "alpha": np.ones(3)}, 1.5
    ),
)

# --------------------------------------------------------- FlowPropertiesSimple
for tname, table in (("gas", pvt_gas), ("oil", pvt_oil)):
    for p_i in (7000.0, 10.0, 0.0, 333.3):
        before = table.copy()
        record(
            f"FlowPropertiesSimple {tname} p_i={p_i}",
            lambda table=table, p_i=p_i: describe_flowprops(FlowPropertiesSimple(table, p_i), 1e5),
        )
        OUT.append(f"   input unchanged: {before.equals(table)}")
    record(f"FlowPropertiesSimple {tname} too big", lambda table=table: FlowPropertiesSimple(table, 1e9))
record(
    "FlowPropertiesSimple dict",
    lambda: describe_flowprops(
        FlowPropertiesSimple(as_dict(pvt_gas, ["compressibility", "pressure", "viscosity"]), 4000.0), 1e5
    ),
)
for drop in (["pressure"], ["viscosity"], ["compressibility"], ["pseudopressure"]):
    record(
        f"FlowPropertiesSimple missing {drop}",
        lambda drop=drop: describe_flowprops(
            FlowPropertiesSimple(pvt_gas.drop(columns=drop), 4000.0), 1e5
        ),
    )
record("FlowPropertiesSimple None", lambda: FlowPropertiesSimple(None, 1.0))
record("FlowPropertiesSimple empty", lambda: FlowPropertiesSimple({}, 1.0))
record(
    "FlowPropertiesSimple with alpha present",
    lambda: describe_flowprops(FlowPropertiesSimple(both_df, 4000.0), 1e5),
)

# ------------------------------------------------------- rescale_pseudopressure
Sw = 0.1
rename_cols = {
    "T": "temperature",
    "P": "pressure",
    "Oil_Viscosity": "mu_o",
    "Gas_Viscosity": "mu_g",
    "Rso": "Rs",
}
pvt_oil_raw = pd.read_csv(os.path.join(DATA, "pvt_oil.csv"))
df_pvt = (
    pvt_water.drop(columns=["temperature"])
    .merge(pvt_oil_raw.rename(columns=rename_cols), on="pressure")
    .assign(Rv=0)
)
df_pvt["So"] = (1 - Sw) / (
    (df_pvt["Rs"].max() - df_pvt["Rs"]) * df_pvt["Bg"] / df_pvt["Bo"] / 5.61458 + 1
)
OUT.append("columns df_pvt " + repr(list(df_pvt.columns)))

for p_frac, p_i in (
    (1000, 8000.0),
    (1000.0, 6000),
    (0.0, 8000.0),
    (123.4, 5678.9),
    (5000.0, 1000.0),
    (2000.0, 2000.0),
):
    before = df_pvt.copy()
    record(
        f"rescale p_frac={p_frac} p_i={p_i}",
        lambda p_frac=p_frac, p_i=p_i: rescale_pseudopressure(df_pvt, p_frac, p_i)[
            ["pressure", "pseudopressure"]
        ],
    )
    OUT.append(f"   input unchanged: {before.equals(df_pvt)}")
record("rescale keywords", lambda: rescale_pseudopressure(df_pvt=df_pvt, p_frac=500.0, p_i=7000.0)["pseudopressure"])
record("rescale mixed keywords", lambda: rescale_pseudopressure(df_pvt, p_i=7000.0, p_frac=500.0)["pseudopressure"])
record("rescale all columns", lambda: rescale_pseudopressure(df_pvt, 1000.0, 8000.0))
record("rescale gas table", lambda: rescale_pseudopressure(pvt_gas, 100.0, 9000.0))
record("rescale p_i too big", lambda: rescale_pseudopressure(df_pvt, 1000.0, 1e9))
record("rescale p_frac negative", lambda: rescale_pseudopressure(df_pvt, -1.0, 8000.0))
record("rescale nan", lambda: rescale_pseudopressure(df_pvt, np.nan, 8000.0)["pseudopressure"])
record("rescale dict", lambda: rescale_pseudopressure(as_dict(df_pvt), 1000.0, 8000.0))
record("rescale None", lambda: rescale_pseudopressure(None, 1000.0, 8000.0))
record("rescale missing col", lambda: rescale_pseudopressure(df_pvt.drop(columns=["pseudopressure"]), 1000.0, 8000.0))
record("rescale too few args", lambda: rescale_pseudopressure(df_pvt, 1000.0))
record("rescale too many args", lambda: rescale_pseudopressure(df_pvt, 1000.0, 8000.0, 1))
record("rescale bad keyword", lambda: rescale_pseudopressure(df_pvt, 1000.0, 8000.0, foo=1))


class AttrTable:
    """Attribute + item access, no .copy -> exercises the deepcopy branch."""

    def __init__(self, **kw):
        self.__dict__.update(kw)

    def __getitem__(self, key):
        return self.__dict__[key]

    def __setitem__(self, key, value):
        self.__dict__[key] = value


attr_table = AttrTable(
    pressure=df_pvt["pressure"].to_numpy().copy(),
    pseudopressure=df_pvt["pseudopressure"].to_numpy().copy(),
)


def rescale_attr():
    before = attr_table.pseudopressure.copy()
    out = rescale_pseudopressure(attr_table, 1000.0, 8000.0)
    return {
        "type": type(out).__name__,
        "is_input": out is attr_table,
        "pseudopressure": out.pseudopressure,
        "pressure": out.pressure,
        "input_unchanged": bool(np.array_equal(before, attr_table.pseudopressure)),
    }


record("rescale attr-table (deepcopy branch)", rescale_attr)
record("rescale recarray", lambda: rescale_pseudopressure(df_pvt[["pressure", "pseudopressure"]].to_records(index=False), 1000.0, 8000.0))

# ------------------------------------------------ relative permeabilities
base = dict(n_o=1, n_g=1, n_w=1, S_or=0, S_gc=0, S_wc=0.1, k_ro_max=1, k_rw_max=1, k_rg_max=1)
relperm_params = RelPermParams(**base)


def sat_table(n=50, Sw=0.1):
    return pd.DataFrame(
        {"So": np.linspace(0, 1 - Sw, n), "Sw": np.full(n, Sw), "Sg": np.linspace(1 - Sw, 0, n)}
    )


sat50 = sat_table().to_records(index=False)
param_sets = {
    "base": base,
    "corey2": {**base, "n_o": 2, "n_g": 2.5, "n_w": 3},
    "resid": {**base, "S_or": 0.2, "S_gc": 0.05, "S_wc": 0.15, "n_o": 1.7},
    "kmax": {**base, "k_ro_max": 0.8, "k_rw_max": 0.3, "k_rg_max": 0.95, "n_g": 4.0},
    "exp6": {**base, "n_o": 6, "n_g": 6.0, "n_w": 6},
    "exp6.0001": {**base, "n_o": 6.0001},
    "exp0.9999": {**base, "n_w": 0.9999},
    "exp_g_big": {**base, "n_g": 7},
    "exp_g_small": {**base, "n_g": 0.5},
    "neg_S_or": {**base, "S_or": -0.01},
    "neg_S_gc": {**base, "S_gc": -1e-9},
    "big_S_wc": {**base, "S_wc": 1.01},
    "S_wc_one": {**base, "S_wc": 1.0},
    "sum_resid_one": {**base, "S_or": 0.5, "S_wc": 0.3, "S_gc": 0.2},
    "sum_resid_gt_one": {**base, "S_or": 0.6, "S_wc": 0.5, "S_gc": 0.2},
    "neg_kmax": {**base, "k_rw_max": -0.1},
    "big_kmax": {**base, "k_rg_max": 1.1},
    "kmax_zero": {**base, "k_ro_max": 0, "k_rw_max": 0.0, "k_rg_max": 0},
    "nan_exp": {**base, "n_o": float("nan")},
    "nan_exp_last": {**base, "n_w": float("nan")},
    "nan_kmax": {**base, "k_ro_max": float("nan")},
    "nan_resid": {**base, "S_gc": float("nan")},
    "nan_hides_neg_kmax": {**base, "k_ro_max": float("nan"), "k_rw_max": -0.5, "k_rg_max": -0.25},
    "nan_hides_neg_kmax2": {**base, "k_ro_max": float("nan"), "k_rw_max": 0.5, "k_rg_max": -1.0, "n_g": 3},
    "nan_hides_big_kmax": {**base, "k_ro_max": float("nan"), "k_rw_max": 1.5, "k_rg_max": 2.0},
    "several_bad": {**base, "n_o": 9, "S_or": -1, "k_ro_max": 3},
    "none_exp": {**base, "n_o": None},
    "str_exp": {**base, "n_o": "2"},
    "array_exp": {**base, "n_o": np.array([1.0, 2.0])},
    "np_scalars": {k: np.float64(v) for k, v in base.items()},
}
for pname, pset in param_sets.items():
    record(
        f"relperm {pname} sat50",
        lambda pset=pset: relative_permeabilities(sat50, RelPermParams(**pset)),
    )
    record(
        f"relperm twophase {pname}",
        lambda pset=pset: relative_permeabilities_twophase(RelPermParams(**pset)),
    )

sat_cases = {
    "three_phase": pd.DataFrame(
        {"So": [0.5, 0.2, 0.0, 1.0, 0.3333], "Sw": [0.3, 0.2, 0.0, 0.0, 0.3333], "Sg": [0.2, 0.6, 1.0, 0.0, 0.3334]}
    ),
    "within_tol": pd.DataFrame({"So": [0.5, 0.5005], "Sw": [0.3, 0.3], "Sg": [0.2, 0.2004]}),
    "outside_tol": pd.DataFrame({"So": [0.5, 0.502], "Sw": [0.3, 0.3], "Sg": [0.2, 0.2]}),
    "below_tol": pd.DataFrame({"So": [0.5, 0.49], "Sw": [0.3, 0.3], "Sg": [0.2, 0.2]}),
    "negative_sat": pd.DataFrame({"So": [-0.0005, 1.0005], "Sw": [0.5, -0.0005], "Sg": [0.5, 0.0]}),
    "nan_sat": pd.DataFrame({"So": [np.nan, 0.5], "Sw": [0.5, 0.25], "Sg": [0.5, 0.25]}),
    "inf_sat": pd.DataFrame({"So": [np.inf, 0.5], "Sw": [0.5, 0.25], "Sg": [0.5, 0.25]}),
    "ints": pd.DataFrame({"So": [1, 0, 0], "Sw": [0, 1, 0], "Sg": [0, 0, 1]}),
    "single": pd.DataFrame({"So": [0.6], "Sw": [0.1], "Sg": [0.3]}),
    "empty": pd.DataFrame({"So": np.array([], dtype=float), "Sw": np.array([], dtype=float), "Sg": np.array([], dtype=float)}),
    "reordered": pd.DataFrame({"Sg": [0.2, 0.6], "So": [0.5, 0.2], "Sw": [0.3, 0.2]}),
    "missing_Sg": pd.DataFrame({"So": [0.5, 0.2], "Sw": [0.5, 0.8]}),
    "extra_col": pd.DataFrame({"So": [0.5, 0.2], "Sw": [0.3, 0.2], "Sg": [0.2, 0.6], "x": [0.0, 0.0]}),
}
for sname, sdf in sat_cases.items():
    for pname in ("base", "corey2", "resid", "kmax", "sum_resid_one", "exp_g_big"):
        record(
            f"relperm sat={sname} params={pname}",
            lambda sdf=sdf, pname=pname: relative_permeabilities(
                sdf.to_records(index=False), RelPermParams(**param_sets[pname])
            ),
        )
plain_struct = np.array(
    [(0.5, 0.3, 0.2), (0.1, 0.1, 0.8)], dtype=[("So", "f8"), ("Sw", "f8"), ("Sg", "f8")]
)
record("relperm plain structured array", lambda: relative_permeabilities(plain_struct, relperm_params))
record(
    "relperm keywords",
    lambda: relative_permeabilities(saturations=plain_struct, params=RelPermParams(**param_sets["corey2"])),
)
f4_struct = plain_struct.astype([("So", "f4"), ("Sw", "f4"), ("Sg", "f4")])
record("relperm float32 structured array", lambda: relative_permeabilities(f4_struct, RelPermParams(**param_sets["resid"])))
record("relperm dataframe direct", lambda: relative_permeabilities(sat_table(), relperm_params))
record("relperm dict", lambda: relative_permeabilities({"So": [0.5], "Sw": [0.3], "Sg": [0.2]}, relperm_params))
record("relperm 2d array", lambda: relative_permeabilities(np.array([[0.5, 0.3, 0.2]]), relperm_params))
record("relperm None", lambda: relative_permeabilities(None, relperm_params))
record("relperm params tuple", lambda: relative_permeabilities(sat50, tuple(relperm_params)))
record("relperm params None", lambda: relative_permeabilities(sat50, None))
record("relperm params dict", lambda: relative_permeabilities(sat50, base))
record("relperm params namespace", lambda: relative_permeabilities(sat50, SimpleNamespace(**param_sets["kmax"])))
record("relperm no args", lambda: relative_permeabilities())
record("relperm extra kw", lambda: relative_permeabilities(sat50, relperm_params, foo=1))
record("relperm 0-d struct", lambda: relative_permeabilities(plain_struct[0], relperm_params))


def relperm_input_untouched():
    arr = sat_table(7).to_records(index=False)
    before = arr.copy()
    relative_permeabilities(arr, RelPermParams(**param_sets["resid"]))
    return all(np.array_equal(arr[n], before[n]) for n in arr.dtype.names)


record("relperm leaves input alone", relperm_input_untouched)

for sw in (0.1, 0.05, 0.0, 0.1000001, 0.8, -0.1, float("nan"), 1.0, np.float64(0.02), 1):
    for pname in ("base", "corey2", "resid", "kmax"):
        record(
            f"relperm twophase Sw={sw!r} params={pname}",
            lambda sw=sw, pname=pname: relative_permeabilities_twophase(
                RelPermParams(**param_sets[pname]), sw
            ),
        )
record("relperm twophase Sw kw", lambda: relative_permeabilities_twophase(relperm_params, Sw=0.03))
record("relperm twophase all kw", lambda: relative_permeabilities_twophase(params=relperm_params, Sw=0.07))
record("relperm twophase Sw str", lambda: relative_permeabilities_twophase(relperm_params, "a"))
record("relperm twophase Sw None", lambda: relative_permeabilities_twophase(relperm_params, None))
record("relperm twophase Sw array", lambda: relative_permeabilities_twophase(relperm_params, np.array([0.05, 0.06])))
record("relperm twophase params None", lambda: relative_permeabilities_twophase(None))
record("relperm twophase params tuple", lambda: relative_permeabilities_twophase(tuple(relperm_params)))
record("relperm twophase no args", lambda: relative_permeabilities_twophase())
record("relperm twophase bad kw", lambda: relative_permeabilities_twophase(relperm_params, S_w=0.1))

# ------------------------------------------------- FlowPropertiesTwoPhase.from_table
reference_densities = {"rho_o0": 141.5 / (45 + 131.5), "rho_g0": 1.03e-3, "rho_w0": 1}
df_kr = relative_permeabilities_twophase(relperm_params)
df_kr2 = relative_permeabilities_twophase(RelPermParams(**param_sets["corey2"]), 0.1)
P_EVAL = np.array([0.0, 15.0, 1000.0, 4321.0, 8000.0, 20000.0])
SO_EVAL = np.array([0.0, 0.05, 0.45, 0.9])


def describe_twophase(obj):
    res = describe_flowprops(obj, 1e5)
    res["pvt_keys"] = sorted(obj.pvt)
    res["kr_keys"] = list(obj.kr)
    res["pvt_eval"] = {
        k: (np.asarray(v(P_EVAL)) if callable(v) else v) for k, v in obj.pvt.items()
    }
    res["kr_eval"] = {k: np.asarray(v(SO_EVAL)) for k, v in obj.kr.items()}
    return res


scaled = rescale_pseudopressure(df_pvt, 1000, 8000.0)
for label, pvt_in, kr_in, phi, sw, p_i in (
    ("test-case", scaled, df_kr, 0.1, 0.1, 8000.0),
    ("corey2", scaled, df_kr2, 0.07, 0.1, 6000.0),
    ("unscaled", df_pvt, df_kr, 0.2, 0.05, 5000.5),
    ("csv", pvt_multi, df_kr, 0.1, 0.1, 6000.0),
    ("dicts", as_dict(scaled), as_dict(df_kr), 0.1, 0.1, 8000.0),
    ("sw array", scaled, df_kr, 0.1, np.full(len(scaled), 0.1), 8000.0),
    ("phi zero", scaled, df_kr, 0.0, 0.1, 8000.0),
):
    before = pvt_in.copy() if hasattr(pvt_in, "equals") else None
    record(
        f"from_table {label}",
        lambda pvt_in=pvt_in, kr_in=kr_in, phi=phi, sw=sw, p_i=p_i: describe_twophase(
            FlowPropertiesTwoPhase.from_table(pvt_in, kr_in, reference_densities, phi, sw, p_i)
        ),
    )
    if before is not None:
        OUT.append(f"   input unchanged: {before.equals(pvt_in)}")
record(
    "from_table keywords",
    lambda: describe_twophase(
        FlowPropertiesTwoPhase.from_table(
            pvt_props=scaled, kr_props=df_kr, reference_densities=reference_densities,
            phi=0.1, Sw=0.1, p_i=7000.0,
        )
    ),
)
record(
    "from_table extra reference keys",
    lambda: describe_twophase(
        FlowPropertiesTwoPhase.from_table(
            scaled, df_kr, {**reference_densities, "extra": 3.0}, 0.1, 0.1, 7000.0
        )
    ),
)
record(
    "from_table reference keys override a pvt column",
    lambda: describe_twophase(
        FlowPropertiesTwoPhase.from_table(
            scaled, df_kr, {**reference_densities, "Bo": 2.0}, 0.1, 0.1, 7000.0
        )
    ),
)
record(
    "from_table reference densities as list of pairs",
    lambda: describe_twophase(
        FlowPropertiesTwoPhase.from_table(
            scaled, df_kr, list(reference_densities.items()), 0.1, 0.1, 7000.0
        )
    ),
)
for drop in ("pseudopressure", "pressure", "Bo", "Bg", "Bw", "Rs", "Rv", "mu_o", "mu_g", "mu_w", "So"):
    record(
        f"from_table pvt missing {drop}",
        lambda drop=drop: FlowPropertiesTwoPhase.from_table(
            scaled.drop(columns=[drop]), df_kr, reference_densities, 0.1, 0.1, 8000.0
        ),
    )
for drop in ("So", "Sg", "Sw", "kro", "krg", "krw"):
    record(
        f"from_table kr missing {drop}",
        lambda drop=drop: FlowPropertiesTwoPhase.from_table(
            scaled, df_kr.drop(columns=[drop]), reference_densities, 0.1, 0.1, 8000.0
        ),
    )
record(
    "from_table both missing",
    lambda: FlowPropertiesTwoPhase.from_table(
        scaled.drop(columns=["Bo"]), df_kr.drop(columns=["kro"]), reference_densities, 0.1, 0.1, 8000.0
    ),
)
for drop in ("rho_o0", "rho_g0", "rho_w0"):
    record(
        f"from_table densities missing {drop}",
        lambda drop=drop: FlowPropertiesTwoPhase.from_table(
            scaled, df_kr, {k: v for k, v in reference_densities.items() if k != drop}, 0.1, 0.1, 8000.0
        ),
    )
record("from_table densities None", lambda: FlowPropertiesTwoPhase.from_table(scaled, df_kr, None, 0.1, 0.1, 8000.0))
record("from_table p_i too big", lambda: FlowPropertiesTwoPhase.from_table(scaled, df_kr, reference_densities, 0.1, 0.1, 1e9))
record("from_table pvt None", lambda: FlowPropertiesTwoPhase.from_table(None, df_kr, reference_densities, 0.1, 0.1, 8000.0))
record("from_table kr None", lambda: FlowPropertiesTwoPhase.from_table(scaled, None, reference_densities, 0.1, 0.1, 8000.0))
record("from_table missing arg", lambda: FlowPropertiesTwoPhase.from_table(scaled, df_kr, reference_densities, 0.1, 0.1))
record(
    "from_table kr range too small",
    lambda: FlowPropertiesTwoPhase.from_table(
        scaled, df_kr.iloc[:10], reference_densities, 0.1, 0.1, 8000.0
    ),
)


class Sub(FlowPropertiesTwoPhase):
    pass


record(
    "from_table subclass",
    lambda: type(Sub.from_table(scaled, df_kr, reference_densities, 0.1, 0.1, 8000.0)).__name__,
)
record("TwoPhase direct init", lambda: describe_flowprops(FlowPropertiesTwoPhase(short_df, 5000.0), 1e5))

# ------------------------------------------ multiphase helper functions
two = None
with warnings.catch_warnings():
    warnings.simplefilter("ignore")
    two = FlowPropertiesTwoPhase.from_table(scaled, df_kr2, reference_densities, 0.1, 0.1, 8000.0)
pvt, kr = two.pvt, two.kr
pressure = scaled["pressure"].to_numpy()
So = scaled["So"].to_numpy()
arg_sets = {
    "table": (pressure, So),
    "series": (scaled["pressure"], scaled["So"]),
    "short": (np.array([10.0, 500.0, 3000.0, 7999.0]), np.array([0.1, 0.3, 0.6, 0.9])),
    "scalars": (2500.0, 0.4),
    "lists": ([100.0, 200.0, 400.0], [0.2, 0.3, 0.5]),
    "decreasing": (np.array([5000.0, 3000.0, 100.0]), np.array([0.7, 0.5, 0.2])),
    "extrapolated p": (np.array([-5.0, 30000.0]), np.array([0.2, 0.5])),
    "So out of range": (np.array([100.0, 200.0]), np.array([0.2, 0.95])),
    "So negative": (np.array([100.0, 200.0]), np.array([-0.1, 0.5])),
    "nan": (np.array([100.0, np.nan]), np.array([np.nan, 0.5])),
    "mismatch": (np.array([100.0, 200.0, 300.0]), np.array([0.2, 0.5])),
    "single": (np.array([100.0]), np.array([0.2])),
    "empty": (np.array([]), np.array([])),
    "2d": (np.array([[100.0, 200.0], [300.0, 400.0]]), np.array([[0.2, 0.3], [0.4, 0.5]])),
    "strings": ("a", "b"),
    "none": (None, None),
}
for aname, (p, s) in arg_sets.items():
    record(f"lambda_combined {aname}", lambda p=p, s=s: lambda_combined_func(p, s, pvt, kr))
    record(f"pseudopressure_threephase {aname}", lambda p=p, s=s: pseudopressure_threephase(p, s, pvt, kr))
    for phi, sw in ((0.1, 0.1), (0.25, 0.0), (0.0, 0.3), (1, 0.1)):
        record(
            f"compressibility_combined {aname} phi={phi} Sw={sw}",
            lambda p=p, s=s, phi=phi, sw=sw: compressibility_combined_func(p, s, phi, sw, pvt),
        )
        record(
            f"alpha_multiphase {aname} phi={phi} Sw={sw}",
            lambda p=p, s=s, phi=phi, sw=sw: alpha_multiphase(p, s, phi, sw, pvt, kr),
        )
record(
    "alpha_multiphase Sw array",
    lambda: alpha_multiphase(pressure, So, 0.1, np.linspace(0.05, 0.1, len(So)), pvt, kr),
)
record(
    "alpha_multiphase keywords",
    lambda: alpha_multiphase(pressure=pressure, So=So, phi=0.1, Sw=0.1, pvt=pvt, kr=kr),
)
record(
    "alpha_multiphase mixed keywords",
    lambda: alpha_multiphase(pressure, So, 0.1, kr=kr, pvt=pvt, Sw=0.1),
)
record(
    "pseudopressure_threephase keywords",
    lambda: pseudopressure_threephase(pressure=pressure, So=So, pvt=pvt, kr=kr),
)
record("lambda_combined keywords", lambda: lambda_combined_func(pressure=pressure, So=So, pvt=pvt, kr=kr))
record(
    "compressibility keywords",
    lambda: compressibility_combined_func(pressure=pressure, So=So, phi=0.1, Sw=0.1, pvt=pvt),
)
for drop in ("rho_o0", "rho_g0", "rho_w0", "Rv", "Rs", "mu_g", "mu_o", "mu_w", "Bg", "Bo", "Bw"):
    pvt_less = {k: v for k, v in pvt.items() if k != drop}
    record(f"alpha_multiphase pvt missing {drop}", lambda pvt_less=pvt_less: alpha_multiphase(pressure, So, 0.1, 0.1, pvt_less, kr))
    record(f"lambda_combined pvt missing {drop}", lambda pvt_less=pvt_less: lambda_combined_func(pressure, So, pvt_less, kr))
    record(f"compressibility pvt missing {drop}", lambda pvt_less=pvt_less: compressibility_combined_func(pressure, So, 0.1, 0.1, pvt_less))
    record(f"pseudopressure_threephase pvt missing {drop}", lambda pvt_less=pvt_less: pseudopressure_threephase(pressure, So, pvt_less, kr))
for drop in ("kro", "krg", "krw"):
    kr_less = {k: v for k, v in kr.items() if k != drop}
    record(f"alpha_multiphase kr missing {drop}", lambda kr_less=kr_less: alpha_multiphase(pressure, So, 0.1, 0.1, pvt, kr_less))
    record(f"lambda_combined kr missing {drop}", lambda kr_less=kr_less: lambda_combined_func(pressure, So, pvt, kr_less))
    record(f"pseudopressure_threephase kr missing {drop}", lambda kr_less=kr_less: pseudopressure_threephase(pressure, So, pvt, kr_less))
record("alpha_multiphase pvt None", lambda: alpha_multiphase(pressure, So, 0.1, 0.1, None, kr))
record("alpha_multiphase kr None", lambda: alpha_multiphase(pressure, So, 0.1, 0.1, pvt, None))
record("alpha_multiphase too few", lambda: alpha_multiphase(pressure, So, 0.1, 0.1, pvt))
record("alpha_multiphase too many", lambda: alpha_multiphase(pressure, So, 0.1, 0.1, pvt, kr, 1))
record("alpha_multiphase bad kw", lambda: alpha_multiphase(pressure, So, 0.1, 0.1, pvt, kr, foo=2))
record("alpha_multiphase dup kw", lambda: alpha_multiphase(pressure, So, 0.1, 0.1, pvt, kr, pressure=pressure))
record("pseudopressure_threephase too few", lambda: pseudopressure_threephase(pressure, So, pvt))
record("pseudopressure_threephase bad kw", lambda: pseudopressure_threephase(pressure, So, pvt, kr, initial=0))
record("alpha_multiphase phi str", lambda: alpha_multiphase(pressure, So, "a", 0.1, pvt, kr))
simple_pvt = {k: (lambda p, c=i + 1.0: c + 0.001 * np.asarray(p, dtype=float)) for i, k in enumerate(
    ("Rv", "Rs", "mu_g", "mu_o", "mu_w", "Bg", "Bo", "Bw"))}
simple_pvt.update(rho_o0=0.8, rho_g0=0.001, rho_w0=1.0)
simple_kr = {"kro": lambda s: np.asarray(s) ** 2, "krg": lambda s: (1 - np.asarray(s)) ** 2, "krw": lambda s: 0 * np.asarray(s)}
record("alpha_multiphase plain callables", lambda: alpha_multiphase(np.linspace(1, 100, 7), np.linspace(0.1, 0.8, 7), 0.2, 0.1, simple_pvt, simple_kr))
record("pseudopressure_threephase plain callables", lambda: pseudopressure_threephase(np.linspace(1, 100, 7), np.linspace(0.1, 0.8, 7), simple_pvt, simple_kr))

# ------------------------------------------------ FlowPropertiesMultiPhase
multi_df = pd.DataFrame(
    {
        "pseudopressure": np.linspace(0, 1, 6),
        "alpha": np.linspace(1, 2, 6),
        "So": np.linspace(0.2, 0.7, 6),
        "Sg": np.linspace(0.7, 0.2, 6),
        "Sw": np.full(6, 0.1),
    }
)
record("MultiPhase full df", lambda: FlowPropertiesMultiPhase(multi_df))
for drop in ("pseudopressure", "alpha", "So", "Sg", "Sw"):
    record(f"MultiPhase missing {drop}", lambda drop=drop: FlowPropertiesMultiPhase(multi_df.drop(columns=[drop])))
record("MultiPhase dict", lambda: FlowPropertiesMultiPhase(as_dict(multi_df)))
record("MultiPhase None", lambda: FlowPropertiesMultiPhase(None))
record("MultiPhase kw", lambda: FlowPropertiesMultiPhase(df=multi_df.drop(columns=["alpha"])))
record("MultiPhase two args", lambda: FlowPropertiesMultiPhase(multi_df, 1.0))


class TupleKeyTable:
    """Minimal table that supports df[...multiple names...] the way the class uses it."""

    def __init__(self, df):
        self._df = df
        self.columns = list(df.columns)

    def __getitem__(self, key):
        if isinstance(key, tuple):
            return self._df[list(key)].to_numpy()
        return self._df[key].to_numpy()


rng = np.random.default_rng(0)
cloud = pd.DataFrame(
    {
        "pseudopressure": rng.random(40),
        "So": rng.random(40),
        "Sg": rng.random(40),
        "Sw": rng.random(40),
    }
)
cloud["alpha"] = 1 + cloud["pseudopressure"] + 2 * cloud["So"] - cloud["Sg"] * cloud["Sw"]


def multiphase_ok():
    obj = FlowPropertiesMultiPhase(TupleKeyTable(cloud))
    pts = np.array([[0.5, 0.5, 0.5, 0.5], [0.4, 0.6, 0.5, 0.45], [2.0, 2.0, 2.0, 2.0]])
    return {"attrs": sorted(vars(obj)), "alpha": np.asarray(obj.alpha(pts)), "df_is_input": isinstance(obj.df, TupleKeyTable)}


record("MultiPhase tuple-key table", multiphase_ok)

with open(sys.argv[1], "w") as fh:
    fh.write("\n".join(OUT) + "\n")
