"""Equivalence driver for twin3: b_water_McCain_dp, compressibility_water_McCain, density_water_McCain."""
from __future__ import annotations

import os
import sys
import warnings

import numpy as np
import pandas as pd

warnings.simplefilter("ignore")

from bluebonnet.fluids import water

BB_DATA = os.environ.get("BB_DATA", "/tmp/twin_waterfluid/tests/data")


def show(x):
    if isinstance(x, np.ndarray):
        return f"ndarray{x.shape}{x.dtype}[" + ",".join(show(v) for v in x.ravel().tolist()) + "]"
    if isinstance(x, (pd.Series,)):
        return "Series:" + show(x.to_numpy())
    if isinstance(x, (list, tuple)):
        return type(x).__name__ + "(" + ",".join(show(v) for v in x) + ")"
    return f"{type(x).__name__}:{x!r}"


def call(out, label, f, *a, **k):
    try:
        r = show(f(*a, **k))
    except BaseException as e:  # noqa: BLE001
        r = "EXC " + type(e).__name__
    out.append(f"{label} -> {r}")


def main(outfile):
    out = []
    temps = [0, 0.0, 32, 60.0, 200, 212.5, 400, -40.0, 751.0, 1e6, 1e200, np.float64(150.0),
             np.float32(150.0), float("nan"), float("inf"), True, 3 + 2j, None, "hot",
             np.array([100.0, 200.0]), np.int64(300), 10**400]
    press = [0, 14.7, 3000, 4000.0, -500.0, 1e5, 1e160, 1e200, np.float64(2500.0),
             np.float32(2500.0), np.array([0.0, 10.0, 1000.0, 5000.0, 15000.0]),
             np.array([100, 2000, 30000]), np.linspace(0, 14000, 29), np.array([]),
             np.array([[1.0, 2.0], [3.0, 4.0]]), np.array([1e160, 1e200]), float("nan"),
             float("-inf"), [1000.0, 2000.0], None, "p", pd.Series([100.0, 2500.0]), 10**200,
             10**400, np.array([1.0, 2.0], dtype=np.float32)]
    sals = [0, 0.0, 15, 26.5, -3.0, 1e200, np.float64(10.0), np.array([0.0, 15.0]), float("nan"),
            None, "s", 10**400]
    for i, t in enumerate(temps):
        for j, p in enumerate(press):
            call(out, f"b_w_dp[{i},{j}]", water.b_water_McCain_dp, t, p)
            for k, s in enumerate(sals):
                call(out, f"c_w[{i},{j},{k}]", water.compressibility_water_McCain, t, p, s)
                call(out, f"rho_w[{i},{j},{k}]", water.density_water_McCain, t, p, s)
    # exact zero of the compressibility denominator: 7.033*p + 0.5415*s - 537*T + 403300 == 0
    s0 = 133700.0 / 0.5415
    call(out, "c_w zero-denominator float", water.compressibility_water_McCain, 1000.0, 0.0, s0)
    call(out, "c_w zero-denominator np", water.compressibility_water_McCain, 1000.0, np.float64(0.0), s0)
    call(out, "c_w zero-denominator arr", water.compressibility_water_McCain, 1000, np.array([0.0, 10.0]), s0)
    call(out, "c_w zero-denominator T", water.compressibility_water_McCain, 403300.0 / 537, 0, 0)
    call(out, "b_w_dp kw", water.b_water_McCain_dp, pressure=4000, temperature=200)
    call(out, "c_w kw", water.compressibility_water_McCain, salinity=15, pressure=4000, temperature=200)
    call(out, "rho_w kw", water.density_water_McCain, salinity=15, pressure=4000, temperature=200)
    call(out, "c_w missing", water.compressibility_water_McCain, 200, 4000)
    call(out, "rho_w missing", water.density_water_McCain, 200, 4000)
    df = pd.read_csv(os.path.join(BB_DATA, "pvt_water.csv"))
    P = df["P"].to_numpy()
    call(out, "table b_w_dp", water.b_water_McCain_dp, 200, P)
    call(out, "table b_w_dp Series", water.b_water_McCain_dp, df["T"], df["P"])
    for s in [0, 15, 25.0]:
        call(out, f"table c_w s={s}", water.compressibility_water_McCain, 200, P, s)
        call(out, f"table rho_w s={s}", water.density_water_McCain, 200, P, s)
    with open(outfile, "w") as fh:
        fh.write("\n".join(out) + "\n")


if __name__ == "__main__":
    main(sys.argv[1])
