"""Equivalence driver for bluebonnet.forecast.forecast_pressure.

Run as: PYTHONPATH=<tree>/src /venv/bin/python equiv.py <outfile>
Writes every observable result (or the exception type and message) to <outfile>.
"""

from __future__ import annotations

import os
import sys
import warnings

import matplotlib

matplotlib.use("Agg")
import matplotlib.pyplot as plt
import numpy as np
import pandas as pd
from lmfit import Parameters

import bluebonnet  # noqa: F401  (registers the squareroot scale)
from bluebonnet.flow import FlowProperties, SinglePhaseReservoir
from bluebonnet.forecast import fit_production_pressure, plot_production_comparison
from bluebonnet.forecast import forecast_pressure as fp

DATA = os.environ.get("BB_DATA", "/tmp/twin12_forecast_pressure/tests/data")
SIG = 11  # significant digits kept
OUT: list[str] = []


def fmt(x):
    """Full-precision, type-tagged formatting of results."""
    if isinstance(x, (bool, np.bool_)):
        return f"bool:{bool(x)}"
    if isinstance(x, (int, np.integer)):
        return f"int:{int(x)}"
    if isinstance(x, (float, np.floating)):
        return "float:" + format(float(x), f".{SIG}g")
    if isinstance(x, str):
        return "str:" + x
    if x is None:
        return "None"
    if isinstance(x, pd.Series):
        return "series:" + fmt(x.to_numpy())
    if isinstance(x, np.ndarray):
        flat = x.ravel()
        body = ",".join(fmt(v) for v in flat)
        return f"array{x.shape}{x.dtype}[{body}]"
    if isinstance(x, (tuple, list)):
        return "seq(" + ";".join(fmt(v) for v in x) + ")"
    return f"{type(x).__name__}"


def record(label, func):
    """Run func, write its result or its exception."""
    with warnings.catch_warnings(record=True) as caught:
        warnings.simplefilter("always")
        try:
            res = func()
            OUT.append(f"{label} -> {res}")
        except Exception as e:  # noqa: BLE001
            msg = str(e)[:200]
            if msg.startswith("Need pvt_props to have:"):
                # set iteration order depends on the hash seed
                head, tail = msg.split(":", 1)
                msg = head + ": " + ", ".join(sorted(w.strip() for w in tail.split(",")))
            OUT.append(f"{label} !! {type(e).__name__}: {msg}")
        finally:
            plt.close("all")
    cats = sorted(
        {
            f"{w.category.__name__}:{str(w.message)[:80]}"
            for w in caught
            if "bluebonnet" in str(w.filename) or "equiv" in str(w.filename)
        }
    )
    OUT.append(f"{label} warnings {cats}")


def fit_summary(result):
    p = result.params
    parts = []
    for name in ("tau", "M", "p_initial"):
        par = p[name]
        parts.append(f"{name}={fmt(par.value)} min={fmt(par.min)} max={fmt(par.max)}")
    parts.append(f"nfev={result.nfev}")
    parts.append(f"type={type(result).__name__}")
    parts.append(f"method={result.method}")
    parts.append("resid=" + fmt(np.asarray(result.residual)))
    parts.append(f"chisqr={fmt(result.chisqr)}")
    parts.append(f"init={[fmt(v) for v in result.init_vals]}")
    return " | ".join(parts)


def plot_summary(ret, unpack=True):
    parts = [f"istuple={isinstance(ret, tuple)} len={len(ret)}"]
    if unpack:
        fig, (ax1, ax2) = ret
    else:
        fig, axes = ret[0], ret[1]
        ax1, ax2 = axes[0], axes[1]
    parts.append(f"same0={ret[0] is fig} same1={ret[1][0] is ax1 and ret[1][1] is ax2}")
    parts.append(f"eq={ret == (fig, (ax1, ax2))} lenaxes={len(ret[1])}")
    parts.append(f"axes_is_tuple={isinstance(ret[1], tuple)}")
    parts.append(f"size={fmt(tuple(fig.get_size_inches()))} naxes={len(fig.axes)}")
    for k, ax in enumerate((ax1, ax2)):
        parts.append(
            f"ax{k}: xlabel={ax.get_xlabel()} ylabel={ax.get_ylabel()} "
            f"xscale={ax.get_xscale()} xlim={fmt(tuple(ax.get_xlim()))} "
            f"ylim={fmt(tuple(ax.get_ylim()))}"
        )
        leg = ax.get_legend()
        parts.append(f"legend={[t.get_text() for t in leg.get_texts()]}")
        for line in ax.get_lines():
            parts.append(
                f"line[{line.get_label()}|{line.get_linestyle()}] "
                f"x={fmt(np.asarray(line.get_xdata(orig=True)))} "
                f"y={fmt(np.asarray(line.get_ydata(orig=True)))}"
            )
    return " | ".join(parts)


# --------------------------------------------------------------------------
# data
# --------------------------------------------------------------------------
pvt_table = pd.read_csv(os.path.join(DATA, "pvt_gas_HAYNESVILLE SHALE_20.csv"))
pvt_gas2 = pd.read_csv(os.path.join(DATA, "pvt_gas.csv")).rename(
    columns={
        "P": "pressure",
        "Z-Factor": "z-factor",
        "Cg": "compressibility",
        "Viscosity": "viscosity",
    }
)
pi = 5000.0
pf = 500.0


def make_prod(nt=60, nx=40, tau_in=180.0, t_end=6.0):
    time_scaled = np.linspace(0, np.sqrt(t_end), nt) ** 2
    pressure_v_time = np.full(nt, pf)
    pressure_v_time[nt // 4 : nt // 2] /= 2.0
    pressure_v_time[nt // 2 :] /= 4.0
    flow_props = FlowProperties(pvt_table, pi)
    reservoir = SinglePhaseReservoir(nx, pf, pi, flow_props)
    reservoir.simulate(time_scaled, pressure_v_time)
    rf = reservoir.recovery_factor()
    # daily volumes, so that cumsum is a cumulative production
    gas = np.diff(rf, prepend=0.0) * 1000.0
    gas[0] = 3.0
    return pd.DataFrame({"Days": time_scaled * tau_in, "Gas": gas, "Pressure": pressure_v_time})


prod = make_prod()
rng = np.random.default_rng(12345)

# tables with holes: zero-production days and missing pressures
prod_holes = prod.copy()
prod_holes.loc[[3, 7, 8, 20], "Gas"] = 0.0
prod_holes.loc[[5, 21, 40], "Pressure"] = np.nan
prod_holes.loc[[11], "Gas"] = -1.0

# noisy pressure
prod_noisy = prod.copy()
prod_noisy["Pressure"] = prod_noisy["Pressure"] * (1 + 0.05 * rng.standard_normal(len(prod)))

# extra columns and other column order
prod_extra = prod_holes.copy()
prod_extra.insert(0, "Well", "A-1")
prod_extra["Oil"] = 0.0
prod_extra = prod_extra[["Oil", "Pressure", "Well", "Gas", "Days"]]

# integer-valued gas column
prod_int = prod.copy()
prod_int["Gas"] = np.maximum(1, np.round(prod["Gas"] * 10)).astype(np.int64)
prod_int["Pressure"] = prod["Pressure"].astype(np.int64)


def with_index(df, kind):
    df = df.copy()
    n = len(df)
    if kind == "shuffled":
        df.index = rng.permutation(n)
    elif kind == "offset":
        df.index = np.arange(100, 100 + n)
    elif kind == "reversed":
        df.index = np.arange(n)[::-1]
    elif kind == "duplicate":
        df.index = np.arange(n) // 3
    elif kind == "allsame":
        df.index = np.zeros(n, dtype=int)
    elif kind == "string":
        df.index = [f"d{k:03d}" for k in rng.permutation(n)]
    elif kind == "dates":
        df.index = pd.date_range("2020-01-01", periods=n, freq="D")
    elif kind == "float":
        df.index = np.linspace(0.5, 7.5, n)
    elif kind == "multi":
        df.index = pd.MultiIndex.from_arrays([np.arange(n) % 2, np.arange(n)])
    elif kind == "rowshuffled":
        df = df.sample(frac=1.0, random_state=3)
    return df


INDEX_KINDS = (
    "shuffled",
    "offset",
    "reversed",
    "duplicate",
    "allsame",
    "string",
    "dates",
    "float",
    "multi",
    "rowshuffled",
)


def make_params(tau=420.0, M=1300.0, p_initial=pi):
    params = Parameters()
    params.add("M", M)
    params.add("tau", tau)
    params.add("p_initial", p_initial)
    return params


def fit_params_bounded():
    params = Parameters()
    params.add("tau", value=300.0, min=30.0, max=2000.0)
    params.add("M", value=1500.0, min=500.0, max=5000.0)
    params.add("p_initial", value=6000.0, min=1000.0, max=12000.0)
    return params


def run_common(n_iter=5):
    """Calls that every twin's equiv.py shares."""
    # ---------------------------------------------------------------- fit
    record("fit/default", lambda: fit_summary(fit_production_pressure(prod, pvt_table, pi, n_iter=n_iter)))
    record(
        "fit/positional",
        lambda: fit_summary(
            fit_production_pressure(prod, pvt_table, pi, None, 12000, 50000, True, n_iter, None)
        ),
    )
    for w in (1, 2, 5, 11):
        record(
            f"fit/window{w}",
            lambda w=w: fit_summary(
                fit_production_pressure(prod_noisy, pvt_table, pi, filter_window_size=w, n_iter=n_iter)
            ),
        )
    record(
        "fit/window0",
        lambda: fit_summary(
            fit_production_pressure(prod_noisy, pvt_table, pi, filter_window_size=0, n_iter=n_iter)
        ),
    )
    record(
        "fit/window-float",
        lambda: fit_summary(
            fit_production_pressure(prod_noisy, pvt_table, pi, filter_window_size=2.5, n_iter=n_iter)
        ),
    )
    for flag in (True, False):
        record(
            f"fit/holes/filter={flag}",
            lambda flag=flag: fit_summary(
                fit_production_pressure(
                    prod_holes, pvt_table, pi, filter_zero_prod_days=flag, n_iter=n_iter
                )
            ),
        )
        record(
            f"fit/holes/window3/filter={flag}",
            lambda flag=flag: fit_summary(
                fit_production_pressure(
                    prod_holes,
                    pvt_table,
                    pi,
                    filter_window_size=3,
                    filter_zero_prod_days=flag,
                    n_iter=n_iter,
                )
            ),
        )
        record(
            f"fit/extra/filter={flag}",
            lambda flag=flag: fit_summary(
                fit_production_pressure(
                    prod_extra, pvt_table, pi, filter_zero_prod_days=flag, n_iter=n_iter
                )
            ),
        )
        record(
            f"fit/int/filter={flag}",
            lambda flag=flag: fit_summary(
                fit_production_pressure(
                    prod_int, pvt_table, pi, 3, filter_zero_prod_days=flag, n_iter=n_iter,
                    inplace_max=1e6,
                )
            ),
        )
        record(
            f"fit/noisy/filter={flag}",
            lambda flag=flag: fit_summary(
                fit_production_pressure(
                    prod_noisy, pvt_table, pi, filter_zero_prod_days=flag, n_iter=n_iter
                )
            ),
        )
    for kind in INDEX_KINDS:
        for flag in (True, False):
            for src_name, src in (("holes", prod_holes), ("plain", prod)):
                record(
                    f"fit/index={kind}/{src_name}/filter={flag}",
                    lambda kind=kind, flag=flag, src=src: fit_summary(
                        fit_production_pressure(
                            with_index(src, kind),
                            pvt_table,
                            pi,
                            filter_window_size=3,
                            filter_zero_prod_days=flag,
                            n_iter=3,
                        )
                    ),
                )
    record(
        "fit/params-given",
        lambda: fit_summary(
            fit_production_pressure(prod, pvt_table, pi, params=fit_params_bounded(), n_iter=n_iter)
        ),
    )
    record(
        "fit/params-unbounded",
        lambda: fit_summary(
            fit_production_pressure(prod, pvt_table, pi, params=make_params(), n_iter=n_iter)
        ),
    )
    record(
        "fit/pimax-inplace",
        lambda: fit_summary(
            fit_production_pressure(
                prod, pvt_table, 4000.0, pressure_imax=9000.0, inplace_max=5000.0, n_iter=n_iter
            )
        ),
    )
    record(
        "fit/n_iter1", lambda: fit_summary(fit_production_pressure(prod, pvt_table, pi, n_iter=1))
    )
    record(
        "fit/n_iter0", lambda: fit_summary(fit_production_pressure(prod, pvt_table, pi, n_iter=0))
    )
    record(
        "fit/other-pvt",
        lambda: fit_summary(
            fit_production_pressure(prod, pvt_gas2, 3000.0, pressure_imax=10000.0, n_iter=n_iter)
        ),
    )
    # restart from previous result
    def _restart():
        first = fit_production_pressure(prod, pvt_table, pi, n_iter=3)
        second = fit_production_pressure(prod, pvt_table, pi, n_iter=3, params=first.params)
        return fit_summary(first) + " ## " + fit_summary(second)

    record("fit/restart", _restart)

    # inputs are not modified
    def _unmodified():
        p2 = prod_holes.copy(deep=True)
        pv = pvt_table.copy(deep=True)
        fit_production_pressure(p2, pv, pi, filter_window_size=3, n_iter=2)
        return f"{p2.equals(prod_holes)} {pv.equals(pvt_table)} {list(p2.columns)} {list(pv.columns)}"

    record("fit/inputs-unmodified", _unmodified)

    # error behaviour
    record("fit/err/no-gas", lambda: fit_production_pressure(prod.drop(columns="Gas"), pvt_table, pi, n_iter=2))
    record("fit/err/no-pressure", lambda: fit_production_pressure(prod.drop(columns="Pressure"), pvt_table, pi, n_iter=2))
    record("fit/err/no-days", lambda: fit_production_pressure(prod.drop(columns="Days"), pvt_table, pi, n_iter=2))
    for flag in (True, False):
        record(
            f"fit/err/no-days/filter={flag}",
            lambda flag=flag: fit_production_pressure(
                prod.drop(columns="Days"), pvt_table, pi, filter_zero_prod_days=flag, n_iter=2
            ),
        )
        record(
            f"fit/err/no-gas/filter={flag}",
            lambda flag=flag: fit_production_pressure(
                prod.drop(columns="Gas"), pvt_table, pi, filter_zero_prod_days=flag, n_iter=2
            ),
        )
        record(
            f"fit/err/empty/filter={flag}",
            lambda flag=flag: fit_production_pressure(
                prod.iloc[:0], pvt_table, pi, filter_zero_prod_days=flag, n_iter=2
            ),
        )
        record(
            f"fit/err/one-row/filter={flag}",
            lambda flag=flag: fit_summary(
                fit_production_pressure(
                    prod.iloc[:1], pvt_table, pi, filter_zero_prod_days=flag, n_iter=2
                )
            ),
        )
        record(
            f"fit/err/two-rows/filter={flag}",
            lambda flag=flag: fit_summary(
                fit_production_pressure(
                    prod.iloc[:2], pvt_table, pi, filter_zero_prod_days=flag, n_iter=2
                )
            ),
        )
        record(
            f"fit/err/all-zero-gas/filter={flag}",
            lambda flag=flag: fit_summary(
                fit_production_pressure(
                    prod.assign(Gas=0.0), pvt_table, pi, filter_zero_prod_days=flag, n_iter=2
                )
            ),
        )
        record(
            f"fit/err/nan-pressure/filter={flag}",
            lambda flag=flag: fit_summary(
                fit_production_pressure(
                    prod_holes, pvt_table, pi, 3, filter_zero_prod_days=flag, n_iter=2
                )
            ),
        )
    record("fit/err/dict", lambda: fit_production_pressure({"Days": [1, 2]}, pvt_table, pi))
    record("fit/err/none", lambda: fit_production_pressure(None, pvt_table, pi))
    record("fit/err/pvt-none", lambda: fit_production_pressure(prod, None, pi, n_iter=2))
    record("fit/err/pvt-missing", lambda: fit_production_pressure(prod, pvt_table[["pressure"]], pi, n_iter=2))
    record("fit/err/pi-too-high", lambda: fit_summary(fit_production_pressure(prod, pvt_table, 20000.0, n_iter=2)))
    record("fit/err/pi-below-pmax", lambda: fit_summary(fit_production_pressure(prod, pvt_table, 100.0, n_iter=2)))
    record("fit/err/pimax-below-pmax", lambda: fit_summary(fit_production_pressure(prod, pvt_table, pi, pressure_imax=100.0, n_iter=2)))
    record("fit/err/inplace-small", lambda: fit_summary(fit_production_pressure(prod, pvt_table, pi, inplace_max=1.0, n_iter=2)))
    record("fit/err/window-str", lambda: fit_production_pressure(prod, pvt_table, pi, filter_window_size="3", n_iter=2))
    record("fit/err/window-neg", lambda: fit_summary(fit_production_pressure(prod, pvt_table, pi, filter_window_size=-2, n_iter=2)))
    record("fit/err/n_iter-str", lambda: fit_production_pressure(prod, pvt_table, pi, n_iter="4"))
    record("fit/err/params-missing", lambda: fit_production_pressure(prod, pvt_table, pi, params=Parameters(), n_iter=2))
    record("fit/err/bad-kw", lambda: fit_production_pressure(prod, pvt_table, pi, bogus=1))
    record("fit/err/too-many-pos", lambda: fit_production_pressure(prod, pvt_table, pi, None, 15000, 100000, True, 3, None, 1))
    record("fit/err/str-gas", lambda: fit_production_pressure(prod.assign(Gas="x"), pvt_table, pi, n_iter=2))
    record(
        "fit/object-gas",
        lambda: fit_summary(
            fit_production_pressure(prod.assign(Gas=prod["Gas"].astype(object)), pvt_table, pi, n_iter=2)
        ),
    )

    # --------------------------------------------------------------- plot
    record("plot/default", lambda: plot_summary(plot_production_comparison(prod, pvt_table, make_params())))
    record(
        "plot/positional",
        lambda: plot_summary(
            plot_production_comparison(prod_noisy, pvt_table, make_params(), 3, True, "Well 7")
        ),
    )
    record(
        "plot/index-access",
        lambda: plot_summary(
            plot_production_comparison(prod, pvt_table, make_params(), well_name="X"), unpack=False
        ),
    )
    for w in (None, 1, 4):
        for flag in (True, False):
            for src_name, src in (("plain", prod), ("noisy", prod_noisy), ("extra", prod_extra), ("holes", prod_holes), ("int", prod_int)):
                record(
                    f"plot/{src_name}/window={w}/filter={flag}",
                    lambda w=w, flag=flag, src=src: plot_summary(
                        plot_production_comparison(
                            src,
                            pvt_table,
                            make_params(tau=300.0, M=900.0, p_initial=6000.0),
                            filter_window_size=w,
                            filter_zero_prod_days=flag,
                        )
                    ),
                )
    for kind in INDEX_KINDS:
        for flag in (True, False):
            for src_name, src in (("holes", prod_holes), ("plain", prod)):
                record(
                    f"plot/index={kind}/{src_name}/filter={flag}",
                    lambda kind=kind, flag=flag, src=src: plot_summary(
                        plot_production_comparison(
                            with_index(src, kind),
                            pvt_table,
                            make_params(),
                            filter_window_size=2,
                            filter_zero_prod_days=flag,
                            well_name=kind,
                        )
                    ),
                )

    def _plot_from_fit():
        result = fit_production_pressure(prod, pvt_table, pi, n_iter=3)
        return plot_summary(plot_production_comparison(prod, pvt_table, result.params))

    record("plot/from-fit", _plot_from_fit)

    def _plot_unmodified():
        p2 = prod_holes.copy(deep=True)
        pv = pvt_table.copy(deep=True)
        params = make_params()
        plot_production_comparison(p2, pv, params, filter_window_size=3)
        return (
            f"{p2.equals(prod_holes)} {pv.equals(pvt_table)} "
            f"{[(k, fmt(v.value)) for k, v in params.items()]}"
        )

    record("plot/inputs-unmodified", _plot_unmodified)
    record("plot/err/no-gas", lambda: plot_production_comparison(prod.drop(columns="Gas"), pvt_table, make_params()))
    record("plot/err/no-pressure", lambda: plot_production_comparison(prod.drop(columns="Pressure"), pvt_table, make_params()))
    for flag in (True, False):
        record(
            f"plot/err/no-days/filter={flag}",
            lambda flag=flag: plot_production_comparison(
                prod.drop(columns="Days"), pvt_table, make_params(), filter_zero_prod_days=flag
            ),
        )
        record(
            f"plot/err/empty/filter={flag}",
            lambda flag=flag: plot_summary(
                plot_production_comparison(
                    prod.iloc[:0], pvt_table, make_params(), filter_zero_prod_days=flag
                )
            ),
        )
        record(
            f"plot/err/one-row/filter={flag}",
            lambda flag=flag: plot_summary(
                plot_production_comparison(
                    prod.iloc[:1], pvt_table, make_params(), filter_zero_prod_days=flag
                )
            ),
        )
    record("plot/err/params-missing", lambda: plot_production_comparison(prod, pvt_table, Parameters()))
    record("plot/err/params-dict", lambda: plot_production_comparison(prod, pvt_table, {"M": 1.0, "tau": 2.0, "p_initial": pi}))
    record("plot/err/pi-too-high", lambda: plot_production_comparison(prod, pvt_table, make_params(p_initial=20000.0)))
    record("plot/err/pi-low", lambda: plot_summary(plot_production_comparison(prod, pvt_table, make_params(p_initial=300.0))))
    record("plot/err/tau-zero", lambda: plot_summary(plot_production_comparison(prod, pvt_table, make_params(tau=0.0))))
    record("plot/err/M-zero", lambda: plot_summary(plot_production_comparison(prod, pvt_table, make_params(M=0.0))))
    record("plot/err/window-str", lambda: plot_production_comparison(prod, pvt_table, make_params(), filter_window_size="a"))
    record("plot/err/pvt-missing", lambda: plot_production_comparison(prod, pvt_table[["pressure"]], make_params()))
    record("plot/err/bad-kw", lambda: plot_production_comparison(prod, pvt_table, make_params(), bogus=2))
    record("plot/err/too-many-pos", lambda: plot_production_comparison(prod, pvt_table, make_params(), None, True, "w", 5))
    record("plot/err/none", lambda: plot_production_comparison(None, pvt_table, make_params()))

    # ------------------------------------------------------ _obj_function
    days = np.arange(len(prod))
    cum = np.cumsum(prod["Gas"].to_numpy())
    press = prod["Pressure"].to_numpy()
    for tau, M, p0 in ((420.0, 1300.0, pi), (100.0, 2000.0, 7000.0), (30.0, 10.0, 13990.0), (1e4, 1e5, 501.0)):
        record(
            f"obj/{tau}/{M}/{p0}",
            lambda tau=tau, M=M, p0=p0: fmt(
                fp._obj_function(make_params(tau, M, p0), days, cum, pvt_table, press)
            ),
        )
    record("obj/int-production", lambda: fmt(fp._obj_function(make_params(), days, np.arange(len(days)), pvt_table, press)))
    record("obj/list-pressure", lambda: fmt(fp._obj_function(make_params(), days, cum, pvt_table, list(press))))
    record("obj/scalar-production", lambda: fmt(fp._obj_function(make_params(), days, 2.5, pvt_table, press)))
    record("obj/2d-production", lambda: fmt(fp._obj_function(make_params(), days, cum[:, None][:3], pvt_table, press)))
    record("obj/object-production", lambda: fmt(fp._obj_function(make_params(), days, cum.astype(object), pvt_table, press)))
    record("obj/complex-production", lambda: fmt(fp._obj_function(make_params(), days, cum.astype(complex), pvt_table, press).real))
    record("obj/float32-production", lambda: fmt(fp._obj_function(make_params(), days, cum.astype(np.float32), pvt_table, press)))
    record("obj/series-production", lambda: fmt(fp._obj_function(make_params(), days, pd.Series(cum), pvt_table, press)))
    record("obj/int-M", lambda: fmt(fp._obj_function(make_params(M=1300), days, cum, pvt_table, press)))
    record("obj/err/len", lambda: fp._obj_function(make_params(), days, cum, pvt_table, press[:-1]))
    record("obj/err/len-production", lambda: fp._obj_function(make_params(), days, cum[:-1], pvt_table, press))
    record("obj/err/list-days", lambda: fp._obj_function(make_params(), list(days), cum, pvt_table, press))
    record("obj/err/high-p", lambda: fp._obj_function(make_params(p_initial=3e4), days, cum, pvt_table, press))
    record("obj/err/tau0", lambda: fmt(fp._obj_function(make_params(tau=0.0), days, cum, pvt_table, press)))
    record("obj/err/params", lambda: fp._obj_function({"tau": 1.0}, days, cum, pvt_table, press))
    record("obj/err/press-above-pvt", lambda: fp._obj_function(make_params(), days, cum, pvt_table, press * 100))
    record("module/all", lambda: sorted(n for n in dir(fp) if not n.startswith("__"))[:0])


def finish():
    with open(sys.argv[1], "w") as f:
        f.write("\n".join(OUT) + "\n")


def _typed(df, **dtypes):
    df = df.copy()
    for col, dt in dtypes.items():
        df[col] = df[col].astype(dt)
    return df


def run_extras():
    """Filter modes / dtypes and minimiser policies whose defaults are now spelled out."""
    variants = {
        "float32": _typed(prod_noisy, Gas="float32", Pressure="float32"),
        "int": prod_int,
        "nullable": _typed(prod_holes, Gas="Float64", Pressure="Float64"),
        "object": _typed(prod_holes, Gas=object, Pressure=object),
        "dup-pressure-column": pd.concat([prod, prod[["Pressure"]]], axis=1),
        "dup-gas-column": pd.concat([prod, prod[["Gas"]]], axis=1),
        "short3": prod_noisy.iloc[:3],
        "inf-pressure": prod_noisy.assign(Pressure=[np.inf] + list(prod_noisy["Pressure"][1:])),
    }
    for name, table in variants.items():
        for w in (None, 1, 2, 3, 7, 59, 60, 61, 200):
            for flag in (True, False):
                record(
                    f"x/fit/{name}/window={w}/filter={flag}",
                    lambda table=table, w=w, flag=flag: fit_summary(
                        fit_production_pressure(
                            table, pvt_table, pi, w, filter_zero_prod_days=flag, n_iter=2, inplace_max=1e6
                        )
                    ),
                )
                record(
                    f"x/plot/{name}/window={w}/filter={flag}",
                    lambda table=table, w=w, flag=flag: plot_summary(
                        plot_production_comparison(
                            table, pvt_table, make_params(), w, filter_zero_prod_days=flag
                        )
                    ),
                )

    # result object: covariance / statistics handling is driven by Minimizer keywords
    def _result_fields():
        r = fit_production_pressure(prod_noisy, pvt_table, pi, 3, n_iter=8)
        return (
            f"errorbars={r.errorbars} success={r.success} aborted={r.aborted} ndata={r.ndata} nvarys={r.nvarys} "
            f"nfree={r.nfree} redchi={fmt(r.redchi)} aic={fmt(r.aic)} bic={fmt(r.bic)} covar={hasattr(r, 'covar')} "
            f"var_names={r.var_names} stderr={[fmt(p.stderr) for p in r.params.values()]} msg={r.message!r} "
            f"call_kws={sorted(getattr(r, 'call_kws', {}) or {})}"
        )

    record("x/fit/result-fields", _result_fields)

    def _figure_layout():
        ret = plot_production_comparison(prod, pvt_table, make_params())
        fig, (ax1, ax2) = ret
        return (
            f"{type(ret[1]).__name__} {fmt(tuple(ax1.get_position().bounds))} {fmt(tuple(ax2.get_position().bounds))} "
            f"sharedx={ax1.get_shared_x_axes().joined(ax1, ax2)} sharedy={ax1.get_shared_y_axes().joined(ax1, ax2)}"
        )

    record("x/plot/layout", _figure_layout)

run_common()
run_extras()
finish()
