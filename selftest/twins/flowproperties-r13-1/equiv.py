"""Equivalence driver for bluebonnet.flow.flowproperties."""

from __future__ import annotations

import os
import sys
import warnings

import numpy as np
import pandas as pd

from bluebonnet.flow import flowproperties as fp
from bluebonnet.flow.flowproperties import (
    FlowProperties,
    FlowPropertiesMultiPhase,
    FlowPropertiesSimple,
    FlowPropertiesTwoPhase,
    RelPermParams,
    alpha_multiphase,
    compressibility_combined_func,
    lambda_combined_func,
    pseudopressure_threephase,
    relative_permeabilities,
    relative_permeabilities_twophase,
    rescale_pseudopressure,
)

DATA = os.environ.get("BB_DATA", "/tmp/twin13_flowproperties/tests/data")
out = []


def fmt(x):
    if isinstance(x, pd.DataFrame):
        return (
            "DF cols=" + repr(list(x.columns)) + " dtypes=" + repr([str(d) for d in x.dtypes])
            + " idx=" + repr(list(x.index[:3])) + ".." + repr(len(x)) + " vals=" + fmt(x.to_numpy(dtype=float))
        )
    if isinstance(x, pd.Series):
        return "S " + fmt(x.to_numpy())
    if isinstance(x, np.ndarray):
        if x.dtype.names:
            return "REC " + repr(x.dtype.names) + " " + " | ".join(fmt(x[n]) for n in x.dtype.names)
        return f"A{x.shape}{x.dtype}[" + ",".join(repr(float(v)) for v in x.ravel()) + "]"
    if isinstance(x, (float, np.floating)):
        return repr(float(x))
    if isinstance(x, dict):
        return "{" + ", ".join(f"{k!r}: {fmt(v)}" for k, v in sorted(x.items())) + "}"
    if isinstance(x, (tuple, list)):
        return "(" + ", ".join(fmt(v) for v in x) + ")"
    return repr(x)


def rec(label, fn):
    with warnings.catch_warnings(record=True) as w:
        warnings.simplefilter("always")
        try:
            res = fmt(fn())
        except Exception as e:  # noqa: BLE001
            res = "EXC " + type(e).__name__
            if not isinstance(e, ValueError) or "Need pvt_props" not in str(e) and "needs all of" not in str(e):
                res += " " + str(e)[:120]
        cats = sorted({x.category.__name__ + ":" + str(x.message)[:60] for x in w})
    out.append(f"{label} -> {res} warns={cats}")


# ---------------------------------------------------------------- tables
gas = pd.read_csv(os.path.join(DATA, "pvt_gas.csv")).rename(
    columns={"P": "pressure", "Z-Factor": "z-factor", "Cg": "compressibility",
             "Viscosity": "viscosity", "Density": "density"}
)
gas = gas[gas.pressure > 0].reset_index(drop=True)
mp = pd.read_csv(os.path.join(DATA, "pvt_multiphase_oil.csv"), index_col=0)
P_PROBE = [float(gas.pressure.min()), 100.0, 1234.5, 5000.0, float(gas.pressure.max())]
M_PROBE = np.array([-0.5, 0.0, 1e-3, 0.1, 0.33, 0.5, 0.9, 1.0, 1.5, 10.0])


def describe_fp(obj):
    pv = obj.pvt_props
    keys = sorted(pv.keys()) if isinstance(pv, dict) else sorted(pv.columns)
    return (
        type(obj).__name__,
        float(obj.m_i),
        np.asarray(obj.m_scaled_func(P_PROBE[1:4]), dtype=float),
        np.asarray(obj.alpha(M_PROBE), dtype=float),
        keys,
        np.asarray(pv["m-scaled"], dtype=float)[::37],
        np.asarray(pv["alpha"], dtype=float)[::37],
    )


# ---------------------------------------------------------------- FlowProperties
for p_i in (2000.0, 8000.0, 12000, float(gas.pressure.max()), 1e9, -5.0, float("nan")):
    rec(f"FP long df p_i={p_i}", lambda p_i=p_i: describe_fp(FlowProperties(gas, p_i)))
    rec(f"FP long dict p_i={p_i}",
        lambda p_i=p_i: describe_fp(FlowProperties({c: gas[c].to_numpy() for c in gas.columns}, p_i)))
    short = gas[["pressure", "pseudopressure"]].assign(alpha=1.0 / (gas.compressibility * gas.viscosity))
    rec(f"FP short df p_i={p_i}", lambda p_i=p_i, short=short: describe_fp(FlowProperties(short, p_i)))
    rec(f"FP both df p_i={p_i}",
        lambda p_i=p_i: describe_fp(FlowProperties(gas.assign(alpha=np.linspace(1, 2, len(gas))), p_i)))
    rec(f"FPSimple df p_i={p_i}", lambda p_i=p_i: describe_fp(FlowPropertiesSimple(gas, p_i)))
    rec(f"FPSimple dict p_i={p_i}",
        lambda p_i=p_i: describe_fp(FlowPropertiesSimple(
            {c: gas[c].to_numpy() for c in ("pressure", "compressibility", "viscosity")}, p_i)))
for drop in ("pressure", "pseudopressure", "viscosity", "z-factor", "compressibility"):
    rec(f"FP missing {drop}", lambda drop=drop: describe_fp(FlowProperties(gas.drop(columns=[drop]), 5000.0)))
    rec(f"FPSimple missing {drop}",
        lambda drop=drop: describe_fp(FlowPropertiesSimple(gas.drop(columns=[drop]), 5000.0)))
rec("FP empty dict", lambda: FlowProperties({}, 1.0))
rec("FPSimple empty dict", lambda: FlowPropertiesSimple({}, 1.0))
rec("FP None", lambda: FlowProperties(None, 1.0))
rec("FPSimple None", lambda: FlowPropertiesSimple(None, 1.0))
rec("FP repr", lambda: repr(FlowProperties({c: gas[c].to_numpy()[:3] for c in gas.columns}, 15.0))[:400])
rec("alias", lambda: fp.FlowPropertiesOnePhase is FlowProperties)
rec("subclasses", lambda: [c.__mro__[1].__name__ for c in (FlowPropertiesSimple, FlowPropertiesTwoPhase,
                                                            FlowPropertiesMultiPhase)])

# ---------------------------------------------------------------- rescale
for p_frac, p_i in ((1000, 8000.0), (500.0, 5000.0), (0.0, 12000.0), (5000.0, 5000.0), (-1.0, 100.0), (10.0, 1e9)):
    rec(f"rescale gas {p_frac} {p_i}",
        lambda p_frac=p_frac, p_i=p_i: rescale_pseudopressure(gas, p_frac, p_i)["pseudopressure"].to_numpy()[::41])
    rec(f"rescale mp {p_frac} {p_i}",
        lambda p_frac=p_frac, p_i=p_i: rescale_pseudopressure(mp, p_frac, p_i)["pseudopressure"].to_numpy()[::41])
rec("rescale dict", lambda: rescale_pseudopressure({"pressure": np.arange(3.0), "pseudopressure": np.arange(3.0)}, 0, 1))
rec("rescale keeps input", lambda: (rescale_pseudopressure(gas, 100.0, 3000.0) is gas, gas.pseudopressure.to_numpy()[::59]))

# ---------------------------------------------------------------- relperm
PARAMS = {
    "unit": RelPermParams(n_o=1, n_g=1, n_w=1, S_or=0, S_gc=0, S_wc=0.1, k_ro_max=1, k_rw_max=1, k_rg_max=1),
    "curvy": RelPermParams(n_o=2.5, n_g=3, n_w=1.7, S_or=0.12, S_gc=0.05, S_wc=0.2, k_ro_max=0.8, k_rw_max=0.4,
                           k_rg_max=0.95),
    "six": RelPermParams(n_o=6, n_g=1, n_w=6.0, S_or=0.3, S_gc=0.3, S_wc=0.3, k_ro_max=0, k_rw_max=1, k_rg_max=0.5),
    "degenerate": RelPermParams(n_o=2, n_g=2, n_w=2, S_or=0.5, S_gc=0.25, S_wc=0.25, k_ro_max=1, k_rw_max=1,
                                k_rg_max=1),
    "over": RelPermParams(n_o=2, n_g=2, n_w=2, S_or=0.6, S_gc=0.4, S_wc=0.3, k_ro_max=1, k_rw_max=1, k_rg_max=1),
    "n_o8": RelPermParams(n_o=8, n_g=1, n_w=1, S_or=0, S_gc=0, S_wc=0.1, k_ro_max=1, k_rw_max=1, k_rg_max=1),
    "n_w0": RelPermParams(n_o=1, n_g=1, n_w=0, S_or=0, S_gc=0, S_wc=0.1, k_ro_max=1, k_rw_max=1, k_rg_max=1),
    "S_gc-1": RelPermParams(n_o=1, n_g=1, n_w=1, S_or=0, S_gc=-1, S_wc=0.1, k_ro_max=1, k_rw_max=1, k_rg_max=1),
    "S_or1.1": RelPermParams(n_o=1, n_g=1, n_w=1, S_or=1.1, S_gc=0, S_wc=0.1, k_ro_max=1, k_rw_max=1, k_rg_max=1),
    "kro1.1": RelPermParams(n_o=1, n_g=1, n_w=1, S_or=0, S_gc=0, S_wc=0.1, k_ro_max=1.1, k_rw_max=1, k_rg_max=1),
    "krg-0.1": RelPermParams(n_o=1, n_g=1, n_w=1, S_or=0, S_gc=0, S_wc=0.1, k_ro_max=1, k_rw_max=1, k_rg_max=-0.1),
    "nan": RelPermParams(n_o=float("nan"), n_g=1, n_w=1, S_or=0, S_gc=0, S_wc=0.1, k_ro_max=1, k_rw_max=1,
                         k_rg_max=1),
}


def sat_table(n, sw, scale=1.0):
    return pd.DataFrame({"So": np.linspace(0, 1 - sw, n) * scale, "Sw": np.full(n, sw),
                         "Sg": np.linspace(1 - sw, 0, n) * scale})


SATS = {
    "std50": sat_table(50, 0.1).to_records(index=False),
    "n7_sw0.3": sat_table(7, 0.3).to_records(index=False),
    "n1": sat_table(1, 0.25).to_records(index=False),
    "n0": sat_table(0, 0.25).to_records(index=False),
    "plus1": (sat_table(5, 0.1) + 1).to_records(index=False),
    "nearly": sat_table(5, 0.1, scale=1.0005).to_records(index=False),
    "struct": np.array([(0.2, 0.3, 0.5), (0.9, 0.1, 0.0), (0.0, 0.0, 1.0)],
                       dtype=[("So", float), ("Sw", float), ("Sg", float)]),
    "reordered": np.array([(0.5, 0.2, 0.3), (0.0, 0.9, 0.1)], dtype=[("Sg", float), ("So", float), ("Sw", float)]),
    "nan": np.array([(np.nan, 0.3, 0.5)], dtype=[("So", float), ("Sw", float), ("Sg", float)]),
    "dataframe": sat_table(4, 0.1),
}
for pn, params in PARAMS.items():
    for sn, sats in SATS.items():
        rec(f"relperm {pn} {sn}", lambda params=params, sats=sats: relative_permeabilities(sats, params))
    for sw in (0.1, 0.0, 0.05, 0.2, 0.25, 0.3, 0.8, 1, 0, -0.1):
        rec(f"twophase {pn} Sw={sw!r}", lambda params=params, sw=sw: relative_permeabilities_twophase(params, sw))
    rec(f"twophase {pn} default", lambda params=params: relative_permeabilities_twophase(params))
rec("relperm tuple params", lambda: relative_permeabilities(SATS["struct"], (1, 1, 1, 0, 0, 0, 1, 1, 1)))

# ---------------------------------------------------------------- multiphase helpers / from_table
REF = {"rho_o0": 141.5 / (45 + 131.5), "rho_g0": 1.03e-3, "rho_w0": 1}


def build(params, sw, ref=REF, p_frac=1000, p_i=8000.0, phi=0.1, pvt_tab=None, kr_tab=None):
    tab = rescale_pseudopressure(mp if pvt_tab is None else pvt_tab, p_frac, p_i)
    df_kr = relative_permeabilities_twophase(params, sw) if kr_tab is None else kr_tab
    return FlowPropertiesTwoPhase.from_table(tab, df_kr, ref, phi, sw, p_i), tab


def describe_two(params, sw, **kw):
    obj, tab = build(params, sw, **kw)
    pres = np.array([20.0, 500.0, 3333.3, 9000.0])
    so = np.array([0.05, 0.3, 0.55, 0.7])
    res = [describe_fp(obj), sorted(obj.pvt), sorted(obj.kr)]
    res.append({k: np.asarray(v(pres), dtype=float) if callable(v) else v for k, v in obj.pvt.items()})
    res.append({k: np.asarray(v(so), dtype=float) for k, v in obj.kr.items()})
    res.append(lambda_combined_func(pres, so, obj.pvt, obj.kr))
    res.append(compressibility_combined_func(pres, so, 0.1, sw, obj.pvt))
    res.append(compressibility_combined_func(pres, so, 0.07, np.full(4, sw), obj.pvt))
    res.append(alpha_multiphase(pres, so, 0.1, sw, obj.pvt, obj.kr))
    res.append(pseudopressure_threephase(pres, so, obj.pvt, obj.kr))
    res.append(pseudopressure_threephase(pres[::-1], so, obj.pvt, obj.kr))
    res.append(lambda_combined_func(3000.0, 0.4, obj.pvt, obj.kr))
    res.append(alpha_multiphase(3000.0, 0.4, 0.2, sw, obj.pvt, obj.kr))
    full_p = tab["pressure"].to_numpy()
    full_so = tab["So"].to_numpy()
    res.append(lambda_combined_func(full_p, full_so, obj.pvt, obj.kr)[::47])
    res.append(pseudopressure_threephase(full_p, full_so, obj.pvt, obj.kr)[::47])
    res.append(alpha_multiphase(full_p, full_so, 0.1, sw, obj.pvt, obj.kr)[::47])
    return res


for pn in ("unit", "curvy", "six", "degenerate"):
    for sw in (0.1, 0.0, 0.2):
        rec(f"two-phase {pn} Sw={sw}", lambda pn=pn, sw=sw: describe_two(PARAMS[pn], sw))
rec("two-phase p_i out of range", lambda: describe_two(PARAMS["unit"], 0.1, p_i=1e9))
rec("two-phase other p_frac", lambda: describe_two(PARAMS["curvy"], 0.15, p_frac=300.0, p_i=6000.0, phi=0.05))
rec("two-phase missing ref", lambda: describe_two(PARAMS["unit"], 0.1, ref={"rho_o0": 0.8, "rho_g0": 1e-3}))
rec("two-phase empty ref", lambda: describe_two(PARAMS["unit"], 0.1, ref={}))
rec("two-phase extra ref", lambda: describe_two(PARAMS["unit"], 0.1, ref=dict(REF, extra=3.0)))
for col in ("Bo", "So", "pressure", "Rv", "mu_w", "pseudopressure"):
    rec(f"from_table pvt missing {col}",
        lambda col=col: describe_two(PARAMS["unit"], 0.1, pvt_tab=mp.drop(columns=[col])))
for col in ("So", "Sg", "Sw", "kro", "krg", "krw"):
    rec(f"from_table kr missing {col}",
        lambda col=col: describe_two(PARAMS["unit"], 0.1,
                                     kr_tab=relative_permeabilities_twophase(PARAMS["unit"], 0.1).drop(columns=[col])))
rec("from_table dict tables", lambda: describe_fp(FlowPropertiesTwoPhase.from_table(
    {c: mp[c].to_numpy() for c in mp.columns},
    {c: v.to_numpy() for c, v in relative_permeabilities_twophase(PARAMS["unit"], 0.1).items()},
    REF, 0.1, 0.1, 4000.0)))
rec("from_table So outside kr", lambda: describe_two(
    PARAMS["unit"], 0.1, kr_tab=relative_permeabilities_twophase(PARAMS["unit"], 0.1).iloc[10:40]))
rec("helpers bad pvt", lambda: lambda_combined_func(np.array([1.0]), np.array([0.1]), {}, {}))
rec("helpers bad pvt 2", lambda: pseudopressure_threephase(np.array([1.0]), np.array([0.1]), {}, {}))
rec("helpers bad pvt 3", lambda: compressibility_combined_func(np.array([1.0]), np.array([0.1]), 0.1, 0.1, {}))

# ---------------------------------------------------------------- MultiPhase
mdf = pd.DataFrame({"pseudopressure": [0, 0.5, 1.0], "alpha": [1.0, 2.0, 3.0], "So": [0.1, 0.2, 0.3],
                    "Sg": [0.8, 0.7, 0.6], "Sw": [0.1, 0.1, 0.1]})
rec("MultiPhase full", lambda: FlowPropertiesMultiPhase(mdf).alpha([[0.5, 0.2, 0.7, 0.1]]))
rec("MultiPhase missing", lambda: FlowPropertiesMultiPhase(mdf.drop(columns=["alpha"])))
rec("MultiPhase dict", lambda: FlowPropertiesMultiPhase({"alpha": 1}))

with open(sys.argv[1], "w") as f:
    f.write("\n".join(out) + "\n")
