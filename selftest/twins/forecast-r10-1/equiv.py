"""Exercise bluebonnet.forecast.forecast broadly and dump every result."""

from __future__ import annotations

import copy
import dataclasses
import os
import pickle
import sys
import warnings

import numpy as np

warnings.simplefilter("ignore")

import scipy.optimize

import bluebonnet.forecast as bf
import bluebonnet.forecast.forecast as fmod
from bluebonnet.forecast import Bounds, ForecasterOnePhase

BB_DATA = os.environ.get("BB_DATA", "/tmp/twin10_forecast/tests/data")

out = []


def fmt(x):
    if isinstance(x, np.ndarray):
        return "array" + repr(x.shape) + str(x.dtype) + "[" + ",".join(fmt(v) for v in x.ravel()) + "]"
    if isinstance(x, (float, np.floating)):
        return repr(float(x))
    if isinstance(x, (int, np.integer)) and not isinstance(x, bool):
        return "i" + repr(int(x))
    if isinstance(x, (list, tuple)):
        return type(x).__name__ + "(" + ",".join(fmt(v) for v in x) + ")"
    return repr(x)


def rec(label, fn):
    try:
        val = fn()
        out.append(f"{label}: {fmt(val)}")
    except BaseException as e:  # noqa: BLE001
        out.append(f"{label}: EXC {type(e).__name__}: {e}")


# ---------------------------------------------------------------- rf curves
def rf_exp(t):
    return 1.0 - np.exp(-np.asarray(t, dtype=float))


def rf_sqrt(t):
    t = np.asarray(t, dtype=float)
    return np.where(t < 0.25, np.sqrt(np.maximum(t, 0.0)), 1.0 - 0.5 * np.exp(-(t - 0.25) * 2.0))


def rf_bad(t):
    msg = "rf curve refuses"
    raise RuntimeError(msg)


def ideal_rf():
    from bluebonnet.flow import IdealReservoir

    ts = np.linspace(0, np.sqrt(6.0), 400) ** 2
    res = IdealReservoir(40, 500.0, 5000.0, None)
    res.simulate(ts)
    res.recovery_factor()
    return res.recovery_factor_interpolator(), ts


# ---------------------------------------------------------------- module surface
rec("mod.curve_fit is scipy", lambda: fmod.curve_fit is scipy.optimize.curve_fit)
def _from_import():
    from bluebonnet.forecast.forecast import curve_fit as cf

    return cf is scipy.optimize.curve_fit


rec("from-import curve_fit", _from_import)
rec("mod.has Bounds", lambda: fmod.Bounds is bf.Bounds)
rec("mod.has Forecaster", lambda: fmod.ForecasterOnePhase is bf.ForecasterOnePhase)
rec("pkg.__all__", lambda: sorted(bf.__all__))
rec("mod.np", lambda: fmod.np is np)
rec("mod.missing attr", lambda: fmod.no_such_name)
rec("default bounds", lambda: fmod._default_bounds)
rec("default bounds types", lambda: [type(v).__name__ for v in fmod._default_bounds.M + fmod._default_bounds.tau])
rec("Bounds fields", lambda: [(f.name, f.type) for f in dataclasses.fields(Bounds)])
rec("Forecaster fields", lambda: [(f.name, f.type, f.default is fmod._default_bounds) for f in dataclasses.fields(ForecasterOnePhase)])
rec("Bounds params", lambda: repr(Bounds.__dataclass_params__))
rec("Forecaster params", lambda: repr(ForecasterOnePhase.__dataclass_params__))
rec("Forecaster mro", lambda: [c.__name__ for c in ForecasterOnePhase.__mro__])
rec("Bounds mro", lambda: [c.__name__ for c in Bounds.__mro__])

# ---------------------------------------------------------------- Bounds
cases = [
    ((0, 1), (2, 3)),
    ((0.0, np.inf), (1e-10, np.inf)),
    ([0, 1], [2, 3]),
    (np.array([0.5, 2.5]), np.array([1.0, 9.0])),
    ((1, 2, 3), (0, 1)),
    ((1, 2), (1,)),
    ((1,), (1,)),
    ((), ()),
    ((1, 0), (0, 1)),
    ((1, 1), (0, 1)),
    ((0, 1), (20, 10)),
    ((0, 1), (5, 5)),
    ((1, 0), (20, 10)),
    ((1, 2, 3), (20, 10)),
    (1, (0, 1)),
    ((0, 1), 7.0),
    (None, None),
    ("ab", "cd"),
    ("ba", "cd"),
    ("abc", "cd"),
    ((np.nan, 1), (0, 1)),
    ((0, np.nan), (0, np.nan)),
    ((0, "x"), (0, 1)),
    ((-np.inf, np.inf), (-1.0, 0.0)),
]
for i, (M, tau) in enumerate(cases):
    rec(f"Bounds[{i}] kw", lambda M=M, tau=tau: Bounds(M=M, tau=tau))
    rec(f"Bounds[{i}] pos", lambda M=M, tau=tau: Bounds(M, tau))
    rec(f"Bounds[{i}] fit_bounds", lambda M=M, tau=tau: Bounds(M, tau).fit_bounds())
rec("Bounds() noargs", lambda: Bounds())
rec("Bounds one arg", lambda: Bounds((0, 1)))
rec("Bounds extra", lambda: Bounds((0, 1), (0, 1), (0, 1)))
rec("Bounds frozen", lambda: setattr(Bounds((0, 1), (2, 3)), "M", (3, 4)))
rec("Bounds eq", lambda: Bounds((0, 1), (2, 3)) == Bounds((0, 1), (2, 3)))
rec("Bounds ne", lambda: Bounds((0, 1), (2, 3)) == Bounds((0, 2), (2, 3)))
rec("Bounds hash eq", lambda: hash(Bounds((0, 1), (2, 3))) == hash(Bounds((0, 1), (2, 3))))
rec("Bounds hash list", lambda: hash(Bounds([0, 1], (2, 3))))
rec("Bounds pickle", lambda: pickle.loads(pickle.dumps(Bounds((0, 1.5), (2, 3)))))
rec("Bounds copy", lambda: copy.copy(Bounds((0, 1.5), (2, 3))))
rec("Bounds deepcopy", lambda: copy.deepcopy(Bounds([0, 1.5], (2, 3))))
rec("Bounds replace", lambda: dataclasses.replace(Bounds((0, 1.5), (2, 3)), tau=(5, 6)))
rec("Bounds replace bad", lambda: dataclasses.replace(Bounds((0, 1.5), (2, 3)), tau=(7, 6)))
rec("Bounds asdict", lambda: dataclasses.asdict(Bounds((0, 1.5), (2, 3))))

b = Bounds(M=(10.0, 100.0), tau=(1.0, 50.0))
guesses = [
    [5.0, 0.5], [5.0, 20.0], [5.0, 80.0], [50.0, 0.5], [50.0, 20.0], [50.0, 80.0],
    [500.0, 0.5], [500.0, 20.0], [500.0, 80.0], [10.0, 1.0], [100.0, 50.0],
    [5.0], [50.0], [500.0], [10.0], [100.0],
    [5.0, 0.5, 3.0], [500.0, 80.0, 3.0], [], [np.nan, np.nan], [np.inf, np.inf], [-np.inf, -np.inf],
    (5.0, 0.5), (50.0, 20.0), np.array([5.0, 80.0]), np.array([500.0]), [np.float64(500.0), np.float32(80.0)],
    [7, 70], ["a", 1.0], None, 5.0, {0: 5.0, 1: 80.0},
]
for i, g in enumerate(guesses):
    def run(g=g):
        g2 = copy.deepcopy(g)
        r = b.regularize_initial_guess(g2)
        return (r is g2, r, [type(v).__name__ for v in r] if isinstance(r, list) else None)
    rec(f"regularize[{i}]", run)
binf = Bounds(M=(0, np.inf), tau=(1e-10, np.inf))
for i, g in enumerate([[-1.0, -1.0], [0.0, 0.0], [np.inf, np.inf], [3, 4], [-5]]):
    rec(f"regularize_inf[{i}]", lambda g=g: binf.regularize_initial_guess(list(g)))
rec("regularize kw", lambda: b.regularize_initial_guess(guess=[1.0, 1.0]))
rec("regularize noarg", lambda: b.regularize_initial_guess())

# ---------------------------------------------------------------- Forecaster construction
rec("F()", lambda: ForecasterOnePhase())
rec("F repr", lambda: repr(ForecasterOnePhase(rf_exp)).replace(hex(id(rf_exp)), "ID"))
rec("F eq", lambda: ForecasterOnePhase(rf_exp) == ForecasterOnePhase(rf_exp))
rec("F ne", lambda: ForecasterOnePhase(rf_exp) == ForecasterOnePhase(rf_sqrt))
rec("F ne bounds", lambda: ForecasterOnePhase(rf_exp) == ForecasterOnePhase(rf_exp, b))
rec("F hash", lambda: hash(ForecasterOnePhase(rf_exp)))
rec("F default bounds identity", lambda: ForecasterOnePhase(rf_exp).bounds is fmod._default_bounds)
rec("F kw", lambda: ForecasterOnePhase(rf_curve=rf_exp, bounds=b).bounds)
rec("F non-callable", lambda: ForecasterOnePhase(3.0).rf_curve)
rec("F bounds None", lambda: ForecasterOnePhase(rf_exp, None).bounds)
rec("F extra", lambda: ForecasterOnePhase(rf_exp, b, 1))
rec("F vars", lambda: sorted(vars(ForecasterOnePhase(rf_exp, b))))


class Sub(ForecasterOnePhase):
    """Subclass as users may write."""

    def forecast_cum(self, time_on_production, M=None, tau=None):
        return 2.0 * super().forecast_cum(time_on_production, M, tau)


@dataclasses.dataclass
class Sub2(ForecasterOnePhase):
    label: str = "x"


def _sub_kwargs():
    class SubKw(ForecasterOnePhase, flag=True):
        pass

    return SubKw.__name__


class Mixin:
    registry = []

    def __init_subclass__(cls, tag=None, **kwargs):
        super().__init_subclass__(**kwargs)
        Mixin.registry.append((cls.__name__, tag))


def _sub_mixin():
    class SubMix(ForecasterOnePhase, Mixin, tag="t"):
        pass

    class SubMix2(Mixin, ForecasterOnePhase, tag="u"):
        pass

    f = SubMix(rf_exp)
    f.fit(t_small, 10.0 * rf_exp(t_small / 2.0))
    return (Mixin.registry, [c.__name__ for c in SubMix2.__mro__], f.M_, f.tau_)


def _sub_slots():
    @dataclasses.dataclass(slots=True)
    class SubSlots(ForecasterOnePhase):
        extra: int = 0

    return repr(SubSlots(rf_exp, b, 3)).replace(hex(id(rf_exp)), "ID")


t_small = np.linspace(0.1, 8.0, 25)
rec("Sub kwargs", _sub_kwargs)
rec("Sub mixin", _sub_mixin)
rec("Sub slots", _sub_slots)
rec("Sub build", lambda: repr(Sub(rf_exp, b)).replace(hex(id(rf_exp)), "ID"))
rec("Sub2 build", lambda: repr(Sub2(rf_exp, b, "lab")).replace(hex(id(rf_exp)), "ID"))
rec("Sub forecast", lambda: Sub(rf_exp).forecast_cum(np.array([0.0, 1.0, 2.0]), 10.0, 2.0))
rec("Sub attrs", lambda: sorted(k for k in vars(Sub) if not k.startswith("__")))
rec("F class attrs", lambda: sorted(k for k in vars(ForecasterOnePhase) if k in (
    "fit", "forecast_cum", "bounds", "__init__", "__repr__", "__eq__", "__hash__", "__match_args__")))
rec("B class attrs", lambda: sorted(k for k in vars(Bounds) if k in (
    "fit_bounds", "regularize_initial_guess", "__post_init__", "__init__", "__repr__", "__eq__", "__hash__",
    "__setattr__", "__delattr__", "__match_args__", "__getstate__", "__setstate__")))

# ---------------------------------------------------------------- forecast_cum
t_list = [
    np.linspace(0.0, 10.0, 7), np.array([0.0]), np.array([]), 3.0, 0.0, -1.0, np.float64(2.5), 4,
    np.arange(5), [0.0, 1.0, 2.0], np.array([[0.0, 1.0], [2.0, 3.0]]), np.array([np.nan, np.inf, -np.inf, 1.0]),
    None, "abc",
]
mt_list = [(100.0, 2.0), (0.0, 1.0), (1.0, 0.0), (-5.0, -2.0), (np.inf, 1.0), (1.0, np.inf), (np.nan, 1.0),
           (3, 2), (np.array([1.0, 2.0]), 1.0), (None, 1.0), (1.0, None), (None, None), ("a", 1.0), (1.0, "a")]
for rfname, rf in [("exp", rf_exp), ("sqrt", rf_sqrt), ("bad", rf_bad), ("noncallable", 3.0)]:
    for i, t in enumerate(t_list):
        for j, (M, tau) in enumerate(mt_list):
            if rfname in ("bad", "noncallable") and (i > 1 or j > 1) and not (M is None or tau is None):
                continue
            rec(f"forecast_cum[{rfname},{i},{j}]", lambda rf=rf, t=t, M=M, tau=tau: ForecasterOnePhase(rf).forecast_cum(t, M, tau))
rec("forecast_cum kw", lambda: ForecasterOnePhase(rf_exp).forecast_cum(time_on_production=np.array([1.0, 2.0]), tau=2.0, M=5.0))
rec("forecast_cum noarg", lambda: ForecasterOnePhase(rf_exp).forecast_cum())
rec("_forecast_cum_onephase", lambda: fmod._forecast_cum_onephase(rf_exp, np.array([0.0, 1.0, 5.0]), 10.0, 2.5))
rec("_forecast_cum_onephase int", lambda: fmod._forecast_cum_onephase(rf_exp, np.array([0, 1, 5]), 10, 2))
rec("_forecast_cum_onephase zero tau", lambda: fmod._forecast_cum_onephase(rf_exp, np.array([0.0, 1.0]), 10.0, 0.0))
rec("_forecast_cum_onephase list", lambda: fmod._forecast_cum_onephase(rf_exp, [0.0, 1.0], 10.0, 1.0))


# ---------------------------------------------------------------- fit
def fit_case(rf, t, cum, tau=None, bounds=None, cls=ForecasterOnePhase, use_kw=False):
    f = cls(rf) if bounds is None else cls(rf, bounds)
    t0 = copy.deepcopy(t)
    c0 = copy.deepcopy(cum)
    if use_kw:
        r = f.fit(time_on_production=t, cum_production=cum, tau=tau)
    elif tau is None:
        r = f.fit(t, cum)
    else:
        r = f.fit(t, cum, tau)
    same_in = (f.time_on_production is t, f.cum_production is cum,
               bool(np.array_equal(np.asarray(t0, dtype=float), np.asarray(t, dtype=float), equal_nan=True)),
               bool(np.array_equal(np.asarray(c0, dtype=float), np.asarray(cum, dtype=float), equal_nan=True)))
    return (r, f.M_, f.tau_, type(f.M_).__name__, type(f.tau_).__name__, same_in,
            sorted(vars(f)), f.forecast_cum(np.array([0.5, 1.0, 30.0])), f.forecast_cum(np.array([1.0]), tau=3.0),
            f.forecast_cum(np.array([1.0]), M=7.0))


t = np.linspace(0.01, 12.0, 60)
for rfname, rf in [("exp", rf_exp), ("sqrt", rf_sqrt)]:
    for k, (Mt, taut) in enumerate([(300.0, 3.0), (1.0, 0.2), (5e4, 40.0), (20.0, 200.0)]):
        cum = Mt * rf(t / taut)
        rec(f"fit[{rfname},{k}] free", lambda rf=rf, cum=cum: fit_case(rf, t, cum))
        rec(f"fit[{rfname},{k}] free kw", lambda rf=rf, cum=cum: fit_case(rf, t, cum, use_kw=True))
        rec(f"fit[{rfname},{k}] tau fixed", lambda rf=rf, cum=cum, taut=taut: fit_case(rf, t, cum, tau=taut))
        rec(f"fit[{rfname},{k}] tau fixed wrong", lambda rf=rf, cum=cum, taut=taut: fit_case(rf, t, cum, tau=taut * 1.7))
        rec(f"fit[{rfname},{k}] tau int", lambda rf=rf, cum=cum: fit_case(rf, t, cum, tau=3))
        rec(f"fit[{rfname},{k}] tau zero", lambda rf=rf, cum=cum: fit_case(rf, t, cum, tau=0.0))
        rec(f"fit[{rfname},{k}] bounded in", lambda rf=rf, cum=cum: fit_case(rf, t, cum, bounds=Bounds((0.5, 1e5), (0.1, 500.0))))
        rec(f"fit[{rfname},{k}] bounded tight", lambda rf=rf, cum=cum: fit_case(rf, t, cum, bounds=Bounds((10.0, 100.0), (1.0, 50.0))))
        rec(f"fit[{rfname},{k}] bounded tight tau", lambda rf=rf, cum=cum: fit_case(rf, t, cum, tau=2.0, bounds=Bounds((10.0, 100.0), (1.0, 50.0))))
        rec(f"fit[{rfname},{k}] bounded low", lambda rf=rf, cum=cum: fit_case(rf, t, cum, bounds=Bounds((1e6, 1e7), (1e3, 1e4))))
        rec(f"fit[{rfname},{k}] bounded high", lambda rf=rf, cum=cum: fit_case(rf, t, cum, bounds=Bounds((1e-6, 1e-5), (1e-3, 1e-2))))
        rec(f"fit[{rfname},{k}] sub", lambda rf=rf, cum=cum: fit_case(rf, t, cum, cls=Sub))
        rec(f"fit[{rfname},{k}] lists", lambda rf=rf, cum=cum: fit_case(rf, list(t), list(cum)))
        rng = np.random.default_rng(k)
        noisy = cum * (1 + 0.05 * rng.standard_normal(cum.shape))
        rec(f"fit[{rfname},{k}] noisy", lambda rf=rf, noisy=noisy: fit_case(rf, t, noisy))
        rec(f"fit[{rfname},{k}] noisy tau", lambda rf=rf, noisy=noisy, taut=taut: fit_case(rf, t, noisy, tau=taut))

cum = 300.0 * rf_exp(t / 3.0)
rec("fit empty", lambda: fit_case(rf_exp, np.array([]), np.array([])))
rec("fit empty tau", lambda: fit_case(rf_exp, np.array([]), np.array([]), tau=1.0))
rec("fit empty list", lambda: fit_case(rf_exp, [], []))
rec("fit one point", lambda: fit_case(rf_exp, np.array([1.0]), np.array([2.0])))
rec("fit one point tau", lambda: fit_case(rf_exp, np.array([1.0]), np.array([2.0]), tau=1.0))
rec("fit two points", lambda: fit_case(rf_exp, np.array([1.0, 2.0]), np.array([2.0, 3.0])))
rec("fit mismatched", lambda: fit_case(rf_exp, t, cum[:-3]))
rec("fit mismatched tau", lambda: fit_case(rf_exp, t[:-3], cum, tau=3.0))
rec("fit nan", lambda: fit_case(rf_exp, t, np.where(t > 5, np.nan, cum)))
rec("fit nan last", lambda: fit_case(rf_exp, t, np.r_[cum[:-1], np.nan]))
rec("fit inf", lambda: fit_case(rf_exp, t, np.r_[cum[:-1], np.inf]))
rec("fit zeros", lambda: fit_case(rf_exp, t, np.zeros_like(t)))
rec("fit zeros tau", lambda: fit_case(rf_exp, t, np.zeros_like(t), tau=2.0))
rec("fit negative", lambda: fit_case(rf_exp, t, -cum))
rec("fit negative tau", lambda: fit_case(rf_exp, t, -cum, tau=3.0))
rec("fit int arrays", lambda: fit_case(rf_exp, np.arange(1, 30), np.arange(1, 30) * 3))
rec("fit int arrays tau", lambda: fit_case(rf_exp, np.arange(1, 30), np.arange(1, 30) * 3, tau=4))
rec("fit none", lambda: fit_case(rf_exp, None, None))
rec("fit scalars", lambda: fit_case(rf_exp, 1.0, 2.0))
rec("fit bad rf", lambda: fit_case(rf_bad, t, cum))
rec("fit bad rf tau", lambda: fit_case(rf_bad, t, cum, tau=2.0))
rec("fit noncallable rf", lambda: fit_case(3.0, t, cum))
rec("fit bounds None", lambda: ForecasterOnePhase(rf_exp, None).fit(t, cum))
rec("fit tau str", lambda: fit_case(rf_exp, t, cum, tau="a"))
rec("fit tau nan", lambda: fit_case(rf_exp, t, cum, tau=np.nan))
rec("fit tau neg", lambda: fit_case(rf_exp, t, cum, tau=-2.0))
rec("fit 2d", lambda: fit_case(rf_exp, t.reshape(2, -1), cum.reshape(2, -1)))
rec("fit noarg", lambda: ForecasterOnePhase(rf_exp).fit())
rec("fit time zero last", lambda: fit_case(rf_exp, t[::-1] - 0.01, cum[::-1]))
rec("fit list bounds", lambda: fit_case(rf_exp, t, cum, bounds=Bounds([0.5, 1e5], [0.1, 500.0])))
rec("fit list bounds tau", lambda: fit_case(rf_exp, t, cum, tau=3.0, bounds=Bounds([0.5, 1e5], [0.1, 500.0])))


def refit():
    f = ForecasterOnePhase(rf_exp)
    f.fit(t, cum)
    a = (f.M_, f.tau_)
    f.fit(t, cum * 2, tau=5.0)
    b2 = (f.M_, f.tau_)
    g = copy.copy(f)
    h = copy.deepcopy(f)
    p = pickle.loads(pickle.dumps(f))
    return (a, b2, g == f, h == f, p == f, g.M_, h.tau_, p.M_, p.tau_, sorted(vars(p)),
            p.forecast_cum(np.array([1.0, 2.0])), g.rf_curve is f.rf_curve, g.bounds is f.bounds,
            g.cum_production is f.cum_production, h.cum_production is f.cum_production)


rec("refit/copy/pickle", refit)
rec("unfitted forecast", lambda: ForecasterOnePhase(rf_exp).forecast_cum(np.array([1.0])))
rec("unfitted forecast M only", lambda: ForecasterOnePhase(rf_exp).forecast_cum(np.array([1.0]), M=3.0))
rec("unfitted forecast tau only", lambda: ForecasterOnePhase(rf_exp).forecast_cum(np.array([1.0]), tau=3.0))
rec("unfitted copy", lambda: sorted(vars(copy.copy(ForecasterOnePhase(rf_exp)))))
rec("unfitted pickle", lambda: sorted(vars(pickle.loads(pickle.dumps(ForecasterOnePhase(rf_exp, b))))))


def ideal():
    rf, ts = ideal_rf()
    cum_i = 300.0 * rf(ts / 3.0)
    f = ForecasterOnePhase(rf)
    f.fit(ts, cum_i)
    r1 = (f.M_, f.tau_, f.forecast_cum(ts[::40]))
    f2 = ForecasterOnePhase(rf, Bounds((100.0, 1000.0), (1.5, 5.0)))
    f2.fit(ts, cum_i, tau=3.0)
    return (r1, f2.M_, f2.tau_, f2.forecast_cum(ts[::40]))


rec("ideal reservoir", ideal)

# logging must stay silent and unconfigured as far as the root logger is concerned
import logging

rec("root handlers", lambda: len(logging.getLogger().handlers))
rec("root level", lambda: logging.getLogger().level)

import re

text = "\n".join(out) + "\n"
text = re.sub(r"0x[0-9a-f]{6,}", "0xID", text)
with open(sys.argv[1], "w") as fh:
    fh.write(text)
