"""Equivalence harness for twin4: b_water_McCain / b_water_McCain_dp coefficients and shared temperature term."""
import sys
import warnings
from fractions import Fraction

import numpy as np
import pandas as pd

from bluebonnet.fluids import water
from bluebonnet.fluids.fluid import Fluid

warnings.simplefilter("ignore")
out = []


def show(x):
    if isinstance(x, pd.Series):
        return "Series[" + " ".join(float(v).hex() for v in x.to_numpy()) + f"] idx={list(x.index)}"
    if isinstance(x, np.ndarray):
        return f"ndarray{x.shape}{x.dtype}[" + " ".join(float(v).hex() for v in x.ravel()) + "]"
    if isinstance(x, (float, np.floating)):
        return f"{type(x).__name__}:{float(x).hex()}"
    return f"{type(x).__name__}:{x!r}"


def record(label, fn):
    try:
        out.append(f"{label}: {show(fn())}")
    except Exception as e:  # noqa: BLE001
        out.append(f"{label}: EXC {type(e).__name__}")


rng = np.random.default_rng(20240607)
temps = [0, 60, 60.0, 100.0, 212.5, 400, -40.0, 1e4, np.float64(350.0), np.float32(180.0), float("nan"), float("inf")]
temps += [float(t) for t in rng.uniform(50, 450, 12)]
pressures = [
    14.7,
    3000,
    0,
    0.0,
    -100.0,
    1e5,
    1e200,
    10**400,
    np.float64(2500.0),
    np.float32(2500.0),
    np.array([14.7, 1000.0, 5000.0, 12000.0]),
    np.linspace(0, 14000, 29),
    rng.uniform(0, 15000, 50),
    np.array([], dtype=float),
    np.array([[100.0, 200.0], [300.0, 400.0]]),
    np.array([1000, 2000]),
    np.array([1000.0, 2000.0], dtype=np.float32),
    pd.Series([500.0, 1500.0], index=[3, 7]),
    float("nan"),
    float("inf"),
    True,
    Fraction(5000, 3),
    complex(1000.0, 1.0),
]
for it, t in enumerate(temps):
    for ip, p in enumerate(pressures):
        record(f"b T#{it} p#{ip}", lambda: water.b_water_McCain(t, p))
        record(f"b_dp T#{it} p#{ip}", lambda: water.b_water_McCain_dp(t, p))
        record(f"rho T#{it} p#{ip}", lambda: water.density_water_McCain(t, p, 12.5))
# array temperature (broadcasting), keyword calls
record("b array T", lambda: water.b_water_McCain(np.array([100.0, 200.0, 300.0]), np.array([1000.0, 2000.0, 3000.0])))
record("b_dp array T", lambda: water.b_water_McCain_dp(np.array([100.0, 200.0, 300.0]), 2000.0))
record("b array T mismatch", lambda: water.b_water_McCain(np.array([100.0, 200.0, 300.0]), np.array([1000.0, 2000.0])))
record("b_dp array T mismatch", lambda: water.b_water_McCain_dp(np.array([100.0, 200.0, 300.0]), np.array([1000.0, 2000.0])))
record("b kw", lambda: water.b_water_McCain(temperature=400, pressure=3000))
record("b_dp kw", lambda: water.b_water_McCain_dp(pressure=3000, temperature=400))
# errors
for name, fn in [("b", water.b_water_McCain), ("b_dp", water.b_water_McCain_dp)]:
    record(f"{name} str T", lambda: fn("400", 3000.0))
    record(f"{name} str p", lambda: fn(400.0, "3000"))
    record(f"{name} None T", lambda: fn(None, 3000.0))
    record(f"{name} None p", lambda: fn(400.0, None))
    record(f"{name} list p", lambda: fn(400.0, [1000.0, 2000.0]))
    record(f"{name} list T", lambda: fn([400.0], 1000.0))
    record(f"{name} one arg", lambda: fn(400.0))
    record(f"{name} three args", lambda: fn(400.0, 1000.0, 3.0))
    record(f"{name} huge int T", lambda: fn(10**400, 1000.0))
    record(f"{name} Fraction T", lambda: fn(Fraction(401, 2), 1000.0))
    record(f"{name} complex T", lambda: fn(complex(200.0, 1.0), 1000.0))
# finite-difference consistency (uses both functions)
record("fd check", lambda: (water.b_water_McCain(300.0, 5000.5) - water.b_water_McCain(300.0, 4999.5)) - water.b_water_McCain_dp(300.0, 5000.0))
# through the Fluid facade
for i, fl in enumerate([Fluid(200, 35, 0.8, 650), Fluid(400.0, 35, 0.65, 0, 15), Fluid(np.float64(123.456), 35, 0.65, 0, 15)]):
    record(f"fluid#{i} water_FVF", lambda: fl.water_FVF(np.linspace(14.7, 14000.0, 33)))
    record(f"fluid#{i} water_FVF empty", lambda: fl.water_FVF(np.array([])))
    record(f"fluid#{i} water_FVF scalar", lambda: fl.water_FVF(1000.0))
record("other correlations untouched", lambda: np.array([
    water.compressibility_water_McCain(400, 3000, 15),
    water.viscosity_water_McCain(400, 3000, 15),
]))

with open(sys.argv[1], "w") as f:
    f.write("\n".join(out) + "\n")
