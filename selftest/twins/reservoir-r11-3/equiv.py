"""Equivalence probe for bluebonnet.flow.reservoir (run on clean and refactored trees)."""
from __future__ import annotations

import os
import sys
import warnings

import numpy as np
import pandas as pd

from bluebonnet.flow import (
    FlowProperties,
    IdealReservoir,
    MultiPhaseReservoir,
    SinglePhaseReservoir,
    TwoPhaseReservoir,
)

warnings.simplefilter("ignore")
DATA = os.environ.get("BB_DATA", "/tmp/twin11_reservoir/tests/data")
ROUND = None  # set to an int to round to that many significant digits

out = []


def fmt(v):
    if isinstance(v, str) or v is None:
        return repr(v)
    if isinstance(v, (list, tuple)):
        return "[" + ",".join(fmt(x) for x in v) + "]"
    a = np.asarray(v)
    if a.dtype == object:
        return repr(v)
    if a.ndim == 0:
        f = float(a)
        if ROUND is not None and np.isfinite(f):
            return f"{f:.{ROUND - 1}e}"
        return repr(f)
    return f"shape={a.shape} " + fmt(list(a.ravel()))


def rec(label, fn):
    try:
        res = fn()
        out.append(f"{label}: {fmt(res)}")
    except Exception as e:  # noqa: BLE001
        msg = str(e)
        own = isinstance(e, RuntimeError) or msg.startswith(("Pressure time series", "scaling failed"))
        cause = type(e.__cause__).__name__ if own else ""
        out.append(f"{label}: EXC {type(e).__name__}" + (f" {msg[:70]!r} from {cause}" if own else ""))


gas_cols = {
    "P": "pressure",
    "Z-Factor": "z-factor",
    "Cg": "compressibility",
    "Viscosity": "viscosity",
    "Density": "density",
}
oil_cols = {
    "P": "pressure",
    "Z-Factor": "z-factor",
    "Co": "compressibility",
    "Oil_Viscosity": "viscosity",
    "Oil_Density": "density",
}
pvt_gas = pd.read_csv(os.path.join(DATA, "pvt_gas.csv")).rename(columns=gas_cols)
pvt_oil = pd.read_csv(os.path.join(DATA, "pvt_oil.csv")).rename(columns=oil_cols)
fluids = {
    "gas8000": FlowProperties(pvt_gas, 8000.0),
    "gas3000": FlowProperties(pvt_gas, 3000.0),
    "oil6000": FlowProperties(pvt_oil, 6000.0),
}

times = {
    "sqrt60": np.linspace(0, np.sqrt(9.0), 60) ** 2,
    "lin25": np.linspace(0, 2.0, 25),
    "late40": np.linspace(0, 10.0, 40) ** 2,
    "len1": np.array([0.0]),
    "len2": np.array([0.0, 0.5]),
    "len3rep": np.array([0.0, 0.0, 1.0]),  # a zero-length step
    "offset": np.array([1.0, 1.5, 4.0, 4.5]),
    "int": np.arange(0, 6),
}


def state(r):
    res = []
    for name in ("time", "pseudopressure", "recovery"):
        res.append(name + "=" + (fmt(getattr(r, name)) if hasattr(r, name) else "<unset>"))
    return " | ".join(res)


def probe(label, make, sim_args_list):
    """Run a full life cycle on a fresh reservoir for each simulate() argument set."""
    for sim_label, args in sim_args_list:
        r = make()
        tag = f"{label}/{sim_label}"
        rec(tag + "/rf-before", lambda: r.recovery_factor())
        rec(tag + "/rf-before-time", lambda: r.recovery_factor(np.array([0.0, 1.0])))
        rec(tag + "/interp-before", lambda: r.recovery_factor_interpolator()(0.5))
        rec(tag + "/simulate", lambda: r.simulate(*args))
        out.append(tag + "/state: " + state(r))
        rec(tag + "/fvf", lambda: r.fvf_scale())
        rec(tag + "/interp-fresh", lambda: r.recovery_factor_interpolator()([-1.0, 0.0, 0.3, 1.0, 1e3]))
        out.append(tag + "/state2: " + state(r))
        rec(tag + "/rf", lambda: r.recovery_factor())
        rec(tag + "/rf-time", lambda: r.recovery_factor(np.array([0.0, 1.0])))
        rec(tag + "/rf-density", lambda: r.recovery_factor(density=True))
        rec(tag + "/recovery-attr", lambda: r.recovery)
        rec(tag + "/interp", lambda: r.recovery_factor_interpolator()([-1.0, 0.0, 0.3, 1.0, 1e3]))
        # a second simulation drops the cached recovery
        rec(tag + "/resimulate", lambda: r.simulate(times["len2"]))
        out.append(tag + "/state3: " + state(r))
        rec(tag + "/rf-again", lambda: r.recovery_factor())


plain = [(k, (v,)) for k, v in times.items()]
bad = [
    ("list", ([0.0, 0.5, 1.0],)),
    ("empty", (np.array([]),)),
    ("none", (None,)),
    ("2d", (np.array([[0.0, 1.0], [2.0, 3.0]]),)),
    ("decreasing", (np.array([0.0, 1.0, 0.5]),)),
    ("nan", (np.array([0.0, np.nan, 1.0]),)),
]

for nx in (2, 3, 4, 12, 30):
    for pf, pi in ((100.0, 8000.0), (8000.0, 8000.0), (0.0, 5000.0)):
        probe(
            f"ideal/nx{nx}/pf{pf}/pi{pi}",
            lambda: IdealReservoir(nx, pf, pi, fluids["gas8000"]),
            plain if (pf, pi) == (100.0, 8000.0) else plain[:2],
        )
probe("ideal/nofluid", lambda: IdealReservoir(10, 100.0, 8000.0), plain[:2])
probe("ideal/bad", lambda: IdealReservoir(8, 100.0, 8000.0, fluids["gas8000"]), bad)
for nx in (0, 1, -1, 2.5):
    probe(f"ideal/nx{nx}", lambda: IdealReservoir(nx, 100.0, 8000.0, fluids["gas8000"]), plain[:1])
probe(
    "ideal/pf-array",
    lambda: IdealReservoir(6, np.array([100.0, 200.0]), 8000.0, fluids["gas8000"]),
    plain[1:2],
)

for cls in (SinglePhaseReservoir, TwoPhaseReservoir):
    for fname, pi in (("gas8000", 8000.0), ("gas3000", 3000.0), ("oil6000", 6000.0)):
        for nx in (2, 3, 4, 12, 30):
            for pf in (100.0, pi, 1000.0):
                probe(
                    f"{cls.__name__}/{fname}/nx{nx}/pf{pf}",
                    lambda: cls(nx, pf, pi, fluids[fname]),
                    plain if (pf == 100.0 and fname == "gas8000") else plain[:2],
                )
    probe(f"{cls.__name__}/bad", lambda: cls(8, 100.0, 8000.0, fluids["gas8000"]), bad)
    probe(f"{cls.__name__}/nofluid", lambda: cls(8, 100.0, 8000.0), plain[:1])
    probe(f"{cls.__name__}/pf-outside", lambda: cls(8, 20000.0, 8000.0, fluids["gas8000"]), plain[:1])
    probe(f"{cls.__name__}/pf-negative", lambda: cls(8, -5.0, 8000.0, fluids["gas8000"]), plain[:1])
    for nx in (0, 1, -1, 2.5):
        probe(f"{cls.__name__}/nx{nx}", lambda: cls(nx, 100.0, 8000.0, fluids["gas8000"]), plain[:1])

# scheduled frac-face pressure (SinglePhaseReservoir only accepts the second argument)
t = times["lin25"]
schedules = [
    ("const", (t, np.full(len(t), 100.0))),
    ("ramp", (t, np.linspace(7000.0, 500.0, len(t)))),
    ("ramp-list", (t, list(np.linspace(7000.0, 500.0, len(t))))),
    ("at-initial", (t, np.full(len(t), 8000.0))),
    ("above-initial", (t, np.linspace(8000.0, 9000.0, len(t)))),
    ("step", (t, np.where(t < 1.0, 4000.0, 800.0))),
    ("short", (t, np.full(len(t) - 1, 100.0))),
    ("long", (t, np.full(len(t) + 1, 100.0))),
    ("empty", (t, np.array([]))),
    ("scalar", (t, 100.0)),
    ("outside", (t, np.full(len(t), 50000.0))),
    ("len1", (times["len1"], np.array([300.0]))),
    ("len2", (times["len2"], np.array([300.0, 200.0]))),
    ("list-time", ([0.0, 0.5, 1.0], [300.0, 200.0, 100.0])),
    ("kw", (t,)),
]
for nx in (2, 3, 15):
    probe(
        f"single-sched/nx{nx}",
        lambda: SinglePhaseReservoir(nx, 100.0, 8000.0, fluids["gas8000"]),
        schedules,
    )
r = SinglePhaseReservoir(9, 100.0, 8000.0, fluids["gas8000"])
rec("single/kw-schedule", lambda: r.simulate(time=t, pressure_fracface=np.linspace(6000.0, 600.0, len(t))))
out.append("single/kw-schedule/state: " + state(r))
rec("single/kw-schedule/rf", lambda: r.recovery_factor())
rec("single/kw-schedule/rfd", lambda: r.recovery_factor(density=True))
r2 = TwoPhaseReservoir(9, 100.0, 8000.0, fluids["gas8000"], 0.2)
rec("twophase/sched-rejected", lambda: r2.simulate(t, np.full(len(t), 100.0)))
rec("twophase/Sw", lambda: r2.Sw_init)
rec("twophase/sim", lambda: r2.simulate(t))
out.append("twophase/state: " + state(r2))

# user tampering with the stored time
r = IdealReservoir(7, 100.0, 8000.0, fluids["gas8000"])
r.simulate(times["lin25"])
r.time = times["lin25"][:-1]
rec("ideal/tampered-time-short", lambda: r.recovery_factor())
r.time = times["len2"]
rec("ideal/tampered-time-len2", lambda: r.recovery_factor())
r.time = times["len1"]
rec("ideal/tampered-time-len1", lambda: r.recovery_factor())
r.time = list(times["lin25"])
rec("ideal/tampered-time-list", lambda: r.recovery_factor())
del r.time
rec("ideal/deleted-time", lambda: r.recovery_factor())
rec("ideal/deleted-time-given", lambda: r.recovery_factor(times["lin25"]))
rec("ideal/deleted-time-interp", lambda: r.recovery_factor_interpolator())

# multiphase is a stub
m = MultiPhaseReservoir(10, 100.0, 8000.0, fluids["gas8000"], 0.7, 0.1, 0.2)
rec("multi/simulate", lambda: m.simulate(times["lin25"]))
rec("multi/rf", lambda: m.recovery_factor())
rec("multi/fvf", lambda: m.fvf_scale())
rec("multi/step", lambda: repr(m._step_saturation(None, None, None)))
rec("multi/sats", lambda: [m.So_init, m.Sw_init, m.Sg_init])
out.append("mro: " + repr([[c.__name__ for c in k.__mro__] for k in (IdealReservoir, SinglePhaseReservoir, TwoPhaseReservoir, MultiPhaseReservoir)]))
out.append("repr: " + repr(IdealReservoir(3, 1.0, 2.0)) + repr(TwoPhaseReservoir(3, 1.0, 2.0)))
out.append("eq: " + repr(IdealReservoir(3, 1.0, 2.0) == IdealReservoir(3, 1.0, 2.0)))

with open(sys.argv[1], "w") as f:
    f.write("\n".join(out) + "\n")
