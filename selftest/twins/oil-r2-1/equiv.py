"""Equivalence harness for refactorings of bluebonnet.fluids.oil.

Usage: PYTHONPATH=<tree>/src /venv/bin/python equiv.py <outfile>
Writes type + full-precision repr (or exception type) of every call.
"""

from __future__ import annotations

import itertools
import os
import sys
import warnings

import numpy as np

warnings.simplefilter("ignore")
np.seterr(all="ignore")

from bluebonnet.fluids import oil  # noqa: E402
from bluebonnet.fluids.fluid import Fluid  # noqa: E402

SIG_DIGITS = None  # None -> exact repr; int -> round to that many significant digits
BB_DATA = os.environ.get("BB_DATA", "/tmp/twin2_oil/tests/data")


def fmt_float(x) -> str:
    x = float(x)
    if SIG_DIGITS is None or x != x or x in (float("inf"), float("-inf")):
        return repr(x)
    return f"{x:.{SIG_DIGITS - 1}e}"


def fmt(value) -> str:
    tname = type(value).__name__
    if isinstance(value, complex) or isinstance(value, np.complexfloating):
        return f"{tname}:({fmt_float(value.real)},{fmt_float(value.imag)})"
    if isinstance(value, np.ndarray):
        if np.iscomplexobj(value):
            body = ",".join(
                f"({fmt_float(v.real)},{fmt_float(v.imag)})" for v in value.ravel()
            )
        else:
            body = ",".join(fmt_float(v) for v in value.ravel())
        return f"{tname}:{value.dtype}:{value.shape}:[{body}]"
    if isinstance(value, (float, int, np.floating, np.integer)):
        return f"{tname}:{fmt_float(value)}"
    if hasattr(value, "to_numpy"):
        return f"{tname}:" + fmt(value.to_numpy())
    return f"{tname}:{value!r}"


def scrub_uninitialised(func, args, result):
    """b_o_Standing leaves np.empty_like garbage where pressure (or p_b) is NaN.

    Those entries are uninitialised memory (non-deterministic even on one tree), so
    they are replaced by a sentinel before comparison.
    """
    name = getattr(func, "__name__", "")
    if name not in ("b_o_Standing", "density_Standing", "oil_FVF"):
        return result
    if not isinstance(result, np.ndarray) or result.ndim == 0:
        return result
    if name == "oil_FVF":
        fluid = func.__self__
        pressure = np.asarray(args[0], dtype=float)
        p_b = fluid.pressure_bubblepoint()
    else:
        pressure = np.asarray(args[1], dtype=float)
        p_b = oil.pressure_bubblepoint_Standing(args[0], args[2], args[3], args[4])
    garbage = ~((pressure >= p_b) | (pressure < p_b))
    result = np.array(result, copy=True)
    result[garbage] = -12345.0
    return result


def call(out, label, func, *args, **kwargs):
    try:
        res = fmt(scrub_uninitialised(func, args, func(*args, **kwargs)))
    except Exception as exc:  # noqa: BLE001
        res = "EXC:" + type(exc).__name__
    out.append(f"{label} -> {res}")


# (temperature, api, gas sg, gor_initial) ; bubblepoints range from negative to > 10000 psi
FLUIDS = [
    (200, 35, 0.8, 650),
    (200.0, 35.0, 0.8, 650.0),
    (120.5, 22.3, 0.65, 150.0),
    (300.0, 50.0, 1.1, 2500.0),
    (250.0, 10.0, 0.6, 1200.0),  # heavy oil, very high bubblepoint
    (180.0, 40.0, 0.75, 5.0),  # nearly dead oil, tiny bubblepoint
    (180.0, 40.0, 0.75, 0.0),  # zero gor: negative bubblepoint
    (np.float64(210.0), np.float64(31.0), np.float64(0.9), np.float64(800.0)),
    (0.0, 35.0, 0.8, 650.0),  # zero temperature
    (-20.0, 35.0, 0.8, 650.0),  # negative temperature
    (200.0, -140.0, 0.8, 650.0),  # nonsense API
    (200.0, 35.0, 0.0, 650.0),  # zero gas gravity
    (200.0, 35.0, -0.8, 650.0),  # negative gas gravity
    (200.0, 35.0, 0.8, -650.0),  # negative gor
    (float("nan"), 35.0, 0.8, 650.0),
    (200.0, 35.0, 0.8, float("inf")),
]

SCALAR_PRESSURES = [
    14.7,
    100,
    100.0,
    1000.0,
    2000,
    2627.2017021875276,  # bubblepoint of first fluid
    2627.2017021875280,
    3000.0,
    8000.0,
    15000.0,
    0.0,
    -10.0,
    -25.48,
    -100.0,
    np.float64(2500.0),
    np.float32(2500.0),
    np.int64(3000),
    float("nan"),
    float("inf"),
    np.array(1800.0),
    np.array([1800.0]),
    np.array([[4000.0]]),
]

ARRAY_PRESSURES = [
    np.linspace(10.0, 12000.0, 25),
    np.array([3000.0, 5000.0, 9000.0, 20000.0, 50000.0]),  # mostly above
    np.array([1.0, 14.7, 50.0, 100.0]),  # mostly below
    np.array([2627.2017021875276, 2627.2017021875271, 2627.2017021875281]),
    np.array([100, 2000, 3000, 10000]),  # int dtype
    np.array([100.0, 2000.0, 3000.0], dtype=np.float32),
    np.array([-100.0, -25.48, 0.0, 500.0, np.nan, np.inf, 4000.0]),
    np.array([]),
    np.array([2000.0]),
    np.array([9000.0]),
    np.array([[100.0, 2000.0], [3000.0, 15000.0]]),
    np.array([[100.0], [9000.0]]),
    np.array([[100.0, 9000.0]]),
    np.array([[30000.0]]),
    np.linspace(10.0, 12000.0, 12)[::-1],
    np.linspace(10.0, 12000.0, 24)[::2],  # non-contiguous
    [100.0, 2000.0, 3000.0],  # python list
    (100.0, 9000.0),
    "abc",
    None,
]

FIVE_ARG = [
    "b_o_Standing",
    "solution_gor_Standing",
    "dgor_dpressure_Standing",
    "oil_compressibility_undersat_Standing",
    "oil_compressibility_undersat_Spivey",
    "density_Standing",
    "viscosity_beggs_robinson",
]
FOUR_ARG = [
    "pressure_bubblepoint_Standing",
    "b_o_bubblepoint_Standing",
    "db_o_dgor_Standing",
]


def plabel(p):
    if isinstance(p, np.ndarray):
        return f"arr{p.dtype}{p.shape}{p.ravel()[:3].tolist()}"
    return f"{type(p).__name__}({p!r})"


def main(outfile):
    out = []
    for fl in FLUIDS:
        t, api, sg, gor = fl
        flabel = f"T={t!r},api={api!r},sg={sg!r},gor={gor!r}"
        for name in FOUR_ARG:
            func = getattr(oil, name)
            call(out, f"{name}({flabel})", func, t, api, sg, gor)
            call(
                out,
                f"{name}kw({flabel})",
                func,
                temperature=t,
                api_gravity=api,
                gas_specific_gravity=sg,
                solution_gor_initial=gor,
            )
        # array gor for the bubblepoint functions
        gor_arr = np.array([0.0, 10.0, 300.0, 650.0, 3000.0])
        call(out, f"b_o_bp_arr({flabel})", oil.b_o_bubblepoint_Standing, t, api, sg, gor_arr)
        call(out, f"db_o_dgor_arr({flabel})", oil.db_o_dgor_Standing, t, api, sg, gor_arr)
        for p in itertools.chain(SCALAR_PRESSURES, ARRAY_PRESSURES):
            for name in FIVE_ARG:
                func = getattr(oil, name)
                call(out, f"{name}({flabel},p={plabel(p)})", func, t, p, api, sg, gor)
            call(
                out,
                f"viscosity_kw({flabel},p={plabel(p)})",
                oil.viscosity_beggs_robinson,
                temperature=t,
                pressure=p,
                api_gravity=api,
                gas_specific_gravity=sg,
                solution_gor_initial=gor,
            )
            for tpc, ppc in [(-72.2, 653.0), (-60.0, 640.0)]:
                call(
                    out,
                    f"oil_compressibility_Standing({flabel},p={plabel(p)},{tpc},{ppc})",
                    oil.oil_compressibility_Standing,
                    t,
                    p,
                    api,
                    sg,
                    gor,
                    tpc,
                    ppc,
                )
            call(
                out,
                f"oil_compressibility_Standing_std({flabel},p={plabel(p)})",
                oil.oil_compressibility_Standing,
                t,
                p,
                api,
                sg,
                gor,
                -72.2,
                653.0,
                temperature_standard=70.0,
                pressure_standard=14.5,
            )
    # private helper that other modules could import
    for mu_dead, rs in [(1.5, 650.0), (0.3, 0.0), (np.array([0.5, 2.0]), np.array([100.0, 900.0]))]:
        call(out, f"_mu_dead_to_live_br({mu_dead!r},{rs!r})", oil._mu_dead_to_live_br, mu_dead, rs)
    # missing / extra arguments
    call(out, "b_o_Standing(missing)", oil.b_o_Standing, 200.0, 3000.0, 35.0, 0.8)
    call(out, "viscosity(missing)", oil.viscosity_beggs_robinson, 200.0, 3000.0)
    call(out, "spivey(extra)", oil.oil_compressibility_undersat_Spivey, 200.0, 3000.0, 35.0, 0.8, 650.0, 1.0)
    # string parameters
    call(out, "b_o_Standing(str api)", oil.b_o_Standing, 200.0, 3000.0, "35", 0.8, 650.0)
    call(out, "spivey(str api)", oil.oil_compressibility_undersat_Spivey, 200.0, 3000.0, "35", 0.8, 650.0)
    call(out, "density(None gor)", oil.density_Standing, 200.0, 3000.0, 35.0, 0.8, None)
    # through the Fluid class
    for fl in FLUIDS[:8]:
        t, api, sg, gor = fl
        try:
            fluid = Fluid(t, api, sg, gor)
        except Exception as exc:  # noqa: BLE001
            out.append(f"Fluid{fl!r} -> EXC:{type(exc).__name__}")
            continue
        call(out, f"Fluid{fl!r}.pressure_bubblepoint", fluid.pressure_bubblepoint)
        for p in [*ARRAY_PRESSURES[:10], 2000.0, 9000.0]:
            call(out, f"Fluid{fl!r}.oil_FVF({plabel(p)})", fluid.oil_FVF, p)
            call(out, f"Fluid{fl!r}.oil_viscosity({plabel(p)})", fluid.oil_viscosity, p)
    # test-data table
    try:
        import pandas as pd

        table = pd.read_csv(os.path.join(BB_DATA, "pvt_oil.csv"))
        pcol = "P"
        pressures = table[pcol].to_numpy(dtype=float)
        out.append(f"table pressures n={len(pressures)}")
        call(out, "table b_o", oil.b_o_Standing, 200.0, pressures, 35.0, 0.8, 650.0)
        call(out, "table gor", oil.solution_gor_Standing, 200.0, pressures, 35.0, 0.8, 650.0)
        call(out, "table density", oil.density_Standing, 200.0, pressures, 35.0, 0.8, 650.0)
        call(out, "table series b_o", oil.b_o_Standing, 200.0, table[pcol], 35.0, 0.8, 650.0)
        call(out, "table series gor", oil.solution_gor_Standing, 200.0, table[pcol], 35.0, 0.8, 650.0)
        call(out, "table series spivey", oil.oil_compressibility_undersat_Spivey, 200.0, table[pcol], 35.0, 0.8, 650.0)
        for p in pressures[:: max(1, len(pressures) // 40)]:
            call(out, f"table visc p={p!r}", oil.viscosity_beggs_robinson, 200.0, p, 35.0, 0.8, 650.0)
            call(out, f"table co p={p!r}", oil.oil_compressibility_Standing, 200.0, p, 35.0, 0.8, 650.0, -72.2, 653.0)
    except Exception as exc:  # noqa: BLE001
        out.append(f"table -> EXC:{type(exc).__name__}")
    with open(outfile, "w") as fh:
        fh.write("\n".join(out) + "\n")


if __name__ == "__main__":
    main(sys.argv[1])
