"""Equivalence driver for twin3: oil_compressibility_undersat_Spivey (module constants, de-duplicated input row, merged tail).

Usage: PYTHONPATH=<tree>/src /venv/bin/python equiv.py <outfile>
"""

from __future__ import annotations

import os
import sys
import warnings

import numpy as np
import pandas as pd

warnings.simplefilter("ignore")
np.seterr(all="ignore")

from bluebonnet.fluids import oil  # noqa: E402
from bluebonnet.fluids.fluid import Fluid  # noqa: E402

BB_DATA = os.environ.get("BB_DATA", "/tmp/twin_oil/tests/data")
SIG = None  # bit-identical refactoring: full repr


def fmt(x):
    if isinstance(x, np.ndarray):
        return f"ndarray[{x.dtype},{x.shape}](" + ",".join(fmt(v) for v in x.ravel().tolist()) + ")"
    if isinstance(x, (list, tuple)):
        return type(x).__name__ + "(" + ",".join(fmt(v) for v in x) + ")"
    tname = type(x).__name__
    if isinstance(x, (complex, np.complexfloating)):
        return f"{tname}:{fmt(float(x.real))}+{fmt(float(x.imag))}j"
    if isinstance(x, (float, np.floating)):
        v = float(x)
        if SIG is not None and np.isfinite(v):
            return f"{tname}:{v:.{SIG}g}"
        return f"{tname}:{v!r}"
    return f"{tname}:{x!r}"


def call(f, *args, **kwargs):
    try:
        return fmt(f(*args, **kwargs))
    except Exception as e:  # noqa: BLE001
        return "RAISES " + type(e).__name__


def main(outfile):
    lines = []

    def rec(label, f, *a, **k):
        lines.append(f"{label} -> {call(f, *a, **k)}")

    f = oil.oil_compressibility_undersat_Spivey
    temps = [60, 100.0, 200, 275.5, 400]
    apis = [10, 22.5, 35, 45.0, 60]
    sgs = [0.55, 0.65, 0.8, 1.2]
    gors = [50, 300.0, 650, 1500, 4000]
    p_scalars = [
        14.7, 100, 500.0, 1000, 2000, 2627.2017021875276, 2627.3, 3000, 5000.0,
        10000, 20000, 0, 0.0, -5.0, -30, np.float64(1800.0), np.float32(1800.0), np.int64(1800),
        np.float64(7000.0), float("nan"), float("inf"),
    ]
    p_arrays = [
        np.linspace(10, 8000, 23),
        np.linspace(3000, 12000, 64),
        np.array([14.7, 2000.0, 2627.2017021875276, 3000.0]),
        np.array([2000.0]),
        np.array([]),
        np.array([], dtype=int),
        [],
        np.arange(500, 12000, 500),  # integer dtype
        np.linspace(10, 8000, 12, dtype=np.float32),
        np.linspace(10, 6000, 12).reshape(3, 4),  # 2-D -> raises
        np.array([100.0, np.nan, 3000.0, np.inf, -10.0, 0.0]),
        [100.0, 3000.0],  # list -> raises
        (100.0, 3000.0),
        np.array(2000.0),  # 0-d arrays
        np.array(3000.0),
        np.linspace(10, 8000, 23)[::-1],
        np.linspace(10, 8000, 46)[::2],
    ]
    for T in temps:
        for api in apis:
            for sg in sgs:
                for gor in gors:
                    for p in p_scalars:
                        rec(f"co_s T={T!r} p={p!r} api={api!r} sg={sg!r} gor={gor!r}",
                            f, T, p, api, sg, gor)
    for T in [100.0, 200, 400]:
        for api in [10, 35, 60]:
            for sg in [0.55, 0.8]:
                for gor in [0, 50, 650, 4000]:
                    for i, p in enumerate(p_arrays):
                        rec(f"co_a T={T!r} p#{i} api={api!r} sg={sg!r} gor={gor!r}",
                            f, T, p, api, sg, gor)
    # repeated calls give the same answer (module-level constants are not mutated)
    r1 = call(f, 200, np.linspace(3000, 9000, 7), 35, 0.8, 650)
    r2 = call(f, 200, np.linspace(3000, 9000, 7), 35, 0.8, 650)
    lines.append("repeatable " + repr(r1 == r2))
    parr = np.linspace(3000, 9000, 7)
    before = parr.copy()
    f(200, parr, 35, 0.8, 650)
    lines.append("input_unchanged " + repr(bool(np.array_equal(parr, before))))
    rec("kw", f, temperature=200, pressure=3000, api_gravity=35,
        gas_specific_gravity=0.8, solution_gor_initial=650)
    rec("kw_arr", f, solution_gor_initial=650, gas_specific_gravity=0.8,
        api_gravity=35, pressure=np.array([3000.0, 4000.0]), temperature=200)
    rec("series", lambda: np.asarray(f(200, pd.Series([3000.0, 4000.0, 5000.0]), 35, 0.8, 650)))
    bad = [
        (200, 3000, 35, 0, 650),
        (200, 3000, 35, 0.0, 650),
        (200, np.array([]), 35, 0, 650),  # empty pressure but bad gravity
        (200, np.array([]), 35, 0.8, None),
        (200, 3000, -131.5, 0.8, 650),
        (200, 3000, 0, 0.8, 650),
        (200, 3000, -20, 0.8, 650),
        (200, 3000, 35, -0.8, 650),
        (200, 3000, 35, 0.8, -650),
        (200, 3000, 35, 0.8, 0),
        (0, 3000, 35, 0.8, 650),
        (-50, 3000, 35, 0.8, 650),
        (200, "3000", 35, 0.8, 650),
        ("200", 3000, 35, 0.8, 650),
        (200, None, 35, 0.8, 650),
        (None, 3000, 35, 0.8, 650),
        (200, 3000, 35, 0.8, None),
        (200, 3000, 1e6, 0.8, 650),
        (1e7, 3000, 35, 0.8, 650),
        (200, 3000 + 1j, 35, 0.8, 650),
        (200, np.array([3000.0, 4000.0]), 35, 0, 650),
        (0, np.array([3000.0, 4000.0]), 35, 0.8, 650),
        (200, np.array([3000.0, 4000.0]), 0, 0.8, 650),
        (200, np.array(["a", "b"]), 35, 0.8, 650),
        (200, np.array([3000.0, 4000.0], dtype=object), 35, 0.8, 650),
        (np.array([100.0, 200.0]), 3000, 35, 0.8, 650),
        (np.array([100.0, 200.0]), np.array([3000.0, 4000.0]), 35, 0.8, 650),
        (200, np.array([3000.0, 4000.0]), 35, 0.8, np.array([650.0, 700.0])),
        (200, np.array([3000.0, 4000.0]), 35, np.array([0.7, 0.8]), 650),
        (200, 3000, 35, np.array([0.7, 0.8]), 650),
    ]
    for i, a in enumerate(bad):
        rec(f"bad#{i}", f, *a)
    rec("too_few", f, 200, 3000, 35, 0.8)
    rec("too_many", f, 200, 3000, 35, 0.8, 650, 1)

    # callers
    for T, api, sg, gor in [(200, 35, 0.8, 650), (150.0, 45, 0.65, 1500), (300, 22.5, 1.2, 300.0)]:
        for p in [500.0, 2000, 3000, 8000.0, 15000]:
            tag = f"T={T!r} p={p!r} api={api!r} sg={sg!r} gor={gor!r}"
            rec("b_o " + tag, oil.b_o_Standing, T, p, api, sg, gor)
            rec("rho " + tag, oil.density_Standing, T, p, api, sg, gor)
            rec("co " + tag, oil.oil_compressibility_Standing, T, p, api, sg, gor, -72.2, 653)
        parr = np.linspace(50, 12000, 60)
        rec(f"b_o_arr {T} {api} {sg} {gor}", oil.b_o_Standing, T, parr, api, sg, gor)
        rec(f"rho_arr {T} {api} {sg} {gor}", oil.density_Standing, T, parr, api, sg, gor)
        rec(f"Fluid.oil_FVF {T} {api} {sg} {gor}", Fluid(T, api, sg, gor).oil_FVF, parr)

    for name in ["pvt_oil.csv", "pvt_multiphase_oil.csv"]:
        try:
            df = pd.read_csv(os.path.join(BB_DATA, name))
            pcol = [c for c in df.columns if "ressure" in c or c.lower() == "p"][0]
            parr = df[pcol].to_numpy()
            rec(f"table {name} co", f, 200, parr, 35, 0.8, 650)
            rec(f"table {name} b_o", oil.b_o_Standing, 200, parr, 35, 0.8, 650)
        except Exception as e:  # noqa: BLE001
            lines.append(f"table {name} -> HARNESS {type(e).__name__}")

    with open(outfile, "w") as fh:
        fh.write("\n".join(lines) + "\n")


if __name__ == "__main__":
    main(sys.argv[1])
