"""Equivalence driver for twin3: sweet-gas shortcut in pseudocritical_point_Sutton."""
import sys
import warnings

import numpy as np
import pandas as pd

from bluebonnet.fluids import build_pvt_gas, gas

warnings.simplefilter("ignore")


def show(x):
    if isinstance(x, np.ndarray):
        return "ndarray%s%s[%s]" % (x.shape, x.dtype, ", ".join(show(v) for v in x.ravel()))
    if isinstance(x, (tuple, list)):
        return type(x).__name__ + "(" + ", ".join(show(v) for v in x) + ")"
    if isinstance(x, (float, np.floating)):
        return "%s:%s" % (type(x).__name__, float(x).hex())
    return "%s:%r" % (type(x).__name__, x)


def call(f, *a, **k):
    try:
        return show(f(*a, **k))
    except Exception as e:  # noqa: BLE001
        return "EXC " + type(e).__name__


out = []
vals = [0.0, -0.0, 1e-300, 5e-324, 1e-12, 0.001, 0.012, 0.05, 0.2, 0.45, float("nan"), -0.01, 1.0]
sgs = [0.56, 0.65, 0.8, 1.2, np.float64(0.7)]
fluids = ["dry gas", "wet gas"]
for n2 in [0.0, 0.03, 0.2]:
    for h2s in vals:
        for co2 in vals:
            nhp = gas.make_nonhydrocarbon_properties(n2, h2s, co2)
            for sg in sgs:
                for fl in fluids:
                    out.append(
                        f"pc({sg!r},{n2},{h2s!r},{co2!r},{fl}) = "
                        + call(gas.pseudocritical_point_Sutton, sg, nhp, fl)
                    )
# default fluid, bad fluid, extra rows
sweet = gas.make_nonhydrocarbon_properties(0.02, 0.0, 0.0)
sour = gas.make_nonhydrocarbon_properties(0.02, 0.1, 0.05)
for name, nhp in [("sweet", sweet), ("sour", sour)]:
    out.append(f"default_{name} = " + call(gas.pseudocritical_point_Sutton, 0.7, nhp))
    out.append(f"kw_{name} = " + call(gas.pseudocritical_point_Sutton, specific_gravity=0.7, non_hydrocarbon_properties=nhp, fluid="dry gas"))
    for fl in ["oil", "", None, 3, "Dry Gas"]:
        out.append(f"badfluid_{name}({fl!r}) = " + call(gas.pseudocritical_point_Sutton, 0.7, nhp, fl))
    for sg in ["0.7", None, float("nan"), float("inf"), 0.0, -1.0, np.array([0.6, 0.7]), np.array([0.65])]:
        out.append(f"sg_{name}({sg!r}) = " + call(gas.pseudocritical_point_Sutton, sg, nhp, "wet gas"))
for extra_frac in [0.0, 0.01]:
    for h2s, co2 in [(0.0, 0.0), (0.0, 0.1), (0.1, 0.0), (0.02, 0.03)]:
        nhp = gas.make_nonhydrocarbon_properties(
            0.01, h2s, co2, ("Helium", extra_frac, 4.0, 9.34, 32.9), ("Argon", 0.005, 39.95, 271.6, 705.3)
        )
        out.append(f"extra({extra_frac},{h2s},{co2}) = " + call(gas.pseudocritical_point_Sutton, 0.7, nhp, "dry gas"))
# all non-hydrocarbon (fraction_hydrocarbon == 0) and more than all
out.append("allnonhc = " + call(gas.pseudocritical_point_Sutton, 0.7, gas.make_nonhydrocarbon_properties(1.0, 0.0, 0.0)))
out.append("allnonhc2 = " + call(gas.pseudocritical_point_Sutton, 0.7, gas.make_nonhydrocarbon_properties(0.5, 0.25, 0.25)))
# short / odd tables
full = gas.make_nonhydrocarbon_properties(0.01, 0.0, 0.0)
full_sour = gas.make_nonhydrocarbon_properties(0.01, 0.02, 0.03)
for name, tab in [("sweet", full), ("sour", full_sour)]:
    for n in [0, 1, 2]:
        out.append(f"short_{name}{n} = " + call(gas.pseudocritical_point_Sutton, 0.7, tab[:n]))
    out.append(f"row_{name} = " + call(gas.pseudocritical_point_Sutton, 0.7, tab[0]))
    out.append(f"2d_{name}_31 = " + call(gas.pseudocritical_point_Sutton, 0.7, tab.reshape(3, 1)))
    out.append(f"2d_{name}_32 = " + call(gas.pseudocritical_point_Sutton, 0.7, np.stack([tab, tab], axis=1)))
    out.append(f"2d_{name}_13 = " + call(gas.pseudocritical_point_Sutton, 0.7, tab.reshape(1, 3)))
    df = pd.DataFrame.from_records(tab)
    out.append(f"df_{name} = " + call(gas.pseudocritical_point_Sutton, 0.7, df, "dry gas"))
    out.append(f"df_named_{name} = " + call(gas.pseudocritical_point_Sutton, 0.7, df.set_index("name"), "dry gas"))
    d = {k: tab[k].copy() for k in tab.dtype.names}
    out.append(f"dict_{name} = " + call(gas.pseudocritical_point_Sutton, 0.7, d, "wet gas"))
    d32 = {k: (tab[k].astype("f4") if k != "name" else tab[k]) for k in tab.dtype.names}
    out.append(f"dict32_{name} = " + call(gas.pseudocritical_point_Sutton, 0.7, d32, "wet gas"))
    dl = {k: list(tab[k]) for k in tab.dtype.names}
    out.append(f"dictlist_{name} = " + call(gas.pseudocritical_point_Sutton, 0.7, dl, "wet gas"))
    before = tab.copy()
    gas.pseudocritical_point_Sutton(0.7, tab)
    out.append(f"table_untouched_{name} = " + str(bool((before == tab).all())))
dint = {
    "fraction": np.array([0, 0, 0]),
    "molecular weight": np.array([28, 34, 44]),
    "critical temperature": np.array([227, 672, 548]),
    "critical pressure": np.array([492, 1300, 1071]),
}
out.append("dict_int = " + call(gas.pseudocritical_point_Sutton, 0.7, dint, "wet gas"))
out.append("missing_field = " + call(gas.pseudocritical_point_Sutton, 0.7, full[["name", "fraction"]]))
out.append("none_table = " + call(gas.pseudocritical_point_Sutton, 0.7, None))


def pvt(n2, h2s, co2, dryness):
    df = build_pvt_gas(
        {
            "N2": n2,
            "H2S": h2s,
            "CO2": co2,
            "Gas Specific Gravity": 0.65,
            "Reservoir Temperature (deg F)": 250.0,
        },
        dryness,
        3000,
    )
    return [df[c].to_numpy()[::9] for c in df.columns]


out.append("pvt_sweet = " + call(pvt, 0.02, 0.0, 0.0, "dry gas"))
out.append("pvt_sour = " + call(pvt, 0.02, 0.01, 0.03, "wet gas"))

with open(sys.argv[1], "w") as fh:
    fh.write("\n".join(out) + "\n")
