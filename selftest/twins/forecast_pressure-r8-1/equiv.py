"""Behaviour record for bluebonnet.forecast.forecast_pressure.

Usage: PYTHONPATH=<tree>/src /venv/bin/python equiv.py <outfile>
"""

from __future__ import annotations

import os
import sys
import warnings

import matplotlib

matplotlib.use("Agg")
import matplotlib.pyplot as plt
import numpy as np
import pandas as pd
from lmfit import Parameters

import bluebonnet  # noqa: F401  (registers the squareroot scale)
from bluebonnet.flow import FlowProperties, SinglePhaseReservoir
from bluebonnet.forecast import fit_production_pressure, plot_production_comparison
from bluebonnet.forecast import forecast_pressure as fp

warnings.simplefilter("ignore")
DATA = os.environ.get("BB_DATA", "/tmp/twin8_forecast_pressure/tests/data")
PVT = pd.read_csv(os.path.join(DATA, "pvt_gas_HAYNESVILLE SHALE_20.csv"))
PVT_GAS = pd.read_csv(os.path.join(DATA, "pvt_gas.csv")).rename(
    columns={"P": "pressure", "Z-Factor": "z-factor", "Cg": "compressibility",
             "Viscosity": "viscosity", "Density": "density"}
)
PVT_RAW = pd.read_csv(os.path.join(DATA, "pvt_gas.csv"))  # wrong column names
OUT = []


def fmt(x):
    """Full-precision text for anything we record."""
    if isinstance(x, (pd.Series, pd.Index)):
        return "S" + fmt(x.to_numpy())
    if isinstance(x, np.ndarray):
        if x.dtype.kind == "f":
            return f"A{x.shape}{x.dtype}[" + ",".join(repr(float(v)) for v in x.ravel()) + "]"
        return f"A{x.shape}{x.dtype}[" + ",".join(repr(v) for v in x.ravel().tolist()) + "]"
    if isinstance(x, (float, np.floating)):
        return repr(float(x))
    if isinstance(x, (tuple, list)):
        return "(" + ",".join(fmt(v) for v in x) + ")"
    return repr(x)


def record(label, func):
    try:
        res = func()
    except Exception as e:  # noqa: BLE001
        res = "EXC " + type(e).__name__
    OUT.append(f"{label}: {res}")


def make_prod(n, tau=180.0, nx=40, pf=500.0, pi=5000.0, scale=1500.0):
    """Synthetic well: simulate a pressure-varying reservoir, daily volumes."""
    t = np.linspace(0, np.sqrt(6.0), n) ** 2
    p = np.full(n, pf)
    p[n // 4 : n // 2] /= 2.0
    p[n // 2 :] /= 4.0
    if n > 5:
        p = p + 20.0 * np.sin(np.arange(n))
    res = SinglePhaseReservoir(nx, pf, pi, FlowProperties(PVT, pi))
    res.simulate(t, p)
    rf = res.recovery_factor()
    gas = np.diff(scale * rf, prepend=0.0)
    gas[0] = scale * 0.001
    return pd.DataFrame({"Days": t * tau, "Gas": gas, "Pressure": p})


def fit_summary(**kw):
    def run():
        r = fit_production_pressure(**kw)
        vals = [(k, r.params[k].value, r.params[k].min, r.params[k].max) for k in r.params]
        return fmt(
            [vals, r.nfev, r.method, r.residual, r.chisqr, type(r).__name__,
             list(r.var_names), list(r.init_vals), r.success, r.ndata, r.nvarys]
        )

    return run


def plot_summary(**kw):
    def run():
        fig, (ax1, ax2) = plot_production_comparison(**kw)
        try:
            rec = [tuple(fig.get_size_inches())]
            for ax in (ax1, ax2):
                rec.append(
                    [ax.get_xlabel(), ax.get_ylabel(), ax.get_xscale(), ax.get_yscale(),
                     ax.get_xlim(), ax.get_ylim(),
                     [t.get_text() for t in ax.get_legend().get_texts()]]
                )
                for line in ax.get_lines():
                    rec.append(
                        [line.get_label(), line.get_linestyle(),
                         np.asarray(line.get_xdata(), dtype=float),
                         np.asarray(line.get_ydata(), dtype=float)]
                    )
            return fmt(rec)
        finally:
            plt.close(fig)

    return run


def params_for(M=1300.0, tau=420.0, p_initial=5000.0, bounds=False):
    p = Parameters()
    if bounds:
        p.add("tau", value=tau, min=30.0, max=5000.0)
        p.add("M", value=M, min=10.0, max=1e5)
        p.add("p_initial", value=p_initial, min=1000.0, max=12000.0)
    else:
        p.add("M", M)
        p.add("tau", tau)
        p.add("p_initial", p_initial)
    return p


prod = make_prod(90)
prod_gaps = prod.copy()
prod_gaps.loc[[3, 17, 40], "Gas"] = 0.0
prod_gaps.loc[[5, 17, 60], "Pressure"] = np.nan
prod_gaps["Oil"] = 1.0  # extra column is ignored
prod_idx = prod_gaps.copy()
prod_idx.index = np.arange(len(prod_idx))[::-1] * 3 + 7  # non-default index
prod_int = prod.copy()
prod_int["Gas"] = np.maximum(1, np.round(prod["Gas"] * 10)).astype(np.int64)
prod_int["Pressure"] = np.round(prod["Pressure"]).astype(np.int64)
prod_neg = prod.copy()
prod_neg.loc[10, "Gas"] = -1.0
prod_allzero = prod.copy()
prod_allzero["Gas"] = 0.0
prod_high = prod.copy()
prod_high["Pressure"] = prod_high["Pressure"] + 30000.0  # outside the pvt table
prod_nanp = prod.copy()
prod_nanp.loc[7, "Pressure"] = np.nan

# ---------------------------------------------------------------- fit
fit_cases = {
    "default": dict(prod_data=prod, pvt_table=PVT, pressure_initial=5000.0, n_iter=8),
    "gaps": dict(prod_data=prod_gaps, pvt_table=PVT, pressure_initial=5000.0, n_iter=8),
    "gaps_idx": dict(prod_data=prod_idx, pvt_table=PVT, pressure_initial=5000.0, n_iter=6),
    "gaps_nofilter": dict(prod_data=prod_gaps, pvt_table=PVT, pressure_initial=5000.0,
                          n_iter=4, filter_zero_prod_days=False),
    "nofilter": dict(prod_data=prod, pvt_table=PVT, pressure_initial=4000.0, n_iter=6,
                     filter_zero_prod_days=False),
    "win1": dict(prod_data=prod, pvt_table=PVT, pressure_initial=5000.0, n_iter=5,
                 filter_window_size=1),
    "win3": dict(prod_data=prod_gaps, pvt_table=PVT, pressure_initial=5000.0, n_iter=5,
                 filter_window_size=3),
    "win7_nofilter": dict(prod_data=prod, pvt_table=PVT, pressure_initial=5000.0, n_iter=5,
                          filter_window_size=7, filter_zero_prod_days=False),
    "win200": dict(prod_data=prod, pvt_table=PVT, pressure_initial=5000.0, n_iter=3,
                   filter_window_size=200),
    "win0": dict(prod_data=prod, pvt_table=PVT, pressure_initial=5000.0, n_iter=3,
                 filter_window_size=0),
    "win-2": dict(prod_data=prod, pvt_table=PVT, pressure_initial=5000.0, n_iter=3,
                  filter_window_size=-2),
    "win2.5": dict(prod_data=prod, pvt_table=PVT, pressure_initial=5000.0, n_iter=3,
                   filter_window_size=2.5),
    "win0.5": dict(prod_data=prod, pvt_table=PVT, pressure_initial=5000.0, n_iter=3,
                   filter_window_size=0.5),
    "win_nan": dict(prod_data=prod, pvt_table=PVT, pressure_initial=5000.0, n_iter=3,
                    filter_window_size=float("nan")),
    "win_str": dict(prod_data=prod, pvt_table=PVT, pressure_initial=5000.0, n_iter=3,
                    filter_window_size="3"),
    "win_true": dict(prod_data=prod, pvt_table=PVT, pressure_initial=5000.0, n_iter=3,
                     filter_window_size=True),
    "imax": dict(prod_data=prod, pvt_table=PVT, pressure_initial=6000.0, n_iter=7,
                 pressure_imax=9000.0, inplace_max=5000.0),
    "imax_low": dict(prod_data=prod, pvt_table=PVT, pressure_initial=300.0, n_iter=4,
                     pressure_imax=400.0),
    "inplace_low": dict(prod_data=prod, pvt_table=PVT, pressure_initial=5000.0, n_iter=4,
                        inplace_max=1.0),
    "imax_outside_pvt": dict(prod_data=prod, pvt_table=PVT_GAS, pressure_initial=5000.0,
                             n_iter=30, pressure_imax=1e6),
    "pvt_gas": dict(prod_data=prod, pvt_table=PVT_GAS, pressure_initial=5000.0, n_iter=5),
    "int_cols": dict(prod_data=prod_int, pvt_table=PVT, pressure_initial=5000.0, n_iter=5),
    "int_cols_win3": dict(prod_data=prod_int, pvt_table=PVT, pressure_initial=5000.0, n_iter=5,
                          filter_window_size=3),
    "neg_gas": dict(prod_data=prod_neg, pvt_table=PVT, pressure_initial=5000.0, n_iter=4),
    "neg_gas_nofilter": dict(prod_data=prod_neg, pvt_table=PVT, pressure_initial=5000.0,
                             n_iter=4, filter_zero_prod_days=False),
    "nan_pressure_nofilter": dict(prod_data=prod_nanp, pvt_table=PVT, pressure_initial=5000.0,
                                  n_iter=3, filter_zero_prod_days=False),
    "allzero": dict(prod_data=prod_allzero, pvt_table=PVT, pressure_initial=5000.0, n_iter=3),
    "allzero_win": dict(prod_data=prod_allzero, pvt_table=PVT, pressure_initial=5000.0,
                        n_iter=3, filter_window_size=3),
    "empty_nofilter": dict(prod_data=prod.iloc[:0], pvt_table=PVT, pressure_initial=5000.0,
                           n_iter=3, filter_zero_prod_days=False),
    "len1": dict(prod_data=prod.iloc[:1], pvt_table=PVT, pressure_initial=5000.0, n_iter=4),
    "len2": dict(prod_data=prod.iloc[:2], pvt_table=PVT, pressure_initial=5000.0, n_iter=4),
    "len3_win": dict(prod_data=prod.iloc[:3], pvt_table=PVT, pressure_initial=5000.0, n_iter=4,
                     filter_window_size=2),
    "high_pressure": dict(prod_data=prod_high, pvt_table=PVT, pressure_initial=5000.0, n_iter=3),
    "missing_days": dict(prod_data=prod.drop(columns="Days"), pvt_table=PVT,
                         pressure_initial=5000.0, n_iter=3),
    "missing_gas_nofilter": dict(prod_data=prod.drop(columns="Gas"), pvt_table=PVT,
                                 pressure_initial=5000.0, n_iter=3,
                                 filter_zero_prod_days=False),
    "missing_pressure": dict(prod_data=prod.drop(columns="Pressure"), pvt_table=PVT,
                             pressure_initial=5000.0, n_iter=3),
    "bad_pvt": dict(prod_data=prod, pvt_table=PVT[["pressure", "viscosity"]],
                    pressure_initial=5000.0, n_iter=3),
    "n_iter1": dict(prod_data=prod, pvt_table=PVT, pressure_initial=5000.0, n_iter=1),
    "n_iter0": dict(prod_data=prod, pvt_table=PVT, pressure_initial=5000.0, n_iter=0),
    "params_given": dict(prod_data=prod, pvt_table=PVT, pressure_initial=1.0, n_iter=8,
                         params=params_for(bounds=True)),
    "params_given_unbounded": dict(prod_data=prod_gaps, pvt_table=PVT, pressure_initial=1.0,
                                   n_iter=6, params=params_for(M=900.0, tau=300.0)),
    "params_missing_key": dict(prod_data=prod, pvt_table=PVT, pressure_initial=1.0, n_iter=3,
                               params=Parameters()),
    "params_empty_data": dict(prod_data=prod_allzero, pvt_table=PVT, pressure_initial=1.0,
                              n_iter=3, params=params_for(bounds=True)),
    "params_p_above_pvt": dict(prod_data=prod, pvt_table=PVT, pressure_initial=1.0, n_iter=3,
                               params=params_for(p_initial=1e6)),
    "pvt_raw": dict(prod_data=prod, pvt_table=PVT_RAW, pressure_initial=5000.0, n_iter=3),
    "positional": None,
}
for name, kw in fit_cases.items():
    if kw is None:
        continue
    record("fit " + name, fit_summary(**kw))


def _positional():
    r = fit_production_pressure(prod, PVT, 5000.0, 3, 9000.0, 20000.0, False, 5, None)
    return fmt([(k, r.params[k].value, r.params[k].min, r.params[k].max) for k in r.params]
               + [r.nfev, r.residual])


record("fit positional", _positional)

# refit from a previous result, as the docstring suggests
def _refit():
    r1 = fit_production_pressure(prod, PVT, 5000.0, n_iter=5)
    r2 = fit_production_pressure(prod, PVT, 5000.0, n_iter=5, params=r1.params)
    return fmt([(k, r2.params[k].value) for k in r2.params] + [r2.nfev, r2.residual])


record("fit refit", _refit)

# ---------------------------------------------------------------- plot
plot_cases = {
    "default": dict(prod_data=prod, pvt_table=PVT, params=params_for()),
    "gaps": dict(prod_data=prod_gaps, pvt_table=PVT, params=params_for()),
    "gaps_idx": dict(prod_data=prod_idx, pvt_table=PVT, params=params_for()),
    "nofilter": dict(prod_data=prod, pvt_table=PVT, params=params_for(),
                     filter_zero_prod_days=False),
    "nofilter_idx": dict(prod_data=prod_idx.dropna(), pvt_table=PVT, params=params_for(),
                         filter_zero_prod_days=False),
    "nofilter_gaps": dict(prod_data=prod_gaps, pvt_table=PVT, params=params_for(),
                          filter_zero_prod_days=False),
    "win1": dict(prod_data=prod, pvt_table=PVT, params=params_for(), filter_window_size=1,
                 filter_zero_prod_days=True),
    "win5": dict(prod_data=prod_gaps, pvt_table=PVT, params=params_for(), filter_window_size=5,
                 well_name="Bluebonnet #1"),
    "win5_nofilter": dict(prod_data=prod, pvt_table=PVT, params=params_for(),
                          filter_window_size=5, filter_zero_prod_days=False),
    "win0": dict(prod_data=prod, pvt_table=PVT, params=params_for(), filter_window_size=0),
    "win-1_nofilter": dict(prod_data=prod, pvt_table=PVT, params=params_for(),
                           filter_window_size=-1, filter_zero_prod_days=False),
    "win_str": dict(prod_data=prod, pvt_table=PVT, params=params_for(), filter_window_size="a"),
    "win2.5": dict(prod_data=prod, pvt_table=PVT, params=params_for(), filter_window_size=2.5),
    "int_params": dict(prod_data=prod, pvt_table=PVT, params=params_for(1300, 420, 5000)),
    "int_cols": dict(prod_data=prod_int, pvt_table=PVT, params=params_for()),
    "int_cols_win": dict(prod_data=prod_int, pvt_table=PVT, params=params_for(),
                         filter_window_size=4),
    "bounded_params": dict(prod_data=prod, pvt_table=PVT, params=params_for(bounds=True)),
    "p_equal_fracface": dict(prod_data=prod.assign(Pressure=5000.0), pvt_table=PVT,
                             params=params_for()),
    "p_low": dict(prod_data=prod, pvt_table=PVT, params=params_for(p_initial=400.0)),
    "p_above_pvt": dict(prod_data=prod, pvt_table=PVT, params=params_for(p_initial=1e6)),
    "high_pressure": dict(prod_data=prod_high, pvt_table=PVT, params=params_for()),
    "tau_zero": dict(prod_data=prod, pvt_table=PVT, params=params_for(tau=0.0)),
    "tau_neg": dict(prod_data=prod, pvt_table=PVT, params=params_for(tau=-100.0)),
    "M_zero": dict(prod_data=prod, pvt_table=PVT, params=params_for(M=0.0)),
    "allzero": dict(prod_data=prod_allzero, pvt_table=PVT, params=params_for()),
    "empty_nofilter": dict(prod_data=prod.iloc[:0], pvt_table=PVT, params=params_for(),
                           filter_zero_prod_days=False),
    "len1": dict(prod_data=prod.iloc[:1], pvt_table=PVT, params=params_for()),
    "len1_nofilter": dict(prod_data=prod.iloc[:1], pvt_table=PVT, params=params_for(),
                          filter_zero_prod_days=False),
    "len2": dict(prod_data=prod.iloc[:2], pvt_table=PVT, params=params_for()),
    "len2_nofilter_win": dict(prod_data=prod.iloc[:2], pvt_table=PVT, params=params_for(),
                              filter_zero_prod_days=False, filter_window_size=3),
    "missing_days": dict(prod_data=prod.drop(columns="Days"), pvt_table=PVT,
                         params=params_for()),
    "missing_gas": dict(prod_data=prod.drop(columns="Gas"), pvt_table=PVT, params=params_for(),
                        filter_zero_prod_days=False),
    "missing_param": dict(prod_data=prod, pvt_table=PVT, params=Parameters()),
    "bad_pvt": dict(prod_data=prod, pvt_table=PVT[["pressure", "viscosity"]],
                    params=params_for()),
    "pvt_gas": dict(prod_data=prod, pvt_table=PVT_GAS, params=params_for()),
    "pvt_raw": dict(prod_data=prod, pvt_table=PVT_RAW, params=params_for()),
}
for name, kw in plot_cases.items():
    record("plot " + name, plot_summary(**kw))

record("plot positional",
       plot_summary(prod_data=prod_gaps, pvt_table=PVT, params=params_for(bounds=True)))


def _plot_positional():
    fig, axes = plot_production_comparison(prod, PVT, params_for(), 3, False, "W")
    try:
        return fmt([[np.asarray(l.get_ydata(), dtype=float) for l in ax.get_lines()] for ax in axes]
                   + [[t.get_text() for t in ax.get_legend().get_texts()] for ax in axes])
    finally:
        plt.close(fig)


record("plot positional2", _plot_positional)

# ---------------------------------------------------------------- objective, called directly
days = np.arange(30)
pres = np.array(prod["Pressure"])[:30]
cum = np.cumsum(np.array(prod["Gas"]))[:30]
obj_cases = {
    "basic": (params_for(), days, cum, PVT, pres),
    "bounded": (params_for(bounds=True), days, cum, PVT, pres),
    "float_days": (params_for(), days * 0.5, cum, PVT, pres),
    "list_pressure": (params_for(), days, cum, PVT, list(pres)),
    "scalar_production": (params_for(), days, 3.0, PVT, pres),
    "series_production": (params_for(), days, pd.Series(cum), PVT, pres),
    "len_mismatch": (params_for(), days, cum, PVT, pres[:-1]),
    "len_mismatch_long": (params_for(), days[:5], cum[:5], PVT, pres),
    "prod_mismatch": (params_for(), days, cum[:7], PVT, pres),
    "p_equal": (params_for(p_initial=float(pres.max())), days, cum, PVT, pres),
    "p_below_fracface": (params_for(p_initial=100.0), days, cum, PVT, pres),
    "p_above_pvt": (params_for(p_initial=1e6), days, cum, PVT, pres),
    "pressure_above_pvt": (params_for(), days, cum, PVT, pres + 1e5),
    "tau_zero": (params_for(tau=0.0), days, cum, PVT, pres),
    "len1": (params_for(), days[:1], cum[:1], PVT, pres[:1]),
    "len2": (params_for(), days[:2], cum[:2], PVT, pres[:2]),
    "len0": (params_for(), days[:0], cum[:0], PVT, pres[:0]),
    "missing_param": (Parameters(), days, cum, PVT, pres),
    "pvt_gas": (params_for(), days, cum, PVT_GAS, pres),
}
for name, args in obj_cases.items():
    record("obj " + name, lambda args=args: fmt(fp._obj_function(*args)))
record("obj keywords", lambda: fmt(fp._obj_function(
    params=params_for(), days=days, production=cum, pvt_table=PVT, pressure_fracface=pres)))

# public surface is unchanged
import inspect

record("signature fit", lambda: str(inspect.signature(fit_production_pressure)))
record("signature plot", lambda: str(inspect.signature(plot_production_comparison)))
record("signature obj", lambda: str(inspect.signature(fp._obj_function)))
record("public names", lambda: sorted(n for n in vars(fp) if not n.startswith("_")))

with open(sys.argv[1], "w") as f:
    f.write("\n".join(OUT) + "\n")
