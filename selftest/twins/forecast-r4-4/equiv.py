"""Equivalence driver for bluebonnet.forecast.forecast (Bounds, ForecasterOnePhase)."""
import copy
import dataclasses
import sys
import warnings

import numpy as np
from scipy.interpolate import interp1d

from bluebonnet.forecast import Bounds, ForecasterOnePhase
from bluebonnet.forecast import forecast as fmod

out = []


def fmt(v):
    if isinstance(v, np.ndarray):
        return "ndarray[%s,%s](%s)" % (v.dtype, v.shape, ",".join(fmt(x) for x in v.ravel().tolist()))
    if isinstance(v, (float, np.floating)):
        return "%s:%s" % (type(v).__name__, SIG % float(v))
    if isinstance(v, (list, tuple)):
        return type(v).__name__ + "(" + ",".join(fmt(x) for x in v) + ")"
    return "%s:%r" % (type(v).__name__, v)


SIG = "%.17g"


def rec(label, fn):
    with warnings.catch_warnings(record=True) as w:
        warnings.simplefilter("always")
        try:
            r = fmt(fn())
        except Exception as e:  # noqa: BLE001
            r = "EXC %s: %s" % (type(e).__name__, e)
    cats = sorted({x.category.__name__ for x in w})
    out.append("%s -> %s | warn=%s" % (label, r, cats))


# ---------------- Bounds ----------------
bound_cases = [
    ((0, 1), (2, 3)),
    ((1, 2, 3), (0, 1)),
    ((1, 2), (1,)),
    ((1, 2, 3), (1,)),
    ((1, 0), (0, 1)),
    ((0, 1), (20, 10)),
    ((1, 0), (20, 10)),
    ((1, 1), (0, 1)),
    ((0, 1), (5, 5)),
    ((0.0, np.inf), (1e-10, np.inf)),
    ([0, 10], [1, 2]),
    (np.array([0.0, 4.0]), np.array([1.0, 9.0])),
    ((), (0, 1)),
    ((0, 1), ()),
    (5, (0, 1)),
    ((0, 1), None),
    (("a", "b"), (0, 1)),
    ((0, "b"), (0, 1)),
    ((np.nan, 1.0), (0, 1)),
    ((0, 1), (np.nan, np.nan)),
    ((-5.5, -1.25), (1e-3, 1e3)),
    (np.array([4.0, 0.0]), (0, 1)),
    ((0, 1), np.array([np.float64(2.0), np.float64(2.0)])),
    ((np.float64(3.0), np.float64(1.0)), (1.5, 0.5)),
    ("ab", "cd"),
    ("ba", "cd"),
    ({0: 1, 1: 2}, (0, 1)),
    ((0, 1), {0: 5, 1: 2}),
]
for M, tau in bound_cases:
    rec("Bounds(%r,%r)" % (M, tau), lambda: repr(Bounds(M=M, tau=tau)))
    rec("Bounds(%r,%r).fit_bounds" % (M, tau), lambda: Bounds(M, tau).fit_bounds())
rec("Bounds(iter)", lambda: repr(Bounds(iter([0, 1]), (0, 1)))[:10])
rec("Bounds()", lambda: Bounds())
rec("Bounds(M only)", lambda: Bounds(M=(0, 1)))
rec("Bounds eq", lambda: Bounds((0, 1), (2, 3)) == Bounds((0, 1), (2, 3)))
rec("Bounds neq", lambda: Bounds((0, 1), (2, 3)) == Bounds((0, 1), (2, 4)))
rec("Bounds hash eq", lambda: hash(Bounds((0, 1), (2, 3))) == hash(Bounds((0, 1), (2, 3))))
rec("Bounds frozen", lambda: setattr(Bounds((0, 1), (2, 3)), "M", (0, 2)))
rec("Bounds fields", lambda: [(f.name, f.type) for f in dataclasses.fields(Bounds)])
rec("default bounds", lambda: repr(fmod._default_bounds))
rec("default fit_bounds", lambda: fmod._default_bounds.fit_bounds())

b = Bounds(M=(10.0, 100.0), tau=(1.0, 50.0))
guesses = [
    [5.0], [10.0], [50.0], [100.0], [150.0],
    [5.0, 0.5], [5.0, 1.0], [5.0, 20.0], [5.0, 50.0], [5.0, 80.0],
    [50.0, 0.5], [150.0, 80.0], [150, 0], [10, 1], [100, 50],
    [np.float64(3.0), np.float64(99.0)], [np.nan, np.nan],
    [1.0, 2.0, 3.0], [], ["x"], [None, 1.0],
]
for g in guesses:
    def run(g=g):
        g2 = list(g)
        r = b.regularize_initial_guess(g2)
        return [r, r is g2]
    rec("regularize(%r)" % (g,), run)
rec("regularize tuple", lambda: b.regularize_initial_guess((5.0, 0.5)))
rec("regularize array", lambda: b.regularize_initial_guess(np.array([150.0, 80.0])))
rec("regularize default", lambda: fmod._default_bounds.regularize_initial_guess([-1.0, 0.0]))
rec("regularize default2", lambda: fmod._default_bounds.regularize_initial_guess([3.0, 4.0]))
bi = Bounds(M=(0, 10), tau=(1, 4))
rec("regularize int bounds", lambda: bi.regularize_initial_guess([11, 5]))
rec("regularize int bounds lo", lambda: bi.regularize_initial_guess([-1, 0]))


# ---------------- curves ----------------
def rf_analytic(ts):
    ts = np.asarray(ts, dtype=float)
    return 1.0 - np.exp(-np.sqrt(np.abs(ts)))


_t = np.concatenate([[0.0], np.logspace(-6, 4, 400)])
_rf = 1.0 - np.exp(-np.sqrt(_t) * 1.3) * (1 + 0.1 * np.tanh(_t))
rf_interp = interp1d(_t, _rf, bounds_error=False, fill_value=(0.0, _rf[-1]))
rf_strict = interp1d(_t, _rf)  # raises outside range

curves = {"analytic": rf_analytic, "interp": rf_interp, "strict": rf_strict, "sqrt": np.sqrt,
          "bad": lambda ts: (_ for _ in ()).throw(KeyError("boom")), "notcallable": 3.0}

times = {
    "lin": np.linspace(0.5, 30.0, 40),
    "log": np.logspace(-2, 2, 25),
    "int": np.arange(1, 20),
    "f32": np.linspace(1, 5, 7, dtype=np.float32),
    "zero": np.array([0.0, 1.0, 2.0]),
    "neg": np.array([-1.0, 1.0]),
    "empty": np.array([]),
    "2d": np.arange(1.0, 7.0).reshape(2, 3),
    "scalar": 3.5,
    "npscalar": np.float64(2.25),
    "list": [1.0, 2.0, 3.0],
    "nan": np.array([1.0, np.nan, 3.0]),
    "inf": np.array([1.0, np.inf]),
    "str": "abc",
    "none": None,
}

# ------------- ForecasterOnePhase construction -------------
rec("Forecaster()", lambda: ForecasterOnePhase())
rec("Forecaster fields", lambda: [(f.name, f.type, f.default is fmod._default_bounds)
                                  for f in dataclasses.fields(ForecasterOnePhase)])
rec("Forecaster repr", lambda: repr(ForecasterOnePhase(np.sqrt, b)))
rec("Forecaster eq", lambda: ForecasterOnePhase(np.sqrt, b) == ForecasterOnePhase(np.sqrt, b))
rec("Forecaster neq", lambda: ForecasterOnePhase(np.sqrt, b) == ForecasterOnePhase(np.sqrt))
rec("Forecaster default bounds is shared", lambda: ForecasterOnePhase(np.sqrt).bounds is fmod._default_bounds)
rec("Forecaster hashable", lambda: hash(ForecasterOnePhase(np.sqrt)))
rec("Forecaster vars", lambda: sorted(vars(ForecasterOnePhase(np.sqrt, b))))
rec("Forecaster bad kw", lambda: ForecasterOnePhase(np.sqrt, limits=b))
rec("names", lambda: [ForecasterOnePhase.forecast_cum.__name__, ForecasterOnePhase.fit.__name__,
                      ForecasterOnePhase.forecast_cum.__qualname__, ForecasterOnePhase.fit.__qualname__,
                      ForecasterOnePhase.fit.__doc__[:30], ForecasterOnePhase.forecast_cum.__doc__[:30],
                      ForecasterOnePhase.__doc__[:30], Bounds.__doc__[:30]])

# ------------- forecast_cum (explicit M, tau) -------------
for cn, c in curves.items():
    f = ForecasterOnePhase(c)
    for tn, t in times.items():
        for M, tau in [(100.0, 10.0), (1, 3), (0.0, 1.0), (50.0, 0.0), (-2.0, -4.0),
                       (np.float64(7.5), np.float64(0.3)), (np.nan, 2.0), (3.0, np.inf)]:
            rec("fc[%s,%s,M=%r,tau=%r]" % (cn, tn, M, tau),
                lambda: f.forecast_cum(t, M, tau))
    rec("fc kw[%s]" % cn, lambda: f.forecast_cum(time_on_production=times["lin"], tau=4.0, M=9.0))
    rec("fc kw2[%s]" % cn, lambda: f.forecast_cum(times["lin"], tau=4.0, M=9.0))
    rec("fc unfitted[%s]" % cn, lambda: f.forecast_cum(times["lin"]))
    rec("fc unfitted M[%s]" % cn, lambda: f.forecast_cum(times["lin"], M=3.0))
    rec("fc unfitted tau[%s]" % cn, lambda: f.forecast_cum(times["lin"], tau=3.0))
    rec("fc strM[%s]" % cn, lambda: f.forecast_cum(times["lin"], "a", 2.0))
    rec("fc strtau[%s]" % cn, lambda: f.forecast_cum(times["lin"], 2.0, "a"))
    rec("fc M0 tau0[%s]" % cn, lambda: f.forecast_cum(times["lin"], 0, 0))
    rec("fc noargs[%s]" % cn, lambda: f.forecast_cum())
    rec("fc extra[%s]" % cn, lambda: f.forecast_cum(times["lin"], 1.0, 2.0, 3.0))
    rec("fc badkw[%s]" % cn, lambda: f.forecast_cum(times["lin"], m=1.0))
    rec("fc dupkw[%s]" % cn, lambda: f.forecast_cum(times["lin"], 1.0, M=1.0))
    rec("private[%s]" % cn, lambda: fmod._forecast_cum_onephase(c, times["lin"], 2.0, 8.0))

# ------------- fit -------------
rng = np.random.default_rng(12345)


def make_data(curve, t, M, tau, noise):
    cum = M * curve(np.asarray(t, dtype=float) / tau)
    if noise:
        cum = cum * (1 + noise * rng.standard_normal(len(cum)))
    return cum


fit_bounds = {
    "default": None,
    "tight": Bounds(M=(10.0, 100.0), tau=(1.0, 50.0)),
    "lowM": Bounds(M=(0.0, 5.0), tau=(1e-3, 1e3)),
    "highM": Bounds(M=(1e4, 1e6), tau=(500.0, 1e4)),
    "int": Bounds(M=(0, 1000), tau=(1, 1000)),
}
datasets = {}
for tn in ["lin", "log", "int"]:
    t = times[tn]
    datasets[tn + "_clean"] = (t, make_data(rf_analytic, t, 60.0, 12.0, 0))
    datasets[tn + "_noisy"] = (t, make_data(rf_analytic, t, 60.0, 12.0, 0.03))
datasets["listdata"] = ([1.0, 2.0, 4.0, 8.0, 16.0], [3.0, 4.1, 5.6, 7.5, 9.9])
datasets["short"] = (np.array([1.0]), np.array([2.0]))
datasets["two"] = (np.array([1.0, 2.0]), np.array([2.0, 2.5]))
datasets["empty"] = (np.array([]), np.array([]))
datasets["mismatch"] = (np.array([1.0, 2.0, 3.0]), np.array([2.0, 2.5]))
datasets["nan"] = (np.array([1.0, 2.0, 3.0]), np.array([2.0, np.nan, 3.0]))
datasets["zeros"] = (np.array([1.0, 2.0, 3.0]), np.zeros(3))
datasets["negcum"] = (np.array([1.0, 2.0, 3.0]), np.array([-1.0, -2.0, -3.0]))
datasets["scalar"] = (1.0, 2.0)
datasets["none"] = (None, None)

for cn in ["analytic", "interp", "strict", "bad", "notcallable"]:
    c = curves[cn]
    for bn, bd in fit_bounds.items():
        for dn, (t, cum) in datasets.items():
            for tau in [None, 12.0, 3, 0.0, -1.0, np.float64(40.0)]:
                def run(c=c, bd=bd, t=t, cum=cum, tau=tau):
                    f = ForecasterOnePhase(c) if bd is None else ForecasterOnePhase(c, bd)
                    t0 = copy.deepcopy(t)
                    c0 = copy.deepcopy(cum)
                    res = f.fit(t, cum, tau)
                    res2 = [res, f.M_, f.tau_, type(f.M_).__name__, type(f.tau_).__name__,
                            f.time_on_production is t, f.cum_production is cum,
                            np.array_equal(np.asarray(t0), np.asarray(t), equal_nan=True),
                            np.array_equal(np.asarray(c0), np.asarray(cum), equal_nan=True),
                            sorted(vars(f)),
                            f.forecast_cum(times["lin"]),
                            f.forecast_cum(times["log"], tau=5.0),
                            f.forecast_cum(times["int"], M=5.0),
                            f.forecast_cum(2.0)]
                    # refit with other mode on same instance
                    f.fit(t, cum, tau=None if tau is not None else 7.0)
                    res2 += [f.M_, f.tau_]
                    return res2
                rec("fit[%s,%s,%s,tau=%r]" % (cn, bn, dn, tau), run)

f = ForecasterOnePhase(rf_analytic)
t, cum = datasets["lin_noisy"]
rec("fit kw", lambda: [f.fit(time_on_production=t, cum_production=cum, tau=None), f.M_, f.tau_])
rec("fit kw2", lambda: [f.fit(cum_production=cum, time_on_production=t), f.M_, f.tau_])
rec("fit kw tau", lambda: [f.fit(t, cum_production=cum, tau=9.0), f.M_, f.tau_])
rec("fit noargs", lambda: f.fit())
rec("fit onearg", lambda: f.fit(t))
rec("fit extra", lambda: f.fit(t, cum, 1.0, 2.0))
rec("fit badkw", lambda: f.fit(t, cum, Tau=1.0))
rec("fit dupkw", lambda: f.fit(t, cum, cum_production=cum))
rec("state after failures", lambda: [f.M_, f.tau_])
# failed fit must not change state
rec("fit fail keeps state", lambda: [f.fit(datasets["mismatch"][0], datasets["mismatch"][1])])
rec("state after failed fit", lambda: [f.M_, f.tau_, f.time_on_production is t, f.cum_production is cum])
# shared default bounds are not mutated
rec("default bounds after", lambda: repr(fmod._default_bounds))
rec("two instances independent", lambda: (lambda a, c_: [a.fit(t, cum), c_.fit(t, cum, 4.0), a.M_, a.tau_, c_.M_, c_.tau_])(
    ForecasterOnePhase(rf_analytic), ForecasterOnePhase(rf_interp)))

with open(sys.argv[1], "w") as fh:
    fh.write("\n".join(out) + "\n")
