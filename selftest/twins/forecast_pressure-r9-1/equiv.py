"""Equivalence harness for bluebonnet.forecast.forecast_pressure.

Run as:  PYTHONPATH=<tree>/src /venv/bin/python equiv.py <outfile>
Writes every observable result (full-precision reprs, or the exception type and
message) of _obj_function, fit_production_pressure and plot_production_comparison
for a broad set of inputs.
"""

from __future__ import annotations

import hashlib
import io
import os
import sys
import warnings

if os.environ.get("PYTHONHASHSEED") != "0":  # set-ordered error messages must be reproducible
    os.environ["PYTHONHASHSEED"] = "0"
    os.execv(sys.executable, [sys.executable, *sys.argv])

import matplotlib

matplotlib.use("Agg")
import matplotlib.pyplot as plt
import numpy as np
import pandas as pd
from lmfit import Parameters

import bluebonnet.plotting  # noqa: F401  (registers the "squareroot" scale)
from bluebonnet.flow import FlowProperties, SinglePhaseReservoir
from bluebonnet.forecast import forecast_pressure as fp
from bluebonnet.forecast import fit_production_pressure, plot_production_comparison

warnings.simplefilter("ignore")
DATA = os.environ.get("BB_DATA", "/tmp/twin9_forecast_pressure/tests/data")
SIG = None  # set to an int to round floats to that many significant digits

out: list[str] = []


def fmt(x):
    if isinstance(x, (float, np.floating)):
        if SIG is not None and np.isfinite(x):
            return f"{type(x).__name__}:{float(x):.{SIG - 1}e}"
        return f"{type(x).__name__}:{float(x)!r}"
    if isinstance(x, (bool, np.bool_, int, np.integer, str, type(None))):
        return f"{type(x).__name__}:{x!r}"
    if isinstance(x, pd.Series):
        return "Series[" + fmt(x.to_numpy()) + " idx=" + repr(list(x.index)) + "]"
    if isinstance(x, np.ndarray):
        flat = ",".join(fmt(v).split(":", 1)[1] for v in x.ravel().tolist()) if x.dtype != object else repr(x.tolist())
        return f"ndarray{x.shape}{x.dtype}[{flat}]"
    if isinstance(x, (tuple, list)):
        return type(x).__name__ + "(" + ";".join(fmt(v) for v in x) + ")"
    return f"{type(x).__name__}:{x!r}"


def record(label, func):
    try:
        res = func()
    except BaseException as e:  # noqa: BLE001
        out.append(f"{label} -> RAISES {type(e).__name__}: {str(e)[:200]!r}")
    else:
        out.append(f"{label} -> {res}")


pvt_table = pd.read_csv(os.path.join(DATA, "pvt_gas_HAYNESVILLE SHALE_20.csv"))
pvt_other = pvt_table.iloc[::3].reset_index(drop=True)  # coarser table
PI = 5000.0
PF = 500.0


def make_prod(nt=40, tau_in=180.0, t_end=6.0, nx=40):
    time_scaled = np.linspace(0, np.sqrt(t_end), nt) ** 2
    pressure_v_time = np.full(nt, PF)
    pressure_v_time[nt // 4 : nt // 2] /= 2.0
    pressure_v_time[nt // 2 :] /= 4.0
    flow_props = FlowProperties(pvt_table, PI)
    reservoir = SinglePhaseReservoir(nx, PF, PI, flow_props)
    reservoir.simulate(time_scaled, pressure_v_time)
    rf = reservoir.recovery_factor()
    return pd.DataFrame({"Days": time_scaled * tau_in, "Gas": rf, "Pressure": pressure_v_time})


def make_params(m=1300.0, tau=420.0, p_initial=PI, order=("M", "tau", "p_initial"), skip=()):
    vals = {"M": m, "tau": tau, "p_initial": p_initial}
    params = Parameters()
    for name in order:
        if name not in skip:
            params.add(name, vals[name])
    return params


def describe_result(result):
    parts = [type(result).__name__]
    for name, par in result.params.items():
        parts.append(
            f"{name}=({fmt(par.value)},{fmt(par.min)},{fmt(par.max)},{par.vary},{fmt(par.init_value)})"
        )
    parts.append(f"nfev={result.nfev}")
    parts.append(f"success={result.success}")
    parts.append(f"method={result.method}")
    parts.append(f"residual={fmt(np.asarray(result.residual))}")
    parts.append(f"chisqr={fmt(result.chisqr)}")
    parts.append(f"ndata={result.ndata}")
    parts.append(f"init_vals={fmt(list(result.init_vals))}")
    parts.append(f"var_names={result.var_names}")
    return " | ".join(parts)


def describe_fig(ret):
    fig, axes = ret
    parts = [type(ret).__name__, type(axes).__name__, str(len(axes)), fmt(tuple(fig.get_size_inches()))]
    assert fig.axes == list(axes)
    for ax in axes:
        parts.append(f"xlabel={ax.get_xlabel()!r} ylabel={ax.get_ylabel()!r}")
        parts.append(f"xscale={ax.get_xscale()} yscale={ax.get_yscale()}")
        parts.append(f"xlim={fmt(tuple(ax.get_xlim()))} ylim={fmt(tuple(ax.get_ylim()))}")
        parts.append(f"autoscale={ax.get_autoscalex_on()},{ax.get_autoscaley_on()}")
        for line in ax.get_lines():
            parts.append(
                f"line label={line.get_label()!r} ls={line.get_linestyle()} color={line.get_color()}"
                f" x={fmt(np.asarray(line.get_xdata(), dtype=float))} y={fmt(np.asarray(line.get_ydata(), dtype=float))}"
            )
        leg = ax.get_legend()
        parts.append("legend=" + repr([t.get_text() for t in leg.get_texts()] if leg else None))
        parts.append(f"title={ax.get_title()!r}")
    buf = io.BytesIO()
    fig.savefig(buf, format="png", dpi=60, metadata={"Software": None})
    parts.append("png=" + hashlib.sha256(buf.getvalue()).hexdigest())
    plt.close(fig)
    return " | ".join(parts)


# ---------------------------------------------------------------- inputs
prod = make_prod(40)
prod_small = make_prod(12)

prod_dirty = prod.copy()
prod_dirty.loc[[3, 7, 20], "Gas"] = 0.0
prod_dirty.loc[[5, 7, 30], "Pressure"] = np.nan
prod_dirty.loc[11, "Gas"] = -0.25

prod_extra = prod.copy()
prod_extra.insert(0, "Well", "abc")
prod_extra["Oil"] = 1.0
prod_extra = prod_extra[["Pressure", "Well", "Gas", "Oil", "Days"]]

prod_int = prod.copy()
prod_int["Gas"] = np.arange(1, len(prod) + 1)  # integer production
prod_int["Pressure"] = prod_int["Pressure"].astype(int)

prod_int_zero = prod_int.copy()
prod_int_zero.loc[[0, 4], "Gas"] = 0

prod_offset_index = prod.copy()
prod_offset_index.index = np.arange(10, 10 + len(prod))

prod_shuffled_index = prod.copy()
prod_shuffled_index.index = np.arange(len(prod))[::-1]

prod_str_index = prod.copy()
prod_str_index.index = [f"d{i}" for i in range(len(prod))]

prod_nullable = prod.copy()
prod_nullable["Gas"] = prod_nullable["Gas"].astype("Float64")
prod_nullable["Pressure"] = prod_nullable["Pressure"].astype("Float64")
prod_nullable_na = prod_nullable.copy()
prod_nullable_na.loc[[2, 9], "Gas"] = pd.NA
prod_nullable_na.loc[[4, 9], "Pressure"] = pd.NA

prod_gas_nan = prod.copy()
prod_gas_nan.loc[[2, 9], "Gas"] = np.nan

prod_allzero = prod.copy()
prod_allzero["Gas"] = 0.0

prod_dup = pd.concat([prod, prod[["Gas"]]], axis=1)  # duplicated "Gas" column

prod_len = {n: prod.iloc[:n].copy() for n in (0, 1, 2, 3)}
prod_len_tail = {n: prod.iloc[5 : 5 + n].copy() for n in (1, 2, 3)}

prod_highp = prod.copy()
prod_highp.loc[10, "Pressure"] = 20000.0  # outside the pvt table / above pressure_imax

prod_dict = {k: prod[k].to_numpy() for k in prod.columns}

FIT_INPUTS = {
    "base": prod,
    "small": prod_small,
    "dirty": prod_dirty,
    "extra": prod_extra,
    "int": prod_int,
    "int_zero": prod_int_zero,
    "offset_index": prod_offset_index,
    "shuffled_index": prod_shuffled_index,
    "str_index": prod_str_index,
    "nullable": prod_nullable,
    "nullable_na": prod_nullable_na,
    "gas_nan": prod_gas_nan,
    "allzero": prod_allzero,
    "dup": prod_dup,
    "len0": prod_len[0],
    "len1": prod_len[1],
    "len2": prod_len[2],
    "len3": prod_len[3],
    "tail1": prod_len_tail[1],
    "tail2": prod_len_tail[2],
    "tail3": prod_len_tail[3],
    "highp": prod_highp,
    "no_gas": prod.drop(columns="Gas"),
    "no_days": prod.drop(columns="Days"),
    "no_pressure": prod.drop(columns="Pressure"),
    "lower_names": prod.rename(columns=str.lower),
    "dict": prod_dict,
    "ndarray": prod.to_numpy(),
    "none": None,
}

# ---------------------------------------------------------------- _obj_function
days = np.arange(len(prod))
cum = np.cumsum(prod["Gas"].to_numpy())
press = prod["Pressure"].to_numpy()
for label, params in {
    "std": make_params(),
    "reordered": make_params(order=("p_initial", "tau", "M")),
    "other": make_params(m=2.5, tau=33.0, p_initial=7000.0),
    "int_values": make_params(m=3, tau=50, p_initial=6000),
    "no_tau": make_params(skip=("tau",)),
    "no_M": make_params(skip=("M",)),
    "no_p": make_params(skip=("p_initial",)),
    "no_tau_M": make_params(skip=("tau", "M")),
    "no_M_p": make_params(skip=("M", "p_initial")),
    "empty": Parameters(),
    "p_too_high": make_params(p_initial=50000.0),
    "p_below_frac": make_params(p_initial=300.0),
    "tau_zero": make_params(tau=0.0),
    "tau_neg": make_params(tau=-5.0),
    "plain_dict": {"tau": 1.0, "M": 2.0, "p_initial": 3.0},
    "none": None,
}.items():
    record(
        f"obj[{label}]",
        lambda params=params: fmt(fp._obj_function(params, days, cum, pvt_table, press)),
    )
record("obj[short_pressure]", lambda: fmt(fp._obj_function(make_params(), days, cum, pvt_table, press[:-1])))
record("obj[short_prod]", lambda: fmt(fp._obj_function(make_params(), days, cum[:-1], pvt_table, press)))
record("obj[len1]", lambda: fmt(fp._obj_function(make_params(), days[:1], cum[:1], pvt_table, press[:1])))
record("obj[len2]", lambda: fmt(fp._obj_function(make_params(), days[:2], cum[:2], pvt_table, press[:2])))
record("obj[len0]", lambda: fmt(fp._obj_function(make_params(), days[:0], cum[:0], pvt_table, press[:0])))
record("obj[float_days]", lambda: fmt(fp._obj_function(make_params(), prod["Days"].to_numpy(), cum, pvt_table, press)))
record("obj[series_days]", lambda: fmt(fp._obj_function(make_params(), prod["Days"], cum, pvt_table, press)))
record("obj[list_pressure]", lambda: fmt(fp._obj_function(make_params(), days, cum, pvt_table, list(press))))
record("obj[scalar_prod]", lambda: fmt(fp._obj_function(make_params(), days, 1.5, pvt_table, press)))
record("obj[other_pvt]", lambda: fmt(fp._obj_function(make_params(p_initial=4000.0), days, cum, pvt_other, press)))
record("obj[bad_pvt]", lambda: fmt(fp._obj_function(make_params(), days, cum, pvt_table[["pressure"]], press)))

# ---------------------------------------------------------------- fit_production_pressure
for label, data in FIT_INPUTS.items():
    record(
        f"fit[{label}]",
        lambda data=data: describe_result(fit_production_pressure(data, pvt_table, PI, n_iter=4)),
    )
    record(
        f"fit_nofilter[{label}]",
        lambda data=data: describe_result(
            fit_production_pressure(data, pvt_table, PI, n_iter=3, filter_zero_prod_days=False)
        ),
    )
for size in (1, 2, 3, 7, 100, 0, -1, 2.5, "3"):
    record(
        f"fit_window[{size!r}]",
        lambda size=size: describe_result(
            fit_production_pressure(prod_dirty, pvt_table, PI, filter_window_size=size, n_iter=3)
        ),
    )
record(
    "fit[kwargs]",
    lambda: describe_result(
        fit_production_pressure(
            prod_small, pvt_table, 4000.0, None, 9000.0, 5.0e4, True, 6, None
        )
    ),
)
record(
    "fit[keywords]",
    lambda: describe_result(
        fit_production_pressure(
            prod_data=prod_small,
            pvt_table=pvt_table,
            pressure_initial=4500.0,
            filter_window_size=2,
            pressure_imax=12000,
            inplace_max=20,
            filter_zero_prod_days=False,
            n_iter=5,
            params=None,
        )
    ),
)
record(
    "fit[given_params]",
    lambda: describe_result(fit_production_pressure(prod, pvt_table, PI, n_iter=5, params=make_params())),
)
record(
    "fit[given_params_missing]",
    lambda: describe_result(
        fit_production_pressure(prod, pvt_table, PI, n_iter=5, params=make_params(skip=("tau",)))
    ),
)
record(
    "fit[given_params_empty_data]",
    lambda: describe_result(fit_production_pressure(prod_len[0], pvt_table, PI, n_iter=5, params=make_params())),
)
record(
    "fit[given_params_len1]",
    lambda: describe_result(fit_production_pressure(prod_len[1], pvt_table, PI, n_iter=5, params=make_params())),
)
record("fit[n_iter0]", lambda: describe_result(fit_production_pressure(prod_small, pvt_table, PI, n_iter=0)))
record("fit[n_iter1]", lambda: describe_result(fit_production_pressure(prod_small, pvt_table, PI, n_iter=1)))
record("fit[p_init_low]", lambda: describe_result(fit_production_pressure(prod_small, pvt_table, 100.0, n_iter=3)))
record("fit[p_init_high]", lambda: describe_result(fit_production_pressure(prod_small, pvt_table, 2.0e4, n_iter=3)))
record("fit[imax_low]", lambda: describe_result(fit_production_pressure(prod_small, pvt_table, PI, pressure_imax=400.0, n_iter=3)))
record("fit[imax_eq]", lambda: describe_result(fit_production_pressure(prod_small, pvt_table, PI, pressure_imax=500.0, n_iter=3)))
record("fit[inplace_small]", lambda: describe_result(fit_production_pressure(prod_small, pvt_table, PI, inplace_max=0.01, n_iter=3)))
record("fit[other_pvt]", lambda: describe_result(fit_production_pressure(prod_small, pvt_other, 4000.0, pressure_imax=9000.0, n_iter=3)))
record("fit[bad_pvt]", lambda: describe_result(fit_production_pressure(prod_small, pvt_table[["pressure"]], PI, n_iter=3)))
# the caller's frame must not be modified
snapshot = prod_dirty.copy()
fit_production_pressure(prod_dirty, pvt_table, PI, filter_window_size=3, n_iter=2)
record("fit[input_untouched]", lambda: str(snapshot.equals(prod_dirty) and list(snapshot.columns) == list(prod_dirty.columns)))

# ---------------------------------------------------------------- plot_production_comparison
for label, data in FIT_INPUTS.items():
    record(
        f"plot[{label}]",
        lambda data=data: describe_fig(plot_production_comparison(data, pvt_table, make_params())),
    )
    plt.close("all")
    record(
        f"plot_nofilter[{label}]",
        lambda data=data: describe_fig(
            plot_production_comparison(data, pvt_table, make_params(), filter_zero_prod_days=False)
        ),
    )
    plt.close("all")
for size in (1, 3, 100, 0, 2.5):
    record(
        f"plot_window[{size!r}]",
        lambda size=size: describe_fig(
            plot_production_comparison(
                prod_dirty, pvt_table, make_params(), filter_window_size=size, well_name=f"W-{size}"
            )
        ),
    )
    plt.close("all")
for label, params in {
    "reordered": make_params(order=("p_initial", "tau", "M")),
    "other": make_params(m=2.5, tau=33.0, p_initial=7000.0),
    "int_values": make_params(m=3, tau=50, p_initial=6000),
    "no_tau": make_params(skip=("tau",)),
    "no_M": make_params(skip=("M",)),
    "no_p": make_params(skip=("p_initial",)),
    "no_tau_M": make_params(skip=("tau", "M")),
    "no_tau_p": make_params(skip=("tau", "p_initial")),
    "empty": Parameters(),
    "tau_zero": make_params(tau=0.0),
    "M_zero": make_params(m=0.0),
    "p_too_high": make_params(p_initial=50000.0),
    "none": None,
}.items():
    record(
        f"plot_params[{label}]",
        lambda params=params: describe_fig(plot_production_comparison(prod_small, pvt_table, params)),
    )
    plt.close("all")
record(
    "plot[positional]",
    lambda: describe_fig(plot_production_comparison(prod_small, pvt_table, make_params(), 2, False, "Positional")),
)
record(
    "plot[fit_result_params]",
    lambda: describe_fig(
        plot_production_comparison(
            prod_small,
            pvt_table,
            fit_production_pressure(prod_small, pvt_table, PI, n_iter=3).params,
            well_name="fitted",
        )
    ),
)
record("plot[other_pvt]", lambda: describe_fig(plot_production_comparison(prod_small, pvt_other, make_params(p_initial=4000.0))))
plt.close("all")
snapshot = prod_dirty.copy()
plot_production_comparison(prod_dirty, pvt_table, make_params(), filter_window_size=3)
plt.close("all")
record("plot[input_untouched]", lambda: str(snapshot.equals(prod_dirty)))

# ---------------------------------------------------------------- module surface
record("module[callables]", lambda: repr(sorted(n for n in ("_obj_function", "fit_production_pressure", "plot_production_comparison") if callable(getattr(fp, n)))))
import inspect

for name in ("_obj_function", "fit_production_pressure", "plot_production_comparison"):
    record(f"signature[{name}]", lambda name=name: str(inspect.signature(getattr(fp, name))))

with open(sys.argv[1], "w") as fh:
    fh.write("\n".join(out) + "\n")
