"""Equivalence probe for twin2: McCain polynomials through one coefficient-table helper."""
import os
import sys
import warnings
from fractions import Fraction

import numpy as np
import pandas as pd

warnings.simplefilter("ignore")
from bluebonnet.fluids import water
from bluebonnet.fluids.fluid import Fluid

DATA = os.environ.get("BB_DATA", "/tmp/twin11_waterfluid/tests/data")
out = []


def show(x):
    if isinstance(x, (float, np.floating)):
        return type(x).__name__ + repr(float(x))
    if isinstance(x, pd.Series):
        return "Series" + show(x.to_numpy()) + repr(list(x.index[:3]))
    if isinstance(x, np.ndarray):
        return f"nd{x.shape}{x.dtype}[" + ",".join(show(v) for v in x.ravel().tolist()) + "]"
    if isinstance(x, (list, tuple)):
        return type(x).__name__ + "[" + ",".join(show(v) for v in x) + "]"
    return type(x).__name__ + ":" + repr(x)


def probe(label, f, *a, **k):
    try:
        r = show(f(*a, **k))
    except BaseException as e:  # noqa: BLE001
        r = "EXC " + type(e).__name__
    out.append(f"{label} -> {r}")


pvt = pd.read_csv(os.path.join(DATA, "pvt_water.csv"))
temps = [60, 60.0, 200.5, 400, 0.0, 0, -40.0, np.float64(250.0), np.int64(150), np.float32(180.0),
         float("nan"), float("inf"), 1e200, np.array([100.0, 200.0, 300.0]), np.array([100, 200, 300]),
         None, "200", [200.0], 2 + 1j]
press = [14.7, 3000, 3000.0, 0, 0.0, -100.0, 1e5, 1e160, 1e200, -1e200, float("nan"), float("inf"),
         float("-inf"), np.int64(5000), np.float32(2500.0), np.float64(1e200), np.array([]), np.array([14.7]),
         np.linspace(14.7, 12000.0, 9), np.arange(10, 10000, 1997), np.array([[100.0, 2000.0], [3000.0, 9000.0]]),
         np.array([100.0, 2000.0, 4000.0]), np.array([1e200, -np.inf, np.inf, np.nan]),
         pd.Series([100.0, 2500.0, 8000.0], index=[3, 4, 5]), pvt["P"].to_numpy()[::97],
         [100.0, 200.0], (100.0, 200.0), None, "3000", 3 + 2j, np.array([1, 2, 3], dtype=object), True,
         Fraction(3000, 7)]
sal = [0, 0.0, 1, 5.0, 15, 26.0, 30.5, -1.0, 100, 1e80, 1e100, 1e200, -1e200, float("nan"), float("inf"),
       float("-inf"), np.float64(12.5), np.float32(12.5), np.int64(12), np.int32(70000), np.int8(9), True,
       np.array([0.0, 10.0, 20.0]), np.array([0, 10, 20]), np.array([10, 20, 30], dtype=np.int8),
       np.array([[1.0], [2.0]]), pd.Series([1.0, 2.0, 3.0], index=[3, 4, 5]), None, "x", [1.0], (1.0,),
       Fraction(31, 3), 1 + 1j, np.array([1, 2, 3], dtype=object)]

for k, s in enumerate(sal):
    for i, t in enumerate(temps):
        for j, p in enumerate(press):
            if i < 4 or j < 4 or k < 4:
                probe(f"visc T#{i} p#{j} s#{k}", water.viscosity_water_McCain, t, p, s)
            if (i < 3 or j < 3 or k < 3) :
                probe(f"density T#{i} p#{j} s#{k}", water.density_water_McCain, t, p, s)
probe("visc kw", water.viscosity_water_McCain, salinity=3.0, pressure=1000.0, temperature=150.0)
probe("visc noargs", water.viscosity_water_McCain)
probe("visc two", water.viscosity_water_McCain, 100.0, 100.0)
probe("dens kw", water.density_water_McCain, salinity=3.0, pressure=1000.0, temperature=150.0)
probe("dens two", water.density_water_McCain, 100.0, 100.0)
probe("doc example", water.viscosity_water_McCain, 400, 3000, 15)

for k, s in enumerate(sal):
    for i, t in enumerate(temps):
        fl = Fluid(t, 35.0, 0.7, 500.0, s, 0.1)
        for j, p in enumerate(press):
            if i < 3 or k < 3:
                probe(f"Fluid.water_viscosity T#{i} p#{j} s#{k}", fl.water_viscosity, p)
probe("Fluid default salinity", Fluid(200.0, 35.0, 0.7, 500.0).water_viscosity, np.array([100.0, 5000.0]))
probe("public names", lambda: sorted(n for n in dir(water) if not n.startswith("_")))

with open(sys.argv[1], "w") as fh:
    fh.write("\n".join(out) + "\n")
