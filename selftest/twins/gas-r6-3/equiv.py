"""Equivalence driver for twin3 (hoisted sub-expressions in z_factor_DAK).

Bit-identical results are expected: floats are written with float.hex.
"""

from __future__ import annotations

import itertools
import sys
import warnings

import numpy as np

warnings.simplefilter("ignore")

from bluebonnet.fluids.fluid import Fluid, build_pvt_gas  # noqa: E402
from bluebonnet.fluids.gas import (  # noqa: E402
    b_factor_DAK,
    compressibility_DAK,
    density_DAK,
    pseudopressure_Hussainy,
    viscosity_Sutton,
    z_factor_DAK,
)


def fmt(x):
    if isinstance(x, tuple):
        return "(" + ", ".join(fmt(v) for v in x) + ")"
    if isinstance(x, np.ndarray):
        return f"array{x.shape}{x.dtype}[" + ", ".join(fmt(v) for v in x.ravel()) + "]"
    if isinstance(x, (float, np.floating)):
        return f"{type(x).__name__}:{float(x).hex()}"
    return f"{type(x).__name__}:{x!r}"


def call(f, *args, **kwargs):
    try:
        return fmt(f(*args, **kwargs))
    except Exception as e:  # noqa: BLE001
        return f"EXC:{type(e).__name__}:{e}"


def main(out):
    lines = []
    temps = [-50.0, 0, 60, 60.0, 100.0, 212.5, 400, 400.0, 650.0, 1200.0, np.float64(300.0),
             np.float32(250.0), np.array(180.0)]
    pressures = [1e-3, 1.0, 14.7, 100, 104.7, 500.0, 1500.0, 3000, 5000.0, 9000.0, 15000.0, 40000.0,
                 np.float64(2500.0), np.float32(1234.5), np.array(777.0)]
    pcs = [(-102.0, 649.0), (-72.2, 653.25), (-102, 649), (-50.5, 700.0),
           (np.float64(-90.0), np.float64(660.0)), (np.float32(-80.0), np.float32(670.0))]
    for t, p, (tpc, ppc) in itertools.product(temps, pressures, pcs):
        lines.append(f"z {t!r} {p!r} {tpc!r} {ppc!r} -> {call(z_factor_DAK, t, p, tpc, ppc)}")
    for t, p, (tpc, ppc) in itertools.product(temps[::3], pressures[::2], pcs[::2]):
        lines.append(f"b {t!r} {p!r} {tpc!r} {ppc!r} -> {call(b_factor_DAK, t, p, tpc, ppc)}")
        lines.append(f"b2 {t!r} {p!r} {tpc!r} {ppc!r} -> {call(b_factor_DAK, t, p, tpc, ppc, 70.0, 14.65)}")
        lines.append(f"rho {t!r} {p!r} {tpc!r} {ppc!r} -> {call(density_DAK, t, p, tpc, ppc, 0.7)}")
        lines.append(f"c {t!r} {p!r} {tpc!r} {ppc!r} -> {call(compressibility_DAK, t, p, tpc, ppc)}")
        lines.append(f"mu {t!r} {p!r} {tpc!r} {ppc!r} -> {call(viscosity_Sutton, t, p, tpc, ppc, 0.7)}")
    for p in (100.0, 2000.0, 14.7, 5.0):
        lines.append(f"m {p!r} -> {call(pseudopressure_Hussainy, 400.0, p, -102.0, 649.0, 0.65)}")
    # error / degenerate inputs
    bad = [
        (400.0, 0.0, -102.0, 649.0),
        (400.0, 0, -102.0, 649.0),
        (400.0, -100.0, -102.0, 649.0),
        (400.0, 100.0, -102.0, 0.0),
        (400, 100, -102, 0),
        (400.0, 100.0, -102.0, -649.0),
        (-459.67, 100.0, -102.0, 649.0),
        (400.0, 100.0, -459.67, 649.0),
        (400, 100, -459.67, 649),
        (-900.0, 100.0, -102.0, 649.0),
        (400.0, 100.0, -900.0, 649.0),
        (float("nan"), 100.0, -102.0, 649.0),
        (400.0, float("nan"), -102.0, 649.0),
        (400.0, float("inf"), -102.0, 649.0),
        (float("inf"), 100.0, -102.0, 649.0),
        (-float("inf"), 100.0, -102.0, 649.0),
        (400.0, 1e9, -102.0, 649.0),
        (400.0, 1e300, -102.0, 649.0),
        (400.0, 1e-300, -102.0, 649.0),
        (1e70, 100.0, -102.0, 649.0),
        (1e110, 100.0, -102.0, 649.0),
        (1e160, 100.0, -102.0, 649.0),
        (1e300, 100.0, -102.0, 649.0),
        (np.float64(1e160), 100.0, -102.0, 649.0),
        (400.0, 100.0, 1e160, 649.0),
        (400.0, 100.0, -102.0, 1e-300),
        (-300.0, 5000.0, -102.0, 649.0),
        (np.array([400.0]), 100.0, -102.0, 649.0),
        (np.array([400.0, 300.0]), 100.0, -102.0, 649.0),
        (400.0, np.array([100.0]), -102.0, 649.0),
        (400.0, np.array([100.0, 200.0]), -102.0, 649.0),
        (np.array([400.0, 300.0]), np.array([100.0, 200.0]), -102.0, 649.0),
        (400.0, 100.0, np.array([-102.0, -90.0]), 649.0),
        (400.0, 100.0, -102.0, np.array([649.0, 650.0])),
        ([400.0], 100.0, -102.0, 649.0),
        (400.0, [100.0], -102.0, 649.0),
        ("400", 100.0, -102.0, 649.0),
        (400.0, "100", -102.0, 649.0),
        (None, 100.0, -102.0, 649.0),
        (400.0, None, -102.0, 649.0),
        (None, None, -102.0, 649.0),
        (400.0, 100.0, None, 649.0),
        (400.0, 100.0, -102.0, None),
        (400.0, 100.0, -102.0, "649"),
        (400 + 0j, 100.0, -102.0, 649.0),
        (400.0, 100 + 0j, -102.0, 649.0),
        (True, 100.0, -102.0, 649.0),
        (400.0, True, -102.0, 649.0),
    ]
    for args in bad:
        lines.append(f"bad z {args!r} -> {call(z_factor_DAK, *args)}")
        lines.append(f"bad b {args!r} -> {call(b_factor_DAK, *args)}")
        lines.append(f"bad rho {args!r} -> {call(density_DAK, *args, 0.7)}")
    lines.append(f"nargs -> {call(z_factor_DAK, 400.0, 100.0, -102.0)}")
    lines.append(f"kw -> {call(z_factor_DAK, temperature=400.0, pressure=100.0, temperature_pseudocritical=-102.0, pressure_pseudocritical=649.0)}")
    # through Fluid and the public PVT-table builder
    fl = Fluid(400.0, 35.0, 0.65, 800.0)
    for p in (100.0, 2500.0, np.array([500.0, 1000.0])):
        lines.append(f"fluid.gas_FVF {p!r} -> {call(fl.gas_FVF, p, -102.0, 649.0)}")
        lines.append(f"fluid.gas_visc {p!r} -> {call(fl.gas_viscosity, p, -102.0, 649.0)}")
    for fluid, sg, fr in [("dry gas", 0.65, (0.03, 0.012, 0.018)), ("wet gas", 0.8, (0.05, 0.01, 0.04))]:
        try:
            pvt = build_pvt_gas(
                {"N2": fr[0], "H2S": fr[1], "CO2": fr[2], "Gas Specific Gravity": sg,
                 "Reservoir Temperature (deg F)": 250.0},
                fluid,
                maximum_pressure=2500,
            )
            for col in pvt.columns:
                lines.append(f"pvt {fluid} {sg} {col} -> {fmt(pvt[col].to_numpy())}")
        except Exception as e:  # noqa: BLE001
            lines.append(f"pvt {fluid} {sg} -> EXC:{type(e).__name__}:{e}")
    with open(out, "w") as fh:
        fh.write("\n".join(lines) + "\n")


if __name__ == "__main__":
    main(sys.argv[1])
