"""Equivalence driver: writes results of the touched functions to the file given as argv[1]."""

import os
import sys
import warnings

import numpy as np
import pandas as pd

BB_DATA = os.environ.get("BB_DATA", "/tmp/twin3_waterfluid/tests/data")
EXC_TYPE = True  # record the exception type (False: only that something was raised)
LINES = []


def fmt(value):
    if isinstance(value, pd.DataFrame):
        cols = [f"{c}:{fmt(value[c].to_numpy())}" for c in value.columns]
        return "DataFrame[" + "; ".join(cols) + "]"
    if isinstance(value, pd.Series):
        return "Series(" + fmt(value.to_numpy()) + ")"
    if isinstance(value, np.ndarray):
        flat = ",".join(fmt(v) for v in value.ravel().tolist())
        return f"ndarray<{value.dtype},{value.shape}>[{flat}]"
    if isinstance(value, np.generic):
        return f"{type(value).__name__}({value.item()!r})"
    if isinstance(value, (list, tuple)):
        return type(value).__name__ + "[" + ",".join(fmt(v) for v in value) + "]"
    return repr(value)


def record(label, func, *args, **kwargs):
    with warnings.catch_warnings(record=True) as caught:
        warnings.simplefilter("always")
        try:
            with np.errstate(all="ignore"):
                out = fmt(func(*args, **kwargs))
        except Exception as exc:  # noqa: BLE001
            out = "EXC:" + (type(exc).__name__ if EXC_TYPE else "raised")
    cats = sorted({w.category.__name__ for w in caught})
    LINES.append(f"{label} -> {out}" + (f" warnings={cats}" if cats else ""))


def finish():
    with open(sys.argv[1], "w") as fh:
        fh.write("\n".join(LINES) + "\n")
    print(f"{len(LINES)} records written")


from bluebonnet.fluids import Fluid

oil_table = pd.read_csv(os.path.join(BB_DATA, "pvt_oil.csv"))
table_pressure = oil_table.iloc[:, 0].to_numpy(dtype=float)
table_pressure = table_pressure[np.isfinite(table_pressure) & (table_pressure > 0)]

FLUIDS = {
    "black_oil": Fluid(200.0, 35.0, 0.8, 650.0),
    "brine": Fluid(temperature=250, api_gravity=30, gas_specific_gravity=0.7, solution_gor_initial=500, salinity=15, water_saturation_initial=0.2),
    "dead_oil": Fluid(150.0, 25.0, 0.65, 0.0),
    "hot_light": Fluid(400, 50, 0.6, 2000, salinity=5.0),
    "np_fields": Fluid(np.float64(180.0), np.float32(40.0), np.float64(0.75), np.int64(800)),
    "heavy": Fluid(100.0, 10.0, 1.1, 50.0),
    "negative_gor": Fluid(200.0, 35.0, 0.8, -10.0),
    "nan_temperature": Fluid(float("nan"), 35.0, 0.8, 650.0),
    "nan_gravity": Fluid(200.0, 35.0, float("nan"), 650.0),
    "none_temperature": Fluid(None, 35.0, 0.8, 650.0),
    "str_gravity": Fluid(200.0, 35.0, "0.8", 650.0),
    "array_temperature": Fluid(np.array([150.0, 250.0]), 35.0, 0.8, 650.0),
    "zero_api": Fluid(200.0, 0, 0, 0, salinity=10),
}


def pressures():
    """Build fresh inputs every time (generators are one-shot)."""
    return {
        "array": np.array([14.7, 500.0, 2000.0, 2627.2017021875276, 3000.0, 8000.0]),
        "int_array": np.array([100, 1000, 5000]),
        "float32_array": np.array([100.0, 1000.0, 5000.0], dtype=np.float32),
        "table": table_pressure[:: max(1, len(table_pressure) // 7)],
        "one": np.array([3000.0]),
        "empty": np.array([], dtype=float),
        "two_d": np.array([[500.0, 1500.0], [2500.0, 3500.0]]),
        "nan_inf": np.array([np.nan, 1000.0, np.inf]),
        "negative_zero": np.array([-100.0, 0.0, 100.0]),
        "huge": np.array([1e5, 1e7]),
        "list": [100.0, 2000.0, 4000.0],
        "int_list": [100, 2000, 4000],
        "empty_list": [],
        "tuple": (1500.0, 3500.0),
        "generator": (p for p in [300.0, 3300.0]),
        "range": range(1000, 4000, 1000),
        "series": pd.Series([250.0, 2750.0]),
        "zero_d": np.array(2000.0),
        "scalar": 3000.0,
        "scalar_int": 3000,
        "np_scalar": np.float64(1200.0),
        "none": None,
        "string": "12",
        "str_list": ["a", "b"],
        "mixed": [100.0, None],
        "dict": {100.0: 1, 200.0: 2},
    }


PSEUDOCRITICALS = [(-102.2, 648.5), (-72.2, 653.3), (np.float64(-50.0), 700), (float("nan"), 650.0), (None, 650.0), (-102.2, 0.0), (-459.67, 650.0)]

for fname, fluid in FLUIDS.items():
    for pname in pressures():
        record(f"water_FVF[{fname},{pname}]", fluid.water_FVF, pressures()[pname])
        record(f"water_viscosity[{fname},{pname}]", fluid.water_viscosity, pressures()[pname])
        record(f"oil_viscosity[{fname},{pname}]", fluid.oil_viscosity, pressures()[pname])
        record(f"oil_FVF[{fname},{pname}]", fluid.oil_FVF, pressures()[pname])
        for ic, (tpc, ppc) in enumerate(PSEUDOCRITICALS if fname in ("black_oil", "np_fields") else PSEUDOCRITICALS[:2]):
            record(f"gas_FVF[{fname},{pname},pc{ic}]", fluid.gas_FVF, pressures()[pname], tpc, ppc)
            record(f"gas_viscosity[{fname},{pname},pc{ic}]", fluid.gas_viscosity, pressures()[pname], tpc, ppc)
    record(f"pressure_bubblepoint[{fname}]", fluid.pressure_bubblepoint)
    record(f"repr[{fname}]", repr, fluid)

# the vectorised Beggs-Robinson wrapper is shared now: interleave dtypes/shapes/fluids and mutate a fluid in between
fluid = Fluid(200.0, 35.0, 0.8, 650.0)
other = Fluid(300, 20, 1, 100)
sequence = [
    (fluid, np.array([100, 5000])), (other, 2500.0), (fluid, np.array([[100.0], [5000.0]])), (other, [1, 2, 3]),
    (fluid, np.array([], dtype=float)), (fluid, 3000), (other, np.array([3000.0, 100.0])), (fluid, None), (fluid, np.array([4000.0])),
]
for i, (fl, p) in enumerate(sequence):
    record(f"oil_viscosity_sequence[{i}]", fl.oil_viscosity, p)
fluid.temperature = 260.0
fluid.gas_specific_gravity = 0.9
for label, meth, args in [
    ("water_FVF", fluid.water_FVF, (np.array([1000.0, 3000.0]),)),
    ("gas_FVF", fluid.gas_FVF, (np.array([1000.0, 3000.0]), -80.0, 660.0)),
    ("gas_viscosity", fluid.gas_viscosity, (np.array([1000.0, 3000.0]), -80.0, 660.0)),
    ("oil_viscosity", fluid.oil_viscosity, (np.array([1000.0, 3000.0]),)),
]:
    record(f"after_mutation[{label}]", meth, *args)
record("oil_viscosity_kw", fluid.oil_viscosity, pressure=np.array([1000.0]))
record("gas_viscosity_kw", fluid.gas_viscosity, pressure_pseudocritical=660.0, temperature_pseudocritical=-80.0, pressure=[500.0])
record("gas_FVF_missing", fluid.gas_FVF, [500.0])
record("water_FVF_missing", fluid.water_FVF)
record("oil_viscosity_extra", fluid.oil_viscosity, 1.0, 2.0)
finish()
