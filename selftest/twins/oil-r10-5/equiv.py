"""Twin 5: BLUEBONNET_LOG environment variable switches diagnostics only.

The sweep is run in child processes with the variable unset, set to DEBUG, set to
WARNING, lower-case and set to rubbish; only the numerical results / exception
types are compared (the diagnostics go to stderr, which is discarded).
"""
import os
import subprocess
import sys
import tempfile

HERE = os.path.dirname(os.path.abspath(__file__))
sys.path.insert(0, HERE)


def child(outfile):
    import logging

    import numpy as np
    from equiv_common import main, pressures, fluids, uninit
    from bluebonnet.fluids import oil

    def extra(out, call, fmt):
        for fl, (t, api, sg, gor) in fluids():
            for pl, p in pressures():
                if not uninit("density_Standing", t, p, api, sg, gor):
                    call(out, "density[%s,%s]" % (fl, pl), oil.density_Standing, t, p, api, sg, gor)
                call(out, "dgor[%s,%s]" % (fl, pl), oil.dgor_dpressure_Standing, t, p, api, sg, gor)
        for p in np.linspace(14.7, 9000.0, 41):
            call(out, "density sweep %r" % float(p), oil.density_Standing, 210.0, float(p), 33.0, 0.82, 700.0)
            call(out, "dgor sweep %r" % float(p), oil.dgor_dpressure_Standing, 210.0, float(p), 33.0, 0.82, 700.0)
        call(out, "density arr", oil.density_Standing, 210.0, np.linspace(14.7, 9000.0, 41), 33.0, 0.82, 700.0)
        # the root logger is never touched, whatever the environment says
        root = logging.getLogger()
        out.append("root level %s handlers %d" % (root.level, len(root.handlers)))
        # numpy error state and warning filters are not part of the diagnostics
        out.append("errstate %s" % sorted(np.geterr().items()))

    sys.argv[1] = outfile
    main(extra)


def parent(outfile):
    settings = [None, "DEBUG", "debug ", "WARNING", "ERROR", "", "rubbish", "10"]
    chunks = []
    for s in settings:
        env = dict(os.environ)
        env.pop("BLUEBONNET_LOG", None)
        if s is not None:
            env["BLUEBONNET_LOG"] = s
        with tempfile.NamedTemporaryFile("r", suffix=".txt") as tmp:
            rc = subprocess.run(
                [sys.executable, os.path.abspath(__file__), "--child", tmp.name],
                env=env,
                stdout=subprocess.DEVNULL,
                stderr=subprocess.DEVNULL,
            ).returncode
            chunks.append("==== BLUEBONNET_LOG=%r rc=%d\n" % (s, rc) + open(tmp.name).read())
    with open(outfile, "w") as fh:
        fh.write("".join(chunks))


if __name__ == "__main__":
    if sys.argv[1] == "--child":
        del sys.argv[1]
        child(sys.argv[1])
    else:
        parent(sys.argv[1])
