"""Equivalence driver for bluebonnet.flow.reservoir (shared by the five twins).

Usage: PYTHONPATH=<tree>/src /venv/bin/python equiv.py <outfile>
"""

from __future__ import annotations

import os
import sys
import warnings

import numpy as np
import pandas as pd

warnings.simplefilter("ignore")

from bluebonnet.flow import (  # noqa: E402
    FlowProperties,
    IdealReservoir,
    MultiPhaseReservoir,
    SinglePhaseReservoir,
    TwoPhaseReservoir,
)
from bluebonnet.flow import reservoir as resmod  # noqa: E402
from bluebonnet.flow.flowproperties import FlowPropertiesSimple  # noqa: E402

DATA = os.environ.get("BB_DATA", "/tmp/twin12_reservoir/tests/data")
SIG = int(os.environ.get("BB_SIG", "17"))
OUT = []


def fmt(v):
    if isinstance(v, (pd.Series, pd.DataFrame)):
        return "pd" + fmt(v.to_numpy()) + "idx" + repr(list(v.index)[:5])
    if isinstance(v, np.ndarray):
        flat = v.ravel()
        if flat.dtype.kind in "fc":
            body = ",".join(np.format_float_scientific(x, precision=SIG - 1, unique=(SIG >= 17)) for x in flat)
        else:
            body = ",".join(repr(x) for x in flat.tolist())
        return f"arr{v.shape}{v.dtype}[{body}]"
    if isinstance(v, (float, np.floating)):
        return np.format_float_scientific(v, precision=SIG - 1, unique=(SIG >= 17))
    if isinstance(v, (tuple, list)):
        return type(v).__name__ + "(" + ";".join(fmt(x) for x in v) + ")"
    return repr(v)


def rec(label, fn):
    with warnings.catch_warnings(record=True) as w:
        warnings.simplefilter("always")
        try:
            out = fmt(fn())
        except Exception as e:  # noqa: BLE001
            out = "EXC " + type(e).__name__
        cats = sorted({x.category.__name__ for x in w})
    OUT.append(f"{label} :: {out} :: warns={cats}")


ren_gas = {
    "P": "pressure",
    "Z-Factor": "z-factor",
    "Cg": "compressibility",
    "Viscosity": "viscosity",
    "Density": "density",
}
ren_oil = {
    "P": "pressure",
    "Z-Factor": "z-factor",
    "Co": "compressibility",
    "Oil_Viscosity": "viscosity",
    "Oil_Density": "density",
}
pvt_gas = pd.read_csv(os.path.join(DATA, "pvt_gas.csv")).rename(columns=ren_gas)
pvt_oil = pd.read_csv(os.path.join(DATA, "pvt_oil.csv")).rename(columns=ren_oil)


def reindexed(df, how):
    """Same rows in the same order, different index labels."""
    df = df.copy()
    n = len(df)
    rng = np.random.default_rng(7)
    if how == "shuffled":
        df.index = rng.permutation(n)
    elif how == "duplicate":
        df.index = np.arange(n) // 3
    elif how == "string":
        df.index = [f"r{n - k}" for k in range(n)]
    elif how == "offset":
        df.index = np.arange(n) + 1000
    return df


def fluids():
    yield "gas8000", FlowProperties(pvt_gas, 8000.0)
    yield "gas3000", FlowProperties(pvt_gas, 3000.0)
    for how in ("shuffled", "duplicate", "string", "offset"):
        yield "gas8000-" + how, FlowProperties(reindexed(pvt_gas, how), 8000.0)
    yield "gasdict", FlowProperties({k: pvt_gas[k].to_numpy() for k in pvt_gas.columns}, 6000.0)
    try:
        yield "oil", FlowProperties(pvt_oil, 6000.0)
    except Exception as e:  # noqa: BLE001
        OUT.append("oil fluid construct EXC " + type(e).__name__)
    try:
        simple = pvt_gas[["pressure", "compressibility", "viscosity", "density"]]
        yield "simple", FlowPropertiesSimple(simple, 5000.0)
    except Exception as e:  # noqa: BLE001
        OUT.append("simple fluid construct EXC " + type(e).__name__)


def times():
    yield "sq40", np.linspace(0, np.sqrt(9.0), 40) ** 2
    yield "lin25", np.linspace(0, 2.0, 25)
    yield "uniform-exact", np.arange(0, 33) * 0.125
    yield "repeat", np.array([0.0, 0.1, 0.1, 0.2, 0.2, 0.2, 0.4, 0.8])
    yield "len1", np.array([0.0])
    yield "len2", np.array([0.0, 0.5])
    yield "int", np.arange(0, 12)
    yield "decreasing", np.array([0.0, 0.2, 0.1, 0.3])
    yield "nan", np.array([0.0, 0.1, np.nan, 0.3])
    yield "series", pd.Series(np.linspace(0, 1.5, 15) ** 2)
    yield "series-shuf", pd.Series(
        np.linspace(0, 1.5, 15) ** 2, index=np.random.default_rng(3).permutation(15)
    )
    yield "series-str", pd.Series(np.linspace(0, 1.5, 6), index=list("abcdef"))
    yield "series-dup", pd.Series(np.linspace(0, 1.5, 6), index=[0, 1, 1, 2, 3, 4])
    yield "empty", np.array([])
    yield "list", [0.0, 0.1, 0.3, 0.7]
    yield "2d", np.linspace(0, 1, 8).reshape(4, 2)
    yield "scalar", 3.0


def after_sim(label, r, extra_kwargs=()):
    rec(label + " time-is-same", lambda: type(r.time).__name__)
    rec(label + " pp", lambda: r.pseudopressure)
    rec(label + " has-recovery-before", lambda: hasattr(r, "recovery"))
    rec(label + " rf", lambda: r.recovery_factor())
    rec(label + " rf-attr", lambda: r.recovery)
    rec(label + " rf-density", lambda: r.recovery_factor(density=True))
    rec(label + " rf-time-arg", lambda: r.recovery_factor(np.array([0.0, 1.0])))
    rec(label + " rf-pos-args", lambda: r.recovery_factor(None, False))

    def interp():
        f = r.recovery_factor_interpolator()
        q = np.array([-1.0, 0.0, 1e-3, 0.05, 0.33, 1.0, 2.5, 1e3])
        return (f(q), f(0.2), type(f).__name__, f.bounds_error, fmt(f.fill_value))

    rec(label + " interp", interp)
    for kw in extra_kwargs:
        rec(label + f" interp{kw}", lambda kw=kw: r.recovery_factor_interpolator(**kw)(np.array([0.01, 0.3, 50.0])))
    rec(label + " repr", lambda: repr(r)[:60])
    rec(label + " attrs", lambda: sorted(k for k in vars(r)))


def main(extra=None, interp_kwargs=()):
    fl = dict(fluids())
    gas = fl["gas8000"]

    # construction / simple accessors
    for cls in (IdealReservoir, SinglePhaseReservoir, TwoPhaseReservoir, MultiPhaseReservoir):
        rec(f"{cls.__name__} ctor", lambda cls=cls: repr(cls(10, 100.0, 8000.0, None)))
        rec(f"{cls.__name__} fvf", lambda cls=cls: cls(10, 100.0, 8000.0, gas).fvf_scale())
        rec(f"{cls.__name__} fvf-arr", lambda cls=cls: cls(10, np.array([100.0, 200.0]), 8000.0, gas).fvf_scale())
        rec(f"{cls.__name__} rf-early", lambda cls=cls: cls(10, 100.0, 8000.0, gas).recovery_factor())
        rec(f"{cls.__name__} rf-early-time", lambda cls=cls: cls(10, 100.0, 8000.0, gas).recovery_factor(np.array([0, 1.0])))
        rec(f"{cls.__name__} interp-early", lambda cls=cls: cls(10, 100.0, 8000.0, gas).recovery_factor_interpolator())
        rec(f"{cls.__name__} eq", lambda cls=cls: cls(10, 100.0, 8000.0, None) == cls(10, 100.0, 8000.0, None))
        rec(f"{cls.__name__} ctor-toomany", lambda cls=cls: cls(10, 100.0, 8000.0, None, 1, 2, 3, 4))
    rec("multi ctor pos", lambda: repr(MultiPhaseReservoir(10, 100.0, 8000.0, None, 0.7, 0.1, 0.2)))
    rec("two ctor pos", lambda: repr(TwoPhaseReservoir(10, 100.0, 8000.0, None, 0.3)))
    rec("multi simulate", lambda: MultiPhaseReservoir(10, 100.0, 8000.0, gas).simulate(np.linspace(0, 1, 5)))
    rec("multi step", lambda: MultiPhaseReservoir(10, 100.0, 8000.0, gas)._step_saturation(1, 2, 3))
    rec("ideal alpha", lambda: IdealReservoir(5, 1.0, 2.0).alpha_scaled(np.array([0.1, 0.5, 2.0])))
    rec("ideal alpha int", lambda: IdealReservoir(5, 1.0, 2.0).alpha_scaled(np.array([1, 2])))
    rec("single alpha", lambda: SinglePhaseReservoir(5, 1.0, 2.0, gas).alpha_scaled(np.array([-0.1, 0.0, 0.1, 0.5, 1.0, 2.0])))
    rec("single alpha nofluid", lambda: SinglePhaseReservoir(5, 1.0, 2.0).alpha_scaled(np.array([0.1])))

    # _build_matrix
    for name, kt in (
        ("f5", np.array([0.1, 0.2, 0.3, 0.4, 0.5])),
        ("zeros", np.zeros(4)),
        ("mixed0", np.array([0.0, 1.0, 0.0, 2.0])),
        ("neg", np.array([-0.5, 0.25, -0.125])),
        ("int", np.array([1, 2, 3])),
        ("len1", np.array([2.0])),
        ("len2", np.array([2.0, 3.0])),
        ("nan", np.array([1.0, np.nan, 2.0])),
        ("empty", np.array([])),
        ("list", [1.0, 2.0]),
        ("scalar", 2.0),
        ("2d", np.ones((2, 2))),
    ):
        def bm(kt=kt):
            m = resmod._build_matrix(kt)
            return (m.format, m.shape, str(m.dtype), m.toarray(), m.data, m.indices, m.indptr, type(m).__name__)
        rec("build_matrix " + name, bm)

    # Ideal reservoir
    for tname, t in times():
        for nx in (3, 12):
            def run(t=t, nx=nx):
                r = IdealReservoir(nx, 500.0, 6000.0, gas)
                r.simulate(t)
                return r
            label = f"ideal nx={nx} t={tname}"
            try:
                with warnings.catch_warnings():
                    warnings.simplefilter("ignore")
                    r = run()
            except Exception as e:  # noqa: BLE001
                OUT.append(label + " simulate EXC " + type(e).__name__)
                continue
            rec(label + " time-identity", lambda r=r, t=t: r.time is t)
            after_sim(label, r, interp_kwargs)
    for nx in (0, 1, 2, -3, 2.5, "4"):
        rec(f"ideal bad nx={nx!r}", lambda nx=nx: (lambda r: (r.simulate(np.linspace(0, 1, 5)), r.pseudopressure, r.recovery_factor()))(IdealReservoir(nx, 500.0, 6000.0, gas)))
    rec("ideal nofluid", lambda: (lambda r: (r.simulate(np.linspace(0, 1, 5)), r.recovery_factor(), r.recovery_factor(density=True)))(IdealReservoir(6, 500.0, 6000.0)))
    rec("ideal pf array", lambda: (lambda r: (r.simulate(np.linspace(0, 1, 5)), r.recovery_factor()))(IdealReservoir(6, np.linspace(100, 500, 5), 6000.0)))
    rec("ideal pf array mismatch", lambda: (lambda r: (r.simulate(np.linspace(0, 1, 5)), r.recovery_factor()))(IdealReservoir(6, np.linspace(100, 500, 4), 6000.0)))

    # Single / two phase
    for fname, fluid in fl.items():
        for cls in (SinglePhaseReservoir, TwoPhaseReservoir):
            for tname, t in times():
                if fname not in ("gas8000", "gas8000-shuffled", "simple") and tname not in ("sq40", "repeat", "series", "len1"):
                    continue
                label = f"{cls.__name__} fluid={fname} t={tname}"
                r = cls(9, 1000.0, 8000.0, fluid)
                try:
                    with warnings.catch_warnings():
                        warnings.simplefilter("ignore")
                        r.simulate(t)
                except Exception as e:  # noqa: BLE001
                    OUT.append(label + " simulate EXC " + type(e).__name__)
                    rec(label + " time-after-fail", lambda r=r, t=t: (hasattr(r, "time") and r.time is t, hasattr(r, "pseudopressure")))
                    continue
                rec(label + " time-identity", lambda r=r, t=t: r.time is t)
                after_sim(label, r, interp_kwargs)

    # explicit fracface pressure series
    t = np.linspace(0, 2.0, 30) ** 2
    pf_cases = {
        "const": np.full(30, 1000.0),
        "ramp": np.linspace(7000.0, 500.0, 30),
        "series": pd.Series(np.linspace(7000.0, 500.0, 30)),
        "series-shuf": pd.Series(np.linspace(7000.0, 500.0, 30), index=np.random.default_rng(5).permutation(30)),
        "series-str": pd.Series(np.linspace(7000.0, 500.0, 30), index=[f"k{i}" for i in range(30)]),
        "list": list(np.linspace(7000.0, 500.0, 30)),
        "above-initial": np.linspace(9000.0, 500.0, 30),
        "too-high": np.linspace(7000.0, 50000.0, 30),
        "negative": np.linspace(7000.0, -5.0, 30),
        "short": np.linspace(7000.0, 500.0, 29),
        "long": np.linspace(7000.0, 500.0, 31),
        "scalar": 1000.0,
        "nan": np.where(np.arange(30) == 7, np.nan, 2000.0),
        "2d": np.full((30, 2), 1000.0),
        "empty": np.array([]),
    }
    for pname, pf in pf_cases.items():
        for fname in ("gas8000", "gas8000-string", "simple"):
            if fname not in fl:
                continue
            label = f"single pf={pname} fluid={fname}"
            r = SinglePhaseReservoir(11, 1000.0, 8000.0, fl[fname])
            try:
                with warnings.catch_warnings():
                    warnings.simplefilter("ignore")
                    r.simulate(t, pressure_fracface=pf)
            except Exception as e:  # noqa: BLE001
                OUT.append(label + " simulate EXC " + type(e).__name__ + " :: " + (str(e)[:70] if isinstance(e, ValueError) and "Pressure time" in str(e) else ""))
                rec(label + " state-after-fail", lambda r=r: sorted(vars(r)))
                continue
            after_sim(label, r, interp_kwargs)
    rec("two pf kw", lambda: TwoPhaseReservoir(11, 1000.0, 8000.0, gas).simulate(t, pressure_fracface=np.full(30, 1000.0)))
    rec("single pos pf", lambda: (lambda r: (r.simulate(t, np.linspace(7000.0, 500.0, 30)), r.pseudopressure))(SinglePhaseReservoir(7, 1000.0, 8000.0, gas)))
    rec("single self.pf array", lambda: (lambda r: (r.simulate(t), r.pseudopressure, r.recovery_factor()))(SinglePhaseReservoir(7, np.linspace(7000.0, 500.0, 30), 8000.0, gas)))
    rec("single self.pf array mismatch", lambda: (lambda r: (r.simulate(t), r.pseudopressure))(SinglePhaseReservoir(7, np.linspace(7000.0, 500.0, 12), 8000.0, gas)))
    rec("single nofluid", lambda: SinglePhaseReservoir(7, 1000.0, 8000.0).simulate(t))
    for nx in (0, 1, 2, 3, -3, 2.5, "4"):
        rec(f"single bad nx={nx!r}", lambda nx=nx: (lambda r: (r.simulate(t), r.pseudopressure, r.recovery_factor(), r.recovery_factor(density=True)))(SinglePhaseReservoir(nx, 1000.0, 8000.0, gas)))

    # re-simulation on the same object: cached recovery must be dropped, results fresh
    def resim(cls):
        r = cls(8, 1000.0, 8000.0, gas)
        t1 = np.linspace(0, 1, 10) ** 2
        t2 = np.linspace(0, 3, 14) ** 2
        r.simulate(t1)
        a = r.recovery_factor().copy()
        f1 = r.recovery_factor_interpolator()(0.5)
        r.simulate(t2)
        had = hasattr(r, "recovery")
        f2 = r.recovery_factor_interpolator()(0.5)
        b = r.recovery_factor(density=True).copy()
        f3 = r.recovery_factor_interpolator()(0.5)
        r.simulate(t1)
        c = r.recovery_factor()
        return (a, f1, had, f2, b, f3, c)

    for cls in (IdealReservoir, SinglePhaseReservoir, TwoPhaseReservoir):
        rec(f"resim {cls.__name__}", lambda cls=cls: resim(cls))

    # inputs must not be modified
    def untouched():
        tt = np.linspace(0, 1, 10) ** 2
        pf = np.linspace(7000.0, 500.0, 10)
        t0, p0 = tt.copy(), pf.copy()
        r = SinglePhaseReservoir(8, 1000.0, 8000.0, gas)
        r.simulate(tt, pf)
        pp0 = r.pseudopressure.copy()
        r.recovery_factor()
        r.recovery_factor(density=True)
        r.recovery_factor_interpolator()
        return (np.array_equal(tt, t0), np.array_equal(pf, p0), np.array_equal(pp0, r.pseudopressure), gas.pvt_props["m-scaled"].to_numpy()[:4])

    rec("inputs untouched", untouched)

    # subclass hooks are still honoured
    class Halved(SinglePhaseReservoir):
        def alpha_scaled(self, pseudopressure):
            return 0.5 * super().alpha_scaled(pseudopressure)

        def fvf_scale(self):
            return 2.0

    class ConstAlpha(IdealReservoir):
        _shared = np.full(6, 0.75)

        def alpha_scaled(self, pseudopressure):  # returns the SAME array object each call
            return self._shared

    class Failing(SinglePhaseReservoir):
        def alpha_scaled(self, pseudopressure):
            raise ValueError("boom")

    rec("subclass halved", lambda: (lambda r: (r.simulate(t), r.pseudopressure, r.recovery_factor()))(Halved(8, 1000.0, 8000.0, gas)))
    rec("subclass const", lambda: (lambda r: (r.simulate(t), r.pseudopressure, r.recovery_factor(), ConstAlpha._shared))(ConstAlpha(6, 1000.0, 8000.0, gas)))

    def failing():
        try:
            Failing(8, 1000.0, 8000.0, gas).simulate(t)
        except ValueError as e:
            return (str(e)[:40], type(e.__cause__).__name__)

    rec("subclass failing", failing)

    if extra is not None:
        extra(rec, fl)

    with open(sys.argv[1], "w") as fh:
        fh.write("\n".join(OUT) + "\n")


def extra(rec, fl):
    """Every way the two re-signatured callables could be invoked before the change."""
    gas = fl["gas8000"]
    tt = np.linspace(0, 1.5, 20) ** 2
    q = np.array([-1.0, 0.0, 0.01, 0.4, 1.1, 2.25, 9.0])

    def made(cls):
        r = cls(9, 800.0, 8000.0, gas)
        r.simulate(tt)
        return r

    for cls in (IdealReservoir, SinglePhaseReservoir, TwoPhaseReservoir):
        n = cls.__name__
        rec(f"x3 {n} interp()", lambda cls=cls: (lambda f: (f(q), f._kind, f.bounds_error, fmt(f.fill_value), f.x, f.y))(made(cls).recovery_factor_interpolator()))
        rec(f"x3 {n} interp via class", lambda cls=cls: cls.recovery_factor_interpolator(made(cls))(q))
        rec(f"x3 {n} interp via base", lambda cls=cls: IdealReservoir.recovery_factor_interpolator(made(cls))(q))
        # calls that were errors stay errors
        rec(f"x3 {n} interp positional", lambda cls=cls: made(cls).recovery_factor_interpolator("linear"))
        rec(f"x3 {n} interp positional time", lambda cls=cls: made(cls).recovery_factor_interpolator(tt))
        rec(f"x3 {n} interp unknown kw", lambda cls=cls: made(cls).recovery_factor_interpolator(fill_value=0))
        rec(f"x3 {n} interp after density", lambda cls=cls: (lambda r: (r.recovery_factor(density=True), r.recovery_factor_interpolator()(q)))(made(cls)))
        rec(f"x3 {n} interp unsimulated", lambda cls=cls: cls(9, 800.0, 8000.0, gas).recovery_factor_interpolator())

    # an override with the old signature keeps working alongside the base class
    class Old(SinglePhaseReservoir):
        def recovery_factor_interpolator(self):
            inner = super().recovery_factor_interpolator()
            return lambda x: 2.0 * inner(x)

    rec("x3 subclass old signature", lambda: made(Old).recovery_factor_interpolator()(q))

    for name, kt in (
        ("f6", np.array([0.1, 0.2, 0.3, 0.4, 0.5, 0.6])),
        ("zeros", np.zeros(5)),
        ("with0", np.array([0.5, 0.0, 0.25, 0.0])),
        ("negzero", np.array([0.5, -0.0, 0.25])),
        ("big", np.logspace(-8, 8, 9)),
        ("f32", np.linspace(0.1, 1, 5, dtype=np.float32)),
        ("len1", np.array([0.5])),
    ):
        def bm(kt=kt):
            m = resmod._build_matrix(kt)
            return (m.format, type(m).__name__, m.shape, str(m.dtype), m.nnz, m.has_sorted_indices, m.data, m.indices, m.indptr, m.toarray())

        rec("x3 build_matrix " + name, bm)
    rec("x3 build_matrix two positional", lambda: resmod._build_matrix(np.ones(3), "csr"))
    rec("x3 build_matrix format kw", lambda: resmod._build_matrix(np.ones(3), format="csc"))
    rec("x3 build_matrix no arg", lambda: resmod._build_matrix())
    rec("x3 build_matrix kw name", lambda: resmod._build_matrix(kt_h2=np.array([0.5, 0.25, 0.125])).toarray())


if __name__ == "__main__":
    main(extra, interp_kwargs=())
