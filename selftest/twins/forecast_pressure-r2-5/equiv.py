"""Equivalence driver for bluebonnet.forecast.forecast_pressure.

Usage: PYTHONPATH=<tree>/src /venv/bin/python equiv.py <outfile>

Exercises _obj_function, fit_production_pressure and plot_production_comparison
on a broad set of inputs (both sides of every branch, edge cases, raising inputs)
and writes full-precision results (or exception type + message) to <outfile>.
"""

from __future__ import annotations

import hashlib
import io
import os
import sys
import warnings
from types import SimpleNamespace as NS

import matplotlib

matplotlib.use("Agg")
import matplotlib.pyplot as plt
import numpy as np
import pandas as pd
from lmfit import Parameters

import bluebonnet.plotting  # noqa: F401  (registers the "squareroot" scale)
from bluebonnet.flow import FlowProperties, SinglePhaseReservoir
from bluebonnet.forecast import fit_production_pressure, plot_production_comparison
from bluebonnet.forecast import forecast_pressure as fp_mod

warnings.filterwarnings("ignore")

DATA = os.environ.get("BB_DATA", "/tmp/twin2_forecast_pressure/tests/data")
OUT: list[str] = []


def fmt(x) -> str:
    """Full-precision, deterministic representation."""
    if isinstance(x, (float, np.floating)):
        return repr(float(x))
    if isinstance(x, (int, np.integer, bool, np.bool_, str, type(None))):
        return repr(x)
    if isinstance(x, pd.Series):
        return "Series" + fmt(x.to_numpy()) + "idx" + fmt(np.asarray(x.index))
    if isinstance(x, np.ndarray):
        return f"nd{x.dtype}{x.shape}[" + ",".join(fmt(v) for v in x.ravel().tolist()) + "]"
    if isinstance(x, (list, tuple)):
        return "(" + ",".join(fmt(v) for v in x) + ")"
    return repr(x)


def emit(tag: str, value) -> None:
    OUT.append(f"{tag} = {fmt(value)}")


def run(tag: str, func):
    try:
        func()
    except Exception as e:  # noqa: BLE001
        msg = str(e)
        prefix = "Need pvt_props to have: "
        if msg.startswith(prefix):
            # the library builds this message from a set: order depends on PYTHONHASHSEED
            msg = prefix + ", ".join(sorted(msg[len(prefix) :].split(", ")))
        OUT.append(f"{tag} RAISES {type(e).__name__}: {msg[:300]!r}")


# ----------------------------------------------------------------------------
# Data
# ----------------------------------------------------------------------------
pvt_table = pd.read_csv(os.path.join(DATA, "pvt_gas_HAYNESVILLE SHALE_20.csv"))
pvt_other = pd.read_csv(os.path.join(DATA, "pvt_gas.csv"))
PI = 5000.0
PF = 500.0


def make_prod(nt: int, tau_in: float = 180.0, t_end: float = 6.0, noise: bool = False):
    time_scaled = np.linspace(0, np.sqrt(t_end), nt) ** 2
    pressure_v_time = np.full(nt, PF)
    pressure_v_time[nt // 4 : nt // 2] /= 2.0
    pressure_v_time[nt // 2 :] /= 4.0
    if noise:
        rng = np.random.default_rng(1234)
        pressure_v_time = pressure_v_time * (1 + 0.1 * rng.standard_normal(nt))
    flow_props = FlowProperties(pvt_table, PI)
    reservoir = SinglePhaseReservoir(40, PF, PI, flow_props)
    reservoir.simulate(time_scaled, pressure_v_time)
    rf = reservoir.recovery_factor()
    # daily (not cumulative) gas: positive apart from the first entry
    gas = np.diff(rf * 1500.0, prepend=0.0)
    return pd.DataFrame({"Days": time_scaled * tau_in, "Gas": gas, "Pressure": pressure_v_time})


prod60 = make_prod(60)
prod60_noise = make_prod(60, noise=True)
prod_holes = prod60_noise.copy()
prod_holes.loc[[5, 6, 20], "Gas"] = 0.0
prod_holes.loc[[7, 20, 33], "Pressure"] = np.nan
prod_holes.loc[40, "Gas"] = -3.0
prod_extra_cols = prod60.assign(Oil=1.0, Name="x")[["Name", "Pressure", "Oil", "Gas", "Days"]]
prod_int = pd.DataFrame(
    {
        "Days": np.arange(40),
        "Gas": np.array([0, 5, 4, 4, 3, 3, 3, 2, 2, 2] * 4),
        "Pressure": np.array([900, 800, 700, 600, 500, 500, 400, 400, 400, 400] * 4),
    }
)
prod_shuffled_index = prod60_noise.copy()
prod_shuffled_index.index = np.arange(len(prod60_noise))[::-1] * 3 + 7


def report_fit(tag: str, result) -> None:
    for name in result.params:
        par = result.params[name]
        emit(f"{tag}.{name}", (par.value, par.min, par.max, par.vary, par.init_value))
    emit(f"{tag}.order", list(result.params.keys()))
    emit(f"{tag}.nfev", result.nfev)
    emit(f"{tag}.aborted", result.aborted)
    emit(f"{tag}.success", result.success)
    emit(f"{tag}.method", result.method)
    emit(f"{tag}.chisqr", result.chisqr)
    emit(f"{tag}.ndata", result.ndata)
    emit(f"{tag}.residual", np.asarray(result.residual))
    emit(f"{tag}.init_vals", list(result.init_vals))
    emit(f"{tag}.call_kws", sorted((k, repr(v)) for k, v in result.call_kws.items()))


# ----------------------------------------------------------------------------
# _obj_function
# ----------------------------------------------------------------------------
def make_params(tau=420.0, m=1300.0, p=PI, skip=()):
    params = Parameters()
    if "M" not in skip:
        params.add("M", m)
    if "tau" not in skip:
        params.add("tau", tau)
    if "p_initial" not in skip:
        params.add("p_initial", p)
    return params


def obj_cases():
    days = np.arange(30)
    production = np.cumsum(np.linspace(5, 1, 30))
    pressure = np.linspace(900.0, 300.0, 30)
    for i, (tau, m, p) in enumerate(
        [(420.0, 1300.0, PI), (35.0, 90.0, 4000.0), (1e4, 2.5e5, 9000.0), (100.0, 0.0, 1000.0)]
    ):
        run(
            f"obj[{i}]",
            lambda tau=tau, m=m, p=p, i=i: emit(
                f"obj[{i}]",
                fp_mod._obj_function(make_params(tau, m, p), days, production, pvt_table, pressure),
            ),
        )
    run(
        "obj[other_pvt]",
        lambda: emit(
            "obj[other_pvt]",
            fp_mod._obj_function(make_params(200.0, 10.0, 3000.0), days, production, pvt_other, pressure),
        ),
    )
    run(
        "obj[float days]",
        lambda: emit(
            "obj[float days]",
            fp_mod._obj_function(make_params(), days * 1.5, production, pvt_table, pressure),
        ),
    )
    # wrong length of pressure series -> ValueError
    run(
        "obj[len mismatch]",
        lambda: fp_mod._obj_function(make_params(), days, production, pvt_table, pressure[:-1]),
    )
    # wrong length of production -> broadcasting error
    run(
        "obj[prod mismatch]",
        lambda: fp_mod._obj_function(make_params(), days, production[:-2], pvt_table, pressure),
    )
    # scalar production broadcasts
    run(
        "obj[scalar prod]",
        lambda: emit(
            "obj[scalar prod]",
            fp_mod._obj_function(make_params(), days, 2.0, pvt_table, pressure),
        ),
    )
    for skip in [("tau",), ("M",), ("p_initial",), ("tau", "M"), ("M", "p_initial"), ("tau", "M", "p_initial")]:
        run(
            f"obj[missing {skip}]",
            lambda skip=skip: fp_mod._obj_function(
                make_params(skip=skip), days, production, pvt_table, pressure
            ),
        )
    # p_initial above pvt range / fracface above initial
    run(
        "obj[p too high]",
        lambda: emit(
            "obj[p too high]",
            fp_mod._obj_function(make_params(p=50000.0), days, production, pvt_table, pressure),
        ),
    )
    run(
        "obj[p below fracface]",
        lambda: emit(
            "obj[p below fracface]",
            fp_mod._obj_function(make_params(p=400.0), days, production, pvt_table, pressure),
        ),
    )
    run(
        "obj[bad pvt]",
        lambda: fp_mod._obj_function(
            make_params(), days, production, pvt_table.drop(columns=["pressure"]), pressure
        ),
    )
    run(
        "obj[tau zero]",
        lambda: emit(
            "obj[tau zero]",
            fp_mod._obj_function(make_params(tau=0.0), days, production, pvt_table, pressure),
        ),
    )
    run(
        "obj[empty]",
        lambda: emit(
            "obj[empty]",
            fp_mod._obj_function(
                make_params(), days[:0], production[:0], pvt_table, pressure[:0]
            ),
        ),
    )


# ----------------------------------------------------------------------------
# fit_production_pressure
# ----------------------------------------------------------------------------
def fit_cases():
    cases = {
        "default": (prod60, pvt_table, PI, {"n_iter": 4}),
        "positional": (prod60, pvt_table, PI, None, 12000, 50000, True, 3, None),
        "window3": (prod60_noise, pvt_table, PI, {"n_iter": 5, "filter_window_size": 3}),
        "window1": (prod60_noise, pvt_table, PI, {"n_iter": 3, "filter_window_size": 1}),
        "window7 nofilter": (
            prod60_noise,
            pvt_table,
            PI,
            {"n_iter": 3, "filter_window_size": 7, "filter_zero_prod_days": False},
        ),
        "nofilter": (prod60, pvt_table, PI, {"n_iter": 4, "filter_zero_prod_days": False}),
        "holes": (prod_holes, pvt_table, PI, {"n_iter": 6}),
        "holes window": (prod_holes, pvt_table, PI, {"n_iter": 6, "filter_window_size": 4}),
        "holes nofilter": (prod_holes, pvt_table, PI, {"n_iter": 3, "filter_zero_prod_days": False}),
        "extra cols": (prod_extra_cols, pvt_table, PI, {"n_iter": 3}),
        "int data": (prod_int, pvt_table, 3000.0, {"n_iter": 5}),
        "int data window": (prod_int, pvt_table, 3000.0, {"n_iter": 5, "filter_window_size": 3}),
        "int data nofilter": (prod_int, pvt_table, 3000.0, {"n_iter": 5, "filter_zero_prod_days": False}),
        "shuffled idx": (prod_shuffled_index, pvt_table, PI, {"n_iter": 4}),
        "shuffled idx nofilter": (
            prod_shuffled_index,
            pvt_table,
            PI,
            {"n_iter": 4, "filter_zero_prod_days": False},
        ),
        "bounds": (prod60, pvt_table, 4000.0, {"n_iter": 8, "pressure_imax": 9000.0, "inplace_max": 5e3}),
        "p_initial low": (prod60, pvt_table, 100.0, {"n_iter": 3}),
        "p_initial high": (prod60, pvt_table, 1e5, {"n_iter": 3}),
        "imax below fracface": (prod60, pvt_table, PI, {"n_iter": 3, "pressure_imax": 100.0}),
        "imax == fracface": (prod60, pvt_table, PI, {"n_iter": 3, "pressure_imax": 500.0}),
        "inplace small": (prod60, pvt_table, PI, {"n_iter": 3, "inplace_max": 1.0}),
        "other pvt": (prod60, pvt_other, 3000.0, {"n_iter": 3}),
        "n_iter 1": (prod60, pvt_table, PI, {"n_iter": 1}),
        "n_iter 0": (prod60, pvt_table, PI, {"n_iter": 0}),
        "n_iter 25": (prod60.iloc[:25], pvt_table, PI, {"n_iter": 25}),
        "window 0": (prod60, pvt_table, PI, {"n_iter": 2, "filter_window_size": 0}),
        "window -1": (prod60, pvt_table, PI, {"n_iter": 2, "filter_window_size": -1}),
        "window float": (prod60, pvt_table, PI, {"n_iter": 2, "filter_window_size": 2.5}),
        "window huge": (prod60, pvt_table, PI, {"n_iter": 2, "filter_window_size": 500}),
        "empty": (prod60.iloc[:0], pvt_table, PI, {"n_iter": 2}),
        "empty nofilter": (prod60.iloc[:0], pvt_table, PI, {"n_iter": 2, "filter_zero_prod_days": False}),
        "all filtered": (prod60.assign(Gas=0.0), pvt_table, PI, {"n_iter": 2}),
        "one row": (prod60.iloc[3:4], pvt_table, PI, {"n_iter": 2}),
        "one row nofilter": (prod60.iloc[3:4], pvt_table, PI, {"n_iter": 2, "filter_zero_prod_days": False}),
        "two rows": (prod60.iloc[3:5], pvt_table, PI, {"n_iter": 2}),
        "16 rows (tau min==max)": (prod60.iloc[1:17], pvt_table, PI, {"n_iter": 2}),
        "17 rows": (prod60.iloc[1:18], pvt_table, PI, {"n_iter": 2}),
        "16 rows mixed pressure (tau error first)": (
            prod60.iloc[1:17].assign(Pressure=[500.0, "a"] * 8),
            pvt_table,
            PI,
            {"n_iter": 2},
        ),
        "17 rows mixed pressure (max() error)": (
            prod60.iloc[1:18].assign(Pressure=[500.0, "a"] * 8 + [1.0]),
            pvt_table,
            PI,
            {"n_iter": 2},
        ),
        "17 rows inplace_max str": (prod60.iloc[1:18], pvt_table, PI, {"n_iter": 2, "inplace_max": "x"}),
        "16 rows inplace_max str": (prod60.iloc[1:17], pvt_table, PI, {"n_iter": 2, "inplace_max": "x"}),
        "17 rows imax None": (prod60.iloc[1:18], pvt_table, PI, {"n_iter": 2, "pressure_imax": None}),
        "10 rows (tau max<min)": (prod60.iloc[1:11], pvt_table, PI, {"n_iter": 2}),
        "no Gas": (prod60.drop(columns=["Gas"]), pvt_table, PI, {"n_iter": 2}),
        "no Pressure": (prod60.drop(columns=["Pressure"]), pvt_table, PI, {"n_iter": 2}),
        "no Days": (prod60.drop(columns=["Days"]), pvt_table, PI, {"n_iter": 2}),
        "no Days nofilter": (
            prod60.drop(columns=["Days"]),
            pvt_table,
            PI,
            {"n_iter": 2, "filter_zero_prod_days": False},
        ),
        "no Gas nofilter": (
            prod60.drop(columns=["Gas"]),
            pvt_table,
            PI,
            {"n_iter": 2, "filter_zero_prod_days": False},
        ),
        "no cols": (prod60[[]], pvt_table, PI, {"n_iter": 2}),
        "bad pvt": (prod60, pvt_table.drop(columns=["pressure"]), PI, {"n_iter": 2}),
        "string gas": (prod60.assign(Gas="a"), pvt_table, PI, {"n_iter": 2}),
        "string gas nofilter": (
            prod60.assign(Gas="a"),
            pvt_table,
            PI,
            {"n_iter": 2, "filter_zero_prod_days": False},
        ),
        "string pressure": (prod60.assign(Pressure="a"), pvt_table, PI, {"n_iter": 2}),
        "not a frame": (None, pvt_table, PI, {"n_iter": 2}),
        "dict of arrays": ({k: prod60[k].to_numpy() for k in prod60}, pvt_table, PI, {"n_iter": 2}),
        "pressure_initial None": (prod60, pvt_table, None, {"n_iter": 2}),
        "pressure_initial str": (prod60, pvt_table, "a", {"n_iter": 2}),
    }
    for tag, args in cases.items():
        if isinstance(args[-1], dict):
            pos, kw = args[:-1], args[-1]
        else:
            pos, kw = args, {}
        before = pos[0].copy() if isinstance(pos[0], pd.DataFrame) else None

        def go(tag=tag, pos=pos, kw=kw):
            result = fit_production_pressure(*pos, **kw)
            report_fit(f"fit[{tag}]", result)

        run(f"fit[{tag}]", go)
        if before is not None:
            emit(f"fit[{tag}].input_unchanged", bool(before.equals(pos[0])))

    # keyword-only style call
    run(
        "fit[all kw]",
        lambda: report_fit(
            "fit[all kw]",
            fit_production_pressure(
                prod_data=prod60_noise,
                pvt_table=pvt_table,
                pressure_initial=4500.0,
                filter_window_size=2,
                pressure_imax=14000,
                inplace_max=90000,
                filter_zero_prod_days=True,
                n_iter=4,
                params=None,
            ),
        ),
    )

    # restart from a previous fit, and from hand-built params
    def restart():
        first = fit_production_pressure(prod60, pvt_table, PI, n_iter=4)
        report_fit("fit[restart.first]", first)
        second = fit_production_pressure(prod60, pvt_table, PI, n_iter=4, params=first.params)
        report_fit("fit[restart.second]", second)
        # the passed-in params must not have been modified
        emit("fit[restart.first after]", [first.params[k].value for k in first.params])

    run("fit[restart]", restart)

    def hand_params():
        params = Parameters()
        params.add("p_initial", value=6000.0, min=1000.0, max=12000.0)
        params.add("tau", value=300.0, min=10.0, max=5000.0)
        params.add("M", value=2000.0, vary=False)
        result = fit_production_pressure(
            prod60_noise, pvt_table, 123.0, params=params, n_iter=6, filter_window_size=3
        )
        report_fit("fit[hand params]", result)
        emit("fit[hand params] input", [(k, params[k].value) for k in params])

    run("fit[hand params]", hand_params)

    def incomplete_params():
        params = Parameters()
        params.add("tau", value=300.0)
        fit_production_pressure(prod60, pvt_table, PI, params=params, n_iter=2)

    run("fit[incomplete params]", incomplete_params)
    # with params given, tiny inputs that would fail in default construction
    run(
        "fit[params one row]",
        lambda: report_fit(
            "fit[params one row]",
            fit_production_pressure(prod60.iloc[3:4], pvt_table, PI, params=make_params(), n_iter=2),
        ),
    )
    run(
        "fit[params empty]",
        lambda: report_fit(
            "fit[params empty]",
            fit_production_pressure(prod60.iloc[:0], pvt_table, PI, params=make_params(), n_iter=2),
        ),
    )
    run(
        "fit[params 16 rows]",
        lambda: report_fit(
            "fit[params 16 rows]",
            fit_production_pressure(prod60.iloc[1:17], pvt_table, PI, params=make_params(), n_iter=2),
        ),
    )
    run(
        "fit[params not Parameters]",
        lambda: fit_production_pressure(prod60, pvt_table, PI, params={"tau": 1.0}, n_iter=2),
    )


# ----------------------------------------------------------------------------
# plot_production_comparison
# ----------------------------------------------------------------------------
def describe_figure(tag: str, ret) -> None:
    fig, axes = ret
    emit(f"{tag}.ret_types", (type(ret).__name__, type(axes).__name__, len(axes)))
    emit(f"{tag}.same_axes", [a is b for a, b in zip(axes, fig.axes)])
    emit(f"{tag}.size", tuple(fig.get_size_inches()))
    emit(f"{tag}.naxes", len(fig.axes))
    for i, ax in enumerate(fig.axes):
        t = f"{tag}.ax{i}"
        emit(f"{t}.xlabel", ax.get_xlabel())
        emit(f"{t}.ylabel", ax.get_ylabel())
        emit(f"{t}.title", ax.get_title())
        emit(f"{t}.xscale", ax.get_xscale())
        emit(f"{t}.yscale", ax.get_yscale())
        emit(f"{t}.xlim", tuple(ax.get_xlim()))
        emit(f"{t}.ylim", tuple(ax.get_ylim()))
        emit(f"{t}.autoscale", (ax.get_autoscalex_on(), ax.get_autoscaley_on()))
        emit(f"{t}.nlines", len(ax.lines))
        for j, line in enumerate(ax.lines):
            emit(f"{t}.line{j}.x", np.asarray(line.get_xdata()))
            emit(f"{t}.line{j}.y", np.asarray(line.get_ydata()))
            emit(
                f"{t}.line{j}.style",
                (
                    line.get_label(),
                    line.get_linestyle(),
                    line.get_color(),
                    line.get_marker(),
                    line.get_linewidth(),
                    line.get_zorder(),
                ),
            )
        legend = ax.get_legend()
        emit(f"{t}.legend", None if legend is None else [txt.get_text() for txt in legend.get_texts()])
        emit(f"{t}.nartists", (len(ax.patches), len(ax.collections), len(ax.texts), len(ax.images)))
    buf = io.BytesIO()
    fig.savefig(buf, format="png", dpi=60, metadata={"Software": None})
    emit(f"{tag}.png_sha", hashlib.sha256(buf.getvalue()).hexdigest())
    plt.close(fig)


def plot_cases():
    params = make_params()
    cases = {
        "default": (prod60, pvt_table, params, {}),
        "test-like": (
            prod60,
            pvt_table,
            params,
            {"filter_window_size": 1, "filter_zero_prod_days": True},
        ),
        "window3": (prod60_noise, pvt_table, params, {"filter_window_size": 3, "well_name": "W-3"}),
        "nofilter": (prod60, pvt_table, params, {"filter_zero_prod_days": False}),
        "nofilter window": (
            prod60_noise,
            pvt_table,
            params,
            {"filter_zero_prod_days": False, "filter_window_size": 5, "well_name": ""},
        ),
        "positional": (prod60_noise, pvt_table, make_params(77.7, 12345.678, 6100.0), 2, True, "Posit"),
        "holes": (prod_holes, pvt_table, params, {}),
        "holes window": (prod_holes, pvt_table, params, {"filter_window_size": 4}),
        "holes nofilter": (prod_holes, pvt_table, params, {"filter_zero_prod_days": False}),
        "extra cols": (prod_extra_cols, pvt_table, params, {}),
        "int data": (prod_int, pvt_table, make_params(50.0, 200.0, 3000.0), {}),
        "int data nofilter": (
            prod_int,
            pvt_table,
            make_params(50.0, 200.0, 3000.0),
            {"filter_zero_prod_days": False, "filter_window_size": 3},
        ),
        "shuffled idx": (prod_shuffled_index, pvt_table, params, {}),
        "shuffled idx nofilter": (prod_shuffled_index, pvt_table, params, {"filter_zero_prod_days": False}),
        "other pvt": (prod60, pvt_other, make_params(100.0, 900.0, 3000.0), {}),
        "big numbers": (prod60, pvt_table, make_params(1.23456789e7, 9.87654321e-5, 7000.0), {}),
        "M zero": (prod60, pvt_table, make_params(m=0.0), {}),
        "tau zero": (prod60, pvt_table, make_params(tau=0.0), {}),
        "tau negative": (prod60, pvt_table, make_params(tau=-5.0), {}),
        "p below fracface": (prod60, pvt_table, make_params(p=300.0), {}),
        "p too high": (prod60, pvt_table, make_params(p=5e4), {}),
        "window 0": (prod60, pvt_table, params, {"filter_window_size": 0}),
        "window float": (prod60, pvt_table, params, {"filter_window_size": 2.5}),
        "empty": (prod60.iloc[:0], pvt_table, params, {}),
        "empty nofilter": (prod60.iloc[:0], pvt_table, params, {"filter_zero_prod_days": False}),
        "all filtered": (prod60.assign(Gas=-1.0), pvt_table, params, {}),
        "one row": (prod60.iloc[3:4], pvt_table, params, {}),
        "one row nofilter": (prod60.iloc[3:4], pvt_table, params, {"filter_zero_prod_days": False}),
        "two rows": (prod60.iloc[3:5], pvt_table, params, {}),
        "two rows nofilter": (prod60.iloc[3:5], pvt_table, params, {"filter_zero_prod_days": False}),
        "no Gas": (prod60.drop(columns=["Gas"]), pvt_table, params, {}),
        "no Pressure": (prod60.drop(columns=["Pressure"]), pvt_table, params, {}),
        "no Days": (prod60.drop(columns=["Days"]), pvt_table, params, {}),
        "no Days nofilter": (prod60.drop(columns=["Days"]), pvt_table, params, {"filter_zero_prod_days": False}),
        "no Pressure nofilter": (
            prod60.drop(columns=["Pressure"]),
            pvt_table,
            params,
            {"filter_zero_prod_days": False},
        ),
        "string gas": (prod60.assign(Gas="a"), pvt_table, params, {}),
        "string gas nofilter": (prod60.assign(Gas="a"), pvt_table, params, {"filter_zero_prod_days": False}),
        "string pressure": (prod60.assign(Pressure="a"), pvt_table, params, {}),
        "bad pvt": (prod60, pvt_table.drop(columns=["pressure"]), params, {}),
        "missing M": (prod60, pvt_table, make_params(skip=("M",)), {}),
        "missing tau": (prod60, pvt_table, make_params(skip=("tau",)), {}),
        "missing p": (prod60, pvt_table, make_params(skip=("p_initial",)), {}),
        "missing M tau": (prod60, pvt_table, make_params(skip=("M", "tau")), {}),
        "missing tau p": (prod60, pvt_table, make_params(skip=("tau", "p_initial")), {}),
        "missing all": (prod60, pvt_table, Parameters(), {}),
        "missing all + no Gas": (prod60.drop(columns=["Gas"]), pvt_table, Parameters(), {}),
        "missing all + window 0": (prod60, pvt_table, Parameters(), {"filter_window_size": 0}),
        "params None": (prod60, pvt_table, None, {}),
        "params dict of floats": (prod60, pvt_table, {"M": 1.0, "tau": 2.0, "p_initial": 3.0}, {}),
        "not a frame": (None, pvt_table, params, {}),
        "tau 1-array (label format fails)": (
            prod60,
            pvt_table,
            {"M": NS(value=1300.0), "tau": NS(value=np.array([420.0])), "p_initial": NS(value=PI)},
            {},
        ),
        "M 1-array (label format fails)": (
            prod60,
            pvt_table,
            {"M": NS(value=np.array([1300.0])), "tau": NS(value=420.0), "p_initial": NS(value=PI)},
            {},
        ),
        "duck-typed params": (
            prod60,
            pvt_table,
            {"M": NS(value=1300), "tau": NS(value=420), "p_initial": NS(value=5000)},
            {},
        ),
        "M str nofilter": (prod60.assign(Gas="a"), pvt_table, params, {"filter_zero_prod_days": False, "filter_window_size": 2}),
        "well_name int": (prod60, pvt_table, params, {"well_name": 17}),
        "well_name underscore": (prod60, pvt_table, params, {"well_name": "_hidden"}),
    }
    for tag, args in cases.items():
        if isinstance(args[-1], dict):
            pos, kw = args[:-1], args[-1]
        else:
            pos, kw = args, {}
        before = pos[0].copy() if isinstance(pos[0], pd.DataFrame) else None
        nfig_before = len(plt.get_fignums())

        def go(tag=tag, pos=pos, kw=kw):
            describe_figure(f"plot[{tag}]", plot_production_comparison(*pos, **kw))

        run(f"plot[{tag}]", go)
        # figures left open by a failing call are observable too
        emit(f"plot[{tag}].figs_left_open", len(plt.get_fignums()) - nfig_before)
        for num in plt.get_fignums():
            left = plt.figure(num)
            emit(
                f"plot[{tag}].left_open[{num}]",
                (
                    tuple(left.get_size_inches()),
                    [
                        (
                            len(ax.lines),
                            [ln.get_label() for ln in ax.lines],
                            ax.get_legend() is not None,
                            ax.get_xlabel(),
                            ax.get_ylabel(),
                            ax.get_xscale(),
                        )
                        for ax in left.axes
                    ],
                ),
            )
        plt.close("all")
        if before is not None:
            emit(f"plot[{tag}].input_unchanged", bool(before.equals(pos[0])))

    # end-to-end: fit then plot with the fitted params
    def fit_then_plot():
        result = fit_production_pressure(prod60_noise, pvt_table, PI, n_iter=5, filter_window_size=3)
        describe_figure(
            "plot[fitted]",
            plot_production_comparison(
                prod60_noise, pvt_table, result.params, filter_window_size=3, well_name="fitted"
            ),
        )

    run("plot[fitted]", fit_then_plot)


def api_cases():
    import inspect

    for f in (fit_production_pressure, plot_production_comparison, fp_mod._obj_function):
        sig = inspect.signature(f)
        emit(
            f"sig[{f.__name__}]",
            [(n, p.kind.name, repr(p.default)) for n, p in sig.parameters.items()],
        )
    import bluebonnet.forecast as fc

    emit("forecast.__all__", sorted(fc.__all__))


def main() -> None:
    outfile = sys.argv[1]
    api_cases()
    obj_cases()
    fit_cases()
    plot_cases()
    with open(outfile, "w") as fh:
        fh.write("\n".join(OUT) + "\n")


if __name__ == "__main__":
    main()
