"""Equivalence driver for bluebonnet.flow.reservoir refactorings.

Usage: PYTHONPATH=<tree>/src /venv/bin/python equiv.py <outfile>
Writes full-precision results (or exception types) for a broad set of calls.
"""

from __future__ import annotations

import copy
import hashlib
import logging
import os
import pickle
import sys
import warnings

import numpy as np
import pandas as pd

DATA = os.environ.get("BB_DATA", "/tmp/twin10_reservoir/tests/data")

from bluebonnet.flow import (  # noqa: E402
    FlowProperties,
    IdealReservoir,
    MultiPhaseReservoir,
    SinglePhaseReservoir,
    TwoPhaseReservoir,
)
from bluebonnet.flow import reservoir as resmod  # noqa: E402
from bluebonnet.flow.reservoir import _build_matrix  # noqa: E402

out: list[str] = []


def fmt(v):
    if isinstance(v, np.ndarray):
        flat = np.ascontiguousarray(v)
        digest = hashlib.sha256(flat.tobytes()).hexdigest()
        sample = flat.ravel()
        if sample.size > 12:
            idx = np.linspace(0, sample.size - 1, 12).astype(int)
            sample = sample[idx]
        return (
            f"ndarray shape={v.shape} dtype={v.dtype} sha={digest} "
            f"sample={[repr(float(s)) for s in sample]}"
        )
    if isinstance(v, (float, np.floating)):
        return repr(float(v))
    return repr(v)


def record(label, func):
    try:
        with warnings.catch_warnings(record=True) as caught:
            warnings.simplefilter("always")
            res = func()
        line = f"{label}: {fmt(res)}"
        if caught:
            line += " warnings=" + ",".join(sorted({w.category.__name__ for w in caught}))
    except BaseException as e:  # noqa: BLE001
        line = f"{label}: EXC {type(e).__name__}: {e}"
    out.append(line)


gas_renamer = {
    "P": "pressure",
    "Z-Factor": "z-factor",
    "Cg": "compressibility",
    "Viscosity": "viscosity",
    "Density": "density",
}
oil_renamer = {
    "P": "pressure",
    "Z-Factor": "z-factor",
    "Co": "compressibility",
    "Oil_Viscosity": "viscosity",
    "Oil_Density": "density",
}
pvt_gas = pd.read_csv(os.path.join(DATA, "pvt_gas.csv")).rename(columns=gas_renamer)
pvt_oil = pd.read_csv(os.path.join(DATA, "pvt_oil.csv")).rename(columns=oil_renamer)
pvt_ideal = pd.read_csv(os.path.join(DATA, "pvt_ideal_gas.csv")).rename(columns=gas_renamer)

fluids = {}
for name, table, p_i in (
    ("gas8000", pvt_gas, 8000.0),
    ("gas5000", pvt_gas, 5000.0),
    ("oil6000", pvt_oil, 6000.0),
):
    try:
        fluids[name] = FlowProperties(table, p_i)
    except Exception as e:  # noqa: BLE001
        out.append(f"fluid {name}: EXC {type(e).__name__}")
try:
    fluids["ideal7000"] = FlowProperties(pvt_ideal, 7000.0)
except Exception as e:  # noqa: BLE001
    out.append(f"fluid ideal7000: EXC {type(e).__name__}")

times = {
    "sqrt60": np.linspace(0, np.sqrt(9.0), 60) ** 2,
    "sqrt200": np.linspace(0, np.sqrt(100.0), 200) ** 2,
    "lin5": np.linspace(0, 1.0, 5),
    "two": np.array([0.0, 0.5]),
    "one": np.array([0.0]),
    "empty": np.array([]),
    "nonmono": np.array([0.0, 0.4, 0.2, 0.9]),
    "repeat": np.array([0.0, 0.1, 0.1, 0.3]),
    "list": [0.0, 0.1, 0.2],
    "int": np.arange(4),
    "nan": np.array([0.0, np.nan, 1.0]),
}

# ---------------------------------------------------------------- module surface
record("module public names", lambda: sorted(n for n in ("IdealReservoir", "SinglePhaseReservoir", "TwoPhaseReservoir", "MultiPhaseReservoir", "_build_matrix", "_ATOL") if hasattr(resmod, n)))
record("_ATOL", lambda: resmod._ATOL)
ORIGINAL_NAMES = ("Callable", "FlowProperties", "IdealReservoir", "MultiPhaseReservoir", "SinglePhaseReservoir", "TwoPhaseReservoir", "_ATOL", "_build_matrix", "annotations", "dataclass", "integrate", "interpolate", "ndarray", "np", "npt", "sparse")
record("module keeps original names", lambda: [(n, hasattr(resmod, n)) for n in ORIGINAL_NAMES])
record("module library handles", lambda: (resmod.integrate is __import__("scipy.integrate").integrate, resmod.sparse is __import__("scipy.sparse").sparse, resmod.np is np, resmod.FlowProperties is FlowProperties))
record("flow __all__", lambda: sorted(__import__("bluebonnet.flow").flow.__all__))
record("flow exports identity", lambda: all(getattr(__import__("bluebonnet.flow").flow, n) is getattr(resmod, n) for n in ("IdealReservoir", "SinglePhaseReservoir", "TwoPhaseReservoir", "MultiPhaseReservoir")))
record("mro", lambda: [[c.__name__ for c in k.__mro__] for k in (IdealReservoir, SinglePhaseReservoir, TwoPhaseReservoir, MultiPhaseReservoir)])
record("fields", lambda: [[(f.name, "MISSING" if f.default is __import__("dataclasses").MISSING else repr(f.default)) for f in k.__dataclass_fields__.values()] for k in (IdealReservoir, SinglePhaseReservoir, TwoPhaseReservoir, MultiPhaseReservoir)])
record("missing attr", lambda: resmod.no_such_name)
record("flow missing attr", lambda: __import__("bluebonnet.flow").flow.no_such_name)

# ---------------------------------------------------------------- _build_matrix
for label, arr in (
    ("ones5", np.ones(5)),
    ("ramp7", np.linspace(0.1, 3.0, 7)),
    ("two", np.array([0.5, 2.0])),
    ("one", np.array([0.25])),
    ("neg", np.array([-1.0, 0.5, -0.25, 4.0])),
    ("nan", np.array([1.0, np.nan, 2.0])),
    ("inf", np.array([1.0, np.inf, 2.0])),
    ("ints", np.arange(1, 6)),
    ("big", np.logspace(-8, 8, 9)),
):
    record(f"_build_matrix {label} dense", lambda a=arr: _build_matrix(a.copy()).toarray())
    record(f"_build_matrix {label} format", lambda a=arr: (_build_matrix(a.copy()).format, _build_matrix(a.copy()).shape, str(_build_matrix(a.copy()).dtype), type(_build_matrix(a.copy())).__name__))

    def unchanged(a=arr):
        b = a.copy()
        _build_matrix(b)
        return b

    record(f"_build_matrix {label} input untouched", unchanged)
record("_build_matrix empty", lambda: _build_matrix(np.array([])).toarray())
record("_build_matrix scalar", lambda: _build_matrix(2.0).toarray())
record("_build_matrix list", lambda: _build_matrix([1.0, 2.0, 3.0]).toarray())
record("_build_matrix 2d", lambda: _build_matrix(np.ones((3, 3))).toarray())
record("_build_matrix None", lambda: _build_matrix(None))

# ---------------------------------------------------------------- construction / dataclass plumbing
record("ctor no args", lambda: IdealReservoir())
record("ctor ideal", lambda: IdealReservoir(10, 100.0, 8000.0))
record("ctor ideal kw", lambda: IdealReservoir(nx=10, pressure_fracface=100.0, pressure_initial=8000.0, fluid=None))
record("ctor extra kw", lambda: IdealReservoir(10, 100.0, 8000.0, None, 3))
record("ctor two", lambda: repr(TwoPhaseReservoir(10, 100.0, 8000.0, None, 0.2)))
record("ctor multi", lambda: repr(MultiPhaseReservoir(10, 100.0, 8000.0, None, 0.7, 0.1, 0.2)))
record("eq same", lambda: IdealReservoir(10, 100.0, 8000.0) == IdealReservoir(10, 100.0, 8000.0))
record("eq diff", lambda: IdealReservoir(10, 100.0, 8000.0) == IdealReservoir(11, 100.0, 8000.0))
record("eq cross class", lambda: IdealReservoir(10, 100.0, 8000.0) == SinglePhaseReservoir(10, 100.0, 8000.0))
record("hash", lambda: hash(IdealReservoir(10, 100.0, 8000.0)))
record("ideal fvf scalar", lambda: IdealReservoir(10, 100.0, 8000.0).fvf_scale())
record("ideal fvf array", lambda: IdealReservoir(10, np.array([100.0, 200.0]), 8000.0).fvf_scale())
record("ideal fvf zero pi", lambda: IdealReservoir(10, 100.0, 0.0).fvf_scale())
record("ideal fvf str", lambda: IdealReservoir(10, "a", 8000.0).fvf_scale())
record("ideal alpha", lambda: IdealReservoir(10, 100.0, 8000.0).alpha_scaled(np.linspace(0, 1, 4)))
record("ideal alpha int", lambda: IdealReservoir(10, 100.0, 8000.0).alpha_scaled(np.arange(3)))
record("single fvf", lambda: SinglePhaseReservoir(10, 100.0, 8000.0, fluids["gas8000"]).fvf_scale())
record("single alpha", lambda: SinglePhaseReservoir(10, 100.0, 8000.0, fluids["gas8000"]).alpha_scaled(np.linspace(0.01, 1, 6)))
record("single alpha nofluid", lambda: SinglePhaseReservoir(10, 100.0, 8000.0).alpha_scaled(np.linspace(0.01, 1, 6)))
record("multi alpha nofluid", lambda: MultiPhaseReservoir(10, 100.0, 8000.0).alpha_scaled(np.ones(3), None))
record("multi step sat", lambda: MultiPhaseReservoir(10, 100.0, 8000.0)._step_saturation(None, None, None))
record("vars fresh", lambda: sorted(vars(IdealReservoir(10, 100.0, 8000.0))))
record("class dict keys", lambda: sorted(k for k in vars(IdealReservoir) if k in ("__getstate__", "__setstate__", "__copy__", "__deepcopy__", "__reduce__", "__slots__", "__hash__", "__eq__", "__repr__", "__post_init__")))


def subclassing():
    from dataclasses import dataclass

    @dataclass
    class Custom(SinglePhaseReservoir):
        extra: float = 2.0

        def fvf_scale(self):
            return 0.5

    class Plain(IdealReservoir):
        def alpha_scaled(self, pseudopressure):
            return 2.0 * np.ones_like(pseudopressure)

    c = Custom(6, 100.0, 8000.0, fluids["gas8000"])
    c.simulate(times["lin5"])
    p = Plain(6, 100.0, 8000.0)
    p.simulate(times["lin5"])
    return (repr(c)[:40], fmt(c.recovery_factor()), fmt(p.pseudopressure), fmt(p.recovery_factor()))


record("subclassing", subclassing)


def subclass_with_class_kwargs():
    class Odd(IdealReservoir, flavour="x"):
        pass

    return Odd.__name__


record("subclass with class kwargs", subclass_with_class_kwargs)


def subclass_overriding_everything():
    class Mine(SinglePhaseReservoir):
        def simulate(self, time):
            self.time = time
            self.pseudopressure = np.ones((len(time), self.nx))

        def fvf_scale(self):
            return 2

    m = Mine(5, 1.0, 2.0)
    m.simulate(np.linspace(0, 1, 4))
    return (fmt(m.recovery_factor()), type(m).__mro__[1].__name__, Mine.__qualname__)


record("subclass overriding", subclass_overriding_everything)
record("class attrs not fields", lambda: [sorted(k.__dataclass_fields__) for k in (IdealReservoir, MultiPhaseReservoir)])
record("init signature", lambda: [str(__import__("inspect").signature(k)) for k in (IdealReservoir, SinglePhaseReservoir, TwoPhaseReservoir, MultiPhaseReservoir)])

# ---------------------------------------------------------------- simulations
cases = []
for nx in (2, 3, 4, 10, 30):
    cases.append(("Ideal", IdealReservoir, nx, 100.0, 8000.0, None))
cases.append(("Ideal", IdealReservoir, 1, 100.0, 8000.0, None))
cases.append(("Ideal", IdealReservoir, 0, 100.0, 8000.0, None))
cases.append(("Ideal", IdealReservoir, 2.5, 100.0, 8000.0, None))
cases.append(("Ideal+fluid", IdealReservoir, 12, 500.0, 8000.0, "gas8000"))
for fname in ("gas8000", "gas5000", "oil6000", "ideal7000"):
    for nx in (3, 10, 30):
        for pf in (100.0, 2000.0):
            cases.append(("Single", SinglePhaseReservoir, nx, pf, 8000.0, fname))
cases.append(("Single", SinglePhaseReservoir, 2, 100.0, 8000.0, "gas8000"))
cases.append(("Single", SinglePhaseReservoir, 1, 100.0, 8000.0, "gas8000"))
cases.append(("Single", SinglePhaseReservoir, 0, 100.0, 8000.0, "gas8000"))
cases.append(("Single-pf-out-of-range", SinglePhaseReservoir, 10, -5.0, 8000.0, "gas8000"))
cases.append(("Single-pf-huge", SinglePhaseReservoir, 10, 1e9, 8000.0, "gas8000"))
cases.append(("Single-nofluid", SinglePhaseReservoir, 10, 100.0, 8000.0, None))
cases.append(("Two", TwoPhaseReservoir, 10, 100.0, 8000.0, "gas8000"))
cases.append(("Two", TwoPhaseReservoir, 10, 100.0, 6000.0, "oil6000"))
cases.append(("Multi", MultiPhaseReservoir, 10, 100.0, 8000.0, "gas8000"))


def make(cls, nx, pf, pi, fname):
    fluid = fluids.get(fname) if fname else None
    if fname and fluid is None:
        raise LookupError(fname)
    return cls(nx, pf, pi, fluid)


for tag, cls, nx, pf, pi, fname in cases:
    for tname in ("sqrt60", "lin5", "two", "one", "empty", "nonmono", "repeat", "list", "int", "nan"):
        if tname in ("nonmono", "repeat", "list", "int", "nan", "empty", "one") and nx not in (10, 2):
            continue
        label = f"{tag} nx={nx} pf={pf} fluid={fname} t={tname}"
        t = times[tname]
        t = t.copy() if isinstance(t, np.ndarray) else list(t)
        try:
            r = make(cls, nx, pf, pi, fname)
        except Exception as e:  # noqa: BLE001
            out.append(f"{label} make: EXC {type(e).__name__}")
            continue
        record(f"{label} rf-before", lambda r=r: r.recovery_factor())
        record(f"{label} interp-before", lambda r=r: r.recovery_factor_interpolator())
        record(f"{label} simulate", lambda r=r, t=t: r.simulate(t))
        record(f"{label} attrs", lambda r=r: sorted(vars(r)))
        record(f"{label} time is input", lambda r=r, t=t: r.time is t)
        record(f"{label} pp", lambda r=r: r.pseudopressure)
        record(f"{label} rf", lambda r=r: r.recovery_factor())
        record(f"{label} rf cached is", lambda r=r: r.recovery is r.recovery_factor.__self__.recovery)
        record(f"{label} rf density", lambda r=r: r.recovery_factor(density=True))
        record(f"{label} rf time arg", lambda r=r, t=t: r.recovery_factor(t))
        record(f"{label} rf other time", lambda r=r: r.recovery_factor(np.array([1.0, 2.0])))
        record(f"{label} interp", lambda r=r: r.recovery_factor_interpolator()(np.array([-1.0, 0.0, 0.05, 0.3, 0.77, 5.0, 1e6])))
        record(f"{label} repr", lambda r=r: repr(r)[:120])


def chain(fn):
    try:
        fn()
    except Exception as e:  # noqa: BLE001
        return (type(e).__name__, str(e), type(e.__cause__).__name__, str(e.__cause__), e.__suppress_context__)
    return "no error"


for _cls in (IdealReservoir, SinglePhaseReservoir, TwoPhaseReservoir, MultiPhaseReservoir):
    record(f"chain rf {_cls.__name__}", lambda c=_cls: chain(lambda: c(5, 1.0, 2.0).recovery_factor()))
    record(f"chain rf time given {_cls.__name__}", lambda c=_cls: chain(lambda: c(5, 1.0, 2.0).recovery_factor(np.array([0.0, 1.0]))))
    record(f"chain interp {_cls.__name__}", lambda c=_cls: chain(lambda: c(5, 1.0, 2.0).recovery_factor_interpolator()))
record("chain series", lambda: chain(lambda: SinglePhaseReservoir(5, 100.0, 8000.0, fluids["gas8000"]).simulate(np.linspace(0, 1, 4), [1.0, 2.0])))
record("chain series generator", lambda: chain(lambda: SinglePhaseReservoir(5, 100.0, 8000.0, fluids["gas8000"]).simulate(np.linspace(0, 1, 4), (p for p in [1.0, 2.0]))))


def time_attr_only():
    r = IdealReservoir(5, 1.0, 2.0)
    r.time = np.array([0.0, 1.0])
    return chain(lambda: r.recovery_factor()), chain(lambda: r.recovery_factor_interpolator())


record("time attr only", time_attr_only)

# re-simulate clears cached recovery, interpolator recomputes
def resimulate(cls, fname):
    r = make(cls, 10, 100.0, 8000.0, fname)
    r.simulate(times["sqrt60"].copy())
    a = r.recovery_factor()
    had = hasattr(r, "recovery")
    r.simulate(times["lin5"].copy())
    cleared = not hasattr(r, "recovery")
    f = r.recovery_factor_interpolator()
    return (fmt(a), had, cleared, fmt(r.recovery), fmt(f(np.array([0.1, 0.5, 2.0]))))


record("resimulate ideal", lambda: resimulate(IdealReservoir, None))
record("resimulate single", lambda: resimulate(SinglePhaseReservoir, "gas8000"))

# ---------------------------------------------------------------- frac-face pressure series
tt = times["sqrt60"].copy()
series = {
    "const": np.full(len(tt), 100.0),
    "ramp": np.linspace(4000.0, 100.0, len(tt)),
    "steps": np.where(np.arange(len(tt)) < 30, 3000.0, 500.0),
    "list": list(np.linspace(4000.0, 100.0, len(tt))),
    "short": np.full(len(tt) - 1, 100.0),
    "long": np.full(len(tt) + 1, 100.0),
    "empty": np.array([]),
    "scalar": 100.0,
    "string": "x" * len(tt),
    "oor": np.full(len(tt), -10.0),
    "nan": np.full(len(tt), np.nan),
    "above-initial": np.full(len(tt), 7999.0),
    "2d": np.full((len(tt), 1), 100.0),
    "tuple": tuple(np.linspace(4000.0, 100.0, len(tt))),
}
for sname, s in series.items():
    for cls in (SinglePhaseReservoir,):
        r = cls(10, 100.0, 8000.0, fluids["gas8000"])
        label = f"fracface series {sname}"
        record(f"{label} simulate", lambda r=r, s=s: r.simulate(tt, s))
        record(f"{label} attrs", lambda r=r: sorted(vars(r)))
        record(f"{label} pp", lambda r=r: r.pseudopressure)
        record(f"{label} rf", lambda r=r: r.recovery_factor())
        record(f"{label} rf density", lambda r=r: r.recovery_factor(density=True))
        if isinstance(s, np.ndarray):
            record(f"{label} series untouched", lambda s=s: s)


def failing_series_keeps_state():
    r = SinglePhaseReservoir(10, 100.0, 8000.0, fluids["gas8000"])
    r.simulate(tt)
    r.recovery_factor()
    try:
        r.simulate(times["lin5"], np.ones(3))
    except ValueError as e:
        return (str(e), sorted(vars(r)), fmt(np.asarray(r.time)), fmt(r.pseudopressure))
    return "no error"


record("failing series state", failing_series_keeps_state)
record("two-phase series arg", lambda: TwoPhaseReservoir(10, 100.0, 8000.0, fluids["gas8000"]).simulate(tt, series["const"]))
record("ideal series arg", lambda: IdealReservoir(10, 100.0, 8000.0).simulate(tt, series["const"]))
record("pf array attr", lambda: (lambda r: (r.simulate(times["lin5"]), fmt(r.pseudopressure))[1])(SinglePhaseReservoir(10, np.array([100.0]), 8000.0, fluids["gas8000"])))
record("pf array attr len5", lambda: (lambda r: (r.simulate(times["lin5"]), fmt(r.pseudopressure))[1])(SinglePhaseReservoir(10, np.linspace(100.0, 500.0, 5), 8000.0, fluids["gas8000"])))

# ---------------------------------------------------------------- copy / pickle round trips
def roundtrips(cls, fname):
    r = make(cls, 10, 100.0, 8000.0, fname)
    res = []
    for stage in ("fresh", "simulated", "recovered"):
        if stage == "simulated":
            r.simulate(times["sqrt60"].copy())
        if stage == "recovered":
            r.recovery_factor()
        for how, fn in (
            ("copy", copy.copy),
            ("deepcopy", copy.deepcopy),
            ("pickle", lambda o: pickle.loads(pickle.dumps(o))),
        ):
            try:
                c = fn(r)
                info = [type(c).__name__, sorted(vars(c)), c.nx, c.pressure_fracface, c.pressure_initial]
                if how == "copy":
                    info.append(all(vars(c)[k] is vars(r)[k] for k in vars(r)))
                if how == "deepcopy" and hasattr(r, "pseudopressure"):
                    info.append(c.pseudopressure is not r.pseudopressure)
                if hasattr(c, "pseudopressure"):
                    info.append(fmt(c.pseudopressure))
                    info.append(fmt(c.recovery_factor()))
                    info.append(fmt(c.recovery_factor_interpolator()(np.array([0.2, 3.0, 50.0]))))
                res.append((stage, how, info))
            except Exception as e:  # noqa: BLE001
                res.append((stage, how, "EXC " + type(e).__name__))
    return res


record("roundtrips ideal", lambda: roundtrips(IdealReservoir, None))
record("roundtrips single", lambda: roundtrips(SinglePhaseReservoir, "gas8000"))
record("roundtrips two", lambda: roundtrips(TwoPhaseReservoir, "gas8000"))

# ---------------------------------------------------------------- global state must be left alone
record("np errstate after", lambda: sorted(np.geterr().items()))
record("warning filters count stable", lambda: isinstance(warnings.filters, list))
record("root logger level", lambda: logging.getLogger().level)
record("root logger handlers", lambda: len(logging.getLogger().handlers))
record("bluebonnet logger propagate", lambda: logging.getLogger("bluebonnet").propagate)

with open(sys.argv[1], "w") as fh:
    fh.write("\n".join(out) + "\n")
