"""Exercise bluebonnet.forecast.forecast and dump every result to a file.

Usage: PYTHONPATH=<tree>/src /venv/bin/python equiv.py <outfile>
"""

from __future__ import annotations

import copy
import sys
import warnings

import numpy as np
from scipy.interpolate import interp1d

from bluebonnet.flow import IdealReservoir
from bluebonnet.forecast import Bounds, ForecasterOnePhase
from bluebonnet.forecast import forecast as fmod

OUT = []


def show(x):
    """Full-precision, type-revealing representation."""
    if isinstance(x, np.ndarray):
        return (
            f"{type(x).__name__}[{x.dtype},{x.shape}]("
            + ",".join(show(v) for v in x.ravel().tolist())
            + ")"
        )
    if isinstance(x, (list, tuple)):
        return f"{type(x).__name__}(" + ",".join(show(v) for v in x) + ")"
    if isinstance(x, (float, np.floating)):
        return f"{type(x).__name__}:{float(x)!r}"
    return f"{type(x).__name__}:{x!r}"


def record(label, func, *args, **kwargs):
    with warnings.catch_warnings(record=True) as caught:
        warnings.simplefilter("always")
        try:
            res = show(func(*args, **kwargs))
        except Exception as exc:  # noqa: BLE001
            res = "EXC " + type(exc).__name__
    cats = sorted({w.category.__name__ for w in caught})
    OUT.append(f"{label} -> {res} warnings={cats}")


# ---------------------------------------------------------------- Bounds
bound_args = [
    dict(M=(0, 1), tau=(2, 3)),
    dict(M=(0.0, np.inf), tau=(1e-10, np.inf)),
    dict(M=[10.0, 500.0], tau=[0.1, 25.0]),
    dict(M=np.array([10.0, 500.0]), tau=np.array([0.1, 25.0])),
    dict(M=(1, 2, 3), tau=(0, 1)),
    dict(M=(1, 2), tau=(1,)),
    dict(M=(1, 2, 3), tau=(1,)),
    dict(M=(1, 0), tau=(0, 1)),
    dict(M=(1, 0), tau=(1,)),
    dict(M=(1, 0), tau=(20, 10)),
    dict(M=(0, 1), tau=(20, 10)),
    dict(M=(1, 1), tau=(0, 1)),
    dict(M=(0, 1), tau=(3.5, 3.5)),
    dict(M=(np.nan, 1), tau=(0, 1)),
    dict(M=(0, 1), tau=(np.nan, np.nan)),
    dict(M=(-0.0, 0.0), tau=(0, 1)),
    dict(M=5, tau=(0, 1)),
    dict(M=(0, 1), tau=None),
    dict(M=(), tau=()),
    dict(M="ab", tau=(0, 1)),
    dict(M=("a", 1), tau=(0, 1)),
    dict(M=(0, 1), tau=(None, 1)),
    dict(M=(np.float64(1.5), np.float64(0.5)), tau=(0, 1)),
    dict(M=(np.array([1.0, 2.0]), np.array([3.0, 4.0])), tau=(0, 1)),
]


def make_bounds_message(**kw):
    try:
        Bounds(**kw)
    except Exception as exc:  # noqa: BLE001
        return f"{type(exc).__name__}: {exc}" if isinstance(exc, ValueError) else type(exc).__name__
    return "ok"


for i, kw in enumerate(bound_args):
    record(f"Bounds[{i}] repr", lambda kw=kw: repr(Bounds(**kw)))
    record(f"Bounds[{i}] msg", make_bounds_message, **kw)
    record(f"Bounds[{i}] fit_bounds", lambda kw=kw: Bounds(**kw).fit_bounds())
record("Bounds positional", lambda: Bounds((0, 1), (2, 3)).fit_bounds())
record("Bounds positional bad", lambda: Bounds((0, 1), (20, 10)))
record("Bounds missing", lambda: Bounds((0, 1)))
record("Bounds eq", lambda: Bounds((0, 1), (2, 3)) == Bounds(M=(0, 1), tau=(2, 3)))
record("Bounds hash", lambda: hash(Bounds((0, 1), (2, 3))) == hash(Bounds((0, 1), (2, 3))))


def frozen():
    b = Bounds((0, 1), (2, 3))
    b.M = (1, 2)


record("Bounds frozen", frozen)
record("default bounds", lambda: repr(fmod._default_bounds))
record("default fit_bounds", lambda: fmod._default_bounds.fit_bounds())

# ------------------------------------------- regularize_initial_guess
reg_bounds = [
    Bounds(M=(10.0, 500.0), tau=(0.1, 25.0)),
    Bounds(M=(0, np.inf), tau=(1e-10, np.inf)),
    Bounds(M=(1, 4), tau=(2, 7)),
    Bounds(M=(-np.inf, -1.0), tau=(-5.0, 5.0)),
    Bounds(M=[10.0, 500.0], tau=np.array([0.1, 25.0])),
    Bounds(M=(np.nan, np.nan), tau=(np.nan, 1.0)),
]
guesses = [
    [100.0, 3.0],
    [5.0, 3.0],
    [1000.0, 3.0],
    [100.0, 0.01],
    [100.0, 100.0],
    [5.0, 0.01],
    [1000.0, 100.0],
    [5.0, 100.0],
    [10.0, 0.1],
    [500.0, 25.0],
    [np.nan, np.nan],
    [np.inf, np.inf],
    [-np.inf, -np.inf],
    [0, 0],
    [3, 9],
    [100.0],
    [5.0],
    [1000.0],
    [np.nan],
    [7],
    [],
    [100.0, 3.0, 8.0],
    [5.0, 0.01, 8.0],
    [np.float64(5.0), np.float64(100.0)],
    ["a", 1.0],
    [1.0, "a"],
    [None, None],
    [np.array([1.0, 2.0]), 1.0],
    [100.0, np.array([1.0, 2.0])],
]


def regularize(bounds, guess):
    guess = copy.deepcopy(guess)
    res = bounds.regularize_initial_guess(guess)
    return [res is guess, res, guess]


def regularize_partial(bounds, guess):
    """State of the caller's list after a failing call."""
    guess = copy.deepcopy(guess)
    try:
        bounds.regularize_initial_guess(guess)
    except Exception as exc:  # noqa: BLE001
        return [type(exc).__name__, guess]
    return ["ok", guess]


for i, b in enumerate(reg_bounds):
    for j, g in enumerate(guesses):
        record(f"regularize[{i},{j}]", regularize, b, g)
        record(f"regularize_partial[{i},{j}]", regularize_partial, b, g)
    record(f"regularize[{i},tuple]", regularize, b, (100.0, 3.0))
    record(f"regularize[{i},tuple-bad]", regularize, b, (1e6, 3.0))
    record(f"regularize[{i},ndarray]", regularize, b, np.array([5.0, 100.0]))
    record(f"regularize[{i},intarray]", regularize, b, np.array([5, 100]))
    record(f"regularize[{i},intarray-in]", regularize, b, np.array([20, 3]))
    record(f"regularize[{i},None]", regularize, b, None)
    record(f"regularize[{i},scalar]", regularize, b, 3.0)

# ------------------------------------------------ recovery factor curves
t_end, nx, nt = 6.0, 40, 400
time_scaled = np.linspace(0, np.sqrt(t_end), nt) ** 2
res = IdealReservoir(nx, 500.0, 5000.0, None)
res.simulate(time_scaled)
res.recovery_factor()
rf_interp = res.recovery_factor_interpolator()


def rf_analytic(ts):
    return 1.0 - np.exp(-np.sqrt(ts))


def rf_python(ts):
    """Plain-Python curve (keeps the type it is given)."""
    return ts / (1 + ts)


_table = np.linspace(0.0, 1.0, 11)


def rf_stored(ts):
    """Return the same stored array on every call."""
    return _table


class Counting:
    def __init__(self, f):
        self.f = f
        self.calls = []

    def __call__(self, ts):
        self.calls.append((type(ts).__name__, np.shape(ts)))
        return self.f(ts)


curves = {
    "interp": rf_interp,
    "analytic": rf_analytic,
    "python": rf_python,
    "interp_lin": interp1d([0.0, 1.0, 100.0], [0.0, 0.5, 1.0]),
    "interp_fill": interp1d(
        [0.0, 1.0, 100.0], [0.0, 0.5, 1.0], bounds_error=False, fill_value=(0.0, 1.0)
    ),
}

times = {
    "arr": np.array([0.0, 0.5, 1.0, 2.0, 4.0, 5.9]),
    "arr_int": np.array([0, 1, 2, 3, 5]),
    "arr_f32": np.array([0.0, 0.5, 1.0, 2.0], dtype=np.float32),
    "arr_2d": np.array([[0.0, 0.5], [1.0, 2.0]]),
    "arr_strided": np.linspace(0, 5.0, 12)[::3],
    "arr_fortran": np.asfortranarray(np.array([[0.0, 0.5, 1.5], [1.0, 2.0, 3.0]])),
    "arr_0d": np.array(1.5),
    "arr_empty": np.array([]),
    "arr_nan": np.array([0.0, np.nan, 1.0]),
    "arr_neg": np.array([-1.0, 0.0, 1.0]),
    "arr_big": np.array([0.0, 1e9]),
    "arr_bool": np.array([True, False]),
    "arr_obj": np.array([0.5, 1.0], dtype=object),
    "scalar": 1.5,
    "scalar_int": 2,
    "scalar_np": np.float64(1.5),
    "scalar_np32": np.float32(1.5),
    "list": [0.0, 0.5, 1.0],
    "tuple": (0.0, 0.5, 1.0),
    "none": None,
    "str": "abc",
    "masked": np.ma.masked_array([0.0, 0.5, 1.0], mask=[False, True, False]),
}
Ms = {
    "f": 300.0,
    "i": 300,
    "one": 1.0,
    "zero": 0.0,
    "neg": -2.5,
    "nan": np.nan,
    "np64": np.float64(12.5),
    "np32": np.float32(12.5),
    "npint": np.int64(7),
    "bool": True,
    "long": np.longdouble(2.5),
    "cplx": 2.0 + 1.0j,
    "big": 10**30,
    "arr": np.array([1.0, 2.0]),
    "arr6": np.arange(6.0),
    "str": "x",
}
taus = {
    "f": 3.0,
    "i": 3,
    "one": 1.0,
    "zero": 0.0,
    "neg": -2.0,
    "nan": np.nan,
    "inf": np.inf,
    "np64": np.float64(2.5),
    "np32": np.float32(2.5),
    "npint": np.int64(2),
    "long": np.longdouble(2.5),
    "arr6": np.arange(1.0, 7.0),
    "str": "x",
}

for cname, curve in curves.items():
    fc = ForecasterOnePhase(curve)
    for tname, t in times.items():
        for mname, M in Ms.items():
            for uname, tau in taus.items():
                # keep the product manageable: full cross only for the core cases
                core = mname in ("f", "i", "np64") or uname in ("f", "np64")
                if not core:
                    continue
                record(
                    f"forecast_cum[{cname},{tname},M={mname},tau={uname}]",
                    fc.forecast_cum,
                    t,
                    M,
                    tau,
                )
                record(
                    f"_forecast_cum_onephase[{cname},{tname},M={mname},tau={uname}]",
                    fmod._forecast_cum_onephase,
                    curve,
                    t,
                    M,
                    tau,
                )
    # keyword / partial arguments on an unfitted forecaster
    record(f"unfitted[{cname}] none", fc.forecast_cum, times["arr"])
    record(f"unfitted[{cname}] M only", fc.forecast_cum, times["arr"], 3.0)
    record(f"unfitted[{cname}] M kw", fc.forecast_cum, times["arr"], M=3.0)
    record(f"unfitted[{cname}] tau kw", fc.forecast_cum, times["arr"], tau=3.0)
    record(f"unfitted[{cname}] both kw", fc.forecast_cum, times["arr"], tau=3.0, M=2.0)
    record(f"unfitted[{cname}] time kw", lambda fc=fc: fc.forecast_cum(time_on_production=times["arr"], M=2.0, tau=3.0))
    record(f"unfitted[{cname}] hasattr", lambda fc=fc: [hasattr(fc, "M_"), hasattr(fc, "tau_")])

# the input arrays are not modified and the result is a new array
def aliasing():
    t = np.array([0.0, 0.5, 1.0, 2.0])
    t0 = t.copy()
    fc = ForecasterOnePhase(rf_analytic)
    a = fc.forecast_cum(t, 2.0, 3.0)
    b = fc.forecast_cum(t, 2.0, 3.0)
    a[:] = -1.0
    c = fc.forecast_cum(t, 2.0, 3.0)
    return [np.array_equal(t, t0), a is b, np.shares_memory(a, t), b, c]


record("aliasing", aliasing)


def stored_curve():
    before = _table.copy()
    fc = ForecasterOnePhase(rf_stored)
    a = fc.forecast_cum(np.arange(11.0), 2.0, 3.0)
    b = fc.forecast_cum(np.arange(11.0), 1.0, 1.0)
    return [np.array_equal(before, _table), a is _table, b is _table, np.shares_memory(b, _table), a, b]


record("stored_curve", stored_curve)


def call_log():
    c = Counting(rf_analytic)
    fc = ForecasterOnePhase(c)
    fc.forecast_cum(np.array([1.0, 2.0]), 2.0, 3.0)
    fc.forecast_cum(1.0, 2.0, 3.0)
    fc.forecast_cum(np.array(1.0), 2.0, 3.0)
    fc.forecast_cum(np.array([1, 2]), 2, 3)
    fc.forecast_cum([1.0, 2.0], 2.0, np.float64(3.0))
    return [repr(c.calls)]


record("call_log", call_log)

# -------------------------------------------------------------------- fit
record("ctor defaults", lambda: repr(ForecasterOnePhase(rf_python).bounds))
record("ctor eq", lambda: ForecasterOnePhase(rf_python) == ForecasterOnePhase(rf_python))
record("ctor no args", lambda: ForecasterOnePhase())
record("ctor kw", lambda: repr(ForecasterOnePhase(rf_curve=rf_python, bounds=Bounds((0, 1), (2, 3))).bounds))


def do_fit(curve, bounds, t, cum, tau="absent", positional=False, t_new=None):
    calls = Counting(curve)
    fc = ForecasterOnePhase(calls) if bounds is None else ForecasterOnePhase(calls, bounds)
    if tau == "absent":
        ret = fc.fit(t, cum)
    elif positional:
        ret = fc.fit(t, cum, tau)
    else:
        ret = fc.fit(t, cum, tau=tau)
    out = [
        ret,
        fc.M_,
        fc.tau_,
        fc.time_on_production is t,
        fc.cum_production is cum,
        len(calls.calls),
        sorted(k for k in vars(fc)),
        fc.forecast_cum(t if t_new is None else t_new),
        fc.forecast_cum(np.array([0.5, 1.0]), M=10.0),
        fc.forecast_cum(np.array([0.5, 1.0]), tau=2.0),
        fc.forecast_cum(1.0),
    ]
    return out


M_true, tau_true = 300.0, 3.0
cum_interp = M_true * rf_interp(time_scaled / tau_true)
t_days = np.linspace(1.0, 2000.0, 60)
cum_analytic = 1234.5 * rf_analytic(t_days / 420.0)
rng = np.random.default_rng(1234)
cum_noisy = cum_analytic * (1 + 0.02 * rng.standard_normal(t_days.size))

fits = {
    "interp": (rf_interp, None, time_scaled, cum_interp),
    "interp_bounds": (rf_interp, Bounds(M=(0, 500), tau=(0.1, 25)), time_scaled, cum_interp),
    "interp_bounds_low": (rf_interp, Bounds(M=(400, 500), tau=(35, 50)), time_scaled, cum_interp),
    "interp_bounds_hi": (rf_interp, Bounds(M=(1, 100), tau=(1.1, 2)), time_scaled, cum_interp),
    "analytic": (rf_analytic, None, t_days, cum_analytic),
    "analytic_noisy": (rf_analytic, None, t_days, cum_noisy),
    "analytic_bounds": (rf_analytic, Bounds(M=(10.0, 5000.0), tau=(1.0, 1e4)), t_days, cum_noisy),
    "analytic_bounds_tight": (rf_analytic, Bounds(M=(10.0, 1000.0), tau=(1.0, 100.0)), t_days, cum_noisy),
    "analytic_lists": (rf_analytic, None, list(t_days), list(cum_noisy)),
    "analytic_int": (rf_analytic, None, np.arange(1, 40), np.arange(1, 40) * 3),
    "python": (rf_python, None, t_days, 800.0 * rf_python(t_days / 150.0)),
    "nan_data": (rf_analytic, None, t_days, np.where(t_days > 1000, np.nan, cum_analytic)),
    "short": (rf_analytic, None, np.array([10.0]), np.array([5.0])),
    "two": (rf_analytic, None, np.array([10.0, 20.0]), np.array([5.0, 7.0])),
    "empty": (rf_analytic, None, np.array([]), np.array([])),
    "mismatch": (rf_analytic, None, t_days, cum_analytic[:-1]),
    "scalar_in": (rf_analytic, None, 3.0, 5.0),
    "none_in": (rf_analytic, None, None, None),
    "zero_cum": (rf_analytic, None, t_days, np.zeros_like(t_days)),
    "neg_cum": (rf_analytic, None, t_days, -cum_analytic),
    "interp_outside": (curves["interp_lin"], None, t_days, cum_analytic),
}
for name, (curve, bounds, t, cum) in fits.items():
    record(f"fit[{name}] free", do_fit, curve, bounds, t, cum)
    for tau in (3.0, 420.0, 420, np.float64(150.0), 0.0, -1.0, np.nan, np.inf, "x", [1.0]):
        record(f"fit[{name}] tau={tau!r}", do_fit, curve, bounds, t, cum, tau)
    record(f"fit[{name}] tau positional", do_fit, curve, bounds, t, cum, 420.0, True)
    record(f"fit[{name}] tau=None kw", do_fit, curve, bounds, t, cum, None)


def refit():
    fc = ForecasterOnePhase(rf_analytic)
    fc.fit(t_days, cum_analytic)
    first = (fc.M_, fc.tau_)
    fc.fit(t_days, cum_noisy, tau=400.0)
    second = (fc.M_, fc.tau_)
    fc.fit(t_days, cum_noisy)
    third = (fc.M_, fc.tau_)
    fc.M_ = None
    try:
        fc.forecast_cum(t_days)
        fourth = "ok"
    except Exception as exc:  # noqa: BLE001
        fourth = type(exc).__name__
    del fc.tau_
    try:
        fc.forecast_cum(t_days, M=1.0)
        fifth = "ok"
    except Exception as exc:  # noqa: BLE001
        fifth = type(exc).__name__
    fc.tau_ = None
    try:
        fc.forecast_cum(t_days, M=1.0)
        sixth = "ok"
    except Exception as exc:  # noqa: BLE001
        sixth = type(exc).__name__
    return [first, second, third, fourth, fifth, sixth]


record("refit", refit)


def fit_kw():
    fc = ForecasterOnePhase(rf_analytic)
    fc.fit(cum_production=cum_analytic, time_on_production=t_days, tau=None)
    return [fc.M_, fc.tau_]


record("fit_kw", fit_kw)


def swapped_curve():
    """rf_curve is read from the instance at call time."""
    fc = ForecasterOnePhase(rf_analytic)
    a = fc.forecast_cum(np.array([1.0, 2.0]), 2.0, 3.0)
    fc.rf_curve = rf_python
    b = fc.forecast_cum(np.array([1.0, 2.0]), 2.0, 3.0)
    fc.fit(t_days, 800.0 * rf_python(t_days / 150.0))
    return [a, b, fc.M_, fc.tau_]


record("swapped_curve", swapped_curve)


def bounds_not_mutated():
    b = Bounds(M=[10.0, 5000.0], tau=[1.0, 1e4])
    fc = ForecasterOnePhase(rf_analytic, b)
    fc.fit(t_days, cum_noisy)
    fc.fit(t_days, cum_noisy, tau=300.0)
    return [b.M, b.tau, t_days[:3], cum_noisy[:3]]


record("bounds_not_mutated", bounds_not_mutated)

# ------------------------- fits again with debug logging switched on
import io
import logging

_stream = io.StringIO()
_handler = logging.StreamHandler(_stream)
_root = logging.getLogger()
_root.addHandler(_handler)
_root.setLevel(logging.DEBUG)
logging.getLogger("bluebonnet").setLevel(logging.DEBUG)
for name, (curve, bounds, t, cum) in fits.items():
    record(f"fit+log[{name}] free", do_fit, curve, bounds, t, cum)
    for tau in (3.0, 420, np.float64(150.0), 0.0, np.nan, "x"):
        record(f"fit+log[{name}] tau={tau!r}", do_fit, curve, bounds, t, cum, tau)
record("refit+log", refit)
_root.removeHandler(_handler)
_root.setLevel(logging.WARNING)


def nested_fit():
    """A curve that itself runs a fit (independent per-call bookkeeping)."""
    inner = ForecasterOnePhase(rf_analytic)

    def curve(ts):
        inner.fit(t_days[:10], cum_analytic[:10], tau=400.0)
        return rf_analytic(ts)

    fc = ForecasterOnePhase(curve)
    fc.fit(t_days[:20], cum_analytic[:20])
    return [fc.M_, fc.tau_, inner.M_, inner.tau_]


record("nested_fit", nested_fit)


def two_instances():
    a = ForecasterOnePhase(rf_analytic)
    b = ForecasterOnePhase(rf_analytic, Bounds(M=(10.0, 5000.0), tau=(1.0, 1e4)))
    a.fit(t_days, cum_noisy)
    b.fit(t_days, cum_noisy, tau=300.0)
    a.fit(t_days, cum_noisy)
    return [a.M_, a.tau_, b.M_, b.tau_, sorted(vars(a)), sorted(vars(b))]


record("two_instances", two_instances)
record("module public names", lambda: sorted(n for n in dir(fmod) if not n.startswith("_") and n not in ("logging", "logger")))

with open(sys.argv[1], "w") as fh:
    fh.write("\n".join(OUT) + "\n")
