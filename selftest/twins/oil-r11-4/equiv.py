"""Equivalence harness for src/bluebonnet/fluids/oil.py.

Usage: PYTHONPATH=<tree>/src /venv/bin/python equiv.py <outfile>

Calls every public function of the oil module (and the Fluid methods built on
them) on scalars, arrays, both sides of the bubble point, the bubble point
itself, edge cases and inputs that raise, and writes type + value (or the
exception type) of every call to <outfile>.
"""

from __future__ import annotations

import itertools
import sys
import warnings

import numpy as np

from bluebonnet.fluids import Fluid, oil

warnings.simplefilter("ignore")

SIGNIFICANT = None  # set to an int to round floats to that many significant digits


def fmt_float(x):
    x = float(x)
    if SIGNIFICANT is None or x != x or x in (float("inf"), float("-inf")):
        return repr(x)
    return f"{x:.{SIGNIFICANT - 1}e}"


def fmt_complex(x):
    x = complex(x)
    return f"({fmt_float(x.real)},{fmt_float(x.imag)}j)"


def fmt(x):
    if isinstance(x, np.ndarray):
        if x.dtype.kind in "fiu":
            body = ",".join(fmt_float(v) for v in x.ravel())
        elif x.dtype.kind == "c":
            body = ",".join(fmt_complex(v) for v in x.ravel())
        else:
            body = repr(x.tolist())
        return f"ndarray[{x.dtype},{x.shape}]({body})"
    if isinstance(x, (bool, np.bool_)):
        return f"{type(x).__name__}({bool(x)})"
    if isinstance(x, (int, np.integer)):
        return f"{type(x).__name__}({int(x)})"
    if isinstance(x, (float, np.floating)):
        return f"{type(x).__name__}({fmt_float(x)})"
    if isinstance(x, (complex, np.complexfloating)):
        return f"{type(x).__name__}{fmt_complex(x)}"
    if isinstance(x, (tuple, list)):
        return type(x).__name__ + "(" + ";".join(fmt(v) for v in x) + ")"
    if hasattr(x, "to_numpy"):
        return f"{type(x).__name__}:" + fmt(x.to_numpy())
    return f"{type(x).__name__}:{x!r}"


LINES = []


def record(label, func, *args, **kwargs):
    try:
        out = fmt(func(*args, **kwargs))
    except BaseException as exc:  # noqa: BLE001
        out = "RAISES " + type(exc).__name__
    LINES.append(f"{label} -> {out}")


def short(a):
    if isinstance(a, np.ndarray):
        return f"arr{a.shape}{a.dtype}:{a.ravel()[:3].tolist()}"
    return f"{type(a).__name__}:{a!r}"


# ----------------------------------------------------------------- fluid sets
FLUIDS = [
    # temperature, api, gas sg, initial gor
    (200, 35, 0.8, 650),
    (200.0, 35.0, 0.8, 650.0),
    (180.5, 41.3, 0.72, 1210.0),
    (250, 22, 1.05, 180),
    (120.0, 50.0, 0.65, 2500.0),
    (np.float64(210.0), np.float64(30.0), np.float64(0.9), np.float64(400.0)),
    (300, 10, 0.6, 30),
    (200, 35, 0.8, 0),  # zero gas in solution: negative bubble point
    (200, 35, 0.8, 1),
]
BAD_FLUIDS = [
    (0, 35, 0.8, 650),
    (0.0, 35, 0.8, 650),
    (200, -131.5, 0.8, 650),
    (200, 35, 0, 650),
    (200, 35, 0.0, 650.0),
    (200, 35, -0.8, 650),
    (200, 35, 0.8, -650),
    (-40, 35, 0.8, 650),
    (200, -200, 0.8, 650),
    ("200", 35, 0.8, 650),
    (200, None, 0.8, 650),
    (200, 35, "gas", 650),
    (200, 35, 0.8, None),
    (200, 35, 0.8, [650, 700]),
    (200, 35, 0.8, np.array([650.0, 700.0])),
    (np.array([200.0, 210.0]), 35, 0.8, 650),
]

SCALAR_PRESSURES = [
    14.7,
    100,
    1000.0,
    2000,
    2000.0,
    2627.2017021875276,  # the bubble point of the first fluid
    2627.2017021875271,
    2627.2017021875280,
    3000,
    3_000.0,
    8000.5,
    14000,
    np.float64(1500.0),
    np.float64(5000.0),
    np.int64(2500),
    np.array(1800.0),
    np.array(4200.0),
    0,
    0.0,
    -10.0,
    -30.0,
    float("inf"),
    float("nan"),
]
BAD_PRESSURES = ["3000", None, [1000.0, 3000.0], (1000.0, 3000.0), 1 + 2j]


def array_pressures(p_bubble):
    pb = float(p_bubble)
    out = [
        np.array([100.0, 1000.0, 2000.0, 3000.0, 5000.0, 9000.0]),
        np.array([9000.0, 100.0, 5000.0, 1000.0]),
        np.linspace(14.7, 14000.0, 25),
        np.arange(500, 6000, 500),  # integer dtype
        np.array([50.0, 75.0]),
        np.array([12000.0, 13000.0, 14000.0]),
        np.array([2000.0]),
        np.array([7000.0]),
        np.array([], dtype=np.float64),
        np.array([[1000.0, 3000.0], [5000.0, 200.0]]),
        np.array([0.0, 1000.0, 6000.0]),
        np.array([-20.0, 1000.0, 6000.0]),
        np.array([1000.0, 6000.0], dtype=np.float32),
    ]
    if np.isfinite(pb) and pb > 0:
        out += [
            np.array([pb]),
            np.array([0.5 * pb, pb, 2.0 * pb]),
            np.array([np.nextafter(pb, 0.0), pb, np.nextafter(pb, 1e9)]),
            np.full(4, pb),
        ]
    return out


def bubble_point(fl):
    try:
        return oil.pressure_bubblepoint_Standing(*fl)
    except BaseException:  # noqa: BLE001
        return float("nan")


# ------------------------------------------------------ functions of the fluid
for fl in FLUIDS + BAD_FLUIDS:
    tag = ",".join(short(a) for a in fl)
    record(f"pb({tag})", oil.pressure_bubblepoint_Standing, *fl)
    record(f"bob({tag})", oil.b_o_bubblepoint_Standing, *fl)
    record(f"dbodgor({tag})", oil.db_o_dgor_Standing, *fl)

for fl in FLUIDS[:4]:
    t, api, sg, _ = fl
    for gor in (np.array([0.0, 10.0, 650.0, 3000.0]), np.array([]), np.array([[100.0], [900.0]]), np.array([100, 900])):
        tag = ",".join(short(a) for a in (t, api, sg, gor))
        record(f"bob_arr({tag})", oil.b_o_bubblepoint_Standing, t, api, sg, gor)
        record(f"dbodgor_arr({tag})", oil.db_o_dgor_Standing, t, api, sg, gor)

# ------------------------------------------- functions of fluid and pressure
PT_FUNCS = [
    ("bo", oil.b_o_Standing),
    ("gor", oil.solution_gor_Standing),
    ("dgor", oil.dgor_dpressure_Standing),
    ("co_us_St", oil.oil_compressibility_undersat_Standing),
    ("co_us_Sp", oil.oil_compressibility_undersat_Spivey),
    ("rho", oil.density_Standing),
    ("mu", oil.viscosity_beggs_robinson),
]

for fl in FLUIDS:
    pb = bubble_point(fl)
    tag = ",".join(short(a) for a in fl)
    pressures = SCALAR_PRESSURES + [pb, np.float64(pb) * 0.5, np.float64(pb) * 1.5]
    pressures += array_pressures(pb) + BAD_PRESSURES
    for p in pressures:
        for name, func in PT_FUNCS:
            if name == "bo" and isinstance(p, np.ndarray) and p.ndim and np.isnan(p.astype(float)).any():
                continue
            t, api, sg, gor = fl
            record(f"{name}({tag}|{short(p)})", func, t, p, api, sg, gor)

for fl in BAD_FLUIDS:
    tag = ",".join(short(a) for a in fl)
    for p in [1000.0, 3000, 6000.0, np.array([1000.0, 6000.0]), np.array([6000.0, 7000.0]), np.array([10.0, 20.0]), np.array([])]:
        for name, func in PT_FUNCS:
            t, api, sg, gor = fl
            record(f"{name}({tag}|{short(p)})", func, t, p, api, sg, gor)

# keyword calls and argument-count errors
record("kw_bo", oil.b_o_Standing, temperature=200, pressure=2000, api_gravity=35, gas_specific_gravity=0.8, solution_gor_initial=650)
record("kw_gor", oil.solution_gor_Standing, pressure=np.array([1000.0, 4000.0]), temperature=200, api_gravity=35, gas_specific_gravity=0.8, solution_gor_initial=650)
record("kw_dgor", oil.dgor_dpressure_Standing, pressure=1000.0, temperature=200, api_gravity=35, gas_specific_gravity=0.8, solution_gor_initial=650)
record("kw_mu", oil.viscosity_beggs_robinson, pressure=1000.0, temperature=200, api_gravity=35, gas_specific_gravity=0.8, solution_gor_initial=650)
record("kw_rho", oil.density_Standing, pressure=1000.0, temperature=200, api_gravity=35, gas_specific_gravity=0.8, solution_gor_initial=650)
record("kw_sp", oil.oil_compressibility_undersat_Spivey, pressure=4000.0, temperature=200, api_gravity=35, gas_specific_gravity=0.8, solution_gor_initial=650)
record("kw_st", oil.oil_compressibility_undersat_Standing, pressure=4000.0, temperature=200, api_gravity=35, gas_specific_gravity=0.8, solution_gor_initial=650)
record("kw_pb", oil.pressure_bubblepoint_Standing, temperature=200, api_gravity=35, gas_specific_gravity=0.8, solution_gor_initial=650)
record("kw_bob", oil.b_o_bubblepoint_Standing, temperature=200, api_gravity=35, gas_specific_gravity=0.8, solution_gor_initial=650)
record("kw_dbo", oil.db_o_dgor_Standing, temperature=200, api_gravity=35, gas_specific_gravity=0.8, solution_gor_initial=650)
for name, func in PT_FUNCS:
    record(f"argc4_{name}", func, 200, 2000, 35, 0.8)
    record(f"argc6_{name}", func, 200, 2000, 35, 0.8, 650, 1)
    record(f"badkw_{name}", func, 200, 2000, 35, 0.8, gor=650)

# ------------------------------------------------ total oil compressibility
CRITICALS = [(-72.2, 653), (-50.0, 640.0), (-90.0, 700.0)]
STANDARDS = [(), (60,), (60, 14.7), (70.0, 15.025)]
for fl, (tpc, ppc), std in itertools.product(FLUIDS[:6], CRITICALS, STANDARDS):
    pb = bubble_point(fl)
    t, api, sg, gor = fl
    tag = ",".join(short(a) for a in fl) + f"|{tpc},{ppc}|{std}"
    for p in [200.0, 1000, 2000.0, np.float64(pb) * 0.999, pb, np.float64(pb) * 1.001, 3000, 9000.0, np.float64(1500.0)]:
        record(f"co({tag}|{short(p)})", oil.oil_compressibility_Standing, t, p, api, sg, gor, tpc, ppc, *std)
for p in [0.0, -5.0, float("nan"), np.array([1000.0, 4000.0]), np.array([1000.0]), np.array([4000.0]), "x", None]:
    record(f"co_bad({short(p)})", oil.oil_compressibility_Standing, 200, p, 35, 0.8, 650, -72.2, 653)
for fl in BAD_FLUIDS:
    t, api, sg, gor = fl
    tag = ",".join(short(a) for a in fl)
    for p in (1000.0, 6000.0):
        record(f"co_badfl({tag}|{p})", oil.oil_compressibility_Standing, t, p, api, sg, gor, -72.2, 653)
record("co_kw", oil.oil_compressibility_Standing, 200, 1000.0, 35, 0.8, 650, temperature_pseudocritical=-72.2, pressure_pseudocritical=653, pressure_standard=14.65, temperature_standard=59.0)
record("co_argc", oil.oil_compressibility_Standing, 200, 1000.0, 35, 0.8, 650)

# --------------------------------------------------------- Fluid front end
for fl in FLUIDS[:6]:
    t, api, sg, gor = fl
    tag = ",".join(short(a) for a in fl)
    try:
        fluid = Fluid(t, api, sg, gor)
    except BaseException as exc:  # noqa: BLE001
        LINES.append(f"Fluid({tag}) RAISES {type(exc).__name__}")
        continue
    record(f"Fluid.pb({tag})", fluid.pressure_bubblepoint)
    pb = bubble_point(fl)
    for p in [2000.0, 3000, np.array([100.0, 2000.0, 3000.0, 8000.0]), np.linspace(100.0, 10000.0, 17), np.array([pb]), np.array([])]:
        record(f"Fluid.oil_FVF({tag}|{short(p)})", fluid.oil_FVF, p)
        record(f"Fluid.oil_viscosity({tag}|{short(p)})", fluid.oil_viscosity, p)

with open(sys.argv[1], "w") as fh:
    fh.write("\n".join(LINES) + "\n")
