"""Equivalence driver for bluebonnet.fluids.water and bluebonnet.fluids.fluid.

Usage: PYTHONPATH=<tree>/src python equiv.py <outfile>
Writes full-precision reprs (or exception type names) of every call result.
"""
from __future__ import annotations

import sys
import types
import warnings
from fractions import Fraction

import numpy as np
import pandas as pd

from bluebonnet.fluids import Fluid, build_pvt_gas, pseudopressure
from bluebonnet.fluids import fluid as fluid_mod
from bluebonnet.fluids import water

warnings.simplefilter("ignore")
np.set_printoptions(precision=17, floatmode="unique", threshold=10**9, linewidth=10**9)

lines: list[str] = []


def show(value) -> str:
    if isinstance(value, pd.DataFrame):
        parts = [
            "DataFrame",
            repr(list(value.columns)),
            repr([str(t) for t in value.dtypes]),
            repr(list(value.index[:3])) + repr(type(value.index).__name__),
            repr(value.shape),
        ]
        for col in value.columns:
            parts.append(col + "=" + show(value[col].to_numpy()))
        return " | ".join(parts)
    if isinstance(value, pd.Series):
        return "Series(" + repr(value.name) + "," + show(value.to_numpy()) + ")"
    if isinstance(value, np.ndarray):
        return (
            f"ndarray(shape={value.shape},dtype={value.dtype},"
            + repr([x.hex() if isinstance(x, float) else repr(x) for x in value.ravel().tolist()])
            + ")"
        )
    if isinstance(value, (float, np.floating)):
        return f"{type(value).__name__}:{float(value).hex()}:{value!r}"
    if isinstance(value, tuple):
        return type(value).__name__ + "(" + ", ".join(show(v) for v in value) + ")"
    return f"{type(value).__name__}:{value!r}"


def record(label, func, *args, **kwargs):
    try:
        out = show(func(*args, **kwargs))
    except BaseException as exc:  # noqa: BLE001
        out = "RAISES " + type(exc).__name__
    lines.append(f"{label} -> {out}")


# ----------------------------------------------------------------- water.py
temperatures = [60, 60.0, 200.0, 400, np.float64(250.0), np.float32(150.0), 32, -10.0, 0, 0.0]
pressures = [
    14.7,
    3000,
    3000.0,
    np.float64(5000.0),
    np.float32(1234.5),
    np.int64(2500),
    0,
    0.0,
    -100.0,
    1e6,
    float("inf"),
    float("nan"),
    np.array([14.7, 1000.0, 5000.0, 12000.0]),
    np.array([100, 2000, 9000]),
    np.array([[100.0, 200.0], [3000.0, 4000.0]]),
    np.array([]),
    np.array(2500.0),
    np.linspace(10.0, 14000.0, 23),
    np.array([1.0, 2.0], dtype=np.float32),
    pd.Series([100.0, 2500.0, 7000.0], name="pressure"),
    Fraction(5000, 3),
    True,
]
bad_pressures = [None, "3000", [1000.0, 2000.0], (1000.0,), {"p": 1.0}, 3000 + 1j]
salinities = [0, 0.0, 5, 15.0, 26.0, np.float64(10.0), -3.0, 100]

for T in temperatures:
    for p in pressures + bad_pressures:
        record(f"b_water_McCain({T!r},{p!r})", water.b_water_McCain, T, p)
        record(f"b_water_McCain_dp({T!r},{p!r})", water.b_water_McCain_dp, T, p)
for T in [60.0, 200, 400.0, np.float64(300.0), 0, 0.0, -5.0]:
    for p in pressures + bad_pressures:
        for s in salinities:
            record(f"compressibility({T!r},{p!r},{s!r})", water.compressibility_water_McCain, T, p, s)
            record(f"density({T!r},{p!r},{s!r})", water.density_water_McCain, T, p, s)
            record(f"viscosity({T!r},{p!r},{s!r})", water.viscosity_water_McCain, T, p, s)
# odd argument types / keyword calls / array temperature and salinity
arrT = np.array([100.0, 200.0, 300.0])
arrS = np.array([0.0, 5.0, 20.0])
arrP = np.array([1000.0, 2000.0, 3000.0])
for name in [
    "b_water_McCain",
    "b_water_McCain_dp",
]:
    f = getattr(water, name)
    record(name + " arrT", f, arrT, arrP)
    record(name + " arrT col", f, arrT[:, None], arrP)
    record(name + " kw", f, temperature=200.0, pressure=arrP)
    record(name + " kw swapped", f, pressure=1000.0, temperature=300)
    record(name + " strT", f, "200", 1000.0)
    record(name + " noneT", f, None, 1000.0)
    record(name + " listT", f, [200.0], 1000.0)
    record(name + " missing", f, 200.0)
    record(name + " extra", f, 200.0, 100.0, 3.0)
    record(name + " mismatched", f, arrT, np.array([1.0, 2.0]))
for name in [
    "compressibility_water_McCain",
    "density_water_McCain",
    "viscosity_water_McCain",
]:
    f = getattr(water, name)
    record(name + " arrT", f, arrT, arrP, arrS)
    record(name + " arrS", f, 200.0, 3000.0, arrS)
    record(name + " arrS col", f, 200.0, arrP, arrS[:, None])
    record(name + " kw", f, temperature=200.0, pressure=arrP, salinity=5.0)
    record(name + " kw mixed", f, 200.0, salinity=15, pressure=3000)
    record(name + " strS", f, 200.0, 1000.0, "5")
    record(name + " noneS", f, 200.0, 1000.0, None)
    record(name + " listS", f, 200.0, 1000.0, [5.0])
    record(name + " missing", f, 200.0, 1000.0)
    record(name + " extra", f, 200.0, 100.0, 3.0, 4.0)
    record(name + " mismatched", f, 200.0, arrP, np.array([1.0, 2.0]))
    record(name + " negT int", f, -5, 1000.0, 5.0)
    record(name + " negT float", f, -5.0, 1000.0, 5)
    record(name + " zeroT int", f, 0, 1000.0, 5.0)
    record(name + " complexT", f, 200 + 0j, 1000.0, 5.0)
    record(name + " SeriesS", f, 200.0, 1000.0, pd.Series([1.0, 2.0]))
record("docstring example", water.viscosity_water_McCain, 400, 3000, 15)
record("compress singular", water.compressibility_water_McCain, 403300.0 / 537, 0.0, 0.0)
record("compress singular int", water.compressibility_water_McCain, 0, 0, -403300.0 / 0.5415)
record("compress singular arr", water.compressibility_water_McCain, 403300.0 / 537, np.array([0.0, 1.0]), 0.0)

# ----------------------------------------------------------------- fluid.py
lines.append("constants -> " + show((fluid_mod.PRESSURE_STANDARD, fluid_mod.TEMPERATURE_STANDARD)))
for attr in ["Fluid", "build_pvt_gas", "pseudopressure", "PRESSURE_STANDARD", "TEMPERATURE_STANDARD",
             "b_water_McCain", "viscosity_water_McCain", "cumulative_trapezoid", "np", "pd"]:
    lines.append(f"hasattr fluid.{attr} -> {hasattr(fluid_mod, attr)}")
for attr in ["b_water_McCain", "b_water_McCain_dp", "compressibility_water_McCain",
             "density_water_McCain", "viscosity_water_McCain", "np"]:
    lines.append(f"hasattr water.{attr} -> {hasattr(water, attr)}")

record("Fluid repr", lambda: repr(Fluid(200, 35, 0.8, 650)))
record("Fluid repr full", lambda: repr(Fluid(200.0, 35.0, 0.8, 650.0, 5.0, 0.2)))
record("Fluid eq", lambda: Fluid(200, 35, 0.8, 650) == Fluid(200.0, 35, 0.8, 650, 0.0))
record("Fluid fields", lambda: [f.name for f in __import__("dataclasses").fields(Fluid)])
record("Fluid missing", Fluid, 200, 35, 0.8)
record("Fluid extra", Fluid, 200, 35, 0.8, 650, 1, 2, 3)
record("Fluid kw", lambda: repr(Fluid(temperature=150, api_gravity=40, gas_specific_gravity=0.7,
                                       solution_gor_initial=500, salinity=3, water_saturation_initial=0.1)))

fluids = {
    "black": Fluid(200, 35, 0.8, 650),
    "salty": Fluid(200.0, 35.0, 0.8, 650.0, 15.0, 0.25),
    "hot": Fluid(400, 45, 0.65, 1200, salinity=5),
    "np": Fluid(np.float64(250.0), np.float64(30.0), np.float64(0.75), np.float64(300.0)),
    "dead": Fluid(150, 25, 0.9, 0),
    "strT": Fluid("200", 35, 0.8, 650),
    "noneT": Fluid(None, 35, 0.8, 650),
}
fluid_pressures = [
    np.array([14.7, 1000.0, 5000.0, 12000.0]),
    np.array([100, 2000, 9000]),
    np.linspace(100.0, 8000.0, 9),
    np.array([2500.0]),
    np.array([]),
    np.array([[100.0, 200.0], [3000.0, 4000.0]]),
    np.array(2500.0),
    [500.0, 1500.0, 4500.0],
    (500.0, 1500),
    [],
    iter([800.0, 900.0]),
    range(1000, 4000, 1000),
    pd.Series([100.0, 2500.0, 7000.0], name="pressure"),
    3000.0,
    3000,
    np.float64(3000.0),
    None,
    "3000",
    ["a", "b"],
    [1000.0, None],
    {1000.0: 1, 2000.0: 2},
    np.array([np.nan, 1000.0]),
    np.array([0.0, -50.0, 1000.0]),
]


def make_pressure(p):
    # iterators are consumed: rebuild for each call
    if isinstance(p, type(iter([]))):
        return iter([800.0, 900.0])
    return p


tpc_ppc = [(-102.0, 649.0), (-70, 660), (np.float64(-90.2), np.float64(655.5))]
for fname, fl in fluids.items():
    for ip, p in enumerate(fluid_pressures):
        tag = f"{fname}[{ip}]"
        record(f"water_FVF {tag}", fl.water_FVF, make_pressure(p))
        record(f"water_viscosity {tag}", fl.water_viscosity, make_pressure(p))
        record(f"oil_FVF {tag}", fl.oil_FVF, make_pressure(p))
        record(f"oil_viscosity {tag}", fl.oil_viscosity, make_pressure(p))
        for tpc, ppc in tpc_ppc[: (3 if ip < 4 else 1)]:
            record(f"gas_FVF {tag} {tpc!r} {ppc!r}", fl.gas_FVF, make_pressure(p), tpc, ppc)
            record(f"gas_viscosity {tag} {tpc!r} {ppc!r}", fl.gas_viscosity, make_pressure(p), tpc, ppc)
    record(f"pressure_bubblepoint {fname}", fl.pressure_bubblepoint)
    record(f"gas_FVF kw {fname}", lambda fl=fl: fl.gas_FVF(
        pressure=np.array([500.0, 2500.0]), temperature_pseudocritical=-102.0, pressure_pseudocritical=649.0))
    record(f"gas_viscosity kw {fname}", lambda fl=fl: fl.gas_viscosity(
        pressure_pseudocritical=649.0, pressure=np.array([500.0, 2500.0]), temperature_pseudocritical=-102.0))
    record(f"gas_FVF missing {fname}", fl.gas_FVF, np.array([500.0]))
    record(f"gas_viscosity missing {fname}", fl.gas_viscosity, np.array([500.0]), -102.0)
    record(f"water_FVF kw {fname}", lambda fl=fl: fl.water_FVF(pressure=np.array([500.0, 2500.0])))
    record(f"gas_FVF strpc {fname}", fl.gas_FVF, np.array([500.0]), "a", 649.0)
    record(f"gas_viscosity nonepc {fname}", fl.gas_viscosity, np.array([500.0]), -102.0, None)
    record(f"gas_FVF empty badpc {fname}", fl.gas_FVF, np.array([]), "a", None)
    record(f"gas_viscosity empty badpc {fname}", fl.gas_viscosity, [], "a", None)

# attribute changed after construction; object lacking an attribute
fl = Fluid(200, 35, 0.8, 650)
fl.temperature = 300.0
fl.gas_specific_gravity = 0.7
record("mutated water_FVF", fl.water_FVF, np.array([1000.0, 2000.0]))
record("mutated gas_viscosity", fl.gas_viscosity, np.array([1000.0, 2000.0]), -102.0, 649.0)
record("mutated gas_FVF", fl.gas_FVF, np.array([1000.0, 2000.0]), -102.0, 649.0)
ns = types.SimpleNamespace()
record("unbound water_FVF no attr", Fluid.water_FVF, ns, np.array([1000.0]))
record("unbound water_FVF no attr scalar", Fluid.water_FVF, ns, 1000.0)
record("unbound water_FVF no attr empty", Fluid.water_FVF, ns, [])
record("unbound gas_FVF no attr", Fluid.gas_FVF, ns, np.array([1000.0]), -102.0, 649.0)
record("unbound gas_FVF no attr empty", Fluid.gas_FVF, ns, [], -102.0, 649.0)
record("unbound gas_viscosity no attr", Fluid.gas_viscosity, ns, np.array([1000.0]), -102.0, 649.0)
record("unbound gas_viscosity no attr empty", Fluid.gas_viscosity, ns, [], -102.0, 649.0)
ns2 = types.SimpleNamespace(temperature=200.0)
record("unbound gas_viscosity no sg", Fluid.gas_viscosity, ns2, np.array([1000.0]), -102.0, 649.0)
record("unbound gas_viscosity no sg empty", Fluid.gas_viscosity, ns2, [], -102.0, 649.0)
record("unbound gas_viscosity no sg scalar", Fluid.gas_viscosity, ns2, 5.0, -102.0, 649.0)

# pseudopressure
pp_cases = {
    "basic": (np.array([10.0, 20.0, 50.0, 100.0]), np.array([0.01, 0.011, 0.012, 0.02]), np.array([1.0, 0.99, 0.95, 0.9])),
    "len1": (np.array([10.0]), np.array([0.01]), np.array([1.0])),
    "len2": (np.array([10.0, 30.0]), np.array([0.01, 0.02]), np.array([1.0, 0.9])),
    "empty": (np.array([]), np.array([]), np.array([])),
    "int": (np.array([10, 20, 40]), np.array([1, 2, 3]), np.array([1, 1, 2])),
    "lists": ([10.0, 20.0, 40.0], [0.01, 0.02, 0.03], [1.0, 0.9, 0.8]),
    "series": (pd.Series([10.0, 20.0, 40.0]), pd.Series([0.01, 0.02, 0.03]), pd.Series([1.0, 0.9, 0.8])),
    "series idx": (pd.Series([10.0, 20.0, 40.0], index=[3, 4, 5]), pd.Series([0.01, 0.02, 0.03], index=[3, 4, 5]),
                   pd.Series([1.0, 0.9, 0.8], index=[3, 4, 5])),
    "mismatch": (np.array([10.0, 20.0, 40.0]), np.array([0.01, 0.02]), np.array([1.0, 0.9, 0.8])),
    "scalar": (10.0, 0.01, 1.0),
    "2d": (np.array([[10.0, 20.0, 40.0], [5.0, 6.0, 9.0]]), np.array([[0.01, 0.02, 0.03], [0.01, 0.02, 0.03]]),
           np.ones((2, 3))),
    "zero visc": (np.array([10.0, 20.0, 40.0]), np.array([0.0, 0.02, 0.03]), np.array([1.0, 0.9, 0.8])),
    "nan": (np.array([10.0, np.nan, 40.0]), np.array([0.01, 0.02, 0.03]), np.array([1.0, 0.9, 0.8])),
    "unsorted": (np.array([40.0, 10.0, 20.0]), np.array([0.01, 0.02, 0.03]), np.array([1.0, 0.9, 0.8])),
    "none": (None, None, None),
    "str": ("a", "b", "c"),
    "float32": (np.array([10.0, 20.0, 40.0], dtype=np.float32), np.array([0.01, 0.02, 0.03], dtype=np.float32),
                np.array([1.0, 0.9, 0.8], dtype=np.float32)),
}
for k, (p, mu, z) in pp_cases.items():
    record(f"pseudopressure {k}", pseudopressure, p, mu, z)
    record(f"pseudopressure kw {k}", lambda p=p, mu=mu, z=z: pseudopressure(z_factor=z, viscosity=mu, pressure=p))
record("pseudopressure missing", pseudopressure, np.array([1.0, 2.0]), np.array([1.0, 2.0]))


# build_pvt_gas
class Recorder(dict):
    """Mapping that logs every key access (order and count of look-ups)."""

    def __init__(self, *a, **k):
        super().__init__(*a, **k)
        self.log = []

    def __getitem__(self, key):
        self.log.append(key)
        return super().__getitem__(key)


def gas(**over):
    d = {
        "N2": 0.01,
        "H2S": 0.0,
        "CO2": 0.02,
        "Gas Specific Gravity": 0.7,
        "Reservoir Temperature (deg F)": 200.0,
    }
    d.update(over)
    return d


gas_cases = {
    "default small": (gas(), "dry gas", 200),
    "wet": (gas(), "wet gas", 150.0),
    "int temperature": (gas(**{"Reservoir Temperature (deg F)": 250}), "dry gas", 100),
    "str gravity": (gas(**{"Gas Specific Gravity": "0.65"}), "dry gas", 60),
    "np gravity": (gas(**{"Gas Specific Gravity": np.float64(0.8)}), "wet gas", 60),
    "sour": (gas(N2=0.05, H2S=0.1, CO2=0.1), "dry gas", 80),
    "max 30 (2 rows)": (gas(), "dry gas", 30),
    "max 20 (1 row)": (gas(), "dry gas", 20),
    "max 20.5 (2 rows)": (gas(), "dry gas", 20.5),
    "max 10 (0 rows)": (gas(), "dry gas", 10),
    "max 5 (0 rows)": (gas(), "dry gas", 5),
    "max -5": (gas(), "dry gas", -5),
    "bad dryness": (gas(), "damp gas", 60),
    "dryness case": (gas(), "Dry Gas", 60),
    "missing N2": ({k: v for k, v in gas().items() if k != "N2"}, "dry gas", 60),
    "missing T": ({k: v for k, v in gas().items() if k != "Reservoir Temperature (deg F)"}, "dry gas", 60),
    "missing T 0 rows": ({k: v for k, v in gas().items() if k != "Reservoir Temperature (deg F)"}, "dry gas", 10),
    "missing SG": ({k: v for k, v in gas().items() if k != "Gas Specific Gravity"}, "dry gas", 60),
    "none T": (gas(**{"Reservoir Temperature (deg F)": None}), "dry gas", 60),
    "none T 0 rows": (gas(**{"Reservoir Temperature (deg F)": None}), "dry gas", 10),
    "str T": (gas(**{"Reservoir Temperature (deg F)": "200"}), "dry gas", 60),
    "str T 0 rows": (gas(**{"Reservoir Temperature (deg F)": "200"}), "dry gas", 10),
    "str T bad 0 rows": (gas(**{"Reservoir Temperature (deg F)": "hot"}), "dry gas", 10),
    "array T 0 rows": (gas(**{"Reservoir Temperature (deg F)": np.array([1.0, 2.0])}), "dry gas", 10),
    "bad gravity": (gas(**{"Gas Specific Gravity": "heavy"}), "dry gas", 60),
    "none max": (gas(), "dry gas", None),
    "str max": (gas(), "dry gas", "200"),
    "nan max": (gas(), "dry gas", float("nan")),
    "not mapping": ([0.01, 0.0, 0.02, 0.7, 200.0], "dry gas", 60),
    "series mapping": (pd.Series(gas()), "dry gas", 60),
    "cold": (gas(**{"Reservoir Temperature (deg F)": -400.0}), "dry gas", 60),
    "very cold": (gas(**{"Reservoir Temperature (deg F)": -459.67}), "dry gas", 60),
}
for k, (gv, dryness, pmax) in gas_cases.items():
    record(f"build_pvt_gas {k}", build_pvt_gas, gv, dryness, pmax)
record("build_pvt_gas kw", lambda: build_pvt_gas(gas_dryness="wet gas", gas_values=gas(), maximum_pressure=70))
record("build_pvt_gas missing arg", build_pvt_gas, gas())
rec = Recorder(gas())
record("build_pvt_gas recorder", build_pvt_gas, rec, "dry gas", 50)
lines.append("recorder keys set -> " + repr(sorted(set(rec.log))))
record("build_pvt_gas default max (first/last rows)", lambda: show(
    build_pvt_gas(gas(), "dry gas").iloc[[0, 1, -2, -1]]))
record("build_pvt_gas default max shape", lambda: build_pvt_gas(gas(), "dry gas").shape)
tbl = build_pvt_gas(gas(), "dry gas", 500)
record("pp consistency", lambda: show(
    pseudopressure(tbl["pressure"].to_numpy(), tbl["viscosity"].to_numpy(), tbl["z-factor"].to_numpy())))
record("table column mutation independent", lambda: (tbl.__setitem__("pressure", 0.0), show(tbl))[1])

with open(sys.argv[1], "w") as fh:
    fh.write("\n".join(lines) + "\n")
print(len(lines), "lines written")
