"""Equivalence probe for twin4: FlowProperties / FlowPropertiesSimple constructors."""

from __future__ import annotations

import os
import sys
import warnings

import numpy as np
import pandas as pd

from bluebonnet.flow import SinglePhaseReservoir
from bluebonnet.flow.flowproperties import (
    FlowProperties,
    FlowPropertiesOnePhase,
    FlowPropertiesSimple,
    FlowPropertiesTwoPhase,
    RelPermParams,
    relative_permeabilities_twophase,
    rescale_pseudopressure,
)

np.seterr(all="ignore")
DATA = os.environ.get("BB_DATA", "/tmp/twin_flowproperties/tests/data")
out = []


def fmt(x):
    return ",".join(repr(float(v)) for v in np.asarray(x, dtype=float).ravel())


def exc_text(exc):
    # the "Need pvt_props to have" messages join a set -> order depends on the hash seed
    msg = str(exc)
    if msg.startswith("Need pvt_props to have: "):
        msg = "Need pvt_props to have: " + ", ".join(sorted(msg.split(": ", 1)[1].split(", ")))
    return f"EXC {type(exc).__name__}: {msg}"


def describe(fp, m_probe):
    """Everything observable on a constructed FlowProperties."""
    lines = []
    props = fp.pvt_props
    lines.append(f"type={type(fp).__name__} props_type={type(props).__name__} keys={list(props.keys())}")
    lines.append("m_i=" + fmt(fp.m_i) + f" shape={np.shape(fp.m_i)}")
    for key in props.keys():
        if key not in ("alpha", "m-scaled", "pseudopressure"):
            continue  # untouched copies of the input columns
        try:
            lines.append(f"{key}=" + fmt(props[key]))
        except (TypeError, ValueError):
            lines.append(f"{key}=<non-numeric>")
    p = np.asarray(props["pressure"], dtype=float)
    p_probe = np.concatenate([p[:3], (p[:-1] + 0.37 * np.diff(p))[:: max(1, len(p) // 17)], p[-2:]])
    lines.append("m_scaled_func=" + fmt(fp.m_scaled_func(p_probe)))
    lines.append("alpha(m)=" + fmt(fp.alpha(m_probe)))
    lines.append("alpha(m_i)=" + fmt(fp.alpha(fp.m_i)))
    for bad in (p[0] - 1.0, p[-1] + 1.0):
        try:
            lines.append(f"m_scaled_func({bad})=" + fmt(fp.m_scaled_func(bad)))
        except Exception as exc:  # noqa: BLE001
            lines.append(f"m_scaled_func({bad})=" + exc_text(exc))
    lines.append("repr_equal=" + str(repr(fp) == repr(props)))
    lines.append("fill_value=" + fmt(fp.alpha.fill_value[0]) + "|" + fmt(fp.alpha.fill_value[1]))
    lines.append(f"bounds_error={fp.alpha.bounds_error} {fp.m_scaled_func.bounds_error}")
    return lines


def record(label, func, m_probe=None, action="always"):
    if m_probe is None:
        m_probe = np.concatenate([[-1.0, -1e-9, 0.0], np.linspace(0.0, 1.5, 41), [2.0, 1e9, np.nan]])
    with warnings.catch_warnings(record=True) as caught:
        warnings.simplefilter(action)
        try:
            fp = func()
            lines = describe(fp, m_probe) if isinstance(fp, FlowProperties) else [fmt(fp)]
        except Exception as exc:  # noqa: BLE001
            lines = [exc_text(exc)]
    lines.append(
        "warnings="
        + repr([(w.category.__name__, str(w.message), os.path.basename(w.filename)) for w in caught])
    )
    out.extend(f"{label}: {line}" for line in lines)


gas_renamer = {
    "P": "pressure",
    "Z-Factor": "z-factor",
    "Cg": "compressibility",
    "Viscosity": "viscosity",
    "Density": "density",
}
oil_renamer = {
    "P": "pressure",
    "Z-Factor": "z-factor",
    "Co": "compressibility",
    "Oil_Viscosity": "viscosity",
    "Oil_Density": "density",
}
tables = {
    "gas": pd.read_csv(os.path.join(DATA, "pvt_gas.csv")).rename(columns=gas_renamer),
    "ideal": pd.read_csv(os.path.join(DATA, "pvt_ideal_gas.csv")).rename(columns=gas_renamer),
    "oil": pd.read_csv(os.path.join(DATA, "pvt_oil.csv")).rename(columns=oil_renamer),
    "haynesville": pd.read_csv(os.path.join(DATA, "pvt_gas_HAYNESVILLE SHALE_20.csv"), index_col=0).rename(
        columns={"Density": "density"}
    ),
}
LONG = ["pseudopressure", "compressibility", "pressure", "viscosity", "z-factor"]

for tname, df in tables.items():
    p = df["pressure"].to_numpy(dtype=float)
    p_is = [8000.0, 8000, float(p[1]), float(p[-1]), 0.5 * (p[0] + p[1]), float(p[0]), 1234.5678,
            float(p[-1]) + 1.0, float(p[0]) - 1.0, np.array([3000.0, 5000.0]), float("nan")]
    for p_i in p_is:
        for cname, cls in (("FP", FlowProperties), ("Simple", FlowPropertiesSimple)):
            record(f"{cname}[{tname}|df|p_i={p_i!r}]", lambda df=df, p_i=p_i, cls=cls: cls(df, p_i))
    # dict of arrays, dict of Series, minimal-column frames
    as_dict = {k: df[k].to_numpy() for k in LONG}
    as_series_dict = {k: df[k] for k in LONG + ["density"]}
    for cname, cls in (("FP", FlowProperties), ("Simple", FlowPropertiesSimple)):
        record(f"{cname}[{tname}|dict]", lambda d=as_dict, cls=cls: cls(d, 6000.0))
        record(f"{cname}[{tname}|dict_series]", lambda d=as_series_dict, cls=cls: cls(d, 6000.0))
        record(f"{cname}[{tname}|df_long_only]", lambda df=df, cls=cls: cls(df[LONG], 6000.0))
    # input must not be modified
    before_cols = list(df.columns)
    before_keys = list(as_dict.keys())
    FlowProperties(df, 5000.0)
    FlowProperties(as_dict, 5000.0)
    FlowPropertiesSimple(as_dict, 5000.0)
    out.append(f"unmodified[{tname}]: {list(df.columns) == before_cols} {list(as_dict.keys()) == before_keys}")

    # user-supplied alpha -> short branch (warns); with and without the long columns
    alpha_user = 1.0 / (df["compressibility"] * df["viscosity"]) * 1.5 + 3.0
    df_alpha = df.assign(alpha=alpha_user)
    df_short = df_alpha[["pressure", "pseudopressure", "alpha"]]
    d_short = {k: df_short[k].to_numpy() for k in df_short.columns}
    for aname, table in (("df_alpha", df_alpha), ("df_short", df_short), ("dict_short", d_short)):
        for p_i in (7000.0, float(p[1]), 0.5 * (p[0] + p[1]), float(p[-1]) + 5.0):
            record(f"FP[{tname}|{aname}|p_i={p_i!r}]", lambda t=table, p_i=p_i: FlowProperties(t, p_i))
        record(
            f"FP[{tname}|{aname}|warnings as errors]",
            lambda t=table: FlowProperties(t, 7000.0),
            action="error",
        )
        record(f"Simple[{tname}|{aname}]", lambda t=table: FlowPropertiesSimple(t, 7000.0))
    # alpha non-monotone / with NaN: min() / max() builtins are order dependent
    alpha_nan = alpha_user.copy()
    alpha_nan.iloc[3] = np.nan
    record(f"FP[{tname}|alpha_nan]", lambda: FlowProperties(df_short.assign(alpha=alpha_nan), 7000.0))
    alpha_nan0 = alpha_user.copy()
    alpha_nan0.iloc[0] = np.nan
    record(f"FP[{tname}|alpha_nan0]", lambda: FlowProperties(df_short.assign(alpha=alpha_nan0), 7000.0))

    # missing columns, one at a time and in groups
    for drop in LONG:
        record(f"FP[{tname}|drop {drop}]", lambda drop=drop: FlowProperties(df.drop(columns=[drop]), 6000.0))
        record(f"Simple[{tname}|drop {drop}]", lambda drop=drop: FlowPropertiesSimple(df.drop(columns=[drop]), 6000.0))
        record(f"FP[{tname}|alpha, drop {drop}]", lambda drop=drop: FlowProperties(df_alpha.drop(columns=[drop]), 6000.0))
    record(f"FP[{tname}|alpha only]", lambda: FlowProperties(df_alpha[["alpha", "pressure"]], 6000.0))
    record(f"FP[{tname}|empty dict]", lambda: FlowProperties({}, 6000.0))
    record(f"Simple[{tname}|empty dict]", lambda: FlowPropertiesSimple({}, 6000.0))
    record(f"FP[{tname}|None]", lambda: FlowProperties(None, 6000.0))
    record(f"FP[{tname}|one row]", lambda: FlowProperties(df.iloc[:1], 6000.0))
    record(f"FP[{tname}|two rows]", lambda: FlowProperties(df.iloc[5:7], float(p[5])))
    record(f"FP[{tname}|alpha one row]", lambda: FlowProperties(df_short.iloc[:1], 6000.0))
    record(f"FP[{tname}|ragged dict]", lambda: FlowProperties({**as_dict, "viscosity": as_dict["viscosity"][:-1]}, 6000.0))
    record(f"FP[{tname}|alias]", lambda: FlowPropertiesOnePhase(df, 4321.0))

# downstream: two-phase construction goes through cls(...) with a user alpha
Sw = 0.1
pvt_oil = pd.read_csv(os.path.join(DATA, "pvt_oil.csv"))
pvt_water = pd.read_csv(os.path.join(DATA, "pvt_water.csv")).rename(
    columns={"T": "temperature", "P": "pressure", "Viscosity": "mu_w"}
)
df_pvt = (
    pvt_water.drop(columns=["temperature"])
    .merge(
        pvt_oil.rename(
            columns={"T": "temperature", "P": "pressure", "Oil_Viscosity": "mu_o",
                     "Gas_Viscosity": "mu_g", "Rso": "Rs"}
        ),
        on="pressure",
    )
    .assign(Rv=0)
)
df_pvt["So"] = (1 - Sw) / ((df_pvt["Rs"].max() - df_pvt["Rs"]) * df_pvt["Bg"] / df_pvt["Bo"] / 5.61458 + 1)
relperm = RelPermParams(n_o=1, n_g=1, n_w=1, S_or=0, S_gc=0, S_wc=0.1, k_ro_max=1, k_rw_max=1, k_rg_max=1)
df_kr = relative_permeabilities_twophase(relperm)
densities = {"rho_o0": 141.5 / (45 + 131.5), "rho_g0": 1.03e-3, "rho_w0": 1}
for p_frac, p_res in ((1000, 8000.0), (200.0, 5000.0), (1000, 9500.0)):
    record(
        f"TwoPhase[{p_frac}|{p_res}]",
        lambda p_frac=p_frac, p_res=p_res: FlowPropertiesTwoPhase.from_table(
            rescale_pseudopressure(df_pvt, p_frac, min(p_res, 9000.0)), df_kr, densities, 0.1, Sw, p_res
        ),
    )

# downstream: a short simulation using the constructed objects
for tname in ("gas", "oil"):
    for cls in (FlowProperties, FlowPropertiesSimple):

        def simulate(tname=tname, cls=cls):
            fluid = cls(tables[tname], 8000.0)
            res = SinglePhaseReservoir(20, 1000.0, 8000.0, fluid)
            t = np.linspace(0, 2, 60)
            res.simulate(t)
            return np.concatenate([res.recovery_factor(), res.pseudopressure[-1]])

        record(f"simulate[{tname}|{cls.__name__}]", simulate)

with open(sys.argv[1], "w") as fh:
    fh.write("\n".join(out) + "\n")
