"""Equivalence driver for twin4: explicit single-pressure validation in
dgor_dpressure_Standing and oil_compressibility_Standing."""
import sys
import warnings

import numpy as np
import pandas as pd

from bluebonnet.fluids import oil


def show(x):
    if isinstance(x, pd.Series):
        return "Series" + show(x.to_numpy())
    if isinstance(x, np.ma.MaskedArray):
        return "masked" + show(np.asarray(x.filled(-999.0)))
    if isinstance(x, np.ndarray):
        return f"ndarray{x.shape}{x.dtype}" + repr([show(v) for v in x.ravel().tolist()])
    if isinstance(x, (float, np.floating)):
        return type(x).__name__ + ":" + repr(float(x))
    return type(x).__name__ + ":" + repr(x)


def call(out, label, f, *a, **k):
    with warnings.catch_warnings(record=True) as w:
        warnings.simplefilter("always")
        try:
            r = show(f(*a, **k))
        except BaseException as e:  # noqa: BLE001
            r = "EXC " + type(e).__name__
    cats = sorted({x.category.__name__ for x in w})
    out.append(f"{label} -> {r} warn={cats}")


def main(outfile):
    warnings.simplefilter("ignore")
    out = []
    f32, f16, ld = np.float32, np.float16, np.longdouble
    params = [
        (200, 35, 0.8, 650),
        (200.0, 35.0, 0.8, 650.0),
        (150.0, 45.0, 0.65, 1200.0),
        (250.0, 20.0, 1.1, 150.0),
        (100.0, 30.0, 0.7, 5.0),
        (200.0, 35.0, 0.8, 0.0),
        (np.float64(180.0), np.float64(40.0), np.float64(0.75), np.float64(800.0)),
        (f32(180.0), f32(40.0), f32(0.75), f32(800.0)),
        (ld(180.0), ld(40.0), ld(0.75), ld(800.0)),
        (np.array(200.0), 35.0, 0.8, 650.0),
        (np.array([200.0]), 35.0, 0.8, 650.0),
        (200.0, 35.0, 0.8, np.array([650.0])),
        (200.0, 35.0, 0.8, np.array([650.0, 700.0])),
        (200.0, 35.0, 0.8, np.array([650.0, 700.0, 800.0])),
        (200.0, 35.0, 0.8, np.array([[650.0], [700.0]])),
        (200.0, 35.0, 0.8, pd.Series([650.0, 700.0])),
        (200.0, 35.0, 0.8, [650.0, 700.0]),
        (200.0, 35.0, 0.8, float("nan")),
        (200.0, 35.0, 0.8, float("inf")),
        (200.0, 35.0, 0.0, 650.0),
        (200.0, 35.0, -0.8, 650.0),
        (200.0, 35.0, 0.8, -650.0),
        (0.0, 35.0, 0.8, 650.0),
        (200.0, 35.0, 0.8, 650 + 1j),
        ("a", 35.0, 0.8, 650.0),
        (200.0, None, 0.8, 650.0),
    ]
    pressures = {
        "f": 2000.0, "f_hi": 3000.0, "i": 2000, "i_hi": 9000, "low": 14.7, "zero": 0.0, "neg": -1.0,
        "nan": float("nan"), "inf": float("inf"), "np64": np.float64(2400.0), "np32": f32(2400.0),
        "np16": f16(2400.0), "ld": ld(2400.0), "npi": np.int64(2400), "bool": True,
        "0d": np.array(2000.0), "0d_hi": np.array(5000.0),
        "a1": np.array([2000.0]), "a1_hi": np.array([5000.0]), "a11": np.array([[2000.0]]),
        "a2": np.array([2000.0, 3000.0]), "a2_lo": np.array([100.0, 200.0]),
        "a2_hi": np.array([5000.0, 6000.0]), "a3": np.array([100.0, 3000.0, 7000.0]),
        "a2d": np.array([[100.0, 3000.0], [5000.0, 7000.0]]),
        "acol": np.array([[100.0], [3000.0]]),
        "a_int": np.array([100, 3000]), "a_u8": np.array([1, 200], dtype=np.uint8),
        "a_bool": np.array([True, False]), "a_f32": np.array([100, 3000], dtype=f32),
        "a_f16": np.array([100, 3000], dtype=f16), "a_ld": np.array([100, 3000], dtype=ld),
        "a_nan": np.array([np.nan, np.nan]), "a_inf": np.array([np.inf, -np.inf]),
        "a_cplx": np.array([100 + 0j, 3000 + 1j]), "a_obj": np.array([100.0, 3000.0], dtype=object),
        "a_objstr": np.array([100.0, "b"], dtype=object), "a_str": np.array(["a", "b"]),
        "a_dt": np.array(["2020-01-01", "2021-01-01"], dtype="datetime64[D]"),
        "a_td": np.array([1, 2], dtype="timedelta64[D]"),
        "a_empty": np.array([], dtype=float), "a_empty2d": np.empty((0, 2)),
        "masked": np.ma.masked_array([100.0, 3000.0], mask=[False, True]),
        "masked1": np.ma.masked_array([3000.0], mask=[False]),
        "matrix": np.asmatrix([[100.0, 3000.0]]),
        "series": pd.Series([100.0, 3000.0]), "series1": pd.Series([3000.0]),
        "list": [100.0, 3000.0], "list1": [3000.0], "tuple": (100.0, 3000.0),
        "none": None, "str": "x", "cplx": 2000 + 1j,
    }
    for pars in params:
        T, api, sg, gor = pars
        for name, p in pressures.items():
            call(out, f"dgor {pars!r} {name}", oil.dgor_dpressure_Standing, T, p, api, sg, gor)
            call(out, f"co {pars!r} {name}", oil.oil_compressibility_Standing,
                 T, p, api, sg, gor, -72.2, 653.0)
        call(out, f"co std {pars!r}", oil.oil_compressibility_Standing,
             T, 1500.0, api, sg, gor, -72.2, 653.0, 70.0, 15.025)
        call(out, f"co std arr {pars!r}", oil.oil_compressibility_Standing,
             T, np.array([1500.0, 2500.0]), api, sg, gor, -72.2, 653.0,
             temperature_standard=70.0, pressure_standard=15.025)
    # the documented way to treat arrays keeps working
    vec = np.vectorize(oil.dgor_dpressure_Standing, otypes=[float])
    call(out, "vectorized dgor", vec, 200.0, np.linspace(100.0, 6000.0, 25), 35.0, 0.8, 650.0)
    vec = np.vectorize(oil.oil_compressibility_Standing, otypes=[float])
    call(out, "vectorized co", vec, 200.0, np.linspace(100.0, 6000.0, 25), 35.0, 0.8, 650.0,
         -72.2, 653.0)
    with open(outfile, "w") as fh:
        fh.write("\n".join(out) + "\n")


if __name__ == "__main__":
    main(sys.argv[1])
