"""Equivalence driver for bluebonnet.flow.reservoir.

Usage: PYTHONPATH=<tree>/src /venv/bin/python equiv.py <outfile>

Exercises every public class/function of reservoir.py (and the module-level
matrix builder) on a broad set of inputs, including inputs that raise, and
writes full-precision results to <outfile>.
"""

from __future__ import annotations

import os
import sys
import warnings

import numpy as np
import pandas as pd

warnings.simplefilter("ignore")

from bluebonnet.flow import (  # noqa: E402
    FlowProperties,
    IdealReservoir,
    MultiPhaseReservoir,
    SinglePhaseReservoir,
    TwoPhaseReservoir,
)
from bluebonnet.flow import reservoir as reservoir_module  # noqa: E402

DATA = os.environ.get("BB_DATA", "/tmp/twin_reservoir/tests/data")
OUT: list[str] = []


def fmt(value) -> str:
    """Full-precision, type-tagged textual form of a result."""
    if isinstance(value, BaseException):
        cause = type(value.__cause__).__name__ if value.__cause__ is not None else "-"
        return f"EXC {type(value).__name__} cause={cause}"
    if isinstance(value, type):
        return f"TYPE {value.__name__}"
    if hasattr(value, "toarray") and hasattr(value, "format"):
        dense = value.toarray()
        return f"SPARSE {value.format} {value.dtype} {value.shape} nnz={value.nnz} " + fmt(dense)
    if isinstance(value, np.ndarray):
        flat = " ".join(repr(float(v)) for v in value.ravel())
        return f"ARR {value.dtype} {value.shape} [{flat}]"
    if isinstance(value, (float, np.floating)):
        return f"F {type(value).__name__} {float(value)!r}"
    if isinstance(value, (int, np.integer, bool, np.bool_)):
        return f"I {type(value).__name__} {value!r}"
    if isinstance(value, (tuple, list)):
        return "SEQ(" + "; ".join(fmt(v) for v in value) + ")"
    if callable(value) and hasattr(value, "fill_value"):  # scipy interp1d object
        try:
            return "INTERP " + fmt(np.asarray(value(query)))
        except BaseException as e:  # noqa: BLE001
            return "INTERP-" + fmt(e)
    text = repr(value)
    if " at 0x" in text:
        text = text.split(" at 0x")[0] + ">"
    return f"OBJ {type(value).__name__} {text}"


def record(label: str, func, *args, **kwargs):
    """Call func and record either its result or the exception it raised."""
    try:
        result = func(*args, **kwargs)
    except BaseException as e:  # noqa: BLE001
        # Messages written by the library itself are compared verbatim; messages that
        # come from the interpreter / numpy / scipy are not part of the contract.
        text = str(e)
        own = text.startswith(("Need to run", "Pressure time series", "scaling failed"))
        OUT.append(f"{label} :: {fmt(e)}" + (f" msg={text!r}" if own else ""))
        return None
    OUT.append(f"{label} :: {fmt(result)}")
    return result


def state(label: str, res):
    """Record which of the run-time attributes exist on the reservoir object."""
    flags = [name for name in ("time", "pseudopressure", "recovery") if hasattr(res, name)]
    OUT.append(f"{label} :: STATE {flags}")


# ---------------------------------------------------------------- fluids
gas_cols = {
    "P": "pressure",
    "Z-Factor": "z-factor",
    "Cg": "compressibility",
    "Viscosity": "viscosity",
    "Density": "density",
}
oil_cols = {
    "P": "pressure",
    "Z-Factor": "z-factor",
    "Co": "compressibility",
    "Oil_Viscosity": "viscosity",
    "Oil_Density": "density",
}
pvt_gas = pd.read_csv(os.path.join(DATA, "pvt_gas.csv")).rename(columns=gas_cols)
pvt_ideal = pd.read_csv(os.path.join(DATA, "pvt_ideal_gas.csv")).rename(columns=gas_cols)
pvt_oil = pd.read_csv(os.path.join(DATA, "pvt_oil.csv")).rename(columns=oil_cols)

fluids = {}
for name, table, p_i in (
    ("gas8000", pvt_gas, 8000.0),
    ("gas5000", pvt_gas, 5000.0),
    ("gas1234.5", pvt_gas, 1234.5),
    ("oil6000", pvt_oil, 6000.0),
    ("ideal7000", pvt_ideal.iloc[1:], 7000.0),
):
    try:
        fluids[name] = (FlowProperties(table, p_i), p_i)
    except BaseException as e:  # noqa: BLE001
        OUT.append(f"fluid {name} :: {fmt(e)}")


def time_grids():
    yield "sqrt40", np.linspace(0, np.sqrt(9.0), 40) ** 2
    yield "lin25", np.linspace(0, 2.0, 25)
    yield "late30", np.linspace(0, np.sqrt(100.0), 30) ** 2
    yield "irregular", np.array([0.0, 1e-6, 1e-4, 3e-4, 0.01, 0.5, 0.5, 0.75, 4.0, 40.0])
    yield "offset", np.array([1.0, 1.1, 1.3, 2.0, 5.0])
    yield "two", np.array([0.0, 0.3])
    yield "one", np.array([0.0])
    yield "int", np.arange(6)


def bad_times():
    yield "list", [0.0, 0.1, 0.2]
    yield "empty", np.array([])
    yield "zerodim", np.array(1.0)
    yield "none", None
    yield "twodim", np.linspace(0, 1, 12).reshape(6, 2)
    yield "twodim_col", np.linspace(0, 1, 6).reshape(6, 1)
    yield "nan", np.array([0.0, 0.1, np.nan, 0.3])
    yield "string", "abc"


query = np.array([-1.0, 0.0, 1e-7, 0.013, 0.2, 0.5, 1.0, 2.0, 8.99, 9.0, 50.0, 1e6])


def exercise_recovery(label, res):
    """All recovery related calls on an already simulated reservoir."""
    state(f"{label} state-after-sim", res)
    record(f"{label} pseudopressure", lambda: res.pseudopressure)
    record(f"{label} interp-fresh", lambda: res.recovery_factor_interpolator()(query))
    state(f"{label} state-after-interp", res)
    record(f"{label} rf-default", res.recovery_factor)
    record(f"{label} rf-density", res.recovery_factor, density=True)
    record(f"{label} rf-density-cached", lambda: res.recovery)
    record(f"{label} interp-after-density", lambda: res.recovery_factor_interpolator()(query))
    record(f"{label} rf-time-arg", res.recovery_factor, np.asarray(res.time) * 2.0)
    record(f"{label} rf-time-pos-density", res.recovery_factor, None, True)
    record(f"{label} rf-flux", res.recovery_factor, density=False)
    record(f"{label} interp-cached", lambda: res.recovery_factor_interpolator()(query))
    record(f"{label} interp-scalar", lambda: res.recovery_factor_interpolator()(0.37))
    record(f"{label} fvf", res.fvf_scale)


# ---------------------------------------------------------------- _build_matrix
builder = reservoir_module._build_matrix
rng = np.random.default_rng(20240611)
matrix_inputs = {
    "ones5": np.ones(5),
    "rand7": rng.uniform(0.0, 30.0, 7),
    "rand30": rng.uniform(1e-8, 1e4, 30),
    "neg4": np.array([-1.0, 0.5, -0.25, 3.0]),
    "tiny3": np.array([1e-300, 1e-17, 3e-16]),
    "huge3": np.array([1e300, 1e308, 1e17]),
    "naninf": np.array([np.nan, 1.0, np.inf, 2.0]),
    "two": np.array([0.3, 0.7]),
    "one": np.array([0.3]),
    "empty": np.array([]),
    "int": np.arange(1, 6),
    "float32": np.linspace(0.1, 2.0, 6).astype(np.float32),
    "scalar": 0.25,
    "npscalar": np.float64(0.25),
    "zerodim": np.array(0.25),
    "list": [0.1, 0.2, 0.3],
    "twodim": np.ones((3, 3)),
    "none": None,
    "complex": np.array([1 + 1j, 2.0, 3.0]),
}
for name, arr in matrix_inputs.items():
    before = None if not isinstance(arr, np.ndarray) else arr.copy()
    record(f"build_matrix {name}", builder, arr)
    if before is not None:
        same = np.array_equal(before, arr, equal_nan=True) if before.dtype.kind != "c" else True
        OUT.append(f"build_matrix {name} input-unchanged :: {same}")
record("build_matrix kw", lambda: builder(kt_h2=np.array([0.5, 1.5, 2.5])))

# ---------------------------------------------------------------- IdealReservoir
for nx in (2, 3, 10, 30):
    for pf, pi in ((100.0, 8000.0), (0.0, 5000.0), (2500, 3000)):
        for tname, t in time_grids():
            label = f"ideal nx={nx} pf={pf} pi={pi} t={tname}"
            res = IdealReservoir(nx, pf, pi, fluids["gas8000"][0])
            record(f"{label} simulate", res.simulate, t)
            exercise_recovery(label, res)

res = IdealReservoir(12, 100.0, 8000.0, None)
state("ideal fresh state", res)
record("ideal rf before sim", res.recovery_factor)
record("ideal rf before sim density", res.recovery_factor, density=True)
record("ideal rf before sim time-arg", res.recovery_factor, np.array([0.0, 1.0]))
record("ideal interp before sim", res.recovery_factor_interpolator)
record("ideal alpha_scaled", res.alpha_scaled, np.array([0.1, 0.5, 2.0]))
record("ideal alpha_scaled int", res.alpha_scaled, np.array([1, 2, 3]))
record("ideal alpha_scaled scalar", res.alpha_scaled, 0.3)
record("ideal simulate no-fluid", res.simulate, np.linspace(0, 1, 8))
record("ideal rf no-fluid flux", res.recovery_factor)
record("ideal rf no-fluid density", res.recovery_factor, density=True)
state("ideal no-fluid state", res)
# re-simulation must drop the cached recovery
record("ideal resimulate", res.simulate, np.linspace(0, 3, 5))
state("ideal state after resimulate", res)
record("ideal rf after resimulate", res.recovery_factor)
record("ideal interp after resimulate", lambda: res.recovery_factor_interpolator()(query))

for tname, t in bad_times():
    res = IdealReservoir(8, 100.0, 8000.0, fluids["gas8000"][0])
    record(f"ideal bad-time {tname} simulate", res.simulate, t)
    state(f"ideal bad-time {tname} state", res)
    record(f"ideal bad-time {tname} rf", res.recovery_factor)
    record(f"ideal bad-time {tname} interp", res.recovery_factor_interpolator)
    # bad time after a good run: the cached recovery is dropped first
    res = IdealReservoir(8, 100.0, 8000.0, fluids["gas8000"][0])
    res.simulate(np.linspace(0, 1, 6))
    res.recovery_factor()
    record(f"ideal good-then-bad {tname} simulate", res.simulate, t)
    state(f"ideal good-then-bad {tname} state", res)
    record(f"ideal good-then-bad {tname} rf", res.recovery_factor)

for nx in (1, 0, -1, 2.5, 4.0, None, "7", np.int64(5), True):
    res = IdealReservoir(nx, 100.0, 8000.0, fluids["gas8000"][0])
    record(f"ideal bad-nx {nx!r} simulate", res.simulate, np.linspace(0, 1, 5))
    state(f"ideal bad-nx {nx!r} state", res)
    record(f"ideal bad-nx {nx!r} rf", res.recovery_factor)
    record(f"ideal bad-nx {nx!r} rf-density", res.recovery_factor, density=True)

for pf, pi in (
    (100.0, 0.0),
    (100, 0),
    (np.array([100.0, 200.0]), 8000.0),
    (np.float64(100.0), np.float64(0.0)),
    (None, 8000.0),
    (100.0, "x"),
):
    res = IdealReservoir(5, pf, pi)
    record(f"ideal fvf pf={pf!r} pi={pi!r}", res.fvf_scale)
    record(f"ideal fvf pf={pf!r} pi={pi!r} simulate", res.simulate, np.linspace(0, 1, 4))
    record(f"ideal fvf pf={pf!r} pi={pi!r} rf", res.recovery_factor)

# manually assigned state (no simulate): time-arg route of recovery_factor
res = IdealReservoir(4, 100.0, 8000.0, fluids["gas8000"][0])
res.pseudopressure = np.array([[1.0, 1.0, 1.0, 1.0], [0.2, 0.6, 0.8, 0.9], [0.1, 0.3, 0.5, 0.6]])
record("ideal manual rf time-arg no self.time", res.recovery_factor, np.array([0.0, 1.0, 2.0]))
record("ideal manual rf density time-arg", res.recovery_factor, np.array([0.0, 1.0, 2.0]), True)
res.time = np.array([0.0, 1.0, 2.0])
record("ideal manual rf", res.recovery_factor)
res.time = np.array([0.0, 1.0])
record("ideal manual rf mismatched", res.recovery_factor)
res.pseudopressure = np.ones((3, 2))
res.time = np.array([0.0, 1.0, 2.0])
record("ideal manual rf too-narrow", res.recovery_factor)

# ---------------------------------------------------------------- SinglePhaseReservoir
for fname, (fluid, p_i) in fluids.items():
    for nx in (2, 5, 30):
        for pf in (100.0, 0.45 * p_i, p_i):
            for tname, t in time_grids():
                label = f"single {fname} nx={nx} pf={pf} t={tname}"
                res = SinglePhaseReservoir(nx, pf, p_i, fluid)
                record(f"{label} simulate", res.simulate, t)
                exercise_recovery(label, res)

fluid, p_i = fluids["gas8000"]
t = np.linspace(0, 2.0, 16) ** 2
series = {
    "const": np.full(16, 500.0),
    "declining": np.linspace(7000.0, 200.0, 16),
    "buildup": np.concatenate([np.linspace(6000.0, 1000.0, 8), np.linspace(1000.0, 9500.0, 8)]),
    "above-initial": np.full(16, 9000.0),
    "list": list(np.linspace(4000.0, 300.0, 16)),
    "int": np.arange(16) * 100 + 100,
    "short": np.full(15, 500.0),
    "long": np.full(17, 500.0),
    "empty": np.array([]),
    "out-of-range-high": np.full(16, 1e6),
    "out-of-range-low": np.full(16, -5.0),
    "nan": np.array([500.0] * 8 + [np.nan] * 8),
    "scalar": 500.0,
    "twodim": np.full((16, 2), 500.0),
    "twodim-col": np.full((16, 1), 500.0),
    "strings": ["a"] * 16,
}
for sname, pff in series.items():
    for nx in (4, 25):
        label = f"single series={sname} nx={nx}"
        res = SinglePhaseReservoir(nx, 100.0, p_i, fluid)
        record(f"{label} simulate-kw", res.simulate, t, pressure_fracface=pff)
        state(f"{label} state", res)
        exercise_recovery(label, res)
        res2 = SinglePhaseReservoir(nx, 100.0, p_i, fluid)
        record(f"{label} simulate-pos", res2.simulate, t, pff)
        record(f"{label} pos pseudopressure", lambda r=res2: r.pseudopressure)

for tname, tt in bad_times():
    res = SinglePhaseReservoir(8, 100.0, p_i, fluid)
    record(f"single bad-time {tname} simulate", res.simulate, tt)
    state(f"single bad-time {tname} state", res)
    record(f"single bad-time {tname} rf", res.recovery_factor)
    record(f"single bad-time {tname} interp", res.recovery_factor_interpolator)
    res = SinglePhaseReservoir(8, 100.0, p_i, fluid)
    record(f"single bad-time {tname} simulate+series", res.simulate, tt, np.full(4, 300.0))
    state(f"single bad-time {tname} series state", res)
    res = SinglePhaseReservoir(8, 100.0, p_i, fluid)
    res.simulate(np.linspace(0, 1, 6))
    res.recovery_factor()
    record(f"single good-then-bad {tname} simulate", res.simulate, tt)
    state(f"single good-then-bad {tname} state", res)

for nx in (1, 0, -1, 2.5, 4.0, None, "7", np.int64(5), True):
    res = SinglePhaseReservoir(nx, 100.0, p_i, fluid)
    record(f"single bad-nx {nx!r} simulate", res.simulate, np.linspace(0, 1, 5))
    state(f"single bad-nx {nx!r} state", res)
    record(f"single bad-nx {nx!r} pseudopressure", lambda r=res: r.pseudopressure)
    record(f"single bad-nx {nx!r} rf", res.recovery_factor)
    record(f"single bad-nx {nx!r} simulate+badseries", res.simulate, np.linspace(0, 1, 5), np.ones(3))

for pf in (-10.0, 1e7, np.nan, None, "x", np.array([100.0, 200.0])):
    res = SinglePhaseReservoir(6, pf, p_i, fluid)
    record(f"single bad-pf {pf!r} simulate", res.simulate, np.linspace(0, 1, 5))
    state(f"single bad-pf {pf!r} state", res)
    record(f"single bad-pf {pf!r} fvf", res.fvf_scale)

res = SinglePhaseReservoir(6, 100.0, p_i, None)
record("single no-fluid simulate", res.simulate, np.linspace(0, 1, 5))
state("single no-fluid state", res)
record("single no-fluid simulate wrong series", res.simulate, np.linspace(0, 1, 5), np.ones(2))
record("single no-fluid alpha_scaled", res.alpha_scaled, np.array([0.1, 0.2]))
record("single no-fluid rf", res.recovery_factor)
record("single no-fluid rf density", res.recovery_factor, density=True)

res = SinglePhaseReservoir(6, 100.0, p_i, fluid)
record("single alpha_scaled", res.alpha_scaled, np.array([-1.0, 0.0, 1e-3, 0.3, float(fluid.m_i), 5.0]))
record("single alpha_scaled scalar", res.alpha_scaled, 0.25)
record("single alpha_scaled nan", res.alpha_scaled, np.array([np.nan, 0.5]))
record("single alpha_scaled str", res.alpha_scaled, "abc")
record("single rf before sim", res.recovery_factor)
record("single interp before sim", res.recovery_factor_interpolator)
record("single resim 1", res.simulate, np.linspace(0, 1, 7))
record("single resim 1 rf", res.recovery_factor)
record("single resim 2", res.simulate, np.linspace(0, 4, 9), np.linspace(3000.0, 50.0, 9))
state("single resim 2 state", res)
record("single resim 2 interp", lambda: res.recovery_factor_interpolator()(query))
record("single resim 2 rf density", res.recovery_factor, density=True)


class RaisingFluid:
    """Fluid whose diffusivity lookup raises, to reach the re-raise branch."""

    def __init__(self, base, exc):
        self.m_i = base.m_i
        self.m_scaled_func = base.m_scaled_func
        self.pvt_props = base.pvt_props
        self._exc = exc

    def alpha(self, m):
        raise self._exc("boom")


for exc in (ValueError, TypeError, ZeroDivisionError):
    res = SinglePhaseReservoir(6, 100.0, p_i, RaisingFluid(fluid, exc))
    record(f"single raising-alpha {exc.__name__} simulate", res.simulate, np.linspace(0, 1, 5))
    state(f"single raising-alpha {exc.__name__} state", res)
    record(f"single raising-alpha {exc.__name__} one-step", res.simulate, np.array([0.0]))
    record(f"single raising-alpha {exc.__name__} one-step pp", lambda r=res: r.pseudopressure)

# ---------------------------------------------------------------- Two / Multi phase
res = TwoPhaseReservoir(10, 300.0, p_i, fluid, 0.2)
record("twophase Sw", lambda: res.Sw_init)
record("twophase simulate", res.simulate, np.linspace(0, 1.5, 12) ** 2)
exercise_recovery("twophase", res)
record("twophase simulate series", res.simulate, np.linspace(0, 1, 4), np.ones(4))
record("twophase bad time", res.simulate, [0.0, 1.0])
state("twophase state", res)

res = MultiPhaseReservoir(10, 300.0, p_i, fluid, 0.7, 0.1, 0.2)
record("multiphase sats", lambda: (res.So_init, res.Sw_init, res.Sg_init))
record("multiphase simulate", res.simulate, np.linspace(0, 1, 5))
state("multiphase state", res)
record("multiphase step", res._step_saturation, None, None, None)
record("multiphase alpha wrong arity", res.alpha_scaled, np.ones(3))
record("multiphase rf", res.recovery_factor)
record("multiphase fvf", res.fvf_scale)


class FakeMultiFluid:
    @staticmethod
    def alpha(m, so=0.5, sg=0.25, sw=0.25):
        return np.asarray(m) * 2.0 + so - sg * sw + 0.125


sat = np.zeros(3, dtype=[("So", float), ("Sg", float), ("Sw", float)])
sat["So"] = [0.7, 0.6, 0.5]
sat["Sg"] = [0.1, 0.2, 0.3]
sat["Sw"] = [0.2, 0.2, 0.2]
res = MultiPhaseReservoir(3, 300.0, p_i, FakeMultiFluid(), 0.7, 0.1, 0.2)
record("multiphase alpha fake", res.alpha_scaled, np.array([0.1, 0.5, 0.9]), sat)
record("multiphase alpha fake kw", lambda: res.alpha_scaled(pseudopressure=np.array([0.3]), saturation=sat[:1]))
record("multiphase alpha bad sat", res.alpha_scaled, np.array([0.1]), np.zeros(1))

record("module ATOL", lambda: reservoir_module._ATOL)
record("dataclass repr", lambda: repr(IdealReservoir(3, 1.0, 2.0)))
record("dataclass eq", lambda: IdealReservoir(3, 1.0, 2.0) == IdealReservoir(3, 1.0, 2.0))
record("single repr", lambda: repr(SinglePhaseReservoir(3, 1.0, 2.0)))
record("ideal kw ctor", lambda: repr(IdealReservoir(nx=3, pressure_fracface=1.0, pressure_initial=2.0, fluid=None)))

with open(sys.argv[1], "w") as fh:
    fh.write("\n".join(OUT) + "\n")
