"""Equivalence harness for bluebonnet.flow.flowproperties.

Run as: PYTHONPATH=<tree>/src /venv/bin/python equiv.py <outfile>
Writes repr() of every result (full precision) or the exception type name.
"""

from __future__ import annotations

import copy
import os
import pickle
import sys
import warnings

import numpy as np
import pandas as pd

from bluebonnet.flow import flowproperties as fp
from bluebonnet.flow.flowproperties import (
    FlowProperties,
    FlowPropertiesMultiPhase,
    FlowPropertiesOnePhase,
    FlowPropertiesSimple,
    FlowPropertiesTwoPhase,
    RelPermParams,
    alpha_multiphase,
    compressibility_combined_func,
    lambda_combined_func,
    pseudopressure_threephase,
    relative_permeabilities,
    relative_permeabilities_twophase,
    rescale_pseudopressure,
)

DATA = os.environ.get("BB_DATA", "/tmp/twin3_flowproperties/tests/data")
OUT = []


def fmt(v):
    if isinstance(v, pd.DataFrame):
        return "DF" + repr(list(v.columns)) + fmt(v.to_numpy(dtype=float))
    if isinstance(v, pd.Series):
        return "SER" + fmt(v.to_numpy(dtype=float))
    if isinstance(v, np.ndarray):
        if v.dtype.names:
            return "REC" + repr(v.dtype.names) + "".join(fmt(v[n]) for n in v.dtype.names)
        return (
            "ARR"
            + repr(v.shape)
            + str(v.dtype)
            + "["
            + ",".join(repr(float(x)) for x in np.asarray(v, dtype=float).ravel())
            + "]"
        )
    if isinstance(v, (float, np.floating)):
        return repr(float(v))
    if isinstance(v, dict):
        return "{" + ",".join(f"{k!r}:{fmt(x)}" for k, x in sorted(v.items())) + "}"
    if isinstance(v, (list, tuple)):
        return type(v).__name__ + "(" + ",".join(fmt(x) for x in v) + ")"
    return repr(v)


def rec(label, fn):
    with warnings.catch_warnings(record=True) as w:
        warnings.simplefilter("always")
        try:
            res = fmt(fn())
        except Exception as e:  # noqa: BLE001
            res = "EXC:" + type(e).__name__
        # distinct warnings only: the default filter shows repeats once per location anyway
        cats = sorted({f"{x.category.__name__}:{x.message}" for x in w})
    OUT.append(f"{label} -> {res} | warnings={cats}")


# ---------------------------------------------------------------- tables
gas_rename = {
    "P": "pressure",
    "Z-Factor": "z-factor",
    "Cg": "compressibility",
    "Viscosity": "viscosity",
    "Density": "density",
}
oil_rename = {
    "P": "pressure",
    "Z-Factor": "z-factor",
    "Co": "compressibility",
    "Oil_Viscosity": "viscosity",
    "Oil_Density": "density",
}
pvt_gas = pd.read_csv(os.path.join(DATA, "pvt_gas.csv")).rename(columns=gas_rename)
pvt_oil = pd.read_csv(os.path.join(DATA, "pvt_oil.csv")).rename(columns=oil_rename)
pvt_ideal = pd.read_csv(os.path.join(DATA, "pvt_ideal_gas.csv")).rename(columns=gas_rename)
pvt_hay = pd.read_csv(os.path.join(DATA, "pvt_gas_HAYNESVILLE SHALE_20.csv"))

M_PROBE = np.array([-0.5, 0.0, 1e-6, 0.01, 0.1, 0.3, 0.5, 0.77, 0.999, 1.0, 1.2, 5.0])


def describe_fp(obj, p_probe):
    out = {
        "m_i": np.asarray(obj.m_i),
        "alpha": np.asarray(obj.alpha(M_PROBE)),
        "m_scaled": np.asarray(obj.m_scaled_func(p_probe)),
        "cols": sorted(map(str, obj.pvt_props)),
        "mscaled_col": np.asarray(obj.pvt_props["m-scaled"], dtype=float),
        "alpha_col": np.asarray(obj.pvt_props["alpha"], dtype=float),
        "fill": tuple(float(x) for x in obj.alpha.fill_value),
        "type": type(obj).__name__,
        "repr_same": repr(obj) == repr(obj.pvt_props),
    }
    return out


# ---------------------------------------------------------------- FlowProperties
def section_flowproperties():
    tables = {"gas": pvt_gas, "oil": pvt_oil, "ideal": pvt_ideal, "hay": pvt_hay}
    for name, tab in tables.items():
        pmin = float(tab["pressure"].min())
        pmax = float(tab["pressure"].max())
        probe = np.linspace(pmin, pmax, 7)
        p_is = [pmin, pmax, 0.5 * (pmin + pmax), 1000.0, 3333.3, 8000.0, 12000.0,
                pmin - 1.0, pmax + 1.0, -5.0, 1e9, float("inf"), float("-inf")]
        for p_i in p_is:
            rec(f"FP[{name}] p_i={p_i!r}", lambda: describe_fp(FlowProperties(tab, p_i), probe))
            rec(
                f"FPOnePhase[{name}] p_i={p_i!r}",
                lambda: describe_fp(FlowPropertiesOnePhase(tab, p_i), probe),
            )
        # integer p_i, numpy scalar p_i, 0-d array, 1-element array, list, str, None
        for p_i in [5000, np.float64(5000.0), np.int64(4000), np.array(5000.0),
                    np.array([5000.0]), [5000.0], "5000", None, np.array([1000.0, 2000.0]),
                    True, 5000 + 0j]:
            rec(
                f"FP[{name}] odd p_i={p_i!r}",
                lambda: describe_fp(FlowProperties(tab, p_i), probe),
            )
        # input table not mutated
        before = tab.copy()
        FlowProperties(tab, 0.5 * (pmin + pmax))
        rec(f"FP[{name}] input untouched", lambda: bool(before.equals(tab)))
        rec(f"FP[{name}] input cols", lambda: list(tab.columns))

    # user-supplied alpha branch (short column list) -> RuntimeWarning
    short = pd.DataFrame(
        {
            "pressure": pvt_gas["pressure"],
            "pseudopressure": pvt_gas["pseudopressure"] + 1.0,
            "alpha": 1.0 / (pvt_gas["compressibility"] * pvt_gas["viscosity"]),
        }
    )
    probe = np.linspace(0, 12000, 5)
    for p_i in [0.0, 10.0, 2500.0, 8000.0, 14000.0, 14000.1, -1.0, 20000.0, float("nan")]:
        rec(f"FP[short] p_i={p_i!r}", lambda: describe_fp(FlowProperties(short, p_i), probe))
    # both alpha and the long columns present
    both = pvt_gas.assign(alpha=np.linspace(1.0, 2.0, len(pvt_gas)))
    for p_i in [100.0, 7000.0, 1e6]:
        rec(f"FP[both] p_i={p_i!r}", lambda: describe_fp(FlowProperties(both, p_i), probe))
    # dict-of-arrays input
    d = {c: pvt_gas[c].to_numpy() for c in pvt_gas.columns}
    for p_i in [100.0, 7000.0, 1e6, -3.0]:
        rec(f"FP[dict] p_i={p_i!r}", lambda: describe_fp(FlowProperties(d, p_i), probe))
    rec("FP[dict] keys untouched", lambda: sorted(d))
    dshort = {c: short[c].to_numpy() for c in short.columns}
    for p_i in [100.0, 7000.0, 1e6]:
        rec(f"FP[dictshort] p_i={p_i!r}", lambda: describe_fp(FlowProperties(dshort, p_i), probe))
    # unsorted table
    shuffled = pvt_gas.sample(frac=1.0, random_state=3).reset_index(drop=True)
    for p_i in [0.0, 100.0, 7000.0, 14000.0, 15000.0, -0.001]:
        rec(f"FP[shuffled] p_i={p_i!r}", lambda: describe_fp(FlowProperties(shuffled, p_i), probe))
    # small slices / truncated range
    part = pvt_gas[(pvt_gas["pressure"] >= 1000) & (pvt_gas["pressure"] <= 6000)].reset_index(
        drop=True
    )
    pprobe = np.linspace(1000, 6000, 5)
    for p_i in [999.999, 1000.0, 3500.0, 6000.0, 6000.001, 0.0, 8000.0]:
        rec(f"FP[part] p_i={p_i!r}", lambda: describe_fp(FlowProperties(part, p_i), pprobe))
    two = pvt_gas.iloc[[5, 50]].reset_index(drop=True)
    lo, hi = float(two["pressure"][0]), float(two["pressure"][1])
    for p_i in [lo, hi, 0.5 * (lo + hi), lo - 1, hi + 1]:
        rec(
            f"FP[two rows] p_i={p_i!r}",
            lambda: describe_fp(FlowProperties(two, p_i), np.array([lo, hi])),
        )
    # tables with NaN
    nanp = pvt_gas.copy()
    nanp.loc[10, "pressure"] = np.nan
    nanv = pvt_gas.copy()
    nanv.loc[10, "viscosity"] = np.nan
    for p_i in [100.0, 5000.0, 1e6, float("nan")]:
        rec(f"FP[nan pressure] p_i={p_i!r}", lambda: describe_fp(FlowProperties(nanp, p_i), probe))
        rec(f"FP[nan visc] p_i={p_i!r}", lambda: describe_fp(FlowProperties(nanv, p_i), probe))
    rec("FP[gas] p_i=nan", lambda: describe_fp(FlowProperties(pvt_gas, float("nan")), probe))
    # failing tables
    rec("FP one row", lambda: FlowProperties(pvt_gas.iloc[:1], 0.0))
    rec("FP empty", lambda: FlowProperties(pvt_gas.iloc[:0], 0.0))
    rec("FP empty out of range", lambda: FlowProperties(pvt_gas.iloc[:0], 1e6))
    rec("FP missing col", lambda: FlowProperties(pvt_gas.drop(columns=["viscosity"]), 5000.0))
    rec(
        "FP missing col out of range",
        lambda: FlowProperties(pvt_gas.drop(columns=["viscosity"]), 1e6),
    )
    rec("FP missing pressure", lambda: FlowProperties(pvt_gas.drop(columns=["pressure"]), 5000.0))
    rec("FP empty dict", lambda: FlowProperties({}, 5000.0))
    rec("FP not mapping", lambda: FlowProperties(None, 5000.0))
    rec("FP list", lambda: FlowProperties([1, 2, 3], 5000.0))
    rec("FP no p_i", lambda: FlowProperties(pvt_gas))
    rec("FP kw", lambda: describe_fp(FlowProperties(pvt_props=pvt_gas, p_i=6000.0), probe))
    rec("FP extra kw", lambda: FlowProperties(pvt_gas, 6000.0, validate=True))
    rec("FP extra pos", lambda: FlowProperties(pvt_gas, 6000.0, True))

    # FlowPropertiesSimple
    for p_i in [0.0, 10.0, 5000.0, 14000.0, 14001.0, -1.0, float("nan")]:
        rec(
            f"FPSimple[gas] p_i={p_i!r}",
            lambda: describe_fp(FlowPropertiesSimple(pvt_gas, p_i), probe),
        )
        rec(
            f"FPSimple[oil] p_i={p_i!r}",
            lambda: describe_fp(FlowPropertiesSimple(pvt_oil, p_i), probe),
        )
    rec("FPSimple missing", lambda: FlowPropertiesSimple(short, 5000.0))


# ---------------------------------------------------------------- rel perm
def params(**kw):
    base = dict(n_o=1, n_g=1, n_w=1, S_or=0, S_gc=0, S_wc=0.1, k_ro_max=1, k_rw_max=1, k_rg_max=1)
    base.update(kw)
    return RelPermParams(**base)


PARAM_SETS = {
    "base": params(),
    "curvy": params(n_o=2.5, n_g=3, n_w=4, S_or=0.15, S_gc=0.05, S_wc=0.2, k_ro_max=0.8,
                    k_rw_max=0.3, k_rg_max=0.9),
    "edge6": params(n_o=6, n_g=6, n_w=6),
    "edge6+": params(n_o=6.0000001),
    "n_g>6": params(n_g=7),
    "n_w<1": params(n_w=0.99),
    "n_o<1": params(n_o=0),
    "S_or<0": params(S_or=-0.01),
    "S_gc>1": params(S_gc=1.01),
    "S_wc=1": params(S_wc=1.0),
    "kro<0": params(k_ro_max=-0.1),
    "krw>1": params(k_rw_max=1.1),
    "krg=0": params(k_rg_max=0.0),
    "sum resid=1": params(S_or=0.5, S_gc=0.4, S_wc=0.1),
    "sum resid>1": params(S_or=0.6, S_gc=0.4, S_wc=0.3),
    "nan exp": params(n_o=float("nan")),
    "int all": RelPermParams(2, 2, 2, 0, 0, 0, 1, 1, 1),
}


def sat_table(n, Sw, kind="lin"):
    if kind == "lin":
        So = np.linspace(0, 1 - Sw, n)
    else:
        rng = np.random.default_rng(7)
        So = rng.uniform(0, 1 - Sw, n)
    return pd.DataFrame({"So": So, "Sw": np.full(n, Sw), "Sg": 1 - Sw - So})


def section_relperm():
    rec("RelPermParams fields", lambda: RelPermParams._fields)
    rec("RelPermParams repr", lambda: repr(PARAM_SETS["curvy"]))
    rec("RelPermParams tuple", lambda: tuple(PARAM_SETS["curvy"]))
    rec("RelPermParams asdict", lambda: dict(PARAM_SETS["curvy"]._asdict()))
    rec("RelPermParams replace", lambda: repr(PARAM_SETS["base"]._replace(n_w=3)))
    rec("RelPermParams eq tuple", lambda: PARAM_SETS["int all"] == (2, 2, 2, 0, 0, 0, 1, 1, 1))
    rec("RelPermParams hash", lambda: hash(PARAM_SETS["int all"]) == hash((2, 2, 2, 0, 0, 0, 1, 1, 1)))
    rec("RelPermParams len/index", lambda: (len(PARAM_SETS["base"]), PARAM_SETS["base"][5]))
    rec("RelPermParams name/module", lambda: (RelPermParams.__name__, RelPermParams.__module__))
    rec("RelPermParams is tuple", lambda: issubclass(RelPermParams, tuple))
    rec("RelPermParams pickle", lambda: repr(pickle.loads(pickle.dumps(PARAM_SETS["curvy"]))))
    rec("RelPermParams make", lambda: repr(RelPermParams._make(range(9))))
    rec("RelPermParams missing", lambda: RelPermParams(1, 1, 1))
    rec("RelPermParams too many", lambda: RelPermParams(*range(10)))
    rec("RelPermParams bad kw", lambda: RelPermParams(*range(8), foo=1))
    rec("RelPermParams setattr", lambda: setattr(PARAM_SETS["base"], "n_o", 3))
    rec("RelPermParams new attr", lambda: setattr(PARAM_SETS["base"], "zzz", 3))
    rec("RelPermParams defaults", lambda: RelPermParams._field_defaults)
    rec("RelPermParams copy", lambda: repr(copy.deepcopy(PARAM_SETS["curvy"])))

    tables = {
        "lin50": sat_table(50, 0.1),
        "rand17": sat_table(17, 0.2, "rand"),
        "one": sat_table(1, 0.1),
        "sw0": sat_table(9, 0.0),
        "sw.5": sat_table(6, 0.5),
        "off by 5e-4": sat_table(5, 0.1).assign(Sg=lambda d: d.Sg + 5e-4),
        "off by 2e-3": sat_table(5, 0.1).assign(Sg=lambda d: d.Sg + 2e-3),
        "off by -2e-3": sat_table(5, 0.1).assign(Sg=lambda d: d.Sg - 2e-3),
        "neg So": pd.DataFrame({"So": [-0.2, 0.5], "Sw": [0.1, 0.1], "Sg": [1.1, 0.4]}),
        "nan": pd.DataFrame({"So": [np.nan, 0.5], "Sw": [0.1, 0.1], "Sg": [0.2, 0.4]}),
        "empty": sat_table(0, 0.1),
    }
    for tname, tab in tables.items():
        recs = tab.to_records(index=False)
        for pname, prm in PARAM_SETS.items():
            rec(f"relperm[{tname}][{pname}]", lambda: relative_permeabilities(recs, prm))
    # other column order and structured array directly
    tab = tables["rand17"][["Sg", "Sw", "So"]]
    rec(
        "relperm reordered",
        lambda: relative_permeabilities(tab.to_records(index=False), PARAM_SETS["curvy"]),
    )
    arr = np.array(
        [(0.2, 0.3, 0.5), (0.0, 0.1, 0.9)], dtype=[("So", float), ("Sw", float), ("Sg", float)]
    )
    rec("relperm struct", lambda: relative_permeabilities(arr, PARAM_SETS["curvy"]))
    rec("relperm struct kw", lambda: relative_permeabilities(saturations=arr, params=PARAM_SETS["base"]))
    rec("relperm plain tuple params", lambda: relative_permeabilities(arr, (1, 1, 1, 0, 0, 0, 1, 1, 1)))
    rec("relperm dataframe", lambda: relative_permeabilities(tables["lin50"], PARAM_SETS["base"]))
    rec("relperm missing col", lambda: relative_permeabilities(
        tables["lin50"][["So", "Sw"]].assign(x=lambda d: 1 - d.So - d.Sw).to_records(index=False),
        PARAM_SETS["base"]))
    rec("relperm none", lambda: relative_permeabilities(None, PARAM_SETS["base"]))
    rec("relperm extra kw", lambda: relative_permeabilities(arr, PARAM_SETS["base"], clip=True))

    for pname, prm in PARAM_SETS.items():
        rec(f"twophase[{pname}] default", lambda: relative_permeabilities_twophase(prm))
        for Sw in [0.0, 0.05, 0.1, 0.1000001, 0.2, 0.8, 1.0, -0.1, float("nan")]:
            rec(f"twophase[{pname}] Sw={Sw!r}", lambda: relative_permeabilities_twophase(prm, Sw))
    rec("twophase kw", lambda: relative_permeabilities_twophase(params=PARAM_SETS["curvy"], Sw=0.15))
    rec("twophase int Sw", lambda: relative_permeabilities_twophase(PARAM_SETS["base"], 0))
    rec("twophase shape", lambda: relative_permeabilities_twophase(PARAM_SETS["base"]).shape)
    rec("twophase dtypes", lambda: [str(t) for t in relative_permeabilities_twophase(PARAM_SETS["base"]).dtypes])
    rec("twophase index", lambda: list(relative_permeabilities_twophase(PARAM_SETS["base"]).index))
    rec("twophase extra pos", lambda: relative_permeabilities_twophase(PARAM_SETS["base"], 0.1, 20))
    rec("twophase none", lambda: relative_permeabilities_twophase(None))
    rec("twophase str Sw", lambda: relative_permeabilities_twophase(PARAM_SETS["base"], "a"))
    rec("twophase bad kw", lambda: relative_permeabilities_twophase(PARAM_SETS["base"], foo=3))


# ---------------------------------------------------------------- multiphase
def make_df_pvt(Sw):
    oil = pd.read_csv(os.path.join(DATA, "pvt_oil.csv"))
    water = pd.read_csv(os.path.join(DATA, "pvt_water.csv")).rename(
        columns={"T": "temperature", "P": "pressure", "Viscosity": "mu_w"}
    )
    ren = {
        "T": "temperature",
        "P": "pressure",
        "Oil_Viscosity": "mu_o",
        "Gas_Viscosity": "mu_g",
        "Rso": "Rs",
    }
    df = water.drop(columns=["temperature"]).merge(oil.rename(columns=ren), on="pressure").assign(Rv=0)
    df["So"] = (1 - Sw) / ((df["Rs"].max() - df["Rs"]) * df["Bg"] / df["Bo"] / 5.61458 + 1)
    return df


def describe_twophase(obj):
    d = describe_fp(obj, np.linspace(float(obj.pvt_props["pressure"].min()),
                                     float(obj.pvt_props["pressure"].max()), 6))
    d["pp_col"] = np.asarray(obj.pvt_props["pseudopressure"], dtype=float)
    d["kr"] = {k: np.asarray(f([0.0, 0.2, 0.4, 0.77])) for k, f in obj.kr.items()}
    d["pvt_keys"] = sorted(obj.pvt)
    d["pvt_vals"] = {
        k: (np.asarray(f([-10.0, 15.0, 2345.6, 20000.0])) if callable(f) else f)
        for k, f in obj.pvt.items()
    }
    return d


def section_multiphase():
    dens = {"rho_o0": 141.5 / (45 + 131.5), "rho_g0": 1.03e-3, "rho_w0": 1}
    dens2 = {"rho_o0": 0.85, "rho_g0": 8e-4, "rho_w0": 1.03}
    for Sw in [0.1, 0.0, 0.25]:
        raw = make_df_pvt(Sw)
        rec(f"rescale Sw={Sw}", lambda: rescale_pseudopressure(raw, 1000, 8000.0)["pseudopressure"])
        before = raw.copy()
        rescale_pseudopressure(raw, 500.0, 6000.0)
        rec(f"rescale untouched Sw={Sw}", lambda: bool(before.equals(raw)))
        for p_frac, p_i in [(1000, 8000.0), (500.0, 6000.0), (0, 9000), (0, 14000), (1000, 1000), (-5, 8000.0),
                            (1000, 1e6), (float("nan"), 5000.0)]:
            rec(
                f"rescale Sw={Sw} p_frac={p_frac!r} p_i={p_i!r}",
                lambda: rescale_pseudopressure(raw, p_frac, p_i),
            )
        prm_for_sw = [PARAM_SETS["base"], PARAM_SETS["curvy"], PARAM_SETS["int all"]]
        for ip, prm in enumerate(prm_for_sw):
            rec(f"kr table Sw={Sw} prm{ip}", lambda: relative_permeabilities_twophase(prm, Sw))
            try:
                df_kr = relative_permeabilities_twophase(prm, Sw)
            except Exception:  # noqa: BLE001
                continue
            for p_frac, p_res in [(1000, 8000.0), (500.0, 6000.0)]:
                try:
                    df = rescale_pseudopressure(raw, p_frac, p_res)
                except Exception:  # noqa: BLE001
                    continue
                for phi in [0.1, 0.05]:
                    for d in [dens, dens2]:
                        for p_i in [p_res, 3000.0, 0.0, 9000.0, 9000.5, -1.0]:
                            rec(
                                f"from_table Sw={Sw} prm{ip} pf={p_frac} pr={p_res} phi={phi} "
                                f"d={d['rho_o0']:.3f} p_i={p_i!r}",
                                lambda: describe_twophase(
                                    FlowPropertiesTwoPhase.from_table(df, df_kr, d, phi, Sw, p_i)
                                ),
                            )
                # the building blocks
                from scipy.interpolate import interp1d

                need = ["pseudopressure", "pressure", "Bo", "Bg", "Bw", "Rs", "Rv", "mu_o", "mu_g",
                        "mu_w", "So"]
                pvt = {c: interp1d(df["pressure"], df[c], fill_value="extrapolate") for c in need}
                pvt.update(dens)
                kr = {k: interp1d(df_kr["So"], df_kr[k]) for k in ("kro", "krg", "krw")}
                P = df["pressure"].to_numpy()
                S = df["So"].to_numpy()
                rec(f"lambda Sw={Sw} prm{ip} pf={p_frac}", lambda: lambda_combined_func(P, S, pvt, kr))
                rec(
                    f"comp Sw={Sw} prm{ip} pf={p_frac}",
                    lambda: compressibility_combined_func(P, S, 0.1, Sw, pvt),
                )
                rec(
                    f"comp arraySw Sw={Sw} prm{ip}",
                    lambda: compressibility_combined_func(P, S, 0.07, np.full_like(P, Sw), pvt),
                )
                rec(f"alpha Sw={Sw} prm{ip} pf={p_frac}", lambda: alpha_multiphase(P, S, 0.1, Sw, pvt, kr))
                rec(f"pp3 Sw={Sw} prm{ip} pf={p_frac}", lambda: pseudopressure_threephase(P, S, pvt, kr))
                # scalars, sub-ranges, series input, reversed order
                rec("lambda scalar", lambda: lambda_combined_func(2345.6, 0.5, pvt, kr))
                rec("comp scalar", lambda: compressibility_combined_func(2345.6, 0.5, 0.1, Sw, pvt))
                rec("alpha scalar", lambda: alpha_multiphase(2345.6, 0.5, 0.1, Sw, pvt, kr))
                rec("pp3 scalar", lambda: pseudopressure_threephase(2345.6, 0.5, pvt, kr))
                rec("pp3 sub", lambda: pseudopressure_threephase(P[3:40:4], S[3:40:4], pvt, kr))
                rec("pp3 reversed", lambda: pseudopressure_threephase(P[::-1], S[::-1], pvt, kr))
                rec("pp3 series", lambda: pseudopressure_threephase(df["pressure"], df["So"], pvt, kr))
                rec("pp3 one", lambda: pseudopressure_threephase(P[:1], S[:1], pvt, kr))
                rec("pp3 empty", lambda: pseudopressure_threephase(P[:0], S[:0], pvt, kr))
                rec("pp3 mismatch", lambda: pseudopressure_threephase(P[:5], S[:4], pvt, kr))
                rec("pp3 So out of kr range", lambda: pseudopressure_threephase(P[:3], S[:3] + 2.0, pvt, kr))
                rec("lambda So out of kr range", lambda: lambda_combined_func(P[:3], S[:3] + 2.0, pvt, kr))
                rec("alpha So out of kr range", lambda: alpha_multiphase(P[:3], S[:3] + 2.0, 0.1, Sw, pvt, kr))
                rec("lambda missing key", lambda: lambda_combined_func(P, S, {k: v for k, v in pvt.items() if k != "Rv"}, kr))
                rec("pp3 missing key", lambda: pseudopressure_threephase(P, S, {k: v for k, v in pvt.items() if k != "rho_w0"}, kr))
                rec("pp3 missing kr", lambda: pseudopressure_threephase(P, S, pvt, {"kro": kr["kro"]}))
                rec("comp missing key", lambda: compressibility_combined_func(P, S, 0.1, Sw, {k: v for k, v in pvt.items() if k != "Bw"}))
                rec("comp list", lambda: compressibility_combined_func([100.0, 200.0], [0.3, 0.4], 0.1, Sw, pvt))
                rec("comp nan", lambda: compressibility_combined_func(np.array([np.nan, 200.0]), np.array([0.3, 0.4]), 0.1, Sw, pvt))
        # failure modes of from_table
        df = rescale_pseudopressure(raw, 1000, 8000.0)
        try:
            df_kr = relative_permeabilities_twophase(PARAM_SETS["base"], min(Sw, 0.1))
        except Exception:  # noqa: BLE001
            continue
        ft = FlowPropertiesTwoPhase.from_table
        rec("from_table missing pvt col", lambda: ft(df.drop(columns=["Rv"]), df_kr, dens, 0.1, Sw, 8000.0))
        rec("from_table missing kr col", lambda: ft(df, df_kr.drop(columns=["krw"]), dens, 0.1, Sw, 8000.0))
        rec("from_table missing density", lambda: ft(df, df_kr, {"rho_o0": 1.0}, 0.1, Sw, 8000.0))
        rec("from_table empty density", lambda: ft(df, df_kr, {}, 0.1, Sw, 8000.0))
        rec("from_table p_i out", lambda: ft(df, df_kr, dens, 0.1, Sw, 1e6))
        rec("from_table p_i nan", lambda: describe_twophase(ft(df, df_kr, dens, 0.1, Sw, float("nan"))))
        rec("from_table Sw big", lambda: describe_twophase(ft(df, df_kr, dens, 0.1, 0.95, 8000.0)))
        rec("from_table phi 0", lambda: describe_twophase(ft(df, df_kr, dens, 0.0, Sw, 8000.0)))
        rec("from_table empty", lambda: ft(df.iloc[:0], df_kr, dens, 0.1, Sw, 8000.0))
        rec("from_table one row", lambda: ft(df.iloc[:1], df_kr, dens, 0.1, Sw, 0.0))
        rec("from_table kr narrow", lambda: ft(df, df_kr.iloc[10:20], dens, 0.1, Sw, 8000.0))
        rec("from_table kw", lambda: describe_twophase(ft(pvt_props=df, kr_props=df_kr, reference_densities=dens2, phi=0.2, Sw=Sw, p_i=7000.0)))
        rec("from_table extra kw", lambda: ft(df, df_kr, dens, 0.1, Sw, 8000.0, progress=True))
        rec("from_table too few", lambda: ft(df, df_kr, dens, 0.1, Sw))
        rec("from_table dens untouched", lambda: dens)
        rec("TwoPhase direct ctor", lambda: describe_fp(FlowPropertiesTwoPhase(pvt_gas, 5000.0), np.array([0.0, 5000.0])))

    # stored multiphase csv
    mp = pd.read_csv(os.path.join(DATA, "pvt_multiphase_oil.csv"))
    rec("mp csv rescale", lambda: rescale_pseudopressure(mp, 1000, 6000)["pseudopressure"])
    rec("rescale dict", lambda: rescale_pseudopressure({"pressure": np.arange(3.0), "pseudopressure": np.arange(3.0)}, 0, 2))
    rec("rescale missing", lambda: rescale_pseudopressure(mp.drop(columns=["pseudopressure"]), 1000, 6000))
    # FlowPropertiesMultiPhase
    tbl = pd.DataFrame({"pseudopressure": [0.0, 0.5, 1.0, 0.2], "alpha": [1.0, 2.0, 3.0, 1.5],
                        "So": [0.1, 0.5, 0.8, 0.3], "Sg": [0.8, 0.4, 0.1, 0.5], "Sw": [0.1] * 4})
    rec("MultiPhase ctor", lambda: type(FlowPropertiesMultiPhase(tbl)).__name__)
    rec("MultiPhase missing", lambda: FlowPropertiesMultiPhase(tbl.drop(columns=["Sg"])))
    rec("MultiPhase dict", lambda: FlowPropertiesMultiPhase({"a": 1}))


def section_module():
    public = sorted(n for n in dir(fp) if not n.startswith("_"))
    needed = [
        "FlowProperties", "FlowPropertiesOnePhase", "FlowPropertiesSimple", "FlowPropertiesTwoPhase",
        "FlowPropertiesMultiPhase", "RelPermParams", "relative_permeabilities",
        "relative_permeabilities_twophase", "rescale_pseudopressure", "alpha_multiphase",
        "lambda_combined_func", "compressibility_combined_func", "pseudopressure_threephase",
    ]
    rec("module has", lambda: [n in public for n in needed])
    rec("alias", lambda: FlowPropertiesOnePhase is FlowProperties)
    rec("mro", lambda: [[c.__name__ for c in k.__mro__] for k in
                        (FlowPropertiesSimple, FlowPropertiesTwoPhase, FlowPropertiesMultiPhase)])
    import bluebonnet.flow as bf
    rec("flow __all__", lambda: sorted(bf.__all__))
    rec("flow reexports", lambda: bf.RelPermParams is RelPermParams and bf.FlowProperties is FlowProperties)


def section_downstream():
    from bluebonnet.flow import IdealReservoir, SinglePhaseReservoir

    fluid = FlowProperties(pvt_gas, 8000.0)
    res = SinglePhaseReservoir(30, 1000.0, 8000.0, fluid)
    t = np.linspace(0, 2.0, 40)
    res.simulate(t)
    rec("reservoir rf", lambda: res.recovery_factor())
    rec("reservoir pp", lambda: res.pseudopressure[[1, 10, -1]])
    res2 = IdealReservoir(30, 1000.0, 8000.0, None)
    res2.simulate(t)
    rec("ideal rf", lambda: res2.recovery_factor())


if __name__ == "__main__":
    section_module()
    section_relperm()
    section_flowproperties()
    section_multiphase()
    section_downstream()
    with open(sys.argv[1], "w") as f:
        f.write("\n".join(OUT) + "\n")
