"""Equivalence harness for twin3: Fluid per-pressure loops (water_FVF, gas_FVF, gas_viscosity)."""
import dataclasses
import sys
import warnings

import numpy as np
import pandas as pd

from bluebonnet.fluids.fluid import Fluid

warnings.simplefilter("ignore")
out = []


def show(x):
    if isinstance(x, np.ndarray):
        if x.dtype == object:
            return f"ndarray{x.shape}object{x!r}"
        return f"ndarray{x.shape}{x.dtype}[" + " ".join(float(v).hex() for v in x.ravel()) + "]"
    if isinstance(x, (float, np.floating)):
        return f"{type(x).__name__}:{float(x).hex()}"
    return f"{type(x).__name__}:{x!r}"


def record(label, fn):
    try:
        out.append(f"{label}: {show(fn())}")
    except Exception as e:  # noqa: BLE001
        out.append(f"{label}: EXC {type(e).__name__}")


def gen(values):
    yield from values


pressure_sets = {
    "array": lambda: np.array([14.7, 100.0, 1000.0, 3000.0, 8000.0, 14000.0]),
    "linspace": lambda: np.linspace(50.0, 12000.0, 40),
    "one": lambda: np.array([2500.0]),
    "two": lambda: np.array([2500.0, 2500.0]),
    "empty": lambda: np.array([], dtype=float),
    "int array": lambda: np.array([100, 2000, 5000]),
    "list": lambda: [200.0, 4000.0],
    "tuple": lambda: (200, 4000.5),
    "generator": lambda: gen([300.0, 600.0, 900.0]),
    "series": lambda: pd.Series([500.0, 1500.0, 2500.0], index=[3, 7, 9]),
    "2d": lambda: np.array([[100.0, 200.0], [300.0, 400.0]]),
    "scalar float": lambda: 3000.0,
    "scalar int": lambda: 3000,
    "numpy scalar": lambda: np.float64(3000.0),
    "0-d array": lambda: np.array(3000.0),
    "None": lambda: None,
    "str": lambda: "3000",
    "list of str": lambda: ["3000"],
    "nan": lambda: np.array([np.nan, 1000.0]),
    "zero": lambda: np.array([0.0, 1000.0]),
    "negative": lambda: np.array([-50.0, 1000.0]),
    "huge": lambda: np.array([1e6, 1e9]),
    "dict": lambda: {1000.0: "a", 2000.0: "b"},
}
fluids = [
    Fluid(200, 35, 0.8, 650),
    Fluid(400.0, 35, 0.65, 0, 15),
    Fluid(300.0, 42.0, 0.7, 1200.0, salinity=7.5, water_saturation_initial=0.2),
    Fluid(temperature=150, api_gravity=28, gas_specific_gravity=0.9, solution_gor_initial=300, salinity=26.0),
    Fluid(np.float64(250.0), 30, np.float64(0.6), 500),
]
pseudocriticals = [(-102.0, 649.0), (-70.5, 660.0), (-90, 700)]

for i, fl in enumerate(fluids):
    before = dataclasses.asdict(fl)
    out.append(f"fluid#{i}: {fl!r} fields={[f.name for f in dataclasses.fields(fl)]}")
    for name, make in pressure_sets.items():
        record(f"fluid#{i} water_FVF {name}", lambda: fl.water_FVF(make()))
        for tpc, ppc in pseudocriticals:
            record(f"fluid#{i} gas_FVF {name} {tpc} {ppc}", lambda: fl.gas_FVF(make(), tpc, ppc))
            record(f"fluid#{i} gas_viscosity {name} {tpc} {ppc}", lambda: fl.gas_viscosity(make(), tpc, ppc))
    record(f"fluid#{i} gas_FVF kw", lambda: fl.gas_FVF(pressure=np.array([1000.0]), temperature_pseudocritical=-102.0, pressure_pseudocritical=649.0))
    record(f"fluid#{i} gas_viscosity kw", lambda: fl.gas_viscosity(pressure=np.array([1000.0]), pressure_pseudocritical=649.0, temperature_pseudocritical=-102.0))
    record(f"fluid#{i} water_FVF kw", lambda: fl.water_FVF(pressure=np.array([1000.0])))
    record(f"fluid#{i} gas_FVF missing arg", lambda: fl.gas_FVF(np.array([1000.0]), -102.0))
    record(f"fluid#{i} gas_viscosity extra arg", lambda: fl.gas_viscosity(np.array([1000.0]), -102.0, 649.0, 0.7))
    record(f"fluid#{i} water_FVF extra arg", lambda: fl.water_FVF(np.array([1000.0]), 1.0))
    record(f"fluid#{i} gas_FVF str tpc", lambda: fl.gas_FVF(np.array([1000.0]), "-102", 649.0))
    record(f"fluid#{i} gas_FVF None ppc", lambda: fl.gas_FVF(np.array([1000.0]), -102.0, None))
    record(f"fluid#{i} gas_FVF zero ppc", lambda: fl.gas_FVF(np.array([1000.0]), -102.0, 0.0))
    record(f"fluid#{i} gas_viscosity zero ppc", lambda: fl.gas_viscosity(np.array([1000.0]), -102.0, 0.0))
    record(f"fluid#{i} gas_FVF hot tpc", lambda: fl.gas_FVF(np.array([1000.0]), 5000.0, 649.0))
    out.append(f"fluid#{i} unchanged: {dataclasses.asdict(fl) == before}")

# broken objects keep failing the same way
record("temperature None water_FVF", lambda: Fluid(None, 35, 0.8, 650).water_FVF(np.array([1000.0])))
record("temperature None water_FVF empty", lambda: Fluid(None, 35, 0.8, 650).water_FVF(np.array([])))
record("temperature str gas_FVF", lambda: Fluid("200", 35, 0.8, 650).gas_FVF(np.array([1000.0]), -102.0, 649.0))
record("gravity None gas_viscosity", lambda: Fluid(200, 35, None, 650).gas_viscosity(np.array([1000.0]), -102.0, 649.0))
record("gravity None gas_viscosity empty", lambda: Fluid(200, 35, None, 650).gas_viscosity(np.array([]), -102.0, 649.0))
record("gravity None gas_FVF", lambda: Fluid(200, 35, None, 650).gas_FVF(np.array([1000.0]), -102.0, 649.0))
record("absolute zero", lambda: Fluid(-459.67, 35, 0.8, 650).gas_FVF(np.array([1000.0]), -102.0, 649.0))
record("eq", lambda: Fluid(200, 35, 0.8, 650) == Fluid(200, 35, 0.8, 650))
record("public attrs", lambda: sorted(a for a in dir(Fluid) if not a.startswith("_")))

with open(sys.argv[1], "w") as f:
    f.write("\n".join(out) + "\n")
