"""Equivalence probe for bluebonnet.fluids.gas (and its consumer build_pvt_gas).

Usage: PYTHONPATH=<tree>/src /venv/bin/python equiv.py <outfile>

Every result is written with full-precision repr (type name included), every
exception as its type name only.
"""

from __future__ import annotations

import os
import sys
import warnings

import numpy as np

warnings.simplefilter("ignore")

from bluebonnet.fluids import gas  # noqa: E402
from bluebonnet.fluids.fluid import build_pvt_gas  # noqa: E402

BB_DATA = os.environ.get("BB_DATA", "/tmp/twin8_gas/tests/data")
SECTIONS = set(os.environ.get("EQUIV_SECTIONS", "").split(",")) - {""}

inf = float("inf")
nan = float("nan")
out: list[str] = []


def show(x) -> str:
    if isinstance(x, tuple):
        return "(" + ", ".join(show(v) for v in x) + ")"
    if isinstance(x, np.ndarray):
        if x.dtype.names:
            return f"recarray{x.dtype.descr!r}{x.tolist()!r}"
        return f"ndarray[{x.dtype},{x.shape}]" + repr([show(v) for v in x.ravel()])
    if isinstance(x, (float, np.floating)):
        return f"{type(x).__name__}:{float(x)!r}"
    return f"{type(x).__name__}:{x!r}"


def call(label, fn, *args, **kwargs):
    try:
        res = show(fn(*args, **kwargs))
    except Exception as exc:  # noqa: BLE001
        res = "RAISES " + type(exc).__name__
    out.append(f"{label} {args!r} {kwargs!r} -> {res}")


def want(name: str) -> bool:
    return not SECTIONS or name in SECTIONS


# ---------------------------------------------------------------- inputs
nonhc_sets = {
    "std": gas.make_nonhydrocarbon_properties(0.03, 0.012, 0.018),
    "sour": gas.make_nonhydrocarbon_properties(0.05, 0.01, 0.04),
    "sweet": gas.make_nonhydrocarbon_properties(0.0, 0.0, 0.0),
    "rich": gas.make_nonhydrocarbon_properties(0.1, 0.2, 0.3),
    "other": gas.make_nonhydrocarbon_properties(
        0.02, 0.01, 0.03, ("Helium", 0.004, 4.0026, 9.34, 33.0), ("Argon", 0.001, 39.95, 271.5, 705.0)
    ),
    "negH2S": gas.make_nonhydrocarbon_properties(0.02, -0.01, 0.03),
    "all": gas.make_nonhydrocarbon_properties(0.3, 0.3, 0.4),
    "nan": gas.make_nonhydrocarbon_properties(nan, 0.01, 0.02),
}

temps = [400, 400.0, 60, 200.5, np.float64(250.0), -100.0, 1500.0]
pressures = [
    14.7, 100, 100.0, 104.7, 1000.0, 5000.0, 14000.0, 30000.0, np.float64(2500.0), 1e-3, 1.0, -100,
    np.float32(100.0), True,
]
pcs = [(-102, 649), (-102.21827232417752, 648.510797253794), (-72.20351526841193, 653.2582064200534),
       (np.float64(-80.0), np.float64(660.0))]
sgs = [0.65, 0.8, 0.55, 1.2, np.float64(0.7)]

bad_points = [
    (400, nan, -102, 649), (400, inf, -102, 649), (400, -inf, -102, 649), (nan, 100, -102, 649),
    (inf, 100, -102, 649), (-inf, 100, -102, 649), (400, 100, nan, 649), (400, 100, inf, 649),
    (400, 100, -102, nan), (400, 100, -102, inf), (400, 100, -102, 0), (400, 100, -102, 0.0),
    (400, 0, -102, 649), (400, 0.0, -102, 649), (-459.67, 100, -102, 649), (400, 100, -459.67, 649),
    (np.float64(400), np.float64(nan), -102, 649), (np.float64(400), np.float64(inf), -102, 649),
    (np.float64(400), np.float64(-inf), -102, 649),
    (np.float64(-459.67), np.float64(100), -102, 649),
    (np.float64(400), np.float64(100), np.float64(-459.67), 649),
    (np.float64(400), np.float64(100), -102, np.float64(0)),
    (np.float64(400), np.float64(0), -102, 649),
    (np.float64(nan), np.float64(100), -102, 649),
    (400, np.array([100.0, 200.0]), -102, 649), (400, np.array([100.0]), -102, 649),
    (400, np.array([nan]), -102, 649), (400, np.array([nan, 1.0]), -102, 649),
    (400, np.array([inf]), -102, 649), (400, np.array(100.0), -102, 649), (400, np.array(nan), -102, 649),
    (np.array([400.0, 300.0]), 100, -102, 649), (np.array([400.0]), 100, -102, 649),
    (400, "a", -102, 649), (400, None, -102, 649), (400, 1e308, -102, 1e-300), (400, 1e6, -102, 649),
    (400, 1e5, -102, 649), (400, 100 + 0j, -102, 649), (400, [100.0], -102, 649),
    (400, np.array([]), -102, 649), (400, np.float32(nan), -102, 649), (400, np.float32(inf), -102, 649),
    (1e200, 100, -102, 649), (400, 1e200, -102, 649), (400, 1e160, -102, 649), (400, 100, 1e200, 649),
    (400, 100, -102, 1e-200), (400, 100, -102, -649), (400, 100, -900, 649), (-900, 100, -102, 649),
    (400, np.float16(100), -102, 649), (400, np.int64(100), -102, np.int64(649)),
]

# ---------------------------------------------------------------- make_nonhydrocarbon_properties
if want("nonhc"):
    call("nonhc", gas.make_nonhydrocarbon_properties, 0.03, 0.012, 0.018)
    call("nonhc", gas.make_nonhydrocarbon_properties, 0, 0, 0)
    call("nonhc", gas.make_nonhydrocarbon_properties, 0.03, 0.012, 0.018, ("He", 0.01, 4.0, 9.3, 33.0))
    call("nonhc", gas.make_nonhydrocarbon_properties, 0.03, 0.012, 0.018, ("He", 0.01, 4.0))
    call("nonhc", gas.make_nonhydrocarbon_properties, "x", 0.012, 0.018)
    call("nonhc", gas.make_nonhydrocarbon_properties, None, 0.012, 0.018)
    call("nonhc", gas.make_nonhydrocarbon_properties, 0.03, 0.012)
    call("nonhc", gas.make_nonhydrocarbon_properties, np.array([0.1, 0.2]), 0.012, 0.018)

# ---------------------------------------------------------------- pseudocritical point
if want("pc"):
    for name, nh in nonhc_sets.items():
        for sg in [0.55, 0.65, 0.8, 1.0, 1.5, np.float64(0.7), 0.0, nan, np.array([0.6, 0.7])]:
            for fluid in ("dry gas", "wet gas"):
                call(f"pc[{name}]", gas.pseudocritical_point_Sutton, sg, nh, fluid)
            call(f"pc[{name}]", gas.pseudocritical_point_Sutton, sg, nh)
    nh = nonhc_sets["std"]
    call("pc", gas.pseudocritical_point_Sutton, 0.65, nh, "oil")
    call("pc", gas.pseudocritical_point_Sutton, 0.65, nh, fluid="Dry gas")
    call("pc", gas.pseudocritical_point_Sutton, 0.65, nh[:2], "dry gas")
    call("pc", gas.pseudocritical_point_Sutton, 0.65, nh[:0], "dry gas")
    call("pc", gas.pseudocritical_point_Sutton, 0.65, None, "dry gas")
    call("pc", gas.pseudocritical_point_Sutton, "a", nh, "dry gas")
    call("pc", gas.pseudocritical_point_Sutton, 0.65, {"fraction": [0.1, 0.1, 0.1]}, "dry gas")
    as_dict = {k: nh[k] for k in ("fraction", "molecular weight", "critical temperature", "critical pressure")}
    call("pc", gas.pseudocritical_point_Sutton, 0.65, as_dict, "dry gas")
    as_lists = {k: list(v) for k, v in as_dict.items()}
    call("pc", gas.pseudocritical_point_Sutton, 0.65, as_lists, "dry gas")
    import pandas as pd

    call("pc", gas.pseudocritical_point_Sutton, 0.65, pd.DataFrame(as_dict), "wet gas")
    two_d = {k: np.vstack([v, v]).T for k, v in as_dict.items()}
    call("pc", gas.pseudocritical_point_Sutton, 0.65, two_d, "wet gas")
    f32 = {k: v.astype(np.float32) for k, v in as_dict.items()}
    call("pc", gas.pseudocritical_point_Sutton, 0.65, f32, "wet gas")

# ---------------------------------------------------------------- z, b, rho, cg, mu
if want("z"):
    for tpc, ppc in pcs:
        for t in temps:
            for p in pressures:
                call("z", gas.z_factor_DAK, t, p, tpc, ppc)
    for a in bad_points:
        call("z-bad", gas.z_factor_DAK, *a)
    call("z-kw", gas.z_factor_DAK, temperature=400, pressure=100, temperature_pseudocritical=-102,
         pressure_pseudocritical=649)
    call("z-few", gas.z_factor_DAK, 400, 100, -102)
    call("z-many", gas.z_factor_DAK, 400, 100, -102, 649, 1e-12)
    call("z-unknownkw", gas.z_factor_DAK, 400, 100, -102, 649, tolerance=1e-3)

if want("hy"):
    for p in [100.0, 1000.0, 5000.0, np.float64(2000.0), 0.0, nan, inf]:
        for t in [1.2, 1.5, 2.0, 3.0, np.float64(1.8), 0.0, nan]:
            call("hy", gas.z_factor_hallyarbrough, p, t)
    call("hy", gas.z_factor_hallyarbrough, np.array([100.0, 200.0]), 1.5)
    call("hy", gas.z_factor_hallyarbrough, np.array([100.0]), 1.5)

if want("b"):
    for tpc, ppc in pcs[:2]:
        for t in temps:
            for p in pressures:
                call("b", gas.b_factor_DAK, t, p, tpc, ppc)
                call("b", gas.b_factor_DAK, t, p, tpc, ppc, 70, 14.65)
                call("b", gas.b_factor_DAK, t, p, tpc, ppc, pressure_standard=15.025)
    for a in bad_points:
        call("b-bad", gas.b_factor_DAK, *a)
    call("b-bad", gas.b_factor_DAK, 400, 100, -102, 649, -459.67, 14.7)
    call("b-bad", gas.b_factor_DAK, 400, 100, -102, 649, 60, nan)
    call("b-bad", gas.b_factor_DAK, 400, 100, -102, 649, 60, None)

if want("rho"):
    for tpc, ppc in pcs[:2]:
        for t in temps:
            for p in pressures:
                for sg in sgs:
                    call("rho", gas.density_DAK, t, p, tpc, ppc, sg)
    for a in bad_points:
        call("rho-bad", gas.density_DAK, *a, 0.65)
    for sg in [0.0, -0.5, nan, inf, None, "a", np.array([0.6, 0.7])]:
        call("rho-bad", gas.density_DAK, 400, 100, -102, 649, sg)
    call("rho-few", gas.density_DAK, 400, 100, -102, 649)
    call("rho-kw", gas.density_DAK, 400, 100, -102, 649, specific_gravity=0.65)
    call("rho-unknownkw", gas.density_DAK, 400, 100, -102, 649, 0.65, tolerance=1e-3)
    call("rho-many", gas.density_DAK, 400, 100, -102, 649, 0.65, 1e-3)

if want("cg"):
    for tpc, ppc in pcs:
        for t in temps:
            for p in pressures:
                call("cg", gas.compressibility_DAK, t, p, tpc, ppc)
    for a in bad_points:
        call("cg-bad", gas.compressibility_DAK, *a)

if want("mu"):
    for tpc, ppc in pcs[:2]:
        for t in temps:
            for p in pressures:
                for sg in sgs:
                    call("mu", gas.viscosity_Sutton, t, p, tpc, ppc, sg)
    for a in bad_points:
        call("mu-bad", gas.viscosity_Sutton, *a, 0.65)
    for sg in [0.0, -0.5, nan, inf, None, "a", np.array([0.6, 0.7])]:
        call("mu-bad", gas.viscosity_Sutton, 400, 100, -102, 649, sg)
    call("mu-few", gas.viscosity_Sutton, 400, 100, -102, 649)
    call("mu-kw", gas.viscosity_Sutton, 400, 100, -102, 649, specific_gravity=0.65)
    call("mu-unknownkw", gas.viscosity_Sutton, 400, 100, -102, 649, 0.65, tolerance=1e-3)
    call("mu-many", gas.viscosity_Sutton, 400, 100, -102, 649, 0.65, 1e-3)

# ---------------------------------------------------------------- pseudopressure
if want("m"):
    for tpc, ppc in pcs[:2]:
        for t in [400, 200.5, np.float64(250.0)]:
            for p in [14.7, 100, 104.7, 1000.0, 5000.0, 12000.0, np.float64(2500.0), 1.0, 14.70]:
                call("m", gas.pseudopressure_Hussainy, t, p, tpc, ppc, 0.65)
        call("m", gas.pseudopressure_Hussainy, 400, 3000.0, tpc, ppc, 0.8, 15.025)
        call("m", gas.pseudopressure_Hussainy, 400, 3000.0, tpc, ppc, 0.8, pressure_standard=3000.0)
        call("m", gas.pseudopressure_Hussainy, 400, 10.0, tpc, ppc, 0.8, pressure_standard=500.0)
    for a in bad_points:
        call("m-bad", gas.pseudopressure_Hussainy, *a, 0.65)
    for sg in [0.0, -0.5, nan, None, "a"]:
        call("m-bad", gas.pseudopressure_Hussainy, 400, 100, -102, 649, sg)
    call("m-bad", gas.pseudopressure_Hussainy, 400, 100, -102, 649, 0.65, 0.0)
    call("m-bad", gas.pseudopressure_Hussainy, 400, 100, -102, 649, 0.65, nan)
    call("m-bad", gas.pseudopressure_Hussainy, 400, 100, -102, 649, 0.65, None)
    call("m-bad", gas.pseudopressure_Hussainy, 400, 100, -102, 649)
    call("m-bad", gas.pseudopressure_Hussainy, 400, 100, -102, 649, 0.65, 14.7, 100)
    call("m-bad", gas.pseudopressure_Hussainy, 400, 100, -102, 649, 0.65, limit=10)

# ---------------------------------------------------------------- table builder (consumer)
if want("table"):
    for dryness in ("dry gas", "wet gas", "damp gas"):
        for vals in (
            {"N2": 0.03, "H2S": 0.012, "CO2": 0.018, "Gas Specific Gravity": 0.65,
             "Reservoir Temperature (deg F)": 400},
            {"N2": 0.0, "H2S": 0.0, "CO2": 0.0, "Gas Specific Gravity": 0.8,
             "Reservoir Temperature (deg F)": 250.0},
        ):
            for pmax in (30.0, 20.0, 10.0, 2000.0):
                try:
                    tab = build_pvt_gas(vals, dryness, pmax)
                    out.append(f"table {dryness} {pmax} cols={list(tab.columns)!r} shape={tab.shape}")
                    for col in tab.columns:
                        out.append(f"  {col} " + repr([repr(float(v)) for v in tab[col].to_numpy()]))
                except Exception as exc:  # noqa: BLE001
                    out.append(f"table {dryness} {pmax} RAISES {type(exc).__name__}")

# signatures as seen through positional/keyword binding are exercised above; also record __all__-ish names
out.append("public " + repr(sorted(n for n in dir(gas) if not n.startswith("_") and callable(getattr(gas, n))
                               and getattr(getattr(gas, n), "__module__", "") == gas.__name__)))

with open(sys.argv[1], "w") as fh:
    fh.write("\n".join(out) + "\n")
