"""Equivalence harness for bluebonnet.flow.reservoir.

Usage: PYTHONPATH=<tree>/src /venv/bin/python equiv.py <outfile>

Calls every public entry point of the module (and the private matrix builder)
on a broad set of inputs and writes all results bit-exactly (float.hex / sha256
of the raw bytes) or the exception type + message + cause type.
"""

from __future__ import annotations

import hashlib
import os
import sys
import warnings

import numpy as np
import pandas as pd

warnings.simplefilter("ignore")

from bluebonnet.flow import (  # noqa: E402
    FlowProperties,
    IdealReservoir,
    MultiPhaseReservoir,
    SinglePhaseReservoir,
    TwoPhaseReservoir,
)
from bluebonnet.flow import reservoir as resmod  # noqa: E402
from bluebonnet.flow.flowproperties import FlowPropertiesSimple  # noqa: E402

DATA = os.environ.get("BB_DATA", "/tmp/twin6_reservoir/tests/data")
OUT = []


def fmt(v, depth=0):
    """Bit-exact textual form of a result."""
    if isinstance(v, BaseException):
        return f"EXC {type(v).__name__}: {v} cause={type(v.__cause__).__name__}"
    if v is None or isinstance(v, (bool, str, int)) and not isinstance(v, np.generic):
        return f"{type(v).__name__}:{v!r}"
    if isinstance(v, float):
        return f"float:{v.hex()}"
    if isinstance(v, np.generic):
        return f"{type(v).__name__}:{v!r}:{np.asarray(v).tobytes().hex()}"
    if isinstance(v, np.ndarray) and v.dtype.kind in "OUSV":
        return f"ndarray shape={v.shape} dtype={v.dtype} items={v.tolist()!r}"
    if isinstance(v, np.ndarray):
        a = np.ascontiguousarray(v)
        head = ""
        if a.dtype.kind in "fiub" and a.size:
            flat = a.ravel()
            pick = flat[[0, flat.size // 2, flat.size - 1]]
            head = ",".join(
                float(x).hex() if a.dtype.kind == "f" else repr(x.item()) for x in pick
            )
        digest = hashlib.sha256(a.tobytes()).hexdigest()
        return (
            f"ndarray shape={v.shape} dtype={v.dtype} writeable={v.flags.writeable} "
            f"nan={int(np.isnan(a).sum()) if a.dtype.kind == 'f' else 0} "
            f"sha={digest} pick={head}"
        )
    if isinstance(v, (pd.Series, pd.DataFrame)):
        return f"{type(v).__name__} index={list(v.index)[:5]} " + fmt(v.to_numpy())
    if hasattr(v, "tocsr") and hasattr(v, "indptr"):
        return (
            f"{type(v).__name__} format={v.format} shape={v.shape} dtype={v.dtype} "
            f"data[{fmt(v.data)}] indices[{fmt(v.indices)}] indptr[{fmt(v.indptr)}]"
        )
    if isinstance(v, (tuple, list)):
        return f"{type(v).__name__}(" + "; ".join(fmt(x, depth + 1) for x in v) + ")"
    return f"{type(v).__name__}:{v!r}"


def rec(label, fn):
    try:
        r = fn()
    except BaseException as e:  # noqa: BLE001
        r = e
    OUT.append(f"{label} -> {fmt(r)}")
    return r


def state(label, res):
    """Dump the observable attributes of a reservoir object."""
    for name in ("time", "pseudopressure", "recovery"):
        if hasattr(res, name):
            OUT.append(f"{label}.{name} = {fmt(getattr(res, name))}")
        else:
            OUT.append(f"{label}.{name} = <unset>")


# ----------------------------------------------------------------------------
# fluids
# ----------------------------------------------------------------------------
gas_cols = {
    "P": "pressure",
    "Z-Factor": "z-factor",
    "Cg": "compressibility",
    "Viscosity": "viscosity",
    "Density": "density",
}
oil_cols = {
    "P": "pressure",
    "Z-Factor": "z-factor",
    "Co": "compressibility",
    "Oil_Viscosity": "viscosity",
    "Oil_Density": "density",
}
pvt_gas = pd.read_csv(os.path.join(DATA, "pvt_gas.csv")).rename(columns=gas_cols)
pvt_oil = pd.read_csv(os.path.join(DATA, "pvt_oil.csv")).rename(columns=oil_cols)
pvt_gas_dict = {c: pvt_gas[c].to_numpy().copy() for c in pvt_gas.columns}
# user-indexed table: labels are reversed and offset, rows are in the same order
pvt_gas_lab = pvt_gas.copy()
pvt_gas_lab.index = pd.Index(np.arange(len(pvt_gas))[::-1] * 3 + 7)
pvt_gas_str = pvt_gas.copy()
pvt_gas_str.index = pd.Index([f"r{i:04d}" for i in range(len(pvt_gas))])

FLUIDS = {
    "gas_df": FlowProperties(pvt_gas, 8000),
    "gas_df_5123": FlowProperties(pvt_gas, 5123.4),
    "gas_dict": FlowProperties(pvt_gas_dict, 8000),
    "gas_labelled": FlowProperties(pvt_gas_lab, 8000),
    "gas_strindex": FlowProperties(pvt_gas_str, 7000.5),
    "oil_df": FlowProperties(pvt_oil, 6000),
    "gas_simple": FlowPropertiesSimple(
        pvt_gas[["pressure", "compressibility", "viscosity", "density"]], 8000
    ),
    "gas_nan_pi": FlowProperties(pvt_gas, float("nan")),
    "gas_nodensity": FlowProperties(pvt_gas.drop(columns="density"), 8000),
    "gas_dict_nodensity": FlowProperties(
        {k: v for k, v in pvt_gas_dict.items() if k != "density"}, 8000
    ),
    "gas_lists": FlowProperties({k: v for k, v in pvt_gas_dict.items()}, 8000),
}


def times(kind):
    if kind == "sqrt200":
        return np.linspace(0, np.sqrt(9.0), 200) ** 2
    if kind == "lin50":
        return np.linspace(0, 2.0, 50)
    if kind == "log40":
        return np.concatenate([[0.0], np.logspace(-6, 2, 39)])
    if kind == "two":
        return np.array([0.0, 0.5])
    if kind == "one":
        return np.array([0.0])
    if kind == "empty":
        return np.array([])
    if kind == "int":
        return np.arange(0, 12)
    if kind == "f32":
        return np.linspace(0, 1, 25, dtype=np.float32)
    if kind == "repeat":
        return np.array([0.0, 0.1, 0.1, 0.3, 0.3, 0.7])
    if kind == "decreasing":
        return np.array([0.0, 0.3, 0.2, 0.5])
    if kind == "nan":
        return np.array([0.0, 0.1, np.nan, 0.5])
    if kind == "list":
        return [0.0, 0.1, 0.2, 0.4]
    if kind == "tuple":
        return (0.0, 0.1, 0.2)
    if kind == "scalar0d":
        return np.array(1.0)
    if kind == "2d":
        return np.linspace(0, 1, 12).reshape(6, 2)
    if kind == "series":
        return pd.Series(np.linspace(0, 1.5, 20))
    if kind == "series_labelled":
        return pd.Series(np.linspace(0, 1.5, 6), index=[5, 4, 3, 2, 1, 0])
    raise KeyError(kind)


TIME_KINDS = [
    "sqrt200", "lin50", "log40", "two", "one", "empty", "int", "f32", "repeat",
    "decreasing", "nan", "list", "tuple", "scalar0d", "2d", "series",
    "series_labelled",
]  # fmt: skip

QUERY = np.array([-1.0, 0.0, 1e-9, 0.01, 0.05, 0.3, 0.77, 1.0, 1.9999, 2.0, 5.0, 1e3, np.nan])


def after_simulation(label, res):
    """Exercise everything that is downstream of simulate()."""
    state(label + " after simulate", res)
    rec(label + " interpolator#1(query)", lambda: res.recovery_factor_interpolator()(QUERY))
    state(label + " after interpolator#1", res)
    r = rec(label + " recovery_factor()", lambda: res.recovery_factor())
    rec(label + " recovery is cached object", lambda: r is res.recovery)
    rec(label + " recovery_factor(density=True)", lambda: res.recovery_factor(density=True))
    state(label + " after density rf", res)
    rec(label + " interpolator#2(query)", lambda: res.recovery_factor_interpolator()(QUERY))
    rec(label + " interpolator#2(0.25)", lambda: res.recovery_factor_interpolator()(0.25))
    rec(
        label + " recovery_factor(time=arange)",
        lambda: res.recovery_factor(np.arange(3.0)),
    )
    rec(label + " recovery_factor(density=1)", lambda: res.recovery_factor(None, 1))
    rec(label + " recovery_factor(density=0)", lambda: res.recovery_factor(None, 0))
    rec(label + " interpolator#3 type", lambda: type(res.recovery_factor_interpolator()).__name__)
    rec(
        label + " interpolator#3 attrs",
        lambda: (
            res.recovery_factor_interpolator().bounds_error,
            res.recovery_factor_interpolator().fill_value,
            res.recovery_factor_interpolator().x,
            res.recovery_factor_interpolator().y,
        ),
    )


# ----------------------------------------------------------------------------
# 1. errors before simulate
# ----------------------------------------------------------------------------
for cls in (IdealReservoir, SinglePhaseReservoir, TwoPhaseReservoir, MultiPhaseReservoir):
    res = cls(10, 100.0, 8000.0, FLUIDS["gas_df"])
    lab = f"presim {cls.__name__}"
    rec(lab + " recovery_factor()", lambda: res.recovery_factor())
    rec(lab + " recovery_factor(density=True)", lambda: res.recovery_factor(density=True))
    rec(lab + " recovery_factor(time)", lambda: res.recovery_factor(np.linspace(0, 1, 4)))
    rec(lab + " interpolator", lambda: res.recovery_factor_interpolator())
    rec(lab + " fvf_scale", lambda: res.fvf_scale())
    rec(lab + " repr", lambda: repr(res)[:60])
    state(lab, res)
    # a user-set 'recovery' without a simulation
    res.recovery = np.array([0.0, 0.5])
    rec(lab + " interpolator with user recovery only", lambda: res.recovery_factor_interpolator())
    res.time = np.array([0.0, 1.0])
    rec(
        lab + " interpolator with user time+recovery",
        lambda: res.recovery_factor_interpolator()(QUERY),
    )
    res.recovery = None
    rec(
        lab + " interpolator with recovery=None",
        lambda: res.recovery_factor_interpolator()(QUERY),
    )
    del res.recovery
    rec(
        lab + " interpolator with time only (no pseudopressure)",
        lambda: res.recovery_factor_interpolator()(QUERY),
    )

# ----------------------------------------------------------------------------
# 2. IdealReservoir
# ----------------------------------------------------------------------------
for nx in (1, 2, 3, 4, 10, 30):
    for tk in TIME_KINDS:
        for pf in (100.0, 0.0, np.array([100.0, 200.0]), 9000):
            if tk not in ("lin50", "two") and not (isinstance(pf, float) and pf == 100.0):
                continue
            res = IdealReservoir(nx, pf, 8000.0, FLUIDS["gas_df"])
            lab = f"ideal nx={nx} t={tk} pf={pf!r}"
            t = rec(lab + " times", lambda: times(tk))
            rec(lab + " simulate", lambda: res.simulate(t))
            after_simulation(lab, res)
            rec(lab + " fvf_scale", lambda: res.fvf_scale())

ideal = IdealReservoir(5, 100.0, 8000.0)
for lab, arg in [
    ("float array", np.linspace(0, 1, 5)),
    ("int array", np.arange(4)),
    ("2d", np.zeros((2, 3))),
    ("bool", np.array([True, False])),
    ("scalar float", 0.5),
    ("scalar int", 3),
    ("np scalar", np.float32(0.25)),
    ("0d", np.array(2.0)),
    ("list", [0.1, 0.2]),
    ("empty", np.array([])),
    ("series", pd.Series([0.1, 0.4], index=[9, 3])),
    ("string", "abc"),
    ("none", None),
]:
    rec(f"ideal.alpha_scaled({lab})", lambda: ideal.alpha_scaled(arg))
rec("ideal no fluid density", lambda: (ideal.simulate(times("lin50")), ideal.recovery_factor(density=True)))
rec("ideal nx float", lambda: IdealReservoir(4.0, 1.0, 2.0).simulate(times("two")))
rec("ideal nx str", lambda: IdealReservoir("4", 1.0, 2.0).simulate(times("two")))
rec("ideal pinit 0 fvf", lambda: IdealReservoir(4, 1.0, 0.0).fvf_scale())
rec("ideal pinit 0 np fvf", lambda: IdealReservoir(4, np.float64(1.0), np.float64(0.0)).fvf_scale())

# ----------------------------------------------------------------------------
# 3. SinglePhaseReservoir / TwoPhaseReservoir
# ----------------------------------------------------------------------------


def pf_series(kind, n, fluid_hi):
    rng = np.random.default_rng(12345)
    if kind == "none":
        return None
    if kind == "const":
        return np.full(n, 250.0)
    if kind == "ramp_down":
        return np.linspace(min(7000.0, fluid_hi), 100.0, n)
    if kind == "steps":
        return np.repeat([3000.0, 1500.0, 1500.0, 500.0, 3000.0], -(-n // 5))[:n]
    if kind == "random_dups":
        return rng.choice(np.array([100.0, 2000.5, 4000.25, 333.125]), size=n)
    if kind == "random":
        return rng.uniform(50.0, min(7900.0, fluid_hi), size=n)
    if kind == "injection":
        # frac-face pressure above the initial pressure: pseudopressure exceeds m_i
        return np.linspace(100.0, min(12000.0, fluid_hi), n)
    if kind == "zigzag":
        return np.where(np.arange(n) % 2 == 0, min(11000.0, fluid_hi), 300.0)
    if kind == "list":
        return list(np.linspace(3000.0, 100.0, n))
    if kind == "tuple":
        return tuple(np.linspace(3000.0, 100.0, n))
    if kind == "int":
        return np.arange(n) * 7 + 100
    if kind == "series":
        return pd.Series(np.linspace(3000.0, 100.0, n))
    if kind == "series_labelled":
        return pd.Series(np.linspace(3000.0, 100.0, n), index=np.arange(n)[::-1])
    if kind == "column2d":
        return np.linspace(3000.0, 100.0, n).reshape(n, 1)
    if kind == "wide2d":
        return np.tile(np.linspace(3000.0, 100.0, n).reshape(n, 1), (1, 2))
    if kind == "with_nan":
        a = np.linspace(3000.0, 100.0, n)
        a[n // 2 :: 3] = np.nan
        return a
    if kind == "negzero":
        a = np.linspace(3000.0, 0.0, n)
        a[-1] = -0.0
        a[2 % n] = 0.0
        a[5 % n] = -0.0
        a[8 % n] = 0.0
        return a
    if kind == "negzero_first":
        a = np.linspace(3000.0, 0.0, n)
        a[0] = -0.0
        a[3 % n] = 0.0
        return a
    if kind == "two_below":
        a = np.linspace(3000.0, 100.0, n)
        a[3 % n] = -5.0
        a[7 % n] = -9.0
        a[1 % n] = 1e9
        return a
    if kind == "two_above":
        a = np.linspace(3000.0, 100.0, n)
        a[3 % n] = 2e9
        a[7 % n] = 1e9
        return a
    if kind == "nones":
        return [None] * n
    if kind == "mixed_obj":
        return [100.0, "a", None] + [200.0] * (n - 3)
    if kind == "complex":
        return np.linspace(3000.0, 100.0, n) + 0j
    if kind == "bools":
        return np.arange(n) % 2 == 0
    if kind == "all_nan":
        return np.full(n, np.nan)
    if kind == "nan_first":
        a = np.linspace(3000.0, 100.0, n)
        a[0] = np.nan
        return a
    if kind == "masked":
        return np.ma.masked_greater(np.linspace(3000.0, 100.0, n), 2500.0)
    if kind == "too_short":
        return np.linspace(3000.0, 100.0, max(n - 1, 0))
    if kind == "too_long":
        return np.linspace(3000.0, 100.0, n + 2)
    if kind == "below_range":
        a = np.linspace(3000.0, 100.0, n)
        a[-1] = -5.0
        return a
    if kind == "above_range":
        a = np.linspace(3000.0, 100.0, n)
        a[0] = 1e9
        return a
    if kind == "scalar":
        return 100.0
    if kind == "strings":
        return ["a"] * n
    if kind == "inf":
        a = np.linspace(3000.0, 100.0, n)
        a[1 % max(n, 1)] = np.inf
        return a
    raise KeyError(kind)


PF_KINDS = [
    "none", "const", "ramp_down", "steps", "random_dups", "random", "injection",
    "zigzag", "list", "tuple", "int", "series", "series_labelled", "column2d",
    "wide2d", "with_nan", "negzero", "too_short", "too_long", "below_range",
    "above_range", "scalar", "strings", "inf", "negzero_first", "two_below",
    "two_above", "nones", "mixed_obj", "complex", "bools", "all_nan", "nan_first",
    "masked",
]  # fmt: skip

for fname, nx, tk in [
    ("gas_df", 30, "sqrt200"),
    ("gas_df", 10, "lin50"),
    ("gas_df", 3, "log40"),
    ("gas_df", 2, "lin50"),
    ("gas_df", 1, "lin50"),
    ("gas_df_5123", 12, "lin50"),
    ("gas_dict", 10, "lin50"),
    ("gas_labelled", 10, "lin50"),
    ("gas_strindex", 10, "lin50"),
    ("oil_df", 15, "lin50"),
    ("gas_simple", 10, "lin50"),
    ("gas_nan_pi", 6, "lin50"),
    ("gas_nodensity", 6, "lin50"),
    ("gas_dict_nodensity", 6, "two"),
    ("gas_lists", 6, "repeat"),
]:
    fluid = FLUIDS[fname]
    hi = float(np.max(np.asarray(fluid.pvt_props["pressure"])))
    for pk in PF_KINDS:
        res = SinglePhaseReservoir(nx, 100.0, 8000.0, fluid)
        lab = f"single fluid={fname} nx={nx} t={tk} pf={pk}"
        t = times(tk)
        p = rec(lab + " pf", lambda: pf_series(pk, len(t), hi))
        rec(lab + " simulate", lambda: res.simulate(t, p) if pk != "none" else res.simulate(t))
        after_simulation(lab, res)

# constructor-level fracface pressures and odd times
for pf0 in (100.0, 0.0, 8000.0, 12000.0, 7999, -1.0, 1e9, np.nan, np.float32(250.0), np.array(300.0),
            np.array([400.0]), "100"):
    for tk in ("lin50", "two"):
        res = SinglePhaseReservoir(8, pf0, 8000.0, FLUIDS["gas_df"])
        lab = f"single ctor pf={pf0!r} t={tk}"
        rec(lab + " simulate", lambda: res.simulate(times(tk)))
        after_simulation(lab, res)
        rec(lab + " fvf_scale", lambda: res.fvf_scale())
res = SinglePhaseReservoir(8, np.linspace(3000.0, 100.0, 50), 8000.0, FLUIDS["gas_df"])
rec("single ctor pf=array50 simulate lin50", lambda: res.simulate(times("lin50")))
after_simulation("single ctor pf=array50", res)
res = SinglePhaseReservoir(8, np.linspace(3000.0, 100.0, 7), 8000.0, FLUIDS["gas_df"])
rec("single ctor pf=array7 simulate lin50", lambda: res.simulate(times("lin50")))
state("single ctor pf=array7", res)

for tk in TIME_KINDS:
    for cls in (SinglePhaseReservoir, TwoPhaseReservoir):
        res = cls(9, 150.0, 8000.0, FLUIDS["gas_df"])
        lab = f"{cls.__name__} odd time t={tk}"
        t = rec(lab + " times", lambda: times(tk))
        rec(lab + " simulate", lambda: res.simulate(t))
        after_simulation(lab, res)

# re-simulation drops the cached recovery
res = SinglePhaseReservoir(9, 150.0, 8000.0, FLUIDS["gas_df"])
res.simulate(times("lin50"))
res.recovery_factor()
state("resim first", res)
res.simulate(times("log40"), np.linspace(5000.0, 100.0, 40))
state("resim second", res)
rec("resim interpolator", lambda: res.recovery_factor_interpolator()(QUERY))
rec("resim failing", lambda: res.simulate(times("lin50"), np.zeros(3)))
state("resim after failure", res)
rec("resim failing interpolator", lambda: res.recovery_factor_interpolator()(QUERY))

# user-assigned pseudopressure of odd shapes
for lab, pp in [
    ("1d", np.linspace(1, 0, 7)),
    ("0d", np.array(0.5)),
    ("3d", np.linspace(1, 0, 24).reshape(2, 4, 3)),
    ("list2d", [[1.0, 0.9, 0.8, 0.7], [0.9, 0.8, 0.7, 0.6]]),
    ("narrow", np.linspace(1, 0, 4).reshape(2, 2)),
    ("int", np.arange(12).reshape(2, 6)),
    ("frame", pd.DataFrame(np.linspace(1, 0.2, 12).reshape(2, 6), index=[4, 2])),
]:
    for cls in (IdealReservoir, SinglePhaseReservoir):
        res = cls(6, 150.0, 8000.0, FLUIDS["gas_labelled"])
        res.time = np.array([0.0, 1.0])
        res.pseudopressure = pp
        rec(f"user pp {lab} {cls.__name__} rf", lambda: res.recovery_factor())
        rec(f"user pp {lab} {cls.__name__} rf density", lambda: res.recovery_factor(density=True))
        rec(f"user pp {lab} {cls.__name__} interpolator", lambda: res.recovery_factor_interpolator()(QUERY))

# alpha_scaled of the real-fluid classes
sp = SinglePhaseReservoir(9, 150.0, 8000.0, FLUIDS["gas_df"])
for lab, arg in [
    ("array", np.linspace(0, 1, 7)),
    ("beyond", np.array([-1.0, 0.0, 1.0, 1.5, np.nan])),
    ("scalar", 0.3),
    ("2d", np.linspace(0, 1, 6).reshape(2, 3)),
    ("list", [0.2, 0.4]),
    ("str", "x"),
]:
    rec(f"single.alpha_scaled({lab})", lambda: sp.alpha_scaled(arg))
rec("single no fluid", lambda: SinglePhaseReservoir(5, 1.0, 2.0).simulate(times("two")))
rec("two-phase positional pf", lambda: TwoPhaseReservoir(5, 1.0, 2.0, FLUIDS["gas_df"]).simulate(times("two"), None))
rec("two-phase Sw_init", lambda: TwoPhaseReservoir(5, 1.0, 2.0, FLUIDS["gas_df"], 0.3).Sw_init)

# ----------------------------------------------------------------------------
# 4. MultiPhaseReservoir
# ----------------------------------------------------------------------------
mp = MultiPhaseReservoir(6, 100.0, 8000.0, FLUIDS["gas_df"], 0.7, 0.1, 0.2)
rec("multi simulate", lambda: mp.simulate(times("lin50")))
rec("multi simulate none", lambda: mp.simulate(None))
state("multi", mp)
rec("multi step saturation", lambda: mp._step_saturation(None, None, None))
rec("multi alpha_scaled 1 arg", lambda: mp.alpha_scaled(np.linspace(0, 1, 4)))
sat = np.zeros(4, dtype=[(s, np.float64) for s in ("So", "Sg", "Sw")])
rec("multi alpha_scaled 2 arg", lambda: mp.alpha_scaled(np.linspace(0, 1, 4), sat))
rec("multi fields", lambda: (mp.So_init, mp.Sw_init, mp.Sg_init, mp.nx))

# ----------------------------------------------------------------------------
# 5. the matrix builder
# ----------------------------------------------------------------------------
rng = np.random.default_rng(7)
for lab, arg in [
    ("n1", np.array([0.3])),
    ("n2", np.array([0.3, 1.7])),
    ("n3", np.array([0.3, 1.7, 2.9])),
    ("n30", rng.uniform(0, 50, 30)),
    ("n200", rng.lognormal(0, 3, 200)),
    ("zeros", np.zeros(5)),
    ("neg", -rng.uniform(0, 5, 6)),
    ("negzero", np.array([-0.0, 0.0, -0.0])),
    ("nan", np.array([0.1, np.nan, 0.3, np.nan])),
    ("inf", np.array([0.1, np.inf, 0.3])),
    ("int", np.arange(1, 6)),
    ("int32", np.arange(1, 6, dtype=np.int32)),
    ("f32", np.linspace(0, 1, 5, dtype=np.float32)),
    ("bool", np.array([True, False, True])),
    ("complex", np.array([1 + 2j, 0.5j, 3.0])),
    ("noncontig", rng.uniform(0, 5, 20)[::3]),
    ("readonly", np.broadcast_to(0.25, (6,))),
    ("empty", np.array([])),
    ("0d", np.array(0.5)),
    ("scalar", 0.5),
    ("list", [0.1, 0.2, 0.3]),
    ("tuple", (0.1, 0.2)),
    ("2d", rng.uniform(0, 1, (3, 4))),
    ("series", pd.Series([0.1, 0.2, 0.3])),
    ("series_labelled", pd.Series([0.1, 0.2, 0.3, 0.4], index=[3, 2, 1, 0])),
    ("str", "abc"),
    ("none", None),
]:
    before = arg.copy() if isinstance(arg, (np.ndarray, pd.Series)) else None
    m = rec(f"_build_matrix({lab})", lambda: resmod._build_matrix(arg))
    if before is not None:
        rec(
            f"_build_matrix({lab}) input untouched",
            lambda: bool(np.array_equal(np.asarray(before), np.asarray(arg), equal_nan=True)),
        )
    if hasattr(m, "toarray"):
        rec(f"_build_matrix({lab}) dense", lambda: m.toarray())
        rec(f"_build_matrix({lab}) sorted/canonical", lambda: (m.has_sorted_indices, m.has_canonical_format, m.nnz))

with open(sys.argv[1], "w") as fh:
    fh.write("\n".join(OUT) + "\n")
print(len(OUT), "records")
