"""Equivalence probe for bluebonnet.plotting (run on clean and refactored trees)."""

from __future__ import annotations

import os
import sys
import warnings

import matplotlib

matplotlib.use("Agg")
import matplotlib.pyplot as plt  # noqa: E402
import numpy as np  # noqa: E402
import pandas as pd  # noqa: E402

from bluebonnet import plotting  # noqa: E402
from bluebonnet.flow import (  # noqa: E402
    FlowProperties,
    IdealReservoir,
    SinglePhaseReservoir,
)

SIG = 11  # significant digits for floats (None = full repr)
BB_DATA = os.environ.get("BB_DATA", "/tmp/twin2_plotting/tests/data")
warnings.simplefilter("ignore")
OUT: list[str] = []


def fmt(v):
    """Deterministic text for scalars / arrays / containers."""
    if isinstance(v, (bool, np.bool_)):
        return repr(bool(v))
    if isinstance(v, (float, np.floating)):
        v = float(v)
        if SIG is None or v != v or v in (float("inf"), float("-inf")):
            return repr(v)
        return f"{v:.{SIG - 1}e}"
    if isinstance(v, (int, np.integer)):
        return "i" + repr(int(v))
    if isinstance(v, np.ndarray):
        return f"arr[{v.dtype.kind}{v.shape}](" + ",".join(fmt(x) for x in v.ravel().tolist()) + ")"
    if isinstance(v, (list, tuple)):
        return type(v).__name__ + "(" + ",".join(fmt(x) for x in v) + ")"
    if v is None or isinstance(v, str):
        return repr(v)
    return "<" + type(v).__name__ + ">"


def emit(tag, v):
    OUT.append(f"{tag}: {fmt(v)}")


def dump_axes(tag, ax):
    emit(tag + ".nlines", len(ax.lines))
    for k, ln in enumerate(ax.lines):
        emit(f"{tag}.line{k}.x", np.asarray(ln.get_xdata(), dtype=float))
        emit(f"{tag}.line{k}.y", np.asarray(ln.get_ydata(), dtype=float))
        emit(f"{tag}.line{k}.color", str(ln.get_color()))
        emit(f"{tag}.line{k}.label", str(ln.get_label()))
        emit(f"{tag}.line{k}.lw", ln.get_linewidth())
        emit(f"{tag}.line{k}.ls", str(ln.get_linestyle()))
        emit(f"{tag}.line{k}.marker", str(ln.get_marker()))
    emit(tag + ".xlabel", ax.get_xlabel())
    emit(tag + ".ylabel", ax.get_ylabel())
    emit(tag + ".xscale", ax.get_xscale())
    emit(tag + ".yscale", ax.get_yscale())
    emit(tag + ".xlim", tuple(ax.get_xlim()))
    emit(tag + ".ylim", tuple(ax.get_ylim()))
    emit(tag + ".xticks", np.asarray(ax.get_xticks(), dtype=float))
    emit(tag + ".xmajloc", type(ax.xaxis.get_major_locator()).__name__)
    emit(tag + ".xminloc", type(ax.xaxis.get_minor_locator()).__name__)
    emit(tag + ".xmajfmt", type(ax.xaxis.get_major_formatter()).__name__)
    emit(tag + ".xminfmt", type(ax.xaxis.get_minor_formatter()).__name__)
    emit(tag + ".xtransform", type(ax.xaxis.get_transform()).__qualname__)
    pts = np.array([[0.0, 0.0], [0.5, 0.01], [1.0, 0.2], [7.0, 0.9]])
    try:
        emit(tag + ".transData", ax.transData.transform(pts))
    except Exception as e:  # noqa: BLE001
        emit(tag + ".transData", "EXC " + type(e).__name__)


def run(tag, func, *args, own_axes=False, **kwargs):
    """Call a plotting function and dump everything observable."""
    plt.close("all")
    ax_in = None
    if own_axes:
        _, ax_in = plt.subplots()
        kwargs["ax"] = ax_in
    nfig_before = len(plt.get_fignums())
    try:
        ax = func(*args, **kwargs)
    except Exception as e:  # noqa: BLE001
        emit(tag, "EXC " + type(e).__name__)
        emit(tag + ".nfig_created", len(plt.get_fignums()) - nfig_before)
        if ax_in is not None:
            dump_axes(tag + ".partial", ax_in)
        plt.close("all")
        return
    emit(tag + ".nfig_created", len(plt.get_fignums()) - nfig_before)
    emit(tag + ".same_ax", (ax is ax_in) if own_axes else "n/a")
    emit(tag + ".rettype", type(ax).__mro__[-3].__name__ if False else isinstance(ax, plt.Axes))
    dump_axes(tag, ax)
    plt.close("all")


class Fake:
    """Duck-typed reservoir."""

    def __init__(self, time, pp, rf=None, nx=None, raise_rf=None):
        if time is not None:
            self.time = time
        if pp is not None:
            self.pseudopressure = pp
        if nx is not None:
            self.nx = nx
        self._rf = rf
        self._raise = raise_rf
        self.calls = 0

    def recovery_factor(self):
        self.calls += 1
        if self._raise is not None:
            raise self._raise
        return self._rf


def reservoirs():
    res = {}
    t = np.linspace(0, np.sqrt(11.0), 400) ** 2
    r = IdealReservoir(30, 100.0, 2000.0)
    r.simulate(t)
    res["ideal"] = r
    t2 = np.linspace(0, np.sqrt(3.0), 151) ** 2
    r = IdealReservoir(12, 500.0, 4000.0)
    r.simulate(t2)
    res["ideal_small"] = r
    ren = {
        "P": "pressure",
        "Z-Factor": "z-factor",
        "Cg": "compressibility",
        "Viscosity": "viscosity",
        "Density": "density",
    }
    pvt = pd.read_csv(os.path.join(BB_DATA, "pvt_gas.csv")).rename(columns=ren)
    fluid = FlowProperties(pvt, 2e3)
    r = SinglePhaseReservoir(30, pressure_fracface=100.0, pressure_initial=2e3, fluid=fluid)
    r.simulate(np.linspace(0, np.sqrt(11.0), 300) ** 2)
    res["gas"] = r
    return res


def probe_pseudopressure(res):
    f = plotting.plot_pseudopressure
    for name, r in res.items():
        for every in (1, 7, 50, 200, 1000, 2.5, -3, True):
            for rescale in (False, True):
                run(f"pp.{name}.e{every}.r{rescale}", f, r, every=every, rescale=rescale)
        run(f"pp.{name}.default", f, r)
        run(f"pp.{name}.positional", f, r, 40, True, None, 0.5, 1.5, {"linewidth": 3.0})
        run(f"pp.{name}.ownax", f, r, every=60, own_axes=True, x_max=2, y_max=0.7)
        run(
            f"pp.{name}.kw",
            f,
            r,
            every=33,
            rescale=True,
            own_axes=True,
            plot_kwargs={"linestyle": "--", "marker": "o", "label": "zz"},
        )
        run(f"pp.{name}.emptykw", f, r, every=90, plot_kwargs={})
        # error paths
        run(f"pp.{name}.every0", f, r, every=0, own_axes=True)
        run(f"pp.{name}.every0r", f, r, every=0, rescale=True)
        run(f"pp.{name}.everyNone", f, r, every=None)
        run(f"pp.{name}.everystr", f, r, every="a", own_axes=True)
        run(f"pp.{name}.dupcolor", f, r, every=50, plot_kwargs={"color": "r"}, own_axes=True)
        run(f"pp.{name}.badkw", f, r, every=50, rescale=True, plot_kwargs={"nonsense": 1})
        run(f"pp.{name}.badkwtype", f, r, every=50, plot_kwargs=3)
        run(f"pp.{name}.badax", f, r, every=50, ax="notanaxes")
    # duck-typed / degenerate
    pp = np.array([[1.0, 1.0, 1.0], [0.0, 0.5, 0.9], [0.2, 0.2, 0.2], [0.1, 0.3, 0.5]])
    for rescale in (False, True):
        run(f"pp.fake.r{rescale}", f, Fake(None, pp, nx=3), every=1, rescale=rescale)
        run(f"pp.fake2.r{rescale}", f, Fake(None, pp, nx=3), every=2, rescale=rescale, own_axes=True)
        run(f"pp.fake.nonx.r{rescale}", f, Fake(None, pp), every=1, rescale=rescale)
        run(f"pp.fake.nopp.r{rescale}", f, Fake(None, None, nx=3), every=1, rescale=rescale)
        run(f"pp.fake.badnx.r{rescale}", f, Fake(None, pp, nx=4), every=1, rescale=rescale, own_axes=True)
        run(f"pp.fake.nx0.r{rescale}", f, Fake(None, pp, nx=0), every=1, rescale=rescale)
        run(f"pp.fake.empty.r{rescale}", f, Fake(None, np.empty((0, 3)), nx=3), rescale=rescale)
        run(f"pp.fake.1d.r{rescale}", f, Fake(None, np.array([1.0, 2.0, 3.0]), nx=3), every=1, rescale=rescale)
        run(
            f"pp.fake.list.r{rescale}",
            f,
            Fake(None, [[1.0, 1.0, 1.0], [0.0, 0.5, 0.9]], nx=3),
            every=1,
            rescale=rescale,
            own_axes=True,
        )
    run("pp.none", f, None)


def probe_recovery(res):
    for fname in ("plot_recovery_rate", "plot_recovery_factor"):
        f = getattr(plotting, fname)
        for name, r in res.items():
            for ct in (False, True, 0, 1, None, "yes"):
                run(f"{fname}.{name}.ct{ct}", f, r, change_ticks=ct)
                run(f"{fname}.{name}.ct{ct}.own", f, r, change_ticks=ct, own_axes=True)
            run(f"{fname}.{name}.default", f, r)
            run(f"{fname}.{name}.positional", f, r, None, True, {"color": "k", "linewidth": 0.5})
            run(f"{fname}.{name}.kw", f, r, own_axes=True, plot_kwargs={"linestyle": ":", "marker": "x"})
            run(f"{fname}.{name}.duplabel", f, r, own_axes=True, plot_kwargs={"label": "mine"})
            run(f"{fname}.{name}.duplabel.ct", f, r, change_ticks=True, plot_kwargs={"label": "mine"})
            run(f"{fname}.{name}.badkw", f, r, own_axes=True, change_ticks=True, plot_kwargs={"nonsense": 1})
            run(f"{fname}.{name}.badkwtype", f, r, plot_kwargs=5)
            run(f"{fname}.{name}.badax", f, r, ax="notanaxes")
            run(f"{fname}.{name}.badax.ct", f, r, ax=3.0, change_ticks=True)
        unsim = IdealReservoir(10, 100.0, 2000.0)
        run(f"{fname}.unsim", f, unsim)
        run(f"{fname}.unsim.own", f, unsim, own_axes=True, change_ticks=True)
        run(f"{fname}.none", f, None)
        t = np.array([0.0, 0.1, 0.4, 0.9, 1.6, 2.5])
        rf = np.array([0.0, 0.2, 0.35, 0.5, 0.58, 0.6])
        cases = {
            "basic": Fake(t, rf=rf, pp=None),
            "list": Fake(list(t), rf=list(rf), pp=None),
            "short": Fake(np.array([0.5]), rf=np.array([0.1]), pp=None),
            "two": Fake(np.array([0.5, 2.0]), rf=np.array([0.1, 0.3]), pp=None),
            "empty": Fake(np.array([]), rf=np.array([]), pp=None),
            "mismatch": Fake(t, rf=rf[:-1], pp=None),
            "neg": Fake(t - 3.0, rf=rf, pp=None),
            "nan": Fake(np.array([0.0, 1.0, np.nan, 3.0]), rf=np.array([0.0, 0.1, 0.2, 0.3]), pp=None),
            "nanfirst": Fake(np.array([np.nan, 1.0, 2.0, 3.0]), rf=np.array([0.0, 0.1, 0.2, 0.3]), pp=None),
            "big": Fake(t * 1e6, rf=rf, pp=None),
            "tiny": Fake(t * 1e-9, rf=rf, pp=None),
            "zero": Fake(t * 0.0, rf=rf, pp=None),
            "notime": Fake(None, rf=rf, pp=None),
            "raises": Fake(t, pp=None, raise_rf=KeyError("boom")),
            "rfnone": Fake(t, rf=None, pp=None),
            "scalar_time": Fake(3.0, rf=rf, pp=None),
            "int": Fake(np.arange(6), rf=np.arange(6) * 2, pp=None),
        }
        for cname, fake in cases.items():
            for ct in (False, True):
                fake.calls = 0
                run(f"{fname}.fake.{cname}.ct{ct}", f, fake, change_ticks=ct)
                emit(f"{fname}.fake.{cname}.ct{ct}.rfcalls", fake.calls)
                fake.calls = 0
                run(f"{fname}.fake.{cname}.ct{ct}.own", f, fake, change_ticks=ct, own_axes=True)
                emit(f"{fname}.fake.{cname}.ct{ct}.own.rfcalls", fake.calls)


def probe_scale():
    S = plotting.SquareRootScale
    emit("scale.name", S.name)
    emit("scale.registered", matplotlib.scale.get_scale_names().count("squareroot"))
    emit("scale.mro", [c.__name__ for c in S.__mro__ if c.__module__.startswith("matplotlib")])
    plt.close("all")
    _, ax = plt.subplots()

    def attempt(tag, fn):
        try:
            emit(tag, fn())
        except Exception as e:  # noqa: BLE001
            emit(tag, "EXC " + type(e).__name__)

    attempt("scale.init.kw", lambda: S(ax.xaxis, base=10))
    attempt("scale.init.noaxis", lambda: S())
    attempt("scale.init.none", lambda: type(S(None)).__name__)
    s = S(ax.xaxis)
    for args in [
        (-1.0, 2.0, 0.1),
        (0.0, 2.0, 0.1),
        (-0.0, 2.0, 0.1),
        (3.5, 2.0, 0.1),
        (float("nan"), 1.0, 0.1),
        (float("inf"), 1.0, 0.1),
        (-float("inf"), float("nan"), None),
        (-5, 7, 1),
        (2, 7, 1),
        (0, 7, 1),
        (np.float64(-2.0), np.float64(3.0), 1.0),
        (np.float64(2.5), None, 1.0),
        (True, False, 0),
        (None, 1.0, 0.1),
        ("a", 1.0, 0.1),
        (np.array([1.0, -1.0]), 1.0, 0.1),
    ]:
        attempt(f"scale.limit{args!r}", lambda a=args: s.limit_range_for_scale(*a))
        attempt(f"scale.limit.types{args!r}", lambda a=args: [type(x).__name__ for x in s.limit_range_for_scale(*a)])
    attempt("scale.limit.kw", lambda: s.limit_range_for_scale(vmin=-3.0, vmax=4.0, minpos=1.0))
    attempt("scale.limit.short", lambda: s.limit_range_for_scale(-3.0, 4.0))

    s.set_default_locators_and_formatters(ax.yaxis)
    emit(
        "scale.locs",
        [
            type(ax.yaxis.get_major_locator()).__name__,
            type(ax.yaxis.get_major_formatter()).__name__,
            type(ax.yaxis.get_minor_locator()).__name__,
            type(ax.yaxis.get_minor_formatter()).__name__,
        ],
    )
    attempt("scale.locs.bad", lambda: s.set_default_locators_and_formatters(None))

    fwd = s.get_transform()
    inv = fwd.inverted()
    emit("tr.fwd.type", type(fwd).__qualname__)
    emit("tr.inv.type", type(inv).__qualname__)
    emit("tr.inv.inv.type", type(inv.inverted()).__qualname__)
    emit("tr.fwd.bases", [c.__name__ for c in type(fwd).__mro__ if c.__module__.startswith("matplotlib")])
    emit("tr.inv.bases", [c.__name__ for c in type(inv).__mro__ if c.__module__.startswith("matplotlib")])
    emit("tr.fresh", fwd is not s.get_transform())
    for name, t in (("fwd", fwd), ("inv", inv), ("clsfwd", S.SquareRootTransform()), ("clsinv", S.InvertedSquareRootTransform())):
        emit(f"tr.{name}.dims", [t.input_dims, t.output_dims, t.is_separable, t.has_inverse, t.is_affine])
        for label, val in [
            ("arr", np.array([0.0, 0.25, 1.0, 2.0, 9.0, 1e-300, 1e300, 1e160])),
            ("neg", np.array([-1.0, -0.0, -4.0])),
            ("special", np.array([np.nan, np.inf, -np.inf])),
            ("int", np.array([0, 1, 4, 7, -9])),
            ("bigint", np.array([3037000500, 2**62])),
            ("bool", np.array([True, False])),
            ("list", [0.0, 2.0, 16.0]),
            ("tuple", (3, 5)),
            ("scalar", 6.25),
            ("iscalar", 7),
            ("npscalar", np.float64(2.0)),
            ("col", np.array([[0.0], [2.0], [49.0]])),
            ("2d", np.array([[1.0, 2.0], [3.0, 4.0]])),
            ("empty", np.array([])),
            ("f32", np.array([2.0, 3.0], dtype=np.float32)),
            ("cplx", np.array([1 + 2j, -4 + 0j])),
            ("masked", np.ma.masked_array([1.0, 4.0, 9.0], mask=[False, True, False])),
            ("str", "abc"),
            ("none", None),
            ("obj", np.array([2.0, None], dtype=object)),
        ]:
            for meth in ("transform", "transform_non_affine", "transform_affine"):

                def call(t=t, meth=meth, val=val):
                    r = getattr(t, meth)(val)
                    if isinstance(r, np.ndarray) and r.dtype.kind == "c":
                        return [type(r).__name__, str(r.dtype), r.shape, r.real.copy(), r.imag.copy()]
                    if isinstance(r, np.ndarray):
                        return [type(r).__name__, str(r.dtype), r]
                    return [type(r).__name__, r]

                attempt(f"tr.{name}.{meth}.{label}", call)
        # input must not be mutated / aliased
        src = np.array([4.0, 9.0])
        out = t.transform_non_affine(src)
        emit(f"tr.{name}.src_unchanged", src)
        emit(f"tr.{name}.alias_nonaffine", out is src)
        out2 = t.transform(src)
        emit(f"tr.{name}.alias_transform", out2 is src)

    # integration through axes
    for val, axis in ((np.array([0.0, 1.0, 4.0, 10.0]), "x"), (np.array([0.5, 2.0]), "y")):
        plt.close("all")
        _, ax2 = plt.subplots()
        ax2.plot(val, val)
        getattr(ax2, f"set_{axis}scale")("squareroot")
        dump_axes(f"scale.axes.{axis}", ax2)
        getattr(ax2, f"set_{axis}lim")(-3.0, 20.0)
        dump_axes(f"scale.axes.{axis}.lim", ax2)
    plt.close("all")
    _, ax3 = plt.subplots()
    attempt("scale.axes.kwarg", lambda: ax3.set_xscale("squareroot", base=2))
    plt.close("all")


def main(outfile):
    res = reservoirs()
    probe_pseudopressure(res)
    probe_recovery(res)
    probe_scale()
    with open(outfile, "w") as fh:
        fh.write("\n".join(OUT) + "\n")


if __name__ == "__main__":
    main(sys.argv[1])
