"""Equivalence driver for twin4 (pseudocritical_point_Sutton: table-driven fits)."""
import itertools
import sys
import warnings

import numpy as np

warnings.simplefilter("ignore")

from bluebonnet.fluids import gas
from bluebonnet.fluids.fluid import build_pvt_gas

out = []


def fmt(v):
    if isinstance(v, tuple):
        return "(" + ", ".join(fmt(x) for x in v) + ")"
    if isinstance(v, np.ndarray):
        return "array[" + ", ".join(fmt(x) for x in v.ravel().tolist()) + "]"
    if isinstance(v, (complex, np.complexfloating)):
        return repr(complex(v))
    if isinstance(v, (float, np.floating)):
        return repr(float(v))
    return repr(v)


def rec(label, fn, *args, **kwargs):
    try:
        res = fmt(fn(*args, **kwargs))
    except Exception as exc:  # record only the type
        res = "EXC:" + type(exc).__name__
    out.append(f"{label} {args!r} {kwargs!r} -> {res}")


def pc(sg, n2, h2s, co2, *rest, others=()):
    props = gas.make_nonhydrocarbon_properties(n2, h2s, co2, *others)
    return gas.pseudocritical_point_Sutton(sg, props, *rest)


gravities = [0.55, 0.6, 0.65, 0.7, 0.8, 0.95, 1.2, 1.6, 1, np.float64(0.75)]
compositions = [
    (0.0, 0.0, 0.0),
    (0.03, 0.012, 0.018),
    (0.05, 0.01, 0.04),
    (0.1, 0.0, 0.0),
    (0.0, 0.2, 0.0),
    (0.0, 0.0, 0.3),
    (0.02, 0.15, 0.25),
    (0.3, 0.3, 0.3),
    (1e-9, 1e-9, 1e-9),
]
for sg, comp, fluid in itertools.product(gravities, compositions, ["dry gas", "wet gas"]):
    rec("pc", pc, sg, *comp, fluid)
for sg, comp in itertools.product(gravities[::3], compositions[::2]):
    rec("pc_default", pc, sg, *comp)  # default fluid
rng = np.random.default_rng(27182)
for _ in range(200):
    sg = float(rng.uniform(0.56, 1.5))
    comp = tuple(float(x) for x in rng.uniform(0.0, 0.15, 3))
    fluid = ["dry gas", "wet gas"][int(rng.integers(2))]
    rec("pc_rand", pc, sg, *comp, fluid)

# extra non-hydrocarbon rows
he = ("Helium", 0.01, 4.0026, 9.34, 33.0)
o2 = ("Oxygen", 0.02, 31.999, 278.24, 731.4)
for fluid in ["dry gas", "wet gas"]:
    rec("pc_others", pc, 0.7, 0.03, 0.012, 0.018, fluid, others=(he,))
    rec("pc_others2", pc, 0.7, 0.03, 0.012, 0.018, fluid, others=(he, o2))
    rec("pc_others9", pc, 0.7, 0.01, 0.012, 0.018, fluid, others=(he, o2) * 4)

props = gas.make_nonhydrocarbon_properties(0.03, 0.012, 0.018)
# keyword / array / string-like variants
rec("pc_kw", gas.pseudocritical_point_Sutton, specific_gravity=0.65,
    non_hydrocarbon_properties=props, fluid="dry gas")
rec("pc_arr_sg", gas.pseudocritical_point_Sutton, np.array([0.6, 0.7, 0.8]), props, "dry gas")
rec("pc_arr_sg_wet", gas.pseudocritical_point_Sutton, np.array([0.6, 0.7, 0.8]), props, "wet gas")
rec("pc_npstr", gas.pseudocritical_point_Sutton, 0.65, props, np.str_("dry gas"))
rec("pc_npstr_wet", gas.pseudocritical_point_Sutton, 0.65, props, np.str_("wet gas"))
rec("pc_recarray", gas.pseudocritical_point_Sutton, 0.65, props.view(np.recarray), "wet gas")
rec("pc_dict", gas.pseudocritical_point_Sutton, 0.65,
    {k: props[k] for k in props.dtype.names}, "dry gas")
rec("pc_dict_lists", gas.pseudocritical_point_Sutton, 0.65,
    {k: list(props[k]) for k in props.dtype.names}, "dry gas")

# raising / degenerate inputs
for fluid in ["moist gas", "Dry Gas", "dry gas ", "", None, 3, b"dry gas", ["dry gas"], ("dry gas",)]:
    rec("pc_badfluid", gas.pseudocritical_point_Sutton, 0.65, props, fluid)
rec("pc_badfluid_badprops", gas.pseudocritical_point_Sutton, 0.65, None, "oil")
edge = [
    (0.65, -0.01, 0.012, 0.018),
    (0.65, 0.03, -0.012, 0.018),  # sqrt of negative H2S fraction
    (0.65, 0.03, 0.012, -0.018),
    (0.65, 0.03, 0.012, -0.05),  # negative acid-gas sum -> fractional power of negative
    (0.65, 0.5, 0.25, 0.25),  # no hydrocarbons: division by zero (numpy)
    (0.65, 0.6, 0.3, 0.3),  # negative hydrocarbon fraction
    (0.0, 0.03, 0.012, 0.018),
    (-0.5, 0.03, 0.012, 0.018),
    (float("nan"), 0.03, 0.012, 0.018),
    (float("inf"), 0.03, 0.012, 0.018),
    (0.65, float("nan"), 0.012, 0.018),
    (0.65, 0.03, float("nan"), 0.018),
    (0.65, 0.03, float("inf"), 0.018),
    ("0.65", 0.03, 0.012, 0.018),
    (None, 0.03, 0.012, 0.018),
    (0.65 + 0j, 0.03, 0.012, 0.018),
]
for e, fluid in itertools.product(edge, ["dry gas", "wet gas"]):
    rec("pc_edge", pc, *e, fluid)
for bad in [None, 3.0, "props", props[:2], props[:1], props[:0], props["fraction"],
            np.zeros((3, 5)), [1, 2, 3]]:
    for fluid in ["dry gas", "wet gas"]:
        rec("pc_badprops", gas.pseudocritical_point_Sutton, 0.65, bad, fluid)
rec("pc_missing", gas.pseudocritical_point_Sutton, 0.65)


def pvt_any(gas_values, gas_dryness, maxp):
    res = build_pvt_gas(gas_values, gas_dryness, maxp)
    return tuple(np.asarray(res[c], dtype=float) for c in res.columns)


gv = {"N2": 0.03, "H2S": 0.012, "CO2": 0.018, "Gas Specific Gravity": 0.65,
      "Reservoir Temperature (deg F)": 200.0}
rec("pvt", pvt_any, gv, "dry gas", 1500.0)
rec("pvt_wet", pvt_any, gv, "wet gas", 1500.0)
rec("pvt_bad", pvt_any, gv, "moist gas", 1500.0)

with open(sys.argv[1], "w") as fh:
    fh.write("\n".join(out) + "\n")
