"""Equivalence driver for twin2 (Spivey log-table built column-wise, module-level coefficients).

Usage: PYTHONPATH=<tree>/src python equiv.py <outfile>
"""
from __future__ import annotations

import os
import sys
import warnings
from decimal import Decimal
from fractions import Fraction

import numpy as np
import pandas as pd

from bluebonnet.fluids import oil
from bluebonnet.fluids.fluid import Fluid

DATA = os.environ.get("BB_DATA", "/tmp/twin12_oil/tests/data")
LINES: list[str] = []


def fmt(x):
    if isinstance(x, pd.Series):
        return f"Series(index={list(x.index)!r}, dtype={x.dtype}, values={fmt(x.to_numpy())})"
    if isinstance(x, pd.DataFrame):
        return f"DataFrame(cols={list(x.columns)!r}, index={list(x.index)!r}, values={fmt(x.to_numpy())})"
    if isinstance(x, np.ma.MaskedArray):
        return f"masked(mask={np.ma.getmaskarray(x).tolist()!r}, data={fmt(np.asarray(x.filled(-1.0)))})"
    if isinstance(x, np.ndarray):
        flat = [fmt(v) for v in x.ravel().tolist()]
        return f"ndarray(shape={x.shape}, dtype={x.dtype}, [{', '.join(flat)}])"
    if isinstance(x, (tuple, list)):
        return type(x).__name__ + "(" + ", ".join(fmt(v) for v in x) + ")"
    if isinstance(x, (float, np.floating)):
        return f"{type(x).__name__}:{float(x)!r}"
    if isinstance(x, (complex, np.complexfloating)):
        return f"{type(x).__name__}:{complex(x)!r}"
    return f"{type(x).__name__}:{x!r}"


def rec(label, func, *args, **kwargs):
    with warnings.catch_warnings(record=True) as caught:
        warnings.simplefilter("always")
        try:
            out = fmt(func(*args, **kwargs))
        except Exception as exc:  # noqa: BLE001
            out = f"RAISED {type(exc).__name__}: {exc}"
    cats = sorted({f"{w.category.__name__}: {w.message}" for w in caught})
    LINES.append(f"{label} -> {out} | warnings={cats}")


base = np.array([14.7, 100.0, 1500.0, 2603.0, 2603.1217021875277, 2604.0, 3000.0, 5000.0, 12000.0])
rng = np.random.default_rng(12)
shuffled = rng.permutation(base)

pressures = {
    "arr": base,
    "arr_shuffled": shuffled,
    "arr_above": np.array([2700.0, 3000.0, 4000.0, 9000.0]),
    "arr_empty": np.array([], dtype=float),
    "arr_empty_2d": np.empty((0, 3)),
    "arr_len1": np.array([4000.0]),
    "arr_int": np.array([100, 2000, 3000, 5000]),
    "arr_uint8": np.array([100, 200, 250], dtype=np.uint8),
    "arr_bool": np.array([True, False, True]),
    "arr_f32": np.array([100.0, 2000.0, 3000.0, 5000.0], dtype=np.float32),
    "arr_f16": np.array([100.0, 2000.0, 3000.0, 5000.0], dtype=np.float16),
    "arr_longdouble": np.array([100.0, 2000.0, 3000.0], dtype=np.longdouble),
    "arr_complex": np.array([100.0 + 0j, 3000.0 + 1j]),
    "arr_2d": base[:8].reshape(2, 4),
    "arr_2d_col": base[:4].reshape(4, 1),
    "arr_3d": base[:8].reshape(2, 2, 2),
    "arr_inf_nan": np.array([100.0, np.inf, np.nan, 3000.0]),
    "arr_neg_zero": np.array([-100.0, -25.0, 0.0, -0.0, 3000.0]),
    "arr_strided": np.linspace(10.0, 6000.0, 24)[::3],
    "arr_reversed_view": base[::-1],
    "arr_fortran_col": np.asfortranarray(np.tile(base, (2, 1)).T)[:, 0],
    "arr_readonly": np.linspace(2700.0, 9000.0, 5),
    "arr_big": np.linspace(1.0, 14000.0, 5001),
    "arr_subclass": np.linspace(2700.0, 9000.0, 5).view(np.recarray),
    "matrix": np.matrix([[3000.0, 4000.0]]),
    "ser_default": pd.Series(base),
    "ser_shuffled_index": pd.Series(base, index=rng.permutation(len(base))),
    "ser_dup_index": pd.Series(base, index=[0, 0, 1, 1, 1, 2, 2, 0, 0]),
    "ser_str_index": pd.Series(shuffled, index=list("ihgfedcba")),
    "ser_nullable": pd.Series([100.0, 3000.0, 2000.0, 5000.0], dtype="Float64"),
    "ser_object": pd.Series([100.0, 3000.0, 2000.0], dtype=object),
    "ser_empty": pd.Series([], dtype=float),
    "index_obj": pd.Index([100.0, 3000.0, 2000.0]),
    "masked": np.ma.masked_array([100.0, 3000.0, 2000.0, 5000.0], mask=[0, 1, 0, 0]),
    "frame": pd.DataFrame({"a": [100.0, 3000.0], "b": [2000.0, 5000.0]}),
    "list": [100.0, 3000.0],
    "list_empty": [],
    "tuple": (100.0, 3000.0),
    "objarr": np.array([100.0, 3000.0, 2000.0], dtype=object),
    "strarr": np.array(["a", "b"]),
    "zero_d": np.array(4000.0),
    "scalar_lo": 2000.0,
    "scalar_hi": 3000.0,
    "scalar_int": 3000,
    "scalar_np": np.float64(2700.0),
    "scalar_f32": np.float32(2700.0),
    "scalar_zero": 0.0,
    "scalar_neg": -10.0,
    "scalar_nan": float("nan"),
    "scalar_inf": float("inf"),
    "scalar_str": "2000",
    "none": None,
}
pressures["arr_readonly"].flags.writeable = False

fluids = {
    "black": (200.0, 35.0, 0.8, 650.0),
    "ints": (200, 35, 1, 650),
    "bools": (200.0, True, True, 650.0),
    "light": (250.0, 45.0, 0.7, 1200.0),
    "heavy": (120.0, 15.0, 0.9, 80.0),
    "tiny_gor": (200.0, 35.0, 0.8, 1.0),  # negative bubble point
    "zero_gor": (200.0, 35.0, 0.8, 0.0),
    "neg_gor": (200.0, 35.0, 0.8, -5.0),  # complex bubble point
    "huge_int_gor": (200.0, 35.0, 0.8, 2**70),
    "uint64_range_gor": (200.0, 35.0, 0.8, 2**63 + 5),
    "big_int_T": (2**40, 35.0, 0.8, 650.0),
    "np_f64": (np.float64(200.0), np.float64(35.0), np.float64(0.8), np.float64(650.0)),
    "np_f32": (np.float32(200.0), np.float32(35.0), np.float32(0.8), np.float32(650.0)),
    "np_f16": (np.float16(200.0), np.float16(35.0), np.float16(0.8), np.float16(650.0)),
    "np_int": (np.int64(200), np.int32(35), np.uint8(1), np.uint64(650)),
    "np_longdouble": (np.longdouble(200.0), 35.0, 0.8, 650.0),
    "zero_d_arrays": (np.array(200.0), np.array(35.0), np.array(0.8), np.array(650.0)),
    "len1_arrays": (np.array([200.0]), 35.0, 0.8, 650.0),
    "fraction": (200.0, Fraction(35, 1), 0.8, 650.0),
    "decimal_T": (Decimal(200), 35.0, 0.8, 650.0),
    "nan_T": (float("nan"), 35.0, 0.8, 650.0),
    "neg_T": (-20.0, 35.0, 0.8, 650.0),
    "zero_T": (0.0, 35.0, 0.8, 650.0),
    "neg_api": (200.0, -10.0, 0.8, 650.0),
    "api_array3": (200.0, np.array([30.0, 35.0, 40.0]), 0.8, 650.0),
    "api_array4": (200.0, np.array([30.0, 35.0, 40.0, 45.0]), 0.8, 650.0),
    "gor_series": (200.0, 35.0, 0.8, pd.Series([650.0, 700.0, 800.0, 900.0])),
    "zero_gg": (200.0, 35.0, 0.0, 650.0),
    "str_T": ("200", 35.0, 0.8, 650.0),
}

for fname, (T, api, gg, gor) in fluids.items():
    for pname, p in pressures.items():
        rec(
            f"oil_compressibility_undersat_Spivey[{fname}][{pname}]",
            oil.oil_compressibility_undersat_Spivey, T, p, api, gg, gor,
        )
    for pname in ("arr", "arr_shuffled", "arr_above", "arr_empty", "arr_2d", "arr_f32", "arr_int",
                  "ser_str_index", "ser_dup_index", "masked", "scalar_lo", "scalar_hi", "zero_d",
                  "arr_big", "arr_strided", "arr_inf_nan"):
        p = pressures[pname]
        # NaN pressures or a NaN bubble point leave np.empty cells of b_o_Standing
        # unwritten (garbage on both trees)
        if pname != "arr_inf_nan" and not (fname == "nan_T" and np.ndim(p) != 0):
            rec(f"b_o_Standing[{fname}][{pname}]", oil.b_o_Standing, T, p, api, gg, gor)
            rec(f"density_Standing[{fname}][{pname}]", oil.density_Standing, T, p, api, gg, gor)
        rec(
            f"oil_compressibility_Standing[{fname}][{pname}]",
            oil.oil_compressibility_Standing, T, p, api, gg, gor, -72.2, 653.0,
        )

# keyword calling conventions and wrong arity
rec("kw", oil.oil_compressibility_undersat_Spivey, temperature=200.0, pressure=base, api_gravity=35.0,
    gas_specific_gravity=0.8, solution_gor_initial=650.0)
rec("missing_arg", oil.oil_compressibility_undersat_Spivey, 200.0, base, 35.0, 0.8)

# repeated calls give the same answer (no state is kept between calls) and inputs are untouched
p_in = base.copy()
first = oil.oil_compressibility_undersat_Spivey(200.0, p_in, 35.0, 0.8, 650.0)
first[:] = -1.0  # a caller scribbling on the result must not affect later calls
rec("second_call", oil.oil_compressibility_undersat_Spivey, 200.0, p_in, 35.0, 0.8, 650.0)
rec("third_call_other_fluid", oil.oil_compressibility_undersat_Spivey, 250.0, p_in, 45.0, 0.7, 1200.0)
rec("input_untouched", lambda: p_in)
rec("result_writeable", lambda: oil.oil_compressibility_undersat_Spivey(200.0, p_in, 35.0, 0.8, 650.0).flags.writeable)
rec("result_owns", lambda: oil.oil_compressibility_undersat_Spivey(200.0, p_in, 35.0, 0.8, 650.0).flags.owndata)

# under np.seterr(all="raise") the same floating point errors surface
with np.errstate(all="raise"):
    for pname in ("arr", "arr_neg_zero", "arr_inf_nan", "scalar_zero", "scalar_neg"):
        rec(f"errstate_raise[{pname}]", oil.oil_compressibility_undersat_Spivey, 200.0, pressures[pname], 35.0, 0.8, 650.0)

# through the Fluid wrapper and with the pressures of the shipped tables
fl = Fluid(200.0, 35.0, 0.8, 650.0)
for pname in ("arr", "ser_str_index", "ser_dup_index", "scalar_lo", "scalar_hi", "arr_2d"):
    rec(f"Fluid.oil_FVF[{pname}]", fl.oil_FVF, pressures[pname])
for table in ("pvt_oil.csv", "pvt_multiphase_oil.csv", "pvt_gas.csv"):
    df = pd.read_csv(os.path.join(DATA, table))
    col = [c for c in df.columns if c.lower().startswith("p")][0]
    for variant, ser in {
        "asis": df[col],
        "reversed_rows": df[col].iloc[::-1],
        "shuffled_rows": df[col].sample(frac=1.0, random_state=3),
        "dup_labels": df[col].set_axis(np.arange(len(df)) // 3),
        "str_labels": df[col].set_axis([f"r{i % 7}" for i in range(len(df))]),
        "numpy": df[col].to_numpy(),
        "numpy_float": df[col].to_numpy(dtype=float),
        "numpy_float_reversed_view": df[col].to_numpy(dtype=float)[::-1],
    }.items():
        rec(f"table[{table}][{variant}].c_o", oil.oil_compressibility_undersat_Spivey, 200.0, ser, 35.0, 0.8, 650.0)
        rec(f"table[{table}][{variant}].b_o", oil.b_o_Standing, 200.0, ser, 35.0, 0.8, 650.0)

with open(sys.argv[1], "w") as fh:
    fh.write("\n".join(LINES) + "\n")
