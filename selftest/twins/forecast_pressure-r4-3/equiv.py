"""Behavioural fingerprint of bluebonnet.forecast.forecast_pressure.

Usage: PYTHONPATH=<tree>/src /venv/bin/python equiv.py <outfile>

Calls _obj_function, fit_production_pressure and plot_production_comparison on a
broad set of inputs (both filter branches, with/without boxcar window, supplied or
default params, positional and keyword calls, inputs that raise) and writes every
result with full float precision (or the exception type / message) to <outfile>.
"""

from __future__ import annotations

import hashlib
import inspect
import os
import sys
import warnings

# FlowProperties formats an error message by iterating a set of strings; pin the
# hash seed so that the message text is reproducible from run to run.
if os.environ.get("PYTHONHASHSEED") != "0":
    os.environ["PYTHONHASHSEED"] = "0"
    os.execv(sys.executable, [sys.executable, *sys.argv])

import matplotlib

matplotlib.use("Agg")

import matplotlib.pyplot as plt
import numpy as np
import pandas as pd
from lmfit import Parameters

import bluebonnet  # noqa: F401  (registers the squareroot scale)
from bluebonnet.forecast import forecast_pressure as fp_mod
from bluebonnet.forecast import fit_production_pressure, plot_production_comparison

DATA = os.environ.get("BB_DATA", "/tmp/twin4_forecast_pressure/tests/data")
OUT: list[str] = []


def fmt(x, depth=0):
    """Full-precision, type-revealing formatting."""
    if isinstance(x, (float, np.floating)):
        return f"{type(x).__name__}:{float(x)!r}"
    if isinstance(x, (bool, np.bool_)):
        return f"bool:{bool(x)}"
    if isinstance(x, (int, np.integer)):
        return f"{type(x).__name__}:{int(x)}"
    if isinstance(x, np.ndarray):
        if x.dtype == object:
            body = ",".join(fmt(v) for v in x.ravel().tolist())
        else:
            body = ",".join(repr(v) for v in x.ravel().tolist())
        return f"ndarray[{x.dtype}]{x.shape}({body})"
    if isinstance(x, pd.Series):
        return f"Series[{x.dtype}]idx={list(x.index)!r}({fmt(x.to_numpy())})"
    if isinstance(x, (list, tuple)):
        return type(x).__name__ + "(" + ",".join(fmt(v, depth + 1) for v in x) + ")"
    if x is None:
        return "None"
    if isinstance(x, str):
        return repr(x)
    return f"<{type(x).__name__}>"


def emit(label, text):
    OUT.append(f"{label} :: {text}")


def run(label, func):
    """Run func, record result or exception, warnings, and open-figure count."""
    with warnings.catch_warnings(record=True) as caught:
        warnings.simplefilter("always")
        try:
            res = func()
            text = "OK " + res
        except BaseException as e:  # noqa: BLE001
            msg = str(e)
            if len(msg) > 160:
                msg = msg[:160] + "#" + hashlib.md5(msg.encode()).hexdigest()
            text = f"EXC {type(e).__name__}: {msg}"
            cause = e.__cause__
            if cause is not None:
                text += f" <- {type(cause).__name__}"
    ws = sorted({f"{w.category.__name__}:{str(w.message)[:80]}" for w in caught})
    emit(label, text + f" | warnings={ws} | nfigs={len(plt.get_fignums())}")
    plt.close("all")


# --------------------------------------------------------------------------- data
pvt = pd.read_csv(os.path.join(DATA, "pvt_gas_HAYNESVILLE SHALE_20.csv"))
pvt_short = pvt[["pressure", "pseudopressure"]].copy()  # lacks needed columns


def make_prod(nt=90, tau_in=180.0, with_gaps=False, index=None, int_gas=False):
    t = np.linspace(0, np.sqrt(4.0), nt) ** 2
    pressure = np.full(nt, 900.0)
    pressure[nt // 4 : nt // 2] /= 2.0
    pressure[nt // 2 :] /= 4.0
    pressure = pressure + 25.0 * np.sin(np.arange(nt) * 0.7)
    gas = 12.0 * np.exp(-np.arange(nt) / 40.0) + 0.5 * np.cos(np.arange(nt) * 1.3) + 1.0
    if int_gas:
        gas = np.round(gas * 10).astype(np.int64)
    df = pd.DataFrame(
        {
            "Extra": np.arange(nt)[::-1],
            "Pressure": pressure,
            "Days": t * tau_in,
            "Gas": gas,
        }
    )
    if with_gaps:
        df.loc[[3, 17, 40], "Gas"] = 0.0
        df.loc[[5, 41], "Gas"] = -1.0
        df.loc[[8, 17, 60], "Pressure"] = np.nan
    if index is not None:
        df.index = index(nt)
    return df


prod_clean = make_prod()
prod_gaps = make_prod(with_gaps=True)
prod_int = make_prod(int_gas=True)
prod_dates = make_prod(index=lambda n: pd.date_range("2020-01-01", periods=n))
prod_shift = make_prod(index=lambda n: np.arange(n) + 5)
prod_small = make_prod(nt=12)
prod_one = prod_clean.iloc[:1]
prod_two = prod_clean.iloc[:2]
prod_empty = prod_clean.iloc[:0]
prod_nogas = prod_clean.drop(columns=["Gas"])
prod_nopressure = prod_clean.drop(columns=["Pressure"])
prod_nodays = prod_clean.drop(columns=["Days"])
prod_allzero = prod_clean.assign(Gas=0.0)
prod_objp = prod_small.astype({"Pressure": object})
prod_objp.iloc[2, prod_objp.columns.get_loc("Pressure")] = None


def make_params(tau=420.0, M=1300.0, p_initial=5000.0, drop=(), order=("M", "tau", "p_initial")):
    vals = {"tau": tau, "M": M, "p_initial": p_initial}
    p = Parameters()
    for name in order:
        if name not in drop:
            p.add(name, vals[name])
    return p


def fit_params(tau_max=2000.0):
    p = Parameters()
    p.add("p_initial", value=4000.0, min=1000.0, max=9000.0)
    p.add("M", value=200.0, min=10.0, max=5000.0)
    p.add("tau", value=300.0, min=30.0, max=tau_max)
    return p


# ---------------------------------------------------------------------- metadata
for f in (fit_production_pressure, plot_production_comparison, fp_mod._obj_function):
    emit(
        f"meta {f.__name__}",
        f"qualname={f.__qualname__} module={f.__module__} sig={inspect.signature(f)} "
        f"doc={hashlib.md5((f.__doc__ or '').encode()).hexdigest()} callable={callable(f)}",
    )
emit("meta forecast.__all__", repr(sorted(bluebonnet.forecast.__all__)))


# ------------------------------------------------------------------ _obj_function
def obj_case(params, days, production, table, pff):
    return lambda: fmt(fp_mod._obj_function(params, days, production, table, pff))


days90 = np.arange(90)
cum90 = np.cumsum(np.array(prod_clean["Gas"]))
pff90 = np.array(prod_clean["Pressure"])
run("obj normal", obj_case(make_params(), days90, cum90, pvt, pff90))
run("obj other order", obj_case(make_params(order=("p_initial", "tau", "M")), days90, cum90, pvt, pff90))
run("obj float days", obj_case(make_params(tau=77.7), days90 * 1.5, cum90, pvt, pff90))
run("obj scalar production", obj_case(make_params(), days90, 3.5, pvt, pff90))
run("obj low p_initial", obj_case(make_params(p_initial=600.0), days90, cum90, pvt, pff90))
run("obj p_initial above table", obj_case(make_params(p_initial=1e6), days90, cum90, pvt, pff90))
run("obj p_initial negative", obj_case(make_params(p_initial=-5.0), days90, cum90, pvt, pff90))
run("obj tau zero", obj_case(make_params(tau=0.0), days90, cum90, pvt, pff90))
run("obj tau negative", obj_case(make_params(tau=-10.0), days90, cum90, pvt, pff90))
run("obj length mismatch", obj_case(make_params(), days90, cum90, pvt, pff90[:-3]))
run("obj production mismatch", obj_case(make_params(), days90, cum90[:-3], pvt, pff90))
run("obj pressure list", obj_case(make_params(), days90, cum90, pvt, list(pff90)))
run("obj pressure scalar", obj_case(make_params(), days90, cum90, pvt, 500.0))
run("obj pressure nan", obj_case(make_params(), days90, cum90, pvt, np.where(days90 == 7, np.nan, pff90)))
run("obj bad table", obj_case(make_params(), days90, cum90, pvt_short, pff90))
run("obj table None", obj_case(make_params(), days90, cum90, None, pff90))
run("obj days list", obj_case(make_params(), list(days90), cum90, pvt, pff90))
run("obj two days", obj_case(make_params(), days90[:2], cum90[:2], pvt, pff90[:2]))
run("obj one day", obj_case(make_params(), days90[:1], cum90[:1], pvt, pff90[:1]))
run("obj zero days", obj_case(make_params(), days90[:0], cum90[:0], pvt, pff90[:0]))
for drop in (("tau",), ("M",), ("p_initial",), ("tau", "M"), ("M", "p_initial"), ("tau", "M", "p_initial")):
    run(f"obj missing {drop}", obj_case(make_params(drop=drop), days90, cum90, pvt, pff90))
run("obj params dict of floats", obj_case({"tau": 1.0, "M": 2.0, "p_initial": 3.0}, days90, cum90, pvt, pff90))
run("obj params None", obj_case(None, days90, cum90, pvt, pff90))


# -------------------------------------------------------- fit_production_pressure
def fit_result(res):
    parts = [f"type={type(res).__name__}"]
    parts.append("names=" + repr(list(res.params.keys())))
    for name, par in res.params.items():
        parts.append(
            f"{name}=({fmt(par.value)},{fmt(par.min)},{fmt(par.max)},vary={par.vary},init={fmt(par.init_value)})"
        )
    parts.append(f"nfev={res.nfev}")
    parts.append(f"method={res.method}")
    parts.append(f"ndata={getattr(res, 'ndata', None)}")
    parts.append(f"var_names={getattr(res, 'var_names', None)}")
    parts.append(f"residual={fmt(np.asarray(res.residual))}")
    parts.append(f"chisqr={fmt(res.chisqr)}")
    parts.append(f"success={res.success}")
    return " ".join(parts)


def fit_case(*args, **kwargs):
    return lambda: fit_result(fit_production_pressure(*args, **kwargs))


run("fit default n4", fit_case(prod_clean, pvt, 5000.0, n_iter=4))
run("fit default n12", fit_case(prod_clean, pvt, 5000.0, n_iter=12))
run("fit gaps filter on", fit_case(prod_gaps, pvt, 5000.0, n_iter=5))
run("fit gaps filter off", fit_case(prod_gaps, pvt, 5000.0, filter_zero_prod_days=False, n_iter=3))
run("fit clean filter off", fit_case(prod_clean, pvt, 5000.0, filter_zero_prod_days=False, n_iter=5))
run("fit window 1", fit_case(prod_clean, pvt, 5000.0, 1, n_iter=4))
run("fit window 5", fit_case(prod_gaps, pvt, 5000.0, filter_window_size=5, n_iter=4))
run("fit window 0", fit_case(prod_clean, pvt, 5000.0, filter_window_size=0, n_iter=3))
run("fit window float", fit_case(prod_clean, pvt, 5000.0, filter_window_size=2.5, n_iter=3))
run("fit window str", fit_case(prod_clean, pvt, 5000.0, filter_window_size="3", n_iter=3))
run("fit all positional", fit_case(prod_gaps, pvt, 4500.0, 3, 12000.0, 5000.0, True, 4, None))
run("fit all keywords", fit_case(
    prod_data=prod_gaps, pvt_table=pvt, pressure_initial=4500.0, filter_window_size=3,
    pressure_imax=12000.0, inplace_max=5000.0, filter_zero_prod_days=True, n_iter=4, params=None))
run("fit falsy filter 0", fit_case(prod_clean, pvt, 5000.0, filter_zero_prod_days=0, n_iter=3))
run("fit truthy filter str", fit_case(prod_gaps, pvt, 5000.0, filter_zero_prod_days="yes", n_iter=3))
run("fit filter None", fit_case(prod_gaps, pvt, 5000.0, filter_zero_prod_days=None, n_iter=3))
run("fit filter array", fit_case(prod_gaps, pvt, 5000.0, filter_zero_prod_days=np.array([1, 0]), n_iter=3))
run("fit filter empty list", fit_case(prod_clean, pvt, 5000.0, filter_zero_prod_days=[], n_iter=3))
run("fit supplied params", fit_case(prod_clean, pvt, 5000.0, n_iter=5, params=fit_params()))
run("fit supplied params window", fit_case(prod_gaps, pvt, 1.0, 3, params=fit_params(), n_iter=4))
run("fit supplied params missing tau", fit_case(prod_clean, pvt, 5000.0, n_iter=3, params=make_params(drop=("tau",))))
run("fit supplied params empty", fit_case(prod_clean, pvt, 5000.0, n_iter=3, params=Parameters()))
run("fit supplied params fixed", fit_case(prod_clean, pvt, 5000.0, n_iter=3, params=make_params()))
run("fit chained", lambda: fit_result(fit_production_pressure(
    prod_clean, pvt, 5000.0, n_iter=3,
    params=fit_production_pressure(prod_clean, pvt, 5000.0, n_iter=3).params)))
run("fit int gas", fit_case(prod_int, pvt, 5000.0, n_iter=4, inplace_max=1e6))
run("fit date index", fit_case(prod_dates, pvt, 5000.0, n_iter=4))
run("fit shifted index filter off", fit_case(prod_shift, pvt, 5000.0, filter_zero_prod_days=False, n_iter=4))
run("fit small", fit_case(prod_small, pvt, 5000.0, n_iter=4))
run("fit inplace_max below cum", fit_case(prod_clean, pvt, 5000.0, inplace_max=10.0, n_iter=3))
run("fit imax below fracface", fit_case(prod_clean, pvt, 5000.0, pressure_imax=100.0, n_iter=3))
run("fit p_initial below fracface", fit_case(prod_clean, pvt, 100.0, n_iter=3))
run("fit p_initial above imax", fit_case(prod_clean, pvt, 20000.0, n_iter=3))
run("fit p_initial str", fit_case(prod_clean, pvt, "high", n_iter=3))
run("fit p_initial None", fit_case(prod_clean, pvt, None, n_iter=3))
run("fit n_iter 0", fit_case(prod_clean, pvt, 5000.0, n_iter=0))
run("fit n_iter 1", fit_case(prod_clean, pvt, 5000.0, n_iter=1))
run("fit one row", fit_case(prod_one, pvt, 5000.0, n_iter=3))
run("fit two rows", fit_case(prod_two, pvt, 5000.0, n_iter=3))
run("fit empty", fit_case(prod_empty, pvt, 5000.0, n_iter=3))
run("fit all zero gas", fit_case(prod_allzero, pvt, 5000.0, n_iter=3))
run("fit all zero gas filter off", fit_case(prod_allzero, pvt, 5000.0, filter_zero_prod_days=False, n_iter=3))
run("fit no Gas", fit_case(prod_nogas, pvt, 5000.0, n_iter=3))
run("fit no Pressure", fit_case(prod_nopressure, pvt, 5000.0, n_iter=3))
run("fit no Days", fit_case(prod_nodays, pvt, 5000.0, n_iter=3))
run("fit no Gas filter off", fit_case(prod_nogas, pvt, 5000.0, filter_zero_prod_days=False, n_iter=3))
run("fit no Days filter off", fit_case(prod_nodays, pvt, 5000.0, filter_zero_prod_days=False, n_iter=3))
run("fit object pressure filter on", fit_case(prod_objp, pvt, 5000.0, n_iter=3))
run("fit object pressure filter off", fit_case(prod_objp, pvt, 5000.0, filter_zero_prod_days=False, n_iter=3))
run("fit dict input", fit_case({"Days": [0, 1], "Gas": [1, 2], "Pressure": [3, 4]}, pvt, 5000.0, n_iter=3))
run("fit None input", fit_case(None, pvt, 5000.0, n_iter=3))
run("fit bad table", fit_case(prod_clean, pvt_short, 5000.0, n_iter=3))
run("fit table None", fit_case(prod_clean, None, 5000.0, n_iter=3))
run("fit missing args", fit_case(prod_clean, pvt))
run("fit unknown kwarg", fit_case(prod_clean, pvt, 5000.0, niter=3))
run("fit duplicate arg", fit_case(prod_clean, pvt, 5000.0, pressure_initial=4000.0))
before = prod_gaps.copy()
run("fit leaves input untouched", lambda: (
    fit_production_pressure(prod_gaps, pvt, 5000.0, 3, n_iter=2),
    repr(bool(before.equals(prod_gaps)) and list(prod_gaps.columns)))[1])
pin = fit_params()
run("fit mutates supplied params?", lambda: (
    fit_production_pressure(prod_clean, pvt, 5000.0, n_iter=6, params=pin),
    " ".join(f"{k}={fmt(v.value)}" for k, v in pin.items()))[1])


# ----------------------------------------------------- plot_production_comparison
def describe_axes(ax):
    parts = []
    for line in ax.get_lines():
        parts.append(
            f"line(label={line.get_label()!r},ls={line.get_linestyle()!r},"
            f"x={fmt(np.asarray(line.get_xdata()))},y={fmt(np.asarray(line.get_ydata()))})"
        )
    leg = ax.get_legend()
    parts.append("legend=" + repr([t.get_text() for t in leg.get_texts()] if leg else None))
    parts.append(f"xlabel={ax.get_xlabel()!r} ylabel={ax.get_ylabel()!r} title={ax.get_title()!r}")
    parts.append(f"xscale={ax.get_xscale()!r} yscale={ax.get_yscale()!r}")
    parts.append(f"xlim={fmt(tuple(ax.get_xlim()))} ylim={fmt(tuple(ax.get_ylim()))}")
    parts.append(f"autoscale=({ax.get_autoscalex_on()},{ax.get_autoscaley_on()})")
    return " ".join(parts)


def plot_result(res):
    parts = [f"type={type(res).__name__} len={len(res)}"]
    fig, axes = res
    parts.append(f"fig={type(fig).__name__} axes={type(axes).__name__} naxes={len(axes)}")
    parts.append(f"size={fmt(tuple(fig.get_size_inches()))} figaxes={len(fig.axes)}")
    parts.append(f"same_axes={[a is b for a, b in zip(axes, fig.axes)]}")
    fig.canvas.draw()
    for i, ax in enumerate(axes):
        parts.append(f"ax{i}[" + describe_axes(ax) + "]")
    return " ".join(parts)


def plot_case(*args, **kwargs):
    return lambda: plot_result(plot_production_comparison(*args, **kwargs))


run("plot default", plot_case(prod_small, pvt, make_params()))
run("plot clean", plot_case(prod_clean, pvt, make_params()))
run("plot gaps filter on", plot_case(prod_gaps, pvt, make_params()))
run("plot gaps filter off", plot_case(prod_gaps, pvt, make_params(), filter_zero_prod_days=False))
run("plot clean filter off", plot_case(prod_small, pvt, make_params(), filter_zero_prod_days=False))
run("plot window 1", plot_case(prod_small, pvt, make_params(), filter_window_size=1, filter_zero_prod_days=True))
run("plot window 4 name", plot_case(prod_gaps, pvt, make_params(tau=99.5, M=2222.25), 4, True, "LOON #20"))
run("plot window 3 filter off", plot_case(prod_small, pvt, make_params(), 3, False))
run("plot all keywords", plot_case(
    prod_data=prod_small, pvt_table=pvt, params=make_params(order=("p_initial", "M", "tau")),
    filter_window_size=2, filter_zero_prod_days=True, well_name="kw"))
run("plot falsy filter 0", plot_case(prod_small, pvt, make_params(), filter_zero_prod_days=0))
run("plot truthy filter 2", plot_case(prod_gaps, pvt, make_params(), filter_zero_prod_days=2))
run("plot filter None", plot_case(prod_small, pvt, make_params(), filter_zero_prod_days=None))
run("plot filter array", plot_case(prod_small, pvt, make_params(), filter_zero_prod_days=np.array([1, 0])))
run("plot int gas", plot_case(prod_int, pvt, make_params()))
run("plot well_name None", plot_case(prod_small, pvt, make_params(), well_name=None))
run("plot well_name underscore", plot_case(prod_small, pvt, make_params(), well_name="_hidden"))
run("plot fitted params", lambda: plot_result(plot_production_comparison(
    prod_small, pvt, fit_production_pressure(prod_small, pvt, 5000.0, n_iter=3).params)))
run("plot date index filter on", plot_case(prod_dates, pvt, make_params()))
run("plot date index filter off", plot_case(prod_dates, pvt, make_params(), filter_zero_prod_days=False))
run("plot shifted index filter on", plot_case(prod_shift, pvt, make_params()))
run("plot shifted index filter off", plot_case(prod_shift, pvt, make_params(), filter_zero_prod_days=False))
run("plot tau zero", plot_case(prod_small, pvt, make_params(tau=0.0)))
run("plot M zero", plot_case(prod_small, pvt, make_params(M=0.0)))
run("plot p_initial low", plot_case(prod_small, pvt, make_params(p_initial=300.0)))
run("plot p_initial above table", plot_case(prod_small, pvt, make_params(p_initial=1e6)))
for drop in (("tau",), ("M",), ("p_initial",), ("tau", "M"), ("tau", "p_initial"), ("tau", "M", "p_initial")):
    run(f"plot missing {drop}", plot_case(prod_small, pvt, make_params(drop=drop)))
run("plot params dict", plot_case(prod_small, pvt, {"tau": 1.0, "M": 2.0, "p_initial": 3.0}))
run("plot params None", plot_case(prod_small, pvt, None))
run("plot one row", plot_case(prod_one, pvt, make_params()))
run("plot two rows", plot_case(prod_two, pvt, make_params()))
run("plot empty", plot_case(prod_empty, pvt, make_params()))
run("plot empty filter off", plot_case(prod_empty, pvt, make_params(), filter_zero_prod_days=False))
run("plot all zero gas", plot_case(prod_allzero, pvt, make_params()))
run("plot no Gas", plot_case(prod_nogas, pvt, make_params()))
run("plot no Pressure", plot_case(prod_nopressure, pvt, make_params()))
run("plot no Days", plot_case(prod_nodays, pvt, make_params()))
run("plot no Days filter off", plot_case(prod_nodays, pvt, make_params(), filter_zero_prod_days=False))
run("plot no Gas filter off", plot_case(prod_nogas, pvt, make_params(), filter_zero_prod_days=False))
run("plot object pressure filter on", plot_case(prod_objp, pvt, make_params()))
run("plot object pressure filter off", plot_case(prod_objp, pvt, make_params(), filter_zero_prod_days=False))
run("plot bad table", plot_case(prod_small, pvt_short, make_params()))
run("plot window 0", plot_case(prod_small, pvt, make_params(), filter_window_size=0))
run("plot window str", plot_case(prod_small, pvt, make_params(), filter_window_size="3"))
run("plot dict input", plot_case({"Days": [0, 1], "Gas": [1, 2], "Pressure": [3, 4]}, pvt, make_params()))
run("plot missing args", plot_case(prod_small, pvt))
run("plot unknown kwarg", plot_case(prod_small, pvt, make_params(), name="x"))
before2 = prod_gaps.copy()
run("plot leaves input untouched", lambda: (
    plot_production_comparison(prod_gaps, pvt, make_params(), 3),
    repr(bool(before2.equals(prod_gaps))))[1])
run("plot keeps figure open", lambda: (
    plot_production_comparison(prod_small, pvt, make_params()),
    plot_production_comparison(prod_small, pvt, make_params()),
    repr(plt.get_fignums()))[2])

with open(sys.argv[1], "w") as fh:
    fh.write("\n".join(OUT) + "\n")
