"""Equivalence driver for twin2: oil_compressibility_undersat_Spivey (pre-allocated log table)."""
import os
import sys
import warnings

import numpy as np
import pandas as pd

from bluebonnet.fluids import oil
from bluebonnet.fluids.fluid import Fluid

DATA = os.environ.get("BB_DATA", "/tmp/twin5_oil/tests/data")


def show(x):
    if isinstance(x, pd.Series):
        return "Series" + show(x.to_numpy()) + repr(list(x.index))
    if isinstance(x, np.ma.MaskedArray):
        return "masked" + show(np.asarray(x.filled(-999.0))) + repr(np.ma.getmaskarray(x).tolist())
    if isinstance(x, np.ndarray):
        return f"ndarray{x.shape}{x.dtype}" + repr([show(v) for v in x.ravel().tolist()])
    if isinstance(x, (float, np.floating)):
        return type(x).__name__ + ":" + repr(float(x)) if type(x) is not np.longdouble else "ld:" + repr(x)
    if isinstance(x, (list, tuple)):
        return type(x).__name__ + repr([show(v) for v in x])
    return type(x).__name__ + ":" + repr(x)


def call(out, label, f, *a, **k):
    with warnings.catch_warnings(record=True) as w:
        warnings.simplefilter("always")
        try:
            r = show(f(*a, **k))
        except BaseException as e:  # noqa: BLE001
            r = "EXC " + type(e).__name__
    cats = sorted({x.category.__name__ for x in w})
    out.append(f"{label} -> {r} warn={cats}")


def main(outfile):
    out = []
    f32 = np.float32
    params = [
        (200, 35, 0.8, 650),
        (200.0, 35.0, 0.8, 650.0),
        (150.0, 45.0, 0.65, 1200.0),
        (250.0, 20.0, 1.1, 150.0),
        (100.0, 30.0, 0.7, 5.0),  # negative bubble point -> log of negative numbers
        (200.0, 35.0, 0.8, 0.0),
        (np.float64(180.0), np.float64(40.0), np.float64(0.75), np.float64(800.0)),
        (f32(180.0), f32(40.0), f32(0.75), f32(800.0)),
        (np.float16(180.0), np.float16(40.0), np.float16(0.75), np.float16(800.0)),
        (np.longdouble(180.0), np.longdouble(40.0), np.longdouble(0.75), np.longdouble(800.0)),
        (np.int64(180), np.int32(40), 0.75, np.uint8(200)),
        (True, 35.0, 0.8, 650.0),
        (200.0, 35.0, 0.8, 2**62 + 1),
        (2**62 + 1, 35.0, 0.8, 650.0),
        (200.0, 35.0, 0.8, 2**63),
        (200.0, 35.0, 0.8, 10**30),
        (200.0, 10**30, 0.8, 650.0),
        (200.0, -(10**30), 0.8, 650.0),
        (np.array(200.0), 35.0, 0.8, 650.0),
        (np.array([200.0]), 35.0, 0.8, 650.0),
        (200.0, 35.0, 0.8, np.array([650.0])),
        (200.0, 35.0, 0.8, np.array([650.0, 700.0, 800.0])),
        (0.0, 35.0, 0.8, 650.0),
        (-10.0, 35.0, 0.8, 650.0),
        (200.0, 35.0, -0.8, 650.0),
        (200.0, 35.0, 0.0, 650.0),
        (200.0, 35.0, 0.8, -650.0),
        (200.0, 0.0, 0.8, 650.0),
        (200.0, 35.0, 0.8, float("nan")),
        (200.0, 35.0, 0.8, float("inf")),
        ("a", 35.0, 0.8, 650.0),
        (200.0, None, 0.8, 650.0),
        (200.0, 35.0, 0.8, 1 + 2j),
    ]
    arrays = {
        "mixed": np.array([14.7, 500.0, 1500.0, 2000.0, 2600.0, 3000.0, 5000.0, 9000.0]),
        "above": np.array([2700.0, 3000.0, 4000.0, 6000.0, 9000.0, 12000.0]),
        "three": np.array([3000.0, 4000.0, 6000.0]),
        "single": np.array([3000.0]),
        "ints": np.array([3000, 4000, 8000]),
        "i32": np.array([3000, 4000, 8000], dtype=np.int32),
        "f32": np.array([3000, 4000, 8000], dtype=np.float32),
        "f16": np.array([3000, 4000, 8000], dtype=np.float16),
        "ld": np.array([3000, 4000, 8000], dtype=np.longdouble),
        "cplx": np.array([3000, 4000, 8000], dtype=complex),
        "bool": np.array([True, False, True]),
        "obj": np.array([3000.0, 4000, 8000.0], dtype=object),
        "str": np.array(["a", "b", "c"]),
        "empty": np.array([], dtype=float),
        "empty2d": np.empty((0, 3)),
        "twod": np.array([[3000.0, 4000.0, 9000.0], [5000.0, 6000.0, 7000.0]]),
        "col": np.array([[3000.0], [5000.0], [9000.0]]),
        "row": np.array([[3000.0, 5000.0, 9000.0]]),
        "one_one": np.array([[3000.0]]),
        "zero_d": np.array(3000.0),
        "inf": np.array([3000.0, np.inf, 4000.0]),
        "nan": np.array([3000.0, np.nan, 4000.0]),
        "zero": np.array([0.0, 3000.0, 4000.0]),
        "neg": np.array([-5.0, 3000.0, 4000.0]),
        "strided": np.linspace(2000.0, 9000.0, 20)[::3],
        "reversed": np.linspace(2000.0, 9000.0, 9)[::-1],
        "big": np.linspace(10.0, 12000.0, 301),
        "masked": np.ma.masked_array([3000.0, 4000.0, 8000.0], mask=[False, True, False]),
        "matrix": np.asmatrix([[3000.0, 4000.0, 8000.0]]),
        "series": pd.Series([3000.0, 4000.0, 8000.0], index=[2, 1, 0]),
        "list": [3000.0, 4000.0, 8000.0],
        "tuple": (3000.0, 4000.0),
    }
    for pars in params:
        T, api, sg, gor = pars
        for name, p in arrays.items():
            call(out, f"spivey {pars!r} {name}", oil.oil_compressibility_undersat_Spivey,
                 T, p, api, sg, gor)
        for p in [3000.0, 3000, 14.7, np.float64(5000.0), np.float32(5000.0), 0.0, -1.0,
                  float("nan"), float("inf"), None, "x"]:
            call(out, f"spivey {pars!r} scalar {p!r}", oil.oil_compressibility_undersat_Spivey,
                 T, p, api, sg, gor)
            call(out, f"co {pars!r} scalar {p!r}", oil.oil_compressibility_Standing,
                 T, p, api, sg, gor, -72.2, 653.0)
        try:
            pb_nan = bool(np.any(np.isnan(oil.pressure_bubblepoint_Standing(T, api, sg, gor))))
        except Exception:  # noqa: BLE001
            pb_nan = False
        if pb_nan:
            continue  # b_o_Standing leaves its np.empty buffer unassigned: not reproducible
        for name in ["mixed", "above", "ints", "f32", "twod", "empty", "big", "series"]:
            call(out, f"bo {pars!r} {name}", oil.b_o_Standing, T, arrays[name], api, sg, gor)
            call(out, f"rho {pars!r} {name}", oil.density_Standing, T, arrays[name], api, sg, gor)
    # inputs must not be modified
    p = np.linspace(100.0, 9000.0, 50)
    keep = p.copy()
    oil.oil_compressibility_undersat_Spivey(200.0, p, 35.0, 0.8, 650.0)
    oil.b_o_Standing(200.0, p, 35.0, 0.8, 650.0)
    out.append(f"input unchanged: {np.array_equal(keep, p)}")
    # two calls give independent results
    r1 = oil.oil_compressibility_undersat_Spivey(200.0, p, 35.0, 0.8, 650.0)
    r1c = r1.copy()
    r2 = oil.oil_compressibility_undersat_Spivey(220.0, p, 30.0, 0.7, 500.0)
    out.append(f"first result untouched by second call: {np.array_equal(r1, r1c)} {r1 is r2}")
    fl = Fluid(200.0, 35.0, 0.8, 650.0)
    call(out, "Fluid.oil_FVF array", fl.oil_FVF, np.linspace(100.0, 8000.0, 40))
    call(out, "Fluid.oil_FVF scalar", fl.oil_FVF, 3400.0)
    pvt = pd.read_csv(os.path.join(DATA, "pvt_oil.csv"))
    call(out, "Fluid.oil_FVF table", fl.oil_FVF, pvt["P"].to_numpy())
    call(out, "Fluid.oil_FVF table float", fl.oil_FVF, pvt["P"].to_numpy(dtype=float))
    with open(outfile, "w") as fh:
        fh.write("\n".join(out) + "\n")


if __name__ == "__main__":
    main(sys.argv[1])
