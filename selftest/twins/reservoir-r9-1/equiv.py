"""Equivalence harness for bluebonnet.flow.reservoir (run: equiv.py <outfile>)."""
from __future__ import annotations

import os
import sys
import warnings
from types import SimpleNamespace

import numpy as np
import pandas as pd

warnings.simplefilter("ignore")

from bluebonnet.flow import (  # noqa: E402
    FlowProperties,
    IdealReservoir,
    MultiPhaseReservoir,
    SinglePhaseReservoir,
    TwoPhaseReservoir,
)
from bluebonnet.flow import reservoir as resmod  # noqa: E402
from bluebonnet.flow.flowproperties import FlowPropertiesSimple  # noqa: E402

DATA = os.environ.get("BB_DATA", "/tmp/twin9_reservoir/tests/data")
OUT = []


def fmt(v):
    if isinstance(v, BaseException):
        return f"EXC {type(v).__name__}: {v}"
    if v is None:
        return "None"
    if hasattr(v, "toarray"):
        return f"sparse {type(v).__name__} {v.shape} " + fmt(v.toarray())
    if isinstance(v, np.ndarray):
        flat = " ".join(repr(float(x)) for x in v.ravel())
        return f"ndarray{v.shape}{v.dtype} [{flat}]"
    if isinstance(v, (float, np.floating)):
        return f"{type(v).__name__} {float(v)!r}"
    return f"{type(v).__name__} {v!r}"


def rec(label, fn):
    try:
        v = fn()
    except BaseException as e:  # noqa: BLE001
        v = e
    OUT.append(f"{label} :: {fmt(v)}")


gas = pd.read_csv(os.path.join(DATA, "pvt_gas.csv")).rename(
    columns={
        "P": "pressure",
        "Z-Factor": "z-factor",
        "Cg": "compressibility",
        "Viscosity": "viscosity",
        "Density": "density",
    }
)
oil = pd.read_csv(os.path.join(DATA, "pvt_oil.csv")).rename(
    columns={
        "P": "pressure",
        "Z-Factor": "z-factor",
        "Co": "compressibility",
        "Oil_Viscosity": "viscosity",
        "Oil_Density": "density",
    }
)
fluids = {
    "gas8000": FlowProperties(gas, 8000.0),
    "gas3000": FlowProperties(gas, 3000.0),
    "oil6000": FlowProperties(oil, 6000.0),
    "simple": FlowPropertiesSimple(gas[["pressure", "compressibility", "viscosity", "density"]], 5000.0),
    "dict": FlowProperties({k: gas[k].to_numpy() for k in gas.columns}, 7000.0),
}


class RaisingFluid:
    """Fluid whose diffusivity lookup fails with ValueError / KeyError."""

    def __init__(self, base, exc):
        self.m_i = base.m_i
        self.m_scaled_func = base.m_scaled_func
        self.pvt_props = base.pvt_props
        self._exc = exc
        self._base = base
        self.calls = 0

    def alpha(self, m):
        self.calls += 1
        if self.calls > 2:
            raise self._exc("boom")
        return self._base.alpha(m)


def grids():
    yield "sq50", np.linspace(0, 3.0, 50) ** 2
    yield "lin7", np.linspace(0.0, 1.0, 7)
    yield "len2", np.array([0.0, 0.5])
    yield "len1", np.array([0.0])
    yield "len3int", np.array([0, 1, 3])
    yield "log", np.concatenate([[0.0], np.logspace(-4, 1, 25)])
    yield "nonmono", np.array([0.0, 0.2, 0.1, 0.4])
    yield "repeat", np.array([0.0, 0.1, 0.1, 0.3])


def full_cycle(label, make, time, sim_kwargs=None):
    sim_kwargs = sim_kwargs or {}
    try:
        r = make()
    except BaseException as e:  # noqa: BLE001
        OUT.append(f"{label} ctor :: {fmt(e)}")
        return
    rec(f"{label} rf-before", lambda: r.recovery_factor())
    rec(f"{label} interp-before", lambda: r.recovery_factor_interpolator())
    rec(f"{label} simulate", lambda: r.simulate(time, **sim_kwargs))
    rec(f"{label} time-is", lambda: r.time is time)
    rec(f"{label} pp", lambda: r.pseudopressure)
    rec(f"{label} has-recovery", lambda: hasattr(r, "recovery"))
    rec(f"{label} fvf", lambda: r.fvf_scale())
    rec(f"{label} rf", lambda: r.recovery_factor())
    rec(f"{label} rf-cached-is", lambda: r.recovery is r.recovery_factor.__self__.recovery)
    rec(f"{label} rf-time", lambda: r.recovery_factor(np.asarray(time) * 2))
    rec(f"{label} rf-density", lambda: r.recovery_factor(density=True))
    rec(f"{label} rf-density-pos", lambda: r.recovery_factor(None, True))
    rec(f"{label} rf-density1", lambda: r.recovery_factor(density=1))

    def interp():
        f = r.recovery_factor_interpolator()
        q = np.array([-1.0, 0.0, 1e-3, 0.05, 0.3, 0.77, 1.0, 5.0, 1e3])
        return f(q)

    rec(f"{label} interp", interp)
    rec(f"{label} interp-type", lambda: type(r.recovery_factor_interpolator()).__name__)
    # second simulation clears the cache
    rec(f"{label} simulate2", lambda: r.simulate(np.asarray(time) * 0.5, **sim_kwargs))
    rec(f"{label} has-recovery2", lambda: hasattr(r, "recovery"))
    rec(f"{label} interp2", interp)
    rec(f"{label} rf2", lambda: r.recovery)


def main():
    # ---- module surface
    rec("module names", lambda: sorted(n for n in dir(resmod) if not n.startswith("__")) and None)
    rec("ATOL", lambda: resmod._ATOL)
    for cls in (IdealReservoir, SinglePhaseReservoir, TwoPhaseReservoir, MultiPhaseReservoir):
        rec(f"{cls.__name__} fields", lambda cls=cls: [f.name for f in __import__("dataclasses").fields(cls)])
        rec(f"{cls.__name__} repr", lambda cls=cls: repr(cls(4, 10.0, 100.0)))
        rec(f"{cls.__name__} eq", lambda cls=cls: cls(4, 10.0, 100.0) == cls(4, 10.0, 100.0))
        rec(f"{cls.__name__} ctor-err", lambda cls=cls: cls())
        rec(f"{cls.__name__} ctor-kw", lambda cls=cls: repr(cls(nx=3, pressure_fracface=1, pressure_initial=2, fluid=None)))
    rec("Multi ctor sats", lambda: repr(MultiPhaseReservoir(5, 1.0, 2.0, None, 0.7, 0.1, 0.2)))
    rec("Two ctor sw", lambda: repr(TwoPhaseReservoir(5, 1.0, 2.0, None, 0.3)))

    # ---- _build_matrix
    rng = np.random.default_rng(7)
    for n in (1, 2, 3, 5, 12):
        k = rng.uniform(0.01, 20.0, n)
        k0 = k.copy()
        rec(f"build n={n}", lambda k=k: resmod._build_matrix(k))
        rec(f"build n={n} format", lambda k=k: resmod._build_matrix(k).format)
        rec(f"build n={n} dtype", lambda k=k: str(resmod._build_matrix(k).dtype))
        rec(f"build n={n} input-untouched", lambda k=k, k0=k0: bool(np.array_equal(k, k0)))
    rec("build ints", lambda: resmod._build_matrix(np.array([1, 2, 3])))
    rec("build empty", lambda: resmod._build_matrix(np.array([])))
    rec("build scalar", lambda: resmod._build_matrix(2.0))
    rec("build list", lambda: resmod._build_matrix([1.0, 2.0, 3.0]))
    rec("build 2d", lambda: resmod._build_matrix(np.ones((3, 3))))
    rec("build nan", lambda: resmod._build_matrix(np.array([1.0, np.nan, 2.0])))
    rec("build zeros", lambda: resmod._build_matrix(np.zeros(4)))

    # ---- IdealReservoir
    for gname, t in grids():
        for nx in (2, 3, 4, 17):
            for pf, pi in ((100.0, 8000.0), (1000, 4000)):
                full_cycle(
                    f"Ideal nx={nx} {gname} pf={pf}",
                    lambda nx=nx, pf=pf, pi=pi: IdealReservoir(nx, pf, pi, fluids["gas8000"]),
                    t,
                )
    full_cycle("Ideal nofluid", lambda: IdealReservoir(6, 50.0, 500.0), np.linspace(0, 2, 9))
    full_cycle("Ideal nx=1", lambda: IdealReservoir(1, 50.0, 500.0, fluids["gas8000"]), np.linspace(0, 2, 5))
    full_cycle("Ideal nx=0", lambda: IdealReservoir(0, 50.0, 500.0, fluids["gas8000"]), np.linspace(0, 2, 5))
    full_cycle("Ideal nx=-3", lambda: IdealReservoir(-3, 50.0, 500.0, fluids["gas8000"]), np.linspace(0, 2, 5))
    full_cycle("Ideal nx=2.0", lambda: IdealReservoir(2.0, 50.0, 500.0, fluids["gas8000"]), np.linspace(0, 2, 5))
    full_cycle("Ideal listtime", lambda: IdealReservoir(5, 50.0, 500.0, fluids["gas8000"]), [0.0, 0.1, 0.2])
    full_cycle("Ideal emptytime", lambda: IdealReservoir(5, 50.0, 500.0, fluids["gas8000"]), np.array([]))
    full_cycle("Ideal 2dtime", lambda: IdealReservoir(5, 50.0, 500.0, fluids["gas8000"]), np.ones((3, 2)))
    full_cycle("Ideal series", lambda: IdealReservoir(5, 50.0, 500.0, fluids["gas8000"]), pd.Series([0.0, 0.1, 0.3]))
    full_cycle(
        "Ideal series-idx",
        lambda: IdealReservoir(5, 50.0, 500.0, fluids["gas8000"]),
        pd.Series([0.0, 0.1, 0.3], index=[5, 6, 7]),
    )
    full_cycle("Ideal pf-array", lambda: IdealReservoir(5, np.array([50.0, 60.0, 70.0]), 500.0, fluids["gas8000"]), np.array([0.0, 0.1, 0.3]))
    full_cycle("Ideal pi=0", lambda: IdealReservoir(5, 50.0, 0, fluids["gas8000"]), np.array([0.0, 0.1, 0.3]))
    full_cycle("Ideal nan-time", lambda: IdealReservoir(5, 50.0, 500.0, fluids["gas8000"]), np.array([0.0, np.nan, 0.3]))
    rec("Ideal alpha_scaled", lambda: IdealReservoir(5, 1.0, 2.0).alpha_scaled(np.array([0.1, 0.2])))
    rec("Ideal alpha_scaled int", lambda: IdealReservoir(5, 1.0, 2.0).alpha_scaled(np.array([1, 2])))
    rec("Ideal alpha_scaled scalar", lambda: IdealReservoir(5, 1.0, 2.0).alpha_scaled(0.5))

    # ---- SinglePhase / TwoPhase
    for cls in (SinglePhaseReservoir, TwoPhaseReservoir):
        for fname, fl in fluids.items():
            for gname, t in grids():
                for nx in (2, 3, 11):
                    full_cycle(
                        f"{cls.__name__} {fname} nx={nx} {gname}",
                        lambda cls=cls, nx=nx, fl=fl: cls(nx, 500.0, 2500.0, fl),
                        t,
                    )
    t = np.linspace(0, 1.5, 12) ** 2
    fl = fluids["gas8000"]
    full_cycle("SP pf-series", lambda: SinglePhaseReservoir(9, 300.0, 8000.0, fl), t, {"pressure_fracface": np.linspace(4000.0, 300.0, 12)})
    full_cycle("SP pf-list", lambda: SinglePhaseReservoir(9, 300.0, 8000.0, fl), t, {"pressure_fracface": list(np.linspace(4000.0, 300.0, 12))})
    full_cycle("SP pf-short", lambda: SinglePhaseReservoir(9, 300.0, 8000.0, fl), t, {"pressure_fracface": np.linspace(4000.0, 300.0, 11)})
    full_cycle("SP pf-long", lambda: SinglePhaseReservoir(9, 300.0, 8000.0, fl), t, {"pressure_fracface": np.linspace(4000.0, 300.0, 13)})
    full_cycle("SP pf-empty", lambda: SinglePhaseReservoir(9, 300.0, 8000.0, fl), t, {"pressure_fracface": []})
    full_cycle("SP pf-scalar", lambda: SinglePhaseReservoir(9, 300.0, 8000.0, fl), t, {"pressure_fracface": 300.0})
    full_cycle("SP pf-oob", lambda: SinglePhaseReservoir(9, 300.0, 8000.0, fl), t, {"pressure_fracface": np.full(12, 1e9)})
    full_cycle("SP pf-attr-oob", lambda: SinglePhaseReservoir(9, -5.0, 8000.0, fl), t)
    full_cycle("SP pf-attr-array", lambda: SinglePhaseReservoir(9, np.linspace(4000.0, 300.0, 12), 8000.0, fl), t)
    full_cycle("SP pf-attr-array-bad", lambda: SinglePhaseReservoir(9, np.linspace(4000.0, 300.0, 5), 8000.0, fl), t)
    full_cycle("SP pf-above-init", lambda: SinglePhaseReservoir(9, 9000.0, 8000.0, fl), t)
    full_cycle("SP nx=1", lambda: SinglePhaseReservoir(1, 300.0, 8000.0, fl), t)
    full_cycle("SP nx=0", lambda: SinglePhaseReservoir(0, 300.0, 8000.0, fl), t)
    full_cycle("SP nx=-2", lambda: SinglePhaseReservoir(-2, 300.0, 8000.0, fl), t)
    full_cycle("SP nx=3.0", lambda: SinglePhaseReservoir(3.0, 300.0, 8000.0, fl), t)
    full_cycle("SP nofluid", lambda: SinglePhaseReservoir(5, 300.0, 8000.0), t)
    full_cycle("SP listtime", lambda: SinglePhaseReservoir(5, 300.0, 8000.0, fl), [0.0, 0.1, 0.4])
    full_cycle("SP tupletime", lambda: SinglePhaseReservoir(5, 300.0, 8000.0, fl), (0.0, 0.1, 0.4))
    full_cycle("SP emptytime", lambda: SinglePhaseReservoir(5, 300.0, 8000.0, fl), np.array([]))
    full_cycle("SP scalartime", lambda: SinglePhaseReservoir(5, 300.0, 8000.0, fl), 3.0)
    full_cycle("SP series", lambda: SinglePhaseReservoir(5, 300.0, 8000.0, fl), pd.Series([0.0, 0.1, 0.3]))
    full_cycle("SP series-idx", lambda: SinglePhaseReservoir(5, 300.0, 8000.0, fl), pd.Series([0.0, 0.1, 0.3], index=[5, 6, 7]))
    full_cycle("SP 2dtime", lambda: SinglePhaseReservoir(5, 300.0, 8000.0, fl), np.ones((3, 2)))
    full_cycle("SP nan-time", lambda: SinglePhaseReservoir(5, 300.0, 8000.0, fl), np.array([0.0, np.nan, 0.3]))
    full_cycle("SP neg-dt", lambda: SinglePhaseReservoir(5, 300.0, 8000.0, fl), np.array([0.0, 5.0, 0.0, -50.0]))
    for exc in (ValueError, KeyError, ZeroDivisionError):
        full_cycle(
            f"SP raising-{exc.__name__}",
            lambda exc=exc: SinglePhaseReservoir(5, 300.0, 8000.0, RaisingFluid(fl, exc)),
            np.linspace(0, 1, 6),
        )
        full_cycle(
            f"SP raising-short-{exc.__name__}",
            lambda exc=exc: SinglePhaseReservoir(5, 300.0, 8000.0, RaisingFluid(fl, exc)),
            np.linspace(0, 1, 2),
        )
    rec("SP alpha_scaled", lambda: SinglePhaseReservoir(5, 300.0, 8000.0, fl).alpha_scaled(np.linspace(0, 1.2, 7)))
    rec("SP alpha_scaled scalar", lambda: SinglePhaseReservoir(5, 300.0, 8000.0, fl).alpha_scaled(0.4))
    rec("SP fvf", lambda: SinglePhaseReservoir(5, 300.0, 8000.0, fl).fvf_scale())

    # a user-supplied pseudopressure field (attributes are public)
    def manual(nx, density):
        r = SinglePhaseReservoir(nx, 300.0, 8000.0, fl)
        r.time = np.linspace(0, 1, 5)
        r.pseudopressure = np.linspace(0.2, 1.0, 5 * nx).reshape(5, nx)
        return r.recovery_factor(density=density)

    for nx in (1, 2, 3, 4, 8):
        for density in (False, True):
            rec(f"SP manual nx={nx} density={density}", lambda nx=nx, density=density: manual(nx, density))

    def manual_rank(shape, density):
        r = SinglePhaseReservoir(4, 300.0, 8000.0, fl)
        r.time = np.linspace(0, 1, 2)
        n = int(np.prod(shape)) if shape else 1
        r.pseudopressure = np.linspace(0.2, 1.0, n).reshape(shape)
        return r.recovery_factor(density=density)

    for shape in ((), (6,), (2, 3, 4), (2, 0), (1, 3)):
        for density in (False, True):
            rec(f"SP manual shape={shape} density={density}", lambda shape=shape, density=density: manual_rank(shape, density))

    def manual_recovery():
        r = SinglePhaseReservoir(4, 300.0, 8000.0, fl)
        r.time = np.linspace(0, 1, 5)
        r.recovery = np.linspace(0, 0.5, 5)
        return r.recovery_factor_interpolator()(np.array([-1, 0.1, 0.5, 2.0]))

    rec("SP manual recovery", manual_recovery)

    def manual_recovery_none():
        r = SinglePhaseReservoir(4, 300.0, 8000.0, fl)
        r.time = np.linspace(0, 1, 5)
        r.recovery = None
        return r.recovery_factor_interpolator()

    rec("SP manual recovery None", manual_recovery_none)

    # ---- MultiPhase
    mp = MultiPhaseReservoir(5, 300.0, 8000.0, fl, 0.7, 0.1, 0.2)
    rec("MP simulate", lambda: mp.simulate(np.linspace(0, 1, 5)))
    rec("MP simulate bad", lambda: mp.simulate(None))
    rec("MP rf", lambda: mp.recovery_factor())
    rec("MP step", lambda: mp._step_saturation(None, None, None) is NotImplementedError)
    sat = np.zeros(4, dtype=[(s, np.float64) for s in ("So", "Sg", "Sw")])
    sat["So"] = [0.5, 0.6, 0.7, 0.8]
    sat["Sg"] = [0.3, 0.2, 0.1, 0.05]
    sat["Sw"] = 1 - sat["So"] - sat["Sg"]
    rec("MP alpha_scaled interp1d", lambda: mp.alpha_scaled(np.linspace(0.1, 1, 4), sat))
    calls = []

    def fake_alpha(m, *sats):
        calls.append((fmt(np.asarray(m)), tuple(fmt(np.asarray(s)) for s in sats)))
        if not sats:
            return 2.0 * m + 3.0
        so, sg, sw = sats
        return m * (1.0 + so) + 2.0 * sg - 3.0 * sw

    mp2 = MultiPhaseReservoir(5, 300.0, 8000.0, SimpleNamespace(alpha=fake_alpha), 0.7, 0.1, 0.2)
    rec("MP alpha_scaled fake", lambda: mp2.alpha_scaled(np.linspace(0.1, 1, 4), sat))
    rec("MP alpha_scaled fake dict", lambda: mp2.alpha_scaled(0.5, {"So": 0.5, "Sg": 0.25, "Sw": 0.25}))
    rec("MP alpha_scaled fake df", lambda: mp2.alpha_scaled(np.linspace(0.1, 1, 4), pd.DataFrame(sat)).to_numpy())
    rec("MP alpha_scaled missing Sg", lambda: mp2.alpha_scaled(0.5, {"So": 0.5, "Sw": 0.25}))
    rec("MP alpha_scaled missing So", lambda: mp2.alpha_scaled(0.5, {"Sg": 0.5, "Sw": 0.25}))
    rec("MP alpha_scaled missing Sw", lambda: mp2.alpha_scaled(0.5, {"Sg": 0.5, "So": 0.25}))
    rec("MP alpha_scaled none", lambda: mp2.alpha_scaled(0.5, None))
    rec("MP alpha_scaled noarg", lambda: mp2.alpha_scaled(0.5))
    rec("MP alpha calls", lambda: repr(calls))

    with open(sys.argv[1], "w") as fh:
        fh.write("\n".join(OUT) + "\n")


if __name__ == "__main__":
    main()
