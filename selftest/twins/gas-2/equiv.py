"""Equivalence driver for twin2 (z_factor_hallyarbrough: hoisted loop invariants)."""
import itertools
import signal
import sys
import warnings

import numpy as np

warnings.simplefilter("ignore")

from bluebonnet.fluids import gas

out = []


class _Timeout(Exception):
    pass


def _alarm(signum, frame):
    raise _Timeout


signal.signal(signal.SIGALRM, _alarm)


def fmt(v):
    if isinstance(v, np.ndarray):
        return "array[" + ", ".join(fmt(x) for x in v.ravel().tolist()) + "]"
    if isinstance(v, (complex, np.complexfloating)):
        return repr(complex(v))
    if isinstance(v, (float, np.floating)):
        return repr(float(v))
    return repr(v)


def rec(label, fn, *args, **kwargs):
    signal.alarm(5)
    try:
        res = fmt(fn(*args, **kwargs))
    except _Timeout:
        res = "TIMEOUT"
    except Exception as exc:  # record only the type
        res = "EXC:" + type(exc).__name__
    finally:
        signal.alarm(0)
    out.append(f"{label} {args!r} {kwargs!r} -> {res}")


# the function takes pseudo-reduced pressure and pseudo-reduced temperature
pressures = [0.01, 0.2, 0.5, 1.0, 1.5, 2.0, 3.5, 5.0, 8.0, 12.0, 15.0, 1, 3]
temperatures = [1.05, 1.2, 1.35, 1.5, 1.75, 2.0, 2.4, 3.0, 2, 1.0, 5.0]
for p, t in itertools.product(pressures, temperatures):
    rec("hy", gas.z_factor_hallyarbrough, p, t)
for p, t in itertools.product(pressures[::3], temperatures[::3]):
    rec("hy_np", gas.z_factor_hallyarbrough, np.float64(p), np.float64(t))
    rec("hy_f32", gas.z_factor_hallyarbrough, np.float32(p), np.float32(t))
rng = np.random.default_rng(20240607)
for p, t in zip(rng.uniform(0.05, 14.0, 150), rng.uniform(1.05, 3.0, 150)):
    rec("hy_rand", gas.z_factor_hallyarbrough, float(p), float(t))

rec("hy_kw", gas.z_factor_hallyarbrough, pressure=2.5, temperature=1.6)
rec("hy_kw_swapped", gas.z_factor_hallyarbrough, temperature=1.6, pressure=2.5)

edge = [
    (0.0, 1.5),
    (-1.0, 1.5),
    (2.0, 0),
    (2.0, 0.0),
    (2.0, -1.5),
    (2.0, 0.5),
    (2.0, 0.9),
    (40.0, 1.3),
    (1e-12, 1.5),
    (2.0, 1e6),
    (2.0, 1e-200),
    (2.0, 1e-120),
    (2.0, float("inf")),
    (2.0, float("nan")),
    (float("nan"), 1.5),
    (float("inf"), 1.5),
    ("2.0", 1.5),
    (2.0, "1.5"),
    (None, 1.5),
    (2.0, None),
    ([1.0, 2.0], 1.5),
    (np.array([1.0, 2.0, 3.0]), 1.5),
    (np.array([2.0]), 1.5),
    (2.0, np.array([1.5, 1.6])),
    (2.0, np.array([1.5])),
    (np.array([2.0]), np.array([1.5])),
    (np.array([]), 1.5),
    (2 + 0j, 1.5),
    (2.0, 1.5 + 0j),
    (True, 2),
]
for e in edge:
    rec("hy_edge", gas.z_factor_hallyarbrough, *e)
rec("hy_missing", gas.z_factor_hallyarbrough, 2.0)
rec("hy_extra", gas.z_factor_hallyarbrough, 2.0, 1.5, 3.0)

with open(sys.argv[1], "w") as fh:
    fh.write("\n".join(out) + "\n")
