"""Equivalence driver for bluebonnet.forecast.forecast_pressure.

usage: PYTHONPATH=<tree>/src /venv/bin/python equiv.py <outfile>

Calls fit_production_pressure, plot_production_comparison and the private
objective on a broad set of inputs and writes every observable result
(full-precision repr, or the exception type) to <outfile>.
"""

from __future__ import annotations

import os
import sys
import warnings

import matplotlib

matplotlib.use("Agg")

import matplotlib.pyplot as plt
import numpy as np
import pandas as pd
from lmfit import Parameters

import bluebonnet  # noqa: F401  (registers the squareroot scale)
from bluebonnet.flow import FlowProperties, SinglePhaseReservoir
from bluebonnet.forecast import (
    fit_production_pressure,
    forecast_pressure,
    plot_production_comparison,
)

DATA = os.environ.get("BB_DATA", "/tmp/twin5_forecast_pressure/tests/data")
warnings.simplefilter("ignore")
np.seterr(all="ignore")

OUT: list[str] = []


def fmt(x):
    """Full-precision, type-tagged text of a result."""
    if isinstance(x, (pd.Series, pd.Index)):
        return f"{type(x).__name__}[{x.dtype}]" + fmt(np.asarray(x))
    if isinstance(x, np.ndarray):
        if x.dtype.kind == "f":
            body = ",".join(repr(float(v)) for v in x.ravel())
        else:
            body = ",".join(repr(v) for v in x.ravel().tolist())
        return f"nd{x.shape}{x.dtype}[{body}]"
    if isinstance(x, (float, np.floating)):
        return f"{type(x).__name__}:{float(x)!r}"
    if isinstance(x, (tuple, list)):
        return "(" + ";".join(fmt(v) for v in x) + ")"
    return f"{type(x).__name__}:{x!r}"


def record(label, fn):
    try:
        res = fn()
    except Exception as e:  # noqa: BLE001
        detail = f" {e}" if os.environ.get("BB_EXC_MSG") else ""  # own checks only
        OUT.append(f"{label} -> EXC {type(e).__name__}{detail}")
    else:
        OUT.append(f"{label} -> {res}")
    plt.close("all")


# ----------------------------------------------------------------- inputs
pvt = pd.read_csv(os.path.join(DATA, "pvt_gas_HAYNESVILLE SHALE_20.csv"))
pvt_small = pd.read_csv(os.path.join(DATA, "pvt_gas.csv"))
PI = 5000.0


def synthetic(n, tau=180.0, kind="steps", seed=0):
    """Synthetic well: returns DataFrame Days/Gas/Pressure (+ an extra column)."""
    rng = np.random.default_rng(seed)
    t = np.linspace(0, np.sqrt(3.0), n) ** 2
    if kind == "steps":
        p = np.full(n, 500.0)
        p[n // 4 : n // 2] /= 2.0
        p[n // 2 :] /= 4.0
    elif kind == "noisy":
        p = 900.0 + 300.0 * np.sin(np.arange(n) / 3.0) + rng.normal(0, 25.0, n)
    else:
        p = np.linspace(2500.0, 400.0, n)
    fp = FlowProperties(pvt, PI)
    res = SinglePhaseReservoir(40, 500.0, PI, fp)
    res.simulate(t, p)
    rf = res.recovery_factor()
    rate = np.diff(rf, prepend=0.0) * 1500.0
    return pd.DataFrame(
        {"Extra": np.arange(n)[::-1], "Days": t * tau, "Gas": rate, "Pressure": p}
    )


def with_gaps(df, seed=1):
    """Insert shut-in days (zero gas) and missing pressures."""
    rng = np.random.default_rng(seed)
    df = df.copy()
    n = len(df)
    zero = rng.choice(np.arange(1, n), size=max(1, n // 8), replace=False)
    nan = rng.choice(np.arange(1, n), size=max(1, n // 10), replace=False)
    df.loc[zero, "Gas"] = 0.0
    df.loc[nan, "Pressure"] = np.nan
    return df


def fit_summary(result):
    p = result.params
    vals = [
        (k, p[k].value, p[k].min, p[k].max, p[k].vary, p[k].init_value)
        for k in p
    ]
    return fmt(
        [
            [fmt(v) for v in vals],
            result.nfev,
            result.success,
            result.aborted,
            result.method,
            np.asarray(result.residual),
            result.chisqr,
            result.ndata,
            result.nvarys,
            list(result.var_names),
            np.asarray(result.init_vals),
        ]
    )


def plot_summary(ret):
    fig, axes = ret
    parts = [fmt(tuple(fig.get_size_inches())), fmt(len(fig.axes)), fmt(len(axes))]
    for ax in axes:
        parts.append(fmt([ax.get_xlabel(), ax.get_ylabel(), ax.get_xscale(), ax.get_yscale()]))
        parts.append(fmt([ax.get_xlim(), ax.get_ylim()]))
        leg = ax.get_legend()
        parts.append(fmt([t.get_text() for t in leg.get_texts()]) if leg else "noleg")
        for line in ax.lines:
            parts.append(
                fmt(
                    [
                        line.get_label(),
                        line.get_linestyle(),
                        np.asarray(line.get_xdata(orig=True)),
                        np.asarray(line.get_ydata(orig=True)),
                    ]
                )
            )
    return "|".join(parts)


def make_params(M=1300.0, tau=420.0, p_initial=PI, bounded=False):
    params = Parameters()
    if bounded:
        params.add("tau", value=tau, min=30.0, max=5000.0)
        params.add("M", value=M, min=1.0, max=1e5)
        params.add("p_initial", value=p_initial, min=1000.0, max=12000.0)
    else:
        params.add("M", M)
        params.add("tau", tau)
        params.add("p_initial", p_initial)
    return params


def frame_state(df):
    """Observable state of a caller's table (must not be touched)."""
    return fmt([list(df.columns), list(df.index[:5]), df.shape]) + "".join(
        fmt(df[c]) for c in df.columns
    )


# ------------------------------------------------------------------ cases
steps = synthetic(60, kind="steps")
noisy = synthetic(90, kind="noisy", seed=3)
ramp = synthetic(45, kind="ramp")
gappy = with_gaps(noisy)
gappy_ramp = with_gaps(ramp, seed=7)
shuffled_index = steps.set_index(np.arange(len(steps))[::-1] * 3)
dup_index = steps.set_index(np.arange(len(steps)) // 2)
int_gas = steps.assign(Gas=np.round(steps["Gas"] * 10).astype(np.int64))
int_press = steps.assign(Pressure=steps["Pressure"].astype(np.int64))
f32 = steps.astype({"Gas": np.float32, "Pressure": np.float32})
obj_press = steps.assign(Pressure=steps["Pressure"].astype(object))
all_zero = steps.assign(Gas=0.0)
one_row = steps.iloc[5:6]
two_rows = steps.iloc[5:7]
nan_first = steps.copy()
nan_first.loc[0, "Pressure"] = np.nan
neg_press = steps.assign(Pressure=-steps["Pressure"])
inf_press = steps.copy()
inf_press.loc[10, "Pressure"] = np.inf
high_press = steps.assign(Pressure=steps["Pressure"] + 20000.0)
days_as_index = steps.set_index("Days", drop=False)
string_gas = steps.assign(Gas="a")
be_press = steps.assign(Pressure=np.asarray(steps["Pressure"]).astype(">f8"))
be_gas = steps.assign(Gas=np.asarray(steps["Gas"]).astype(">f8"))
bool_press = steps.assign(Pressure=steps["Pressure"] > 200.0)
f16_press = steps.assign(Pressure=steps["Pressure"].astype(np.float16))
u16_press = steps.assign(Pressure=steps["Pressure"].astype(np.uint16))
complex_press = steps.assign(Pressure=steps["Pressure"].astype(complex))
datetime_press = steps.assign(Pressure=pd.to_datetime(steps["Pressure"].astype("int64"), unit="D"))
nullable_press = noisy.assign(Pressure=noisy["Pressure"].astype("Float64"))
nullable_press_na = gappy.assign(Pressure=gappy["Pressure"].astype("Float64"))
nullable_gas_na = gappy.assign(Gas=gappy["Gas"].astype("Float64").mask(gappy["Gas"] == 0))
cat_press = steps.assign(Pressure=steps["Pressure"].astype("category"))
dup_press_cols = pd.concat([steps, steps[["Pressure"]] * 2.0], axis=1)

frames = {
    "steps": steps,
    "noisy": noisy,
    "ramp": ramp,
    "gappy": gappy,
    "gappy_ramp": gappy_ramp,
    "shuffled_index": shuffled_index,
    "dup_index": dup_index,
    "int_gas": int_gas,
    "int_press": int_press,
    "f32": f32,
    "obj_press": obj_press,
    "all_zero": all_zero,
    "one_row": one_row,
    "two_rows": two_rows,
    "nan_first": nan_first,
    "neg_press": neg_press,
    "inf_press": inf_press,
    "high_press": high_press,
    "days_as_index": days_as_index,
    "string_gas": string_gas,
    "be_press": be_press,
    "be_gas": be_gas,
    "bool_press": bool_press,
    "f16_press": f16_press,
    "u16_press": u16_press,
    "complex_press": complex_press,
    "datetime_press": datetime_press,
    "nullable_press": nullable_press,
    "nullable_press_na": nullable_press_na,
    "nullable_gas_na": nullable_gas_na,
    "cat_press": cat_press,
    "dup_press_cols": dup_press_cols,
    "empty": steps.iloc[0:0],
    "no_gas": steps.drop(columns="Gas"),
    "no_pressure": steps.drop(columns="Pressure"),
    "no_days": steps.drop(columns="Days"),
    "no_cols": steps[["Extra"]],
}
before = {k: frame_state(v) for k, v in frames.items()}
pvt_before = frame_state(pvt)

# fit_production_pressure -------------------------------------------------
for name, df in frames.items():
    for filt in (True, False):
        for win in (None, 1, 5):
            record(
                f"fit[{name},filter={filt},win={win}]",
                lambda df=df, filt=filt, win=win: fit_summary(
                    fit_production_pressure(
                        df, pvt, PI, filter_window_size=win, filter_zero_prod_days=filt, n_iter=3
                    )
                ),
            )

for win in (0, -1, 2, 3, 200, 2.5, "3"):
    record(
        f"fit[noisy,win={win!r}]",
        lambda win=win: fit_summary(
            fit_production_pressure(noisy, pvt, PI, filter_window_size=win, n_iter=2)
        ),
    )

# explicit params, positional arguments, other keywords
record(
    "fit[positional]",
    lambda: fit_summary(fit_production_pressure(gappy, pvt, 4000.0, 3, 12000, 5e4, True, 3, None)),
)
record(
    "fit[positional,params]",
    lambda: fit_summary(
        fit_production_pressure(gappy, pvt, 4000.0, None, 12000, 5e4, False, 2, make_params(bounded=True))
    ),
)
for name in ("steps", "gappy", "empty", "one_row", "no_gas", "nan_first", "all_zero"):
    for filt in (True, False):
        record(
            f"fit[{name},filter={filt},params given]",
            lambda name=name, filt=filt: fit_summary(
                fit_production_pressure(
                    frames[name],
                    pvt,
                    PI,
                    filter_zero_prod_days=filt,
                    n_iter=3,
                    params=make_params(bounded=True),
                )
            ),
        )
record(
    "fit[steps,params unbounded]",
    lambda: fit_summary(fit_production_pressure(steps, pvt, PI, n_iter=3, params=make_params())),
)
record(
    "fit[steps,refit]",
    lambda: fit_summary(
        fit_production_pressure(
            steps, pvt, PI, n_iter=3, params=fit_production_pressure(steps, pvt, PI, n_iter=3).params
        )
    ),
)
for p_i in (5000.0, 13000.0, 13990.0, 14000.0, 200.0, 0.0, -5.0, float("nan"), 5000):
    record(
        f"fit[steps,p_i={p_i!r}]",
        lambda p_i=p_i: fit_summary(fit_production_pressure(steps, pvt, p_i, n_iter=2)),
    )
for kw in (
    {"pressure_imax": 100.0},
    {"pressure_imax": 13000.0},
    {"inplace_max": 1.0},
    {"inplace_max": 1e9},
    {"n_iter": 1},
    {"n_iter": 0},
    {"n_iter": 7},
):
    record(
        f"fit[steps,{kw}]",
        lambda kw=kw: fit_summary(fit_production_pressure(steps, pvt, PI, **{"n_iter": 2, **kw})),
    )
record("fit[pvt_small]", lambda: fit_summary(fit_production_pressure(steps, pvt_small, 4000.0, n_iter=2)))
record(
    "fit[pvt missing col]",
    lambda: fit_summary(fit_production_pressure(steps, pvt.drop(columns="viscosity"), PI, n_iter=2)),
)
record("fit[prod is dict]", lambda: fit_summary(fit_production_pressure({"Days": [1]}, pvt, PI)))
record("fit[prod is None]", lambda: fit_summary(fit_production_pressure(None, pvt, PI)))

# plot_production_comparison -----------------------------------------------
for name, df in frames.items():
    for filt in (True, False):
        for win in (None, 1, 4):
            record(
                f"plot[{name},filter={filt},win={win}]",
                lambda df=df, filt=filt, win=win: plot_summary(
                    plot_production_comparison(
                        df,
                        pvt,
                        make_params(),
                        filter_window_size=win,
                        filter_zero_prod_days=filt,
                    )
                ),
            )
for win in (0, -2, 3, 500, 2.5):
    record(
        f"plot[noisy,win={win!r}]",
        lambda win=win: plot_summary(
            plot_production_comparison(noisy, pvt, make_params(), filter_window_size=win)
        ),
    )
record(
    "plot[positional]",
    lambda: plot_summary(plot_production_comparison(gappy, pvt, make_params(), 3, True, "Well 7")),
)
record(
    "plot[positional,nofilter]",
    lambda: plot_summary(plot_production_comparison(steps, pvt, make_params(), None, False, "W")),
)
for kw in (
    {"M": 0.0},
    {"M": -10.0},
    {"tau": 0.0},
    {"tau": -3.0},
    {"tau": 1.0},
    {"tau": 1e6},
    {"p_initial": 13990.0},
    {"p_initial": 14000.0},
    {"p_initial": 100.0},
    {"p_initial": float("nan")},
    {"bounded": True},
):
    for filt in (True, False):
        record(
            f"plot[steps,{kw},filter={filt}]",
            lambda kw=kw, filt=filt: plot_summary(
                plot_production_comparison(steps, pvt, make_params(**kw), filter_zero_prod_days=filt)
            ),
        )
record(
    "plot[missing param]",
    lambda: plot_summary(plot_production_comparison(steps, pvt, Parameters())),
)
record(
    "plot[params dict]",
    lambda: plot_summary(plot_production_comparison(steps, pvt, {"M": 1.0, "tau": 2.0, "p_initial": PI})),
)
record(
    "plot[fit result params]",
    lambda: plot_summary(
        plot_production_comparison(
            gappy, pvt, fit_production_pressure(gappy, pvt, PI, n_iter=3).params, well_name="fitted"
        )
    ),
)
record("plot[pvt_small]", lambda: plot_summary(plot_production_comparison(steps, pvt_small, make_params(p_initial=4000.0))))
record(
    "plot[pvt missing col]",
    lambda: plot_summary(plot_production_comparison(steps, pvt.drop(columns="z-factor"), make_params())),
)
record("plot[prod is None]", lambda: plot_summary(plot_production_comparison(None, pvt, make_params())))

# the private objective ----------------------------------------------------
obj = forecast_pressure._obj_function
for name in ("steps", "noisy", "ramp"):
    df = frames[name]
    days = np.arange(len(df))
    cum = np.cumsum(np.asarray(df["Gas"]))
    press = np.asarray(df["Pressure"])
    for par in (
        make_params(bounded=True),
        make_params(M=10.0, tau=35.5, p_initial=9000.0, bounded=True),
        make_params(M=1.0, tau=1.0, p_initial=3000.0),
        make_params(tau=0.0),
        make_params(tau=-1.0),
        make_params(p_initial=1e6),
    ):
        label = ",".join(f"{k}={par[k].value!r}" for k in par)
        record(f"obj[{name},{label}]", lambda par=par: fmt(obj(par, days, cum, pvt, press)))
    record(f"obj[{name},float days]", lambda: fmt(obj(make_params(), days * 1.5, cum, pvt, press)))
    record(f"obj[{name},short pressure]", lambda: fmt(obj(make_params(), days, cum, pvt, press[:-1])))
    record(f"obj[{name},short prod]", lambda: fmt(obj(make_params(), days, cum[:-1], pvt, press)))
    record(f"obj[{name},empty]", lambda: fmt(obj(make_params(), days[:0], cum[:0], pvt, press[:0])))
    record(f"obj[{name},list days]", lambda: fmt(obj(make_params(), list(days), cum, pvt, press)))
record("obj[no params]", lambda: fmt(obj(Parameters(), np.arange(3), np.ones(3), pvt, np.ones(3))))

# callers' tables must be untouched ------------------------------------------
for k, v in frames.items():
    OUT.append(f"frame[{k}] unchanged -> {frame_state(v) == before[k]}")
OUT.append(f"pvt unchanged -> {frame_state(pvt) == pvt_before}")
OUT.append("public names -> " + fmt(sorted(n for n in dir(forecast_pressure) if not n.startswith("_"))))
import inspect  # noqa: E402

for f in (fit_production_pressure, plot_production_comparison, obj):
    OUT.append(f"signature[{f.__name__}] -> {inspect.signature(f)}")

with open(sys.argv[1], "w") as fh:
    fh.write("\n".join(OUT) + "\n")
