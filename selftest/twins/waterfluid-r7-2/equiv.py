"""Equivalence harness for twin2: density_water_McCain / Fluid.water_viscosity signatures."""
import sys
import warnings

import numpy as np
import pandas as pd

from bluebonnet.fluids import water
from bluebonnet.fluids.fluid import Fluid
from bluebonnet.fluids.water import density_water_McCain

warnings.simplefilter("ignore")
out = []


def show(x):
    if isinstance(x, pd.Series):
        return "Series[" + " ".join(float(v).hex() for v in x.to_numpy()) + f"] idx={list(x.index)}"
    if isinstance(x, np.ndarray):
        return f"ndarray{x.shape}{x.dtype}[" + " ".join(float(v).hex() for v in x.ravel()) + "]"
    if isinstance(x, (float, np.floating)):
        return f"{type(x).__name__}:{float(x).hex()}"
    return f"{type(x).__name__}:{x!r}"


def record(label, fn):
    try:
        out.append(f"{label}: {show(fn())}")
    except Exception as e:  # noqa: BLE001
        out.append(f"{label}: EXC {type(e).__name__}")


temps = [60, 100.0, 212.5, 400, np.float64(350.0)]
pressures = [
    14.7,
    3000,
    0,
    0.0,
    -100.0,
    1e5,
    np.float64(2500.0),
    np.array([14.7, 1000.0, 5000.0, 12000.0]),
    np.linspace(0, 14000, 15),
    np.array([], dtype=float),
    np.array([[100.0, 200.0], [300.0, 400.0]]),
    np.array([1000, 2000]),
    pd.Series([500.0, 1500.0], index=[3, 7]),
    float("nan"),
    float("inf"),
]
salinities = [0, 0.0, 5.5, 15, 26.0, np.float64(10.0), -3.0]

for t in temps:
    for ip, p in enumerate(pressures):
        for s in salinities:
            record(f"density T={t!r} p#{ip} s={s!r}", lambda t=t, p=p, s=s: density_water_McCain(t, p, s))
# keyword spellings existing callers may use
record("density kw", lambda: density_water_McCain(temperature=400, pressure=3000, salinity=15))
record("density mixed kw", lambda: density_water_McCain(400, 3000, salinity=15))
record("density via module", lambda: water.density_water_McCain(400, np.array([3000.0, 4000.0]), 15))
# error behaviour
record("density 2 args", lambda: density_water_McCain(400, 3000))
record("density 4 positional", lambda: density_water_McCain(400, 3000, 15, 1.0))
record("density list pressure", lambda: density_water_McCain(400, [3000.0, 4000.0], 15))
record("density str salinity", lambda: density_water_McCain(400, 3000.0, "15"))
record("density None pressure", lambda: density_water_McCain(400, None, 15))
record("density None salinity", lambda: density_water_McCain(400, 3000.0, None))
record("density bad kw", lambda: density_water_McCain(400, 3000.0, 15, bw=1.0))
record("density zero division", lambda: density_water_McCain(400, 3000.0, 15) / 1.0)

fluids = [
    Fluid(200, 35, 0.8, 650),
    Fluid(400.0, 35, 0.65, 0, 15),
    Fluid(300.0, 42.0, 0.7, 1200.0, salinity=7.5, water_saturation_initial=0.2),
    Fluid(temperature=150, api_gravity=28, gas_specific_gravity=0.9, solution_gor_initial=300, salinity=26.0),
]
for i, fl in enumerate(fluids):
    out.append(f"fluid#{i} repr: {fl!r}")
    for ip, p in enumerate(pressures):
        record(f"fluid#{i} water_viscosity p#{ip}", lambda fl=fl, p=p: fl.water_viscosity(p))
    record(f"fluid#{i} water_viscosity kw", lambda fl=fl: fl.water_viscosity(pressure=np.array([100.0, 9000.0])))
    record(f"fluid#{i} water_viscosity no arg", lambda fl=fl: fl.water_viscosity())
    record(f"fluid#{i} water_viscosity list", lambda fl=fl: fl.water_viscosity([100.0, 200.0]))
    record(f"fluid#{i} water_viscosity str", lambda fl=fl: fl.water_viscosity("100"))
    record(f"fluid#{i} water_viscosity None", lambda fl=fl: fl.water_viscosity(None))
    record(f"fluid#{i} water_viscosity bad kw", lambda fl=fl: fl.water_viscosity(100.0, salt=3))
    record(f"fluid#{i} water_viscosity 3 positional", lambda fl=fl: fl.water_viscosity(100.0, 3.0, 4.0))
    record(f"fluid#{i} salinity after", lambda fl=fl: fl.salinity)
# salinity None / str on the object still fails the same way
record("fluid salinity None", lambda: Fluid(200, 35, 0.8, 650, None).water_viscosity(1000.0))
record("fluid salinity str", lambda: Fluid(200, 35, 0.8, 650, "3").water_viscosity(1000.0))
record("fluid temperature 0", lambda: Fluid(0, 35, 0.8, 650, 3).water_viscosity(1000.0))
record("fluid temperature 0.0", lambda: Fluid(0.0, 35, 0.8, 650, 3).water_viscosity(np.array([1000.0])))
record("fluid negative temperature", lambda: Fluid(-10.0, 35, 0.8, 650, 3).water_viscosity(1000.0))

with open(sys.argv[1], "w") as f:
    f.write("\n".join(out) + "\n")
