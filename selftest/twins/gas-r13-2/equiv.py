"""Equivalence driver for refactorings of bluebonnet.fluids.gas."""

from __future__ import annotations

import sys
import warnings

import numpy as np

warnings.simplefilter("ignore")

from bluebonnet.fluids import gas  # noqa: E402

out = []


def fmt(v):
    if isinstance(v, tuple):
        return "(" + ", ".join(fmt(x) for x in v) + ")"
    if isinstance(v, np.ndarray):
        if v.dtype.names:
            return f"struct{v.dtype!r}{v.tolist()!r}"
        return f"arr{v.shape}{v.dtype}[" + ", ".join(fmt(x) for x in v.ravel()) + "]"
    if isinstance(v, (float, np.floating)):
        return f"{type(v).__name__}:{float(v)!r}"
    return f"{type(v).__name__}:{v!r}"


def record(label, fn, *args, **kwargs):
    try:
        res = fmt(fn(*args, **kwargs))
    except BaseException as e:  # noqa: BLE001
        res = f"EXC {type(e).__name__}"
        if isinstance(e, ValueError) and "fluid must be" in str(e):
            res += f" {e}"
    out.append(f"{label} {args!r} {kwargs!r} -> {res}")


# make_nonhydrocarbon_properties
nhc_sets = [
    (0.03, 0.012, 0.018),
    (0.05, 0.01, 0.04),
    (0.0, 0.0, 0.0),
    (0.2, 0.3, 0.1),
    (0.01, -0.01, 0.02),
    (0.4, 0.4, 0.3),
]
for s in nhc_sets:
    record("nhc", gas.make_nonhydrocarbon_properties, *s)
record("nhc", gas.make_nonhydrocarbon_properties, 0.01, 0.02, 0.03, ("Helium", 0.01, 4.0, 9.3, 33.0))
record(
    "nhc",
    gas.make_nonhydrocarbon_properties,
    0.01,
    0.02,
    0.03,
    ("Helium", 0.01, 4.0, 9.3, 33.0),
    ("Argon", 0.005, 39.9, 271.0, 705.0),
)
record("nhc", gas.make_nonhydrocarbon_properties, 0.01, 0.02, 0.03, ("bad", 1.0))
record("nhc", gas.make_nonhydrocarbon_properties, "x", 0.02, 0.03)
record("nhc", gas.make_nonhydrocarbon_properties, None, 0.02, 0.03)
record("nhc", gas.make_nonhydrocarbon_properties, 0.01, 0.02)

# pseudocritical points
extra = gas.make_nonhydrocarbon_properties(0.01, 0.02, 0.03, ("Helium", 0.01, 4.0, 9.3, 33.0))
for s in nhc_sets:
    nhc = gas.make_nonhydrocarbon_properties(*s)
    for sg in (0.55, 0.65, 0.8, 1.1, 0.0):
        for fl in ("dry gas", "wet gas"):
            record(f"pc{s}", gas.pseudocritical_point_Sutton, sg, nhc, fl)
        record(f"pc{s}", gas.pseudocritical_point_Sutton, sg, nhc)
for fl in ("dry gas", "wet gas", "oil", "Dry Gas", "", None, 3, ["dry gas"], np.str_("dry gas")):
    record("pcx", gas.pseudocritical_point_Sutton, 0.7, extra, fl)
    record("pcx", gas.pseudocritical_point_Sutton, 0.7, extra, fluid=fl)
record("pcx", gas.pseudocritical_point_Sutton, 0.7, None, "dry gas")
record("pcx", gas.pseudocritical_point_Sutton, 0.7, None, "bad")
record("pcx", gas.pseudocritical_point_Sutton, 0.7, np.zeros(3), "dry gas")
record("pcx", gas.pseudocritical_point_Sutton, np.array([0.6, 0.7]), extra, "wet gas")

# DAK family
temps = [60.0, 150.0, 400.0, 75]
pressures = [14.7, 100.0, 104.7, 1000.0, 5000.0, 12000.0, 20000, 1e-3, 0.0, -50.0]
pcs = [(-102.0, 649.0), (-72.2, 653.26), (-50.0, 700.0)]
for T in temps:
    for p in pressures:
        for tpc, ppc in pcs:
            record("z", gas.z_factor_DAK, T, p, tpc, ppc)
            record("b", gas.b_factor_DAK, T, p, tpc, ppc)
            record("b2", gas.b_factor_DAK, T, p, tpc, ppc, 70.0, 14.65)
            record("c", gas.compressibility_DAK, T, p, tpc, ppc)
            for sg in (0.65, 0.9):
                record("rho", gas.density_DAK, T, p, tpc, ppc, sg)
                record("mu", gas.viscosity_Sutton, T, p, tpc, ppc, sg)
for p in (50.0, 100.0, 2000.0, 9000.0, 14.7, 5.0, 0.0, -10.0):
    record("m", gas.pseudopressure_Hussainy, 400.0, p, -102.0, 649.0, 0.65)
    record("m2", gas.pseudopressure_Hussainy, 150.0, p, -72.2, 653.26, 0.8, pressure_standard=20.0)

# odd inputs
arr = np.array([100.0, 2000.0])
for name in ("z_factor_DAK", "b_factor_DAK", "compressibility_DAK"):
    f = getattr(gas, name)
    record(name, f, 400.0, arr, -102.0, 649.0)
    record(name, f, arr, 100.0, -102.0, 649.0)
    record(name, f, 400.0, np.array([100.0]), -102.0, 649.0)
    record(name, f, 400.0, "100", -102.0, 649.0)
    record(name, f, 400.0, None, -102.0, 649.0)
    record(name, f, 400.0, 100.0, -459.67, 649.0)
    record(name, f, 400.0, 100.0, -102.0, 0.0)
    record(name, f, float("nan"), 100.0, -102.0, 649.0)
    record(name, f, 400.0, float("inf"), -102.0, 649.0)
    record(name, f, np.float64(400.0), np.float64(1000.0), np.float64(-102.0), np.float64(649.0))
    record(name, f, 400.0, 100.0, -102.0)
for name in ("density_DAK", "viscosity_Sutton", "pseudopressure_Hussainy"):
    f = getattr(gas, name)
    record(name, f, 400.0, arr, -102.0, 649.0, 0.65)
    record(name, f, 400.0, None, -102.0, 649.0, 0.65)
    record(name, f, 400.0, 100.0, -102.0, 649.0, -0.65)
    record(name, f, 400.0, 100.0, -102.0, 649.0, 0.0)
    record(name, f, 400.0, 100.0, -102.0, 649.0, "a")
    record(name, f, np.float64(400.0), np.float64(1000.0), np.float64(-102.0), np.float64(649.0), np.float64(0.7))
    record(name, f, 400.0, 100.0, -102.0, 649.0)

# Hall-Yarbrough
for p in (0.5, 1.0, 3.0, 8.0, 15.0, 0.0):
    for t in (1.2, 1.5, 2.0, 3.0, 1.05):
        record("hy", gas.z_factor_hallyarbrough, p, t)
record("hy", gas.z_factor_hallyarbrough, np.array([2.0]), 1.5)
record("hy", gas.z_factor_hallyarbrough, np.array([2.0, 3.0]), 1.5)
record("hy", gas.z_factor_hallyarbrough, 2.0, 0.0)
record("hy", gas.z_factor_hallyarbrough, 2.0, 0)
record("hy", gas.z_factor_hallyarbrough, "a", 1.5)
record("hy", gas.z_factor_hallyarbrough, float("nan"), 1.5)
record("hy", gas.z_factor_hallyarbrough, np.float64(2.0), np.float64(1.5))

# module namespace
out.append("public " + repr(sorted(n for n in dir(gas) if not n.startswith("_") and callable(getattr(gas, n)) and getattr(getattr(gas, n), "__module__", None) == gas.__name__)))

with open(sys.argv[1], "w") as fh:
    fh.write("\n".join(out) + "\n")
