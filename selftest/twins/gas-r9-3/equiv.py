"""Equivalence driver: pseudopressure_Hussainy (and the functions its integrand calls)."""

from __future__ import annotations

import itertools
import sys
import warnings

import numpy as np

from bluebonnet.fluids import gas

out = []


def show(v):
    if isinstance(v, tuple):
        return "(" + ", ".join(show(x) for x in v) + ")"
    if isinstance(v, np.ndarray):
        return f"ndarray{v.shape}{v.dtype!r}{v.tolist()!r}"
    return f"{type(v).__name__}:{v!r}"


def rec(label, fn, *args, **kwargs):
    # also record the categories of the warnings (quad emits IntegrationWarning)
    with warnings.catch_warnings(record=True) as caught:
        warnings.simplefilter("always")
        try:
            res = show(fn(*args, **kwargs))
        except Exception as e:  # noqa: BLE001
            res = f"EXC {type(e).__name__}"
    warned = sorted({w.category.__name__ for w in caught})
    out.append(f"{label} -> {res} warnings={warned}")


m = gas.pseudopressure_Hussainy
temperatures = [400, 60.0, 250.5, np.float64(180.0)]
pressures = [14.7, 14.70, 15, 100, 1000.0, 5000.0, 14000.0, np.float64(2500.0), 10.0, 1.0, 0.0, -5.0, 60000.0]
pcs = [
    (-102, 649, 0.65),
    (-102.21827232417752, 648.510797253794, 0.65),
    (-72.20351526841193, 653.2582064200534, 0.8),
    (np.float64(-90.0), np.float64(660.0), np.float64(0.7)),
]
for t, p, (tpc, ppc, sg) in itertools.product(temperatures, pressures, pcs):
    rec(f"m[{t!r}|{p!r}|{tpc!r}|{ppc!r}|{sg!r}]", m, t, p, tpc, ppc, sg)

# the lower limit of the integral
for ps in (14.7, 14.65, 0.1, 100.0, 2000.0, 0.0, -1.0, np.float64(14.7)):
    for p in (14.7, 100, 2000.0):
        rec(f"m_std[{ps!r}|{p!r}]", m, 400, p, -102, 649, 0.65, ps)
        rec(f"m_std_kw[{ps!r}|{p!r}]", m, 400, p, -102, 649, 0.65, pressure_standard=ps)

odd = [
    (400, 100, -459.67, 649, 0.65),
    (400, 100, -102, 0, 0.65),
    (400, 100, -102, 649, 0.0),
    (400, 100, -102, 649, -0.65),
    (-459.67, 100, -102, 649, 0.65),
    (400, np.array([100.0]), -102, 649, 0.65),
    (400, np.array([100.0, 200.0]), -102, 649, 0.65),
    (np.array([400.0]), 100, -102, 649, 0.65),
    (400, 100, -102, 649, np.array([0.65])),
    ("400", 100, -102, 649, 0.65),
    (400, "100", -102, 649, 0.65),
    (400, 100, -102, 649, "0.65"),
    (None, 100, -102, 649, 0.65),
    (400, None, -102, 649, 0.65),
    (400, 100, None, 649, 0.65),
    (400, 100, -102, None, 0.65),
    (400, 100, -102, 649, None),
    (float("nan"), 100, -102, 649, 0.65),
    (400, float("nan"), -102, 649, 0.65),
    (400, float("inf"), -102, 649, 0.65),
    (400, 100, -102, 649, float("nan")),
    (400, 100, -102, 649),
    (400, 100, -102, 649, 0.65, 14.7, 1),
]
for a in odd:
    rec("m_odd[" + "|".join(repr(x) for x in a) + "]", m, *a)
rec("m_kw", m, temperature=400, pressure=100, temperature_pseudocritical=-102,
    pressure_pseudocritical=649, specific_gravity=0.65)
rec("m_kw_std", m, specific_gravity=0.65, pressure_pseudocritical=649, temperature_pseudocritical=-102,
    pressure=100, temperature=400, pressure_standard=10)
rec("m_bad_kw", m, 400, 100, -102, 649, 0.65, limit=50)

# what the integrand is made of
for t, p in itertools.product(temperatures, [14.7, 100, 1000.0, 14000.0]):
    rec(f"mu[{t!r}|{p!r}]", gas.viscosity_Sutton, t, p, -102, 649, 0.65)
    rec(f"z[{t!r}|{p!r}]", gas.z_factor_DAK, t, p, -102, 649)

with open(sys.argv[1], "w") as f:
    f.write("\n".join(out) + "\n")
